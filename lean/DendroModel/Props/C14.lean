import DendroModel.Model.C14NJ
import DendroModel.Theory.C14Cherry
import DendroModel.Gen.C14Kernels
import Mathlib.Algebra.BigOperators.Group.List.Basic
import Mathlib.Algebra.Field.Basic
import Mathlib.Data.List.Nodup
import Mathlib.Tactic.Ring
import Mathlib.Tactic.FieldSimp
import Mathlib.Tactic.Linarith
import Mathlib.Tactic.LinearCombination
import Mathlib.Data.Rat.Defs
import Mathlib.Data.Nat.Cast.Field
import Mathlib.Data.Int.Cast.Field
import Mathlib.Algebra.Order.Field.Basic
import Mathlib.Algebra.Order.Field.Rat
import Mathlib.Data.Rat.Cast.Order
import Mathlib.Algebra.Order.Ring.Defs
/-! C14 — property theorems (namespace `DendroModel.C14`; helper lemmas in `DendroModel.C14.Aux`).

Clauses of the statement and where they are proved, for every tree / every number type with the stated laws:
 (a) distance matrix: `pdm_pairs_once`, `pdm_cells_nodup`, `pdm_spec`, `pdm_lookup_spec`, `pdm_symm`, `pdm_diag`, `pdm_mrca_spec`
 (b) summaries: `distances_spec`, `mean_pairwise_spec` (both weightings, explicit mean), `mntd_spec`, `nearest_spec`
 (c) `Tree.mrca`: `tree_mrca_spec`, `tree_mrca_deepest`, `tree_mrca_refresh_current`, `tree_mrca_reencode_spec` (refresh or
     never-encoded; `None` iff not covered), `tree_mrca_current_spec`, `tree_mrca_none_current`, `tree_mrca_value_error`, and the
     decided counter-example `tree_mrca_stale_example`
 (d) NJ / UPGMA bookkeeping: `nj_rowsum_invariant` (+ `nj_init_inv`, `nj_join_inv`, `nj_step_inv`, `nj_pick_mem`),
     `nj_lengths_formula`, `nj_cherry_step`, `nj_terminates`, `upgma_avg_spec` (+ `upgma_join_invariant`, …),
     `upgma_ultrametric`, `upgma_tree_ultrametric`, `upgma_terminates`; the reconstruction claims themselves only as one-step
     lemmas `nj_recovers_tree_partial`, `upgma_recovers_tree_partial` (the cherry-picking consistency lemma is not proved).
 Extension round (NJ / UPGMA *invert* distances; treemeasure):
     `upgma_realises` (any matrix with the strong triangle inequality is realised exactly by the returned tree),
     `ultra_three_point`, `upgma_inverts_ultrametric_tree`, `ultra_unique`, **`upgma_recovers_tree`** (full UPGMA clause:
     source tree returned up to child swaps, lengths included), `frac_upgma_recovers_tree`;
     `nj_realises_of_cherry_picking` (induction over contractions; hypothesis = the cherry-picking lemma),
     `nj_realises_three` (unconditional for ≤ 3 taxa), `cherry_of_three`, `nrel_pool_le`;
     `frac_mean_pairwise_both`, `frac_mntd` (both weightings at `Frac`);
     `treemeasure_climb_spec`, `treemeasure_spec`, `treemeasure_current_spec`, `frac_treemeasure_spec`
     (`Tree.mrca` + two climbs = unique path length).
 Final round: `pdm_three_point`, `upgma_inverts_pdm` (clause (a) composed with clause (d) on the library's tree shape `T`);
     `nj_four_cherry`, `nj_realises_four` (cherry-picking lemma and NJ inversion proved for four taxa).
 Last round: `MinQCherryAt` (cherry-picking lemma as a statement about finite metrics), `nj_realises_of_quartet_lemma`
     (NJ's correctness reduced to it; all NJ machinery discharged), `minQ_cherry_four`, `minQ_cherry_five`, `nj_realises_five`,
     `frac_nj_realises_five` (NJ inverts every additive metric with positive internal edges on ≤ 5 taxa); `nrel_quartet`,
     `cherry_of_balanced`, `qval_eq_Qfun`; `tree_four_point` (distances of a tree with positive internal edges satisfy the strict
     four-point condition), `nj_inverts_tree_five` (NJ clause about trees, n ≤ 5), `nj_inverts_tree_partial` (any n, given the lemma
     for pools of 6 … n).
 Extension round 3: **`minQ_cherry_all`** — the neighbour-joining consistency lemma (Saitou–Nei / Studier–Keppler: a Q-minimal pair of
     a metric with the strict four-point condition is a cherry) for every number of labels, proved without a tree in
     `Theory/C14Cherry.lean` (`Cherry.minQ_cherry`); hence **`nj_realises`** (NJ inverts every additive metric with positive internal
     edges, any n; `nj_realises_of_cherry_picking` / `nj_realises_of_quartet_lemma` are now lemmas with their hypothesis
     discharged), **`nj_inverts_tree`** (the NJ clause about trees, any n; replaces `nj_inverts_tree_partial`), `frac_nj_realises`
     (at the driver's type).  Tie A: `gen_njQ`, `gen_njNewDist`, `gen_njJoin_d`, `gen_njJoin_x`, `gen_njLengths`, `gen_njContinue`,
     `gen_pick_strict`, `gen_upNewDist`, `gen_upJoin_sub`, `gen_upJoin_h` — the model's NJ / UPGMA formulas equal the kernels
     regenerated from the source (`Gen/C14Kernels.lean`).  `nj_run_states`, `nj_states_inv`, `up_run_states`: the traced loop states
     (ops `njtrace` / `uptrace`) are the states of the runs the theorems speak about.
     Wave 3: `NT.Sub` (a subtree hanging by an edge), `tree_edge_separates` / `tree_edge_separates_strict` /
     `tree_root_edge_separates` (every edge of a tree with non-negative lengths separates the leaves below it from those beyond it in
     the path lengths, with the edge length as margin: the "only if" half of the split characterisation of a tree metric),
     `nj_result_separates_source_edges` (in the tree NJ returns, every edge of the source tree is metrically visible with its length).
     Missing: the "if" half (a bipartition separated in the path lengths is an edge of the tree) and with it uniqueness of the tree
     realising an additive metric (from "the same path lengths" to "the same unrooted split set with the same lengths").
 Bridge to the driver's number type: `toRat` is a homomorphism on fractions with non-zero denominator (`Aux.toRat_*`), the
 models are natural in the number type (`Aux.entries_nat`, `Aux.nj_run_rel`, `Aux.up_run_rel`), hence the statements at
 `Frac`: `frac_pdm_spec`, `frac_pdm_lookup_spec`, `frac_nj_rowsum_invariant`, `frac_nj_tree`, `frac_upgma_tree`. -/
set_option linter.unusedSectionVars false
set_option linter.unusedSimpArgs false
set_option linter.unusedVariables false
namespace DendroModel.C14.Aux
open DendroModel DendroModel.C14

variable {κ α : Type}

/-- keys of the leaves, left to right -/
def leafKeys (key : T → κ) (t : T) : List κ := t.leaves.map key
def leafKeysL (key : T → κ) (cs : List T) : List κ := (T.leavesL cs).map key

theorem leafKeys_leaf (key : T → κ) (i x l s) : leafKeys key (.node i x l s []) = [key (.node i x l s [])] := by
  simp [leafKeys, T.leaves]
theorem leafKeys_node (key : T → κ) (i x l s c cs) :
    leafKeys key (.node i x l s (c :: cs)) = leafKeysL key (c :: cs) := by
  simp [leafKeys, leafKeysL, T.leaves]
theorem leafKeysL_nil (key : T → κ) : leafKeysL key [] = [] := by simp [leafKeysL, T.leavesL]
theorem leafKeysL_cons (key : T → κ) (c cs) : leafKeysL key (c :: cs) = leafKeys key c ++ leafKeysL key cs := by
  simp [leafKeys, leafKeysL, T.leavesL]

section down
variable [DecidableEq κ] [AddCommMonoid α] (ℓ : T → α) (key : T → κ)

mutual
theorem down_isSome : ∀ (t : T) (a : κ), (down ℓ key t a).isSome ↔ a ∈ leafKeys key t
  | .node i x l s [], a => by
    rw [leafKeys_leaf]; simp only [down, List.mem_singleton]
    by_cases h : key (.node i x l s []) = a
    · simp [h]
    · simp [h]; exact fun e => h e.symm
  | .node i x l s (c :: cs), a => by
    rw [leafKeys_node]; simp only [down]
    have := downL_isSome (c :: cs) a
    cases h : downL ℓ key (c :: cs) a with
    | none => simp [h] at this ⊢; exact this
    | some r => simp [h] at this ⊢; exact this
theorem downL_isSome : ∀ (cs : List T) (a : κ), (downL ℓ key cs a).isSome ↔ a ∈ leafKeysL key cs
  | [], a => by simp [downL, leafKeysL_nil]
  | c :: cs, a => by
    rw [leafKeysL_cons]; simp only [downL, List.mem_append]
    have h1 := down_isSome c a
    have h2 := downL_isSome cs a
    cases h : down ℓ key c a with
    | some r => simp [h] at h1 ⊢; exact Or.inl h1
    | none => simp [h] at h1 ⊢; rw [h2]; simp [h1]
end
end down

section walk
variable [DecidableEq κ] [AddCommMonoid α] (ℓ : T → α) (key : T → κ)

theorem down_none {t : T} {a : κ} (h : a ∉ leafKeys key t) : down ℓ key t a = none := by
  cases hd : down ℓ key t a with
  | none => rfl
  | some r => exact absurd ((down_isSome ℓ key t a).mp (by simp [hd])) h

theorem downL_none {cs : List T} {a : κ} (h : a ∉ leafKeysL key cs) : downL ℓ key cs a = none := by
  cases hd : downL ℓ key cs a with
  | none => rfl
  | some r => exact absurd ((downL_isSome ℓ key cs a).mp (by simp [hd])) h

theorem down_mem {t : T} {a : κ} {r} (h : down ℓ key t a = some r) : a ∈ leafKeys key t :=
  (down_isSome ℓ key t a).mp (by simp [h])

/-- the children tables are the tables of the children -/
theorem walkL_fst : ∀ cs : List T, (walkL ℓ key cs).1 = cs.map fun c => (c, (walk ℓ key c).1)
  | [] => by simp [walkL]
  | c :: cs => by simp [walkL, walkL_fst cs]

theorem walkL_snd_cons (c : T) (cs : List T) :
    (walkL ℓ key (c :: cs)).2 = (walk ℓ key c).2 ++ (walkL ℓ key cs).2 := by simp [walkL]

theorem walk_leaf (i x l s) : walk ℓ key (.node i x l s []) = ([(key (.node i x l s []), 0, 0)], []) := by
  simp [walk]

theorem walk_node (i x l s c cs) : walk ℓ key (.node i x l s (c :: cs)) =
    (((c :: cs).map fun c => (c, (walk ℓ key c).1)).flatMap (fun ct => lift ℓ ct.1 ct.2),
     (walkL ℓ key (c :: cs)).2 ++ pairNode ℓ i ((c :: cs).map fun c => (c, (walk ℓ key c).1))) := by
  rw [walk, walkL_fst]

/-- table of a list of children after lifting -/
def tabL (cs : List T) : Tab κ α := (cs.map fun c => (c, (walk ℓ key c).1)).flatMap (fun ct => lift ℓ ct.1 ct.2)

theorem tabL_cons (c : T) (cs : List T) : tabL ℓ key (c :: cs) = lift ℓ c (walk ℓ key c).1 ++ tabL ℓ key cs := by
  simp [tabL]

mutual
theorem tab_keys : ∀ t : T, (walk ℓ key t).1.map Prod.fst = leafKeys key t
  | .node i x l s [] => by rw [walk_leaf, leafKeys_leaf]; rfl
  | .node i x l s (c :: cs) => by
    rw [walk_node, leafKeys_node]; exact tabL_keys (c :: cs)
theorem tabL_keys : ∀ cs : List T, (tabL ℓ key cs).map Prod.fst = leafKeysL key cs
  | [] => by simp [tabL, leafKeysL_nil]
  | c :: cs => by
    rw [tabL_cons, leafKeysL_cons, List.map_append, tabL_keys cs, ← tab_keys c]
    simp [lift, List.map_map, Function.comp_def]
end

theorem mem_tab_key {t : T} {e : κ × α × Nat} (h : e ∈ (walk ℓ key t).1) : e.1 ∈ leafKeys key t := by
  rw [← tab_keys ℓ key t]; exact List.mem_map_of_mem h

theorem leafKeys_sub_L {cs : List T} {c : T} (hc : c ∈ cs) {a : κ} (ha : a ∈ leafKeys key c) : a ∈ leafKeysL key cs := by
  induction cs with
  | nil => simp at hc
  | cons c1 cs ih =>
    rw [leafKeysL_cons]
    rcases List.mem_cons.mp hc with rfl | h
    · exact List.mem_append_left _ ha
    · exact List.mem_append_right _ (ih h)

theorem nodup_child {cs : List T} {c : T} (hnd : (leafKeysL key cs).Nodup) (hc : c ∈ cs) : (leafKeys key c).Nodup := by
  induction cs with
  | nil => simp at hc
  | cons c1 cs ih =>
    rw [leafKeysL_cons] at hnd
    rcases List.mem_cons.mp hc with rfl | h
    · exact (List.nodup_append.mp hnd).1
    · exact ih (List.nodup_append.mp hnd).2.1 h

/-- first child that has the leaf decides `downL` -/
theorem downL_of_mem : ∀ (cs : List T) (c : T) (a : κ) (r : α × Nat), (leafKeysL key cs).Nodup → c ∈ cs →
    down ℓ key c a = some r → downL ℓ key cs a = some r
  | [], _, _, _, _, hc, _ => by simp at hc
  | c0 :: cs, c, a, r, hnd, hc, hd => by
    rw [leafKeysL_cons] at hnd
    rcases List.mem_cons.mp hc with rfl | hc'
    · simp [downL, hd]
    · have ha : a ∈ leafKeysL key cs := leafKeys_sub_L key hc' (down_mem ℓ key hd)
      have hn : a ∉ leafKeys key c0 := fun h => (List.nodup_append.mp hnd).2.2 a h a ha rfl
      simp only [downL, down_none ℓ key hn]
      exact downL_of_mem cs c a r (List.nodup_append.mp hnd).2.1 hc' hd

mutual
/-- a table row is the path from the node down to that leaf; with the edge above the node added it is `down` -/
theorem tab_down : ∀ (t : T), (leafKeys key t).Nodup → ∀ e ∈ (walk ℓ key t).1,
    down ℓ key t e.1 = some (e.2.1 + ℓ t, e.2.2 + 1)
  | .node i x l s [], _, e, he => by
    rw [walk_leaf] at he; simp at he; subst he; simp [down]
  | .node i x l s (c :: cs), hnd, e, he => by
    rw [walk_node] at he
    rw [leafKeys_node] at hnd
    have := tabL_down (c :: cs) hnd e he
    simp only [down, this]
theorem tabL_down : ∀ (cs : List T), (leafKeysL key cs).Nodup → ∀ e ∈ tabL ℓ key cs,
    downL ℓ key cs e.1 = some (e.2.1, e.2.2)
  | [], _, e, he => by simp [tabL] at he
  | c :: cs, hnd, e, he => by
    rw [tabL_cons] at he
    rw [leafKeysL_cons] at hnd
    rcases List.mem_append.mp he with h | h
    · simp only [lift, List.mem_map] at h
      obtain ⟨e0, he0, rfl⟩ := h
      have := tab_down c (List.nodup_append.mp hnd).1 e0 he0
      simp [downL, this]
    · have ih := tabL_down cs (List.nodup_append.mp hnd).2.1 e h
      have hk : e.1 ∈ leafKeysL key cs := by rw [← tabL_keys ℓ key cs]; exact List.mem_map_of_mem h
      have hn : e.1 ∉ leafKeys key c := fun h' => (List.nodup_append.mp hnd).2.2 _ h' _ hk rfl
      simp [downL, down_none ℓ key hn, ih]
end
end walk

section sound
variable [DecidableEq κ] [AddCommMonoid α] (ℓ : T → α) (key : T → κ)

/-- children with their tables, as the pairing loop sees them -/
def withTabs (cs : List T) : List (T × Tab κ α) := cs.map fun c => (c, (walk ℓ key c).1)

theorem pairNode_cons (m : Nat) (c : T) (cs : List T) :
    pairNode ℓ m (withTabs ℓ key (c :: cs)) =
      ((walk ℓ key c).1.flatMap fun e1 => (withTabs ℓ key cs).flatMap fun ct2 => ct2.2.map fun e2 =>
        (⟨e1.1, e2.1, ((e1.2.1 + ℓ c) + e2.2.1) + ℓ ct2.1, ((e1.2.2 + 1) + e2.2.2) + 1, m⟩ : Entry κ α))
      ++ pairNode ℓ m (withTabs ℓ key cs) := by
  simp [withTabs, pairNode]

theorem pairNode_mem_keys (m : Nat) : ∀ (cs : List T) (e : Entry κ α), e ∈ pairNode ℓ m (withTabs ℓ key cs) →
    e.a ∈ leafKeysL key cs ∧ e.b ∈ leafKeysL key cs
  | [], e, h => by simp [withTabs, pairNode] at h
  | c :: cs, e, h => by
    rw [pairNode_cons] at h
    rw [leafKeysL_cons]
    rcases List.mem_append.mp h with h | h
    · simp only [List.mem_flatMap, List.mem_map, withTabs] at h
      obtain ⟨e1, he1, ct2, ⟨c2, hc2, rfl⟩, e2, he2, rfl⟩ := h
      exact ⟨List.mem_append_left _ (mem_tab_key ℓ key he1),
             List.mem_append_right _ (leafKeys_sub_L key hc2 (mem_tab_key ℓ key he2))⟩
    · have := pairNode_mem_keys m cs e h
      exact ⟨List.mem_append_right _ this.1, List.mem_append_right _ this.2⟩

/-- every cell written at a node is the path that turns at that node -/
theorem pairNode_sound (m : Nat) : ∀ (cs : List T), (leafKeysL key cs).Nodup →
    ∀ e ∈ pairNode ℓ m (withTabs ℓ key cs), turnL ℓ key m cs e.a e.b = some (e.d, e.steps, m) ∧ e.mrca = m
  | [], _, e, h => by simp [withTabs, pairNode] at h
  | c :: cs, hnd, e, h => by
    rw [pairNode_cons] at h
    rw [leafKeysL_cons] at hnd
    have hnd1 := (List.nodup_append.mp hnd).1
    have hnd2 := (List.nodup_append.mp hnd).2.1
    have hdis := (List.nodup_append.mp hnd).2.2
    rcases List.mem_append.mp h with h | h
    · simp only [List.mem_flatMap, List.mem_map, withTabs] at h
      obtain ⟨e1, he1, ct2, ⟨c2, hc2, rfl⟩, e2, he2, rfl⟩ := h
      have hb : e2.1 ∈ leafKeysL key cs := leafKeys_sub_L key hc2 (mem_tab_key ℓ key he2)
      have hbn : e2.1 ∉ leafKeys key c := fun h' => hdis _ h' _ hb rfl
      have d1 := tab_down ℓ key c hnd1 e1 he1
      have d2 := downL_of_mem ℓ key cs c2 e2.1 _ hnd2 hc2 (tab_down ℓ key c2 (nodup_child key hnd2 hc2) e2 he2)
      simp only [turnL, d1, down_none ℓ key hbn, d2]
      refine ⟨?_, trivial⟩
      have e1' : e1.2.1 + ℓ c + e2.2.1 + ℓ c2 = e1.2.1 + ℓ c + (e2.2.1 + ℓ c2) := by simp [add_assoc]
      have e2' : e1.2.2 + 1 + e2.2.2 + 1 = e1.2.2 + 1 + (e2.2.2 + 1) := by omega
      rw [e1', e2']
    · have hk := pairNode_mem_keys ℓ key m cs e h
      have ha : e.a ∉ leafKeys key c := fun h' => hdis _ h' _ hk.1 rfl
      have hb : e.b ∉ leafKeys key c := fun h' => hdis _ h' _ hk.2 rfl
      simp only [turnL, down_none ℓ key ha, down_none ℓ key hb]
      exact pairNode_sound m cs hnd2 e h

/-- a path between two leaves of one child lies inside that child -/
theorem turnL_child (m : Nat) : ∀ (cs : List T) (c : T) (a b : κ), (leafKeysL key cs).Nodup → c ∈ cs →
    a ∈ leafKeys key c → b ∈ leafKeys key c → turnL ℓ key m cs a b = turn ℓ key c a b
  | [], _, _, _, _, hc, _, _ => by simp at hc
  | c0 :: cs, c, a, b, hnd, hc, ha, hb => by
    rw [leafKeysL_cons] at hnd
    rcases List.mem_cons.mp hc with rfl | hc'
    · obtain ⟨ra, hra⟩ := Option.isSome_iff_exists.mp ((down_isSome ℓ key c a).mpr ha)
      obtain ⟨rb, hrb⟩ := Option.isSome_iff_exists.mp ((down_isSome ℓ key c b).mpr hb)
      simp [turnL, hra, hrb]
    · have hdis := (List.nodup_append.mp hnd).2.2
      have ha' : a ∉ leafKeys key c0 := fun h' => hdis _ h' _ (leafKeys_sub_L key hc' ha) rfl
      have hb' : b ∉ leafKeys key c0 := fun h' => hdis _ h' _ (leafKeys_sub_L key hc' hb) rfl
      simp only [turnL, down_none ℓ key ha', down_none ℓ key hb']
      exact turnL_child m cs c a b (List.nodup_append.mp hnd).2.1 hc' ha hb

mutual
theorem walk_sound : ∀ (t : T), (leafKeys key t).Nodup → ∀ e ∈ (walk ℓ key t).2,
    turn ℓ key t e.a e.b = some (e.d, e.steps, e.mrca) ∧ e.a ∈ leafKeys key t ∧ e.b ∈ leafKeys key t
  | .node i x l s [], _, e, he => by rw [walk_leaf] at he; simp at he
  | .node i x l s (c :: cs), hnd, e, he => by
    rw [walk_node] at he
    rw [leafKeys_node] at hnd ⊢
    rcases List.mem_append.mp he with h | h
    · obtain ⟨c', hc', hs, ha, hb⟩ := walkL_sound (c :: cs) hnd e h
      refine ⟨?_, leafKeys_sub_L key hc' ha, leafKeys_sub_L key hc' hb⟩
      simp only [turn]
      rw [turnL_child ℓ key i (c :: cs) c' e.a e.b hnd hc' ha hb]; exact hs
    · have h1 := pairNode_sound ℓ key i (c :: cs) hnd e h
      have h2 := pairNode_mem_keys ℓ key i (c :: cs) e h
      refine ⟨?_, h2.1, h2.2⟩
      simp only [turn]; rw [h1.1, h1.2]
theorem walkL_sound : ∀ (cs : List T), (leafKeysL key cs).Nodup → ∀ e ∈ (walkL ℓ key cs).2,
    ∃ c ∈ cs, turn ℓ key c e.a e.b = some (e.d, e.steps, e.mrca) ∧ e.a ∈ leafKeys key c ∧ e.b ∈ leafKeys key c
  | [], _, e, he => by simp [walkL] at he
  | c :: cs, hnd, e, he => by
    rw [walkL_snd_cons] at he
    rw [leafKeysL_cons] at hnd
    rcases List.mem_append.mp he with h | h
    · exact ⟨c, List.mem_cons_self, walk_sound c (List.nodup_append.mp hnd).1 e h⟩
    · obtain ⟨c', hc', hs⟩ := walkL_sound cs (List.nodup_append.mp hnd).2.1 e h
      exact ⟨c', List.mem_cons_of_mem _ hc', hs⟩
end
end sound

section once
variable [DecidableEq κ] [AddCommMonoid α] (ℓ : T → α) (key : T → κ)

def keysE (es : List (Entry κ α)) : List (κ × κ) := es.map fun e => (e.a, e.b)
def cross (A B : List κ) : List (κ × κ) := A.flatMap fun a => B.map fun b => (a, b)
/-- pairs whose path turns at the parent of the children `cs` -/
def crossT : List T → List (κ × κ)
  | [] => []
  | c :: cs => cross (leafKeys key c) (leafKeysL key cs) ++ crossT cs

theorem keysE_append (a b : List (Entry κ α)) : keysE (a ++ b) = keysE a ++ keysE b := by simp [keysE]

theorem cross_cons (x : κ) (A B : List κ) : cross (x :: A) B = B.map (fun b => (x, b)) ++ cross A B := by
  simp [cross]

theorem pairsOf_append (A B : List κ) : (pairsOf (A ++ B)).Perm (pairsOf A ++ pairsOf B ++ cross A B) := by
  induction A with
  | nil => simp [pairsOf, cross]
  | cons x A ih =>
    rw [List.perm_iff_count]
    intro p
    have := ih.count_eq p
    simp only [List.cons_append, pairsOf, cross_cons, List.count_append, List.map_append] at this ⊢
    omega

theorem withTabs_keys : ∀ cs : List T, (withTabs ℓ key cs).flatMap (fun ct => ct.2.map Prod.fst) = leafKeysL key cs
  | [] => by simp [withTabs, leafKeysL_nil]
  | c :: cs => by
    have := withTabs_keys cs
    simp only [withTabs] at this
    simp [withTabs, leafKeysL_cons, tab_keys, this]

theorem pairNode_keys (m : Nat) : ∀ cs : List T, keysE (pairNode ℓ m (withTabs ℓ key cs)) = crossT key cs
  | [] => by simp [withTabs, pairNode, keysE, crossT]
  | c :: cs => by
    rw [pairNode_cons, keysE_append, pairNode_keys m cs, crossT, ← tab_keys ℓ key c, ← withTabs_keys ℓ key cs]
    congr 1
    simp [keysE, cross, List.map_flatMap, List.flatMap_map, List.map_map, Function.comp_def, List.flatMap_assoc]

mutual
theorem walk_keys : ∀ t : T, (keysE (walk ℓ key t).2).Perm (pairsOf (leafKeys key t))
  | .node i x l s [] => by rw [walk_leaf, leafKeys_leaf]; simp [keysE, pairsOf]
  | .node i x l s (c :: cs) => by
    rw [walk_node, leafKeys_node, keysE_append]
    have := pairNode_keys ℓ key i (c :: cs)
    simp only [withTabs] at this
    rw [this]
    exact walkL_keys (c :: cs)
theorem walkL_keys : ∀ cs : List T, (keysE (walkL ℓ key cs).2 ++ crossT key cs).Perm (pairsOf (leafKeysL key cs))
  | [] => by simp [walkL, keysE, crossT, leafKeysL_nil, pairsOf]
  | c :: cs => by
    rw [walkL_snd_cons, keysE_append, crossT, leafKeysL_cons]
    refine List.Perm.trans ?_ (pairsOf_append _ _).symm
    rw [List.perm_iff_count]
    intro p
    have h1 := (walk_keys c).count_eq p
    have h2 := (walkL_keys cs).count_eq p
    simp only [List.count_append] at h1 h2 ⊢
    omega
end
end once

section lookups
variable [DecidableEq κ] [AddCommMonoid α] (ℓ : T → α) (key : T → κ)

mutual
theorem turn_symm : ∀ (t : T) (a b : κ), turn ℓ key t b a = turn ℓ key t a b
  | .node i x l s cs, a, b => by simp only [turn]; exact turnL_symm i cs a b
theorem turnL_symm (m : Nat) : ∀ (cs : List T) (a b : κ), turnL ℓ key m cs b a = turnL ℓ key m cs a b
  | [], a, b => by simp [turnL]
  | c :: cs, a, b => by
    simp only [turnL]
    cases ha : down ℓ key c a <;> cases hb : down ℓ key c b <;> simp only
    · exact turnL_symm m cs a b
    · rename_i rb
      cases hx : downL ℓ key cs a with
      | none => rfl
      | some ra => simp [add_comm, Nat.add_comm]
    · rename_i ra
      cases hx : downL ℓ key cs b with
      | none => rfl
      | some rb => simp [add_comm, Nat.add_comm]
    · exact turn_symm c a b
end

theorem mem_pairsOf : ∀ (L : List κ) (a b : κ), a ≠ b → a ∈ L → b ∈ L → (a, b) ∈ pairsOf L ∨ (b, a) ∈ pairsOf L
  | [], _, _, _, ha, _ => by simp at ha
  | x :: L, a, b, hab, ha, hb => by
    simp only [pairsOf, List.mem_append, List.mem_map]
    rcases List.mem_cons.mp ha with rfl | ha' <;> rcases List.mem_cons.mp hb with rfl | hb'
    · exact absurd rfl hab
    · exact Or.inl (Or.inl ⟨b, hb', rfl⟩)
    · exact Or.inr (Or.inl ⟨a, ha', rfl⟩)
    · rcases mem_pairsOf L a b hab ha' hb' with h | h
      · exact Or.inl (Or.inr h)
      · exact Or.inr (Or.inr h)

theorem pairsOf_mem_both : ∀ (L : List κ) (p : κ × κ), p ∈ pairsOf L → p.1 ∈ L ∧ p.2 ∈ L
  | [], p, h => by simp [pairsOf] at h
  | x :: L, p, h => by
    simp only [pairsOf, List.mem_append, List.mem_map] at h
    rcases h with ⟨y, hy, rfl⟩ | h
    · exact ⟨List.mem_cons_self, List.mem_cons_of_mem _ hy⟩
    · have := pairsOf_mem_both L p h
      exact ⟨List.mem_cons_of_mem _ this.1, List.mem_cons_of_mem _ this.2⟩
end lookups

section njaux
variable {β : Type}

theorem foldl_add_sum [AddCommMonoid α] (f : β → α) : ∀ (l : List β) (a : α),
    l.foldl (fun acc m => acc + f m) a = a + (l.map f).sum
  | [], a => by simp
  | x :: l, a => by simp [foldl_add_sum f l, add_assoc]

theorem argmin_mem [LT α] [DecidableRel (α := α) (· < ·)] (val : β → α) : ∀ (l : List β) (acc : Option (β × α)) (r : β × α),
    argmin val l acc = some r → acc = some r ∨ r.1 ∈ l
  | [], acc, r, h => by simp [argmin] at h; exact Or.inl h
  | p :: ps, none, r, h => by
    simp only [argmin] at h
    rcases argmin_mem val ps _ r h with h' | h'
    · injection h' with h''; subst h''; exact Or.inr List.mem_cons_self
    · exact Or.inr (List.mem_cons_of_mem _ h')
  | p :: ps, some (q, m), r, h => by
    simp only [argmin] at h
    split at h
    · rcases argmin_mem val ps _ r h with h' | h'
      · injection h' with h''; subst h''; exact Or.inr List.mem_cons_self
      · exact Or.inr (List.mem_cons_of_mem _ h')
    · rcases argmin_mem val ps _ r h with h' | h'
      · exact Or.inl h'
      · exact Or.inr (List.mem_cons_of_mem _ h')

theorem argmin_isSome [LT α] [DecidableRel (α := α) (· < ·)] (val : β → α) : ∀ (l : List β) (acc : Option (β × α)),
    (acc.isSome ∨ l ≠ []) → (argmin val l acc).isSome
  | [], acc, h => by rcases h with h | h; simpa [argmin] using h; exact absurd rfl h
  | p :: ps, none, _ => by simp only [argmin]; exact argmin_isSome val ps _ (Or.inl rfl)
  | p :: ps, some (q, m), _ => by
    simp only [argmin]; split <;> exact argmin_isSome val ps _ (Or.inl rfl)

theorem pairsOf_ne [DecidableEq β] : ∀ (L : List β), L.Nodup → ∀ p ∈ pairsOf L, p.1 ≠ p.2
  | [], _, p, h => by simp [pairsOf] at h
  | x :: L, hn, p, h => by
    simp only [pairsOf, List.mem_append, List.mem_map] at h
    rcases h with ⟨y, hy, rfl⟩ | h
    · intro e; simp only at e; subst e; exact (List.nodup_cons.mp hn).1 hy
    · exact pairsOf_ne L (List.nodup_cons.mp hn).2 p h

theorem pairsOf_mem_both' : ∀ (L : List β) (p : β × β), p ∈ pairsOf L → p.1 ∈ L ∧ p.2 ∈ L
  | [], p, h => by simp [pairsOf] at h
  | x :: L, p, h => by
    simp only [pairsOf, List.mem_append, List.mem_map] at h
    rcases h with ⟨y, hy, rfl⟩ | h
    · exact ⟨List.mem_cons_self, List.mem_cons_of_mem _ hy⟩
    · have := pairsOf_mem_both' L p h
      exact ⟨List.mem_cons_of_mem _ this.1, List.mem_cons_of_mem _ this.2⟩

/-- taking `f` and `g` out of the pool -/
theorem pool_perm {pool : List Nat} {f g : Nat} (hf : f ∈ pool) (hg : g ∈ pool) (hfg : f ≠ g) :
    pool.Perm (f :: g :: (pool.erase f).erase g) :=
  (List.perm_cons_erase hf).trans (List.Perm.cons f (List.perm_cons_erase ((List.mem_erase_of_ne (Ne.symm hfg)).mpr hg)))

theorem sum_split [AddCommMonoid α] {pool : List Nat} {f g k : Nat} (hf : f ∈ pool) (hg : g ∈ pool) (hfg : f ≠ g)
    (hkf : f ≠ k) (hkg : g ≠ k) (φ : Nat → α) :
    ((pool.filter (fun m => m ≠ k)).map φ).sum = φ f + (φ g + ((((pool.erase f).erase g).filter (fun m => m ≠ k)).map φ).sum) := by
  have h := ((pool_perm hf hg hfg).filter (fun m => decide (m ≠ k))).map φ
  rw [h.sum_eq]
  simp [List.filter_cons, hkf, hkg]
end njaux
end DendroModel.C14.Aux


namespace DendroModel.C14
open DendroModel DendroModel.C14.Aux

variable {κ α : Type}

/-- well-formedness used as hypothesis: every leaf carries its own key (taxon), none occurs twice -/
def Good (key : T → κ) (t : T) : Prop := (t.leaves.map key).Nodup

section pdm
variable [DecidableEq κ] [AddCommMonoid α] (ℓ : T → α) (key : T → κ)

/-- (a) The pairing loop of `compile_from_tree` writes one cell per unordered pair of leaves — each pair exactly
once, whatever the degrees of the nodes (polytomies, unary nodes): the key pairs of the cells written are a
permutation of the list of all pairs `(leafᵢ, leafⱼ)`, `i < j`. No hypothesis on the tree. -/
theorem pdm_pairs_once (t : T) :
    ((entries ℓ key t).map fun e => (e.a, e.b)).Perm (pairsOf (t.leaves.map key)) :=
  walk_keys ℓ key t

/-- consequently no cell is written twice (and none in both orientations) when the leaf keys are distinct -/
theorem pdm_cells_nodup (t : T) (h : Good key t) : ((entries ℓ key t).map fun e => (e.a, e.b)).Nodup := by
  rw [(pdm_pairs_once ℓ key t).nodup_iff]
  have : ∀ L : List κ, L.Nodup → (pairsOf L).Nodup := by
    intro L
    induction L with
    | nil => intro _; simp [pairsOf]
    | cons x L ih =>
      intro hn
      have hx := (List.nodup_cons.mp hn).1
      simp only [pairsOf]
      refine List.nodup_append.mpr ⟨?_, ih (List.nodup_cons.mp hn).2, ?_⟩
      · exact List.Nodup.map (f := fun y => (x, y)) (fun a b hab => by injection hab) (List.nodup_cons.mp hn).2
      · intro p hp q hq hpq
        subst hpq
        obtain ⟨y, _, rfl⟩ := List.mem_map.mp hp
        exact hx (pairsOf_mem_both L _ hq).1
  exact this _ h

/-- (a) Every cell carries the length and the number of edges of the unique path between its two leaves
(`None` lengths read as 0 by `ℓ`) and, as common ancestor, the node at which that path turns. -/
theorem pdm_spec (t : T) (h : Good key t) :
    ∀ e ∈ entries ℓ key t, turn ℓ key t e.a e.b = some (e.d, e.steps, e.mrca) :=
  fun e he => (walk_sound ℓ key t h e he).1

/-- (a) as seen through the accessors (`patristic_distance`, `path_edge_count`, `mrca` read the mirrored table):
for any two different leaf taxa the looked-up cell exists and is the unique path's length, edge count and turning node -/
theorem pdm_lookup_spec (t : T) (h : Good key t) (a b : κ) (hab : a ≠ b)
    (ha : a ∈ t.leaves.map key) (hb : b ∈ t.leaves.map key) :
    ∃ e, lookup (table ℓ key t) a b = some e ∧ turn ℓ key t a b = some (e.d, e.steps, e.mrca) := by
  have hex : ∃ e ∈ table ℓ key t, e.a = a ∧ e.b = b := by
    rcases mem_pairsOf _ a b hab ha hb with hp | hp
    · obtain ⟨e, he, hk⟩ := List.mem_map.mp ((pdm_pairs_once ℓ key t).mem_iff.mpr hp)
      injection hk with h1 h2
      exact ⟨e, by simp [table, mirror, he], h1, h2⟩
    · obtain ⟨e, he, hk⟩ := List.mem_map.mp ((pdm_pairs_once ℓ key t).mem_iff.mpr hp)
      injection hk with h1 h2
      exact ⟨⟨e.b, e.a, e.d, e.steps, e.mrca⟩, by simp only [table, mirror, List.mem_append, List.mem_map]; exact Or.inr (Or.inr ⟨e, he, rfl⟩), h2, h1⟩
  obtain ⟨e0, he0, hp0⟩ := hex
  have hsome : (lookup (table ℓ key t) a b).isSome := by
    simp only [lookup, List.find?_isSome]
    exact ⟨e0, he0, by simp [hp0]⟩
  obtain ⟨e, hfind⟩ := Option.isSome_iff_exists.mp hsome
  refine ⟨e, hfind, ?_⟩
  have hmem := List.mem_of_find?_eq_some hfind
  have hpe := List.find?_some hfind
  simp only [decide_eq_true_eq] at hpe
  simp only [table, mirror, List.mem_append, List.mem_map] at hmem
  rcases hmem with hd | hm | ⟨e', he', rfl⟩
  · exfalso
    unfold diag at hd
    by_cases hl : t.isLeaf = true
    · simp [hl] at hd
    · rw [if_neg hl] at hd
      obtain ⟨lf, _, rfl⟩ := List.mem_map.mp hd
      exact hab (hpe.1.symm.trans hpe.2)
  · have := pdm_spec ℓ key t h e hm
    rw [hpe.1, hpe.2] at this; exact this
  · have := pdm_spec ℓ key t h e' he'
    simp only at hpe
    rw [hpe.1, hpe.2, turn_symm] at this; exact this

/-- (a) symmetry: the two orientations of a pair read the same length, edge count and common ancestor -/
theorem pdm_symm (t : T) (h : Good key t) (a b : κ) (hab : a ≠ b)
    (ha : a ∈ t.leaves.map key) (hb : b ∈ t.leaves.map key) :
    ∃ e e', lookup (table ℓ key t) a b = some e ∧ lookup (table ℓ key t) b a = some e' ∧
      e.d = e'.d ∧ e.steps = e'.steps ∧ e.mrca = e'.mrca := by
  obtain ⟨e, h1, h2⟩ := pdm_lookup_spec ℓ key t h a b hab ha hb
  obtain ⟨e', h1', h2'⟩ := pdm_lookup_spec ℓ key t h b a (Ne.symm hab) hb ha
  rw [turn_symm, h2] at h2'
  injection h2' with h3
  injection h3 with h4 h5
  injection h5 with h6 h7
  exact ⟨e, e', h1, h1', h4, h6, h7⟩
end pdm

section nj
variable [Field α]

/-- what the bookkeeping of `nj_tree` maintains between passes of `while n > 1` -/
structure NJInv (s : NJ α) : Prop where
  nodup : s.pool.Nodup
  fresh : ∀ k ∈ s.pool, k < s.next
  symm : ∀ a ∈ s.pool, ∀ b ∈ s.pool, s.d a b = s.d b a
  /-- `_nj_xsub` of every pool member is its row sum over the other members of the current pool -/
  rows : ∀ k ∈ s.pool, s.x k = ((s.pool.filter (fun m => m ≠ k)).map (s.d k)).sum

theorem nj_init_inv (n : Nat) (d : Nat → Nat → α) (hd : ∀ a < n, ∀ b < n, d a b = d b a) : NJInv (njInit n d) where
  nodup := List.nodup_range
  fresh := fun k hk => List.mem_range.mp hk
  symm := fun a ha b hb => hd a (List.mem_range.mp ha) b (List.mem_range.mp hb)
  rows := fun k _ => by simp [njInit, rowSum, foldl_add_sum]

/-- (d, bookkeeping) One join keeps the row-sum invariant: after the incremental updates
`x += dist; x -= d[f][k]; x -= d[g][k]` every `_nj_xsub` is again the sum of that node's distances to the
other members of the new pool, and the new node's is the sum of its freshly computed distances. -/
theorem nj_join_inv (s : NJ α) (f g : Nat) (h : NJInv s) (hf : f ∈ s.pool) (hg : g ∈ s.pool) (hfg : f ≠ g) :
    NJInv (njJoin s f g) := by
  have hsub : ∀ k, k ∈ (s.pool.erase f).erase g → k ∈ s.pool ∧ k ≠ f ∧ k ≠ g := by
    intro k hk
    have h1 : k ∈ s.pool.erase f := List.mem_of_mem_erase hk
    have hn1 : (s.pool.erase f).Nodup := h.nodup.erase f
    exact ⟨List.mem_of_mem_erase h1, fun e => by subst e; exact (List.Nodup.mem_erase_iff h.nodup).mp h1 |>.1 rfl,
      fun e => by subst e; exact (List.Nodup.mem_erase_iff hn1).mp hk |>.1 rfl⟩
  have hnew : s.next ∉ (s.pool.erase f).erase g := fun hk => Nat.lt_irrefl _ (h.fresh _ (hsub _ hk).1)
  have hne : ∀ k ∈ (s.pool.erase f).erase g, k ≠ s.next := fun k hk e => hnew (e ▸ hk)
  refine ⟨?_, ?_, ?_, ?_⟩
  · simp only [njJoin]
    exact List.Nodup.append ((h.nodup.erase f).erase g) (List.nodup_singleton _) (by
      intro a ha hb; simp at hb; subst hb; exact hnew ha)
  · intro k hk
    simp only [njJoin, List.mem_append, List.mem_singleton] at hk ⊢
    rcases hk with hk | rfl
    · exact Nat.lt_succ_of_lt (h.fresh _ (hsub _ hk).1)
    · exact Nat.lt_succ_self _
  · intro a ha b hb
    simp only [njJoin, List.mem_append, List.mem_singleton] at ha hb ⊢
    by_cases ea : a = s.next <;> by_cases eb : b = s.next
    · subst ea; subst eb; rfl
    · simp [ea, eb]
    · simp [ea, eb]
    · simp only [ea, eb, if_false]
      rcases ha with ha | ha; rcases hb with hb | hb
      · exact h.symm a (hsub a ha).1 b (hsub b hb).1
      · exact absurd hb eb
      · exact absurd ha ea
  · intro k hk
    simp only [njJoin, List.mem_append, List.mem_singleton] at hk
    rcases hk with hk | rfl
    · have hk' := hsub k hk
      have hkn := hne k hk
      have hfilter : ((s.pool.erase f).erase g ++ [s.next]).filter (fun m => m ≠ k) =
          ((s.pool.erase f).erase g).filter (fun m => m ≠ k) ++ [s.next] := by
        simp [List.filter_append, List.filter_cons, Ne.symm hkn]
      have hmap : (((s.pool.erase f).erase g).filter (fun m => m ≠ k)).map
            (fun b => if b = s.next then njNewDist s f g k else s.d k b) =
          (((s.pool.erase f).erase g).filter (fun m => m ≠ k)).map (s.d k) := by
        apply List.map_congr_left
        intro m hm
        have := hne m (List.mem_of_mem_filter hm)
        simp [this]
      simp only [njJoin, hkn, if_false, hfilter, List.map_append, hmap, List.map_cons, List.map_nil,
        List.sum_append, List.sum_cons, List.sum_nil, if_true]
      rw [h.rows k hk'.1, sum_split hf hg hfg (Ne.symm hk'.2.1) (Ne.symm hk'.2.2) (s.d k),
        h.symm f hf k hk'.1, h.symm g hg k hk'.1]
      ring
    · have hfilter : ((s.pool.erase f).erase g ++ [s.next]).filter (fun m => m ≠ s.next) = (s.pool.erase f).erase g := by
        rw [List.filter_append]
        have : ((s.pool.erase f).erase g).filter (fun m => m ≠ s.next) = (s.pool.erase f).erase g :=
          List.filter_eq_self.mpr (fun m hm => by simpa using hne m hm)
        simp [this]
        exact hne
      simp only [njJoin, if_true, hfilter, foldl_add_sum, zero_add]

variable [LinearOrder α]

theorem nj_pick_mem (s : NJ α) (h : s.pool.Nodup) (f g : Nat) (hp : njPick s = some (f, g)) :
    f ∈ s.pool ∧ g ∈ s.pool ∧ f ≠ g := by
  simp only [njPick, Option.map_eq_some_iff] at hp
  obtain ⟨r, hr, he⟩ := hp
  rcases argmin_mem (qval s) _ none r hr with h' | h'
  · simp at h'
  · rw [he] at h'
    exact ⟨(pairsOf_mem_both' _ _ h').1, (pairsOf_mem_both' _ _ h').2, pairsOf_ne _ h _ h'⟩

theorem nj_step_inv (s : NJ α) (h : NJInv s) : NJInv (njStep s) := by
  unfold njStep
  cases hp : njPick s with
  | none => exact h
  | some p =>
    obtain ⟨f, g⟩ := p
    obtain ⟨hf, hg, hfg⟩ := nj_pick_mem s h.nodup f g hp
    exact nj_join_inv s f g h hf hg hfg

/-- (d, bookkeeping) `nj_rowsum_invariant`: started from a symmetric matrix, after any number of passes of the
`while n > 1` loop every `_nj_xsub` equals the row sum of the current distances over the current pool — the
quantity the Q-criterion needs — although it is only ever updated incrementally. -/
theorem nj_rowsum_invariant (n : Nat) (d : Nat → Nat → α) (hd : ∀ a < n, ∀ b < n, d a b = d b a) :
    ∀ fuel, NJInv (njRun fuel (njInit n d)) := by
  suffices ∀ fuel (s : NJ α), NJInv s → NJInv (njRun fuel s) from fun fuel => this fuel _ (nj_init_inv n d hd)
  intro fuel
  induction fuel with
  | zero => intro s h; exact h
  | succ k ih =>
    intro s h
    simp only [njRun]
    split
    · exact ih _ (nj_step_inv s h)
    · exact h
end nj

namespace Aux
section
variable [Field α]
theorem sum_diff_const (A B : α) (u φ ψ : Nat → α) : ∀ (L : List Nat), (∀ k ∈ L, φ k = A + u k) → (∀ k ∈ L, ψ k = B + u k) →
    (L.map φ).sum - (L.map ψ).sum = (L.length : α) * (A - B)
  | [], _, _ => by simp
  | x :: L, h1, h2 => by
    have ih := sum_diff_const A B u φ ψ L (fun k hk => h1 k (List.mem_cons_of_mem _ hk)) (fun k hk => h2 k (List.mem_cons_of_mem _ hk))
    have e1 := h1 x List.mem_cons_self
    have e2 := h2 x List.mem_cons_self
    simp only [List.map_cons, List.sum_cons, List.length_cons, Nat.cast_succ]
    rw [e1, e2]
    linear_combination ih

end
end Aux

section nj2
variable [Field α]

/-- (d) `nj_lengths_formula`: while more than two nodes are in the pool, the branch lengths given to the joined pair are the
textbook ones, `δ_f = d(f,g)/2 + (Σ_k d(f,k) − Σ_k d(g,k)) / (2(n−2))` with the sums over the *other* pool members,
and `δ_f + δ_g = d(f,g)` — although the code only ever reads the incrementally maintained `_nj_xsub`. -/
theorem nj_lengths_formula (s : NJ α) (f g : Nat) (h : NJInv s) (hf : f ∈ s.pool) (hg : g ∈ s.pool) (hfg : f ≠ g)
    (hn : s.pool.length > 2) :
    (njLengths s f g).1 = s.d f g / 2 +
        ((((s.pool.erase f).erase g).map (s.d f)).sum - (((s.pool.erase f).erase g).map (s.d g)).sum) / (2 * ((s.pool.length - 2 : Nat) : α))
    ∧ (njLengths s f g).1 + (njLengths s f g).2 = s.d f g := by
  have hsub : ∀ k, k ∈ (s.pool.erase f).erase g → k ≠ f ∧ k ≠ g := by
    intro k hk
    have h1 : k ∈ s.pool.erase f := List.mem_of_mem_erase hk
    exact ⟨fun e => by subst e; exact (List.Nodup.mem_erase_iff h.nodup).mp h1 |>.1 rfl,
      fun e => by subst e; exact (List.Nodup.mem_erase_iff (h.nodup.erase _)).mp hk |>.1 rfl⟩
  have hfil : ∀ k, (k = f ∨ k = g) → ((s.pool.erase f).erase g).filter (fun m => !decide (m = k)) = (s.pool.erase f).erase g := by
    intro k hk
    apply List.filter_eq_self.mpr
    intro m hm
    rcases hk with rfl | rfl
    · simpa using (hsub m hm).1
    · simpa using (hsub m hm).2
  have hg' : g ∈ s.pool.erase f := (List.mem_erase_of_ne (Ne.symm hfg)).mpr hg
  have xf : s.x f = s.d f g + (((s.pool.erase f).erase g).map (s.d f)).sum := by
    rw [h.rows f hf]
    have hp := (((List.perm_cons_erase hf).trans (List.Perm.cons f (List.perm_cons_erase hg'))).filter (fun m => decide (m ≠ f))).map (s.d f)
    rw [hp.sum_eq]
    simp [List.filter_cons, Ne.symm hfg, hfil f (Or.inl rfl)]
  have xg : s.x g = s.d g f + (((s.pool.erase f).erase g).map (s.d g)).sum := by
    rw [h.rows g hg]
    have hp := (((List.perm_cons_erase hf).trans (List.Perm.cons f (List.perm_cons_erase hg'))).filter (fun m => decide (m ≠ g))).map (s.d g)
    rw [hp.sum_eq]
    simp [List.filter_cons, hfg, hfil g (Or.inr rfl)]
  simp only [njLengths, hn, if_true]
  constructor
  · rw [xf, xg, h.symm g hg f hf]
    simp only [Nat.cast_mul, Nat.cast_ofNat]
    ring
  · ring

/-- (d) `nj_cherry_step` — the one-step lemma behind neighbour joining's correctness: if `f` and `g` hang on a common
node by pendant edges of lengths `Lf`, `Lg` (every other pool member `k` is at distance `Lf + u k` from `f` and `Lg + u k`
from `g`, and `d f g = Lf + Lg`) then the join gives exactly those two branch lengths and the new node is at distance
`u k` from every remaining member: the matrix of the contracted tree. -/
theorem nj_cherry_step [CharZero α] (s : NJ α) (f g : Nat) (h : NJInv s) (hf : f ∈ s.pool) (hg : g ∈ s.pool) (hfg : f ≠ g)
    (hn : s.pool.length > 2) (Lf Lg : α) (u : Nat → α) (hfg' : s.d f g = Lf + Lg)
    (hu : ∀ k ∈ (s.pool.erase f).erase g, s.d f k = Lf + u k ∧ s.d g k = Lg + u k) :
    njLengths s f g = (Lf, Lg) ∧ ∀ k ∈ (s.pool.erase f).erase g, njNewDist s f g k = u k := by
  obtain ⟨h1, h2⟩ := nj_lengths_formula s f g h hf hg hfg hn
  have hlen : ((s.pool.erase f).erase g).length = s.pool.length - 2 := by
    rw [List.length_erase_of_mem ((List.mem_erase_of_ne (Ne.symm hfg)).mpr hg), List.length_erase_of_mem hf]
    omega
  have hne : ((s.pool.length - 2 : Nat) : α) ≠ 0 := by
    have : s.pool.length - 2 ≠ 0 := by omega
    exact_mod_cast this
  have hsum := Aux.sum_diff_const Lf Lg u (s.d f) (s.d g) _ (fun k hk => (hu k hk).1) (fun k hk => (hu k hk).2)
  rw [hlen] at hsum
  have e1 : (njLengths s f g).1 = Lf := by
    rw [h1, hsum, hfg']; field_simp; ring
  have e2 : (njLengths s f g).2 = Lg := by
    have := h2; rw [e1, hfg'] at this; linear_combination this
  refine ⟨Prod.ext e1 e2, ?_⟩
  intro k hk
  have hk1 : k ∈ s.pool := List.mem_of_mem_erase (List.mem_of_mem_erase hk)
  simp only [njNewDist]
  rw [← h.symm f hf k hk1, ← h.symm g hg k hk1, (hu k hk).1, (hu k hk).2, hfg']
  simp only [Nat.cast_ofNat]
  field_simp; ring
end nj2

section up
variable [Field α]

/-- sum of the original distances between two clusters -/
def blockSum (d0 : Nat → Nat → α) (A B : List Nat) : α := (A.map fun i => (B.map (d0 i)).sum).sum

theorem Aux.blockSum_append_left (d0 : Nat → Nat → α) (A A' B : List Nat) :
    blockSum d0 (A ++ A') B = blockSum d0 A B + blockSum d0 A' B := by simp [blockSum]

theorem Aux.blockSum_append_right (d0 : Nat → Nat → α) (A B B' : List Nat) :
    blockSum d0 A (B ++ B') = blockSum d0 A B + blockSum d0 A B' := by
  induction A with
  | nil => simp [blockSum]
  | cons x A ih => simp only [blockSum, List.map_cons, List.sum_cons, List.map_append, List.sum_append] at ih ⊢; rw [ih]; ring

/-- what `upgma_tree` maintains between passes: the stored distance between two clusters, times the product of their
sizes, is the sum of the original distances between their members -/
structure UPInv (d0 : Nat → Nat → α) (s : UP α) : Prop where
  nodup : s.pool.Nodup
  fresh : ∀ k ∈ s.pool, k < s.next
  nonempty : ∀ k ∈ s.pool, s.cl k ≠ []
  symm : ∀ a ∈ s.pool, ∀ b ∈ s.pool, s.d a b = s.d b a
  avg : ∀ a ∈ s.pool, ∀ b ∈ s.pool, a ≠ b →
    s.d a b * (((s.cl a).length : α) * ((s.cl b).length : α)) = blockSum (α := α) d0 (s.cl a) (s.cl b)

theorem up_init_inv (n : Nat) (M : Nat → Nat → α) : UPInv (upInit n M).d (upInit n M) where
  nodup := List.nodup_range
  fresh := fun k hk => List.mem_range.mp hk
  nonempty := fun k _ => by simp [upInit]
  symm := fun a _ b _ => by
    simp only [upInit]
    rcases Nat.lt_trichotomy a b with h | h | h
    · simp [h, Nat.lt_asymm h]
    · subst h; rfl
    · simp [h, Nat.lt_asymm h]
  avg := fun a _ b _ _ => by simp [upInit, blockSum]

/-- (d, bookkeeping) one join keeps the cluster-average invariant -/
theorem upgma_join_invariant [CharZero α] (d0 : Nat → Nat → α) (s : UP α) (f g : Nat) (h : UPInv d0 s)
    (hf : f ∈ s.pool) (hg : g ∈ s.pool) (hfg : f ≠ g) : UPInv d0 (upJoin s f g) := by
  have hsub : ∀ k, k ∈ (s.pool.erase f).erase g → k ∈ s.pool ∧ k ≠ f ∧ k ≠ g := by
    intro k hk
    have h1 : k ∈ s.pool.erase f := List.mem_of_mem_erase hk
    exact ⟨List.mem_of_mem_erase h1, fun e => by subst e; exact (List.Nodup.mem_erase_iff h.nodup).mp h1 |>.1 rfl,
      fun e => by subst e; exact (List.Nodup.mem_erase_iff (h.nodup.erase _)).mp hk |>.1 rfl⟩
  have hnew : s.next ∉ (s.pool.erase f).erase g := fun hk => Nat.lt_irrefl _ (h.fresh _ (hsub _ hk).1)
  have hne : ∀ k ∈ (s.pool.erase f).erase g, k ≠ s.next := fun k hk e => hnew (e ▸ hk)
  have hlen : ∀ k ∈ s.pool, ((s.cl k).length : α) ≠ 0 := fun k hk => by
    have := List.length_pos_iff.mpr (h.nonempty k hk)
    exact_mod_cast (Nat.pos_iff_ne_zero.mp this)
  have hsum : ((s.cl f).length : α) + ((s.cl g).length : α) ≠ 0 := by
    have h1 := List.length_pos_iff.mpr (h.nonempty f hf)
    have : (s.cl f).length + (s.cl g).length ≠ 0 := by omega
    exact_mod_cast this
  have key1 : ∀ k ∈ (s.pool.erase f).erase g,
      upNewDist s f g k * ((((s.cl f).length : α) + ((s.cl g).length : α)) * ((s.cl k).length : α)) =
        blockSum d0 (s.cl f) (s.cl k) + blockSum d0 (s.cl g) (s.cl k) := by
    intro k hk
    obtain ⟨hk1, hk2, hk3⟩ := hsub k hk
    rw [← h.avg f hf k hk1 (Ne.symm hk2), ← h.avg g hg k hk1 (Ne.symm hk3)]
    simp only [upNewDist, Nat.cast_add, Nat.cast_zero, zero_add]
    field_simp
  refine ⟨?_, ?_, ?_, ?_, ?_⟩
  · simp only [upJoin]
    exact List.Nodup.append ((h.nodup.erase f).erase g) (List.nodup_singleton _) (by
      intro a ha hb; simp at hb; subst hb; exact hnew ha)
  · intro k hk
    simp only [upJoin, List.mem_append, List.mem_singleton] at hk ⊢
    rcases hk with hk | rfl
    · exact Nat.lt_succ_of_lt (h.fresh _ (hsub _ hk).1)
    · exact Nat.lt_succ_self _
  · intro k hk
    simp only [upJoin, List.mem_append, List.mem_singleton] at hk ⊢
    rcases hk with hk | rfl
    · simp [hne k hk]; exact h.nonempty k (hsub k hk).1
    · simp; intro e; exact absurd e (h.nonempty f hf)
  · intro a ha b hb
    simp only [upJoin, List.mem_append, List.mem_singleton] at ha hb ⊢
    by_cases ea : a = s.next <;> by_cases eb : b = s.next
    · subst ea; subst eb; rfl
    · simp [ea, eb]
    · simp [ea, eb]
    · simp only [ea, eb, if_false]
      rcases ha with ha | ha; rcases hb with hb | hb
      · exact h.symm a (hsub a ha).1 b (hsub b hb).1
      · exact absurd hb eb
      · exact absurd ha ea
  · intro a ha b hb hab
    simp only [upJoin, List.mem_append, List.mem_singleton] at ha hb ⊢
    by_cases ea : a = s.next <;> by_cases eb : b = s.next
    · exact absurd (ea.trans eb.symm) hab
    · have hb' : b ∈ (s.pool.erase f).erase g := by rcases hb with hb | hb; exact hb; exact absurd hb eb
      simp only [ea, eb, if_true, if_false, List.length_append, Nat.cast_add, Aux.blockSum_append_left]
      exact key1 b hb'
    · have ha' : a ∈ (s.pool.erase f).erase g := by rcases ha with ha | ha; exact ha; exact absurd ha ea
      obtain ⟨ha1, ha2, ha3⟩ := hsub a ha'
      simp only [ea, eb, if_true, if_false, List.length_append, Nat.cast_add, Aux.blockSum_append_right]
      rw [← h.avg a ha1 f hf ha2, ← h.avg a ha1 g hg ha3, h.symm a ha1 f hf, h.symm a ha1 g hg]
      have := key1 a ha'
      rw [← h.avg f hf a ha1 (Ne.symm ha2), ← h.avg g hg a ha1 (Ne.symm ha3)] at this
      linear_combination this
    · have ha' : a ∈ (s.pool.erase f).erase g := by rcases ha with ha | ha; exact ha; exact absurd ha ea
      have hb' : b ∈ (s.pool.erase f).erase g := by rcases hb with hb | hb; exact hb; exact absurd hb eb
      simp only [ea, eb, if_false]
      exact h.avg a (hsub a ha').1 b (hsub b hb').1 hab

variable [LinearOrder α]

theorem up_pick_mem (s : UP α) (h : s.pool.Nodup) (f g : Nat) (hp : upPick s = some (f, g)) :
    f ∈ s.pool ∧ g ∈ s.pool ∧ f ≠ g := by
  simp only [upPick, Option.map_eq_some_iff] at hp
  obtain ⟨r, hr, he⟩ := hp
  rcases argmin_mem _ _ none r hr with h' | h'
  · simp at h'
  · rw [he] at h'
    exact ⟨(pairsOf_mem_both' _ _ h').1, (pairsOf_mem_both' _ _ h').2, pairsOf_ne _ h _ h'⟩

/-- (d, bookkeeping) `upgma_avg_spec`: after any number of passes of the `while len(node_pool) > 1` loop, the distance stored
between any two clusters of the pool is the arithmetic mean of the original distances between their members
(the size-weighted update `(d_f·|f| + d_g·|g|) / (|f|+|g|)` composes to the plain average over leaf pairs). -/
theorem upgma_avg_spec [CharZero α] (n : Nat) (M : Nat → Nat → α) (fuel : Nat) :
    let s := upRun fuel (upInit n M)
    ∀ a ∈ s.pool, ∀ b ∈ s.pool, a ≠ b →
      s.d a b = blockSum (upInit n M).d (s.cl a) (s.cl b) / (((s.cl a).length : α) * ((s.cl b).length : α)) := by
  have inv : ∀ fuel (s : UP α), UPInv (upInit n M).d s → UPInv (upInit n M).d (upRun fuel s) := by
    intro fuel
    induction fuel with
    | zero => intro s h; exact h
    | succ k ih =>
      intro s h
      simp only [upRun]
      split
      · apply ih
        unfold upStep
        cases hp : upPick s with
        | none => exact h
        | some p =>
          obtain ⟨f, g⟩ := p
          obtain ⟨hf, hg, hfg⟩ := up_pick_mem s h.nodup f g hp
          exact upgma_join_invariant _ s f g h hf hg hfg
      · exact h
  intro s a ha b hb hab
  have h := inv fuel _ (up_init_inv n M)
  have hne : ∀ k ∈ s.pool, ((s.cl k).length : α) ≠ 0 := fun k hk => by
    have := List.length_pos_iff.mpr (h.nonempty k hk)
    exact_mod_cast (Nat.pos_iff_ne_zero.mp this)
  rw [eq_div_iff (mul_ne_zero (hne a ha) (hne b hb))]
  exact h.avg a ha b hb hab

end up

/-- the leaves below `u` include all taxa of `target` -/
def covers (target : Nat) (u : T) : Prop := u.mask &&& target = target
/-- siblings have disjoint leaf sets -/
def Disj (cs : List T) : Prop := cs.Pairwise fun a b => a.mask &&& b.mask = 0
/-- every leaf below carries a taxon and no taxon occurs twice (mask form, DESIGN §3 `Good`) -/
def GoodM (t : T) : Prop := ∀ u ∈ t.nodes, (∀ c ∈ u.cs, c.mask ≠ 0) ∧ Disj u.cs
/-- the stored leafset bitmasks are those of the tree as it is now -/
def Current (m : Nat → Nat) (t : T) : Prop := ∀ u ∈ t.nodes, m u.id = u.mask

namespace Aux
theorem nodes_self (t : T) : t ∈ t.nodes := by cases t; simp [T.nodes]
theorem nodes_child {t c u : T} (hc : c ∈ t.cs) (hu : u ∈ c.nodes) : u ∈ t.nodes := by
  cases t with
  | node i x l s cs =>
    simp only [T.nodes, T.cs, List.mem_cons] at hc ⊢
    right
    induction cs with
    | nil => simp at hc
    | cons c0 cs ih =>
      simp only [T.nodesL, List.mem_append]
      rcases List.mem_cons.mp hc with rfl | h
      · exact Or.inl hu
      · exact Or.inr (ih h)

theorem and_disj_false {a b t : Nat} (h1 : a &&& t ≠ 0) (h2 : b &&& t = t) (h3 : a &&& b = 0) : False := by
  apply h1
  rw [← h2, ← Nat.and_assoc, h3, Nat.zero_and]

theorem mask_node (i x l s c cs) : (T.node i x l s (c :: cs)).mask = T.maskL (c :: cs) := by simp [T.mask]

theorem child_sub : ∀ (cs : List T) (c : T), c ∈ cs → c.mask &&& T.maskL cs = c.mask
  | [], c, h => by simp at h
  | c0 :: cs, c, h => by
    simp only [T.maskL]
    rcases List.mem_cons.mp h with rfl | h'
    · apply Nat.eq_of_testBit_eq; intro j
      simp only [Nat.testBit_and, Nat.testBit_or]
      cases c.mask.testBit j <;> simp
    · have ih := child_sub cs c h'
      apply Nat.eq_of_testBit_eq; intro j
      have := congrArg (fun z => z.testBit j) ih
      simp only [Nat.testBit_and, Nat.testBit_or] at this ⊢
      revert this
      cases c.mask.testBit j <;> cases (T.maskL cs).testBit j <;> simp

theorem tail_props : ∀ t : T, tail t ∈ t.nodes ∧ (tail t).mask = t.mask ∧ (tail t).cs.length ≠ 1
  | .node i x l s [] => by simp [tail, T.nodes, T.cs]
  | .node i x l s [c] => by
    have ih := tail_props c
    refine ⟨?_, ?_, ?_⟩
    · rw [tail]; exact nodes_child (t := .node i x l s [c]) (by simp [T.cs]) ih.1
    · rw [tail, ih.2.1]; simp [T.mask, T.maskL]
    · rw [tail]; exact ih.2.2
  | .node i x l s (c :: c' :: cs) => by simp [tail, T.nodes, T.cs]

/-- a node with at least two non-empty, pairwise disjoint children whose union is `target`: no child has them all -/
theorem no_child_covers (u : T) (target : Nat) (hne : ∀ c ∈ u.cs, c.mask ≠ 0) (hd : Disj u.cs)
    (hm : u.mask = target) (hlen : u.cs.length ≠ 1) : ∀ c ∈ u.cs, ¬ covers target c := by
  intro c hc hcov
  cases u with
  | node i x l s cs =>
    simp only [T.cs] at hne hd hlen hc
    have hmask : T.maskL cs = target := by
      cases cs with
      | nil => simp at hc
      | cons c0 cs => rw [← hm, mask_node]
    obtain ⟨pre, post, rfl⟩ := List.append_of_mem hc
    -- some other child
    have hother : ∃ c2, c2 ∈ pre ++ c :: post ∧ (c2.mask &&& c.mask = 0) := by
      rcases pre with _ | ⟨p, pre⟩
      · rcases post with _ | ⟨q, post⟩
        · simp at hlen
        · refine ⟨q, by simp, ?_⟩
          have := (List.pairwise_cons.mp hd).1 q (by simp)
          rw [Nat.and_comm]; exact this
      · refine ⟨p, by simp, ?_⟩
        exact (List.pairwise_cons.mp hd).1 c (by simp)
    obtain ⟨c2, hc2, hdis⟩ := hother
    have hsub := child_sub _ c2 hc2
    rw [hmask] at hsub
    exact and_disj_false (a := c2.mask) (b := c.mask) (t := target) (by rw [hsub]; exact hne c2 hc2) hcov hdis
end Aux

namespace Aux
mutual
theorem scanT_spec (m : Nat → Nat) (target : Nat) (ht : target ≠ 0) (last : T) :
    ∀ c : T, Current m c → GoodM c →
      (scanT m target last c = none ∧ c.mask &&& target = 0) ∨
      (scanT m target last c = some last ∧ c.mask &&& target ≠ 0 ∧ ¬ covers target c) ∨
      (∃ r, scanT m target last c = some r ∧ r ∈ c.nodes ∧ covers target r ∧ ∀ c' ∈ r.cs, ¬ covers target c')
  | .node i x l s cs, hcur, hgood => by
    have hm : m i = (T.node i x l s cs).mask := hcur _ (nodes_self _)
    simp only [scanT]
    by_cases h0 : m i &&& target = 0
    · left; simp [h0]; rw [← hm]; exact h0
    · by_cases h1 : m i &&& target = target
      · by_cases h2 : m i = target
        · right; right
          have tp := tail_props (T.node i x l s cs)
          have hg := hgood _ tp.1
          refine ⟨tail (.node i x l s cs), by simp [h0, h1, h2]; exact ht, tp.1, ?_, ?_⟩
          · simp only [covers]; rw [tp.2.1, ← hm, h2, Nat.and_self]
          · exact no_child_covers _ target hg.1 hg.2 (by rw [tp.2.1, ← hm, h2]) tp.2.2
        · right; right
          have hchild : ∀ c ∈ cs, Current m c ∧ GoodM c := fun c hc =>
            ⟨fun u hu => hcur u (nodes_child (t := .node i x l s cs) hc hu),
             fun u hu => hgood u (nodes_child (t := .node i x l s cs) hc hu)⟩
          have hd : Disj cs := (hgood _ (nodes_self _)).2
          refine ⟨scanL m target (.node i x l s cs) cs, by simp [h0, h1, h2]; exact ht, ?_⟩
          rcases scanL_spec m target ht (.node i x l s cs) cs hchild hd with ⟨e, hno⟩ | ⟨c, hc, hr, hcv, hno⟩
          · rw [e]
            exact ⟨nodes_self _, by simp only [covers]; rw [← hm]; exact h1, hno⟩
          · exact ⟨nodes_child (t := .node i x l s cs) hc hr, hcv, hno⟩
      · right; left
        refine ⟨by simp [h0, h1], by rw [← hm]; exact h0, ?_⟩
        simp only [covers]; rw [← hm]; exact h1
theorem scanL_spec (m : Nat → Nat) (target : Nat) (ht : target ≠ 0) (last : T) :
    ∀ cs : List T, (∀ c ∈ cs, Current m c ∧ GoodM c) → Disj cs →
      (scanL m target last cs = last ∧ ∀ c ∈ cs, ¬ covers target c) ∨
      (∃ c ∈ cs, scanL m target last cs ∈ c.nodes ∧ covers target (scanL m target last cs) ∧
        ∀ c' ∈ (scanL m target last cs).cs, ¬ covers target c')
  | [], _, _ => by left; simp [scanL]
  | c :: rest, hall, hd => by
    have hc := hall c List.mem_cons_self
    have hrest : ∀ c' ∈ rest, Current m c' ∧ GoodM c' := fun c' h => hall c' (List.mem_cons_of_mem _ h)
    have hd' := List.pairwise_cons.mp hd
    rcases scanT_spec m target ht last c hc.1 hc.2 with ⟨e, hz⟩ | ⟨e, hnz, hnc⟩ | ⟨r, e, hr, hcv, hno⟩
    · simp only [scanL, e]
      have hnc : ¬ covers target c := fun h => ht (by simp only [covers] at h; rw [← h]; exact hz)
      rcases scanL_spec m target ht last rest hrest hd'.2 with ⟨e', hno⟩ | ⟨c', hc', h⟩
      · left; exact ⟨e', fun c'' h'' => by rcases List.mem_cons.mp h'' with rfl | h3; exact hnc; exact hno _ h3⟩
      · right; exact ⟨c', List.mem_cons_of_mem _ hc', h⟩
    · simp only [scanL, e]
      left
      refine ⟨trivial, fun c'' h'' => ?_⟩
      rcases List.mem_cons.mp h'' with rfl | h3
      · exact hnc
      · intro hcov
        exact and_disj_false hnz hcov (hd'.1 c'' h3)
    · simp only [scanL, e]
      right; exact ⟨c, List.mem_cons_self, hr, hcv, hno⟩
end

end Aux

/-- (c) `tree_mrca_spec`: on a tree whose stored leafset bitmasks are current (`Current`; a requested refresh makes
them so) and whose leaves carry distinct taxa, the mask-guided descent of `Tree.mrca` — including the unifurcation
tail — returns a node `r` below the start node whose leaves include all requested taxa while no child of `r` has
them all: the deepest such node. -/
theorem tree_mrca_spec (m : Nat → Nat) (target : Nat) (start : T) (ht : target ≠ 0)
    (hcur : Current m start) (hgood : GoodM start) (hcov : covers target start) :
    scanL m target start [start] ∈ start.nodes ∧ covers target (scanL m target start [start]) ∧
      ∀ c ∈ (scanL m target start [start]).cs, ¬ covers target c := by
  rcases Aux.scanL_spec m target ht start [start] (by simp; exact ⟨hcur, hgood⟩) (by simp [Disj]) with ⟨_, hno⟩ | ⟨c, hc, h⟩
  · exact absurd hcov (hno start (by simp))
  · simp at hc; subst hc; exact h

/-- the hypothesis `Current` is needed: leaves 1 and 3 swapped their taxa after the encoding; the stale masks send the
query for taxa {1, 2} to node 2, whose leaves are now {0, 2} -/
def staleTree : T :=
  .node 0 none none none [.node 1 (some 1) none none [], .node 2 none none none [.node 3 (some 0) none none [], .node 4 (some 2) none none []]]
def staleMasks : Nat → Nat := fun i => match i with | 0 => 7 | 1 => 1 | 2 => 6 | 3 => 2 | 4 => 4 | _ => 0

theorem tree_mrca_stale_example :
    (scanL staleMasks 6 staleTree [staleTree]).id = 2 ∧ (scanL staleMasks 6 staleTree [staleTree]).mask &&& 6 ≠ 6 := by
  decide


namespace Aux
section turnnode
variable [DecidableEq κ] [AddCommMonoid α] (ℓ : T → α) (key : T → κ)

/-- "the path between `a` and `b` turns at `u`": both leaves are below `u`, no child of `u` has both -/
def TurnsAt (key : T → κ) (u : T) (a b : κ) : Prop :=
  a ∈ leafKeys key u ∧ b ∈ leafKeys key u ∧ ∀ c ∈ u.cs, ¬ (a ∈ leafKeys key c ∧ b ∈ leafKeys key c)

mutual
theorem turn_node_spec : ∀ (t : T) (a b : κ) (d : α) (n m : Nat), (leafKeys key t).Nodup →
    turn ℓ key t a b = some (d, n, m) → ∃ u ∈ t.nodes, u.id = m ∧ TurnsAt key u a b
  | .node i x l s [], a, b, d, n, m, _, h => by simp [turn, turnL] at h
  | .node i x l s (c :: cs), a, b, d, n, m, hnd, h => by
    rw [leafKeys_node] at hnd
    simp only [turn] at h
    rcases turnL_node_spec (c :: cs) i a b d n m hnd h with ⟨rfl, ha, hb, hno⟩ | ⟨c', hc', u, hu, hid, ht⟩
    · exact ⟨_, nodes_self _, rfl, by rw [leafKeys_node]; exact ha, by rw [leafKeys_node]; exact hb, hno⟩
    · exact ⟨u, nodes_child (t := .node i x l s (c :: cs)) hc' hu, hid, ht⟩
theorem turnL_node_spec : ∀ (cs : List T) (i : Nat) (a b : κ) (d : α) (n m : Nat), (leafKeysL key cs).Nodup →
    turnL ℓ key i cs a b = some (d, n, m) →
    (m = i ∧ a ∈ leafKeysL key cs ∧ b ∈ leafKeysL key cs ∧ ∀ c ∈ cs, ¬ (a ∈ leafKeys key c ∧ b ∈ leafKeys key c)) ∨
    (∃ c ∈ cs, ∃ u ∈ c.nodes, u.id = m ∧ TurnsAt key u a b)
  | [], i, a, b, d, n, m, _, h => by simp [turnL] at h
  | c :: cs, i, a, b, d, n, m, hnd, h => by
    rw [leafKeysL_cons] at hnd ⊢
    have hnd1 := (List.nodup_append.mp hnd).1
    have hnd2 := (List.nodup_append.mp hnd).2.1
    have hdis := (List.nodup_append.mp hnd).2.2
    simp only [turnL] at h
    cases hda : down ℓ key c a with
    | some ra =>
      cases hdb : down ℓ key c b with
      | some rb =>
        simp only [hda, hdb] at h
        obtain ⟨u, hu, hid, ht⟩ := turn_node_spec c a b d n m hnd1 h
        exact Or.inr ⟨c, List.mem_cons_self, u, hu, hid, ht⟩
      | none =>
        simp only [hda, hdb] at h
        cases hx : downL ℓ key cs b with
        | none => simp [hx] at h
        | some rb =>
          simp only [hx] at h
          have ha := down_mem ℓ key hda
          have hb : b ∈ leafKeysL key cs := (downL_isSome ℓ key cs b).mp (by simp [hx])
          have hbn : b ∉ leafKeys key c := fun h' => by
            have := (down_isSome ℓ key c b).mpr h'; simp [hdb] at this
          injection h with h; injection h with _ h; injection h with _ h
          refine Or.inl ⟨h.symm, List.mem_append_left _ ha, List.mem_append_right _ hb, ?_⟩
          intro c' hc' hboth
          rcases List.mem_cons.mp hc' with rfl | h3
          · exact hbn hboth.2
          · exact hdis _ ha _ (leafKeys_sub_L key h3 hboth.1) rfl
    | none =>
      cases hdb : down ℓ key c b with
      | some rb =>
        simp only [hda, hdb] at h
        cases hx : downL ℓ key cs a with
        | none => simp [hx] at h
        | some ra =>
          simp only [hx] at h
          have hb := down_mem ℓ key hdb
          have ha : a ∈ leafKeysL key cs := (downL_isSome ℓ key cs a).mp (by simp [hx])
          have han : a ∉ leafKeys key c := fun h' => by
            have := (down_isSome ℓ key c a).mpr h'; simp [hda] at this
          injection h with h; injection h with _ h; injection h with _ h
          refine Or.inl ⟨h.symm, List.mem_append_right _ ha, List.mem_append_left _ hb, ?_⟩
          intro c' hc' hboth
          rcases List.mem_cons.mp hc' with rfl | h3
          · exact han hboth.1
          · exact hdis _ hb _ (leafKeys_sub_L key h3 hboth.2) rfl
      | none =>
        simp only [hda, hdb] at h
        have han : a ∉ leafKeys key c := fun h' => by
          have := (down_isSome ℓ key c a).mpr h'; simp [hda] at this
        rcases turnL_node_spec cs i a b d n m hnd2 h with ⟨e, ha, hb, hno⟩ | ⟨c', hc', r⟩
        · refine Or.inl ⟨e, List.mem_append_right _ ha, List.mem_append_right _ hb, ?_⟩
          intro c' hc' hboth
          rcases List.mem_cons.mp hc' with rfl | h3
          · exact han hboth.1
          · exact hno c' h3 hboth
        · exact Or.inr ⟨c', List.mem_cons_of_mem _ hc', r⟩
end
end turnnode

section minlist
variable [LinearOrder α]
theorem minList_spec : ∀ (ds : List α) (m : α), minList m ds ∈ m :: ds ∧ ∀ d ∈ m :: ds, minList m ds ≤ d
  | [], m => by simp [minList]
  | d :: ds, m => by
    simp only [minList]
    split
    · rename_i hlt
      have ih := minList_spec ds d
      refine ⟨List.mem_cons_of_mem _ ih.1, fun e he => ?_⟩
      rcases List.mem_cons.mp he with rfl | he'
      · exact le_trans (ih.2 d List.mem_cons_self) (le_of_lt hlt)
      · exact ih.2 e he'
    · rename_i hge
      have ih := minList_spec ds m
      refine ⟨?_, fun e he => ?_⟩
      · rcases List.mem_cons.mp ih.1 with h | h
        · rw [h]; exact List.mem_cons_self
        · exact List.mem_cons_of_mem _ (List.mem_cons_of_mem _ h)
      · rcases List.mem_cons.mp he with rfl | he'
        · exact ih.2 _ List.mem_cons_self
        · rcases List.mem_cons.mp he' with rfl | he''
          · exact le_trans (ih.2 m List.mem_cons_self) (not_lt.mp hge)
          · exact ih.2 e (List.mem_cons_of_mem _ he'')
end minlist
end Aux

section pdm2
variable [DecidableEq κ]

/-- (a) `pdm_mrca_spec`: the node recorded as common ancestor of two different leaf taxa is a node of the tree that has
both leaves below it while none of its children has both — the node where the path between them turns. -/
theorem pdm_mrca_spec [AddCommMonoid α] (ℓ : T → α) (key : T → κ) (t : T) (h : Good key t) (a b : κ) (hab : a ≠ b)
    (ha : a ∈ t.leaves.map key) (hb : b ∈ t.leaves.map key) :
    ∃ e, lookup (table ℓ key t) a b = some e ∧ ∃ u ∈ t.nodes, u.id = e.mrca ∧
      a ∈ u.leaves.map key ∧ b ∈ u.leaves.map key ∧ ∀ c ∈ u.cs, ¬ (a ∈ c.leaves.map key ∧ b ∈ c.leaves.map key) := by
  obtain ⟨e, h1, h2⟩ := pdm_lookup_spec ℓ key t h a b hab ha hb
  obtain ⟨u, hu, hid, ht⟩ := turn_node_spec ℓ key t a b _ _ _ h h2
  exact ⟨e, h1, u, hu, hid, ht⟩

/-- (b) `nearest_spec`: the running minimum used by the nearest-taxon summary (strict `<`, first minimum kept) returns a
member of the candidate distances that is ≤ all of them -/
theorem nearest_spec [LinearOrder α] (m : α) (ds : List α) :
    minList m ds ∈ m :: ds ∧ ∀ d ∈ m :: ds, minList m ds ≤ d := minList_spec ds m
end pdm2

namespace Aux
theorem pairsOf_ne_nil {β : Type} : ∀ (L : List β), 2 ≤ L.length → pairsOf L ≠ []
  | [], h => by simp at h
  | [_], h => by simp at h
  | x :: y :: L, _ => by simp [pairsOf]
end Aux

section recover
variable [Field α]

/-- (d) **partial**: the one-step lemma of neighbour joining's correctness. If the joined pair `f`, `g` is a cherry of an
additive metric (pendant lengths `Lf`, `Lg`; every other pool member `k` at distance `Lf + u k` resp. `Lg + u k`), the
pass produces the subtree `(f:Lf, g:Lg)`, the distances of the new node are those of the cherry's parent (`u`), all other
distances are untouched, and the bookkeeping invariant holds again — i.e. the state is that of the contracted tree.
STATUS: this is one step only (hence the name).  The induction over contractions is `nj_realises_of_cherry_picking`; the
cherry-picking lemma (the Q-minimal pair of an additive metric with positive internal edges *is* a cherry) is `minQ_cherry_all`,
and the unconditional clause is `nj_realises` / `nj_inverts_tree`. -/
theorem nj_recovers_tree_partial [CharZero α] (s : NJ α) (f g : Nat) (h : NJInv s) (hf : f ∈ s.pool) (hg : g ∈ s.pool)
    (hfg : f ≠ g) (hn : s.pool.length > 2) (Lf Lg : α) (u : Nat → α) (hfg' : s.d f g = Lf + Lg)
    (hu : ∀ k ∈ (s.pool.erase f).erase g, s.d f k = Lf + u k ∧ s.d g k = Lg + u k) :
    NJInv (njJoin s f g) ∧
    (njJoin s f g).pool = (s.pool.erase f).erase g ++ [s.next] ∧
    (njJoin s f g).sub s.next = .node (s.sub f) Lf (s.sub g) Lg ∧
    (∀ k ∈ (s.pool.erase f).erase g, (njJoin s f g).d s.next k = u k ∧ (njJoin s f g).d k s.next = u k) ∧
    (∀ a ∈ (s.pool.erase f).erase g, ∀ b ∈ (s.pool.erase f).erase g, (njJoin s f g).d a b = s.d a b) := by
  obtain ⟨hl, hd⟩ := nj_cherry_step s f g h hf hg hfg hn Lf Lg u hfg' hu
  have hne : ∀ k ∈ (s.pool.erase f).erase g, k ≠ s.next := fun k hk e =>
    Nat.lt_irrefl _ (e ▸ h.fresh k (List.mem_of_mem_erase (List.mem_of_mem_erase hk)))
  refine ⟨nj_join_inv s f g h hf hg hfg, rfl, ?_, ?_, ?_⟩
  · simp [njJoin, hl]
  · intro k hk
    simp [njJoin, hne k hk, hd k hk]
  · intro a ha b hb
    simp [njJoin, hne a ha, hne b hb]

/-- (d) **partial**: the one-step lemma of UPGMA's correctness. If the joined pair are siblings of an ultrametric tree (every
other cluster is equally far from both) the new cluster keeps that distance (its height and child edges: `upgma_ultrametric`,
`upgma_join_heights`).  Superseded: that a minimal pair of an ultrametric is a sibling pair is proved inside `upgma_join_urel`,
the induction is `upgma_realises`, the full clause `upgma_recovers_tree` / `upgma_inverts_pdm`. -/
theorem upgma_recovers_tree_partial [CharZero α] (s : UP α) (f g : Nat) (hf : s.cl f ≠ [])
    (hsib : ∀ k ∈ (s.pool.erase f).erase g, s.d f k = s.d g k) :
    ∀ k ∈ (s.pool.erase f).erase g, upNewDist s f g k = s.d f k := by
  intro k hk
  have hsum : ((s.cl f).length : α) + ((s.cl g).length : α) ≠ 0 := by
    have h1 := List.length_pos_iff.mpr hf
    have : (s.cl f).length + (s.cl g).length ≠ 0 := by omega
    exact_mod_cast this
  simp only [upNewDist, Nat.cast_add, Nat.cast_zero, zero_add, ← hsib k hk]
  field_simp
end recover

section termination
variable [Field α] [LinearOrder α]

theorem nj_step_length (s : NJ α) (h : NJInv s) (h2 : 2 ≤ s.pool.length) : (njStep s).pool.length + 1 = s.pool.length := by
  unfold njStep
  have hs : (njPick s).isSome := by
    simp only [njPick, Option.isSome_map]
    exact argmin_isSome _ _ _ (Or.inr (pairsOf_ne_nil _ h2))
  obtain ⟨p, hp⟩ := Option.isSome_iff_exists.mp hs
  obtain ⟨f, g⟩ := p
  obtain ⟨hf, hg, hfg⟩ := nj_pick_mem s h.nodup f g hp
  simp only [hp, njJoin, List.length_append, List.length_singleton]
  rw [List.length_erase_of_mem ((List.mem_erase_of_ne (Ne.symm hfg)).mpr hg), List.length_erase_of_mem hf]
  omega

/-- the `while n > 1` loop of `nj_tree` ends: the fuel `n` given to the model's loop suffices, and exactly one node is left -/
theorem nj_terminates (n : Nat) (d : Nat → Nat → α) (hd : ∀ a < n, ∀ b < n, d a b = d b a) (hn : 1 ≤ n) :
    ∃ r, njTree n d = some r := by
  have key : ∀ fuel (s : NJ α), NJInv s → 1 ≤ s.pool.length → s.pool.length ≤ fuel + 1 → (njRun fuel s).pool.length = 1 := by
    intro fuel
    induction fuel with
    | zero => intro s _ h1 h2; simp only [njRun]; omega
    | succ k ih =>
      intro s h h1 h2
      simp only [njRun]
      split
      · rename_i hgt
        have hl := nj_step_length s h (by omega)
        exact ih _ (nj_step_inv s h) (by omega) (by omega)
      · omega
  have hlen := key n (njInit n d) (nj_init_inv n d hd) (by simp [njInit]; exact hn) (by simp [njInit])
  obtain ⟨r, hr⟩ := List.length_eq_one_iff.mp hlen
  exact ⟨(njRun n (njInit n d)).sub r, by simp only [njTree, hr]⟩
end termination


namespace Aux
theorem sub_trans {a b c : Nat} (h1 : a &&& b = a) (h2 : b &&& c = b) : a &&& c = a := by
  rw [← h1, Nat.and_assoc, h2]

theorem covers_up {w c t : Nat} (h1 : w &&& c = w) (h2 : w &&& t = t) : c &&& t = t := by
  have h2' : t &&& w = t := by rw [Nat.and_comm]; exact h2
  rw [Nat.and_comm]; exact sub_trans h2' h1

theorem disjoint_cover {c1 c2 t : Nat} (hd : c1 &&& c2 = 0) (h1 : c1 &&& t = t) (h2 : c2 &&& t = t) : t = 0 := by
  rw [← h1, ← h2, ← Nat.and_assoc, hd, Nat.zero_and]

mutual
theorem sub_mask : ∀ (t : T) (w : T), w ∈ t.nodes → w.mask &&& t.mask = w.mask
  | .node i x l s cs, w, hw => by
    simp only [T.nodes, List.mem_cons] at hw
    rcases hw with rfl | hw
    · exact Nat.and_self _
    · obtain ⟨c, hc, hwc, hsub⟩ := sub_maskL cs w hw
      refine sub_trans hsub ?_
      cases cs with
      | nil => simp at hc
      | cons c0 cs => rw [mask_node]; exact child_sub _ c hc
theorem sub_maskL : ∀ (cs : List T) (w : T), w ∈ T.nodesL cs → ∃ c ∈ cs, w ∈ c.nodes ∧ w.mask &&& c.mask = w.mask
  | [], w, hw => by simp [T.nodesL] at hw
  | c :: cs, w, hw => by
    simp only [T.nodesL, List.mem_append] at hw
    rcases hw with hw | hw
    · exact ⟨c, List.mem_cons_self, hw, sub_mask c w hw⟩
    · obtain ⟨c', hc', h⟩ := sub_maskL cs w hw
      exact ⟨c', List.mem_cons_of_mem _ hc', h⟩
end

theorem goodM_child {t c : T} (h : GoodM t) (hc : c ∈ t.cs) : GoodM c :=
  fun u hu => h u (nodes_child hc hu)

mutual
/-- in a well-formed tree the nodes whose leaves include a non-empty taxon set form a chain: a covering node none of whose
children covers lies below every covering node -/
theorem deepT (target : Nat) (ht : target ≠ 0) : ∀ (t : T), GoodM t → ∀ r ∈ t.nodes, ∀ u ∈ t.nodes,
    covers target r → (∀ c ∈ r.cs, ¬ covers target c) → covers target u → r ∈ u.nodes
  | .node i x l s cs, hg, r, hr, u, hu, hcr, hno, hcu => by
    have hr' := hr
    simp only [T.nodes, List.mem_cons] at hr hu
    rcases hu with rfl | hu
    · exact hr'
    · rcases hr with rfl | hr
      · exfalso
        obtain ⟨c, hc, hwc, hsub⟩ := sub_maskL cs u hu
        exact hno c (by simpa [T.cs] using hc) (covers_up hsub hcu)
      · exact deepL target ht cs (fun c hc => goodM_child (t := .node i x l s cs) hg (by simpa [T.cs] using hc))
          (hg _ (nodes_self _)).2 r hr u hu hcr hno hcu
theorem deepL (target : Nat) (ht : target ≠ 0) : ∀ (cs : List T), (∀ c ∈ cs, GoodM c) → Disj cs →
    ∀ r ∈ T.nodesL cs, ∀ u ∈ T.nodesL cs,
    covers target r → (∀ c ∈ r.cs, ¬ covers target c) → covers target u → r ∈ u.nodes
  | [], _, _, r, hr, _, _, _, _, _ => by simp [T.nodesL] at hr
  | c :: rest, hg, hd, r, hr, u, hu, hcr, hno, hcu => by
    simp only [T.nodesL, List.mem_append] at hr hu
    have hd' := List.pairwise_cons.mp hd
    rcases hr with hr | hr <;> rcases hu with hu | hu
    · exact deepT target ht c (hg c List.mem_cons_self) r hr u hu hcr hno hcu
    · exfalso
      obtain ⟨c', hc', _, hsub⟩ := sub_maskL rest u hu
      exact ht (disjoint_cover (hd'.1 c' hc') (covers_up (sub_mask c r hr) hcr) (covers_up hsub hcu))
    · exfalso
      obtain ⟨c', hc', _, hsub⟩ := sub_maskL rest r hr
      exact ht (disjoint_cover (hd'.1 c' hc') (covers_up (sub_mask c u hu) hcu) (covers_up hsub hcr))
    · exact deepL target ht rest (fun c' h' => hg c' (List.mem_cons_of_mem _ h')) hd'.2 r hr u hu hcr hno hcu
end
end Aux

/-- (c) `tree_mrca_deepest`: the node returned by the descent is the *deepest* node whose leaves include all requested taxa:
it lies in the subtree of every node (below the start node) whose leaves include them all. -/
theorem tree_mrca_deepest (m : Nat → Nat) (target : Nat) (start : T) (ht : target ≠ 0)
    (hcur : Current m start) (hgood : GoodM start) (hcov : covers target start) :
    ∀ u ∈ start.nodes, covers target u → scanL m target start [start] ∈ u.nodes := by
  obtain ⟨h1, h2, h3⟩ := tree_mrca_spec m target start ht hcur hgood hcov
  exact fun u hu hcu => deepT target ht start hgood _ h1 u hu h2 h3 hcu

namespace Aux
mutual
theorem find_mem : ∀ (t : T) (i : Nat) (r : T), t.find? i = some r → r ∈ t.nodes ∧ r.id = i
  | .node j x l s cs, i, r, h => by
    simp only [T.find?] at h
    by_cases e : (i == j) = true
    · simp only [e, if_true] at h
      injection h with h; subst h
      exact ⟨nodes_self _, by simp [T.id]; exact (beq_iff_eq.mp e).symm⟩
    · simp only [e] at h
      obtain ⟨h1, h2⟩ := findL_mem cs i r h
      exact ⟨by simp only [T.nodes, List.mem_cons]; exact Or.inr h1, h2⟩
theorem findL_mem : ∀ (cs : List T) (i : Nat) (r : T), T.findL? i cs = some r → r ∈ T.nodesL cs ∧ r.id = i
  | [], i, r, h => by simp [T.findL?] at h
  | c :: cs, i, r, h => by
    simp only [T.findL?] at h
    cases hc : T.find? i c with
    | some r' =>
      simp only [hc] at h; injection h with h; subst h
      obtain ⟨h1, h2⟩ := find_mem c i r' hc
      exact ⟨by simp only [T.nodesL, List.mem_append]; exact Or.inl h1, h2⟩
    | none =>
      simp only [hc] at h
      obtain ⟨h1, h2⟩ := findL_mem cs i r h
      exact ⟨by simp only [T.nodesL, List.mem_append]; exact Or.inr h1, h2⟩
end

mutual
theorem find_self : ∀ (t : T), (t.nodes.map T.id).Nodup → ∀ u ∈ t.nodes, t.find? u.id = some u
  | .node j x l s cs, hn, u, hu => by
    simp only [T.nodes, List.map_cons, List.nodup_cons, T.id] at hn
    simp only [T.nodes, List.mem_cons] at hu
    rcases hu with rfl | hu
    · simp [T.find?, T.id]
    · have hne : u.id ≠ j := fun e => hn.1 (e ▸ List.mem_map_of_mem hu)
      simp only [T.find?, beq_iff_eq, hne, if_false]
      exact findL_self cs hn.2 u hu
theorem findL_self : ∀ (cs : List T), ((T.nodesL cs).map T.id).Nodup → ∀ u ∈ T.nodesL cs, T.findL? u.id cs = some u
  | [], _, u, hu => by simp [T.nodesL] at hu
  | c :: cs, hn, u, hu => by
    simp only [T.nodesL, List.map_append] at hn
    simp only [T.nodesL, List.mem_append] at hu
    have hn' := List.nodup_append.mp hn
    rcases hu with hu | hu
    · simp [T.findL?, find_self c hn'.1 u hu]
    · cases hc : T.find? u.id c with
      | some r =>
        exfalso
        obtain ⟨h1, h2⟩ := find_mem c u.id r hc
        exact hn'.2.2 _ (List.mem_map_of_mem h1) _ (List.mem_map_of_mem hu) h2
      | none =>
        simp only [T.findL?, hc]
        exact findL_self cs hn'.2.1 u hu
end

mutual
theorem nodes_trans : ∀ (t s : T), s ∈ t.nodes → ∀ u ∈ s.nodes, u ∈ t.nodes
  | .node j x l s' cs, s, hs, u, hu => by
    simp only [T.nodes, List.mem_cons] at hs
    rcases hs with rfl | hs
    · exact hu
    · simp only [T.nodes, List.mem_cons]; exact Or.inr (nodesL_trans cs s hs u hu)
theorem nodesL_trans : ∀ (cs : List T) (s : T), s ∈ T.nodesL cs → ∀ u ∈ s.nodes, u ∈ T.nodesL cs
  | [], s, hs, _, _ => by simp [T.nodesL] at hs
  | c :: cs, s, hs, u, hu => by
    simp only [T.nodesL, List.mem_append] at hs ⊢
    rcases hs with hs | hs
    · exact Or.inl (nodes_trans c s hs u hu)
    · exact Or.inr (nodesL_trans cs s hs u hu)
end
end Aux

/-- a refresh (`encode_bipartitions`) makes the encoding current: the fresh leafset bitmask looked up by node id is the
mask of that node, provided node ids are distinct (they are: the harness numbers the nodes) -/
theorem tree_mrca_refresh_current (t : T) (hid : (t.nodes.map T.id).Nodup) : Current (freshMask t) t := by
  intro u hu
  simp [freshMask, find_self t hid u hu]

section diag
variable [DecidableEq κ] [AddCommMonoid α]
/-- (a) zero self-distance: the diagonal cell of every mapped leaf taxon reads length 0, 0 edges, and the leaf itself as ancestor -/
theorem pdm_diag (ℓ : T → α) (key : T → κ) (t : T) (a : κ) (ha : a ∈ mapped key t) :
    ∃ e, lookup (table ℓ key t) a a = some e ∧ e.d = 0 ∧ e.steps = 0 ∧ ∃ lf ∈ t.leaves, key lf = a ∧ e.mrca = lf.id := by
  unfold mapped at ha
  by_cases hl : t.isLeaf = true
  · simp [hl] at ha
  · rw [if_neg hl] at ha
    obtain ⟨lf, hlf, hk⟩ := List.mem_map.mp ha
    have hd : (diag (α := α) key t) = t.leaves.map fun lf => ⟨key lf, key lf, 0, 0, lf.id⟩ := by
      unfold diag; rw [if_neg hl]
    have hsome : ((diag (α := α) key t).find? fun e => e.a = a ∧ e.b = a).isSome := by
      rw [List.find?_isSome]
      exact ⟨⟨key lf, key lf, 0, 0, lf.id⟩, by rw [hd]; exact List.mem_map_of_mem hlf, by simp [hk]⟩
    obtain ⟨e, he⟩ := Option.isSome_iff_exists.mp hsome
    refine ⟨e, by rw [lookup, table, List.find?_append, he]; rfl, ?_⟩
    have hmem := List.mem_of_find?_eq_some he
    have hp := List.find?_some he
    rw [hd] at hmem
    obtain ⟨lf', hlf', rfl⟩ := List.mem_map.mp hmem
    simp only [decide_eq_true_eq] at hp
    exact ⟨rfl, rfl, lf', hlf', hp.1, rfl⟩
end diag

/-- (c) `Tree.mrca` without refresh on a tree whose stored encoding is current (and was made at all: the start node's
stored mask is not 0): the tree is left alone and the deepest node whose leaves include the requested taxa is returned. -/
theorem tree_mrca_current_spec (rooted : Bool) (stored : Nat → Nat) (target startId : Nat) (t start : T) (ht : target ≠ 0)
    (h0 : stored startId ≠ 0) (hfind : t.find? startId = some start) (hcur : Current stored start) (hgood : GoodM start)
    (hcov : covers target start) :
    ∃ r, treeMrca rooted false stored target startId t = .found t (some r) ∧ r ∈ start.nodes ∧ covers target r ∧
      (∀ c ∈ r.cs, ¬ covers target c) ∧ ∀ u ∈ start.nodes, covers target u → r ∈ u.nodes := by
  obtain ⟨hmem, hsid⟩ := find_mem t startId start hfind
  have hm : stored startId = start.mask := by rw [← hsid]; exact hcur start (nodes_self _)
  refine ⟨scanL stored target start [start], ?_, ?_⟩
  · have hc : ¬ (stored startId &&& target ≠ target) := by rw [hm]; exact not_not.mpr hcov
    simp only [treeMrca, ht, if_false, h0, decide_false, Bool.or_false, Bool.false_and, Bool.false_eq_true]
    rw [hfind]; simp only [hc, if_false]
  · obtain ⟨h1, h2, h3⟩ := tree_mrca_spec _ target start ht hcur hgood hcov
    exact ⟨h1, h2, h3, tree_mrca_deepest _ target start ht hcur hgood hcov⟩

section uptermination
variable [Field α] [LinearOrder α] [CharZero α]

theorem upgma_step_invariant (d0 : Nat → Nat → α) (s : UP α) (h : UPInv d0 s) : UPInv d0 (upStep s) := by
  unfold upStep
  cases hp : upPick s with
  | none => exact h
  | some p =>
    obtain ⟨f, g⟩ := p
    obtain ⟨hf, hg, hfg⟩ := up_pick_mem s h.nodup f g hp
    exact upgma_join_invariant _ s f g h hf hg hfg

/-- the `while len(node_pool) > 1` loop of `upgma_tree` ends with exactly one node: the model's fuel `n` suffices -/
theorem upgma_terminates (n : Nat) (M : Nat → Nat → α) (hn : 1 ≤ n) : ∃ r, upgmaTree n M = some r := by
  have step_len : ∀ s : UP α, s.pool.Nodup → 2 ≤ s.pool.length → (upStep s).pool.length + 1 = s.pool.length := by
    intro s hnd h2
    unfold upStep
    have hs : (upPick s).isSome := by
      simp only [upPick, Option.isSome_map]
      exact argmin_isSome _ _ _ (Or.inr (pairsOf_ne_nil _ h2))
    obtain ⟨p, hp⟩ := Option.isSome_iff_exists.mp hs
    obtain ⟨f, g⟩ := p
    obtain ⟨hf, hg, hfg⟩ := up_pick_mem s hnd f g hp
    simp only [hp, upJoin, List.length_append, List.length_singleton]
    rw [List.length_erase_of_mem ((List.mem_erase_of_ne (Ne.symm hfg)).mpr hg), List.length_erase_of_mem hf]
    omega
  have key : ∀ fuel (s : UP α), UPInv (upInit n M).d s → 1 ≤ s.pool.length → s.pool.length ≤ fuel + 1 →
      (upRun fuel s).pool.length = 1 := by
    intro fuel
    induction fuel with
    | zero => intro s _ h1 h2; simp only [upRun]; omega
    | succ k ih =>
      intro s h h1 h2
      simp only [upRun]
      split
      · have hl := step_len s h.nodup (by omega)
        exact ih _ (upgma_step_invariant _ s h) (by omega) (by omega)
      · omega
  have hlen := key n (upInit n M) (up_init_inv n M) (by simp [upInit]; exact hn) (by simp [upInit])
  obtain ⟨r, hr⟩ := List.length_eq_one_iff.mp hlen
  exact ⟨(upRun n (upInit n M)).sub r, by simp only [upgmaTree, hr]⟩
end uptermination

/-! ## audit follow-up: summaries at full strength, nearest-taxon mean, ultrametric UPGMA result, all `Tree.mrca` entry paths -/

section summaries2
variable [DecidableEq κ]

/-- a value read off the unique path between two leaf keys: `g (length, edges, turning node)`; 0 if there is no path -/
def pathVal [Add α] [Zero α] (g : α × Nat × Nat → α) (ℓ : T → α) (key : T → κ) (t : T) (p : κ × κ) : α :=
  match turn ℓ key t p.1 p.2 with
  | some r => g r
  | none => 0

/-- (b) `distances_spec`: `distances()` / the value list every pairwise summary averages — weighted (`g = length`), edge counts
(`g = edges` cast), under any taxon filter — is, up to order, the list of that path value over all unordered pairs of
retained leaf taxa, each pair once. -/
theorem distances_spec [AddCommMonoid α] (g : α × Nat × Nat → α) (ℓ : T → α) (key : T → κ) (t : T) (h : Good key t)
    (keep : κ → Bool) :
    (pairValues (fun e => g (e.d, e.steps, e.mrca)) keep (entries ℓ key t)).Perm
      (((pairsOf (t.leaves.map key)).filter fun p => keep p.1 && keep p.2).map (pathVal g ℓ key t)) := by
  have e1 : pairValues (fun e : Entry κ α => g (e.d, e.steps, e.mrca)) keep (entries ℓ key t) =
      ((((entries ℓ key t).map fun e => (e.a, e.b))).filter fun p => keep p.1 && keep p.2).map (pathVal g ℓ key t) := by
    simp only [pairValues, List.filter_map, List.map_map]
    apply List.map_congr_left
    intro e he
    have := pdm_spec ℓ key t h e (List.mem_of_mem_filter he)
    simp [pathVal, this]
  rw [e1]
  exact ((pdm_pairs_once ℓ key t).filter _).map _

/-- (b) `mean_pairwise_spec`: for either weighting (`g`), any normalisation factor and any taxon filter, the mean pairwise
summary is `(Σ path values / norm) / #pairs` over the unordered pairs of retained leaf taxa, and it is undefined
(`NullAssemblageException`) exactly when no pair is retained.  Stated explicitly, not through `meanOf`. -/
theorem mean_pairwise_spec [Field α] (g : α × Nat × Nat → α) (ℓ : T → α) (key : T → κ) (t : T) (h : Good key t)
    (norm : α) (keep : κ → Bool) :
    let L := ((pairsOf (t.leaves.map key)).filter fun p => keep p.1 && keep p.2).map (pathVal g ℓ key t)
    meanPairwise (fun e => g (e.d, e.steps, e.mrca)) norm keep (entries ℓ key t) =
      if L = [] then none else some ((L.sum / norm) / (L.length : α)) := by
  intro L
  have hperm := distances_spec g ℓ key t h keep
  have hemp : ∀ {l1 l2 : List α}, l1.Perm l2 → l1.isEmpty = l2.isEmpty := by
    intro l1 l2 hp
    have := hp.length_eq
    cases l1 <;> cases l2 <;> simp_all
  simp only [meanPairwise, meanOf]
  rw [hperm.sum_eq, hperm.length_eq, hemp hperm]
  have hgen : ∀ L : List α, (if L.isEmpty = true then none else some ((L.sum / norm) / (L.length : α))) =
      if L = [] then none else some ((L.sum / norm) / (L.length : α)) := by
    intro L; cases L <;> simp
  exact hgen _

namespace Aux
theorem meanNearest_congr [Field α] [LinearOrder α] (cell cell' : κ → κ → α) (norm : α) (keep : κ → Bool) (taxa : List κ)
    (hc : ∀ a ∈ taxa, ∀ b ∈ taxa, a ≠ b → cell a b = cell' a b) :
    meanNearest cell norm keep taxa = meanNearest cell' norm keep taxa := by
  simp only [meanNearest]
  congr 1
  apply List.filterMap_congr
  intro a ha
  have ha' : a ∈ taxa := List.mem_of_mem_filter ha
  cases hf : (taxa.filter keep).filter (fun b => b ≠ a) with
  | nil => rfl
  | cons b bs =>
    have hmem : ∀ c ∈ b :: bs, c ∈ taxa ∧ c ≠ a := by
      intro c hc'
      rw [← hf] at hc'
      have h1 := List.mem_filter.mp hc'
      exact ⟨List.mem_of_mem_filter h1.1, by simpa using h1.2⟩
    have hb := hmem b List.mem_cons_self
    simp only
    rw [hc a ha' b hb.1 (Ne.symm hb.2)]
    congr 2
    apply List.map_congr_left
    intro c hc'
    have := hmem c (List.mem_cons_of_mem _ hc')
    exact hc a ha' c this.1 (Ne.symm this.2)
end Aux

/-- (b) `mntd_spec`: the mean nearest-taxon summary as the driver computes it — cells read from the compiled, mirrored table
(`cellOf`, the `dmatrix[a][b]` of the library), either weighting, any filter and normalisation — equals the same mean with
every cell replaced by the unique-path value between the two taxa; a missing cell never occurs.  The statement is this
congruence, not an explicit formula: that `meanNearest` is "the mean over retained taxa of the minimum to the other retained taxa"
is read off its definition (`meanOf` of the per-taxon `minList`) together with `nearest_spec` (`minList` is a true minimum);
unlike `mean_pairwise_spec` no closed form is stated. -/
theorem mntd_spec [Field α] [LinearOrder α] (g : α × Nat × Nat → α) (ℓ : T → α) (key : T → κ) (t : T) (h : Good key t)
    (norm : α) (keep : κ → Bool) :
    meanNearest (cellOf (fun e => g (e.d, e.steps, e.mrca)) (table ℓ key t)) norm keep (mapped key t) =
      meanNearest (fun a b => pathVal g ℓ key t (a, b)) norm keep (mapped key t) := by
  apply meanNearest_congr
  intro a ha b hb hab
  have hm : ∀ c ∈ mapped key t, c ∈ t.leaves.map key := by
    intro c hc; unfold mapped at hc; split at hc
    · simp at hc
    · exact hc
  obtain ⟨e, h1, h2⟩ := pdm_lookup_spec ℓ key t h a b hab (hm a ha) (hm b hb)
  simp only [lookup] at h1
  simp only [cellOf, pathVal]
  rw [h1, h2]
end summaries2

section ultrametric
variable [Field α]

/-- depths (root-to-leaf sums of edge lengths) of the leaves of a result tree, left to right -/
def NT.depths : NT α → List α
  | .leaf _ => [0]
  | .node f lf g lg => (NT.depths f).map (fun x => x + lf) ++ (NT.depths g).map (fun x => x + lg)

/-- every leaf below a pool node is exactly `_upgma_distance_from_tip` below it -/
def UPHeights (s : UP α) : Prop := ∀ k ∈ s.pool, ∀ x ∈ NT.depths (s.sub k), x = s.h k

theorem upgma_join_heights (s : UP α) (f g : Nat) (hfr : ∀ k ∈ s.pool, k < s.next) (hf : f ∈ s.pool) (hg : g ∈ s.pool)
    (h : UPHeights s) : UPHeights (upJoin s f g) ∧ (upJoin s f g).h s.next = s.d f g / 2 := by
  refine ⟨?_, by simp [upJoin]⟩
  intro k hk x hx
  simp only [upJoin, List.mem_append, List.mem_singleton] at hk
  rcases hk with hk | rfl
  · have hk1 : k ∈ s.pool := List.mem_of_mem_erase (List.mem_of_mem_erase hk)
    have hne : k ≠ s.next := fun e => Nat.lt_irrefl _ (e ▸ hfr k hk1)
    simp only [upJoin, hne, if_false] at hx ⊢
    exact h k hk1 x hx
  · simp only [upJoin, if_true, NT.depths, List.mem_append, List.mem_map] at hx ⊢
    rcases hx with ⟨y, hy, rfl⟩ | ⟨y, hy, rfl⟩
    · rw [h f hf y hy]; ring
    · rw [h g hg y hy]; ring

variable [LinearOrder α] [CharZero α]

/-- (d) `upgma_ultrametric` (replaces the definitional `upgma_height_spec`): at every pass of the loop, and in the tree
returned, all leaves below a pool node lie at the same depth, namely that node's recorded height, and a node created by a
join has height half the joined distance.  In particular `upgma_tree` always returns an ultrametric tree.  This holds for every
input matrix (branch lengths may then be negative): it is the bookkeeping identity `lf = d/2 − h f`, `h new = lf + h f`, not
evidence that the tree is the right one — that is `upgma_realises` / `upgma_recovers_tree`. -/
theorem upgma_ultrametric (n : Nat) (M : Nat → Nat → α) (fuel : Nat) : UPHeights (upRun fuel (upInit n M)) := by
  have inv : ∀ fuel (s : UP α), UPInv (upInit n M).d s → UPHeights s → UPHeights (upRun fuel s) := by
    intro fuel
    induction fuel with
    | zero => intro s _ h; exact h
    | succ k ih =>
      intro s hi h
      simp only [upRun]
      split
      · refine ih _ (upgma_step_invariant _ s hi) ?_
        unfold upStep
        cases hp : upPick s with
        | none => exact h
        | some p =>
          obtain ⟨f, g⟩ := p
          obtain ⟨hf, hg, _⟩ := up_pick_mem s hi.nodup f g hp
          exact (upgma_join_heights s f g hi.fresh hf hg h).1
      · exact h
  exact inv fuel _ (up_init_inv n M) (fun k _ x hx => by simp [upInit, NT.depths] at hx ⊢; exact hx)

/-- the returned tree: one depth for all leaves -/
theorem upgma_tree_ultrametric (n : Nat) (M : Nat → Nat → α) (r : NT α) (hr : upgmaTree n M = some r) :
    ∃ H : α, ∀ x ∈ NT.depths r, x = H := by
  simp only [upgmaTree] at hr
  split at hr
  · rename_i k hk
    injection hr with hr; subst hr
    exact ⟨_, fun x hx => upgma_ultrametric n M n k (by rw [hk]; simp) x hx⟩
  · simp at hr
end ultrametric

section mrca2
/-- (c) every entry path that re-encodes: `is_bipartitions_updated=False` **or** a start node whose stored mask is 0 (tree never
encoded).  Supersedes the refresh-only statement. -/
theorem tree_mrca_reencode_spec (rooted refresh : Bool) (stored : Nat → Nat) (target startId : Nat) (t start : T)
    (ht : target ≠ 0) (hre : stored startId = 0 ∨ refresh = true) :
    let t' := if !rooted && t.cs.length = 2 then collapseBasal t else t
    (t'.nodes.map T.id).Nodup → GoodM t' → t'.find? startId = some start →
    (covers target start →
      ∃ r, treeMrca rooted refresh stored target startId t = .found t' (some r) ∧ r ∈ start.nodes ∧ covers target r ∧
        (∀ c ∈ r.cs, ¬ covers target c) ∧ ∀ u ∈ start.nodes, covers target u → r ∈ u.nodes) ∧
    (¬ covers target start → treeMrca rooted refresh stored target startId t = .found t' none) := by
  intro t' hid hgood hfind
  have hb : (decide (stored startId = 0) || refresh) = true := by
    rcases hre with h | h <;> simp [h]
  obtain ⟨hmem, hsid⟩ := find_mem t' startId start hfind
  have hcur : Current (freshMask t') start := fun u hu =>
    tree_mrca_refresh_current t' hid u (nodes_trans t' start hmem u hu)
  have hg : GoodM start := fun u hu => hgood u (nodes_trans t' start hmem u hu)
  have hm : freshMask t' startId = start.mask := by simp [freshMask, hfind]
  have unfold_eq : treeMrca rooted refresh stored target startId t =
      (if freshMask t' startId &&& target ≠ target then MrcaResult.found t' none
        else .found t' (some (scanL (freshMask t') target start [start]))) := by
    simp only [treeMrca, ht, if_false, hb, Bool.true_and, if_true]
    show (match t'.find? startId with
      | none => MrcaResult.startGone
      | some start => if freshMask t' startId &&& target ≠ target then .found t' none
          else .found t' (some (scanL (freshMask t') target start [start]))) = _
    rw [hfind]
  constructor
  · intro hcov
    refine ⟨scanL (freshMask t') target start [start], ?_, ?_⟩
    · have hc : ¬ (freshMask t' startId &&& target ≠ target) := by rw [hm]; exact not_not.mpr hcov
      rw [unfold_eq, if_neg hc]
    · obtain ⟨h1, h2, h3⟩ := tree_mrca_spec _ target start ht hcur hg hcov
      exact ⟨h1, h2, h3, tree_mrca_deepest _ target start ht hcur hg hcov⟩
  · intro hn
    have hc : freshMask t' startId &&& target ≠ target := by rw [hm]; exact hn
    rw [unfold_eq, if_pos hc]

/-- (c) without re-encoding and with a current encoding, `None` is returned exactly when the start node's leaves do not include
the requested taxa -/
theorem tree_mrca_none_current (rooted : Bool) (stored : Nat → Nat) (target startId : Nat) (t start : T) (ht : target ≠ 0)
    (h0 : stored startId ≠ 0) (hfind : t.find? startId = some start) (hcur : Current stored start)
    (hn : ¬ covers target start) :
    treeMrca rooted false stored target startId t = .found t none := by
  obtain ⟨hmem, hsid⟩ := find_mem t startId start hfind
  have hm : stored startId = start.mask := by rw [← hsid]; exact hcur start (nodes_self _)
  have hc : stored startId &&& target ≠ target := by rw [hm]; exact hn
  simp only [treeMrca, ht, if_false, h0, decide_false, Bool.or_false, Bool.false_and, Bool.false_eq_true]
  rw [hfind]; exact if_pos hc

/-- an empty taxon set is refused (`ValueError("Null leafset bitmask (0)")`), whatever else is passed -/
theorem tree_mrca_value_error (rooted refresh : Bool) (stored : Nat → Nat) (startId : Nat) (t : T) :
    treeMrca rooted refresh stored 0 startId t = .valueError := by simp [treeMrca]
end mrca2

/-! ## the bridge to the number type the driver runs: `Frac` computes in ℚ

`Frac.toRat` reads a `Frac` as the rational it denotes. On fractions with a non-zero denominator (everything the protocol
parser produces, and everything the operations return) every operation the models use commutes with `toRat`, and `Frac.lt`
is `<` on ℚ.  Together with the naturality lemmas below this transports the theorems above (proved for every commutative
monoid / field) to the exact definitions `drv_c14` executes at `α := Frac`. -/

/-- the rational a `Frac` denotes -/
def toRat (a : Frac) : ℚ := (a.num : ℚ) / (a.den : ℚ)

namespace Aux
theorem mk'_spec (n : Int) (d : Nat) (hd : d ≠ 0) : (Frac.mk' n d).den ≠ 0 ∧ toRat (Frac.mk' n d) = (n : ℚ) / (d : ℚ) := by
  have hg : Nat.gcd n.natAbs d ≠ 0 := fun h => hd (Nat.eq_zero_of_gcd_eq_zero_right h)
  have hgd : Nat.gcd n.natAbs d ∣ d := Nat.gcd_dvd_right _ _
  have hgn : ((Nat.gcd n.natAbs d : Nat) : Int) ∣ n := by
    rw [Int.natCast_dvd]; exact Nat.gcd_dvd_left _ _
  have hd' : (d == 0) = false := by simpa using hd
  have hg' : (Nat.gcd n.natAbs d == 0) = false := by simpa using hg
  simp only [Frac.mk', hd', hg', Bool.false_eq_true, if_false]
  constructor
  · exact Nat.ne_of_gt (Nat.div_pos (Nat.le_of_dvd (Nat.pos_of_ne_zero hd) hgd) (Nat.pos_of_ne_zero hg))
  · have hgq : ((Nat.gcd n.natAbs d : Nat) : ℚ) ≠ 0 := by exact_mod_cast hg
    simp only [toRat]
    rw [Int.cast_div hgn (by exact_mod_cast hg), Nat.cast_div hgd hgq]
    simp only [Int.cast_natCast]
    rw [div_div_div_cancel_right₀ hgq]

theorem toRat_zero : toRat (0 : Frac) = 0 := by simp [toRat, show (0 : Frac) = Frac.zero from rfl, Frac.zero]
theorem ok_zero : (0 : Frac).den ≠ 0 := by simp [show (0 : Frac) = Frac.zero from rfl, Frac.zero]

theorem toRat_add (a b : Frac) (ha : a.den ≠ 0) (hb : b.den ≠ 0) : (a + b).den ≠ 0 ∧ toRat (a + b) = toRat a + toRat b := by
  have h := mk'_spec (a.num * b.den + b.num * a.den) (a.den * b.den) (Nat.mul_ne_zero ha hb)
  refine ⟨h.1, ?_⟩
  show toRat (Frac.add a b) = _
  simp only [Frac.add]; rw [h.2]
  have ha' : (a.den : ℚ) ≠ 0 := by exact_mod_cast ha
  have hb' : (b.den : ℚ) ≠ 0 := by exact_mod_cast hb
  simp only [toRat]; push_cast; field_simp

theorem toRat_neg (a : Frac) : (Frac.neg a).den = a.den ∧ toRat (Frac.neg a) = - toRat a := by
  simp [Frac.neg, toRat, neg_div]

theorem toRat_sub (a b : Frac) (ha : a.den ≠ 0) (hb : b.den ≠ 0) : (a - b).den ≠ 0 ∧ toRat (a - b) = toRat a - toRat b := by
  have hn := toRat_neg b
  have h := toRat_add a (Frac.neg b) ha (by rw [hn.1]; exact hb)
  refine ⟨h.1, ?_⟩
  show toRat (Frac.add a (Frac.neg b)) = _
  have := h.2
  rw [show a + Frac.neg b = Frac.add a (Frac.neg b) from rfl] at this
  rw [this, hn.2]; ring

theorem toRat_mul (a b : Frac) (ha : a.den ≠ 0) (hb : b.den ≠ 0) : (a * b).den ≠ 0 ∧ toRat (a * b) = toRat a * toRat b := by
  have h := mk'_spec (a.num * b.num) (a.den * b.den) (Nat.mul_ne_zero ha hb)
  refine ⟨h.1, ?_⟩
  show toRat (Frac.mul a b) = _
  simp only [Frac.mul]; rw [h.2]
  simp only [toRat]; push_cast; rw [mul_div_mul_comm]

theorem toRat_div (a b : Frac) (ha : a.den ≠ 0) (hb : b.den ≠ 0) : (a / b).den ≠ 0 ∧ toRat (a / b) = toRat a / toRat b := by
  show (Frac.div a b).den ≠ 0 ∧ toRat (Frac.div a b) = _
  have ha' : (a.den : ℚ) ≠ 0 := by exact_mod_cast ha
  have hb' : (b.den : ℚ) ≠ 0 := by exact_mod_cast hb
  by_cases h0 : b.num = 0
  · simp [Frac.div, h0, Frac.zero, toRat]
  · have h0' : (b.num == 0) = false := by simpa using h0
    have hnb : (b.num : ℚ) ≠ 0 := by exact_mod_cast h0
    have habs : b.num.natAbs ≠ 0 := by simpa using h0
    by_cases hp : b.num > 0
    · have h := mk'_spec (a.num * b.den) (a.den * b.num.natAbs) (Nat.mul_ne_zero ha habs)
      simp only [Frac.div, h0', Bool.false_eq_true, if_false, hp, if_true]
      refine ⟨h.1, ?_⟩
      rw [h.2]
      have : ((b.num.natAbs : Nat) : ℚ) = (b.num : ℚ) := by
        rw [← Int.cast_natCast, Int.natAbs_of_nonneg (le_of_lt hp)]
      simp only [toRat]; push_cast; rw [this]; field_simp
    · have h := mk'_spec (-(a.num * b.den)) (a.den * b.num.natAbs) (Nat.mul_ne_zero ha habs)
      simp only [Frac.div, h0', Bool.false_eq_true, if_false, hp]
      refine ⟨h.1, ?_⟩
      rw [h.2]
      have hneg : b.num < 0 := lt_of_le_of_ne (not_lt.mp hp) h0
      have : ((b.num.natAbs : Nat) : ℚ) = -(b.num : ℚ) := by
        rw [← Int.cast_natCast, Int.ofNat_natAbs_of_nonpos (le_of_lt hneg)]; push_cast; ring
      simp only [toRat]; push_cast; rw [this]; field_simp

theorem toRat_natCast (n : Nat) : ((n : Nat) : Frac).den ≠ 0 ∧ toRat ((n : Nat) : Frac) = (n : ℚ) := by
  show (Frac.ofNat n).den ≠ 0 ∧ toRat (Frac.ofNat n) = _
  simp [Frac.ofNat, toRat]

theorem toRat_lt (a b : Frac) (ha : a.den ≠ 0) (hb : b.den ≠ 0) : a < b ↔ toRat a < toRat b := by
  show Frac.lt a b = true ↔ _
  have ha' : (0 : ℚ) < (a.den : ℚ) := by exact_mod_cast Nat.pos_of_ne_zero ha
  have hb' : (0 : ℚ) < (b.den : ℚ) := by exact_mod_cast Nat.pos_of_ne_zero hb
  simp only [Frac.lt, decide_eq_true_eq, toRat]
  rw [div_lt_div_iff₀ ha' hb']
  constructor
  · intro h; exact_mod_cast h
  · intro h; exact_mod_cast h
end Aux

section bridge2
variable {β : Type}
/-! ### naturality of the distance-matrix model in the number type -/
/-- relabel the number carried by a cell / a table row -/
def mapE (φ : α → β) (e : Entry κ α) : Entry κ β := ⟨e.a, e.b, φ e.d, e.steps, e.mrca⟩
def mapRow (φ : α → β) (r : κ × α × Nat) : κ × β × Nat := (r.1, φ r.2.1, r.2.2)

/-- `φ` preserves 0 and + -/
structure IsAddHom [Zero α] [Add α] [Zero β] [Add β] (φ : α → β) : Prop where
  zero : φ 0 = 0
  add : ∀ x y, φ (x + y) = φ x + φ y

namespace Aux
section natural
variable [Zero α] [Add α] [Zero β] [Add β]

theorem lift_nat (φ : α → β) (hφ : IsAddHom φ) (ℓ : T → α) (c : T) (tab : Tab κ α) :
    lift (fun u => φ (ℓ u)) c (tab.map (mapRow φ)) = (lift ℓ c tab).map (mapRow φ) := by
  simp [lift, mapRow, hφ.add, List.map_map, Function.comp_def]

theorem pairNode_nat (φ : α → β) (hφ : IsAddHom φ) (ℓ : T → α) (m : Nat) : ∀ tabs : List (T × Tab κ α),
    pairNode (fun u => φ (ℓ u)) m (tabs.map fun ct => (ct.1, ct.2.map (mapRow φ))) = (pairNode ℓ m tabs).map (mapE φ)
  | [] => by simp [pairNode]
  | (c1, tab1) :: rest => by
    simp only [List.map_cons, pairNode, List.map_append, pairNode_nat φ hφ ℓ m rest]
    congr 1
    simp [List.map_flatMap, List.flatMap_map, List.map_map, mapE, mapRow, hφ.add, Function.comp_def]

mutual
theorem walk_nat (φ : α → β) (hφ : IsAddHom φ) (ℓ : T → α) (key : T → κ) : ∀ t : T, walk (fun u => φ (ℓ u)) key t =
    ((walk ℓ key t).1.map (mapRow φ), (walk ℓ key t).2.map (mapE φ))
  | .node i x l s [] => by simp [walk, mapRow, hφ.zero]
  | .node i x l s (c :: cs) => by
    have ih := walkL_nat φ hφ ℓ key (c :: cs)
    rw [walk, walk, ih]
    refine Prod.ext ?_ ?_
    · simp only [List.flatMap_map, List.map_flatMap]
      congr 1; funext ct; exact lift_nat φ hφ ℓ ct.1 ct.2
    · simp only [List.map_append, pairNode_nat φ hφ ℓ]
theorem walkL_nat (φ : α → β) (hφ : IsAddHom φ) (ℓ : T → α) (key : T → κ) : ∀ cs : List T, walkL (fun u => φ (ℓ u)) key cs =
    ((walkL ℓ key cs).1.map (fun ct => (ct.1, ct.2.map (mapRow φ))), (walkL ℓ key cs).2.map (mapE φ))
  | [] => by simp [walkL]
  | c :: cs => by
    rw [walkL, walkL, walk_nat φ hφ ℓ key c, walkL_nat φ hφ ℓ key cs]; simp
end

theorem entries_nat (φ : α → β) (hφ : IsAddHom φ) (ℓ : T → α) (key : T → κ) (t : T) :
    entries (fun u => φ (ℓ u)) key t = (entries ℓ key t).map (mapE φ) := by
  simp [entries, walk_nat φ hφ ℓ key t]

theorem table_nat (φ : α → β) (hφ : IsAddHom φ) (ℓ : T → α) (key : T → κ) (t : T) :
    table (fun u => φ (ℓ u)) key t = (table ℓ key t).map (mapE φ) := by
  simp only [table, entries_nat φ hφ ℓ key t, mirror, diag, List.map_append, List.map_map]
  congr 1
  · split <;> simp [mapE, hφ.zero, Function.comp_def]

theorem lookup_nat [DecidableEq κ] (φ : α → β) (tbl : List (Entry κ α)) (a b : κ) :
    lookup (tbl.map (mapE φ)) a b = (lookup tbl a b).map (mapE φ) := by
  simp only [lookup, List.find?_map]
  congr 1
end natural
end Aux
end bridge2

/-! ## non-vacuity: the hypotheses used above are satisfiable (and the stale case really differs) -/
section examples
/-- a polytomy with a unary node and a `None` length: ((t0:1, t1:None, (t2:1/2)):2, t3) -/
def exTree : T :=
  .node 0 none none none
    [.node 1 none (some ⟨2, 1⟩) none
      [.node 2 (some 0) (some ⟨1, 1⟩) none [], .node 3 (some 1) none none [],
       .node 4 none none none [.node 5 (some 2) (some ⟨1, 2⟩) none []]],
     .node 6 (some 3) none none []]

example : Good taxonKey exTree := by unfold Good; decide
example : GoodM exTree := by
  intro u hu
  simp only [exTree, T.nodes, T.nodesL, List.mem_cons, List.mem_append, List.not_mem_nil, or_false, List.append_nil] at hu
  rcases hu with rfl | (rfl | rfl | rfl | rfl | rfl) | rfl <;> simp [T.cs, Disj, T.mask, T.maskL]
example : Current (freshMask exTree) exTree := by
  intro u hu
  simp only [exTree, T.nodes, T.nodesL, List.mem_cons, List.mem_append, List.not_mem_nil, or_false, List.append_nil] at hu
  rcases hu with rfl | (rfl | rfl | rfl | rfl | rfl) | rfl <;> decide
example : covers 5 exTree := by unfold covers; decide
/-- the descent goes past the seed to node 1 for taxa {0, 2}; for taxon {2} alone it runs down the unary node 4 to leaf 5 -/
example : (scanL (freshMask exTree) 5 exTree [exTree]).id = 1 := by decide
example : (scanL (freshMask exTree) 4 exTree [exTree]).id = 5 := by decide
/-- six cells for four leaves, all key pairs distinct -/
example : ((entries (α := Int) (fun _ => 1) taxonKey exTree).map fun e => (e.a, e.b)) =
    [(0, 1), (0, 2), (1, 2), (0, 3), (1, 3), (2, 3)] := by decide
/-- a symmetric matrix exists, so `NJInv`/`UPInv` are inhabited by the initial states -/
example : NJInv (njInit (α := ℚ) 4 fun a b => if a = b then 0 else 1) :=
  nj_init_inv 4 _ (fun a _ b _ => by by_cases h : a = b <;> simp [h, eq_comm])
example : UPInv (upInit (α := ℚ) 4 fun _ _ => 1).d (upInit 4 fun _ _ => 1) := up_init_inv 4 _
end examples


/-! ### the fractions that denote numbers, as a carrier in its own right (proof device only) -/
/-- fractions with a non-zero denominator, with the operations of `Frac` (closed: `toRat_add` …) -/
def VFrac : Type := {a : Frac // a.den ≠ 0}
namespace VFrac
instance : Zero VFrac := ⟨⟨0, ok_zero⟩⟩
instance : Add VFrac := ⟨fun a b => ⟨a.1 + b.1, (toRat_add a.1 b.1 a.2 b.2).1⟩⟩
instance : Sub VFrac := ⟨fun a b => ⟨a.1 - b.1, (toRat_sub a.1 b.1 a.2 b.2).1⟩⟩
instance : Mul VFrac := ⟨fun a b => ⟨a.1 * b.1, (toRat_mul a.1 b.1 a.2 b.2).1⟩⟩
instance : Div VFrac := ⟨fun a b => ⟨a.1 / b.1, (toRat_div a.1 b.1 a.2 b.2).1⟩⟩
instance : NatCast VFrac := ⟨fun n => ⟨(n : Frac), (toRat_natCast n).1⟩⟩
instance : LT VFrac := ⟨fun a b => a.1 < b.1⟩
instance : DecidableRel (α := VFrac) (· < ·) := fun a b => inferInstanceAs (Decidable (a.1 < b.1))
/-- forget the proof: back to the driver's type -/
def val (a : VFrac) : Frac := a.1
/-- the rational denoted -/
def rat (a : VFrac) : ℚ := toRat a.1
theorem val_hom : IsAddHom val := ⟨rfl, fun _ _ => rfl⟩
theorem rat_hom : IsAddHom rat := ⟨toRat_zero, fun a b => (toRat_add a.1 b.1 a.2 b.2).2⟩
end VFrac

/-- every length the driver hands to the model denotes a rational -/
theorem fracLen_ok (u : T) : (fracLen u).den ≠ 0 := by
  unfold fracLen
  split
  · split
    · exact ok_zero
    · assumption
  · exact ok_zero

/-- the driver's length function, with the proofs attached -/
def fracLenV (u : T) : VFrac := ⟨fracLen u, fracLen_ok u⟩
/-- edge lengths as true rationals (`None` = 0) -/
def ratLen (u : T) : ℚ := toRat (fracLen u)

/-- (a, at the driver's own type) `frac_pdm_spec`: the cells `drv_c14` computes — `entries fracLen taxonKey t`, exact `Frac`
arithmetic with gcd normalisation — denote, for every tree whose leaves carry distinct taxa, the length of the unique path
computed in ℚ from the rational edge lengths, together with its edge count and turning node; and every cell value has a
non-zero denominator. -/
theorem frac_pdm_spec (t : T) (h : Good taxonKey t) :
    ∀ e ∈ entries fracLen taxonKey t, e.d.den ≠ 0 ∧
      turn ratLen taxonKey t e.a e.b = some (toRat e.d, e.steps, e.mrca) := by
  intro e he
  have e1 : entries fracLen taxonKey t = (entries fracLenV taxonKey t).map (mapE VFrac.val) :=
    entries_nat VFrac.val VFrac.val_hom fracLenV taxonKey t
  have e2 : entries ratLen taxonKey t = (entries fracLenV taxonKey t).map (mapE VFrac.rat) :=
    entries_nat VFrac.rat VFrac.rat_hom fracLenV taxonKey t
  rw [e1] at he
  obtain ⟨e', he', rfl⟩ := List.mem_map.mp he
  have hq := pdm_spec ratLen taxonKey t h (mapE VFrac.rat e') (by rw [e2]; exact List.mem_map_of_mem he')
  exact ⟨e'.d.2, hq⟩

/-- (a, at the driver's own type) the same through the mirrored lookup the accessors use -/
theorem frac_pdm_lookup_spec (t : T) (h : Good taxonKey t) (a b : Nat) (hab : a ≠ b)
    (ha : a ∈ t.leaves.map taxonKey) (hb : b ∈ t.leaves.map taxonKey) :
    ∃ e, lookup (table fracLen taxonKey t) a b = some e ∧ e.d.den ≠ 0 ∧
      turn ratLen taxonKey t a b = some (toRat e.d, e.steps, e.mrca) := by
  have e1 : table fracLen taxonKey t = (table fracLenV taxonKey t).map (mapE VFrac.val) :=
    table_nat VFrac.val VFrac.val_hom fracLenV taxonKey t
  have e2 : table ratLen taxonKey t = (table fracLenV taxonKey t).map (mapE VFrac.rat) :=
    table_nat VFrac.rat VFrac.rat_hom fracLenV taxonKey t
  obtain ⟨eq, h1, h2⟩ := pdm_lookup_spec ratLen taxonKey t h a b hab ha hb
  rw [e2, lookup_nat] at h1
  cases hl : lookup (table fracLenV taxonKey t) a b with
  | none => simp [hl] at h1
  | some e' =>
    simp only [hl, Option.map_some, Option.some.injEq] at h1
    subst h1
    refine ⟨mapE VFrac.val e', by rw [e1, lookup_nat, hl]; rfl, e'.d.2, h2⟩

/-- non-vacuity at `Frac`: the hypotheses are met by the example tree, so the theorem speaks about cells the driver prints -/
example : ∀ e ∈ entries fracLen taxonKey exTree, e.d.den ≠ 0 ∧
    turn ratLen taxonKey exTree e.a e.b = some (toRat e.d, e.steps, e.mrca) :=
  frac_pdm_spec exTree (by unfold Good; decide)
example : (entries fracLen taxonKey exTree).length = 6 := by decide


/-! ### naturality of `nj_tree` / `upgma_tree` in the number type -/
section njnat
variable {α β : Type}
variable [Zero α] [Add α] [Sub α] [Mul α] [Div α] [NatCast α] [LT α] [DecidableRel (α := α) (· < ·)]
variable [Zero β] [Add β] [Sub β] [Mul β] [Div β] [NatCast β] [LT β] [DecidableRel (α := β) (· < ·)]

/-- `φ` commutes with every operation the NJ / UPGMA models use and preserves and reflects `<` -/
structure IsNumHom (φ : α → β) : Prop where
  zero : φ 0 = 0
  add : ∀ x y, φ (x + y) = φ x + φ y
  sub : ∀ x y, φ (x - y) = φ x - φ y
  mul : ∀ x y, φ (x * y) = φ x * φ y
  div : ∀ x y, φ (x / y) = φ x / φ y
  natCast : ∀ n : Nat, φ (n : α) = (n : β)
  lt : ∀ x y, x < y ↔ φ x < φ y

def mapNT (φ : α → β) : NT α → NT β
  | .leaf i => .leaf i
  | .node f lf g lg => .node (mapNT φ f) (φ lf) (mapNT φ g) (φ lg)

/-- two NJ states that are the same up to relabelling the numbers -/
def NJRel (φ : α → β) (s : NJ α) (s' : NJ β) : Prop :=
  s'.pool = s.pool ∧ s'.next = s.next ∧ (∀ a b, s'.d a b = φ (s.d a b)) ∧ (∀ k, s'.x k = φ (s.x k)) ∧
    (∀ k, s'.sub k = mapNT φ (s.sub k))

namespace Aux
theorem foldl_hom (φ : α → β) (hφ : IsNumHom φ) (f : Nat → α) : ∀ (l : List Nat) (a : α),
    φ (l.foldl (fun acc m => acc + f m) a) = l.foldl (fun acc m => acc + φ (f m)) (φ a)
  | [], a => rfl
  | x :: l, a => by simp only [List.foldl_cons]; rw [foldl_hom φ hφ f l, hφ.add]

theorem argmin_hom {γ : Type} (φ : α → β) (hφ : IsNumHom φ) (val : γ → α) (val' : γ → β) (hv : ∀ p, val' p = φ (val p)) :
    ∀ (l : List γ) (acc : Option (γ × α)),
      argmin val' l (acc.map fun r => (r.1, φ r.2)) = (argmin val l acc).map fun r => (r.1, φ r.2)
  | [], acc => by simp [argmin]
  | p :: ps, none => by
    simp only [argmin, Option.map_none]
    have := argmin_hom φ hφ val val' hv ps (some (p, val p))
    simp only [Option.map_some] at this
    rw [← this, hv]
  | p :: ps, some (q, m) => by
    simp only [argmin, Option.map_some]
    by_cases h : val p < m
    · have h' : val' p < φ m := by rw [hv]; exact (hφ.lt _ _).mp h
      simp only [h, h', if_true]
      have := argmin_hom φ hφ val val' hv ps (some (p, val p))
      simp only [Option.map_some] at this
      rw [← this, hv]
    · have h' : ¬ val' p < φ m := by rw [hv]; exact fun c => h ((hφ.lt _ _).mpr c)
      simp only [h, h', if_false]
      have := argmin_hom φ hφ val val' hv ps (some (q, m))
      simp only [Option.map_some] at this
      exact this

theorem nj_init_rel (φ : α → β) (hφ : IsNumHom φ) (n : Nat) (d : Nat → Nat → α) :
    NJRel φ (njInit n d) (njInit n fun a b => φ (d a b)) := by
  refine ⟨rfl, rfl, fun _ _ => rfl, fun k => ?_, fun _ => rfl⟩
  simp only [njInit, rowSum]
  rw [foldl_hom φ hφ, hφ.zero]

theorem nj_pick_rel (φ : α → β) (hφ : IsNumHom φ) (s : NJ α) (s' : NJ β) (h : NJRel φ s s') : njPick s' = njPick s := by
  obtain ⟨hp, hn, hd, hx, hs⟩ := h
  have hq : ∀ p, qval s' p = φ (qval s p) := by
    intro p
    simp only [qval, hp, hd, hx, hφ.sub, hφ.mul, hφ.natCast]
  have := argmin_hom φ hφ (qval s) (qval s') hq (pairsOf s.pool) none
  simp only [Option.map_none] at this
  simp only [njPick, hp, this, Option.map_map]
  cases argmin (qval s) (pairsOf s.pool) none <;> rfl

theorem nj_join_rel (φ : α → β) (hφ : IsNumHom φ) (s : NJ α) (s' : NJ β) (h : NJRel φ s s') (f g : Nat) :
    NJRel φ (njJoin s f g) (njJoin s' f g) := by
  obtain ⟨hp, hn, hd, hx, hs⟩ := h
  have hnd : ∀ k, njNewDist s' f g k = φ (njNewDist s f g k) := by
    intro k; simp only [njNewDist, hd, hφ.div, hφ.sub, hφ.add, hφ.zero, hφ.natCast]
  have hl : njLengths s' f g = ((φ (njLengths s f g).1), φ (njLengths s f g).2) := by
    simp only [njLengths, hp, hd, hx]
    split
    · simp only [hφ.add, hφ.div, hφ.sub, hφ.natCast]
    · simp only [hφ.div, hφ.natCast]
  refine ⟨by simp [njJoin, hp, hn], by simp [njJoin, hn], ?_, ?_, ?_⟩
  · intro a b
    simp only [njJoin, hn, hnd, hd]
    split
    · rfl
    · split <;> rfl
  · intro k
    simp only [njJoin, hn, hp, hnd, hd, hx]
    split
    · rw [foldl_hom φ hφ, hφ.zero]
    · simp only [hφ.sub, hφ.add]
  · intro k
    simp only [njJoin, hn, hl, hs]
    split <;> simp [mapNT]

theorem nj_run_rel (φ : α → β) (hφ : IsNumHom φ) : ∀ (fuel : Nat) (s : NJ α) (s' : NJ β), NJRel φ s s' →
    NJRel φ (njRun fuel s) (njRun fuel s')
  | 0, s, s', h => h
  | fuel + 1, s, s', h => by
    simp only [njRun, h.1]
    split
    · apply nj_run_rel φ hφ fuel
      simp only [njStep, nj_pick_rel φ hφ s s' h]
      cases njPick s with
      | none => exact h
      | some p => exact nj_join_rel φ hφ s s' h p.1 p.2
    · exact h
end Aux
end njnat

namespace VFrac
theorem val_num : IsNumHom val :=
  ⟨rfl, fun _ _ => rfl, fun _ _ => rfl, fun _ _ => rfl, fun _ _ => rfl, fun _ => rfl, fun _ _ => Iff.rfl⟩
theorem rat_num : IsNumHom rat :=
  ⟨toRat_zero, fun a b => (toRat_add a.1 b.1 a.2 b.2).2, fun a b => (toRat_sub a.1 b.1 a.2 b.2).2,
   fun a b => (toRat_mul a.1 b.1 a.2 b.2).2, fun a b => (toRat_div a.1 b.1 a.2 b.2).2,
   fun n => (toRat_natCast n).2, fun a b => toRat_lt a.1 b.1 a.2 b.2⟩
end VFrac

/-- (d, at the driver's own type) `frac_nj_rowsum_invariant`: run on `Frac` — what `drv_c14` executes — from any matrix whose
cells denote numbers and which is symmetric on the `n` taxa, after any number of passes the pool, the join choices and the
tree built are those of the run on the denoted rationals, and every `_nj_xsub` denotes the sum of the denoted current
distances to the other pool members. -/
theorem frac_nj_rowsum_invariant (n : Nat) (d : Nat → Nat → Frac) (hv : ∀ a b, (d a b).den ≠ 0)
    (hd : ∀ a < n, ∀ b < n, toRat (d a b) = toRat (d b a)) (fuel : Nat) :
    NJRel toRat (njRun fuel (njInit n d)) (njRun fuel (njInit n fun a b => toRat (d a b))) ∧
    ∀ k ∈ (njRun fuel (njInit n d)).pool,
      toRat ((njRun fuel (njInit n d)).x k) =
        (((njRun fuel (njInit n d)).pool.filter (fun m => m ≠ k)).map
          (fun m => toRat ((njRun fuel (njInit n d)).d k m))).sum := by
  let dV : Nat → Nat → VFrac := fun a b => ⟨d a b, hv a b⟩
  have r1 := nj_run_rel VFrac.val VFrac.val_num fuel _ _ (nj_init_rel VFrac.val VFrac.val_num n dV)
  have r2 := nj_run_rel VFrac.rat VFrac.rat_num fuel _ _ (nj_init_rel VFrac.rat VFrac.rat_num n dV)
  have inv := nj_rowsum_invariant n (fun a b => toRat (d a b)) hd fuel
  change NJRel VFrac.val (njRun fuel (njInit n dV)) (njRun fuel (njInit n d)) at r1
  change NJRel VFrac.rat (njRun fuel (njInit n dV)) (njRun fuel (njInit n fun a b => toRat (d a b))) at r2
  obtain ⟨p1, n1, d1, x1, s1⟩ := r1
  obtain ⟨p2, n2, d2, x2, s2⟩ := r2
  have hsub : ∀ (u : NT VFrac), mapNT VFrac.rat u = mapNT toRat (mapNT VFrac.val u) := by
    intro u; induction u with
    | leaf i => rfl
    | node f lf g lg ihf ihg => simp only [mapNT, ihf, ihg]; rfl
  refine ⟨⟨by rw [p2, p1], by rw [n2, n1], fun a b => by rw [d2, d1]; rfl, fun k => by rw [x2, x1]; rfl,
    fun k => by rw [s2, s1, hsub]⟩, ?_⟩
  intro k hk
  have hk' : k ∈ (njRun fuel (njInit n fun a b => toRat (d a b))).pool := by rw [p2, ← p1]; exact hk
  have := inv.rows k hk'
  rw [x2, p2, ← p1] at this
  rw [x1]
  refine this.trans ?_
  congr 1
  apply List.map_congr_left
  intro m _
  rw [d2, d1]; rfl


/-- (d, at the driver's own type) `frac_nj_tree`: for `n ≥ 1` taxa the driver's `nj_tree` run terminates with a tree, and that
tree denotes (same shape, same joins, lengths read through `toRat`) the tree neighbour joining computes over ℚ. -/
theorem frac_nj_tree (n : Nat) (d : Nat → Nat → Frac) (hv : ∀ a b, (d a b).den ≠ 0)
    (hd : ∀ a < n, ∀ b < n, toRat (d a b) = toRat (d b a)) (hn : 1 ≤ n) :
    ∃ r, njTree n d = some r ∧ njTree n (fun a b => toRat (d a b)) = some (mapNT toRat r) := by
  obtain ⟨rq, hq⟩ := nj_terminates n (fun a b => toRat (d a b)) hd hn
  obtain ⟨⟨hp, _, _, _, hs⟩, _⟩ := frac_nj_rowsum_invariant n d hv hd n
  simp only [njTree] at hq ⊢
  rw [hp] at hq ⊢
  cases hpool : (njRun n (njInit n d)).pool with
  | nil => simp [hpool] at hq
  | cons k rest =>
    cases rest with
    | nil => exact ⟨_, rfl, by simp only [hs]⟩
    | cons k2 rest2 => simp [hpool] at hq

section upnat
variable {α β : Type}
variable [Zero α] [Add α] [Sub α] [Mul α] [Div α] [NatCast α] [LT α] [DecidableRel (α := α) (· < ·)]
variable [Zero β] [Add β] [Sub β] [Mul β] [Div β] [NatCast β] [LT β] [DecidableRel (α := β) (· < ·)]

def UPRel (φ : α → β) (s : UP α) (s' : UP β) : Prop :=
  s'.pool = s.pool ∧ s'.next = s.next ∧ (∀ a b, s'.d a b = φ (s.d a b)) ∧ (∀ k, s'.cl k = s.cl k) ∧
    (∀ k, s'.h k = φ (s.h k)) ∧ (∀ k, s'.sub k = mapNT φ (s.sub k))

namespace Aux
theorem up_init_rel (φ : α → β) (hφ : IsNumHom φ) (n : Nat) (M : Nat → Nat → α) :
    UPRel φ (upInit n M) (upInit n fun a b => φ (M a b)) := by
  refine ⟨rfl, rfl, fun a b => ?_, fun _ => rfl, fun _ => hφ.zero.symm, fun _ => rfl⟩
  simp only [upInit]; split <;> rfl

theorem up_pick_rel (φ : α → β) (hφ : IsNumHom φ) (s : UP α) (s' : UP β) (h : UPRel φ s s') : upPick s' = upPick s := by
  obtain ⟨hp, hn, hd, hc, hh, hs⟩ := h
  have := argmin_hom φ hφ (fun p : Nat × Nat => s.d p.1 p.2) (fun p : Nat × Nat => s'.d p.1 p.2) (fun p => hd p.1 p.2)
    (pairsOf s.pool) none
  simp only [Option.map_none] at this
  simp only [upPick, hp, this, Option.map_map]
  cases argmin (fun p : Nat × Nat => s.d p.1 p.2) (pairsOf s.pool) none <;> rfl

theorem up_join_rel (φ : α → β) (hφ : IsNumHom φ) (s : UP α) (s' : UP β) (h : UPRel φ s s') (f g : Nat) :
    UPRel φ (upJoin s f g) (upJoin s' f g) := by
  obtain ⟨hp, hn, hd, hc, hh, hs⟩ := h
  have hnd : ∀ k, upNewDist s' f g k = φ (upNewDist s f g k) := by
    intro k; simp only [upNewDist, hd, hc, hφ.div, hφ.add, hφ.mul, hφ.zero, hφ.natCast]
  refine ⟨by simp [upJoin, hp, hn], by simp [upJoin, hn], ?_, ?_, ?_, ?_⟩
  · intro a b
    simp only [upJoin, hn, hnd, hd]
    split
    · rfl
    · split <;> rfl
  · intro k; simp only [upJoin, hn, hc]
  · intro k
    simp only [upJoin, hn, hd, hh]
    split
    · simp only [hφ.add, hφ.sub, hφ.div, hφ.natCast]
    · rfl
  · intro k
    simp only [upJoin, hn, hd, hh, hs]
    split
    · simp only [mapNT, hφ.sub, hφ.div, hφ.natCast]
    · rfl

theorem up_run_rel (φ : α → β) (hφ : IsNumHom φ) : ∀ (fuel : Nat) (s : UP α) (s' : UP β), UPRel φ s s' →
    UPRel φ (upRun fuel s) (upRun fuel s')
  | 0, s, s', h => h
  | fuel + 1, s, s', h => by
    simp only [upRun, h.1]
    split
    · apply up_run_rel φ hφ fuel
      simp only [upStep, up_pick_rel φ hφ s s' h]
      cases upPick s with
      | none => exact h
      | some p => exact up_join_rel φ hφ s s' h p.1 p.2
    · exact h
end Aux
end upnat

/-- (d, at the driver's own type) `frac_upgma_tree`: for `n ≥ 1` taxa and cells that denote numbers, the driver's `upgma_tree` run
terminates with a tree that denotes the tree UPGMA computes over ℚ (same joins); hence (`upgma_tree_ultrametric`) all its
leaves denote the same depth. -/
theorem frac_upgma_tree (n : Nat) (M : Nat → Nat → Frac) (hv : ∀ a b, (M a b).den ≠ 0) (hn : 1 ≤ n) :
    ∃ r, upgmaTree n M = some r ∧ upgmaTree n (fun a b => toRat (M a b)) = some (mapNT toRat r) ∧
      ∃ H : ℚ, ∀ x ∈ NT.depths (mapNT toRat r), x = H := by
  let MV : Nat → Nat → VFrac := fun a b => ⟨M a b, hv a b⟩
  have r1 := up_run_rel VFrac.val VFrac.val_num n _ _ (up_init_rel VFrac.val VFrac.val_num n MV)
  have r2 := up_run_rel VFrac.rat VFrac.rat_num n _ _ (up_init_rel VFrac.rat VFrac.rat_num n MV)
  change UPRel VFrac.val (upRun n (upInit n MV)) (upRun n (upInit n M)) at r1
  change UPRel VFrac.rat (upRun n (upInit n MV)) (upRun n (upInit n fun a b => toRat (M a b))) at r2
  obtain ⟨rq, hq⟩ := upgma_terminates n (fun a b => toRat (M a b)) hn
  have hsub : ∀ (u : NT VFrac), mapNT VFrac.rat u = mapNT toRat (mapNT VFrac.val u) := by
    intro u; induction u with
    | leaf i => rfl
    | node f lf g lg ihf ihg => simp only [mapNT, ihf, ihg]; rfl
  have hu := upgma_tree_ultrametric n (fun a b => toRat (M a b)) rq hq
  simp only [upgmaTree] at hq ⊢
  have hp : (upRun n (upInit n fun a b => toRat (M a b))).pool = (upRun n (upInit n M)).pool := by rw [r2.1, ← r1.1]
  rw [hp] at hq
  cases hpool : (upRun n (upInit n M)).pool with
  | nil => simp [hpool] at hq
  | cons k rest =>
    cases rest with
    | nil =>
      simp only [hpool] at hq
      injection hq with hq
      have hs : (upRun n (upInit n fun a b => toRat (M a b))).sub k = mapNT toRat ((upRun n (upInit n M)).sub k) := by
        rw [r2.2.2.2.2.2 k, r1.2.2.2.2.2 k, hsub]
      refine ⟨_, rfl, ?_, ?_⟩
      · rw [hp, hpool]; simp only [hs]
      · rw [← hs, hq]; exact hu
    | cons k2 rest2 => simp [hpool] at hq

/-- non-vacuity: a 3-taxon matrix at `Frac` meets the hypotheses -/
example := frac_nj_tree 3 (fun a b => if a = b then (0 : Frac) else Frac.ofNat (a + b))
  (fun a b => by by_cases h : a = b <;> simp [h, ok_zero, Frac.ofNat])
  (fun a _ b _ => by by_cases h : a = b <;> simp [h, eq_comm, Nat.add_comm]) (by decide)
example := frac_upgma_tree 3 (fun a b => if a = b then (0 : Frac) else Frac.ofNat (a + b))
  (fun a b => by by_cases h : a = b <;> simp [h, ok_zero, Frac.ofNat]) (by decide)

/-! non-vacuity of the follow-up statements -/
example := mean_pairwise_spec (α := ℚ) (fun r => r.1) (fun _ => 1) taxonKey exTree (by unfold Good; decide) 1 (fun _ => true)
example := mean_pairwise_spec (α := ℚ) (fun r => (r.2.1 : ℚ)) (fun _ => 1) taxonKey exTree (by unfold Good; decide) 7 (fun k => k != 1)
example := mntd_spec (α := ℚ) (fun r => r.1) (fun _ => 1) taxonKey exTree (by unfold Good; decide) 1 (fun _ => true)
example : UPHeights (upRun 3 (upInit (α := ℚ) 3 fun a b => (a + b : ℚ))) := upgma_ultrametric 3 _ 3
/-- the never-encoded entry path (all stored masks 0, no refresh requested) -/
example : (treeMrca true false (fun _ => 0) 5 0 exTree matches .found _ (some _)) = true := by decide


namespace Aux
theorem sum_hom {α β : Type} [Zero α] [Add α] [Zero β] [Add β] (φ : α → β) (h0 : φ 0 = 0) (ha : ∀ x y, φ (x + y) = φ x + φ y) :
    ∀ l : List α, φ l.sum = (l.map φ).sum
  | [] => by simp [h0]
  | x :: l => by simp [List.sum_cons, ha, sum_hom φ h0 ha l]
end Aux

/-- (b, at the driver's own type) `frac_mean_pairwise`: the weighted mean pairwise summary `drv_c14` prints (any filter, any
normalisation factor that denotes a number) denotes the explicit mean of `mean_pairwise_spec` computed over ℚ. -/
theorem frac_mean_pairwise (t : T) (h : Good taxonKey t) (norm : Frac) (hn : norm.den ≠ 0) (keep : Nat → Bool) :
    (meanPairwise (fun e => e.d) norm keep (entries fracLen taxonKey t)).map toRat =
      let L := ((pairsOf (t.leaves.map taxonKey)).filter fun p => keep p.1 && keep p.2).map
        (pathVal (fun r => r.1) ratLen taxonKey t)
      if L = [] then none else some ((L.sum / toRat norm) / (L.length : ℚ)) := by
  have hq := mean_pairwise_spec (α := ℚ) (fun r => r.1) ratLen taxonKey t h (toRat norm) keep
  simp only at hq
  rw [← hq]
  have e1 : entries fracLen taxonKey t = (entries fracLenV taxonKey t).map (mapE VFrac.val) :=
    entries_nat VFrac.val VFrac.val_hom fracLenV taxonKey t
  have e2 : entries ratLen taxonKey t = (entries fracLenV taxonKey t).map (mapE VFrac.rat) :=
    entries_nat VFrac.rat VFrac.rat_hom fracLenV taxonKey t
  -- the value lists correspond
  have hv1 : pairValues (fun e : Entry Nat Frac => e.d) keep (entries fracLen taxonKey t) =
      (pairValues (fun e : Entry Nat VFrac => e.d) keep (entries fracLenV taxonKey t)).map VFrac.val := by
    rw [e1]; simp [pairValues, List.filter_map, List.map_map, mapE, Function.comp_def]
  have hv2 : pairValues (fun e : Entry Nat ℚ => e.d) keep (entries ratLen taxonKey t) =
      (pairValues (fun e : Entry Nat VFrac => e.d) keep (entries fracLenV taxonKey t)).map VFrac.rat := by
    rw [e2]; simp [pairValues, List.filter_map, List.map_map, mapE, Function.comp_def]
  simp only [meanPairwise, meanOf, hv1, hv2, List.isEmpty_map, List.length_map]
  generalize pairValues (fun e : Entry Nat VFrac => e.d) keep (entries fracLenV taxonKey t) = L
  split
  · rfl
  · simp only [Option.map_some]
    congr 1
    have hs : ((L.map VFrac.val).sum) = VFrac.val L.sum := (sum_hom VFrac.val rfl (fun _ _ => rfl) L).symm
    have hs' : ((L.map VFrac.rat).sum) = VFrac.rat L.sum := (sum_hom VFrac.rat VFrac.rat_hom.zero VFrac.rat_hom.add L).symm
    rw [hs, hs']
    have d1 := toRat_div (VFrac.val L.sum) norm L.sum.2 hn
    have d2 := toRat_div (VFrac.val L.sum / norm) ((L.length : Nat) : Frac) d1.1 (toRat_natCast L.length).1
    rw [d2.2, d1.2, (toRat_natCast L.length).2]
    rfl

example := frac_mean_pairwise exTree (by unfold Good; decide) Frac.one (by decide) (fun _ => true)


/-! ## extension round: NJ / UPGMA *invert* distances — the result tree realises the input matrix -/
section realise
variable {α : Type}

-- (`NT.leafIds`, `NT.depthOf`, `NT.dist` live in Model/C14NJ.lean: the driver evaluates them, op `ntdist`)
namespace Aux
theorem depthOf_none [Zero α] [Add α] : ∀ (t : NT α) (i : Nat), i ∉ NT.leafIds t → NT.depthOf t i = none
  | .leaf j, i, h => by simp [NT.leafIds] at h; simp [NT.depthOf, h]
  | .node f lf g lg, i, h => by
    simp only [NT.leafIds, List.mem_append, not_or] at h
    simp [NT.depthOf, depthOf_none f i h.1, depthOf_none g i h.2]
end Aux
end realise

section upreal
variable {α : Type} [Field α] [LinearOrder α]

namespace Aux
/-- the first strict minimum is a minimum -/
theorem argmin_le {γ : Type} (val : γ → α) : ∀ (l : List γ) (acc : Option (γ × α)) (r : γ × α),
    (∀ q m, acc = some (q, m) → m = val q) → argmin val l acc = some r →
    r.2 = val r.1 ∧ (∀ p ∈ l, r.2 ≤ val p) ∧ (∀ q m, acc = some (q, m) → r.2 ≤ m)
  | [], acc, r, hacc, h => by
    simp only [argmin] at h
    obtain ⟨q, m⟩ := r
    exact ⟨hacc q m h, by simp, fun q' m' h' => by rw [h] at h'; injection h' with h'; injection h' with _ h'; exact le_of_eq h'⟩
  | p :: ps, none, r, _, h => by
    simp only [argmin] at h
    obtain ⟨h1, h2, h3⟩ := argmin_le val ps (some (p, val p)) r (fun q m e => by injection e with e; injection e with e1 e2; rw [← e2, ← e1]) h
    refine ⟨h1, ?_, by simp⟩
    intro p' hp'
    rcases List.mem_cons.mp hp' with rfl | hp''
    · exact h3 _ _ rfl
    · exact h2 p' hp''
  | p :: ps, some (q, m), r, hacc, h => by
    simp only [argmin] at h
    by_cases hlt : val p < m
    · simp only [hlt, if_true] at h
      obtain ⟨h1, h2, h3⟩ := argmin_le val ps (some (p, val p)) r (fun q m e => by injection e with e; injection e with e1 e2; rw [← e2, ← e1]) h
      refine ⟨h1, ?_, ?_⟩
      · intro p' hp'
        rcases List.mem_cons.mp hp' with rfl | hp''
        · exact h3 _ _ rfl
        · exact h2 p' hp''
      · intro q' m' e; injection e with e; injection e with _ e2; subst e2
        exact le_trans (h3 _ _ rfl) (le_of_lt hlt)
    · simp only [hlt, if_false] at h
      obtain ⟨h1, h2, h3⟩ := argmin_le val ps (some (q, m)) r hacc h
      refine ⟨h1, ?_, h3⟩
      intro p' hp'
      rcases List.mem_cons.mp hp' with rfl | hp''
      · exact le_trans (h3 _ _ rfl) (not_lt.mp hlt)
      · exact h2 p' hp''
end Aux

/-- `upPick` returns a pair at minimal stored distance among all pairs of the pool -/
theorem upgma_pick_minimal (s : UP α) (hs : ∀ a ∈ s.pool, ∀ b ∈ s.pool, s.d a b = s.d b a) (f g : Nat)
    (hp : upPick s = some (f, g)) : ∀ a ∈ s.pool, ∀ b ∈ s.pool, a ≠ b → s.d f g ≤ s.d a b := by
  simp only [upPick, Option.map_eq_some_iff] at hp
  obtain ⟨r, hr, he⟩ := hp
  obtain ⟨h1, h2, _⟩ := argmin_le _ _ none r (by simp) hr
  intro a ha b hb hab
  rw [he] at h1
  simp only at h1
  rcases mem_pairsOf s.pool a b hab ha hb with h | h
  · have := h2 _ h; rw [h1] at this; exact this
  · have := h2 _ h; rw [h1] at this; simp only at this; rw [hs a ha b hb]; exact this
end upreal


section upreal2
variable {α : Type} [Field α] [LinearOrder α] [CharZero α]

/-- what UPGMA maintains on an ultrametric input `d0` over `n` taxa: every pool node's subtree has its cluster as leaf set,
is ultrametric with the recorded height, realises `d0` between its own leaves, and `d0` is constant — equal to the stored
distance — between the leaves of two different pool nodes -/
structure URel (d0 : Nat → Nat → α) (n : Nat) (s : UP α) : Prop where
  inv : UPInv d0 s
  ids : ∀ k ∈ s.pool, NT.leafIds (s.sub k) = s.cl k
  nodupcl : ∀ k ∈ s.pool, (s.cl k).Nodup
  disj : ∀ a ∈ s.pool, ∀ b ∈ s.pool, a ≠ b → ∀ i ∈ s.cl a, i ∉ s.cl b
  cross : ∀ a ∈ s.pool, ∀ b ∈ s.pool, a ≠ b → ∀ i ∈ s.cl a, ∀ j ∈ s.cl b, d0 i j = s.d a b
  inner : ∀ k ∈ s.pool, ∀ i ∈ s.cl k, ∀ j ∈ s.cl k, i ≠ j → NT.dist (s.sub k) i j = some (d0 i j)
  depth : ∀ k ∈ s.pool, ∀ i ∈ s.cl k, NT.depthOf (s.sub k) i = some (s.h k)
  cover : (s.pool.flatMap s.cl).Perm (List.range n)

namespace Aux
theorem flatMap_single : ∀ l : List Nat, l.flatMap (fun i => [i]) = l
  | [] => rfl
  | x :: l => by simp [List.flatMap_cons, flatMap_single l]
end Aux

theorem up_init_urel (n : Nat) (M : Nat → Nat → α) : URel (upInit n M).d n (upInit n M) where
  inv := up_init_inv n M
  ids := fun k _ => by simp [upInit, NT.leafIds]
  nodupcl := fun k _ => by simp [upInit]
  disj := fun a _ b _ hab i hi => by simp [upInit] at hi ⊢; rw [hi]; exact hab
  cross := fun a _ b _ _ i hi j hj => by simp [upInit] at hi hj; subst hi; subst hj; rfl
  inner := fun k _ i hi j hj hij => by simp [upInit] at hi hj; exact absurd (hi.trans hj.symm) hij
  depth := fun k _ i hi => by simp [upInit] at hi; subst hi; simp [upInit, NT.depthOf]
  cover := by simp only [upInit]; rw [flatMap_single]

/-- one join at a minimal pair of an ultrametric keeps `URel`: the strong triangle inequality forces the two joined
clusters to be equally far from every other cluster (a minimal pair of an ultrametric is a sibling pair) -/
theorem upgma_join_urel (d0 : Nat → Nat → α) (n : Nat)
    (hu : ∀ i j k, i < n → j < n → k < n → i ≠ j → j ≠ k → i ≠ k → d0 i k ≤ max (d0 i j) (d0 j k))
    (s : UP α) (h : URel d0 n s) (f g : Nat) (hf : f ∈ s.pool) (hg : g ∈ s.pool) (hfg : f ≠ g)
    (hmin : ∀ a ∈ s.pool, ∀ b ∈ s.pool, a ≠ b → s.d f g ≤ s.d a b) : URel d0 n (upJoin s f g) := by
  have hsub : ∀ k, k ∈ (s.pool.erase f).erase g → k ∈ s.pool ∧ k ≠ f ∧ k ≠ g ∧ k ≠ s.next := by
    intro k hk
    have h1 : k ∈ s.pool.erase f := List.mem_of_mem_erase hk
    have hk0 : k ∈ s.pool := List.mem_of_mem_erase h1
    exact ⟨hk0, fun e => by subst e; exact (List.Nodup.mem_erase_iff h.inv.nodup).mp h1 |>.1 rfl,
      fun e => by subst e; exact (List.Nodup.mem_erase_iff (h.inv.nodup.erase _)).mp hk |>.1 rfl,
      fun e => Nat.lt_irrefl _ (e ▸ h.inv.fresh k hk0)⟩
  have hlt : ∀ a ∈ s.pool, ∀ i ∈ s.cl a, i < n := fun a ha i hi =>
    List.mem_range.mp (h.cover.mem_iff.mp (List.mem_flatMap.mpr ⟨a, ha, hi⟩))
  obtain ⟨i0, hi0⟩ := List.exists_mem_of_ne_nil _ (h.inv.nonempty f hf)
  obtain ⟨j0, hj0⟩ := List.exists_mem_of_ne_nil _ (h.inv.nonempty g hg)
  -- a minimal pair of an ultrametric is a sibling pair
  have hsib : ∀ k ∈ (s.pool.erase f).erase g, s.d f k = s.d g k := by
    intro k hk
    obtain ⟨hk0, hkf, hkg, _⟩ := hsub k hk
    obtain ⟨l0, hl0⟩ := List.exists_mem_of_ne_nil _ (h.inv.nonempty k hk0)
    have c1 := h.cross f hf g hg hfg i0 hi0 j0 hj0
    have c1' := h.cross g hg f hf (Ne.symm hfg) j0 hj0 i0 hi0
    have c2 := h.cross f hf k hk0 (Ne.symm hkf) i0 hi0 l0 hl0
    have c3 := h.cross g hg k hk0 (Ne.symm hkg) j0 hj0 l0 hl0
    have li := hlt f hf i0 hi0; have lj := hlt g hg j0 hj0; have ll := hlt k hk0 l0 hl0
    have nij : i0 ≠ j0 := fun e => h.disj f hf g hg hfg i0 hi0 (e ▸ hj0)
    have nil : i0 ≠ l0 := fun e => h.disj f hf k hk0 (Ne.symm hkf) i0 hi0 (e ▸ hl0)
    have njl : j0 ≠ l0 := fun e => h.disj g hg k hk0 (Ne.symm hkg) j0 hj0 (e ▸ hl0)
    have u1 := hu j0 i0 l0 lj li ll (Ne.symm nij) nil njl
    have u2 := hu i0 j0 l0 li lj ll nij njl nil
    rw [c1', c2, c3, h.inv.symm g hg f hf] at u1
    rw [c1, c3, c2] at u2
    have m1 := hmin f hf k hk0 (Ne.symm hkf)
    have m2 := hmin g hg k hk0 (Ne.symm hkg)
    rw [h.inv.symm g hg k hk0] at m2
    have m2' : s.d f g ≤ s.d g k := by rw [h.inv.symm g hg k hk0]; exact m2
    rw [max_eq_right m1] at u1
    rw [max_eq_right m2'] at u2
    exact le_antisymm u2 u1
  have hnd := upgma_recovers_tree_partial s f g (h.inv.nonempty f hf) hsib
  have hnew : ∀ k ∈ (s.pool.erase f).erase g, (upJoin s f g).cl k = s.cl k ∧ (upJoin s f g).sub k = s.sub k ∧
      (upJoin s f g).h k = s.h k := fun k hk => by simp [upJoin, (hsub k hk).2.2.2]
  have hdisfg : ∀ i ∈ s.cl f, i ∉ s.cl g := h.disj f hf g hg hfg
  have hmemP : ∀ k, k ∈ (upJoin s f g).pool → k ∈ (s.pool.erase f).erase g ∨ k = s.next := by
    intro k hk; simpa [upJoin] using hk
  have clnew : (upJoin s f g).cl s.next = s.cl f ++ s.cl g := by simp [upJoin]
  have subnew : (upJoin s f g).sub s.next =
      .node (s.sub f) (s.d f g / ((2 : Nat) : α) - s.h f) (s.sub g) (s.d f g / ((2 : Nat) : α) - s.h g) := by simp [upJoin]
  have hnewh : (upJoin s f g).h s.next = s.d f g / ((2 : Nat) : α) - s.h f + s.h f := by simp [upJoin]
  have dnn : ∀ a ∈ (s.pool.erase f).erase g, ∀ b ∈ (s.pool.erase f).erase g, (upJoin s f g).d a b = s.d a b :=
    fun a ha b hb => by simp [upJoin, (hsub a ha).2.2.2, (hsub b hb).2.2.2]
  have dnk : ∀ k ∈ (s.pool.erase f).erase g, (upJoin s f g).d s.next k = s.d f k ∧ (upJoin s f g).d k s.next = s.d f k :=
    fun k hk => by simp [upJoin, (hsub k hk).2.2.2, hnd k hk]
  have nf : ∀ i ∈ s.cl f, NT.depthOf (s.sub f) i = some (s.h f) := h.depth f hf
  have ng : ∀ i ∈ s.cl g, NT.depthOf (s.sub g) i = some (s.h g) := h.depth g hg
  have nfg : ∀ i ∈ s.cl g, NT.depthOf (s.sub f) i = none := fun i hi =>
    depthOf_none _ _ (by rw [h.ids f hf]; exact fun c => hdisfg i c hi)
  have ngf : ∀ i ∈ s.cl f, NT.depthOf (s.sub g) i = none := fun i hi =>
    depthOf_none _ _ (by rw [h.ids g hg]; exact hdisfg i hi)
  refine ⟨upgma_join_invariant d0 s f g h.inv hf hg hfg, ?_, ?_, ?_, ?_, ?_, ?_, ?_⟩
  · -- ids
    intro k hk
    rcases hmemP k hk with hk' | rfl
    · rw [(hnew k hk').1, (hnew k hk').2.1]; exact h.ids k (hsub k hk').1
    · rw [clnew, subnew]; simp [NT.leafIds, h.ids f hf, h.ids g hg]
  · -- nodup
    intro k hk
    rcases hmemP k hk with hk' | rfl
    · rw [(hnew k hk').1]; exact h.nodupcl k (hsub k hk').1
    · rw [clnew]
      exact List.nodup_append.mpr ⟨h.nodupcl f hf, h.nodupcl g hg, fun a ha b hb e => hdisfg a ha (e ▸ hb)⟩
  · -- disjoint
    intro a ha b hb hab i hi
    rcases hmemP a ha with ha' | rfl <;> rcases hmemP b hb with hb' | rfl
    · rw [(hnew a ha').1] at hi; rw [(hnew b hb').1]
      exact h.disj a (hsub a ha').1 b (hsub b hb').1 hab i hi
    · rw [(hnew a ha').1] at hi; rw [clnew]
      intro c; rcases List.mem_append.mp c with c | c
      · exact h.disj a (hsub a ha').1 f hf (hsub a ha').2.1 i hi c
      · exact h.disj a (hsub a ha').1 g hg (hsub a ha').2.2.1 i hi c
    · rw [clnew] at hi; rw [(hnew b hb').1]
      rcases List.mem_append.mp hi with c | c
      · exact h.disj f hf b (hsub b hb').1 (Ne.symm (hsub b hb').2.1) i c
      · exact h.disj g hg b (hsub b hb').1 (Ne.symm (hsub b hb').2.2.1) i c
    · exact absurd rfl hab
  · -- cross
    intro a ha b hb hab i hi j hj
    rcases hmemP a ha with ha' | rfl <;> rcases hmemP b hb with hb' | rfl
    · rw [(hnew a ha').1] at hi; rw [(hnew b hb').1] at hj; rw [dnn a ha' b hb']
      exact h.cross a (hsub a ha').1 b (hsub b hb').1 hab i hi j hj
    · rw [(hnew a ha').1] at hi; rw [clnew] at hj; rw [(dnk a ha').2]
      obtain ⟨ha0, haf, hag, _⟩ := hsub a ha'
      rcases List.mem_append.mp hj with c | c
      · rw [h.cross a ha0 f hf haf i hi j c]; exact h.inv.symm a ha0 f hf
      · rw [h.cross a ha0 g hg hag i hi j c, h.inv.symm a ha0 g hg]; exact (hsib a ha').symm
    · rw [clnew] at hi; rw [(hnew b hb').1] at hj; rw [(dnk b hb').1]
      obtain ⟨hb0, hbf, hbg, _⟩ := hsub b hb'
      rcases List.mem_append.mp hi with c | c
      · exact h.cross f hf b hb0 (Ne.symm hbf) i c j hj
      · rw [h.cross g hg b hb0 (Ne.symm hbg) i c j hj]; exact (hsib b hb').symm
    · exact absurd rfl hab
  · -- inner
    intro k hk i hi j hj hij
    rcases hmemP k hk with hk' | rfl
    · rw [(hnew k hk').1] at hi hj; rw [(hnew k hk').2.1]; exact h.inner k (hsub k hk').1 i hi j hj hij
    · rw [clnew] at hi hj; rw [subnew]
      rcases List.mem_append.mp hi with ci | ci <;> rcases List.mem_append.mp hj with cj | cj
      · simp only [NT.dist, nf i ci, nf j cj]; exact h.inner f hf i ci j cj hij
      · simp only [NT.dist, nf i ci, nfg j cj, ng j cj]
        rw [h.cross f hf g hg hfg i ci j cj]
        congr 1; simp only [Nat.cast_ofNat]; ring
      · simp only [NT.dist, nfg i ci, nf j cj, ng i ci]
        rw [h.cross g hg f hf (Ne.symm hfg) i ci j cj, h.inv.symm g hg f hf]
        congr 1; simp only [Nat.cast_ofNat]; ring
      · simp only [NT.dist, nfg i ci, nfg j cj]; exact h.inner g hg i ci j cj hij
  · -- depth
    intro k hk i hi
    rcases hmemP k hk with hk' | rfl
    · rw [(hnew k hk').1] at hi; rw [(hnew k hk').2.1, (hnew k hk').2.2]; exact h.depth k (hsub k hk').1 i hi
    · rw [clnew] at hi; rw [subnew, hnewh]
      rcases List.mem_append.mp hi with c | c
      · simp only [NT.depthOf, nf i c]; congr 1; ring
      · simp only [NT.depthOf, nfg i c, ng i c]; congr 1; ring
  · -- cover
    have e1 : (upJoin s f g).pool.flatMap (upJoin s f g).cl =
        ((s.pool.erase f).erase g).flatMap s.cl ++ (s.cl f ++ s.cl g) := by
      have : (upJoin s f g).pool = (s.pool.erase f).erase g ++ [s.next] := by simp [upJoin]
      rw [this, List.flatMap_append]
      congr 1
      · apply List.flatMap_congr; intro k hk; exact (hnew k hk).1
      · simp [clnew]
    rw [e1]
    have p1 := (pool_perm hf hg hfg).flatMap_right s.cl
    refine List.Perm.trans ?_ (p1.symm.trans h.cover)
    simp only [List.flatMap_cons]
    exact List.perm_append_comm.trans (by rw [List.append_assoc])
end upreal2


section upreal3
variable {α : Type} [Field α] [LinearOrder α] [CharZero α]

theorem upgma_run_urel (d0 : Nat → Nat → α) (n : Nat)
    (hu : ∀ i j k, i < n → j < n → k < n → i ≠ j → j ≠ k → i ≠ k → d0 i k ≤ max (d0 i j) (d0 j k)) :
    ∀ (fuel : Nat) (s : UP α), URel d0 n s → URel d0 n (upRun fuel s)
  | 0, s, h => h
  | fuel + 1, s, h => by
    simp only [upRun]
    split
    · apply upgma_run_urel d0 n hu fuel
      unfold upStep
      cases hp : upPick s with
      | none => exact h
      | some p =>
        obtain ⟨f, g⟩ := p
        obtain ⟨hf, hg, hfg⟩ := up_pick_mem s h.inv.nodup f g hp
        exact upgma_join_urel d0 n hu s h f g hf hg hfg (upgma_pick_minimal s h.inv.symm f g hp)
    · exact h

/-- (d) `upgma_realises` — UPGMA inverts ultrametric distances.  Let `D` be the matrix as `upgma_tree` reads it (upper triangle,
mirrored). If `D` satisfies the strong triangle inequality on the `n ≥ 1` taxa — as the distances of every ultrametric tree
do — then `upgma_tree` returns a tree whose leaves are exactly the taxa, in which the path length between any two taxa is
exactly `D`, and all of whose leaves are at one depth.  No tie-breaking assumption, no positivity assumption: with ties
(polytomies in the source) any resolution the code picks still realises `D`. -/
theorem upgma_realises (n : Nat) (M : Nat → Nat → α) (hn : 1 ≤ n)
    (hu : ∀ i j k, i < n → j < n → k < n → i ≠ j → j ≠ k → i ≠ k →
      (upInit n M).d i k ≤ max ((upInit n M).d i j) ((upInit n M).d j k)) :
    ∃ r, upgmaTree n M = some r ∧ (NT.leafIds r).Perm (List.range n) ∧
      (∀ i < n, ∀ j < n, i ≠ j → NT.dist r i j = some ((upInit n M).d i j)) ∧
      ∃ H : α, ∀ i < n, NT.depthOf r i = some H := by
  obtain ⟨r, hr⟩ := upgma_terminates n M hn
  have hrel := upgma_run_urel (upInit n M).d n hu n _ (up_init_urel n M)
  refine ⟨r, hr, ?_⟩
  simp only [upgmaTree] at hr
  split at hr
  · rename_i k hk
    injection hr with hr; subst hr
    have hkp : k ∈ (upRun n (upInit n M)).pool := by rw [hk]; simp
    have hcov := hrel.cover
    rw [hk] at hcov
    simp only [List.flatMap_cons, List.flatMap_nil, List.append_nil] at hcov
    have hmem : ∀ i < n, i ∈ (upRun n (upInit n M)).cl k := fun i hi => hcov.mem_iff.mpr (List.mem_range.mpr hi)
    refine ⟨by rw [hrel.ids k hkp]; exact hcov, ?_, ⟨_, fun i hi => hrel.depth k hkp i (hmem i hi)⟩⟩
    intro i hi j hj hij
    exact hrel.inner k hkp i (hmem i hi) j (hmem j hj) hij
  · simp at hr
end upreal3

/-- non-vacuity: the ultrametric 0–1 at 2, {0,1}–2 at 4 -/
example := upgma_realises (α := ℚ) 3 (fun a b => if a = b then 0 else if a + b = 1 then 2 else 4) (by decide) (by
  intro i j k hi hj hk _ _ _
  rcases (by omega : i = 0 ∨ i = 1 ∨ i = 2) with rfl | rfl | rfl <;>
  rcases (by omega : j = 0 ∨ j = 1 ∨ j = 2) with rfl | rfl | rfl <;>
  rcases (by omega : k = 0 ∨ k = 1 ∨ k = 2) with rfl | rfl | rfl <;>
  simp [upInit] <;> norm_num)


section njreal
variable {α : Type} [Field α]

namespace Aux
theorem depthOf_some : ∀ (t : NT α) (i : Nat), i ∈ NT.leafIds t → ∃ x, NT.depthOf t i = some x
  | .leaf j, i, h => by simp [NT.leafIds] at h; simp [NT.depthOf, h]
  | .node f lf g lg, i, h => by
    simp only [NT.leafIds, List.mem_append] at h
    simp only [NT.depthOf]
    cases hf : NT.depthOf f i with
    | some x => exact ⟨_, rfl⟩
    | none =>
      rcases h with h | h
      · obtain ⟨x, hx⟩ := depthOf_some f i h; rw [hx] at hf; cases hf
      · obtain ⟨y, hy⟩ := depthOf_some g i h; rw [hy]; exact ⟨_, rfl⟩
end Aux

/-- "`f`, `g` hang on a common node": pendant lengths `Lf`, `Lg`, every other pool member `k` at `Lf + u k` resp. `Lg + u k` -/
def Cherry (s : NJ α) (f g : Nat) : Prop :=
  ∃ (Lf Lg : α) (u : Nat → α), s.d f g = Lf + Lg ∧
    ∀ k ∈ (s.pool.erase f).erase g, s.d f k = Lf + u k ∧ s.d g k = Lg + u k

/-- what NJ maintains on an input `d0` while every join is a cherry: the subtrees of the pool nodes partition the taxa, each
realises `d0` between its own leaves, and `d0 i j = depth i + (stored distance) + depth j` across two pool nodes -/
structure NRel (d0 : Nat → Nat → α) (n : Nat) (s : NJ α) : Prop where
  inv : NJInv s
  nodupl : ∀ k ∈ s.pool, (NT.leafIds (s.sub k)).Nodup
  disj : ∀ a ∈ s.pool, ∀ b ∈ s.pool, a ≠ b → ∀ i ∈ NT.leafIds (s.sub a), i ∉ NT.leafIds (s.sub b)
  cross : ∀ a ∈ s.pool, ∀ b ∈ s.pool, a ≠ b → ∀ i ∈ NT.leafIds (s.sub a), ∀ j ∈ NT.leafIds (s.sub b),
    ∃ x y, NT.depthOf (s.sub a) i = some x ∧ NT.depthOf (s.sub b) j = some y ∧ d0 i j = x + s.d a b + y
  inner : ∀ k ∈ s.pool, ∀ i ∈ NT.leafIds (s.sub k), ∀ j ∈ NT.leafIds (s.sub k), i ≠ j →
    NT.dist (s.sub k) i j = some (d0 i j)
  cover : (s.pool.flatMap fun k => NT.leafIds (s.sub k)).Perm (List.range n)

theorem nj_init_nrel (n : Nat) (d : Nat → Nat → α) (hd : ∀ a < n, ∀ b < n, d a b = d b a) : NRel d n (njInit n d) where
  inv := nj_init_inv n d hd
  nodupl := fun k _ => by simp [njInit, NT.leafIds]
  disj := fun a _ b _ hab i hi => by simp [njInit, NT.leafIds] at hi ⊢; rw [hi]; exact hab
  cross := fun a _ b _ _ i hi j hj => by
    simp [njInit, NT.leafIds] at hi hj; subst hi; subst hj
    exact ⟨0, 0, by simp [njInit, NT.depthOf], by simp [njInit, NT.depthOf], by simp [njInit]⟩
  inner := fun k _ i hi j hj hij => by simp [njInit, NT.leafIds] at hi hj; exact absurd (hi.trans hj.symm) hij
  cover := by simp only [njInit, NT.leafIds]; rw [flatMap_single]

/-- one join keeps `NRel` provided the joined pair has the two branch lengths `(Lf, Lg)` and the new node the distances `u`
that a cherry gives (`nj_cherry_step`), or it is the final join of the last two nodes -/
theorem nj_join_nrel (d0 : Nat → Nat → α) (n : Nat) (s : NJ α) (h : NRel d0 n s) (f g : Nat)
    (hf : f ∈ s.pool) (hg : g ∈ s.pool) (hfg : f ≠ g) (Lf Lg : α) (u : Nat → α)
    (hl : njLengths s f g = (Lf, Lg)) (hsum : s.d f g = Lf + Lg)
    (hu : ∀ k ∈ (s.pool.erase f).erase g, s.d f k = Lf + u k ∧ s.d g k = Lg + u k ∧ njNewDist s f g k = u k) :
    NRel d0 n (njJoin s f g) := by
  have hsub : ∀ k, k ∈ (s.pool.erase f).erase g → k ∈ s.pool ∧ k ≠ f ∧ k ≠ g ∧ k ≠ s.next := by
    intro k hk
    have h1 : k ∈ s.pool.erase f := List.mem_of_mem_erase hk
    have hk0 : k ∈ s.pool := List.mem_of_mem_erase h1
    exact ⟨hk0, fun e => by subst e; exact (List.Nodup.mem_erase_iff h.inv.nodup).mp h1 |>.1 rfl,
      fun e => by subst e; exact (List.Nodup.mem_erase_iff (h.inv.nodup.erase _)).mp hk |>.1 rfl,
      fun e => Nat.lt_irrefl _ (e ▸ h.inv.fresh k hk0)⟩
  have hmemP : ∀ k, k ∈ (njJoin s f g).pool → k ∈ (s.pool.erase f).erase g ∨ k = s.next := by
    intro k hk; simpa [njJoin] using hk
  have subk : ∀ k ∈ (s.pool.erase f).erase g, (njJoin s f g).sub k = s.sub k :=
    fun k hk => by simp [njJoin, (hsub k hk).2.2.2]
  have subnew : (njJoin s f g).sub s.next = .node (s.sub f) Lf (s.sub g) Lg := by simp [njJoin, hl]
  have dnn : ∀ a ∈ (s.pool.erase f).erase g, ∀ b ∈ (s.pool.erase f).erase g, (njJoin s f g).d a b = s.d a b :=
    fun a ha b hb => by simp [njJoin, (hsub a ha).2.2.2, (hsub b hb).2.2.2]
  have dnk : ∀ k ∈ (s.pool.erase f).erase g, (njJoin s f g).d s.next k = u k ∧ (njJoin s f g).d k s.next = u k :=
    fun k hk => by simp [njJoin, (hsub k hk).2.2.2, (hu k hk).2.2]
  have hdisfg := h.disj f hf g hg hfg
  have nfg : ∀ i ∈ NT.leafIds (s.sub g), NT.depthOf (s.sub f) i = none := fun i hi =>
    depthOf_none _ _ (fun c => hdisfg i c hi)
  have ngf : ∀ i ∈ NT.leafIds (s.sub f), NT.depthOf (s.sub g) i = none := fun i hi =>
    depthOf_none _ _ (hdisfg i hi)
  have lnew : NT.leafIds ((njJoin s f g).sub s.next) = NT.leafIds (s.sub f) ++ NT.leafIds (s.sub g) := by
    rw [subnew]; rfl
  refine ⟨nj_join_inv s f g h.inv hf hg hfg, ?_, ?_, ?_, ?_, ?_⟩
  · intro k hk
    rcases hmemP k hk with hk' | rfl
    · rw [subk k hk']; exact h.nodupl k (hsub k hk').1
    · rw [lnew]
      exact List.nodup_append.mpr ⟨h.nodupl f hf, h.nodupl g hg, fun a ha b hb e => hdisfg a ha (e ▸ hb)⟩
  · intro a ha b hb hab i hi
    rcases hmemP a ha with ha' | rfl <;> rcases hmemP b hb with hb' | rfl
    · rw [subk a ha'] at hi; rw [subk b hb']
      exact h.disj a (hsub a ha').1 b (hsub b hb').1 hab i hi
    · rw [subk a ha'] at hi; rw [lnew]
      intro c; rcases List.mem_append.mp c with c | c
      · exact h.disj a (hsub a ha').1 f hf (hsub a ha').2.1 i hi c
      · exact h.disj a (hsub a ha').1 g hg (hsub a ha').2.2.1 i hi c
    · rw [lnew] at hi; rw [subk b hb']
      rcases List.mem_append.mp hi with c | c
      · exact h.disj f hf b (hsub b hb').1 (Ne.symm (hsub b hb').2.1) i c
      · exact h.disj g hg b (hsub b hb').1 (Ne.symm (hsub b hb').2.2.1) i c
    · exact absurd rfl hab
  · intro a ha b hb hab i hi j hj
    rcases hmemP a ha with ha' | rfl <;> rcases hmemP b hb with hb' | rfl
    · rw [subk a ha'] at hi ⊢; rw [subk b hb'] at hj ⊢; rw [dnn a ha' b hb']
      exact h.cross a (hsub a ha').1 b (hsub b hb').1 hab i hi j hj
    · rw [subk a ha'] at hi ⊢; rw [lnew] at hj; rw [subnew, (dnk a ha').2]
      obtain ⟨ha0, haf, hag, _⟩ := hsub a ha'
      rcases List.mem_append.mp hj with c | c
      · obtain ⟨x, y, hx, hy, e⟩ := h.cross a ha0 f hf haf i hi j c
        refine ⟨x, y + Lf, hx, by simp [NT.depthOf, hy], ?_⟩
        rw [e, h.inv.symm a ha0 f hf, (hu a ha').1]; ring
      · obtain ⟨x, y, hx, hy, e⟩ := h.cross a ha0 g hg hag i hi j c
        refine ⟨x, y + Lg, hx, by simp [NT.depthOf, nfg j c, hy], ?_⟩
        rw [e, h.inv.symm a ha0 g hg, (hu a ha').2.1]; ring
    · rw [lnew] at hi; rw [subk b hb'] at hj ⊢; rw [subnew, (dnk b hb').1]
      obtain ⟨hb0, hbf, hbg, _⟩ := hsub b hb'
      rcases List.mem_append.mp hi with c | c
      · obtain ⟨x, y, hx, hy, e⟩ := h.cross f hf b hb0 (Ne.symm hbf) i c j hj
        refine ⟨x + Lf, y, by simp [NT.depthOf, hx], hy, ?_⟩
        rw [e, (hu b hb').1]; ring
      · obtain ⟨x, y, hx, hy, e⟩ := h.cross g hg b hb0 (Ne.symm hbg) i c j hj
        refine ⟨x + Lg, y, by simp [NT.depthOf, nfg i c, hx], hy, ?_⟩
        rw [e, (hu b hb').2.1]; ring
    · exact absurd rfl hab
  · intro k hk i hi j hj hij
    rcases hmemP k hk with hk' | rfl
    · rw [subk k hk'] at hi hj ⊢; exact h.inner k (hsub k hk').1 i hi j hj hij
    · rw [lnew] at hi hj; rw [subnew]
      rcases List.mem_append.mp hi with ci | ci <;> rcases List.mem_append.mp hj with cj | cj
      · obtain ⟨x, hx⟩ := depthOf_some _ _ ci
        obtain ⟨y, hy⟩ := depthOf_some _ _ cj
        simp only [NT.dist, hx, hy]; exact h.inner f hf i ci j cj hij
      · obtain ⟨x, y, hx, hy, e⟩ := h.cross f hf g hg hfg i ci j cj
        simp only [NT.dist, hx, nfg j cj, hy]
        rw [e, hsum]; congr 1; ring
      · obtain ⟨x, y, hx, hy, e⟩ := h.cross g hg f hf (Ne.symm hfg) i ci j cj
        simp only [NT.dist, nfg i ci, hy, hx]
        rw [e, h.inv.symm g hg f hf, hsum]; congr 1; ring
      · simp only [NT.dist, nfg i ci, nfg j cj]; exact h.inner g hg i ci j cj hij
  · have e1 : ((njJoin s f g).pool.flatMap fun k => NT.leafIds ((njJoin s f g).sub k)) =
        (((s.pool.erase f).erase g).flatMap fun k => NT.leafIds (s.sub k)) ++
          (NT.leafIds (s.sub f) ++ NT.leafIds (s.sub g)) := by
      have : (njJoin s f g).pool = (s.pool.erase f).erase g ++ [s.next] := by simp [njJoin]
      rw [this, List.flatMap_append]
      congr 1
      · apply List.flatMap_congr; intro k hk; rw [subk k hk]
      · simp [lnew]
    rw [e1]
    have p1 := (pool_perm hf hg hfg).flatMap_right (fun k => NT.leafIds (s.sub k))
    refine List.Perm.trans ?_ (p1.symm.trans h.cover)
    simp only [List.flatMap_cons]
    exact List.perm_append_comm.trans (by rw [List.append_assoc])
end njreal

section njreal2
variable {α : Type} [Field α] [LinearOrder α] [CharZero α]

theorem nj_step_nrel (d0 : Nat → Nat → α) (n : Nat)
    (hch : ∀ s : NJ α, NRel d0 n s → s.pool.length > 2 → ∀ f g, njPick s = some (f, g) → Cherry s f g)
    (s : NJ α) (h : NRel d0 n s) : NRel d0 n (njStep s) := by
  unfold njStep
  cases hp : njPick s with
  | none => exact h
  | some p =>
    obtain ⟨f, g⟩ := p
    obtain ⟨hf, hg, hfg⟩ := nj_pick_mem s h.inv.nodup f g hp
    by_cases hn : s.pool.length > 2
    · obtain ⟨Lf, Lg, u, hsum, hu⟩ := hch s h hn f g hp
      obtain ⟨hl, hd⟩ := nj_cherry_step s f g h.inv hf hg hfg hn Lf Lg u hsum hu
      exact nj_join_nrel d0 n s h f g hf hg hfg Lf Lg u hl hsum (fun k hk => ⟨(hu k hk).1, (hu k hk).2, hd k hk⟩)
    · have hlen : ((s.pool.erase f).erase g).length = s.pool.length - 2 := by
        rw [List.length_erase_of_mem ((List.mem_erase_of_ne (Ne.symm hfg)).mpr hg), List.length_erase_of_mem hf]; omega
      have hnil : (s.pool.erase f).erase g = [] := List.length_eq_zero_iff.mp (by rw [hlen]; omega)
      have h2 : ((2 : Nat) : α) ≠ 0 := by exact_mod_cast (two_ne_zero : (2 : Nat) ≠ 0)
      refine nj_join_nrel d0 n s h f g hf hg hfg (s.d f g / ((2 : Nat) : α)) (s.d f g / ((2 : Nat) : α)) (fun _ => 0)
        (by simp [njLengths, hn]) (by field_simp; ring) (fun k hk => by rw [hnil] at hk; simp at hk)

/-- (d) the induction over contractions of neighbour joining's correctness, with the consistency lemma as its only
hypothesis.  If in every state the run can reach (`NRel`: the invariant below) with more than two pool nodes the Q-minimal
pair the code picks is a cherry (`hch`), then for `n ≥ 1` taxa `nj_tree` returns a tree whose leaves are exactly the taxa
and in which the path length between any two taxa is exactly the input distance: NJ inverts the matrix, branch lengths
included.  `hch` is discharged for additive input with positive internal edge lengths by `minQ_cherry_all` (the cherry-picking
lemma of Saitou–Nei / Studier–Keppler) in `nj_realises`; still missing is uniqueness of the tree realising an additive metric
(to conclude "isomorphic to the source tree" from "same path lengths"). -/
theorem nj_realises_of_cherry_picking (n : Nat) (d : Nat → Nat → α) (hd : ∀ a < n, ∀ b < n, d a b = d b a) (hn : 1 ≤ n)
    (hch : ∀ s : NJ α, NRel d n s → s.pool.length > 2 → ∀ f g, njPick s = some (f, g) → Cherry s f g) :
    ∃ r, njTree n d = some r ∧ (NT.leafIds r).Perm (List.range n) ∧
      ∀ i < n, ∀ j < n, i ≠ j → NT.dist r i j = some (d i j) := by
  have run : ∀ (fuel : Nat) (s : NJ α), NRel d n s → NRel d n (njRun fuel s) := by
    intro fuel
    induction fuel with
    | zero => intro s h; exact h
    | succ k ih =>
      intro s h
      simp only [njRun]
      split
      · exact ih _ (nj_step_nrel d n hch s h)
      · exact h
  obtain ⟨r, hr⟩ := nj_terminates n d hd hn
  have hrel := run n _ (nj_init_nrel n d hd)
  refine ⟨r, hr, ?_⟩
  simp only [njTree] at hr
  split at hr
  · rename_i k hk
    injection hr with hr; subst hr
    have hkp : k ∈ (njRun n (njInit n d)).pool := by rw [hk]; simp
    have hcov := hrel.cover
    rw [hk] at hcov
    simp only [List.flatMap_cons, List.flatMap_nil, List.append_nil] at hcov
    have hmem : ∀ i < n, i ∈ NT.leafIds ((njRun n (njInit n d)).sub k) :=
      fun i hi => hcov.mem_iff.mpr (List.mem_range.mpr hi)
    exact ⟨hcov, fun i hi j hj hij => hrel.inner k hkp i (hmem i hi) j (hmem j hj) hij⟩
  · simp at hr
end njreal2


section njthree
variable {α : Type} [Field α] [LinearOrder α] [CharZero α]

namespace Aux
theorem leafIds_ne_nil {α : Type} : ∀ t : NT α, NT.leafIds t ≠ []
  | .leaf i => by simp [NT.leafIds]
  | .node f _ g _ => by simp [NT.leafIds, leafIds_ne_nil f]

theorem length_le_flatMap {β : Type} (F : Nat → List β) (hF : ∀ k, F k ≠ []) : ∀ l : List Nat, l.length ≤ (l.flatMap F).length
  | [] => by simp
  | x :: l => by
    have := length_le_flatMap F hF l
    have hx := List.length_pos_iff.mpr (hF x)
    simp only [List.flatMap_cons, List.length_append, List.length_cons]; omega
end Aux

/-- the pool never holds more nodes than there are taxa -/
theorem nrel_pool_le (d0 : Nat → Nat → α) (n : Nat) (s : NJ α) (h : NRel d0 n s) : s.pool.length ≤ n := by
  have := length_le_flatMap (fun k => NT.leafIds (s.sub k)) (fun k => leafIds_ne_nil _) s.pool
  rw [h.cover.length_eq, List.length_range] at this
  exact this

/-- with three nodes in the pool every pair is a cherry (three points always fit a star) -/
theorem cherry_of_three (s : NJ α) (hs : ∀ a ∈ s.pool, ∀ b ∈ s.pool, s.d a b = s.d b a) (hnd : s.pool.Nodup)
    (h3 : s.pool.length = 3) (f g : Nat) (hf : f ∈ s.pool) (hg : g ∈ s.pool) (hfg : f ≠ g) : Cherry s f g := by
  have hlen : ((s.pool.erase f).erase g).length = 1 := by
    rw [List.length_erase_of_mem ((List.mem_erase_of_ne (Ne.symm hfg)).mpr hg), List.length_erase_of_mem hf]; omega
  obtain ⟨k, hk⟩ := List.length_eq_one_iff.mp hlen
  have h2 : (2 : α) ≠ 0 := by exact_mod_cast (show (2 : Nat) ≠ 0 by decide)
  refine ⟨(s.d f g + s.d f k - s.d g k) / 2, (s.d f g + s.d g k - s.d f k) / 2,
    fun _ => (s.d f k + s.d g k - s.d f g) / 2, by field_simp; ring, ?_⟩
  intro k' hk'
  rw [hk] at hk'; simp at hk'; subst hk'
  constructor <;> (field_simp; ring)

/-- (d) unconditional for up to three taxa: `nj_tree` inverts every symmetric matrix on `n ≤ 3` taxa (any three points are
realised by a star) — an instance where the hypothesis of `nj_realises_of_cherry_picking` is discharged -/
theorem nj_realises_three (n : Nat) (d : Nat → Nat → α) (hd : ∀ a < n, ∀ b < n, d a b = d b a) (hn : 1 ≤ n) (h3 : n ≤ 3) :
    ∃ r, njTree n d = some r ∧ (NT.leafIds r).Perm (List.range n) ∧
      ∀ i < n, ∀ j < n, i ≠ j → NT.dist r i j = some (d i j) := by
  apply nj_realises_of_cherry_picking n d hd hn
  intro s h hlen f g hp
  obtain ⟨hf, hg, hfg⟩ := nj_pick_mem s h.inv.nodup f g hp
  have := nrel_pool_le d n s h
  exact cherry_of_three s h.inv.symm h.inv.nodup (by omega) f g hf hg hfg
end njthree

example := nj_realises_three (α := ℚ) 3 (fun a b => if a = b then 0 else (a + b : ℚ))
  (fun a _ b _ => by by_cases h : a = b <;> simp [h, eq_comm, add_comm]) (by decide) (by decide)


/-! ### ultrametric source trees: their distances satisfy the strong triangle inequality, so UPGMA inverts them -/
section ultratree
variable {α : Type} [Field α] [LinearOrder α] [IsStrictOrderedRing α]

/-- height of the root above its first leaf -/
def NT.height : NT α → α
  | .leaf _ => 0
  | .node f lf _ _ => NT.height f + lf

/-- an ultrametric rooted binary tree: at every node both sides reach the same height; edge lengths are not negative -/
def NT.Ultra : NT α → Prop
  | .leaf _ => True
  | .node f lf g lg => NT.Ultra f ∧ NT.Ultra g ∧ 0 ≤ lf ∧ 0 ≤ lg ∧ NT.height f + lf = NT.height g + lg

/-- path length between two taxa of a tree, 0 if there is none: the matrix a tree hands to UPGMA / NJ -/
def NT.dmat (t : NT α) (i j : Nat) : α := match NT.dist t i j with | some x => x | none => 0

namespace Aux
theorem ultra_height_nonneg : ∀ t : NT α, NT.Ultra t → 0 ≤ NT.height t
  | .leaf _, _ => le_refl _
  | .node f lf g lg, h => add_nonneg (ultra_height_nonneg f h.1) h.2.2.1

theorem ultra_depth : ∀ (t : NT α), NT.Ultra t → ∀ i ∈ NT.leafIds t, NT.depthOf t i = some (NT.height t)
  | .leaf j, _, i, hi => by simp [NT.leafIds] at hi; simp [NT.depthOf, hi, NT.height]
  | .node f lf g lg, h, i, hi => by
    simp only [NT.leafIds, List.mem_append] at hi
    simp only [NT.depthOf, NT.height]
    cases hf : NT.depthOf f i with
    | some x =>
      by_cases hm : i ∈ NT.leafIds f
      · rw [ultra_depth f h.1 i hm] at hf; injection hf with hf; rw [hf]
      · rw [depthOf_none f i hm] at hf; cases hf
    | none =>
      have hm : i ∈ NT.leafIds g := by
        rcases hi with hi | hi
        · rw [ultra_depth f h.1 i hi] at hf; cases hf
        · exact hi
      rw [ultra_depth g h.2.1 i hm]; simp only; rw [h.2.2.2.2]

/-- inside an ultrametric tree no two leaves are further apart than twice its height -/
theorem ultra_dist_le : ∀ (t : NT α), NT.Ultra t → (NT.leafIds t).Nodup → ∀ i ∈ NT.leafIds t, ∀ j ∈ NT.leafIds t, i ≠ j →
    ∃ x, NT.dist t i j = some x ∧ x ≤ 2 * NT.height t
  | .leaf k, _, _, i, hi, j, hj, hij => by simp [NT.leafIds] at hi hj; exact absurd (hi.trans hj.symm) hij
  | .node f lf g lg, h, hnd, i, hi, j, hj, hij => by
    simp only [NT.leafIds] at hnd hi hj
    have hnd' := List.nodup_append.mp hnd
    have hdis : ∀ a ∈ NT.leafIds f, a ∉ NT.leafIds g := fun a ha hb => hnd'.2.2 a ha a hb rfl
    have hfh := ultra_height_nonneg f h.1
    have hgh := ultra_height_nonneg g h.2.1
    simp only [NT.dist, NT.height]
    rcases List.mem_append.mp hi with ci | ci <;> rcases List.mem_append.mp hj with cj | cj
    · obtain ⟨x, hx, hle⟩ := ultra_dist_le f h.1 hnd'.1 i ci j cj hij
      simp only [ultra_depth f h.1 i ci, ultra_depth f h.1 j cj, hx]
      exact ⟨x, rfl, by linarith [h.2.2.1]⟩
    · simp only [ultra_depth f h.1 i ci, depthOf_none f j (fun c => hdis j c cj), ultra_depth g h.2.1 j cj]
      exact ⟨_, rfl, by linarith [h.2.2.2.2]⟩
    · simp only [depthOf_none f i (fun c => hdis i c ci), ultra_depth f h.1 j cj, ultra_depth g h.2.1 i ci]
      exact ⟨_, rfl, by linarith [h.2.2.2.2]⟩
    · obtain ⟨x, hx, hle⟩ := ultra_dist_le g h.2.1 hnd'.2.1 i ci j cj hij
      simp only [depthOf_none f i (fun c => hdis i c ci), depthOf_none f j (fun c => hdis j c cj), hx]
      exact ⟨x, rfl, by linarith [h.2.2.2.1, h.2.2.2.2]⟩

/-- across the root the distance is exactly twice the height -/
theorem ultra_cross (f g : NT α) (lf lg : α) (h : NT.Ultra (.node f lf g lg)) (hnd : (NT.leafIds (.node f lf g lg)).Nodup)
    (i j : Nat) (hc : (i ∈ NT.leafIds f ∧ j ∈ NT.leafIds g) ∨ (i ∈ NT.leafIds g ∧ j ∈ NT.leafIds f)) :
    NT.dmat (.node f lf g lg) i j = 2 * NT.height (.node f lf g lg) := by
  simp only [NT.leafIds] at hnd
  have hnd' := List.nodup_append.mp hnd
  have hdis : ∀ a ∈ NT.leafIds f, a ∉ NT.leafIds g := fun a ha hb => hnd'.2.2 a ha a hb rfl
  simp only [NT.dmat, NT.dist, NT.height]
  rcases hc with ⟨ci, cj⟩ | ⟨ci, cj⟩
  · simp only [ultra_depth f h.1 i ci, depthOf_none f j (fun c => hdis j c cj), ultra_depth g h.2.1 j cj]
    linarith [h.2.2.2.2]
  · simp only [depthOf_none f i (fun c => hdis i c ci), ultra_depth f h.1 j cj, ultra_depth g h.2.1 i ci]
    linarith [h.2.2.2.2]

theorem dmat_left (f g : NT α) (lf lg : α) (i j : Nat) (hi : i ∈ NT.leafIds f) (hj : j ∈ NT.leafIds f) :
    NT.dmat (.node f lf g lg) i j = NT.dmat f i j := by
  obtain ⟨x, hx⟩ := depthOf_some f i hi
  obtain ⟨y, hy⟩ := depthOf_some f j hj
  simp [NT.dmat, NT.dist, hx, hy]

theorem dmat_right (f g : NT α) (lf lg : α) (i j : Nat) (hi : i ∉ NT.leafIds f) (hj : j ∉ NT.leafIds f) :
    NT.dmat (.node f lf g lg) i j = NT.dmat g i j := by
  simp [NT.dmat, NT.dist, depthOf_none f i hi, depthOf_none f j hj]

theorem dmat_le (t : NT α) (h : NT.Ultra t) (hnd : (NT.leafIds t).Nodup) (i j : Nat) (hi : i ∈ NT.leafIds t)
    (hj : j ∈ NT.leafIds t) (hij : i ≠ j) : NT.dmat t i j ≤ 2 * NT.height t := by
  obtain ⟨x, hx, hle⟩ := ultra_dist_le t h hnd i hi j hj hij
  simp [NT.dmat, hx, hle]
end Aux

/-- (d) the distances of an ultrametric tree satisfy the strong triangle inequality -/
theorem ultra_three_point : ∀ (t : NT α), NT.Ultra t → (NT.leafIds t).Nodup →
    ∀ i ∈ NT.leafIds t, ∀ j ∈ NT.leafIds t, ∀ k ∈ NT.leafIds t, i ≠ j → j ≠ k → i ≠ k →
      NT.dmat t i k ≤ max (NT.dmat t i j) (NT.dmat t j k)
  | .leaf l, _, _, i, hi, j, hj, _, _, hij, _, _ => by
    simp [NT.leafIds] at hi hj; exact absurd (hi.trans hj.symm) hij
  | .node f lf g lg, h, hnd, i, hi, j, hj, k, hk, hij, hjk, hik => by
    have hnd0 := hnd
    simp only [NT.leafIds] at hnd hi hj hk
    have hnd' := List.nodup_append.mp hnd
    have hdis : ∀ a ∈ NT.leafIds f, a ∉ NT.leafIds g := fun a ha hb => hnd'.2.2 a ha a hb rfl
    have top : ∀ a b, a ∈ NT.leafIds f ++ NT.leafIds g → b ∈ NT.leafIds f ++ NT.leafIds g → a ≠ b →
        NT.dmat (.node f lf g lg) a b ≤ 2 * NT.height (.node f lf g lg) :=
      fun a b ha hb hab => dmat_le _ h hnd0 a b (by simpa [NT.leafIds] using ha) (by simpa [NT.leafIds] using hb) hab
    rcases List.mem_append.mp hi with ci | ci <;> rcases List.mem_append.mp hj with cj | cj <;>
      rcases List.mem_append.mp hk with ck | ck
    · rw [dmat_left f g lf lg i k ci ck, dmat_left f g lf lg i j ci cj, dmat_left f g lf lg j k cj ck]
      exact ultra_three_point f h.1 hnd'.1 i ci j cj k ck hij hjk hik
    · rw [ultra_cross f g lf lg h hnd0 i k (Or.inl ⟨ci, ck⟩), ultra_cross f g lf lg h hnd0 j k (Or.inl ⟨cj, ck⟩)]
      exact le_max_right _ _
    · rw [ultra_cross f g lf lg h hnd0 i j (Or.inl ⟨ci, cj⟩)]
      exact le_trans (top i k hi hk hik) (le_max_left _ _)
    · rw [ultra_cross f g lf lg h hnd0 i k (Or.inl ⟨ci, ck⟩), ultra_cross f g lf lg h hnd0 i j (Or.inl ⟨ci, cj⟩)]
      exact le_max_left _ _
    · rw [ultra_cross f g lf lg h hnd0 i k (Or.inr ⟨ci, ck⟩), ultra_cross f g lf lg h hnd0 i j (Or.inr ⟨ci, cj⟩)]
      exact le_max_left _ _
    · rw [ultra_cross f g lf lg h hnd0 i j (Or.inr ⟨ci, cj⟩)]
      exact le_trans (top i k hi hk hik) (le_max_left _ _)
    · rw [ultra_cross f g lf lg h hnd0 i k (Or.inr ⟨ci, ck⟩), ultra_cross f g lf lg h hnd0 j k (Or.inr ⟨cj, ck⟩)]
      exact le_max_right _ _
    · have ni := fun c => hdis i c ci; have nj := fun c => hdis j c cj; have nk := fun c => hdis k c ck
      rw [dmat_right f g lf lg i k ni nk, dmat_right f g lf lg i j ni nj, dmat_right f g lf lg j k nj nk]
      exact ultra_three_point g h.2.1 hnd'.2.1 i ci j cj k ck hij hjk hik
end ultratree


section ultratree2
variable {α : Type} [Field α] [LinearOrder α] [IsStrictOrderedRing α]

namespace Aux
theorem dist_symm : ∀ (t : NT α) (i j : Nat), NT.dist t i j = NT.dist t j i
  | .leaf _, _, _ => rfl
  | .node f lf g lg, i, j => by
    simp only [NT.dist]
    cases hi : NT.depthOf f i <;> cases hj : NT.depthOf f j <;> simp only
    · exact dist_symm g i j
    · cases NT.depthOf g i <;> simp [add_comm]
    · cases NT.depthOf g j <;> simp [add_comm]
    · exact dist_symm f i j
end Aux

/-- (d) `upgma_inverts_ultrametric_tree` — UPGMA applied to the distances of an ultrametric tree.  For every ultrametric rooted
binary tree `src` on the taxa `0 … n-1` (non-negative edge lengths; zero-length edges, i.e. unresolved nodes, allowed),
`upgma_tree` run on the path-length matrix of `src` returns a tree on the same taxa in which every two taxa are exactly as far
apart as in `src`, and which is again ultrametric (one depth for all leaves). -/
theorem upgma_inverts_ultrametric_tree [CharZero α] (n : Nat) (src : NT α) (hu : NT.Ultra src)
    (hnd : (NT.leafIds src).Nodup) (hl : (NT.leafIds src).Perm (List.range n)) :
    ∃ r, upgmaTree n (NT.dmat src) = some r ∧ (NT.leafIds r).Perm (List.range n) ∧
      (∀ i < n, ∀ j < n, i ≠ j → NT.dist r i j = NT.dist src i j) ∧
      ∃ H : α, ∀ i < n, NT.depthOf r i = some H := by
  have hmem : ∀ i, i < n → i ∈ NT.leafIds src := fun i hi => hl.mem_iff.mpr (List.mem_range.mpr hi)
  have hn : 1 ≤ n := by
    have := List.length_pos_iff.mpr (leafIds_ne_nil src)
    rw [hl.length_eq, List.length_range] at this; exact this
  have hD : ∀ i j, (upInit n (NT.dmat src)).d i j = NT.dmat src i j := by
    intro i j
    simp only [upInit]
    split
    · rfl
    · simp only [NT.dmat, dist_symm src j i]
  obtain ⟨r, hr, hp, hd, hH⟩ := upgma_realises n (NT.dmat src) hn (by
    intro i j k hi hj hk hij hjk hik
    rw [hD, hD, hD]
    exact ultra_three_point src hu hnd i (hmem i hi) j (hmem j hj) k (hmem k hk) hij hjk hik)
  refine ⟨r, hr, hp, ?_, hH⟩
  intro i hi j hj hij
  rw [hd i hi j hj hij, hD]
  obtain ⟨x, hx, _⟩ := ultra_dist_le src hu hnd i (hmem i hi) j (hmem j hj) hij
  simp [NT.dmat, hx]
end ultratree2

/-- non-vacuity: ((0:1,1:1):1,2:2) -/
example := upgma_inverts_ultrametric_tree (α := ℚ) 3 (.node (.node (.leaf 0) 1 (.leaf 1) 1) 1 (.leaf 2) 2)
  (by simp [NT.Ultra, NT.height]; norm_num) (by decide) (by decide)


/-! ### the summaries at the driver's own type: both weightings, mean pairwise and mean nearest taxon -/
section sumnat
variable {κ α β : Type} [DecidableEq κ]
variable [Zero α] [Add α] [Sub α] [Mul α] [Div α] [NatCast α] [LT α] [DecidableRel (α := α) (· < ·)]
variable [Zero β] [Add β] [Sub β] [Mul β] [Div β] [NatCast β] [LT β] [DecidableRel (α := β) (· < ·)]

namespace Aux
theorem selVal_nat (φ : α → β) (hφ : IsNumHom φ) (w : Bool) (e : Entry κ α) : selVal w (mapE φ e) = φ (selVal w e) := by
  cases w <;> simp [selVal, mapE, hφ.natCast]

theorem meanOf_nat (φ : α → β) (hφ : IsNumHom φ) (norm : α) (l : List α) :
    meanOf (φ norm) (l.map φ) = (meanOf norm l).map φ := by
  simp only [meanOf, List.isEmpty_map, List.length_map]
  split
  · rfl
  · simp only [Option.map_some, hφ.div, hφ.natCast, sum_hom φ hφ.zero hφ.add l]

theorem minList_nat (φ : α → β) (hφ : IsNumHom φ) : ∀ (ds : List α) (m : α), minList (φ m) (ds.map φ) = φ (minList m ds)
  | [], m => rfl
  | d :: ds, m => by
    simp only [List.map_cons, minList]
    by_cases h : d < m
    · have h' : φ d < φ m := (hφ.lt _ _).mp h
      simp only [h, h', if_true]; exact minList_nat φ hφ ds d
    · have h' : ¬ φ d < φ m := fun c => h ((hφ.lt _ _).mpr c)
      simp only [h, h', if_false]; exact minList_nat φ hφ ds m

theorem cellOf_nat (φ : α → β) (hφ : IsNumHom φ) (w : Bool) (tbl : List (Entry κ α)) (a b : κ) :
    cellOf (selVal w) (tbl.map (mapE φ)) a b = φ (cellOf (selVal w) tbl a b) := by
  simp only [cellOf, List.find?_map]
  have hfun : ((fun e : Entry κ β => decide (e.a = a ∧ e.b = b)) ∘ mapE φ) = fun e : Entry κ α => decide (e.a = a ∧ e.b = b) := rfl
  rw [hfun]
  cases tbl.find? (fun e => decide (e.a = a ∧ e.b = b)) with
  | none => simp [hφ.zero]
  | some e => simp [selVal_nat φ hφ]

theorem meanNearest_nat (φ : α → β) (hφ : IsNumHom φ) (cell : κ → κ → α) (cell' : κ → κ → β)
    (hc : ∀ a b, cell' a b = φ (cell a b)) (norm : α) (keep : κ → Bool) (taxa : List κ) :
    meanNearest cell' (φ norm) keep taxa = (meanNearest cell norm keep taxa).map φ := by
  simp only [meanNearest]
  rw [← meanOf_nat φ hφ]
  congr 1
  rw [List.map_filterMap]
  apply List.filterMap_congr
  intro a _
  cases (taxa.filter keep).filter (fun b => b ≠ a) with
  | nil => rfl
  | cons b bs =>
    simp only [Option.map_some, hc]
    rw [← minList_nat φ hφ, List.map_map]
    congr 2
    exact List.map_congr_left (fun c _ => by simp [hc])

theorem pairValues_nat (φ : α → β) (hφ : IsNumHom φ) (w : Bool) (keep : κ → Bool) (es : List (Entry κ α)) :
    pairValues (selVal w) keep (es.map (mapE φ)) = (pairValues (selVal w) keep es).map φ := by
  simp only [pairValues, List.filter_map, List.map_map]
  apply List.map_congr_left
  intro e _
  exact selVal_nat φ hφ w e

theorem meanPairwise_nat (φ : α → β) (hφ : IsNumHom φ) (w : Bool) (norm : α) (keep : κ → Bool) (es : List (Entry κ α)) :
    meanPairwise (selVal w) (φ norm) keep (es.map (mapE φ)) = (meanPairwise (selVal w) norm keep es).map φ := by
  simp only [meanPairwise, pairValues_nat φ hφ, meanOf_nat φ hφ]
end Aux
end sumnat


/-- the path value a weighting reads: the length (`weighted`) or the number of edges -/
def gsel {α : Type} [NatCast α] (weighted : Bool) (r : α × Nat × Nat) : α := if weighted then r.1 else ((r.2.1 : Nat) : α)

namespace Aux
theorem selVal_gsel {κ α : Type} [NatCast α] (w : Bool) :
    (selVal w : Entry κ α → α) = fun e => gsel w (e.d, e.steps, e.mrca) := by
  funext e; cases w <;> simp [selVal, gsel]

theorem map_rat_val {γ : Type} (o : Option VFrac) : (o.map VFrac.val).map toRat = o.map VFrac.rat := by
  cases o <;> rfl
end Aux

/-- (b, at the driver's own type, both weightings) `frac_mean_pairwise_both`: what `drv_c14` prints for `summ mpd` — weighted or
edge-count, any filter, any normalisation factor that denotes a number — denotes the explicit mean of the unique-path
values (computed in ℚ) over the retained unordered pairs; `Null` exactly when no pair is retained. -/
theorem frac_mean_pairwise_both (w : Bool) (t : T) (h : Good taxonKey t) (norm : Frac) (hn : norm.den ≠ 0) (keep : Nat → Bool) :
    (meanPairwise (selVal w) norm keep (entries fracLen taxonKey t)).map toRat =
      let L := ((pairsOf (t.leaves.map taxonKey)).filter fun p => keep p.1 && keep p.2).map
        (pathVal (gsel w) ratLen taxonKey t)
      if L = [] then none else some ((L.sum / toRat norm) / (L.length : ℚ)) := by
  have hq := mean_pairwise_spec (α := ℚ) (gsel w) ratLen taxonKey t h (toRat norm) keep
  simp only at hq
  rw [← hq, ← selVal_gsel]
  have e1 : entries fracLen taxonKey t = (entries fracLenV taxonKey t).map (mapE VFrac.val) :=
    entries_nat VFrac.val VFrac.val_hom fracLenV taxonKey t
  have e2 : entries ratLen taxonKey t = (entries fracLenV taxonKey t).map (mapE VFrac.rat) :=
    entries_nat VFrac.rat VFrac.rat_hom fracLenV taxonKey t
  let normV : VFrac := ⟨norm, hn⟩
  have a1 := meanPairwise_nat VFrac.val VFrac.val_num w normV keep (entries fracLenV taxonKey t)
  have a2 := meanPairwise_nat VFrac.rat VFrac.rat_num w normV keep (entries fracLenV taxonKey t)
  rw [← e1] at a1
  rw [← e2] at a2
  change meanPairwise (selVal w) norm keep (entries fracLen taxonKey t) = _ at a1
  change meanPairwise (selVal w) (toRat norm) keep (entries ratLen taxonKey t) = _ at a2
  rw [a1, a2, map_rat_val (γ := Nat)]

/-- (b, at the driver's own type, both weightings) `frac_mntd`: what `drv_c14` prints for `summ mntd` denotes the mean, over the
retained taxa, of the minimum unique-path value (computed in ℚ) to the other retained taxa. -/
theorem frac_mntd (w : Bool) (t : T) (h : Good taxonKey t) (norm : Frac) (hn : norm.den ≠ 0) (keep : Nat → Bool) :
    (meanNearest (cellOf (selVal w) (table fracLen taxonKey t)) norm keep (mapped taxonKey t)).map toRat =
      meanNearest (fun a b => pathVal (gsel w) ratLen taxonKey t (a, b)) (toRat norm) keep (mapped taxonKey t) := by
  have hq := mntd_spec (α := ℚ) (gsel w) ratLen taxonKey t h (toRat norm) keep
  rw [← hq, ← selVal_gsel]
  have e1 : table fracLen taxonKey t = (table fracLenV taxonKey t).map (mapE VFrac.val) :=
    table_nat VFrac.val VFrac.val_hom fracLenV taxonKey t
  have e2 : table ratLen taxonKey t = (table fracLenV taxonKey t).map (mapE VFrac.rat) :=
    table_nat VFrac.rat VFrac.rat_hom fracLenV taxonKey t
  let normV : VFrac := ⟨norm, hn⟩
  have a1 := meanNearest_nat VFrac.val VFrac.val_num (cellOf (selVal w) (table fracLenV taxonKey t))
    (cellOf (selVal w) (table fracLen taxonKey t)) (fun a b => by rw [e1]; exact cellOf_nat VFrac.val VFrac.val_num w _ a b)
    normV keep (mapped taxonKey t)
  have a2 := meanNearest_nat VFrac.rat VFrac.rat_num (cellOf (selVal w) (table fracLenV taxonKey t))
    (cellOf (selVal w) (table ratLen taxonKey t)) (fun a b => by rw [e2]; exact cellOf_nat VFrac.rat VFrac.rat_num w _ a b)
    normV keep (mapped taxonKey t)
  change meanNearest _ norm keep _ = _ at a1
  change meanNearest _ (toRat norm) keep _ = _ at a2
  rw [a1, a2, map_rat_val (γ := Nat)]

example := frac_mean_pairwise_both false exTree (by unfold Good; decide) Frac.one (by decide) (fun _ => true)
example := frac_mntd true exTree (by unfold Good; decide) Frac.one (by decide) (fun k => k != 2)
example := frac_mntd false exTree (by unfold Good; decide) (Frac.ofNat 7) (by decide) (fun _ => true)


/-! ### uniqueness: an ultrametric tree with positive internal edges is determined by its distances -/
section unique
variable {α : Type}

/-- same tree up to swapping the two children of any node (edge lengths move with their child) -/
inductive NT.Iso : NT α → NT α → Prop
  | leaf (i : Nat) : NT.Iso (.leaf i) (.leaf i)
  | same {f g f' g' : NT α} (lf lg : α) : NT.Iso f f' → NT.Iso g g' → NT.Iso (.node f lf g lg) (.node f' lf g' lg)
  | swap {f g f' g' : NT α} (lf lg : α) : NT.Iso f g' → NT.Iso g f' → NT.Iso (.node f lf g lg) (.node f' lg g' lf)

variable [Field α] [LinearOrder α] [IsStrictOrderedRing α]

/-- every edge above an internal node is strictly positive ("positive internal edge lengths") -/
def NT.PosInternal : NT α → Prop
  | .leaf _ => True
  | .node f lf g lg => NT.PosInternal f ∧ NT.PosInternal g ∧
      ((∃ i, f = .leaf i) ∨ 0 < lf) ∧ ((∃ i, g = .leaf i) ∨ 0 < lg)

/-- all leaves of `t` are at depth `H` -/
def NT.Level (t : NT α) (H : α) : Prop := ∀ i ∈ NT.leafIds t, NT.depthOf t i = some H

namespace Aux
theorem iso_mem {r s : NT α} (h : NT.Iso r s) : ∀ i, i ∈ NT.leafIds r ↔ i ∈ NT.leafIds s := by
  induction h with
  | leaf i => intro j; rfl
  | same lf lg _ _ ih1 ih2 => intro i; simp [NT.leafIds, ih1 i, ih2 i]
  | swap lf lg _ _ ih1 ih2 => intro i; simp [NT.leafIds, ih1 i, ih2 i, or_comm]

theorem level_children (f g : NT α) (lf lg H : α) (hnd : (NT.leafIds (.node f lf g lg)).Nodup)
    (h : NT.Level (.node f lf g lg) H) : NT.Level f (H - lf) ∧ NT.Level g (H - lg) := by
  simp only [NT.leafIds] at hnd
  have hnd' := List.nodup_append.mp hnd
  constructor
  · intro i hi
    have := h i (by simp [NT.leafIds, hi])
    obtain ⟨x, hx⟩ := depthOf_some f i hi
    simp only [NT.depthOf, hx, Option.some.injEq] at this
    rw [hx]; congr 1; linarith
  · intro i hi
    have hni : i ∉ NT.leafIds f := fun c => hnd'.2.2 i c i hi rfl
    have := h i (by simp [NT.leafIds, hi])
    obtain ⟨x, hx⟩ := depthOf_some g i hi
    simp only [NT.depthOf, depthOf_none f i hni, hx, Option.some.injEq] at this
    rw [hx]; congr 1; linarith

/-- in a level tree, leaves on different sides of the root are `2H` apart -/
theorem level_cross (f g : NT α) (lf lg H : α) (hnd : (NT.leafIds (.node f lf g lg)).Nodup)
    (h : NT.Level (.node f lf g lg) H) (i j : Nat) (hi : i ∈ NT.leafIds f) (hj : j ∈ NT.leafIds g) :
    NT.dmat (.node f lf g lg) i j = 2 * H := by
  have hc := level_children f g lf lg H hnd h
  simp only [NT.leafIds] at hnd
  have hnd' := List.nodup_append.mp hnd
  have hnj : j ∉ NT.leafIds f := fun c => hnd'.2.2 j c j hj rfl
  simp only [NT.dmat, NT.dist, hc.1 i hi, depthOf_none f j hnj, hc.2 j hj]
  ring

theorem ultra_level (t : NT α) (h : NT.Ultra t) : NT.Level t (NT.height t) := fun i hi => ultra_depth t h i hi

/-- the two sides of the root of a positive ultrametric tree are told apart by the distance: `2·height` exactly across -/
theorem pos_within_lt (f g : NT α) (lf lg : α) (h : NT.Ultra (.node f lf g lg)) (hp : NT.PosInternal (.node f lf g lg))
    (hnd : (NT.leafIds (.node f lf g lg)).Nodup) (i j : Nat) (hij : i ≠ j)
    (hs : (i ∈ NT.leafIds f ∧ j ∈ NT.leafIds f) ∨ (i ∈ NT.leafIds g ∧ j ∈ NT.leafIds g)) :
    NT.dmat (.node f lf g lg) i j < 2 * NT.height (.node f lf g lg) := by
  simp only [NT.leafIds] at hnd
  have hnd' := List.nodup_append.mp hnd
  have hdis : ∀ a ∈ NT.leafIds f, a ∉ NT.leafIds g := fun a ha hb => hnd'.2.2 a ha a hb rfl
  rcases hs with ⟨ci, cj⟩ | ⟨ci, cj⟩
  · rw [dmat_left f g lf lg i j ci cj]
    have hle := dmat_le f h.1 hnd'.1 i j ci cj hij
    have hpos : 0 < lf := by
      rcases hp.2.2.1 with ⟨k, rfl⟩ | hpos
      · simp [NT.leafIds] at ci cj; exact absurd (ci.trans cj.symm) hij
      · exact hpos
    simp only [NT.height]; linarith
  · rw [dmat_right f g lf lg i j (fun c => hdis i c ci) (fun c => hdis j c cj)]
    have hle := dmat_le g h.2.1 hnd'.2.1 i j ci cj hij
    have hpos : 0 < lg := by
      rcases hp.2.2.2 with ⟨k, rfl⟩ | hpos
      · simp [NT.leafIds] at ci cj; exact absurd (ci.trans cj.symm) hij
      · exact hpos
    simp only [NT.height]; rw [h.2.2.2.2]; linarith
end Aux
end unique


section unique2
variable {α : Type} [Field α] [LinearOrder α] [IsStrictOrderedRing α]

/-- (d) `ultra_unique`: an ultrametric binary tree with positive internal edge lengths is determined, up to swapping children, by
its leaf set and its pairwise path lengths: any tree `r` whose leaves are all at one depth `H`, with the same leaves and the
same distances, is isomorphic to it (edge lengths included), and `H` is its height. -/
theorem ultra_unique : ∀ (src : NT α), NT.Ultra src → NT.PosInternal src → (NT.leafIds src).Nodup →
    ∀ (r : NT α) (H : α), NT.Level r H → (NT.leafIds r).Nodup → (∀ i, i ∈ NT.leafIds r ↔ i ∈ NT.leafIds src) →
    (∀ i ∈ NT.leafIds src, ∀ j ∈ NT.leafIds src, i ≠ j → NT.dmat r i j = NT.dmat src i j) →
    NT.Iso src r ∧ H = NT.height src
  | .leaf k, _, _, _, r, H, hlev, hndr, hmem, _ => by
    cases r with
    | leaf j =>
      have : j = k := by have := (hmem j).mp (by simp [NT.leafIds]); simpa [NT.leafIds] using this
      subst this
      refine ⟨NT.Iso.leaf _, ?_⟩
      have := hlev j (by simp [NT.leafIds])
      simp [NT.depthOf] at this; simp [NT.height, this]
    | node f' lf' g' lg' =>
      exfalso
      obtain ⟨a, ha⟩ := List.exists_mem_of_ne_nil _ (leafIds_ne_nil f')
      obtain ⟨b, hb⟩ := List.exists_mem_of_ne_nil _ (leafIds_ne_nil g')
      have ha' := (hmem a).mp (by simp [NT.leafIds, ha])
      have hb' := (hmem b).mp (by simp [NT.leafIds, hb])
      simp [NT.leafIds] at ha' hb'
      simp only [NT.leafIds] at hndr
      exact (List.nodup_append.mp hndr).2.2 a ha b hb (ha'.trans hb'.symm)
  | .node f lf g lg, hu, hp, hnd, r, H, hlev, hndr, hmem, hdist => by
    have hnd0 := hnd
    simp only [NT.leafIds] at hnd
    have hnd' := List.nodup_append.mp hnd
    have hdis : ∀ a ∈ NT.leafIds f, a ∉ NT.leafIds g := fun a ha hb => hnd'.2.2 a ha a hb rfl
    obtain ⟨a0, ha0⟩ := List.exists_mem_of_ne_nil _ (leafIds_ne_nil f)
    obtain ⟨b0, hb0⟩ := List.exists_mem_of_ne_nil _ (leafIds_ne_nil g)
    cases r with
    | leaf j =>
      exfalso
      have h1 := (hmem a0).mpr (by simp [NT.leafIds, ha0])
      have h2 := (hmem b0).mpr (by simp [NT.leafIds, hb0])
      simp [NT.leafIds] at h1 h2
      exact hdis a0 ha0 (h1.trans h2.symm ▸ hb0)
    | node f' lf' g' lg' =>
      have hndr0 := hndr
      simp only [NT.leafIds] at hndr
      have hndr' := List.nodup_append.mp hndr
      have hdis' : ∀ a ∈ NT.leafIds f', a ∉ NT.leafIds g' := fun a ha hb => hndr'.2.2 a ha a hb rfl
      obtain ⟨i0, hi0⟩ := List.exists_mem_of_ne_nil _ (leafIds_ne_nil f')
      obtain ⟨j0, hj0⟩ := List.exists_mem_of_ne_nil _ (leafIds_ne_nil g')
      have inS : ∀ x, (x ∈ NT.leafIds f' ∨ x ∈ NT.leafIds g') → (x ∈ NT.leafIds f ∨ x ∈ NT.leafIds g) := fun x hx => by
        have := (hmem x).mp (by simpa [NT.leafIds] using hx); simpa [NT.leafIds] using this
      have inR : ∀ x, (x ∈ NT.leafIds f ∨ x ∈ NT.leafIds g) → (x ∈ NT.leafIds f' ∨ x ∈ NT.leafIds g') := fun x hx => by
        have := (hmem x).mpr (by simpa [NT.leafIds] using hx); simpa [NT.leafIds] using this
      set Hs := NT.height (.node f lf g lg) with hHs
      -- cross pairs of r are 2H apart, in r and hence in src
      have cross : ∀ i ∈ NT.leafIds f', ∀ j ∈ NT.leafIds g', NT.dmat (.node f lf g lg) i j = 2 * H := by
        intro i hi j hj
        have hij : i ≠ j := fun e => hdis' i hi (e ▸ hj)
        rw [← hdist i (by simpa [NT.leafIds] using inS i (Or.inl hi)) j (by simpa [NT.leafIds] using inS j (Or.inr hj)) hij]
        exact level_cross f' g' lf' lg' H hndr0 hlev i j hi hj
      have sameSide_lt : ∀ i j, i ≠ j → ((i ∈ NT.leafIds f ∧ j ∈ NT.leafIds f) ∨ (i ∈ NT.leafIds g ∧ j ∈ NT.leafIds g)) →
          NT.dmat (.node f lf g lg) i j < 2 * Hs := fun i j hij hs => pos_within_lt f g lf lg hu hp hnd0 i j hij hs
      have crossS : ∀ i j, ((i ∈ NT.leafIds f ∧ j ∈ NT.leafIds g) ∨ (i ∈ NT.leafIds g ∧ j ∈ NT.leafIds f)) →
          NT.dmat (.node f lf g lg) i j = 2 * Hs := fun i j hc => ultra_cross f g lf lg hu hnd0 i j hc
      -- H = Hs
      have hHeq : H = Hs := by
        have hle : 2 * H ≤ 2 * Hs := by
          rw [← cross i0 hi0 j0 hj0]
          exact dmat_le _ hu hnd0 i0 j0 (by simpa [NT.leafIds] using inS i0 (Or.inl hi0))
            (by simpa [NT.leafIds] using inS j0 (Or.inr hj0)) (fun e => hdis' i0 hi0 (e ▸ hj0))
        by_contra hne
        have hlt : 2 * H < 2 * Hs := lt_of_le_of_ne hle (fun e => hne (by linarith))
        -- then no cross pair of r is a cross pair of src
        have nocross : ∀ i ∈ NT.leafIds f', ∀ j ∈ NT.leafIds g',
            ¬ ((i ∈ NT.leafIds f ∧ j ∈ NT.leafIds g) ∨ (i ∈ NT.leafIds g ∧ j ∈ NT.leafIds f)) := by
          intro i hi j hj hc
          have := crossS i j hc; rw [cross i hi j hj] at this; linarith
        -- a0 ∈ f and b0 ∈ g lie in r; derive a contradiction by cases
        have sideEq : ∀ i ∈ NT.leafIds f', ∀ j ∈ NT.leafIds g', (i ∈ NT.leafIds f ↔ j ∈ NT.leafIds f) := by
          intro i hi j hj
          have hn := nocross i hi j hj
          rcases inS i (Or.inl hi) with ci | ci <;> rcases inS j (Or.inr hj) with cj | cj
          · exact ⟨fun _ => cj, fun _ => ci⟩
          · exact absurd (Or.inl ⟨ci, cj⟩) hn
          · exact absurd (Or.inr ⟨ci, cj⟩) hn
          · exact ⟨fun c => absurd ci (hdis i c), fun c => absurd cj (hdis j c)⟩
        have allSame : ∀ x, (x ∈ NT.leafIds f' ∨ x ∈ NT.leafIds g') → (x ∈ NT.leafIds f ↔ i0 ∈ NT.leafIds f) := by
          intro x hx
          rcases hx with hx | hx
          · exact (sideEq x hx j0 hj0).trans (sideEq i0 hi0 j0 hj0).symm
          · exact (sideEq i0 hi0 x hx).symm
        have ha := allSame a0 (inR a0 (Or.inl ha0))
        have hb := allSame b0 (inR b0 (Or.inr hb0))
        exact hdis b0 (hb.mpr (ha.mp ha0)) hb0
      -- cross pairs of r are cross pairs of src
      have isCross : ∀ i ∈ NT.leafIds f', ∀ j ∈ NT.leafIds g',
          (i ∈ NT.leafIds f ∧ j ∈ NT.leafIds g) ∨ (i ∈ NT.leafIds g ∧ j ∈ NT.leafIds f) := by
        intro i hi j hj
        have hij : i ≠ j := fun e => hdis' i hi (e ▸ hj)
        have hd := cross i hi j hj
        rw [hHeq] at hd
        rcases inS i (Or.inl hi) with ci | ci <;> rcases inS j (Or.inr hj) with cj | cj
        · have := sameSide_lt i j hij (Or.inl ⟨ci, cj⟩); rw [hd] at this; exact absurd this (lt_irrefl _)
        · exact Or.inl ⟨ci, cj⟩
        · exact Or.inr ⟨ci, cj⟩
        · have := sameSide_lt i j hij (Or.inr ⟨ci, cj⟩); rw [hd] at this; exact absurd this (lt_irrefl _)
      have hlc := level_children f' g' lf' lg' H hndr0 hlev
      have hheight : Hs = NT.height f + lf := rfl
      have hheight' : Hs = NT.height g + lg := by rw [hheight]; exact hu.2.2.2.2
      rcases inS i0 (Or.inl hi0) with c0 | c0
      · -- f' = f, g' = g
        have hj0g : j0 ∈ NT.leafIds g := by
          rcases isCross i0 hi0 j0 hj0 with h | h
          · exact h.2
          · exact absurd c0 (fun c => hdis i0 c h.1)
        have sub1 : ∀ i ∈ NT.leafIds f', i ∈ NT.leafIds f := fun i hi => by
          rcases isCross i hi j0 hj0 with h | h
          · exact h.1
          · exact absurd h.2 (fun c => hdis j0 c hj0g)
        have sub2 : ∀ j ∈ NT.leafIds g', j ∈ NT.leafIds g := fun j hj => by
          rcases isCross i0 hi0 j hj with h | h
          · exact h.2
          · exact absurd c0 (fun c => hdis i0 c h.1)
        have m1 : ∀ i, i ∈ NT.leafIds f' ↔ i ∈ NT.leafIds f := fun i => ⟨sub1 i, fun hi => by
          rcases inR i (Or.inl hi) with h | h
          · exact h
          · exact absurd (sub2 i h) (hdis i hi)⟩
        have m2 : ∀ i, i ∈ NT.leafIds g' ↔ i ∈ NT.leafIds g := fun i => ⟨sub2 i, fun hi => by
          rcases inR i (Or.inr hi) with h | h
          · exact absurd hi (hdis i (sub1 i h))
          · exact h⟩
        have d1 : ∀ i ∈ NT.leafIds f, ∀ j ∈ NT.leafIds f, i ≠ j → NT.dmat f' i j = NT.dmat f i j := fun i hi j hj hij => by
          have := hdist i (by simp [NT.leafIds, hi]) j (by simp [NT.leafIds, hj]) hij
          rwa [dmat_left f' g' lf' lg' i j ((m1 i).mpr hi) ((m1 j).mpr hj), dmat_left f g lf lg i j hi hj] at this
        have d2 : ∀ i ∈ NT.leafIds g, ∀ j ∈ NT.leafIds g, i ≠ j → NT.dmat g' i j = NT.dmat g i j := fun i hi j hj hij => by
          have := hdist i (by simp [NT.leafIds, hi]) j (by simp [NT.leafIds, hj]) hij
          rwa [dmat_right f' g' lf' lg' i j (fun c => hdis i (sub1 i c) hi) (fun c => hdis j (sub1 j c) hj),
            dmat_right f g lf lg i j (fun c => hdis i c hi) (fun c => hdis j c hj)] at this
        obtain ⟨iso1, e1⟩ := ultra_unique f hu.1 hp.1 hnd'.1 f' (H - lf') hlc.1 hndr'.1 m1 d1
        obtain ⟨iso2, e2⟩ := ultra_unique g hu.2.1 hp.2.1 hnd'.2.1 g' (H - lg') hlc.2 hndr'.2.1 m2 d2
        have el1 : lf' = lf := by linarith
        have el2 : lg' = lg := by linarith
        subst el1; subst el2
        exact ⟨NT.Iso.same _ _ iso1 iso2, hHeq⟩
      · -- f' = g, g' = f
        have hj0f : j0 ∈ NT.leafIds f := by
          rcases isCross i0 hi0 j0 hj0 with h | h
          · exact absurd c0 (hdis i0 h.1)
          · exact h.2
        have sub1 : ∀ i ∈ NT.leafIds f', i ∈ NT.leafIds g := fun i hi => by
          rcases isCross i hi j0 hj0 with h | h
          · exact absurd h.2 (hdis j0 hj0f)
          · exact h.1
        have sub2 : ∀ j ∈ NT.leafIds g', j ∈ NT.leafIds f := fun j hj => by
          rcases isCross i0 hi0 j hj with h | h
          · exact absurd c0 (hdis i0 h.1)
          · exact h.2
        have m1 : ∀ i, i ∈ NT.leafIds f' ↔ i ∈ NT.leafIds g := fun i => ⟨sub1 i, fun hi => by
          rcases inR i (Or.inr hi) with h | h
          · exact h
          · exact absurd hi (hdis i (sub2 i h))⟩
        have m2 : ∀ i, i ∈ NT.leafIds g' ↔ i ∈ NT.leafIds f := fun i => ⟨sub2 i, fun hi => by
          rcases inR i (Or.inl hi) with h | h
          · exact absurd (sub1 i h) (hdis i hi)
          · exact h⟩
        have d1 : ∀ i ∈ NT.leafIds g, ∀ j ∈ NT.leafIds g, i ≠ j → NT.dmat f' i j = NT.dmat g i j := fun i hi j hj hij => by
          have := hdist i (by simp [NT.leafIds, hi]) j (by simp [NT.leafIds, hj]) hij
          rwa [dmat_left f' g' lf' lg' i j ((m1 i).mpr hi) ((m1 j).mpr hj),
            dmat_right f g lf lg i j (fun c => hdis i c hi) (fun c => hdis j c hj)] at this
        have d2 : ∀ i ∈ NT.leafIds f, ∀ j ∈ NT.leafIds f, i ≠ j → NT.dmat g' i j = NT.dmat f i j := fun i hi j hj hij => by
          have := hdist i (by simp [NT.leafIds, hi]) j (by simp [NT.leafIds, hj]) hij
          rwa [dmat_right f' g' lf' lg' i j (fun c => hdis i hi (sub1 i c)) (fun c => hdis j hj (sub1 j c)),
            dmat_left f g lf lg i j hi hj] at this
        obtain ⟨iso1, e1⟩ := ultra_unique g hu.2.1 hp.2.1 hnd'.2.1 f' (H - lf') hlc.1 hndr'.1 m1 d1
        obtain ⟨iso2, e2⟩ := ultra_unique f hu.1 hp.1 hnd'.1 g' (H - lg') hlc.2 hndr'.2.1 m2 d2
        have el1 : lf' = lg := by linarith
        have el2 : lg' = lf := by linarith
        subst el1; subst el2
        exact ⟨NT.Iso.swap _ _ iso2 iso1, hHeq⟩
end unique2


section recover2
variable {α : Type} [Field α] [LinearOrder α] [IsStrictOrderedRing α] [CharZero α]

/-- (d) `upgma_recovers_tree` — the UPGMA clause, topology included.  NOTE the source here is a tree of the *result* type `NT`
(rooted, strictly binary, a length on every child edge) and the matrix is its path-length function `NT.dmat` (`NT.dist` with 0 for
"no path"); `NT.dist` is what the driver evaluates on the trees it returns (op `ntdist`, compared with an independent walk over the
library's result tree), `NT.Ultra` / `NT.Iso` are specification-side only; the composition with clause (a) on the library's own tree shape `T` (polytomies, unary nodes,
`None` lengths; matrix = the compiled `table`) is `upgma_inverts_pdm`, which gives the distances (UPGMA cannot return a polytomy).
For every ultrametric rooted binary tree `src` on the taxa
`0 … n-1` with positive internal edge lengths, `upgma_tree` applied to the path-length matrix of `src` returns `src` itself up
to swapping the two children of nodes — same topology, same edge lengths.  (`upgma_realises` + `ultra_three_point` +
`ultra_unique`; the "minimal pair of an ultrametric is a sibling pair" step is inside `upgma_join_urel`.) -/
theorem upgma_recovers_tree (n : Nat) (src : NT α) (hu : NT.Ultra src) (hp : NT.PosInternal src)
    (hnd : (NT.leafIds src).Nodup) (hl : (NT.leafIds src).Perm (List.range n)) :
    ∃ r, upgmaTree n (NT.dmat src) = some r ∧ NT.Iso src r := by
  obtain ⟨r, hr, hperm, hd, H, hH⟩ := upgma_inverts_ultrametric_tree n src hu hnd hl
  refine ⟨r, hr, ?_⟩
  have hmr : ∀ i, i ∈ NT.leafIds r ↔ i < n := fun i => by rw [hperm.mem_iff, List.mem_range]
  have hms : ∀ i, i ∈ NT.leafIds src ↔ i < n := fun i => by rw [hl.mem_iff, List.mem_range]
  refine (ultra_unique src hu hp hnd r H (fun i hi => hH i ((hmr i).mp hi))
    (hperm.nodup_iff.mpr List.nodup_range) (fun i => (hmr i).trans (hms i).symm) ?_).1
  intro i hi j hj hij
  simp only [NT.dmat, hd i ((hms i).mp hi) j ((hms j).mp hj) hij]
end recover2

/-- non-vacuity: ((0:1,1:1):1,2:2) is returned as it is -/
example := upgma_recovers_tree (α := ℚ) 3 (.node (.node (.leaf 0) 1 (.leaf 1) 1) 1 (.leaf 2) 2)
  (by simp [NT.Ultra, NT.height]; norm_num) (by simp [NT.PosInternal]) (by decide) (by decide)

/-- (d, at the driver's own type) `frac_upgma_recovers_tree`: if the `Frac` matrix handed to `drv_c14` denotes the path lengths of
an ultrametric tree `src` over ℚ with positive internal edges, the tree the driver prints for `upgma` denotes `src` up to
swapping children.  `hM` is required for *all* index pairs: cells on the diagonal and outside the `n` taxa must denote 0 (`NT.dmat`
reads 0 there: `dmat_diag`, `dmat_out`); the driver's matrix reader returns 0 outside and the harness writes a zero diagonal. -/
theorem frac_upgma_recovers_tree (n : Nat) (M : Nat → Nat → Frac) (hv : ∀ a b, (M a b).den ≠ 0) (src : NT ℚ)
    (hM : ∀ a b, toRat (M a b) = NT.dmat src a b) (hu : NT.Ultra src) (hp : NT.PosInternal src)
    (hnd : (NT.leafIds src).Nodup) (hl : (NT.leafIds src).Perm (List.range n)) :
    ∃ r, upgmaTree n M = some r ∧ NT.Iso src (mapNT toRat r) := by
  have hn : 1 ≤ n := by
    have := List.length_pos_iff.mpr (leafIds_ne_nil src)
    rw [hl.length_eq, List.length_range] at this; exact this
  obtain ⟨r, hr, hq, _⟩ := frac_upgma_tree n M hv hn
  obtain ⟨rq, hrq, hiso⟩ := upgma_recovers_tree n src hu hp hnd hl
  have : (fun a b => toRat (M a b)) = NT.dmat src := by funext a b; exact hM a b
  rw [this, hrq] at hq
  injection hq with hq
  exact ⟨r, hr, hq ▸ hiso⟩


/-! ## `treemeasure.patristic_distance`: `Tree.mrca` + two climbs = the unique path length -/
/-- taxa sit on the leaves, and only there (what `find_node(taxon == …)` relies on) -/
def LeafTaxa (t : T) : Prop := ∀ u ∈ t.nodes, (u.cs = [] → u.taxon.isSome) ∧ (u.cs ≠ [] → u.taxon = none)

section tm
variable {α : Type} [AddCommMonoid α] (ℓ : T → α)

namespace Aux
theorem climbAcc_eq (acc : α) (p : List T) : climbAcc ℓ acc p = acc + (p.map ℓ).sum := by
  simp only [climbAcc]
  rw [foldl_add_sum ℓ p.reverse acc, List.map_reverse, List.sum_reverse]

theorem leafTaxa_child {t c : T} (h : LeafTaxa t) (hc : c ∈ t.cs) : LeafTaxa c :=
  fun u hu => h u (nodes_child hc hu)

mutual
/-- the chain below a node down to the leaf of taxon `a` carries exactly the lengths `down` adds up -/
theorem path_down : ∀ (t : T), LeafTaxa t → ∀ a : Nat,
    (∀ r, down ℓ taxonKey t a = some r → ∃ p, pathToTaxon a t = some p ∧ r = ((p.map ℓ).sum + ℓ t, p.length + 1)) ∧
    (down ℓ taxonKey t a = none → pathToTaxon a t = none)
  | .node j x l s [], h, a => by
    have hx := (h _ (nodes_self _)).1 (by simp [T.cs])
    simp only [T.taxon] at hx
    obtain ⟨k, rfl⟩ := Option.isSome_iff_exists.mp hx
    simp only [down, pathToTaxon, pathToTaxonL, taxonKey, T.taxon]
    by_cases hk : k = a
    · subst hk; simp
    · simp [hk]
  | .node j x l s (c :: cs), h, a => by
    have hx := (h _ (nodes_self _)).2 (by simp [T.cs])
    simp only [T.taxon] at hx
    subst hx
    have hch : ∀ c' ∈ c :: cs, LeafTaxa c' := fun c' hc' => leafTaxa_child (t := .node j none l s (c :: cs)) h (by simpa [T.cs] using hc')
    have ih := pathL_down (c :: cs) hch a
    simp only [down, pathToTaxon]
    constructor
    · intro r hr
      cases hd : downL ℓ taxonKey (c :: cs) a with
      | none => simp [hd] at hr
      | some r' =>
        simp only [hd, Option.some.injEq] at hr
        obtain ⟨p, hp, e⟩ := ih.1 r' hd
        refine ⟨p, by simpa using hp, ?_⟩
        rw [← hr, e]
    · intro hn
      cases hd : downL ℓ taxonKey (c :: cs) a with
      | none => simpa using ih.2 hd
      | some r' => simp [hd] at hn
theorem pathL_down : ∀ (cs : List T), (∀ c ∈ cs, LeafTaxa c) → ∀ a : Nat,
    (∀ r, downL ℓ taxonKey cs a = some r → ∃ p, pathToTaxonL a cs = some p ∧ r = ((p.map ℓ).sum, p.length)) ∧
    (downL ℓ taxonKey cs a = none → pathToTaxonL a cs = none)
  | [], _, a => by simp [downL, pathToTaxonL]
  | c :: cs, h, a => by
    have ih1 := path_down c (h c List.mem_cons_self) a
    have ih2 := pathL_down cs (fun c' hc' => h c' (List.mem_cons_of_mem _ hc')) a
    simp only [downL, pathToTaxonL]
    cases hd : down ℓ taxonKey c a with
    | some r =>
      obtain ⟨p, hp, e⟩ := ih1.1 r hd
      simp only [hp]
      refine ⟨fun r' hr' => ⟨c :: p, rfl, ?_⟩, fun hn => by simp at hn⟩
      injection hr' with hr'; rw [← hr', e]; simp [add_comm]
    | none =>
      simp only [ih1.2 hd]
      exact ih2
end

mutual
theorem leafKeys_nodes_sub (key : T → Nat) : ∀ (t u : T), u ∈ t.nodes → ∀ a ∈ leafKeys key u, a ∈ leafKeys key t
  | .node j x l s cs, u, hu, a, ha => by
    simp only [T.nodes, List.mem_cons] at hu
    rcases hu with rfl | hu
    · exact ha
    · cases cs with
      | nil => simp [T.nodesL] at hu
      | cons c cs => rw [leafKeys_node]; exact leafKeysL_nodes_sub key (c :: cs) u hu a ha
theorem leafKeysL_nodes_sub (key : T → Nat) : ∀ (cs : List T) (u : T), u ∈ T.nodesL cs → ∀ a ∈ leafKeys key u, a ∈ leafKeysL key cs
  | [], u, hu, _, _ => by simp [T.nodesL] at hu
  | c :: cs, u, hu, a, ha => by
    simp only [T.nodesL, List.mem_append] at hu
    rw [leafKeysL_cons]
    rcases hu with hu | hu
    · exact List.mem_append_left _ (leafKeys_nodes_sub key c u hu a ha)
    · exact List.mem_append_right _ (leafKeysL_nodes_sub key cs u hu a ha)
end

mutual
/-- the path between two leaves of a subtree is the same in the subtree and in the whole tree -/
theorem turn_descend (key : T → Nat) : ∀ (t : T), (leafKeys key t).Nodup → ∀ u ∈ t.nodes, ∀ a b : Nat,
    a ∈ leafKeys key u → b ∈ leafKeys key u → turn ℓ key t a b = turn ℓ key u a b
  | .node j x l s cs, hnd, u, hu, a, b, ha, hb => by
    simp only [T.nodes, List.mem_cons] at hu
    rcases hu with rfl | hu
    · rfl
    · cases cs with
      | nil => simp [T.nodesL] at hu
      | cons c cs =>
        rw [leafKeys_node] at hnd
        simp only [turn]
        exact turnL_descend key j (c :: cs) hnd u hu a b ha hb
theorem turnL_descend (key : T → Nat) (m : Nat) : ∀ (cs : List T), (leafKeysL key cs).Nodup → ∀ u ∈ T.nodesL cs, ∀ a b : Nat,
    a ∈ leafKeys key u → b ∈ leafKeys key u → turnL ℓ key m cs a b = turn ℓ key u a b
  | [], _, u, hu, _, _, _, _ => by simp [T.nodesL] at hu
  | c :: cs, hnd, u, hu, a, b, ha, hb => by
    simp only [T.nodesL, List.mem_append] at hu
    rw [leafKeysL_cons] at hnd
    have hnd' := List.nodup_append.mp hnd
    rcases hu with hu | hu
    · have hac := leafKeys_nodes_sub key c u hu a ha
      have hbc := leafKeys_nodes_sub key c u hu b hb
      obtain ⟨ra, hra⟩ := Option.isSome_iff_exists.mp ((down_isSome ℓ key c a).mpr hac)
      obtain ⟨rb, hrb⟩ := Option.isSome_iff_exists.mp ((down_isSome ℓ key c b).mpr hbc)
      simp only [turnL, hra, hrb]
      exact turn_descend key c hnd'.1 u hu a b ha hb
    · have hac := leafKeysL_nodes_sub key cs u hu a ha
      have hbc := leafKeysL_nodes_sub key cs u hu b hb
      have na : a ∉ leafKeys key c := fun h' => hnd'.2.2 a h' a hac rfl
      have nb : b ∉ leafKeys key c := fun h' => hnd'.2.2 b h' b hbc rfl
      simp only [turnL, down_none ℓ key na, down_none ℓ key nb]
      exact turnL_descend key m cs hnd'.2.1 u hu a b ha hb
end

/-- at the turning node the path length is the sum of the two descents -/
theorem turnL_at (key : T → Nat) (m : Nat) : ∀ (cs : List T), (leafKeysL key cs).Nodup → ∀ a b : Nat,
    a ∈ leafKeysL key cs → b ∈ leafKeysL key cs → (∀ c ∈ cs, ¬ (a ∈ leafKeys key c ∧ b ∈ leafKeys key c)) →
    ∃ xa xb, downL ℓ key cs a = some xa ∧ downL ℓ key cs b = some xb ∧
      turnL ℓ key m cs a b = some (xa.1 + xb.1, xa.2 + xb.2, m)
  | [], _, a, _, ha, _, _ => by simp [leafKeysL_nil] at ha
  | c :: cs, hnd, a, b, ha, hb, hno => by
    rw [leafKeysL_cons] at hnd ha hb
    have hnd' := List.nodup_append.mp hnd
    have hno' : ∀ c' ∈ cs, ¬ (a ∈ leafKeys key c' ∧ b ∈ leafKeys key c') := fun c' h' => hno c' (List.mem_cons_of_mem _ h')
    rcases List.mem_append.mp ha with ca | ca <;> rcases List.mem_append.mp hb with cb | cb
    · exact absurd ⟨ca, cb⟩ (hno c List.mem_cons_self)
    · obtain ⟨x, hx⟩ := Option.isSome_iff_exists.mp ((down_isSome ℓ key c a).mpr ca)
      have nb : b ∉ leafKeys key c := fun h' => hnd'.2.2 b h' b cb rfl
      obtain ⟨y, hy⟩ := Option.isSome_iff_exists.mp ((downL_isSome ℓ key cs b).mpr cb)
      exact ⟨x, y, by simp [downL, hx], by simp [downL, down_none ℓ key nb, hy],
        by simp [turnL, hx, down_none ℓ key nb, hy]⟩
    · obtain ⟨y, hy⟩ := Option.isSome_iff_exists.mp ((down_isSome ℓ key c b).mpr cb)
      have na : a ∉ leafKeys key c := fun h' => hnd'.2.2 a h' a ca rfl
      obtain ⟨x, hx⟩ := Option.isSome_iff_exists.mp ((downL_isSome ℓ key cs a).mpr ca)
      exact ⟨x, y, by simp [downL, down_none ℓ key na, hx], by simp [downL, hy],
        by simp [turnL, hy, down_none ℓ key na, hx]⟩
    · have na : a ∉ leafKeys key c := fun h' => hnd'.2.2 a h' a ca rfl
      have nb : b ∉ leafKeys key c := fun h' => hnd'.2.2 b h' b cb rfl
      obtain ⟨xa, xb, h1, h2, h3⟩ := turnL_at key m cs hnd'.2.1 a b ca cb hno'
      exact ⟨xa, xb, by simp [downL, down_none ℓ key na, h1], by simp [downL, down_none ℓ key nb, h2],
        by simp [turnL, down_none ℓ key na, down_none ℓ key nb, h3]⟩
end Aux
end tm


namespace Aux
mutual
theorem nodup_sub (key : T → Nat) : ∀ (t : T), (leafKeys key t).Nodup → ∀ u ∈ t.nodes, (leafKeys key u).Nodup
  | .node j x l s cs, hnd, u, hu => by
    simp only [T.nodes, List.mem_cons] at hu
    rcases hu with rfl | hu
    · exact hnd
    · cases cs with
      | nil => simp [T.nodesL] at hu
      | cons c cs => rw [leafKeys_node] at hnd; exact nodupL_sub key (c :: cs) hnd u hu
theorem nodupL_sub (key : T → Nat) : ∀ (cs : List T), (leafKeysL key cs).Nodup → ∀ u ∈ T.nodesL cs, (leafKeys key u).Nodup
  | [], _, u, hu => by simp [T.nodesL] at hu
  | c :: cs, hnd, u, hu => by
    simp only [T.nodesL, List.mem_append] at hu
    rw [leafKeysL_cons] at hnd
    have hnd' := List.nodup_append.mp hnd
    rcases hu with hu | hu
    · exact nodup_sub key c hnd'.1 u hu
    · exact nodupL_sub key cs hnd'.2.1 u hu
end
end Aux

section tm2
variable {α : Type} [AddCommMonoid α] (ℓ : T → α)

/-- (a+c) `treemeasure_climb_spec`: started at the node `r` where the path between the taxa `a ≠ b` turns, the two climbs of
`treemeasure.patristic_distance` exist (each taxon's leaf is below `r`) and their running sum is the length of the unique
path between the two taxa in the whole tree — what the distance matrix stores (`pdm_spec`). -/
theorem treemeasure_climb_spec (t r : T) (a b : Nat) (hab : a ≠ b) (hg : Good taxonKey t) (hlt : LeafTaxa t)
    (hr : r ∈ t.nodes) (hturn : TurnsAt taxonKey r a b) :
    ∃ pa pb, pathToTaxon a r = some pa ∧ pathToTaxon b r = some pb ∧
      ∃ n, turn ℓ taxonKey t a b = some (climbAcc ℓ (climbAcc ℓ 0 pa) pb, n, r.id) := by
  obtain ⟨ha, hb, hno⟩ := hturn
  have hltr : LeafTaxa r := fun u hu => hlt u (nodes_trans t r hr u hu)
  have hndr : (leafKeys taxonKey r).Nodup := by
    exact nodup_sub taxonKey t hg r hr
  rw [turn_descend ℓ taxonKey t hg r hr a b ha hb]
  cases r with
  | node j x l s cs =>
    cases cs with
    | nil =>
      rw [leafKeys_leaf] at ha hb
      simp at ha hb
      exact absurd (ha.trans hb.symm) hab
    | cons c cs =>
      have hx := (hltr _ (nodes_self _)).2 (by simp [T.cs])
      simp only [T.taxon] at hx; subst hx
      rw [leafKeys_node] at ha hb hndr
      obtain ⟨xa, xb, h1, h2, h3⟩ := turnL_at ℓ taxonKey j (c :: cs) hndr a b ha hb (by simpa [T.cs] using hno)
      have hch : ∀ c' ∈ c :: cs, LeafTaxa c' := fun c' hc' =>
        leafTaxa_child (t := .node j none l s (c :: cs)) hltr (by simpa [T.cs] using hc')
      obtain ⟨pa, hpa, ea⟩ := (pathL_down ℓ (c :: cs) hch a).1 xa h1
      obtain ⟨pb, hpb, eb⟩ := (pathL_down ℓ (c :: cs) hch b).1 xb h2
      refine ⟨pa, pb, by simpa [pathToTaxon] using hpa, by simpa [pathToTaxon] using hpb, xa.2 + xb.2, ?_⟩
      simp only [turn, T.id, h3]
      rw [climbAcc_eq, climbAcc_eq, zero_add, ea, eb]
end tm2


namespace Aux
mutual
/-- the leafset bitmask has bit `k` set exactly when taxon `k` is on a leaf below -/
theorem mask_testBit : ∀ (t : T), LeafTaxa t → ∀ k : Nat, t.mask.testBit k = true ↔ k ∈ leafKeys taxonKey t
  | .node j x l s [], h, k => by
    have hx := (h _ (nodes_self _)).1 (by simp [T.cs])
    simp only [T.taxon] at hx
    obtain ⟨k0, rfl⟩ := Option.isSome_iff_exists.mp hx
    rw [leafKeys_leaf]
    simp [T.mask, taxonKey, T.taxon, Nat.one_shiftLeft, Nat.testBit_two_pow, eq_comm]
  | .node j x l s (c :: cs), h, k => by
    rw [leafKeys_node, mask_node]
    exact maskL_testBit (c :: cs)
      (fun c' hc' => leafTaxa_child (t := .node j x l s (c :: cs)) h (by simpa [T.cs] using hc')) k
theorem maskL_testBit : ∀ (cs : List T), (∀ c ∈ cs, LeafTaxa c) → ∀ k : Nat,
    (T.maskL cs).testBit k = true ↔ k ∈ leafKeysL taxonKey cs
  | [], _, k => by simp [T.maskL, leafKeysL_nil]
  | c :: cs, h, k => by
    rw [leafKeysL_cons, List.mem_append, ← mask_testBit c (h c List.mem_cons_self) k,
      ← maskL_testBit cs (fun c' hc' => h c' (List.mem_cons_of_mem _ hc')) k]
    simp [T.maskL, Nat.testBit_or]
end

theorem covers_pair_iff (m a b : Nat) :
    m &&& (1 <<< a ||| 1 <<< b) = (1 <<< a ||| 1 <<< b) ↔ (m.testBit a = true ∧ m.testBit b = true) := by
  constructor
  · intro h
    have ha := congrArg (fun z => z.testBit a) h
    have hb := congrArg (fun z => z.testBit b) h
    simp only [Nat.testBit_and, Nat.testBit_or, Nat.one_shiftLeft, Nat.testBit_two_pow] at ha hb
    simp at ha hb
    exact ⟨ha, hb⟩
  · intro ⟨ha, hb⟩
    apply Nat.eq_of_testBit_eq
    intro i
    simp only [Nat.testBit_and, Nat.testBit_or, Nat.one_shiftLeft, Nat.testBit_two_pow]
    by_cases h1 : a = i
    · subst h1; simp [ha]
    · by_cases h2 : b = i
      · subst h2; simp [hb]
      · simp [h1, h2]

/-- what the mask-guided descent returns for two taxa is the node where their path turns -/
theorem mrca_turnsAt (r : T) (hlt : LeafTaxa r) (a b : Nat) (hc : covers (1 <<< a ||| 1 <<< b) r)
    (hno : ∀ c ∈ r.cs, ¬ covers (1 <<< a ||| 1 <<< b) c) : TurnsAt taxonKey r a b := by
  have h1 := (covers_pair_iff r.mask a b).mp hc
  refine ⟨(mask_testBit r hlt a).mp h1.1, (mask_testBit r hlt b).mp h1.2, ?_⟩
  intro c hcm hboth
  have hltc := leafTaxa_child hlt hcm
  exact hno c hcm ((covers_pair_iff c.mask a b).mpr
    ⟨(mask_testBit c hltc a).mpr hboth.1, (mask_testBit c hltc b).mpr hboth.2⟩)
end Aux

section tm3
variable {α : Type} [AddCommMonoid α] (ℓ : T → α)

/-- (a+c) `treemeasure_spec` — `treemeasure.patristic_distance` as a whole, on every entry path that re-encodes (its default
`is_bipartitions_updated=False`, or a never-encoded tree).  On the tree `t'` the call leaves behind, if taxa sit exactly on
the leaves, no taxon twice, node ids distinct, then for two different leaf taxa the call returns a number, and that number
is the length of the unique path between them (`turn`, the quantity `pdm_spec` proves the distance matrix stores): the
`Tree.mrca` descent and the two climbs compose to the path length. -/
theorem treemeasure_spec (rooted refresh : Bool) (stored : Nat → Nat) (a b : Nat) (t : T) (hab : a ≠ b)
    (hre : stored t.id = 0 ∨ refresh = true) :
    let t' := if !rooted && t.cs.length = 2 then collapseBasal t else t
    t'.id = t.id → (t'.nodes.map T.id).Nodup → GoodM t' → Good taxonKey t' → LeafTaxa t' →
    a ∈ t'.leaves.map taxonKey → b ∈ t'.leaves.map taxonKey →
    ∃ v n m, treePatristic ℓ rooted refresh stored a b t = .ok v ∧ turn ℓ taxonKey t' a b = some (v, n, m) := by
  intro t' hid hids hgm hg hlt ha hb
  have htarget : (1 <<< a ||| 1 <<< b) ≠ 0 := by
    intro h
    have := congrArg (fun z => z.testBit a) h
    simp [Nat.testBit_or, Nat.one_shiftLeft, Nat.testBit_two_pow] at this
  have hfind : t'.find? t.id = some t' := by rw [← hid]; exact find_self t' hids t' (nodes_self _)
  have hcov : covers (1 <<< a ||| 1 <<< b) t' :=
    (covers_pair_iff t'.mask a b).mpr ⟨(mask_testBit t' hlt a).mpr ha, (mask_testBit t' hlt b).mpr hb⟩
  obtain ⟨r, hr, hrn, hrc, hrno, _⟩ :=
    (tree_mrca_reencode_spec rooted refresh stored (1 <<< a ||| 1 <<< b) t.id t t' htarget hre hids hgm hfind).1 hcov
  have hltr : LeafTaxa r := fun u hu => hlt u (nodes_trans t' r hrn u hu)
  obtain ⟨pa, pb, h1, h2, n, h3⟩ := treemeasure_climb_spec ℓ t' r a b hab hg hlt hrn (mrca_turnsAt r hltr a b hrc hrno)
  exact ⟨_, n, r.id, by simp only [treePatristic, hr, h1, h2], h3⟩
end tm3

/-- non-vacuity: every hypothesis holds on the example tree (taxa 0 and 3, never-encoded tree, rooted) -/
example : ∃ v n m, treePatristic (α := ℚ) (fun _ => 1) true false (fun _ => 0) 0 3 exTree = .ok v ∧
    turn (fun _ => (1 : ℚ)) taxonKey exTree 0 3 = some (v, n, m) :=
  treemeasure_spec (fun _ => 1) true false (fun _ => 0) 0 3 exTree (by decide) (Or.inl rfl) rfl (by decide)
    (show GoodM exTree from by
      intro u hu
      simp only [exTree, T.nodes, T.nodesL, List.mem_cons, List.mem_append, List.not_mem_nil, or_false, List.append_nil] at hu
      rcases hu with rfl | (rfl | rfl | rfl | rfl | rfl) | rfl <;> simp [T.cs, Disj, T.mask, T.maskL])
    (by unfold Good; decide)
    (show LeafTaxa exTree from by
      intro u hu
      simp only [exTree, T.nodes, T.nodesL, List.mem_cons, List.mem_append, List.not_mem_nil, or_false, List.append_nil] at hu
      rcases hu with rfl | (rfl | rfl | rfl | rfl | rfl) | rfl <;> simp [T.cs, T.taxon])
    (by decide) (by decide)


section tm4
variable {α : Type} [AddCommMonoid α] (ℓ : T → α)

/-- (a+c) `treemeasure_current_spec` — the other entry path of `treemeasure.patristic_distance`: `is_bipartitions_updated=True` on
a tree whose stored encoding is current (and exists).  The tree is left alone and the call returns the length of the unique
path between the two different leaf taxa. -/
theorem treemeasure_current_spec (rooted : Bool) (stored : Nat → Nat) (a b : Nat) (t : T) (hab : a ≠ b)
    (h0 : stored t.id ≠ 0) (hcur : Current stored t) (hids : (t.nodes.map T.id).Nodup) (hgm : GoodM t)
    (hg : Good taxonKey t) (hlt : LeafTaxa t) (ha : a ∈ t.leaves.map taxonKey) (hb : b ∈ t.leaves.map taxonKey) :
    ∃ v n m, treePatristic ℓ rooted false stored a b t = .ok v ∧ turn ℓ taxonKey t a b = some (v, n, m) := by
  have htarget : (1 <<< a ||| 1 <<< b) ≠ 0 := by
    intro h
    have := congrArg (fun z => z.testBit a) h
    simp [Nat.testBit_or, Nat.one_shiftLeft, Nat.testBit_two_pow] at this
  have hfind : t.find? t.id = some t := find_self t hids t (nodes_self _)
  have hcov : covers (1 <<< a ||| 1 <<< b) t :=
    (covers_pair_iff t.mask a b).mpr ⟨(mask_testBit t hlt a).mpr ha, (mask_testBit t hlt b).mpr hb⟩
  obtain ⟨r, hr, hrn, hrc, hrno, _⟩ :=
    tree_mrca_current_spec rooted stored (1 <<< a ||| 1 <<< b) t.id t t htarget h0 hfind hcur hgm hcov
  have hltr : LeafTaxa r := fun u hu => hlt u (nodes_trans t r hrn u hu)
  obtain ⟨pa, pb, h1, h2, n, h3⟩ := treemeasure_climb_spec ℓ t r a b hab hg hlt hrn (mrca_turnsAt r hltr a b hrc hrno)
  exact ⟨_, n, r.id, by simp only [treePatristic, hr, h1, h2], h3⟩
end tm4

/-- (a+c, at the driver's own type) the sum `drv_c14` accumulates over the two climbs denotes the sum of the denoted lengths -/
theorem frac_climbAcc (acc : Frac) (hacc : acc.den ≠ 0) (p : List T) :
    (climbAcc fracLen acc p).den ≠ 0 ∧ toRat (climbAcc fracLen acc p) = climbAcc ratLen (toRat acc) p := by
  simp only [climbAcc]
  generalize p.reverse = q
  induction q generalizing acc with
  | nil => exact ⟨hacc, rfl⟩
  | cons u q ih =>
    simp only [List.foldl_cons]
    have h := toRat_add acc (fracLen u) hacc (fracLen_ok u)
    have := ih (acc + fracLen u) h.1
    rw [h.2] at this
    exact this

/-- (a+c, at the driver's own type) `frac_treemeasure_spec`: for a tree as in `treemeasure_spec`, what `drv_c14` prints for `tm`
is a number whose value is the unique-path length computed in ℚ from the rational edge lengths. -/
theorem frac_treemeasure_spec (rooted refresh : Bool) (stored : Nat → Nat) (a b : Nat) (t : T) (hab : a ≠ b)
    (hre : stored t.id = 0 ∨ refresh = true) :
    let t' := if !rooted && t.cs.length = 2 then collapseBasal t else t
    t'.id = t.id → (t'.nodes.map T.id).Nodup → GoodM t' → Good taxonKey t' → LeafTaxa t' →
    a ∈ t'.leaves.map taxonKey → b ∈ t'.leaves.map taxonKey →
    ∃ v n m, treePatristic fracLen rooted refresh stored a b t = .ok v ∧ v.den ≠ 0 ∧
      turn ratLen taxonKey t' a b = some (toRat v, n, m) := by
  intro t' hid hids hgm hg hlt ha hb
  obtain ⟨vq, n, m, h1, h2⟩ := treemeasure_spec ratLen rooted refresh stored a b t hab hre hid hids hgm hg hlt ha hb
  -- the two runs take the same branch: they differ only in the accumulated numbers
  simp only [treePatristic] at h1 ⊢
  cases hm : treeMrca rooted refresh stored (1 <<< a ||| 1 <<< b) t.id t with
  | valueError => simp [hm] at h1
  | startGone => simp [hm] at h1
  | found t2 r =>
    cases r with
    | none =>
      -- excluded by `treemeasure_spec`'s own argument: recover the branch from the mrca theorem
      exfalso
      have htarget : (1 <<< a ||| 1 <<< b) ≠ 0 := by
        intro h
        have := congrArg (fun z => z.testBit a) h
        simp [Nat.testBit_or, Nat.one_shiftLeft, Nat.testBit_two_pow] at this
      have hfind : t'.find? t.id = some t' := by rw [← hid]; exact find_self t' hids t' (nodes_self _)
      have hcov : covers (1 <<< a ||| 1 <<< b) t' :=
        (covers_pair_iff t'.mask a b).mpr ⟨(mask_testBit t' hlt a).mpr ha, (mask_testBit t' hlt b).mpr hb⟩
      obtain ⟨r, hr, _⟩ :=
        (tree_mrca_reencode_spec rooted refresh stored (1 <<< a ||| 1 <<< b) t.id t t' htarget hre hids hgm hfind).1 hcov
      rw [hm] at hr; cases hr
    | some r =>
      simp only [hm] at h1 ⊢
      cases hpa : pathToTaxon a r with
      | none => simp [hpa] at h1
      | some pa =>
        cases hpb : pathToTaxon b r with
        | none => simp [hpa, hpb] at h1
        | some pb =>
          simp only [hpa, hpb, TmResult.ok.injEq] at h1 ⊢
          have c1 := frac_climbAcc 0 ok_zero pa
          have c2 := frac_climbAcc (climbAcc fracLen 0 pa) c1.1 pb
          refine ⟨_, n, m, rfl, c2.1, ?_⟩
          rw [c2.2, c1.2, toRat_zero, h1]; exact h2

/-- non-vacuity: the current-encoding path on the example tree, at ℚ and at `Frac` -/
example : ∃ v n m, treePatristic (α := ℚ) (fun _ => 1) true false (freshMask exTree) 0 3 exTree = .ok v ∧
    turn (fun _ => (1 : ℚ)) taxonKey exTree 0 3 = some (v, n, m) :=
  treemeasure_current_spec (fun _ => 1) true (freshMask exTree) 0 3 exTree (by decide) (by decide)
    (tree_mrca_refresh_current exTree (by decide)) (by decide)
    (by
      intro u hu
      simp only [exTree, T.nodes, T.nodesL, List.mem_cons, List.mem_append, List.not_mem_nil, or_false, List.append_nil] at hu
      rcases hu with rfl | (rfl | rfl | rfl | rfl | rfl) | rfl <;> simp [T.cs, Disj, T.mask, T.maskL])
    (by unfold Good; decide)
    (by
      intro u hu
      simp only [exTree, T.nodes, T.nodesL, List.mem_cons, List.mem_append, List.not_mem_nil, or_false, List.append_nil] at hu
      rcases hu with rfl | (rfl | rfl | rfl | rfl | rfl) | rfl <;> simp [T.cs, T.taxon])
    (by decide) (by decide)
example := frac_treemeasure_spec true false (fun _ => 0) 0 3 exTree (by decide) (Or.inl rfl)


/-! ## final round: from clause (a) to clause (d) on the library's own tree type -/
section pdmultra
variable {α : Type} [Field α] [LinearOrder α] [IsStrictOrderedRing α] (ℓ : T → α) (key : T → Nat)

/-- every leaf of `t` is at depth `H` below the parent-side end of the edge above `t` (`None` lengths read as 0 by `ℓ`) -/
def LevelT (t : T) (H : α) : Prop := ∀ a ∈ t.leaves.map key, ∃ n, down ℓ key t a = some (H, n)
/-- no edge length is negative -/
def NonnegT (t : T) : Prop := ∀ u ∈ t.nodes, 0 ≤ ℓ u

namespace Aux
theorem sizeL_mem : ∀ (cs : List T) (c : T), c ∈ cs → c.size ≤ T.sizeL cs
  | [], c, h => by simp at h
  | c0 :: cs, c, h => by
    simp only [T.sizeL]
    rcases List.mem_cons.mp h with rfl | h'
    · omega
    · have := sizeL_mem cs c h'; omega

theorem size_pos' (t : T) : 0 < t.size := by cases t; simp [T.size]

theorem key_two_children : ∀ (cs : List T), (leafKeysL key cs).Nodup → ∀ c1 c2 : T, c1 ∈ cs → c2 ∈ cs → c1 ≠ c2 →
    ∀ a, a ∈ leafKeys key c1 → a ∈ leafKeys key c2 → False
  | [], _, c1, _, h1, _, _, _, _, _ => by simp at h1
  | c0 :: cs, hnd, c1, c2, h1, h2, hne, a, ha1, ha2 => by
    rw [leafKeysL_cons] at hnd
    have hnd' := List.nodup_append.mp hnd
    rcases List.mem_cons.mp h1 with rfl | h1' <;> rcases List.mem_cons.mp h2 with rfl | h2'
    · exact hne rfl
    · exact hnd'.2.2 a ha1 a (leafKeys_sub_L key h2' ha2) rfl
    · exact hnd'.2.2 a ha2 a (leafKeys_sub_L key h1' ha1) rfl
    · exact key_two_children cs hnd'.2.1 c1 c2 h1' h2' hne a ha1 ha2

/-- how the path between two leaves of an internal node runs: inside one child, or across two children at this node -/
theorem pair_cases (i : Nat) (x l s) (cs : List T) (hnd : (leafKeys key (.node i x l s cs)).Nodup) (a b : Nat)
    (ha : a ∈ leafKeys key (.node i x l s cs)) (hb : b ∈ leafKeys key (.node i x l s cs)) (hab : a ≠ b) :
    (∃ c ∈ cs, a ∈ leafKeys key c ∧ b ∈ leafKeys key c ∧ turn ℓ key (.node i x l s cs) a b = turn ℓ key c a b) ∨
    (∃ xa xb, downL ℓ key cs a = some xa ∧ downL ℓ key cs b = some xb ∧
      turn ℓ key (.node i x l s cs) a b = some (xa.1 + xb.1, xa.2 + xb.2, i)) := by
  cases cs with
  | nil => rw [leafKeys_leaf] at ha hb; simp at ha hb; exact absurd (ha.trans hb.symm) hab
  | cons c0 cs0 =>
    rw [leafKeys_node] at hnd ha hb
    by_cases hex : ∃ c ∈ c0 :: cs0, a ∈ leafKeys key c ∧ b ∈ leafKeys key c
    · obtain ⟨c, hc, hac, hbc⟩ := hex
      exact Or.inl ⟨c, hc, hac, hbc, by simp only [turn]; exact turnL_child ℓ key i _ c a b hnd hc hac hbc⟩
    · right
      have hno : ∀ c ∈ c0 :: cs0, ¬ (a ∈ leafKeys key c ∧ b ∈ leafKeys key c) := fun c hc hboth => hex ⟨c, hc, hboth⟩
      obtain ⟨xa, xb, h1, h2, h3⟩ := turnL_at ℓ key i (c0 :: cs0) hnd a b ha hb hno
      exact ⟨xa, xb, h1, h2, by simp only [turn]; exact h3⟩

theorem level_below (i : Nat) (x l s) (cs : List T) (H : α) (hl : LevelT ℓ key (.node i x l s cs) H) (hne : cs ≠ [])
    (a : Nat) (ha : a ∈ leafKeys key (.node i x l s cs)) :
    ∃ n, downL ℓ key cs a = some (H - ℓ (.node i x l s cs), n) := by
  obtain ⟨n, hn⟩ := hl a ha
  cases cs with
  | nil => exact absurd rfl hne
  | cons c0 cs0 =>
    simp only [down] at hn
    cases hd : downL ℓ key (c0 :: cs0) a with
    | none => simp [hd] at hn
    | some r =>
      simp only [hd, Option.some.injEq, Prod.mk.injEq] at hn
      exact ⟨r.2, by rw [← hn.1]; simp⟩

theorem level_child (i : Nat) (x l s) (cs : List T) (H : α) (hl : LevelT ℓ key (.node i x l s cs) H)
    (hnd : (leafKeys key (.node i x l s cs)).Nodup) (c : T) (hc : c ∈ cs) :
    LevelT ℓ key c (H - ℓ (.node i x l s cs)) := by
  intro a ha
  have hne : cs ≠ [] := fun e => by rw [e] at hc; simp at hc
  have hat : a ∈ leafKeys key (.node i x l s cs) := by
    cases cs with
    | nil => exact absurd rfl hne
    | cons c0 cs0 => rw [leafKeys_node]; exact leafKeys_sub_L key hc ha
  obtain ⟨n, hn⟩ := level_below ℓ key i x l s cs H hl hne a hat
  obtain ⟨r, hr⟩ := Option.isSome_iff_exists.mp ((down_isSome ℓ key c a).mpr ha)
  have hnd' : (leafKeysL key cs).Nodup := by
    cases cs with
    | nil => exact absurd rfl hne
    | cons c0 cs0 => rw [leafKeys_node] at hnd; exact hnd
  have := downL_of_mem ℓ key cs c a r hnd' hc hr
  rw [hn] at this; injection this with this
  exact ⟨n, by rw [hr, ← this]⟩

/-- inside a level tree with non-negative lengths, two leaves are at most twice the depth below the node apart; every pair has a path -/
theorem within_le : ∀ (k : Nat) (t : T), t.size ≤ k → ∀ H, LevelT ℓ key t H → NonnegT ℓ t → (leafKeys key t).Nodup →
    ∀ a ∈ leafKeys key t, ∀ b ∈ leafKeys key t, a ≠ b →
      ∃ v, turn ℓ key t a b = some v ∧ v.1 ≤ 2 * (H - ℓ t) := by
  intro k
  induction k with
  | zero => intro t ht; have := size_pos' t; omega
  | succ k ih =>
    intro t ht H hl hnn hnd a ha b hb hab
    cases t with
    | node i x l s cs =>
      have hne : cs ≠ [] := by
        intro e; subst e; rw [leafKeys_leaf] at ha hb; simp at ha hb; exact hab (ha.trans hb.symm)
      rcases pair_cases ℓ key i x l s cs hnd a b ha hb hab with ⟨c, hc, hac, hbc, he⟩ | ⟨xa, xb, h1, h2, h3⟩
      · have hsz : c.size ≤ k := by
          have := sizeL_mem cs c hc; simp only [T.size] at ht; omega
        have hndc : (leafKeys key c).Nodup := by
          cases cs with
          | nil => exact absurd rfl hne
          | cons c0 cs0 => rw [leafKeys_node] at hnd; exact nodup_child key hnd hc
        obtain ⟨v, hv, hle⟩ := ih c hsz _ (level_child ℓ key i x l s cs H hl hnd c hc)
          (fun u hu => hnn u (nodes_child (t := .node i x l s cs) hc hu)) hndc a hac b hbc hab
        have hcn := hnn c (nodes_child (t := .node i x l s cs) hc (nodes_self c))
        exact ⟨v, by rw [he]; exact hv, by linarith⟩
      · obtain ⟨n1, e1⟩ := level_below ℓ key i x l s cs H hl hne a ha
        obtain ⟨n2, e2⟩ := level_below ℓ key i x l s cs H hl hne b hb
        rw [e1] at h1; rw [e2] at h2
        injection h1 with h1; injection h2 with h2
        refine ⟨_, h3, ?_⟩
        rw [← h1, ← h2]; simp only; linarith
end Aux

/-- path length between two leaf keys, 0 if there is no path -/
def pathLenT (t : T) (a b : Nat) : α := pathVal (fun r => r.1) ℓ key t (a, b)

/-- (a → d) `pdm_three_point` — the bridge from the distance-matrix clause to the UPGMA clause on the library's own tree type.
For every tree `t` (polytomies, unary nodes, `None` lengths read as 0) whose leaves carry distinct keys, are all at the same depth
and whose edge lengths are not negative, the unique-path lengths — what `pdm_spec` proves the compiled matrix stores — satisfy the
strong triangle inequality on every three different leaf taxa. -/
theorem pdm_three_point : ∀ (k : Nat) (t : T), t.size ≤ k → ∀ H, LevelT ℓ key t H → NonnegT ℓ t → Good key t →
    ∀ a ∈ t.leaves.map key, ∀ b ∈ t.leaves.map key, ∀ c ∈ t.leaves.map key, a ≠ b → b ≠ c → a ≠ c →
      pathLenT ℓ key t a c ≤ max (pathLenT ℓ key t a b) (pathLenT ℓ key t b c) := by
  intro k
  induction k with
  | zero => intro t ht; have := size_pos' t; omega
  | succ k ih =>
    intro t ht H hl hnn hnd a ha b hb c hc hab hbc hac
    cases t with
    | node i x l s cs =>
      have hne : cs ≠ [] := by
        intro e; subst e
        have ha' : a ∈ leafKeys key (.node i x l s []) := ha
        have hb' : b ∈ leafKeys key (.node i x l s []) := hb
        rw [leafKeys_leaf] at ha' hb'; simp at ha' hb'; exact hab (ha'.trans hb'.symm)
      have hnd' : (leafKeys key (.node i x l s cs)).Nodup := hnd
      set Hc := H - ℓ (.node i x l s cs) with hHc
      -- value of a pair: inside a child (≤ 2Hc) or across (= 2Hc)
      have val : ∀ p q, p ∈ leafKeys key (.node i x l s cs) → q ∈ leafKeys key (.node i x l s cs) → p ≠ q →
          (∃ ch ∈ cs, p ∈ leafKeys key ch ∧ q ∈ leafKeys key ch ∧
            pathLenT ℓ key (.node i x l s cs) p q = pathLenT ℓ key ch p q ∧ pathLenT ℓ key (.node i x l s cs) p q ≤ 2 * Hc) ∨
          ((∀ ch ∈ cs, ¬ (p ∈ leafKeys key ch ∧ q ∈ leafKeys key ch)) ∧ pathLenT ℓ key (.node i x l s cs) p q = 2 * Hc) := by
        intro p q hp hq hpq
        obtain ⟨v, hv, hle⟩ := within_le ℓ key _ _ (le_refl _) H hl hnn hnd' p hp q hq hpq
        by_cases hex : ∃ ch ∈ cs, p ∈ leafKeys key ch ∧ q ∈ leafKeys key ch
        · obtain ⟨ch, hch, hpc, hqc⟩ := hex
          left
          refine ⟨ch, hch, hpc, hqc, ?_, by simp only [pathLenT, pathVal, hv]; exact hle⟩
          have : turn ℓ key (.node i x l s cs) p q = turn ℓ key ch p q := by
            cases cs with
            | nil => exact absurd rfl hne
            | cons c0 cs0 =>
              rw [leafKeys_node] at hnd'
              simp only [turn]; exact turnL_child ℓ key i _ ch p q hnd' hch hpc hqc
          simp only [pathLenT, pathVal, this]
        · right
          have hno : ∀ ch ∈ cs, ¬ (p ∈ leafKeys key ch ∧ q ∈ leafKeys key ch) := fun ch hch hb' => hex ⟨ch, hch, hb'⟩
          refine ⟨hno, ?_⟩
          cases cs with
          | nil => exact absurd rfl hne
          | cons c0 cs0 =>
            have hnd2 := hnd'
            rw [leafKeys_node] at hnd2 hp hq
            obtain ⟨xa, xb, h1, h2, h3⟩ := turnL_at ℓ key i (c0 :: cs0) hnd2 p q hp hq hno
            obtain ⟨n1, e1⟩ := level_below ℓ key i x l s (c0 :: cs0) H hl hne p (by rw [leafKeys_node]; exact hp)
            obtain ⟨n2, e2⟩ := level_below ℓ key i x l s (c0 :: cs0) H hl hne q (by rw [leafKeys_node]; exact hq)
            rw [e1] at h1; rw [e2] at h2
            injection h1 with h1; injection h2 with h2
            simp only [pathLenT, pathVal, turn, h3]
            rw [← h1, ← h2]; simp only; ring
      rcases val a c ha hc hac with ⟨ch, hch, hach, hcch, heq, hle⟩ | ⟨hno, heq⟩
      · -- a and c in one child
        by_cases hbch : b ∈ leafKeys key ch
        · -- all three in that child: induction
          have hsz : ch.size ≤ k := by
            have := sizeL_mem cs ch hch; simp only [T.size] at ht; omega
          have hndc : Good key ch := by
            cases cs with
            | nil => exact absurd rfl hne
            | cons c0 cs0 => rw [leafKeys_node] at hnd'; exact nodup_child key hnd' hch
          have r := ih ch hsz _ (level_child ℓ key i x l s cs H hl hnd' ch hch)
            (fun u hu => hnn u (nodes_child (t := .node i x l s cs) hch hu)) hndc a hach b hbch c hcch hab hbc hac
          rcases val a b ha hb hab with ⟨ch1, hch1, ha1, hb1, heq1, _⟩ | ⟨hno1, _⟩
          · rcases val b c hb hc hbc with ⟨ch2, hch2, hb2, hc2, heq2, _⟩ | ⟨hno2, _⟩
            · -- same child for all pairs (keys are in one child only)
              have e1 : pathLenT ℓ key (.node i x l s cs) a b = pathLenT ℓ key ch a b := by
                have : turn ℓ key (.node i x l s cs) a b = turn ℓ key ch a b := by
                  cases cs with
                  | nil => exact absurd rfl hne
                  | cons c0 cs0 =>
                    rw [leafKeys_node] at hnd'
                    simp only [turn]; exact turnL_child ℓ key i _ ch a b hnd' hch hach hbch
                simp only [pathLenT, pathVal, this]
              have e2 : pathLenT ℓ key (.node i x l s cs) b c = pathLenT ℓ key ch b c := by
                have : turn ℓ key (.node i x l s cs) b c = turn ℓ key ch b c := by
                  cases cs with
                  | nil => exact absurd rfl hne
                  | cons c0 cs0 =>
                    rw [leafKeys_node] at hnd'
                    simp only [turn]; exact turnL_child ℓ key i _ ch b c hnd' hch hbch hcch
                simp only [pathLenT, pathVal, this]
              rw [heq, e1, e2]; exact r
            · exact absurd ⟨hbch, hcch⟩ (hno2 ch hch)
          · exact absurd ⟨hach, hbch⟩ (hno1 ch hch)
        · -- b elsewhere: (a,b) runs across this node
          rcases val a b ha hb hab with ⟨ch1, hch1, ha1, hb1, _, _⟩ | ⟨_, heq1⟩
          · -- a in ch and ch1: same child by distinctness of keys, contradiction with b ∉ ch
            exfalso
            have : ch1 = ch ∨ ch1 ≠ ch := em _
            rcases this with e | e
            · exact hbch (e ▸ hb1)
            · -- a would be in two different children: impossible under Nodup
              cases cs with
              | nil => exact absurd rfl hne
              | cons c0 cs0 =>
                rw [leafKeys_node] at hnd'
                exact key_two_children key (c0 :: cs0) hnd' ch ch1 hch hch1 (Ne.symm e) a hach ha1
          · rw [heq1]; exact le_trans hle (le_max_left _ _)
      · -- (a,c) runs across this node: one of the other two pairs does too
        rw [heq]
        rcases val a b ha hb hab with ⟨ch1, hch1, ha1, hb1, _, _⟩ | ⟨_, heq1⟩
        · rcases val b c hb hc hbc with ⟨ch2, hch2, hb2, hc2, _, _⟩ | ⟨_, heq2⟩
          · exfalso
            have : ch1 = ch2 ∨ ch1 ≠ ch2 := em _
            rcases this with e | e
            · exact hno ch1 hch1 ⟨ha1, e ▸ hc2⟩
            · cases cs with
              | nil => exact absurd rfl hne
              | cons c0 cs0 =>
                rw [leafKeys_node] at hnd'
                exact key_two_children key (c0 :: cs0) hnd' ch1 ch2 hch1 hch2 e b hb1 hb2
          · rw [heq2]; exact le_max_right _ _
        · rw [heq1]; exact le_max_left _ _
end pdmultra


section pdmupgma
variable {α : Type} [Field α] [LinearOrder α] [IsStrictOrderedRing α] [CharZero α] (ℓ : T → α) (key : T → Nat)

/-- (a ∘ d) `upgma_inverts_pdm` — the composition the property describes, on the definitions the driver runs: compile the distance
matrix of a tree `t` of the library's own shape (`table`, op `pdm`: polytomies, unary nodes, `None` = 0) and hand its cells
(`cellOf`, the `dmatrix[a][b]` read) to `upgma_tree` (`upgmaTree`, op `upgma`).  If the leaves of `t` carry the taxa `0 … n-1`, are
all at one depth and no edge is negative, the tree returned has exactly those taxa as leaves, the path length between any two of
them is exactly the unique-path length in `t`, and it is ultrametric.  (Topology: `upgma_recovers_tree` for binary sources with
positive internal edges; a polytomous source cannot be returned by UPGMA, its distances are.) -/
theorem upgma_inverts_pdm (t : T) (n : Nat) (hn : 1 ≤ n) (H : α) (hl : LevelT ℓ key t H) (hnn : NonnegT ℓ t) (hg : Good key t)
    (hperm : (t.leaves.map key).Perm (List.range n)) :
    ∃ r, upgmaTree n (fun i j => cellOf (fun e => e.d) (table ℓ key t) i j) = some r ∧
      (NT.leafIds r).Perm (List.range n) ∧
      (∀ i < n, ∀ j < n, i ≠ j → NT.dist r i j = some (pathLenT ℓ key t i j)) ∧
      ∃ H' : α, ∀ i < n, NT.depthOf r i = some H' := by
  have hmem : ∀ i, i < n → i ∈ t.leaves.map key := fun i hi => hperm.mem_iff.mpr (List.mem_range.mpr hi)
  have hcell : ∀ i < n, ∀ j < n, i ≠ j → cellOf (fun e : Entry Nat α => e.d) (table ℓ key t) i j = pathLenT ℓ key t i j := by
    intro i hi j hj hij
    obtain ⟨e, h1, h2⟩ := pdm_lookup_spec ℓ key t hg i j hij (hmem i hi) (hmem j hj)
    simp only [lookup] at h1
    simp only [cellOf, pathLenT, pathVal]
    rw [h1, h2]
  have hsym : ∀ i j, pathLenT ℓ key t i j = pathLenT ℓ key t j i := fun i j => by
    simp only [pathLenT, pathVal, turn_symm ℓ key t i j]
  have hD : ∀ i < n, ∀ j < n, i ≠ j →
      (upInit n (fun i j => cellOf (fun e : Entry Nat α => e.d) (table ℓ key t) i j)).d i j = pathLenT ℓ key t i j := by
    intro i hi j hj hij
    simp only [upInit]
    split
    · exact hcell i hi j hj hij
    · rw [hcell j hj i hi (Ne.symm hij)]; exact hsym j i
  obtain ⟨r, hr, hp, hd, hH⟩ := upgma_realises n _ hn (by
    intro i j k hi hj hk hij hjk hik
    rw [hD i hi k hk hik, hD i hi j hj hij, hD j hj k hk hjk]
    exact pdm_three_point ℓ key _ t (le_refl _) H hl hnn hg i (hmem i hi) j (hmem j hj) k (hmem k hk) hij hjk hik)
  exact ⟨r, hr, hp, fun i hi j hj hij => by rw [hd i hi j hj hij, hD i hi j hj hij], hH⟩
end pdmupgma

/-- non-vacuity: a tree of the library's shape with a polytomy and a unary node, all leaves at depth 2:
`((t0:1, t1:1, (t3:1/2):1/2):1, t2:2)` -/
def exUltra : T :=
  .node 0 none none none
    [.node 1 none none none
      [.node 2 (some 0) none none [], .node 3 (some 1) none none [], .node 4 none none none [.node 5 (some 3) none none []]],
     .node 6 (some 2) none none []]
def exUltraLen (u : T) : ℚ := if u.id = 0 then 0 else if u.id = 6 then 2 else if u.id = 4 ∨ u.id = 5 then 1 / 2 else 1

example :=
  upgma_inverts_pdm exUltraLen taxonKey exUltra 4 (by decide) 2
    (by
      intro a ha
      have : a = 0 ∨ a = 1 ∨ a = 3 ∨ a = 2 := by simpa [exUltra, T.leaves, T.leavesL, taxonKey, T.taxon] using ha
      rcases this with rfl | rfl | rfl | rfl
      · exact ⟨3, by simp [exUltra, down, downL, taxonKey, T.taxon, exUltraLen, T.id]; norm_num⟩
      · exact ⟨3, by simp [exUltra, down, downL, taxonKey, T.taxon, exUltraLen, T.id]; norm_num⟩
      · exact ⟨4, by simp [exUltra, down, downL, taxonKey, T.taxon, exUltraLen, T.id]; norm_num⟩
      · exact ⟨2, by simp [exUltra, down, downL, taxonKey, T.taxon, exUltraLen, T.id]⟩)
    (by
      intro u hu
      simp only [exUltra, T.nodes, T.nodesL, List.mem_cons, List.mem_append, List.not_mem_nil, or_false, List.append_nil] at hu
      rcases hu with rfl | (rfl | rfl | rfl | rfl | rfl) | rfl <;> simp [exUltraLen, T.id])
    (by unfold Good; decide) (by decide)


/-! ### neighbour joining on four taxa: the first non-trivial instance of the cherry-picking lemma -/
section njfour
variable {α : Type} [Field α] [LinearOrder α] [IsStrictOrderedRing α]

/-- strict four-point condition for four pool members: of the three pairing sums one is strictly smaller than the other two,
which are equal (a quartet tree whose internal edge is positive) -/
def QuartetAt (d : Nat → Nat → α) (p q r s : Nat) : Prop :=
  (d p q + d r s < d p r + d q s ∧ d p r + d q s = d p s + d q r) ∨
  (d p r + d q s < d p q + d r s ∧ d p q + d r s = d p s + d q r) ∨
  (d p s + d q r < d p q + d r s ∧ d p q + d r s = d p r + d q s)

namespace Aux
theorem perm_four {pool : List Nat} (hnd : pool.Nodup) (h4 : pool.length = 4) (f g k l : Nat)
    (hf : f ∈ pool) (hg : g ∈ pool) (hk : k ∈ pool) (hl : l ∈ pool)
    (hd : [f, g, k, l].Nodup) : [f, g, k, l].Perm pool :=
  (List.subperm_of_subset hd (by intro x hx; simp at hx; rcases hx with rfl | rfl | rfl | rfl <;> assumption)).perm_of_length_le
    (by simp [h4])

theorem row_four (s : NJ α) (h : NJInv s) (h4 : s.pool.length = 4) (f g k l : Nat)
    (hf : f ∈ s.pool) (hg : g ∈ s.pool) (hk : k ∈ s.pool) (hl : l ∈ s.pool) (hd : [f, g, k, l].Nodup) :
    s.x f = s.d f g + s.d f k + s.d f l := by
  have hp := perm_four h.nodup h4 f g k l hf hg hk hl hd
  rw [h.rows f hf, ← ((hp.filter (fun m => decide (m ≠ f))).map (s.d f)).sum_eq]
  simp only [List.nodup_cons, List.mem_cons, List.mem_singleton, not_or, List.not_mem_nil, not_false_eq_true,
    List.nodup_nil, and_true] at hd
  obtain ⟨⟨h1, h2, h3⟩, _⟩ := hd
  simp [List.filter_cons, Ne.symm h1, Ne.symm h2, Ne.symm h3, add_assoc]
end Aux

variable [CharZero α]

/-- the Q-criterion on four pool members whose distances form a quartet with a positive internal edge picks a cherry -/
theorem nj_four_cherry (s : NJ α) (h : NJInv s) (h4 : s.pool.length = 4)
    (hq : ∀ p ∈ s.pool, ∀ q ∈ s.pool, ∀ r ∈ s.pool, ∀ t ∈ s.pool, [p, q, r, t].Nodup → QuartetAt s.d p q r t)
    (f g : Nat) (hp : njPick s = some (f, g)) : Cherry s f g := by
  obtain ⟨hf, hg, hfg⟩ := nj_pick_mem s h.nodup f g hp
  have hlen : ((s.pool.erase f).erase g).length = 2 := by
    rw [List.length_erase_of_mem ((List.mem_erase_of_ne (Ne.symm hfg)).mpr hg), List.length_erase_of_mem hf]; omega
  obtain ⟨k, l, hkl⟩ := List.length_eq_two.mp hlen
  have hmem : ∀ m, m ∈ (s.pool.erase f).erase g → m ∈ s.pool ∧ m ≠ f ∧ m ≠ g := by
    intro m hm
    have h1 : m ∈ s.pool.erase f := List.mem_of_mem_erase hm
    exact ⟨List.mem_of_mem_erase h1, fun e => by subst e; exact (List.Nodup.mem_erase_iff h.nodup).mp h1 |>.1 rfl,
      fun e => by subst e; exact (List.Nodup.mem_erase_iff (h.nodup.erase _)).mp hm |>.1 rfl⟩
  have hk := hmem k (by rw [hkl]; simp)
  have hl := hmem l (by rw [hkl]; simp)
  have hkl' : k ≠ l := by
    have := (h.nodup.erase f).erase g; rw [hkl] at this; simpa using this
  have nd : ∀ a b c e : Nat, a ≠ b → a ≠ c → a ≠ e → b ≠ c → b ≠ e → c ≠ e → [a, b, c, e].Nodup := by
    intro a b c e h1 h2 h3 h4 h5 h6; simp [h1, h2, h3, h4, h5, h6]
  have ndf := nd f g k l hfg (Ne.symm hk.2.1) (Ne.symm hl.2.1) (Ne.symm hk.2.2) (Ne.symm hl.2.2) hkl'
  -- the four row sums
  have rf := row_four s h h4 f g k l hf hg hk.1 hl.1 ndf
  have rg := row_four s h h4 g f k l hg hf hk.1 hl.1 (nd g f k l (Ne.symm hfg) (Ne.symm hk.2.2) (Ne.symm hl.2.2) (Ne.symm hk.2.1) (Ne.symm hl.2.1) hkl')
  have rk := row_four s h h4 k f g l hk.1 hf hg hl.1 (nd k f g l hk.2.1 hk.2.2 hkl' hfg (Ne.symm hl.2.1) (Ne.symm hl.2.2))
  have rl := row_four s h h4 l f g k hl.1 hf hg hk.1 (nd l f g k hl.2.1 hl.2.2 (Ne.symm hkl') hfg (Ne.symm hk.2.1) (Ne.symm hk.2.2))
  -- minimality of Q(f,g)
  simp only [njPick, Option.map_eq_some_iff] at hp
  obtain ⟨r, hr, he⟩ := hp
  obtain ⟨q1, q2, _⟩ := argmin_le (qval s) _ none r (by simp) hr
  rw [he] at q1
  have qsymm : ∀ a ∈ s.pool, ∀ b ∈ s.pool, qval s (a, b) = qval s (b, a) := by
    intro a ha b hb; simp only [qval, h.symm a ha b hb]; ring
  have qle : ∀ a ∈ s.pool, ∀ b ∈ s.pool, a ≠ b → qval s (f, g) ≤ qval s (a, b) := by
    intro a ha b hb hab
    rcases mem_pairsOf s.pool a b hab ha hb with hm | hm
    · have := q2 _ hm; rw [q1] at this; exact this
    · have := q2 _ hm; rw [q1] at this; rw [qsymm a ha b hb]; exact this
  have m1 := qle f hf k hk.1 (Ne.symm hk.2.1)
  have m2 := qle f hf l hl.1 (Ne.symm hl.2.1)
  have c2 : ((s.pool.length - 2 : Nat) : α) = 2 := by rw [h4]; norm_num
  simp only [qval, c2, rf, rg, rk, rl] at m1 m2
  have sgf := h.symm g hg f hf; have skf := h.symm k hk.1 f hf; have slf := h.symm l hl.1 f hf
  have skg := h.symm k hk.1 g hg; have slg := h.symm l hl.1 g hg; have slk := h.symm l hl.1 k hk.1
  rw [sgf, skf, skg] at m1
  rw [sgf, slf, slg, slk] at m2
  have A1 : s.d f g + s.d k l ≤ s.d f k + s.d g l := by linarith
  have A2 : s.d f g + s.d k l ≤ s.d f l + s.d g k := by linarith
  have hB : s.d f k + s.d g l = s.d f l + s.d g k := by
    rcases hq f hf g hg k hk.1 l hl.1 ndf with ⟨_, e⟩ | ⟨lt, _⟩ | ⟨lt, _⟩
    · exact e
    · exact absurd A1 (not_le.mpr lt)
    · exact absurd A2 (not_le.mpr lt)
  have h2 : (2 : α) ≠ 0 := by exact_mod_cast (show (2 : Nat) ≠ 0 by decide)
  refine ⟨(s.d f g + s.d f k - s.d g k) / 2, (s.d f g + s.d g k - s.d f k) / 2,
    fun m => (s.d f m + s.d g m - s.d f g) / 2, by field_simp; ring, ?_⟩
  intro m hm
  rw [hkl] at hm; simp at hm
  rcases hm with rfl | rfl
  · constructor <;> (field_simp; ring)
  · constructor
    · field_simp; linarith
    · field_simp; linarith
end njfour


section njfour2
variable {α : Type} [Field α] [LinearOrder α] [IsStrictOrderedRing α] [CharZero α]

namespace Aux
theorem flat_len_one {β : Type} (F : Nat → List β) (hF : ∀ k, F k ≠ []) : ∀ l : List Nat,
    (l.flatMap F).length = l.length → ∀ k ∈ l, (F k).length = 1
  | [], _, k, hk => by simp at hk
  | x :: l, h, k, hk => by
    simp only [List.flatMap_cons, List.length_append, List.length_cons] at h
    have h1 := List.length_pos_iff.mpr (hF x)
    have h2 := length_le_flatMap F hF l
    rcases List.mem_cons.mp hk with rfl | hk'
    · omega
    · exact flat_len_one F hF l (by omega) k hk'

theorem leaf_of_single {α : Type} : ∀ t : NT α, (NT.leafIds t).length = 1 → ∃ i, t = .leaf i
  | .leaf i, _ => ⟨i, rfl⟩
  | .node f _ g _, h => by
    have h1 := List.length_pos_iff.mpr (leafIds_ne_nil f)
    have h2 := List.length_pos_iff.mpr (leafIds_ne_nil g)
    simp only [NT.leafIds, List.length_append] at h; omega
end Aux

/-- (d) `nj_realises_four` — neighbour joining inverts every quartet metric with a positive internal edge: for four taxa whose
distances satisfy the strict four-point condition (in every arrangement of the four taxa) and are symmetric, `nj_tree` returns a
tree on the four taxa with exactly the input path lengths.  Here the hypothesis `hch` of
`nj_realises_of_cherry_picking` is *proved*: with four pool members the Q-minimal pair is the cherry of the quartet
(`nj_four_cherry`), with three any pair is. -/
theorem nj_realises_four (d : Nat → Nat → α) (hd : ∀ a < 4, ∀ b < 4, d a b = d b a)
    (hq : ∀ p < 4, ∀ q < 4, ∀ r < 4, ∀ t < 4, [p, q, r, t].Nodup → QuartetAt d p q r t) :
    ∃ r, njTree 4 d = some r ∧ (NT.leafIds r).Perm (List.range 4) ∧
      ∀ i < 4, ∀ j < 4, i ≠ j → NT.dist r i j = some (d i j) := by
  apply nj_realises_of_cherry_picking 4 d hd (by decide)
  intro s h hlen f g hp
  have hle := nrel_pool_le d 4 s h
  by_cases h3 : s.pool.length = 3
  · obtain ⟨hf, hg, hfg⟩ := nj_pick_mem s h.inv.nodup f g hp
    exact cherry_of_three s h.inv.symm h.inv.nodup h3 f g hf hg hfg
  · have h4 : s.pool.length = 4 := by omega
    -- every pool node is a single taxon
    have hone := flat_len_one (fun k => NT.leafIds (s.sub k)) (fun k => leafIds_ne_nil _) s.pool
      (by rw [h.cover.length_eq, List.length_range, h4])
    have hleaf : ∀ a ∈ s.pool, ∃ i, s.sub a = .leaf i ∧ i < 4 := by
      intro a ha
      obtain ⟨i, hi⟩ := leaf_of_single _ (hone a ha)
      refine ⟨i, hi, ?_⟩
      have : i ∈ s.pool.flatMap fun k => NT.leafIds (s.sub k) := List.mem_flatMap.mpr ⟨a, ha, by rw [hi]; simp [NT.leafIds]⟩
      exact List.mem_range.mp (h.cover.mem_iff.mp this)
    have hdist : ∀ a ∈ s.pool, ∀ b ∈ s.pool, a ≠ b → ∀ i j, s.sub a = .leaf i → s.sub b = .leaf j → s.d a b = d i j ∧ i ≠ j := by
      intro a ha b hb hab i j hi hj
      obtain ⟨x, y, hx, hy, e⟩ := h.cross a ha b hb hab i (by rw [hi]; simp [NT.leafIds]) j (by rw [hj]; simp [NT.leafIds])
      rw [hi] at hx; rw [hj] at hy
      simp [NT.depthOf] at hx hy
      refine ⟨by rw [e, ← hx, ← hy]; ring, ?_⟩
      intro eij
      exact h.disj a ha b hb hab i (by rw [hi]; simp [NT.leafIds]) (by rw [hj, eij]; simp [NT.leafIds])
    apply nj_four_cherry s h.inv h4 _ f g hp
    intro p hp' q hq' r hr' t ht' hnd
    obtain ⟨ip, hip, lp⟩ := hleaf p hp'
    obtain ⟨iq, hiq, lq⟩ := hleaf q hq'
    obtain ⟨ir, hir, lr⟩ := hleaf r hr'
    obtain ⟨it, hit, lt'⟩ := hleaf t ht'
    simp only [List.nodup_cons, List.mem_cons, List.mem_singleton, not_or, List.not_mem_nil, not_false_eq_true,
      List.nodup_nil, and_true] at hnd
    obtain ⟨⟨n1, n2, n3⟩, ⟨n4, n5⟩, n6⟩ := hnd
    have e1 := hdist p hp' q hq' n1 ip iq hip hiq
    have e2 := hdist p hp' r hr' n2 ip ir hip hir
    have e3 := hdist p hp' t ht' n3 ip it hip hit
    have e4 := hdist q hq' r hr' n4 iq ir hiq hir
    have e5 := hdist q hq' t ht' n5 iq it hiq hit
    have e6 := hdist r hr' t ht' n6 ir it hir hit
    have := hq ip lp iq lq ir lr it lt' (by simp [e1.2, e2.2, e3.2, e4.2, e5.2, e6.2])
    simp only [QuartetAt, e1.1, e2.1, e3.1, e4.1, e5.1, e6.1]
    exact this
end njfour2

/-- non-vacuity: the quartet 01|23 with pendant lengths 1, 2, 3, 4 and internal edge 5 -/
def exQuartet (a b : Nat) : ℚ :=
  if a = b then 0 else
  let pend : Nat → ℚ := fun i => (i : ℚ) + 1
  pend a + pend b + (if (a < 2) = (b < 2) then 0 else 5)

example := nj_realises_four exQuartet
  (by
    intro a ha b hb
    have ha' : a = 0 ∨ a = 1 ∨ a = 2 ∨ a = 3 := by omega
    have hb' : b = 0 ∨ b = 1 ∨ b = 2 ∨ b = 3 := by omega
    rcases ha' with rfl | rfl | rfl | rfl <;> rcases hb' with rfl | rfl | rfl | rfl <;> simp [exQuartet] <;> norm_num)
  (by
    intro p hp q hq r hr t ht hnd
    have hp' : p = 0 ∨ p = 1 ∨ p = 2 ∨ p = 3 := by omega
    have hq' : q = 0 ∨ q = 1 ∨ q = 2 ∨ q = 3 := by omega
    have hr' : r = 0 ∨ r = 1 ∨ r = 2 ∨ r = 3 := by omega
    have ht' : t = 0 ∨ t = 1 ∨ t = 2 ∨ t = 3 := by omega
    rcases hp' with rfl | rfl | rfl | rfl <;> rcases hq' with rfl | rfl | rfl | rfl <;>
    rcases hr' with rfl | rfl | rfl | rfl <;> rcases ht' with rfl | rfl | rfl | rfl <;>
    first
      | (exfalso; revert hnd; decide)
      | (simp [QuartetAt, exQuartet]; norm_num))


section dmatzero
variable {α : Type} [Field α]

/-- the path-length matrix of a result tree reads 0 on the diagonal … -/
theorem dmat_diag : ∀ (t : NT α) (i : Nat), NT.dist t i i = none
  | .leaf _, _ => rfl
  | .node f lf g lg, i => by
    simp only [NT.dist]
    cases h : NT.depthOf f i with
    | some x => simp only []; exact dmat_diag f i
    | none => simp only []; exact dmat_diag g i

/-- … and for any label that is not a leaf of the tree -/
theorem dmat_out : ∀ (t : NT α) (i j : Nat), (i ∉ NT.leafIds t ∨ j ∉ NT.leafIds t) → NT.dist t i j = none
  | .leaf _, _, _, _ => rfl
  | .node f lf g lg, i, j, h => by
    simp only [NT.leafIds, List.mem_append, not_or] at h
    simp only [NT.dist]
    rcases h with h | h
    · rw [depthOf_none f i h.1]
      cases hj : NT.depthOf f j with
      | some y => simp only [depthOf_none g i h.2]
      | none => simp only []; exact dmat_out g i j (Or.inl h.2)
    · rw [depthOf_none f j h.1]
      cases hi : NT.depthOf f i with
      | some x => simp only [depthOf_none g j h.2]
      | none => simp only []; exact dmat_out g i j (Or.inr h.2)
end dmatzero

/-- non-vacuity of `frac_upgma_recovers_tree` at `Frac`: the matrix of ((0:1,1:1):1,2:2) as the harness would send it -/
def exFracM (a b : Nat) : Frac :=
  if a < 3 ∧ b < 3 ∧ a ≠ b then (if a + b = 1 then Frac.ofNat 2 else Frac.ofNat 4) else Frac.zero
def exSrc : NT ℚ := .node (.node (.leaf 0) 1 (.leaf 1) 1) 1 (.leaf 2) 2

example : ∃ r, upgmaTree 3 exFracM = some r ∧ NT.Iso exSrc (mapNT toRat r) :=
  frac_upgma_recovers_tree 3 exFracM
    (by intro a b; simp only [exFracM]; split <;> [split <;> simp [Frac.ofNat]; simp [Frac.zero]])
    exSrc
    (by
      intro a b
      by_cases h : a < 3 ∧ b < 3 ∧ a ≠ b
      · obtain ⟨ha, hb, hab⟩ := h
        have ha' : a = 0 ∨ a = 1 ∨ a = 2 := by omega
        have hb' : b = 0 ∨ b = 1 ∨ b = 2 := by omega
        rcases ha' with rfl | rfl | rfl <;> rcases hb' with rfl | rfl | rfl <;>
          first
            | exact absurd rfl hab
            | (simp [exFracM, exSrc, NT.dmat, NT.dist, NT.depthOf, toRat, Frac.ofNat]; norm_num)
      · have hz : toRat (exFracM a b) = 0 := by simp [exFracM, h, toRat, Frac.zero]
        rw [hz]
        by_cases hab : a = b
        · subst hab; simp [NT.dmat, dmat_diag]
        · have : a ∉ NT.leafIds exSrc ∨ b ∉ NT.leafIds exSrc := by
            simp only [exSrc, NT.leafIds, List.cons_append, List.nil_append, List.mem_cons, List.mem_singleton, List.not_mem_nil, or_false]
            by_contra hc
            simp only [not_or, not_not] at hc
            apply h
            refine ⟨by omega, by omega, hab⟩
          simp [NT.dmat, dmat_out exSrc a b this])
    (by simp [exSrc, NT.Ultra, NT.height]; norm_num) (by simp [exSrc, NT.PosInternal]) (by decide) (by decide)

/-- non-vacuity of `frac_treemeasure_spec` with every hypothesis supplied (rooted, never-encoded example tree) -/
example : ∃ v n m, treePatristic fracLen true false (fun _ => 0) 0 3 exTree = .ok v ∧ v.den ≠ 0 ∧
    turn ratLen taxonKey exTree 0 3 = some (toRat v, n, m) :=
  frac_treemeasure_spec true false (fun _ => 0) 0 3 exTree (by decide) (Or.inl rfl) rfl (by decide)
    (show GoodM exTree from by
      intro u hu
      simp only [exTree, T.nodes, T.nodesL, List.mem_cons, List.mem_append, List.not_mem_nil, or_false, List.append_nil] at hu
      rcases hu with rfl | (rfl | rfl | rfl | rfl | rfl) | rfl <;> simp [T.cs, Disj, T.mask, T.maskL])
    (by unfold Good; decide)
    (show LeafTaxa exTree from by
      intro u hu
      simp only [exTree, T.nodes, T.nodesL, List.mem_cons, List.mem_append, List.not_mem_nil, or_false, List.append_nil] at hu
      rcases hu with rfl | (rfl | rfl | rfl | rfl | rfl) | rfl <;> simp [T.cs, T.taxon])
    (by decide) (by decide)


/-- the example tree after the re-encoding of an unrooted tree: its first basal child (three children) is dissolved, the kept
leaf 6 absorbs the dissolved edge's length 2 -/
def exCollapsed : T :=
  .node 0 none none none
    [.node 2 (some 0) (some ⟨1, 1⟩) none [], .node 3 (some 1) none none [],
     .node 4 none none none [.node 5 (some 2) (some ⟨1, 2⟩) none []],
     .node 6 (some 3) (some ⟨2, 1⟩) none []]

theorem exCollapsed_eq : collapseBasal exTree = exCollapsed := by
  simp [collapseBasal, exTree, exCollapsed, absorbLen, T.cs, T.len, T.withLen]

/-- non-vacuity of `treemeasure_spec` on the *unrooted* path: the re-encoding collapses the basal bifurcation first -/
example : ∃ v n m, treePatristic (α := ℚ) (fun _ => 1) false true (fun _ => 7) 0 3 exTree = .ok v ∧
    turn (fun _ => (1 : ℚ)) taxonKey exCollapsed 0 3 = some (v, n, m) := by
  have h := treemeasure_spec (α := ℚ) (fun _ => 1) false true (fun _ => 7) 0 3 exTree (by decide) (Or.inr rfl)
  have ht : (if (!false && decide (exTree.cs.length = 2)) = true then collapseBasal exTree else exTree) = exCollapsed := by
    rw [← exCollapsed_eq]; rfl
  simp only [ht] at h
  exact h rfl (by decide)
    (by
      intro u hu
      simp only [exCollapsed, T.nodes, T.nodesL, List.mem_cons, List.mem_append, List.not_mem_nil, or_false, List.append_nil] at hu
      rcases hu with rfl | rfl | rfl | (rfl | rfl) | rfl <;> simp [T.cs, Disj, T.mask, T.maskL])
    (by unfold Good; decide)
    (by
      intro u hu
      simp only [exCollapsed, T.nodes, T.nodesL, List.mem_cons, List.mem_append, List.not_mem_nil, or_false, List.append_nil] at hu
      rcases hu with rfl | rfl | rfl | (rfl | rfl) | rfl <;> simp [T.cs, T.taxon])
    (by decide) (by decide)


/-! ## last round: the cherry-picking lemma as a statement about finite metrics, the reduction of NJ's correctness to it, and n ≤ 5 -/
section quartets
variable {α : Type} [Field α] [LinearOrder α] [IsStrictOrderedRing α]

/-- the Q-criterion of a pair, written with explicit row sums over the pool (what `qval` computes from the maintained `_nj_xsub`) -/
def Qfun (pool : List Nat) (D : Nat → Nat → α) (a b : Nat) : α :=
  ((pool.length - 2 : Nat) : α) * D a b - ((pool.filter (fun m => m ≠ a)).map (D a)).sum
    - ((pool.filter (fun m => m ≠ b)).map (D b)).sum

/-- strict four-point condition on a set of labels: every four different ones form a quartet with a positive internal edge
(what the distances of a binary tree with positive internal edge lengths satisfy) -/
def StrictFourPoint (pool : List Nat) (D : Nat → Nat → α) : Prop :=
  ∀ p ∈ pool, ∀ q ∈ pool, ∀ r ∈ pool, ∀ t ∈ pool, [p, q, r, t].Nodup → QuartetAt D p q r t

/-- **the cherry-picking lemma for `N` labels** (Saitou–Nei / Studier–Keppler), as a statement about finite metrics only: under the
strict four-point condition a pair of minimal Q is a cherry — every other two labels are on the same side of it. -/
def MinQCherryAt (α : Type) [Field α] [LinearOrder α] [IsStrictOrderedRing α] (N : Nat) : Prop :=
  ∀ (pool : List Nat) (D : Nat → Nat → α), pool.Nodup → pool.length = N →
    (∀ a ∈ pool, ∀ b ∈ pool, D a b = D b a) → StrictFourPoint pool D →
    ∀ f ∈ pool, ∀ g ∈ pool, f ≠ g → (∀ a ∈ pool, ∀ b ∈ pool, a ≠ b → Qfun pool D f g ≤ Qfun pool D a b) →
    ∀ k ∈ pool, ∀ l ∈ pool, [f, g, k, l].Nodup → D f k + D g l = D f l + D g k

theorem qval_eq_Qfun (s : NJ α) (h : NJInv s) (a b : Nat) (ha : a ∈ s.pool) (hb : b ∈ s.pool) :
    qval s (a, b) = Qfun s.pool s.d a b := by
  simp only [qval, Qfun, h.rows a ha, h.rows b hb]

/-- a pair that splits every other two labels evenly is a cherry in the sense of `nj_cherry_step` -/
theorem cherry_of_balanced [CharZero α] (s : NJ α) (f g : Nat)
    (hbal : ∀ k ∈ (s.pool.erase f).erase g, ∀ l ∈ (s.pool.erase f).erase g, s.d f k + s.d g l = s.d f l + s.d g k) :
    Cherry s f g := by
  have h2 : (2 : α) ≠ 0 := by exact_mod_cast (show (2 : Nat) ≠ 0 by decide)
  cases hp : (s.pool.erase f).erase g with
  | nil => exact ⟨s.d f g, 0, fun _ => 0, by simp, by rw [hp]; simp⟩
  | cons k0 rest =>
    have hk0 : k0 ∈ (s.pool.erase f).erase g := by rw [hp]; simp
    refine ⟨(s.d f g + s.d f k0 - s.d g k0) / 2, (s.d f g + s.d g k0 - s.d f k0) / 2,
      fun m => (s.d f m + s.d g m - s.d f g) / 2, by field_simp; ring, ?_⟩
    intro m hm
    have := hbal k0 hk0 m hm
    constructor
    · field_simp; linarith
    · field_simp; linarith

/-- the reduced distances in every state NJ can reach inherit the strict four-point condition from the input -/
theorem nrel_quartet (d : Nat → Nat → α) (n : Nat) (hq : StrictFourPoint (List.range n) d) (s : NJ α) (h : NRel d n s) :
    StrictFourPoint s.pool s.d := by
  intro p hp q hq' r hr t ht hnd
  simp only [List.nodup_cons, List.mem_cons, List.mem_singleton, not_or, List.not_mem_nil, not_false_eq_true,
    List.nodup_nil, and_true] at hnd
  obtain ⟨⟨n1, n2, n3⟩, ⟨n4, n5⟩, n6⟩ := hnd
  -- a representative leaf of every one of the four pool nodes, with its depth
  have rep : ∀ a ∈ s.pool, ∃ i x, i ∈ NT.leafIds (s.sub a) ∧ NT.depthOf (s.sub a) i = some x ∧ i < n := by
    intro a ha
    obtain ⟨i, hi⟩ := List.exists_mem_of_ne_nil _ (leafIds_ne_nil (s.sub a))
    obtain ⟨x, hx⟩ := depthOf_some _ _ hi
    exact ⟨i, x, hi, hx, List.mem_range.mp (h.cover.mem_iff.mp (List.mem_flatMap.mpr ⟨a, ha, hi⟩))⟩
  have cr : ∀ a ∈ s.pool, ∀ b ∈ s.pool, a ≠ b → ∀ i x j y, i ∈ NT.leafIds (s.sub a) → NT.depthOf (s.sub a) i = some x →
      j ∈ NT.leafIds (s.sub b) → NT.depthOf (s.sub b) j = some y → d i j = x + s.d a b + y ∧ i ≠ j := by
    intro a ha b hb hab i x j y hi hx hj hy
    obtain ⟨x', y', hx', hy', e⟩ := h.cross a ha b hb hab i hi j hj
    rw [hx] at hx'; rw [hy] at hy'
    injection hx' with hx'; injection hy' with hy'
    exact ⟨by rw [e, hx', hy'], fun eij => h.disj a ha b hb hab i hi (eij ▸ hj)⟩
  obtain ⟨ip, xp, mp, dp, lp⟩ := rep p hp
  obtain ⟨iq, xq, mq, dq, lq⟩ := rep q hq'
  obtain ⟨ir, xr, mr, dr, lr⟩ := rep r hr
  obtain ⟨it, xt, mt, dt, lt'⟩ := rep t ht
  have e1 := cr p hp q hq' n1 ip xp iq xq mp dp mq dq
  have e2 := cr p hp r hr n2 ip xp ir xr mp dp mr dr
  have e3 := cr p hp t ht n3 ip xp it xt mp dp mt dt
  have e4 := cr q hq' r hr n4 iq xq ir xr mq dq mr dr
  have e5 := cr q hq' t ht n5 iq xq it xt mq dq mt dt
  have e6 := cr r hr t ht n6 ir xr it xt mr dr mt dt
  have hQ := hq ip (List.mem_range.mpr lp) iq (List.mem_range.mpr lq) ir (List.mem_range.mpr lr) it (List.mem_range.mpr lt')
    (by simp [e1.2, e2.2, e3.2, e4.2, e5.2, e6.2])
  simp only [QuartetAt, e1.1, e2.1, e3.1, e4.1, e5.1, e6.1] at hQ
  simp only [QuartetAt]
  rcases hQ with ⟨a, b⟩ | ⟨a, b⟩ | ⟨a, b⟩
  · exact Or.inl ⟨by linarith, by linarith⟩
  · exact Or.inr (Or.inl ⟨by linarith, by linarith⟩)
  · exact Or.inr (Or.inr ⟨by linarith, by linarith⟩)

variable [CharZero α]

/-- (d) **partial** — `nj_realises_of_quartet_lemma`: the reduction of neighbour joining's correctness to the cherry-picking
lemma *as a statement about finite metrics*.  If `MinQCherryAt α N` holds for every pool size `4 ≤ N ≤ n`, then for every
symmetric matrix on `n ≥ 1` taxa with the strict four-point condition `nj_tree` returns a tree on exactly the taxa with exactly
the input path lengths.  The NJ machinery is fully discharged here (row-sum invariant, Q = `Qfun`, inheritance of the four-point
condition by the reduced matrices `nrel_quartet`, cherry ⇒ contracted state, induction over contractions).
The hypothesis is discharged for every `N` by `minQ_cherry_all` (below), which gives `nj_realises`; what stays open is — for
"that unrooted topology" rather than "those path lengths" — uniqueness of the tree realising an additive metric. -/
theorem nj_realises_of_quartet_lemma (n : Nat) (d : Nat → Nat → α) (hd : ∀ a < n, ∀ b < n, d a b = d b a) (hn : 1 ≤ n)
    (hq : StrictFourPoint (List.range n) d) (hlem : ∀ N, 4 ≤ N → N ≤ n → MinQCherryAt α N) :
    ∃ r, njTree n d = some r ∧ (NT.leafIds r).Perm (List.range n) ∧
      ∀ i < n, ∀ j < n, i ≠ j → NT.dist r i j = some (d i j) := by
  apply nj_realises_of_cherry_picking n d hd hn
  intro s h hlen f g hp
  obtain ⟨hf, hg, hfg⟩ := nj_pick_mem s h.inv.nodup f g hp
  have hle := nrel_pool_le d n s h
  by_cases h3 : s.pool.length = 3
  · exact cherry_of_three s h.inv.symm h.inv.nodup h3 f g hf hg hfg
  · have h4 : 4 ≤ s.pool.length := by omega
    -- minimality of Q at the picked pair
    have hp' := hp
    simp only [njPick, Option.map_eq_some_iff] at hp'
    obtain ⟨r, hr, he⟩ := hp'
    obtain ⟨q1, q2, _⟩ := argmin_le (qval s) _ none r (by simp) hr
    rw [he] at q1
    have qsymm : ∀ a ∈ s.pool, ∀ b ∈ s.pool, qval s (a, b) = qval s (b, a) := by
      intro a ha b hb; simp only [qval, h.inv.symm a ha b hb]; ring
    have qle : ∀ a ∈ s.pool, ∀ b ∈ s.pool, a ≠ b → Qfun s.pool s.d f g ≤ Qfun s.pool s.d a b := by
      intro a ha b hb hab
      rw [← qval_eq_Qfun s h.inv f g hf hg, ← qval_eq_Qfun s h.inv a b ha hb]
      rcases mem_pairsOf s.pool a b hab ha hb with hm | hm
      · have := q2 _ hm; rw [q1] at this; exact this
      · have := q2 _ hm; rw [q1] at this; rw [qsymm a ha b hb]; exact this
    have hbal := hlem s.pool.length h4 hle s.pool s.d h.inv.nodup rfl h.inv.symm (nrel_quartet d n hq s h) f hf g hg hfg qle
    apply cherry_of_balanced
    intro k hk l hl
    have hmem : ∀ m, m ∈ (s.pool.erase f).erase g → m ∈ s.pool ∧ m ≠ f ∧ m ≠ g := by
      intro m hm
      have h1 : m ∈ s.pool.erase f := List.mem_of_mem_erase hm
      exact ⟨List.mem_of_mem_erase h1, fun e => by subst e; exact (List.Nodup.mem_erase_iff h.inv.nodup).mp h1 |>.1 rfl,
        fun e => by subst e; exact (List.Nodup.mem_erase_iff (h.inv.nodup.erase _)).mp hm |>.1 rfl⟩
    by_cases hkl : k = l
    · subst hkl; rfl
    · have hk' := hmem k hk; have hl' := hmem l hl
      exact hbal k hk'.1 l hl'.1 (by simp [hfg, Ne.symm hk'.2.1, Ne.symm hl'.2.1, Ne.symm hk'.2.2, Ne.symm hl'.2.2, hkl])
end quartets


section smallN
variable {α : Type} [Field α] [LinearOrder α] [IsStrictOrderedRing α]

namespace Aux
/-- the 162 quartet configurations of five points in which the first quartet is not `fg|kl`, each refuted by linear arithmetic
from the minimality of `Q(f,g)` -/
theorem five_aux (fg fk fl fm gk gl gm kl km lm : α)
    (h1 : (fg + kl < fk + gl ∧ fk + gl = fl + gk) ∨ (fk + gl < fg + kl ∧ fg + kl = fl + gk) ∨ (fl + gk < fg + kl ∧ fg + kl = fk + gl))
    (h2 : (fg + km < fk + gm ∧ fk + gm = fm + gk) ∨ (fk + gm < fg + km ∧ fg + km = fm + gk) ∨ (fm + gk < fg + km ∧ fg + km = fk + gm))
    (h3 : (fg + lm < fl + gm ∧ fl + gm = fm + gl) ∨ (fl + gm < fg + lm ∧ fg + lm = fm + gl) ∨ (fm + gl < fg + lm ∧ fg + lm = fl + gm))
    (h4 : (fk + lm < fl + km ∧ fl + km = fm + kl) ∨ (fl + km < fk + lm ∧ fk + lm = fm + kl) ∨ (fm + kl < fk + lm ∧ fk + lm = fl + km))
    (h5 : (gk + lm < gl + km ∧ gl + km = gm + kl) ∨ (gl + km < gk + lm ∧ gk + lm = gm + kl) ∨ (gm + kl < gk + lm ∧ gk + lm = gl + km))
    (m1 : 3 * fg - (fg + fk + fl + fm) - (fg + gk + gl + gm) ≤ 3 * fk - (fg + fk + fl + fm) - (fk + gk + kl + km))
    (m2 : 3 * fg - (fg + fk + fl + fm) - (fg + gk + gl + gm) ≤ 3 * fl - (fg + fk + fl + fm) - (fl + gl + kl + lm))
    (m3 : 3 * fg - (fg + fk + fl + fm) - (fg + gk + gl + gm) ≤ 3 * fm - (fg + fk + fl + fm) - (fm + gm + km + lm))
    (m4 : 3 * fg - (fg + fk + fl + fm) - (fg + gk + gl + gm) ≤ 3 * gk - (fg + gk + gl + gm) - (fk + gk + kl + km))
    (m5 : 3 * fg - (fg + fk + fl + fm) - (fg + gk + gl + gm) ≤ 3 * gl - (fg + gk + gl + gm) - (fl + gl + kl + lm))
    (m6 : 3 * fg - (fg + fk + fl + fm) - (fg + gk + gl + gm) ≤ 3 * gm - (fg + gk + gl + gm) - (fm + gm + km + lm))
    (m7 : 3 * fg - (fg + fk + fl + fm) - (fg + gk + gl + gm) ≤ 3 * kl - (fk + gk + kl + km) - (fl + gl + kl + lm))
    (m8 : 3 * fg - (fg + fk + fl + fm) - (fg + gk + gl + gm) ≤ 3 * km - (fk + gk + kl + km) - (fm + gm + km + lm))
    (m9 : 3 * fg - (fg + fk + fl + fm) - (fg + gk + gl + gm) ≤ 3 * lm - (fl + gl + kl + lm) - (fm + gm + km + lm)) :
    fk + gl = fl + gk := by
  rcases h1 with ⟨_, e⟩ | ⟨a1, b1⟩ | ⟨a1, b1⟩
  · exact e
  · exfalso
    rcases h2 with ⟨a2, b2⟩ | ⟨a2, b2⟩ | ⟨a2, b2⟩ <;> rcases h3 with ⟨a3, b3⟩ | ⟨a3, b3⟩ | ⟨a3, b3⟩ <;>
    rcases h4 with ⟨a4, b4⟩ | ⟨a4, b4⟩ | ⟨a4, b4⟩ <;> rcases h5 with ⟨a5, b5⟩ | ⟨a5, b5⟩ | ⟨a5, b5⟩ <;> linarith
  · exfalso
    rcases h2 with ⟨a2, b2⟩ | ⟨a2, b2⟩ | ⟨a2, b2⟩ <;> rcases h3 with ⟨a3, b3⟩ | ⟨a3, b3⟩ | ⟨a3, b3⟩ <;>
    rcases h4 with ⟨a4, b4⟩ | ⟨a4, b4⟩ | ⟨a4, b4⟩ <;> rcases h5 with ⟨a5, b5⟩ | ⟨a5, b5⟩ | ⟨a5, b5⟩ <;> linarith

theorem perm_five {pool : List Nat} (hnd : pool.Nodup) (h5 : pool.length = 5) (a b c e h : Nat)
    (ha : a ∈ pool) (hb : b ∈ pool) (hc : c ∈ pool) (he : e ∈ pool) (hh : h ∈ pool)
    (hd : [a, b, c, e, h].Nodup) : [a, b, c, e, h].Perm pool :=
  (List.subperm_of_subset hd (by intro x hx; simp at hx; rcases hx with rfl | rfl | rfl | rfl | rfl <;> assumption)).perm_of_length_le
    (by simp [h5])

/-- row sum of the first of five listed labels -/
theorem rowsum_five {pool : List Nat} (D : Nat → Nat → α) (a b c e h : Nat) (hp : [a, b, c, e, h].Perm pool)
    (hd : [a, b, c, e, h].Nodup) : ((pool.filter (fun m => m ≠ a)).map (D a)).sum = D a b + D a c + D a e + D a h := by
  rw [← ((hp.filter (fun m => decide (m ≠ a))).map (D a)).sum_eq]
  simp only [List.nodup_cons, List.mem_cons, List.mem_singleton, not_or, List.not_mem_nil, not_false_eq_true,
    List.nodup_nil, and_true] at hd
  obtain ⟨⟨h1, h2, h3, h4⟩, _⟩ := hd
  simp [List.filter_cons, Ne.symm h1, Ne.symm h2, Ne.symm h3, Ne.symm h4, add_assoc]

theorem rowsum_four {pool : List Nat} (D : Nat → Nat → α) (a b c e : Nat) (hp : [a, b, c, e].Perm pool)
    (hd : [a, b, c, e].Nodup) : ((pool.filter (fun m => m ≠ a)).map (D a)).sum = D a b + D a c + D a e := by
  rw [← ((hp.filter (fun m => decide (m ≠ a))).map (D a)).sum_eq]
  simp only [List.nodup_cons, List.mem_cons, List.mem_singleton, not_or, List.not_mem_nil, not_false_eq_true,
    List.nodup_nil, and_true] at hd
  obtain ⟨⟨h1, h2, h3⟩, _⟩ := hd
  simp [List.filter_cons, Ne.symm h1, Ne.symm h2, Ne.symm h3, add_assoc]

theorem nd4 (a b c e : Nat) (h1 : a ≠ b) (h2 : a ≠ c) (h3 : a ≠ e) (h4 : b ≠ c) (h5 : b ≠ e) (h6 : c ≠ e) : [a, b, c, e].Nodup := by
  simp [h1, h2, h3, h4, h5, h6]
theorem nd5 (a b c e h : Nat) (h1 : a ≠ b) (h2 : a ≠ c) (h3 : a ≠ e) (h4 : a ≠ h) (h5 : b ≠ c) (h6 : b ≠ e) (h7 : b ≠ h)
    (h8 : c ≠ e) (h9 : c ≠ h) (h10 : e ≠ h) : [a, b, c, e, h].Nodup := by
  simp [h1, h2, h3, h4, h5, h6, h7, h8, h9, h10]
end Aux

/-- the cherry-picking lemma for four labels -/
theorem minQ_cherry_four : MinQCherryAt α 4 := by
  intro pool D hnd h4 hs hq f hf g hg hfg hmin k hk l hl hn
  have hn' := hn
  simp only [List.nodup_cons, List.mem_cons, List.mem_singleton, not_or, List.not_mem_nil, not_false_eq_true,
    List.nodup_nil, and_true] at hn'
  obtain ⟨⟨_, fk, fl⟩, ⟨gk, gl⟩, kl⟩ := hn'
  have P := fun a b c e ha hb hc he hd => perm_four (pool := pool) hnd h4 a b c e ha hb hc he hd
  have c2 : ((pool.length - 2 : Nat) : α) = 2 := by rw [h4]; norm_num
  have rf := rowsum_four D f g k l (P f g k l hf hg hk hl hn) hn
  have rg := rowsum_four D g f k l (P g f k l hg hf hk hl (nd4 g f k l (Ne.symm hfg) gk gl fk fl kl)) (nd4 g f k l (Ne.symm hfg) gk gl fk fl kl)
  have rk := rowsum_four D k f g l (P k f g l hk hf hg hl (nd4 k f g l (Ne.symm fk) (Ne.symm gk) kl hfg fl gl)) (nd4 k f g l (Ne.symm fk) (Ne.symm gk) kl hfg fl gl)
  have rl := rowsum_four D l f g k (P l f g k hl hf hg hk (nd4 l f g k (Ne.symm fl) (Ne.symm gl) (Ne.symm kl) hfg fk gk)) (nd4 l f g k (Ne.symm fl) (Ne.symm gl) (Ne.symm kl) hfg fk gk)
  have m1 := hmin f hf k hk fk
  have m2 := hmin f hf l hl fl
  simp only [Qfun, c2, rf, rg, rk, rl] at m1 m2
  have sgf := hs g hg f hf; have skf := hs k hk f hf; have slf := hs l hl f hf
  have skg := hs k hk g hg; have slg := hs l hl g hg; have slk := hs l hl k hk
  rcases hq f hf g hg k hk l hl hn with ⟨_, e⟩ | ⟨lt, _⟩ | ⟨lt, _⟩
  · exact e
  · exfalso; linarith
  · exfalso; linarith

/-- the cherry-picking lemma for five labels, by deciding the quartet configurations -/
theorem minQ_cherry_five : MinQCherryAt α 5 := by
  intro pool D hnd h5 hs hq f hf g hg hfg hmin k hk l hl hn
  have hn' := hn
  simp only [List.nodup_cons, List.mem_cons, List.mem_singleton, not_or, List.not_mem_nil, not_false_eq_true,
    List.nodup_nil, and_true] at hn'
  obtain ⟨⟨_, fk, fl⟩, ⟨gk, gl⟩, kl⟩ := hn'
  -- the fifth label
  have hex : ∃ m ∈ pool, m ≠ f ∧ m ≠ g ∧ m ≠ k ∧ m ≠ l := by
    by_contra hcon
    have hsub : pool ⊆ [f, g, k, l] := by
      intro x hx
      by_contra hx'
      simp only [List.mem_cons, List.mem_singleton, List.not_mem_nil, or_false, not_or] at hx'
      exact hcon ⟨x, hx, hx'.1, hx'.2.1, hx'.2.2.1, hx'.2.2.2⟩
    have := (List.subperm_of_subset hnd hsub).length_le
    simp [h5] at this
  obtain ⟨m, hm, mf, mg, mk, ml⟩ := hex
  have fm := Ne.symm mf; have gm := Ne.symm mg; have km := Ne.symm mk; have lm := Ne.symm ml
  have P := fun a b c e h ha hb hc he hh hd => perm_five (pool := pool) hnd h5 a b c e h ha hb hc he hh hd
  have c3 : ((pool.length - 2 : Nat) : α) = 3 := by rw [h5]; norm_num
  have Nf := nd5 f g k l m hfg fk fl fm gk gl gm kl km lm
  have Ng := nd5 g f k l m (Ne.symm hfg) gk gl gm fk fl fm kl km lm
  have Nk := nd5 k f g l m (Ne.symm fk) (Ne.symm gk) kl km hfg fl fm gl gm lm
  have Nl := nd5 l f g k m (Ne.symm fl) (Ne.symm gl) (Ne.symm kl) lm hfg fk fm gk gm km
  have Nm := nd5 m f g k l mf mg mk ml hfg fk fl gk gl kl
  have rf := rowsum_five D f g k l m (P f g k l m hf hg hk hl hm Nf) Nf
  have rg := rowsum_five D g f k l m (P g f k l m hg hf hk hl hm Ng) Ng
  have rk := rowsum_five D k f g l m (P k f g l m hk hf hg hl hm Nk) Nk
  have rl := rowsum_five D l f g k m (P l f g k m hl hf hg hk hm Nl) Nl
  have rm := rowsum_five D m f g k l (P m f g k l hm hf hg hk hl Nm) Nm
  have q1 := hmin f hf k hk fk; have q2 := hmin f hf l hl fl; have q3 := hmin f hf m hm fm
  have q4 := hmin g hg k hk gk; have q5 := hmin g hg l hl gl; have q6 := hmin g hg m hm gm
  have q7 := hmin k hk l hl kl; have q8 := hmin k hk m hm km; have q9 := hmin l hl m hm lm
  simp only [Qfun, c3, rf, rg, rk, rl, rm] at q1 q2 q3 q4 q5 q6 q7 q8 q9
  have sgf := hs g hg f hf; have skf := hs k hk f hf; have slf := hs l hl f hf; have smf := hs m hm f hf
  have skg := hs k hk g hg; have slg := hs l hl g hg; have smg := hs m hm g hg
  have slk := hs l hl k hk; have smk := hs m hm k hk; have sml := hs m hm l hl
  have Q1 := hq f hf g hg k hk l hl (nd4 f g k l hfg fk fl gk gl kl)
  have Q2 := hq f hf g hg k hk m hm (nd4 f g k m hfg fk fm gk gm km)
  have Q3 := hq f hf g hg l hl m hm (nd4 f g l m hfg fl fm gl gm lm)
  have Q4 := hq f hf k hk l hl m hm (nd4 f k l m fk fl fm kl km lm)
  have Q5 := hq g hg k hk l hl m hm (nd4 g k l m gk gl gm kl km lm)
  exact five_aux (D f g) (D f k) (D f l) (D f m) (D g k) (D g l) (D g m) (D k l) (D k m) (D l m) Q1 Q2 Q3 Q4 Q5
    (by linarith) (by linarith) (by linarith) (by linarith) (by linarith) (by linarith) (by linarith) (by linarith) (by linarith)
end smallN


/-! ## extension round 3: the cherry-picking lemma for every number of labels, hence neighbour joining inverts every additive metric -/
section njfull
variable {α : Type} [Field α] [LinearOrder α] [IsStrictOrderedRing α]

/-- (d) **the neighbour-joining consistency lemma** (Saitou–Nei / Studier–Keppler) for every number of labels: under the strict
four-point condition a pair of minimal Q is a cherry.  The proof (`Theory/C14Cherry.lean`, `Cherry.minQ_cherry`) needs no tree:
the other labels are ordered by where they leave the path `f … g`; of the two extreme groups one holds at most half of them; the
deepest pair of that group (or `f` with its only member) has a strictly smaller Q unless all labels leave the path at one place. -/
theorem minQ_cherry_all (N : Nat) : MinQCherryAt α N := by
  intro pool D hnd _ hs hq f hf g hg hfg hmin k hk l hl hn
  have hn' := hn
  simp only [List.nodup_cons, List.mem_cons, List.mem_singleton, not_or, List.not_mem_nil, not_false_eq_true,
    List.nodup_nil, and_true] at hn'
  obtain ⟨⟨_, fk, fl⟩, ⟨gk, gl⟩, kl⟩ := hn'
  have mem : ∀ {x}, x ∈ pool.toFinset → x ∈ pool := fun h => List.mem_toFinset.mp h
  refine Cherry.minQ_cherry pool.toFinset D (fun a ha b hb => hs a (mem ha) b (mem hb)) ?_ f g
    (List.mem_toFinset.mpr hf) (List.mem_toFinset.mpr hg) hfg ?_ k l (List.mem_toFinset.mpr hk) (List.mem_toFinset.mpr hl)
    (Ne.symm fk) (Ne.symm gk) (Ne.symm fl) (Ne.symm gl)
  · intro p hp q hq' r hr t ht n1 n2 n3 n4 n5 n6
    exact hq p (mem hp) q (mem hq') r (mem hr) t (mem ht) (by simp [n1, n2, n3, n4, n5, n6])
  · intro a ha b hb hab
    have := hmin a (mem ha) b (mem hb) hab
    simp only [Qfun] at this
    rw [Cherry.qlist_eq_QF pool hnd D f g, Cherry.qlist_eq_QF pool hnd D a b] at this
    exact this

variable [CharZero α]

/-- (d) **`nj_realises`** — neighbour joining inverts every additive metric with positive internal edges, for any number of taxa:
a symmetric matrix on `n ≥ 1` taxa that satisfies the strict four-point condition is returned by `nj_tree` (pool order, first strict
minimum of Q, incremental row sums — the definitions the driver runs) as a tree on exactly the taxa with exactly the input path
lengths.  No hypothesis is left: `nj_realises_of_quartet_lemma` with `minQ_cherry_all`. -/
theorem nj_realises (n : Nat) (d : Nat → Nat → α) (hd : ∀ a < n, ∀ b < n, d a b = d b a) (hn : 1 ≤ n)
    (hq : StrictFourPoint (List.range n) d) :
    ∃ r, njTree n d = some r ∧ (NT.leafIds r).Perm (List.range n) ∧
      ∀ i < n, ∀ j < n, i ≠ j → NT.dist r i j = some (d i j) :=
  nj_realises_of_quartet_lemma n d hd hn hq (fun N _ _ => minQ_cherry_all N)
end njfull

/-- (d, at the driver's own type) `frac_nj_realises`: for any number of taxa, if the `Frac` matrix handed to `drv_c14` has cells that
denote numbers, is symmetric and satisfies the strict four-point condition (as rationals), the tree the driver prints for `nj` has
exactly the taxa as leaves and, read through `toRat`, exactly the denoted path lengths. -/
theorem frac_nj_realises (n : Nat) (d : Nat → Nat → Frac) (hv : ∀ a b, (d a b).den ≠ 0)
    (hd : ∀ a < n, ∀ b < n, toRat (d a b) = toRat (d b a)) (hn : 1 ≤ n)
    (hq : StrictFourPoint (List.range n) (fun a b => toRat (d a b))) :
    ∃ r, njTree n d = some r ∧ (NT.leafIds (mapNT toRat r)).Perm (List.range n) ∧
      ∀ i < n, ∀ j < n, i ≠ j → NT.dist (mapNT toRat r) i j = some (toRat (d i j)) := by
  obtain ⟨r, hr, hq'⟩ := frac_nj_tree n d hv hd hn
  obtain ⟨rq, hrq, hp, hdist⟩ := nj_realises n (fun a b => toRat (d a b)) hd hn hq
  rw [hq'] at hrq; injection hrq with hrq; subst hrq
  exact ⟨r, hr, hp, hdist⟩


section njfive
variable {α : Type} [Field α] [LinearOrder α] [IsStrictOrderedRing α] [CharZero α]

/-- (d) `nj_realises_five` — neighbour joining inverts every additive metric with positive internal edges on up to five taxa,
unconditionally: for `1 ≤ n ≤ 5`, a symmetric matrix satisfying the strict four-point condition is returned by `nj_tree` as a
tree on exactly the taxa with exactly the input path lengths (the cherry-picking lemma is proved for pools of 4 and 5). -/
theorem nj_realises_five (n : Nat) (d : Nat → Nat → α) (hd : ∀ a < n, ∀ b < n, d a b = d b a) (hn : 1 ≤ n) (h5 : n ≤ 5)
    (hq : StrictFourPoint (List.range n) d) :
    ∃ r, njTree n d = some r ∧ (NT.leafIds r).Perm (List.range n) ∧
      ∀ i < n, ∀ j < n, i ≠ j → NT.dist r i j = some (d i j) := by
  apply nj_realises_of_quartet_lemma n d hd hn hq
  intro N h4 hN
  have : N = 4 ∨ N = 5 := by omega
  rcases this with rfl | rfl
  · exact minQ_cherry_four
  · exact minQ_cherry_five
end njfive

/-- non-vacuity: the five-taxon tree ((0,1),2,(3,4)) with unit edge lengths -/
def exFive (a b : Nat) : ℚ :=
  if a = b then 0 else
  let side : Nat → ℚ := fun i => if i < 2 then 0 else if i = 2 then 1 else 2
  2 + |side a - side b|

example := nj_realises_five 5 exFive
  (by
    intro a ha b hb
    have ha' : a = 0 ∨ a = 1 ∨ a = 2 ∨ a = 3 ∨ a = 4 := by omega
    have hb' : b = 0 ∨ b = 1 ∨ b = 2 ∨ b = 3 ∨ b = 4 := by omega
    rcases ha' with rfl | rfl | rfl | rfl | rfl <;> rcases hb' with rfl | rfl | rfl | rfl | rfl <;> simp [exFive] <;> norm_num)
  (by decide) (by decide)
  (by
    intro p hp q hq r hr t ht hnd
    simp only [List.mem_range] at hp hq hr ht
    have hp' : p = 0 ∨ p = 1 ∨ p = 2 ∨ p = 3 ∨ p = 4 := by omega
    have hq' : q = 0 ∨ q = 1 ∨ q = 2 ∨ q = 3 ∨ q = 4 := by omega
    have hr' : r = 0 ∨ r = 1 ∨ r = 2 ∨ r = 3 ∨ r = 4 := by omega
    have ht' : t = 0 ∨ t = 1 ∨ t = 2 ∨ t = 3 ∨ t = 4 := by omega
    rcases hp' with rfl | rfl | rfl | rfl | rfl <;> rcases hq' with rfl | rfl | rfl | rfl | rfl <;>
    rcases hr' with rfl | rfl | rfl | rfl | rfl <;> rcases ht' with rfl | rfl | rfl | rfl | rfl <;>
    first
      | (exfalso; revert hnd; decide)
      | (simp [QuartetAt, exFive] <;> norm_num))

/-- (d, at the driver's own type) `frac_nj_realises_five`: for `1 ≤ n ≤ 5` taxa, if the `Frac` matrix handed to `drv_c14` has cells that
denote numbers, is symmetric and satisfies the strict four-point condition (as rationals), the tree the driver prints for `nj`
has exactly the taxa as leaves and, read through `toRat`, exactly the denoted path lengths. -/
theorem frac_nj_realises_five (n : Nat) (d : Nat → Nat → Frac) (hv : ∀ a b, (d a b).den ≠ 0)
    (hd : ∀ a < n, ∀ b < n, toRat (d a b) = toRat (d b a)) (hn : 1 ≤ n) (h5 : n ≤ 5)
    (hq : StrictFourPoint (List.range n) (fun a b => toRat (d a b))) :
    ∃ r, njTree n d = some r ∧ (NT.leafIds (mapNT toRat r)).Perm (List.range n) ∧
      ∀ i < n, ∀ j < n, i ≠ j → NT.dist (mapNT toRat r) i j = some (toRat (d i j)) := by
  obtain ⟨r, hr, hq'⟩ := frac_nj_tree n d hv hd hn
  obtain ⟨rq, hrq, hp, hdist⟩ := nj_realises_five n (fun a b => toRat (d a b)) hd hn h5 hq
  rw [hq'] at hrq; injection hrq with hrq; subst hrq
  exact ⟨r, hr, hp, hdist⟩


/-- non-vacuity at `Frac`: the five-taxon tree ((0,1),2,(3,4)) with unit edges as a matrix of `Frac` cells -/
def exFiveF (a b : Nat) : Frac :=
  if a = b then Frac.ofNat 0 else
  let side : Nat → Nat := fun i => if i < 2 then 0 else if i = 2 then 1 else 2
  Frac.ofNat (2 + (side a - side b) + (side b - side a))

example := frac_nj_realises_five 5 exFiveF
  (by intro a b; simp only [exFiveF]; split <;> simp [Frac.ofNat])
  (by
    intro a ha b hb
    have ha' : a = 0 ∨ a = 1 ∨ a = 2 ∨ a = 3 ∨ a = 4 := by omega
    have hb' : b = 0 ∨ b = 1 ∨ b = 2 ∨ b = 3 ∨ b = 4 := by omega
    rcases ha' with rfl | rfl | rfl | rfl | rfl <;> rcases hb' with rfl | rfl | rfl | rfl | rfl <;> simp [exFiveF, toRat, Frac.ofNat])
  (by decide) (by decide)
  (by
    intro p hp q hq r hr t ht hnd
    simp only [List.mem_range] at hp hq hr ht
    have hp' : p = 0 ∨ p = 1 ∨ p = 2 ∨ p = 3 ∨ p = 4 := by omega
    have hq' : q = 0 ∨ q = 1 ∨ q = 2 ∨ q = 3 ∨ q = 4 := by omega
    have hr' : r = 0 ∨ r = 1 ∨ r = 2 ∨ r = 3 ∨ r = 4 := by omega
    have ht' : t = 0 ∨ t = 1 ∨ t = 2 ∨ t = 3 ∨ t = 4 := by omega
    rcases hp' with rfl | rfl | rfl | rfl | rfl <;> rcases hq' with rfl | rfl | rfl | rfl | rfl <;>
    rcases hr' with rfl | rfl | rfl | rfl | rfl <;> rcases ht' with rfl | rfl | rfl | rfl | rfl <;>
    first
      | (exfalso; revert hnd; decide)
      | (simp [QuartetAt, exFiveF, toRat, Frac.ofNat] <;> norm_num))


/-! ### the distances of a tree with positive internal edges satisfy the strict four-point condition -/
section treefour
variable {α : Type} [Field α] [LinearOrder α] [IsStrictOrderedRing α]

/-- depth of a leaf below the root of a result-type tree (0 for a label that is not a leaf) -/
def NT.dep (t : NT α) (i : Nat) : α := match NT.depthOf t i with | some x => x | none => 0
/-- no edge length is negative -/
def NT.Nonneg : NT α → Prop
  | .leaf _ => True
  | .node f lf g lg => NT.Nonneg f ∧ NT.Nonneg g ∧ 0 ≤ lf ∧ 0 ≤ lg

namespace Aux
theorem dep_left (f g : NT α) (lf lg : α) (i : Nat) (hi : i ∈ NT.leafIds f) :
    NT.dep (.node f lf g lg) i = NT.dep f i + lf := by
  obtain ⟨x, hx⟩ := depthOf_some f i hi
  simp [NT.dep, NT.depthOf, hx]

theorem dep_right (f g : NT α) (lf lg : α) (i : Nat) (hi : i ∈ NT.leafIds g) (hn : i ∉ NT.leafIds f) :
    NT.dep (.node f lf g lg) i = NT.dep g i + lg := by
  obtain ⟨x, hx⟩ := depthOf_some g i hi
  simp [NT.dep, NT.depthOf, depthOf_none f i hn, hx]

theorem dmat_cross (f g : NT α) (lf lg : α) (i j : Nat) (hi : i ∈ NT.leafIds f) (hj : j ∈ NT.leafIds g)
    (hni : i ∉ NT.leafIds g) (hnj : j ∉ NT.leafIds f) :
    NT.dmat (.node f lf g lg) i j = (NT.dep f i + lf) + (NT.dep g j + lg) ∧
    NT.dmat (.node f lf g lg) j i = (NT.dep f i + lf) + (NT.dep g j + lg) := by
  obtain ⟨x, hx⟩ := depthOf_some f i hi
  obtain ⟨y, hy⟩ := depthOf_some g j hj
  constructor
  · simp [NT.dmat, NT.dist, NT.dep, hx, hy, depthOf_none f j hnj]
  · simp [NT.dmat, NT.dist, NT.dep, hx, hy, depthOf_none f j hnj]; ring

theorem dep_nonneg : ∀ (t : NT α), NT.Nonneg t → ∀ i, 0 ≤ NT.dep t i
  | .leaf j, _, i => by simp only [NT.dep, NT.depthOf]; split <;> simp_all
  | .node f lf g lg, h, i => by
    have h1 := dep_nonneg f h.1 i
    have h2 := dep_nonneg g h.2.1 i
    simp only [NT.dep, NT.depthOf] at h1 h2 ⊢
    cases hf : NT.depthOf f i with
    | some x => simp only [hf] at h1 ⊢; linarith [h.2.2.1]
    | none =>
      cases hg : NT.depthOf g i with
      | some y => simp only [hg] at h2 ⊢; linarith [h.2.2.2]
      | none => simp

/-- two leaves are never further apart than the sum of their depths -/
theorem dmat_le_dep : ∀ (t : NT α), NT.Nonneg t → (NT.leafIds t).Nodup → ∀ i ∈ NT.leafIds t, ∀ j ∈ NT.leafIds t, i ≠ j →
    NT.dmat t i j ≤ NT.dep t i + NT.dep t j
  | .leaf k, _, _, i, hi, j, hj, hij => by simp [NT.leafIds] at hi hj; exact absurd (hi.trans hj.symm) hij
  | .node f lf g lg, h, hnd, i, hi, j, hj, hij => by
    simp only [NT.leafIds] at hnd hi hj
    have hnd' := List.nodup_append.mp hnd
    have hdis : ∀ a ∈ NT.leafIds f, a ∉ NT.leafIds g := fun a ha hb => hnd'.2.2 a ha a hb rfl
    rcases List.mem_append.mp hi with ci | ci <;> rcases List.mem_append.mp hj with cj | cj
    · rw [dmat_left f g lf lg i j ci cj, dep_left f g lf lg i ci, dep_left f g lf lg j cj]
      have := dmat_le_dep f h.1 hnd'.1 i ci j cj hij
      linarith [h.2.2.1]
    · rw [(dmat_cross f g lf lg i j ci cj (hdis i ci) (fun c => hdis j c cj)).1, dep_left f g lf lg i ci,
        dep_right f g lf lg j cj (fun c => hdis j c cj)]
    · rw [(dmat_cross f g lf lg j i cj ci (hdis j cj) (fun c => hdis i c ci)).2, dep_left f g lf lg j cj,
        dep_right f g lf lg i ci (fun c => hdis i c ci)]
      linarith
    · have ni := fun c => hdis i c ci; have nj := fun c => hdis j c cj
      rw [dmat_right f g lf lg i j ni nj, dep_right f g lf lg i ci ni, dep_right f g lf lg j cj nj]
      have := dmat_le_dep g h.2.1 hnd'.2.1 i ci j cj hij
      linarith [h.2.2.2]
end Aux
end treefour


section treefour2
variable {α : Type} [Field α] [LinearOrder α] [IsStrictOrderedRing α]

namespace Aux
/-- close a goal of the shape `(a < b ∧ b = c) ∨ (b < a ∧ a = c) ∨ (c < a ∧ a = b)` by linear arithmetic -/
macro "close3" : tactic =>
  `(tactic| first
    | exact Or.inl ⟨by linarith, by linarith⟩
    | exact Or.inr (Or.inl ⟨by linarith, by linarith⟩)
    | exact Or.inr (Or.inr ⟨by linarith, by linarith⟩))

theorem not_leaf_of_two (f : NT α) (i j : Nat) (hi : i ∈ NT.leafIds f) (hj : j ∈ NT.leafIds f) (hij : i ≠ j) :
    ¬ ∃ k, f = .leaf k := by
  rintro ⟨k, rfl⟩
  simp [NT.leafIds] at hi hj; exact hij (hi.trans hj.symm)

/-- rooted three-point condition: of the three pairs among three leaves, two have their common ancestor at the same depth and the
third strictly deeper (written with `P x y = d x y − dep x − dep y`, minus twice the depth of the common ancestor) -/
theorem rooted_three : ∀ (t : NT α), NT.Nonneg t → NT.PosInternal t → (NT.leafIds t).Nodup →
    ∀ i ∈ NT.leafIds t, ∀ j ∈ NT.leafIds t, ∀ k ∈ NT.leafIds t, i ≠ j → j ≠ k → i ≠ k →
    (NT.dmat t i j - NT.dep t i - NT.dep t j < NT.dmat t i k - NT.dep t i - NT.dep t k ∧
        NT.dmat t i k - NT.dep t i - NT.dep t k = NT.dmat t j k - NT.dep t j - NT.dep t k) ∨
    (NT.dmat t i k - NT.dep t i - NT.dep t k < NT.dmat t i j - NT.dep t i - NT.dep t j ∧
        NT.dmat t i j - NT.dep t i - NT.dep t j = NT.dmat t j k - NT.dep t j - NT.dep t k) ∨
    (NT.dmat t j k - NT.dep t j - NT.dep t k < NT.dmat t i j - NT.dep t i - NT.dep t j ∧
        NT.dmat t i j - NT.dep t i - NT.dep t j = NT.dmat t i k - NT.dep t i - NT.dep t k)
  | .leaf l, _, _, _, i, hi, j, hj, _, _, hij, _, _ => by
    simp [NT.leafIds] at hi hj; exact absurd (hi.trans hj.symm) hij
  | .node f lf g lg, hnn, hp, hnd, i, hi, j, hj, k, hk, hij, hjk, hik => by
    simp only [NT.leafIds] at hnd hi hj hk
    have hnd' := List.nodup_append.mp hnd
    have hdis : ∀ a ∈ NT.leafIds f, a ∉ NT.leafIds g := fun a ha hb => hnd'.2.2 a ha a hb rfl
    have hdis' : ∀ a ∈ NT.leafIds g, a ∉ NT.leafIds f := fun a ha hb => hdis a hb ha
    -- facts for leaves on the left / on the right
    have L := fun x (hx : x ∈ NT.leafIds f) => dep_left f g lf lg x hx
    have R := fun x (hx : x ∈ NT.leafIds g) => dep_right f g lf lg x hx (hdis' x hx)
    have LL := fun x y (hx : x ∈ NT.leafIds f) (hy : y ∈ NT.leafIds f) => dmat_left f g lf lg x y hx hy
    have RR := fun x y (hx : x ∈ NT.leafIds g) (hy : y ∈ NT.leafIds g) => dmat_right f g lf lg x y (hdis' x hx) (hdis' y hy)
    have LR := fun x y (hx : x ∈ NT.leafIds f) (hy : y ∈ NT.leafIds g) => dmat_cross f g lf lg x y hx hy (hdis x hx) (hdis' y hy)
    have posf : ∀ x y, x ∈ NT.leafIds f → y ∈ NT.leafIds f → x ≠ y → 0 < lf := fun x y hx hy hxy => by
      rcases hp.2.2.1 with h | h
      · exact absurd h (not_leaf_of_two f x y hx hy hxy)
      · exact h
    have posg : ∀ x y, x ∈ NT.leafIds g → y ∈ NT.leafIds g → x ≠ y → 0 < lg := fun x y hx hy hxy => by
      rcases hp.2.2.2 with h | h
      · exact absurd h (not_leaf_of_two g x y hx hy hxy)
      · exact h
    have bf := fun x y (hx : x ∈ NT.leafIds f) (hy : y ∈ NT.leafIds f) (hxy : x ≠ y) => dmat_le_dep f hnn.1 hnd'.1 x hx y hy hxy
    have bg := fun x y (hx : x ∈ NT.leafIds g) (hy : y ∈ NT.leafIds g) (hxy : x ≠ y) => dmat_le_dep g hnn.2.1 hnd'.2.1 x hx y hy hxy
    rcases List.mem_append.mp hi with ci | ci <;> rcases List.mem_append.mp hj with cj | cj <;>
      rcases List.mem_append.mp hk with ck | ck
    · -- f f f
      rw [LL i j ci cj, LL i k ci ck, LL j k cj ck, L i ci, L j cj, L k ck]
      rcases rooted_three f hnn.1 hp.1 hnd'.1 i ci j cj k ck hij hjk hik with ⟨a, b⟩ | ⟨a, b⟩ | ⟨a, b⟩ <;> close3
    · -- f f g
      rw [LL i j ci cj, (LR i k ci ck).1, (LR j k cj ck).1, L i ci, L j cj, R k ck]
      have := bf i j ci cj hij; have := posf i j ci cj hij
      close3
    · -- f g f
      rw [(LR i j ci cj).1, LL i k ci ck, (LR k j ck cj).2, L i ci, R j cj, L k ck]
      have := bf i k ci ck hik; have := posf i k ci ck hik
      close3
    · -- f g g
      rw [(LR i j ci cj).1, (LR i k ci ck).1, RR j k cj ck, L i ci, R j cj, R k ck]
      have := bg j k cj ck hjk; have := posg j k cj ck hjk
      close3
    · -- g f f
      rw [(LR j i cj ci).2, (LR k i ck ci).2, LL j k cj ck, R i ci, L j cj, L k ck]
      have := bf j k cj ck hjk; have := posf j k cj ck hjk
      close3
    · -- g f g
      rw [(LR j i cj ci).2, RR i k ci ck, (LR j k cj ck).1, R i ci, L j cj, R k ck]
      have := bg i k ci ck hik; have := posg i k ci ck hik
      close3
    · -- g g f
      rw [RR i j ci cj, (LR k i ck ci).2, (LR k j ck cj).2, R i ci, R j cj, L k ck]
      have := bg i j ci cj hij; have := posg i j ci cj hij
      close3
    · -- g g g
      rw [RR i j ci cj, RR i k ci ck, RR j k cj ck, R i ci, R j cj, R k ck]
      rcases rooted_three g hnn.2.1 hp.2.1 hnd'.2.1 i ci j cj k ck hij hjk hik with ⟨a, b⟩ | ⟨a, b⟩ | ⟨a, b⟩ <;> close3
end Aux
end treefour2


section treefour3
variable {α : Type} [Field α] [LinearOrder α] [IsStrictOrderedRing α]

/-- (d) `tree_four_point` — the distances of a tree satisfy the strict four-point condition.  For every binary tree of the result type
(read as an unrooted tree: the two edges at the root form one edge) with non-negative edge lengths and positive internal edge
lengths, any four different leaves form a quartet with a positive internal edge: of the three pairing sums one is strictly
smaller than the other two, which are equal. -/
theorem tree_four_point : ∀ (t : NT α), NT.Nonneg t → NT.PosInternal t → (NT.leafIds t).Nodup →
    ∀ i ∈ NT.leafIds t, ∀ j ∈ NT.leafIds t, ∀ k ∈ NT.leafIds t, ∀ l ∈ NT.leafIds t,
    i ≠ j → i ≠ k → i ≠ l → j ≠ k → j ≠ l → k ≠ l → QuartetAt (NT.dmat t) i j k l
  | .leaf m, _, _, _, i, hi, j, hj, _, _, _, _, hij, _, _, _, _, _ => by
    simp [NT.leafIds] at hi hj; exact absurd (hi.trans hj.symm) hij
  | .node f lf g lg, hnn, hp, hnd, i, hi, j, hj, k, hk, l, hl, hij, hik, hil, hjk, hjl, hkl => by
    simp only [NT.leafIds] at hnd hi hj hk hl
    have hnd' := List.nodup_append.mp hnd
    have hdis : ∀ a ∈ NT.leafIds f, a ∉ NT.leafIds g := fun a ha hb => hnd'.2.2 a ha a hb rfl
    have hdis' : ∀ a ∈ NT.leafIds g, a ∉ NT.leafIds f := fun a ha hb => hdis a hb ha
    have LL := fun x y (hx : x ∈ NT.leafIds f) (hy : y ∈ NT.leafIds f) => dmat_left f g lf lg x y hx hy
    have RR := fun x y (hx : x ∈ NT.leafIds g) (hy : y ∈ NT.leafIds g) => dmat_right f g lf lg x y (hdis' x hx) (hdis' y hy)
    have LR := fun x y (hx : x ∈ NT.leafIds f) (hy : y ∈ NT.leafIds g) => dmat_cross f g lf lg x y hx hy (hdis x hx) (hdis' y hy)
    have posf : ∀ x y, x ∈ NT.leafIds f → y ∈ NT.leafIds f → x ≠ y → 0 < lf := fun x y hx hy hxy => by
      rcases hp.2.2.1 with h | h
      · exact absurd h (not_leaf_of_two f x y hx hy hxy)
      · exact h
    have bf := fun x y (hx : x ∈ NT.leafIds f) (hy : y ∈ NT.leafIds f) (hxy : x ≠ y) => dmat_le_dep f hnn.1 hnd'.1 x hx y hy hxy
    have bg := fun x y (hx : x ∈ NT.leafIds g) (hy : y ∈ NT.leafIds g) (hxy : x ≠ y) => dmat_le_dep g hnn.2.1 hnd'.2.1 x hx y hy hxy
    simp only [QuartetAt]
    rcases List.mem_append.mp hi with ci | ci <;> rcases List.mem_append.mp hj with cj | cj <;>
      rcases List.mem_append.mp hk with ck | ck <;> rcases List.mem_append.mp hl with cl | cl
    · -- f f f f
      rw [LL i j ci cj, LL k l ck cl, LL i k ci ck, LL j l cj cl, LL i l ci cl, LL j k cj ck]
      have := tree_four_point f hnn.1 hp.1 hnd'.1 i ci j cj k ck l cl hij hik hil hjk hjl hkl
      simp only [QuartetAt] at this; exact this
    · -- f f f g
      rw [LL i j ci cj, (LR k l ck cl).1, LL i k ci ck, (LR j l cj cl).1, (LR i l ci cl).1, LL j k cj ck]
      rcases rooted_three f hnn.1 hp.1 hnd'.1 i ci j cj k ck hij hjk hik with ⟨a1, b1⟩ | ⟨a1, b1⟩ | ⟨a1, b1⟩ <;> close3
    · -- f f g f
      rw [LL i j ci cj, (LR l k cl ck).2, (LR i k ci ck).1, LL j l cj cl, LL i l ci cl, (LR j k cj ck).1]
      rcases rooted_three f hnn.1 hp.1 hnd'.1 i ci j cj l cl hij hjl hil with ⟨a1, b1⟩ | ⟨a1, b1⟩ | ⟨a1, b1⟩ <;> close3
    · -- f f g g
      rw [LL i j ci cj, RR k l ck cl, (LR i k ci ck).1, (LR j l cj cl).1, (LR i l ci cl).1, (LR j k cj ck).1]
      have := bf i j ci cj hij; have := bg k l ck cl hkl
      have := posf i j ci cj hij; have := hnn.2.2.2
      close3
    · -- f g f f
      rw [(LR i j ci cj).1, LL k l ck cl, LL i k ci ck, (LR l j cl cj).2, LL i l ci cl, (LR k j ck cj).2]
      rcases rooted_three f hnn.1 hp.1 hnd'.1 i ci k ck l cl hik hkl hil with ⟨a1, b1⟩ | ⟨a1, b1⟩ | ⟨a1, b1⟩ <;> close3
    · -- f g f g
      rw [(LR i j ci cj).1, (LR k l ck cl).1, LL i k ci ck, RR j l cj cl, (LR i l ci cl).1, (LR k j ck cj).2]
      have := bf i k ci ck hik; have := bg j l cj cl hjl
      have := posf i k ci ck hik; have := hnn.2.2.2
      close3
    · -- f g g f
      rw [(LR i j ci cj).1, (LR l k cl ck).2, (LR i k ci ck).1, (LR l j cl cj).2, LL i l ci cl, RR j k cj ck]
      have := bf i l ci cl hil; have := bg j k cj ck hjk
      have := posf i l ci cl hil; have := hnn.2.2.2
      close3
    · -- f g g g
      rw [(LR i j ci cj).1, RR k l ck cl, (LR i k ci ck).1, RR j l cj cl, (LR i l ci cl).1, RR j k cj ck]
      rcases rooted_three g hnn.2.1 hp.2.1 hnd'.2.1 j cj k ck l cl hjk hkl hjl with ⟨a1, b1⟩ | ⟨a1, b1⟩ | ⟨a1, b1⟩ <;> close3
    · -- g f f f
      rw [(LR j i cj ci).2, LL k l ck cl, (LR k i ck ci).2, LL j l cj cl, (LR l i cl ci).2, LL j k cj ck]
      rcases rooted_three f hnn.1 hp.1 hnd'.1 j cj k ck l cl hjk hkl hjl with ⟨a1, b1⟩ | ⟨a1, b1⟩ | ⟨a1, b1⟩ <;> close3
    · -- g f f g
      rw [(LR j i cj ci).2, (LR k l ck cl).1, (LR k i ck ci).2, (LR j l cj cl).1, RR i l ci cl, LL j k cj ck]
      have := bf j k cj ck hjk; have := bg i l ci cl hil
      have := posf j k cj ck hjk; have := hnn.2.2.2
      close3
    · -- g f g f
      rw [(LR j i cj ci).2, (LR l k cl ck).2, RR i k ci ck, LL j l cj cl, (LR l i cl ci).2, (LR j k cj ck).1]
      have := bf j l cj cl hjl; have := bg i k ci ck hik
      have := posf j l cj cl hjl; have := hnn.2.2.2
      close3
    · -- g f g g
      rw [(LR j i cj ci).2, RR k l ck cl, RR i k ci ck, (LR j l cj cl).1, RR i l ci cl, (LR j k cj ck).1]
      rcases rooted_three g hnn.2.1 hp.2.1 hnd'.2.1 i ci k ck l cl hik hkl hil with ⟨a1, b1⟩ | ⟨a1, b1⟩ | ⟨a1, b1⟩ <;> close3
    · -- g g f f
      rw [RR i j ci cj, LL k l ck cl, (LR k i ck ci).2, (LR l j cl cj).2, (LR l i cl ci).2, (LR k j ck cj).2]
      have := bf k l ck cl hkl; have := bg i j ci cj hij
      have := posf k l ck cl hkl; have := hnn.2.2.2
      close3
    · -- g g f g
      rw [RR i j ci cj, (LR k l ck cl).1, (LR k i ck ci).2, RR j l cj cl, RR i l ci cl, (LR k j ck cj).2]
      rcases rooted_three g hnn.2.1 hp.2.1 hnd'.2.1 i ci j cj l cl hij hjl hil with ⟨a1, b1⟩ | ⟨a1, b1⟩ | ⟨a1, b1⟩ <;> close3
    · -- g g g f
      rw [RR i j ci cj, (LR l k cl ck).2, RR i k ci ck, (LR l j cl cj).2, (LR l i cl ci).2, RR j k cj ck]
      rcases rooted_three g hnn.2.1 hp.2.1 hnd'.2.1 i ci j cj k ck hij hjk hik with ⟨a1, b1⟩ | ⟨a1, b1⟩ | ⟨a1, b1⟩ <;> close3
    · -- g g g g
      rw [RR i j ci cj, RR k l ck cl, RR i k ci ck, RR j l cj cl, RR i l ci cl, RR j k cj ck]
      have := tree_four_point g hnn.2.1 hp.2.1 hnd'.2.1 i ci j cj k ck l cl hij hik hil hjk hjl hkl
      simp only [QuartetAt] at this; exact this
end treefour3


section treefour4
variable {α : Type} [Field α] [LinearOrder α] [IsStrictOrderedRing α] [CharZero α]

/-- (d) `nj_inverts_tree_five` — the NJ clause of the property for up to five taxa, about trees: for every binary tree `src` on the
taxa `0 … n-1`, `n ≤ 5`, with non-negative edge lengths and positive internal edge lengths, `nj_tree` applied to the
path-length matrix of `src` returns a tree on exactly the taxa in which every two taxa are exactly as far apart as in `src`
(`tree_four_point` + `nj_realises_five`).  For `n ≥ 6` the same statement follows from `nj_realises_of_quartet_lemma`
once `MinQCherryAt α N` is available for `6 ≤ N ≤ n`. -/
theorem nj_inverts_tree_five (n : Nat) (src : NT α) (hnn : NT.Nonneg src) (hp : NT.PosInternal src)
    (hnd : (NT.leafIds src).Nodup) (hl : (NT.leafIds src).Perm (List.range n)) (h5 : n ≤ 5) :
    ∃ r, njTree n (NT.dmat src) = some r ∧ (NT.leafIds r).Perm (List.range n) ∧
      ∀ i < n, ∀ j < n, i ≠ j → NT.dist r i j = some (NT.dmat src i j) := by
  have hmem : ∀ i, i ∈ List.range n → i ∈ NT.leafIds src := fun i hi => hl.mem_iff.mpr hi
  have hn : 1 ≤ n := by
    have := List.length_pos_iff.mpr (leafIds_ne_nil src)
    rw [hl.length_eq, List.length_range] at this; exact this
  refine nj_realises_five n (NT.dmat src) (fun a _ b _ => by simp only [NT.dmat, dist_symm src a b]) hn h5 ?_
  intro p hp' q hq r hr t ht hn4
  simp only [List.nodup_cons, List.mem_cons, List.mem_singleton, not_or, List.not_mem_nil, not_false_eq_true,
    List.nodup_nil, and_true] at hn4
  obtain ⟨⟨n1, n2, n3⟩, ⟨n4, n5⟩, n6⟩ := hn4
  exact tree_four_point src hnn hp hnd p (hmem p hp') q (hmem q hq) r (hmem r hr) t (hmem t ht) n1 n2 n3 n4 n5 n6

/-- (d) **`nj_inverts_tree`** — the NJ clause of the property about trees, for any number of taxa: for every binary tree `src` on
the taxa `0 … n-1` with non-negative edge lengths and positive internal edge lengths, `nj_tree` applied to the path-length matrix of
`src` returns a tree on exactly the taxa in which every two taxa are exactly as far apart as in `src`
(`tree_four_point` + `nj_realises`).  What is not formalised is the last step from "the same path lengths" to "the same unrooted
topology and edge lengths" (uniqueness of the tree realising an additive metric; for ultrametric trees it is `ultra_unique`). -/
theorem nj_inverts_tree (n : Nat) (src : NT α) (hnn : NT.Nonneg src) (hp : NT.PosInternal src)
    (hnd : (NT.leafIds src).Nodup) (hl : (NT.leafIds src).Perm (List.range n)) :
    ∃ r, njTree n (NT.dmat src) = some r ∧ (NT.leafIds r).Perm (List.range n) ∧
      ∀ i < n, ∀ j < n, i ≠ j → NT.dist r i j = some (NT.dmat src i j) := by
  have hmem : ∀ i, i ∈ List.range n → i ∈ NT.leafIds src := fun i hi => hl.mem_iff.mpr hi
  have hn : 1 ≤ n := by
    have := List.length_pos_iff.mpr (leafIds_ne_nil src)
    rw [hl.length_eq, List.length_range] at this; exact this
  refine nj_realises n (NT.dmat src) (fun a _ b _ => by simp only [NT.dmat, dist_symm src a b]) hn ?_
  intro p hp' q hq r hr t ht hn4
  simp only [List.nodup_cons, List.mem_cons, List.mem_singleton, not_or, List.not_mem_nil, not_false_eq_true,
    List.nodup_nil, and_true] at hn4
  obtain ⟨⟨n1, n2, n3⟩, ⟨n4, n5⟩, n6⟩ := hn4
  exact tree_four_point src hnn hp hnd p (hmem p hp') q (hmem q hq) r (hmem r hr) t (hmem t ht) n1 n2 n3 n4 n5 n6
end treefour4

/-- non-vacuity: the five-taxon tree ((0:1,1:1):1,(2:1,(3:1,4:1):1):1) — as an unrooted tree ((0,1),2,(3,4)) -/
example := nj_inverts_tree_five (α := ℚ) 5
  (.node (.node (.leaf 0) 1 (.leaf 1) 1) 1 (.node (.leaf 2) 1 (.node (.leaf 3) 1 (.leaf 4) 1) 1) 1)
  (by simp [NT.Nonneg]) (by simp [NT.PosInternal]) (by decide) (by decide) (by decide)

/-- non-vacuity beyond five taxa: the eight-taxon tree (((0,1),(2,3)),((4,5),(6,7))) with unequal edge lengths -/
example := nj_inverts_tree (α := ℚ) 8
  (.node (.node (.node (.leaf 0) 1 (.leaf 1) 2) (1/2) (.node (.leaf 2) 3 (.leaf 3) 1) 2) 1
         (.node (.node (.leaf 4) 1 (.leaf 5) 1) 3 (.node (.leaf 6) (1/4) (.leaf 7) 5) 1) (3/2))
  (by simp [NT.Nonneg]; norm_num) (by simp [NT.PosInternal]) (by decide) (by decide)


/-! ## tie A: the kernels of `nj_tree` / `upgma_tree` regenerated from the source (`Gen/C14Kernels.lean`) are the model's formulas -/
section genbridge
set_option linter.unusedTactic false
set_option linter.unreachableTactic false
set_option linter.unnecessarySeqFocus false
/-- close an identity between a model formula and a regenerated one, whatever is left of it after unfolding -/
local macro "kfin" : tactic => `(tactic| first | (push_cast; ring) | (push_cast; done) | ring | rfl)
variable {α : Type} [Field α]

/-- tie A: the model's Q-criterion is the regenerated `qvalue` expression (while the pool has at least two members, as in the loop) -/
theorem gen_njQ (s : NJ α) (p : Nat × Nat) (h2 : 2 ≤ s.pool.length) :
    qval s p = C14Kernels.njQ s.pool.length (s.d p.1 p.2) (s.x p.1) (s.x p.2) := by
  simp only [qval, C14Kernels.njQ, Nat.cast_sub h2] <;> kfin

/-- tie A: the model's reduced distance d(u,k) is the regenerated `0.5 * (v1 - v3)` -/
theorem gen_njNewDist (s : NJ α) (f g k : Nat) :
    njNewDist s f g k = C14Kernels.njNewDist (s.d k f) (s.d k g) (s.d f g) := by
  simp only [njNewDist, C14Kernels.njNewDist] <;> kfin

/-- tie A: the distances after a join, cell by cell, with the regenerated reduced distance -/
theorem gen_njJoin_d (s : NJ α) (f g a b : Nat) :
    (njJoin s f g).d a b =
      if a = s.next then C14Kernels.njNewDist (s.d b f) (s.d b g) (s.d f g)
      else if b = s.next then C14Kernels.njNewDist (s.d a f) (s.d a g) (s.d f g) else s.d a b := by
  simp only [njJoin, gen_njNewDist]

/-- tie A: the incremental `_nj_xsub` bookkeeping of a join is the regenerated update: the new node accumulates the regenerated
step from the regenerated initial value over the remaining pool, every other member gets the regenerated correction -/
theorem gen_njJoin_x (s : NJ α) (f g k : Nat) :
    (njJoin s f g).x k =
      if k = s.next then
        ((s.pool.erase f).erase g).foldl (fun acc m => C14Kernels.njNewXsubStep acc (s.d m f) (s.d m g) (s.d f g)) C14Kernels.njNewXsubInit
      else C14Kernels.njNodeXsub (s.x k) (s.d k f) (s.d k g) (s.d f g) (s.d f k) (s.d g k) := by
  simp only [njJoin]
  split
  · have e : (fun acc m => acc + njNewDist s f g m) =
        (fun acc m => C14Kernels.njNewXsubStep acc (s.d m f) (s.d m g) (s.d f g)) := by
      funext acc m
      simp only [njNewDist, C14Kernels.njNewXsubStep] <;> kfin
    have z : (0 : α) = C14Kernels.njNewXsubInit := by simp only [C14Kernels.njNewXsubInit] <;> kfin
    rw [e, z]
  · simp only [njNewDist, C14Kernels.njNodeXsub] <;> kfin

/-- tie A: the two branch lengths of a join, both branches and the threshold of `if n > 2`, are the regenerated ones -/
theorem gen_njLengths [CharZero α] (s : NJ α) (f g : Nat) :
    njLengths s f g = C14Kernels.njLengths s.pool.length (s.d f g) (s.x f) (s.x g) := by
  simp only [njLengths, C14Kernels.njLengths, gt_iff_lt, ge_iff_le]
  by_cases h : 2 < s.pool.length
  · have h2 : 2 ≤ s.pool.length := by omega
    have h3 : 3 ≤ s.pool.length := h
    have e : ((2 * (s.pool.length - 2) : Nat) : α) = 2 * ((s.pool.length : α) - 2) := by
      rw [Nat.cast_mul, Nat.cast_sub h2]; norm_num
    simp only [h, h3, if_true, e] <;> (refine Prod.ext ?_ ?_ <;> simp only <;> kfin)
  · have h3 : ¬ 3 ≤ s.pool.length := by omega
    simp only [h, h3, if_false] <;> (refine Prod.ext ?_ ?_ <;> simp only <;> kfin)

/-- tie A: `while n > 1` is the guard of `njRun` -/
theorem gen_njContinue (s : NJ α) : C14Kernels.njContinue s.pool.length = decide (s.pool.length > 1) := by
  simp only [C14Kernels.njContinue, gt_iff_lt, ge_iff_le, decide_eq_decide] <;> omega

/-- tie A: both minimum searches replace the minimum only by a strictly smaller value (what `argmin` does) -/
theorem gen_pick_strict : C14Kernels.njPickStrict = true ∧ C14Kernels.upPickStrict = true := ⟨rfl, rfl⟩

/-- tie A: the model's size-weighted cluster average is the regenerated `d1 / count` -/
theorem gen_upNewDist (s : UP α) (f g k : Nat) :
    upNewDist s f g k = C14Kernels.upAvg (s.d f k) (s.d g k) (s.cl f).length (s.cl g).length := by
  simp only [upNewDist, C14Kernels.upAvg] <;> kfin

/-- tie A: the edge lengths UPGMA assigns at a join are the regenerated `elen - _upgma_distance_from_tip` -/
theorem gen_upJoin_sub (s : UP α) (f g k : Nat) :
    (upJoin s f g).sub k =
      if k = s.next then .node (s.sub f) (C14Kernels.upLenF (s.d f g) (s.h f) (s.h g)) (s.sub g) (C14Kernels.upLenG (s.d f g) (s.h f) (s.h g))
      else s.sub k := by
  have e1 : s.d f g / ((2 : Nat) : α) - s.h f = C14Kernels.upLenF (s.d f g) (s.h f) (s.h g) := by
    simp only [C14Kernels.upLenF] <;> kfin
  have e2 : s.d f g / ((2 : Nat) : α) - s.h g = C14Kernels.upLenG (s.d f g) (s.h f) (s.h g) := by
    simp only [C14Kernels.upLenG] <;> kfin
  simp only [upJoin, e1, e2]

/-- tie A: the new cluster's distance from the tips is the regenerated one -/
theorem gen_upJoin_h (s : UP α) (f g k : Nat) :
    (upJoin s f g).h k = if k = s.next then C14Kernels.upHeight (s.d f g) (s.h f) (s.h g) else s.h k := by
  simp only [upJoin]
  split
  · simp only [C14Kernels.upHeight] <;> kfin
  · rfl
end genbridge

/-! ## the traced states of the two main loops (ops `njtrace` / `uptrace`) are the states of the runs the theorems speak about -/
section states
variable {α : Type} [Field α] [LinearOrder α]

/-- the traced states: `njRun` is one more step after the last state listed by `njStates` (so the listing the driver prints for
`njtrace` is the run the theorems speak about) -/
theorem nj_run_states : ∀ (fuel : Nat) (s : NJ α), njRun fuel s = ((njStates fuel s).getLast?.map njStep).getD s
  | 0, s => by simp [njRun, njStates]
  | fuel + 1, s => by
    simp only [njRun, njStates]
    split
    · rw [nj_run_states fuel (njStep s)]
      cases h : njStates fuel (njStep s) with
      | nil => simp
      | cons a l =>
        cases hgl : (a :: l).getLast? with
        | none => simp at hgl
        | some b => simp [hgl]
    · simp

/-- every traced state satisfies the row-sum invariant and has at least two pool members: the `_nj_xsub` values printed by `njtrace`
are the row sums of the distances of that state -/
theorem nj_states_inv : ∀ (fuel : Nat) (s : NJ α), NJInv s → ∀ t ∈ njStates fuel s, NJInv t ∧ 1 < t.pool.length
  | 0, s, _, t, ht => by simp [njStates] at ht
  | fuel + 1, s, h, t, ht => by
    simp only [njStates] at ht
    split at ht
    · rename_i hl
      rcases List.mem_cons.mp ht with rfl | ht'
      · exact ⟨h, hl⟩
      · exact nj_states_inv fuel (njStep s) (nj_step_inv s h) t ht'
    · simp at ht

theorem up_run_states : ∀ (fuel : Nat) (s : UP α), upRun fuel s = ((upStates fuel s).getLast?.map upStep).getD s
  | 0, s => by simp [upRun, upStates]
  | fuel + 1, s => by
    simp only [upRun, upStates]
    split
    · rw [up_run_states fuel (upStep s)]
      cases h : upStates fuel (upStep s) with
      | nil => simp
      | cons a l =>
        cases hgl : (a :: l).getLast? with
        | none => simp at hgl
        | some b => simp [hgl]
    · simp
end states

/-! ## wave 3: every edge of a tree is visible in its path lengths (one half of the split characterisation of a tree metric) -/
section splits
variable {α : Type} [Field α] [LinearOrder α] [IsStrictOrderedRing α]

/-- `u` is a proper subtree of `t`, hanging by an edge of length `e` -/
inductive NT.Sub : NT α → α → NT α → Prop
  | left (f : NT α) (lf : α) (g : NT α) (lg : α) : NT.Sub f lf (.node f lf g lg)
  | right (f : NT α) (lf : α) (g : NT α) (lg : α) : NT.Sub g lg (.node f lf g lg)
  | inl {u : NT α} {e : α} (f : NT α) (lf : α) (g : NT α) (lg : α) : NT.Sub u e f → NT.Sub u e (.node f lf g lg)
  | inr {u : NT α} {e : α} (f : NT α) (lf : α) (g : NT α) (lg : α) : NT.Sub u e g → NT.Sub u e (.node f lf g lg)

namespace Aux
theorem sub_mem {u t : NT α} {e : α} (h : NT.Sub u e t) : ∀ a ∈ NT.leafIds u, a ∈ NT.leafIds t := by
  induction h with
  | left f lf g lg => intro a ha; simp [NT.leafIds, ha]
  | right f lf g lg => intro a ha; simp [NT.leafIds, ha]
  | inl f lf g lg _ ih => intro a ha; simp [NT.leafIds, ih a ha]
  | inr f lf g lg _ ih => intro a ha; simp [NT.leafIds, ih a ha]

theorem sub_nonneg {u t : NT α} {e : α} (h : NT.Sub u e t) : NT.Nonneg t → NT.Nonneg u ∧ 0 ≤ e := by
  induction h with
  | left f lf g lg => intro hn; exact ⟨hn.1, hn.2.2.1⟩
  | right f lf g lg => intro hn; exact ⟨hn.2.1, hn.2.2.2⟩
  | inl f lf g lg _ ih => intro hn; exact ih hn.1
  | inr f lf g lg _ ih => intro hn; exact ih hn.2.1

theorem sub_nodup {u t : NT α} {e : α} (h : NT.Sub u e t) : (NT.leafIds t).Nodup → (NT.leafIds u).Nodup := by
  induction h with
  | left f lf g lg => intro hn; simp only [NT.leafIds] at hn; exact (List.nodup_append.mp hn).1
  | right f lf g lg => intro hn; simp only [NT.leafIds] at hn; exact (List.nodup_append.mp hn).2.1
  | inl f lf g lg _ ih => intro hn; simp only [NT.leafIds] at hn; exact ih (List.nodup_append.mp hn).1
  | inr f lf g lg _ ih => intro hn; simp only [NT.leafIds] at hn; exact ih (List.nodup_append.mp hn).2.1

theorem dmat_symm (t : NT α) (i j : Nat) : NT.dmat t i j = NT.dmat t j i := by
  simp only [NT.dmat, dist_symm t i j]

/-- what an edge looks like from the leaves: the leaves below it are further from the root by `σ`, every leaf `b` beyond it is at
`ρ b` from its lower end, and two leaves beyond it never use it -/
theorem sub_profile {u t : NT α} {e : α} (h : NT.Sub u e t) : NT.Nonneg t → (NT.leafIds t).Nodup →
    ∃ (σ : α) (ρ : Nat → α), e ≤ σ ∧
      (∀ a ∈ NT.leafIds u, NT.dep t a = NT.dep u a + σ) ∧
      (∀ b ∈ NT.leafIds t, b ∉ NT.leafIds u → e ≤ ρ b ∧ NT.dep t b + 2 * e ≤ ρ b + σ) ∧
      (∀ a ∈ NT.leafIds u, ∀ b ∈ NT.leafIds t, b ∉ NT.leafIds u → NT.dmat t a b = NT.dep u a + ρ b) ∧
      (∀ b ∈ NT.leafIds t, b ∉ NT.leafIds u → ∀ b' ∈ NT.leafIds t, b' ∉ NT.leafIds u → b ≠ b' → NT.dmat t b b' + 2 * e ≤ ρ b + ρ b') ∧
      (∀ a ∈ NT.leafIds u, ∀ a' ∈ NT.leafIds u, NT.dmat t a a' = NT.dmat u a a') := by
  induction h with
  | left f lf g lg =>
    intro hn hnd
    simp only [NT.leafIds] at hnd
    have hnd' := List.nodup_append.mp hnd
    have hdis : ∀ a ∈ NT.leafIds f, a ∉ NT.leafIds g := fun a ha hb => hnd'.2.2 a ha a hb rfl
    have ing : ∀ b ∈ NT.leafIds (NT.node f lf g lg), b ∉ NT.leafIds f → b ∈ NT.leafIds g := by
      intro b hb hbf; simp only [NT.leafIds, List.mem_append] at hb; exact hb.resolve_left hbf
    refine ⟨lf, fun b => NT.dep g b + lg + lf, le_refl _, fun a ha => dep_left f g lf lg a ha, ?_, ?_, ?_, fun a ha a' ha' => dmat_left f g lf lg a a' ha ha'⟩
    · intro b hb hbf
      have := dep_nonneg g hn.2.1 b
      rw [dep_right f g lf lg b (ing b hb hbf) hbf]
      exact ⟨by linarith [hn.2.2.2], by linarith⟩
    · intro a ha b hb hbf
      rw [(dmat_cross f g lf lg a b ha (ing b hb hbf) (hdis a ha) hbf).1]; ring
    · intro b hb hbf b' hb' hbf' hne
      rw [dmat_right f g lf lg b b' hbf hbf']
      have := dmat_le_dep g hn.2.1 hnd'.2.1 b (ing b hb hbf) b' (ing b' hb' hbf') hne
      linarith [hn.2.2.2]
  | right f lf g lg =>
    intro hn hnd
    simp only [NT.leafIds] at hnd
    have hnd' := List.nodup_append.mp hnd
    have hdis : ∀ a ∈ NT.leafIds f, a ∉ NT.leafIds g := fun a ha hb => hnd'.2.2 a ha a hb rfl
    have hdis' : ∀ a ∈ NT.leafIds g, a ∉ NT.leafIds f := fun a ha hb => hdis a hb ha
    have inf : ∀ b ∈ NT.leafIds (NT.node f lf g lg), b ∉ NT.leafIds g → b ∈ NT.leafIds f := by
      intro b hb hbg; simp only [NT.leafIds, List.mem_append] at hb; exact hb.resolve_right hbg
    refine ⟨lg, fun b => NT.dep f b + lf + lg, le_refl _, fun a ha => dep_right f g lf lg a ha (hdis' a ha), ?_, ?_, ?_,
      fun a ha a' ha' => dmat_right f g lf lg a a' (hdis' a ha) (hdis' a' ha')⟩
    · intro b hb hbg
      have := dep_nonneg f hn.1 b
      rw [dep_left f g lf lg b (inf b hb hbg)]
      exact ⟨by linarith [hn.2.2.1], by linarith⟩
    · intro a ha b hb hbg
      rw [(dmat_cross f g lf lg b a (inf b hb hbg) ha hbg (hdis' a ha)).2]; ring
    · intro b hb hbg b' hb' hbg' hne
      rw [dmat_left f g lf lg b b' (inf b hb hbg) (inf b' hb' hbg')]
      have := dmat_le_dep f hn.1 hnd'.1 b (inf b hb hbg) b' (inf b' hb' hbg') hne
      linarith [hn.2.2.1]
  | @inl u e f lf g lg hs ih =>
    intro hn hnd
    simp only [NT.leafIds] at hnd
    have hnd' := List.nodup_append.mp hnd
    have hdis : ∀ a ∈ NT.leafIds f, a ∉ NT.leafIds g := fun a ha hb => hnd'.2.2 a ha a hb rfl
    have hdis' : ∀ a ∈ NT.leafIds g, a ∉ NT.leafIds f := fun a ha hb => hdis a hb ha
    obtain ⟨σ, ρ, hσ, hA, hB, hC, hD, hE⟩ := ih hn.1 hnd'.1
    have uf := sub_mem hs
    have he := (sub_nonneg hs hn.1).2
    have ing : ∀ b ∈ NT.leafIds (NT.node f lf g lg), b ∉ NT.leafIds f → b ∈ NT.leafIds g := by
      intro b hb hbf; simp only [NT.leafIds, List.mem_append] at hb; exact hb.resolve_left hbf
    have lf0 := hn.2.2.1; have lg0 := hn.2.2.2
    refine ⟨σ + lf, fun b => if b ∈ NT.leafIds f then ρ b else σ + lf + lg + NT.dep g b, by linarith, ?_, ?_, ?_, ?_, ?_⟩
    · intro a ha; rw [dep_left f g lf lg a (uf a ha), hA a ha]; ring
    · intro b hb hbu
      by_cases hbf : b ∈ NT.leafIds f
      · simp only [hbf, if_true]
        have := hB b hbf hbu
        rw [dep_left f g lf lg b hbf]
        exact ⟨this.1, by linarith⟩
      · simp only [hbf, if_false]
        have := dep_nonneg g hn.2.1 b
        rw [dep_right f g lf lg b (ing b hb hbf) hbf]
        exact ⟨by linarith, by linarith⟩
    · intro a ha b hb hbu
      by_cases hbf : b ∈ NT.leafIds f
      · simp only [hbf, if_true]
        rw [dmat_left f g lf lg a b (uf a ha) hbf]; exact hC a ha b hbf hbu
      · simp only [hbf, if_false]
        rw [(dmat_cross f g lf lg a b (uf a ha) (ing b hb hbf) (hdis a (uf a ha)) hbf).1, hA a ha]; ring
    · intro b hb hbu b' hb' hbu' hne
      by_cases hbf : b ∈ NT.leafIds f <;> by_cases hbf' : b' ∈ NT.leafIds f
      · simp only [hbf, hbf', if_true]
        rw [dmat_left f g lf lg b b' hbf hbf']; exact hD b hbf hbu b' hbf' hbu' hne
      · simp only [hbf, hbf', if_true, if_false]
        rw [(dmat_cross f g lf lg b b' hbf (ing b' hb' hbf') (hdis b hbf) hbf').1]
        have := (hB b hbf hbu).2
        linarith
      · simp only [hbf, hbf', if_true, if_false]
        rw [(dmat_cross f g lf lg b' b hbf' (ing b hb hbf) (hdis b' hbf') hbf).2]
        have := (hB b' hbf' hbu').2
        linarith
      · simp only [hbf, hbf', if_false]
        rw [dmat_right f g lf lg b b' hbf hbf']
        have := dmat_le_dep g hn.2.1 hnd'.2.1 b (ing b hb hbf) b' (ing b' hb' hbf') hne
        linarith
    · intro a ha a' ha'
      rw [dmat_left f g lf lg a a' (uf a ha) (uf a' ha')]; exact hE a ha a' ha'
  | @inr u e f lf g lg hs ih =>
    intro hn hnd
    simp only [NT.leafIds] at hnd
    have hnd' := List.nodup_append.mp hnd
    have hdis : ∀ a ∈ NT.leafIds f, a ∉ NT.leafIds g := fun a ha hb => hnd'.2.2 a ha a hb rfl
    have hdis' : ∀ a ∈ NT.leafIds g, a ∉ NT.leafIds f := fun a ha hb => hdis a hb ha
    obtain ⟨σ, ρ, hσ, hA, hB, hC, hD, hE⟩ := ih hn.2.1 hnd'.2.1
    have ug := sub_mem hs
    have he := (sub_nonneg hs hn.2.1).2
    have inf : ∀ b ∈ NT.leafIds (NT.node f lf g lg), b ∉ NT.leafIds g → b ∈ NT.leafIds f := by
      intro b hb hbg; simp only [NT.leafIds, List.mem_append] at hb; exact hb.resolve_right hbg
    have lf0 := hn.2.2.1; have lg0 := hn.2.2.2
    refine ⟨σ + lg, fun b => if b ∈ NT.leafIds g then ρ b else σ + lg + lf + NT.dep f b, by linarith, ?_, ?_, ?_, ?_, ?_⟩
    · intro a ha; rw [dep_right f g lf lg a (ug a ha) (hdis' a (ug a ha)), hA a ha]; ring
    · intro b hb hbu
      by_cases hbg : b ∈ NT.leafIds g
      · simp only [hbg, if_true]
        have := hB b hbg hbu
        rw [dep_right f g lf lg b hbg (hdis' b hbg)]
        exact ⟨this.1, by linarith⟩
      · simp only [hbg, if_false]
        have := dep_nonneg f hn.1 b
        rw [dep_left f g lf lg b (inf b hb hbg)]
        exact ⟨by linarith, by linarith⟩
    · intro a ha b hb hbu
      by_cases hbg : b ∈ NT.leafIds g
      · simp only [hbg, if_true]
        rw [dmat_right f g lf lg a b (hdis' a (ug a ha)) (hdis' b hbg)]; exact hC a ha b hbg hbu
      · simp only [hbg, if_false]
        rw [(dmat_cross f g lf lg b a (inf b hb hbg) (ug a ha) hbg (hdis' a (ug a ha))).2, hA a ha]; ring
    · intro b hb hbu b' hb' hbu' hne
      by_cases hbg : b ∈ NT.leafIds g <;> by_cases hbg' : b' ∈ NT.leafIds g
      · simp only [hbg, hbg', if_true]
        rw [dmat_right f g lf lg b b' (hdis' b hbg) (hdis' b' hbg')]; exact hD b hbg hbu b' hbg' hbu' hne
      · simp only [hbg, hbg', if_true, if_false]
        rw [(dmat_cross f g lf lg b' b (inf b' hb' hbg') hbg hbg' (hdis' b hbg)).2]
        have := (hB b hbg hbu).2
        linarith
      · simp only [hbg, hbg', if_true, if_false]
        rw [(dmat_cross f g lf lg b b' (inf b hb hbg) hbg' hbg (hdis' b' hbg')).1]
        have := (hB b' hbg' hbu').2
        linarith
      · simp only [hbg, hbg', if_false]
        rw [dmat_left f g lf lg b b' (inf b hb hbg) (inf b' hb' hbg')]
        have := dmat_le_dep f hn.1 hnd'.1 b (inf b hb hbg) b' (inf b' hb' hbg') hne
        linarith
    · intro a ha a' ha'
      rw [dmat_right f g lf lg a a' (hdis' a (ug a ha)) (hdis' a' (ug a' ha'))]; exact hE a ha a' ha'
end Aux

/-- (d) `tree_edge_separates` — one half of the split characterisation of a tree metric (Buneman): every edge of a tree with
non-negative edge lengths separates the leaves metrically, with the edge length as margin.  If `u` hangs in `t` by an edge of length
`e`, then for all leaves `a, a'` below the edge and `b, b'` beyond it `d(a,a') + d(b,b') + 2e ≤ d(a,b) + d(a',b')`; for a positive
edge the inequality is strict (`tree_edge_separates_strict`): the split `leaves u | rest` is visible in the distances alone. -/
theorem tree_edge_separates {u t : NT α} {e : α} (h : NT.Sub u e t) (hn : NT.Nonneg t) (hnd : (NT.leafIds t).Nodup)
    (a a' b b' : Nat) (ha : a ∈ NT.leafIds u) (ha' : a' ∈ NT.leafIds u)
    (hb : b ∈ NT.leafIds t) (hbu : b ∉ NT.leafIds u) (hb' : b' ∈ NT.leafIds t) (hbu' : b' ∉ NT.leafIds u) :
    NT.dmat t a a' + NT.dmat t b b' + 2 * e ≤ NT.dmat t a b + NT.dmat t a' b' := by
  obtain ⟨σ, ρ, hσ, hA, hB, hC, hD, hE⟩ := sub_profile h hn hnd
  have hnu := (sub_nonneg h hn).1
  have hndu := sub_nodup h hnd
  have h1 : NT.dmat t a a' ≤ NT.dep u a + NT.dep u a' := by
    rw [hE a ha a' ha']
    by_cases e1 : a = a'
    · subst e1
      have := dep_nonneg u hnu a
      simp only [NT.dmat, dmat_diag u a]; linarith
    · exact dmat_le_dep u hnu hndu a ha a' ha' e1
  have h2 : NT.dmat t b b' + 2 * e ≤ ρ b + ρ b' := by
    by_cases e2 : b = b'
    · subst e2
      have := (hB b hb hbu).1
      simp only [NT.dmat, dmat_diag t b]; linarith
    · exact hD b hb hbu b' hb' hbu' e2
  rw [hC a ha b hb hbu, hC a' ha' b' hb' hbu']
  linarith

theorem tree_edge_separates_strict {u t : NT α} {e : α} (h : NT.Sub u e t) (hn : NT.Nonneg t) (hnd : (NT.leafIds t).Nodup) (he : 0 < e)
    (a a' b b' : Nat) (ha : a ∈ NT.leafIds u) (ha' : a' ∈ NT.leafIds u)
    (hb : b ∈ NT.leafIds t) (hbu : b ∉ NT.leafIds u) (hb' : b' ∈ NT.leafIds t) (hbu' : b' ∉ NT.leafIds u) :
    NT.dmat t a a' + NT.dmat t b b' < NT.dmat t a b + NT.dmat t a' b' := by
  have := tree_edge_separates h hn hnd a a' b b' ha ha' hb hbu hb' hbu'
  linarith

/-- (d) `tree_root_edge_separates` — the same for the edge the root sits on (a result tree read as an unrooted tree: the two edges
at the root are one edge of length `lf + lg`) -/
theorem tree_root_edge_separates (f g : NT α) (lf lg : α) (hn : NT.Nonneg (.node f lf g lg))
    (hnd : (NT.leafIds (.node f lf g lg)).Nodup) (a a' b b' : Nat)
    (ha : a ∈ NT.leafIds f) (ha' : a' ∈ NT.leafIds f) (hb : b ∈ NT.leafIds g) (hb' : b' ∈ NT.leafIds g) :
    NT.dmat (.node f lf g lg) a a' + NT.dmat (.node f lf g lg) b b' + 2 * (lf + lg) ≤
      NT.dmat (.node f lf g lg) a b + NT.dmat (.node f lf g lg) a' b' := by
  simp only [NT.leafIds] at hnd
  have hnd' := List.nodup_append.mp hnd
  have hdis : ∀ x ∈ NT.leafIds f, x ∉ NT.leafIds g := fun x hx hy => hnd'.2.2 x hx x hy rfl
  have hdis' : ∀ x ∈ NT.leafIds g, x ∉ NT.leafIds f := fun x hx hy => hdis x hy hx
  rw [dmat_left f g lf lg a a' ha ha', dmat_right f g lf lg b b' (hdis' b hb) (hdis' b' hb'),
    (dmat_cross f g lf lg a b ha hb (hdis a ha) (hdis' b hb)).1, (dmat_cross f g lf lg a' b' ha' hb' (hdis a' ha') (hdis' b' hb')).1]
  have h1 : NT.dmat f a a' ≤ NT.dep f a + NT.dep f a' := by
    by_cases e1 : a = a'
    · subst e1
      have := dep_nonneg f hn.1 a
      simp only [NT.dmat, dmat_diag f a]; linarith
    · exact dmat_le_dep f hn.1 hnd'.1 a ha a' ha' e1
  have h2 : NT.dmat g b b' ≤ NT.dep g b + NT.dep g b' := by
    by_cases e2 : b = b'
    · subst e2
      have := dep_nonneg g hn.2.1 b
      simp only [NT.dmat, dmat_diag g b]; linarith
    · exact dmat_le_dep g hn.2.1 hnd'.2.1 b hb b' hb' e2
  linarith
end splits

/-- non-vacuity: in ((0:1,1:2):1/2,(2:3,3:1):2) the cherry (0,1) hangs by an edge of length 1/2 -/
example := tree_edge_separates_strict (α := ℚ)
  (NT.Sub.left (.node (.leaf 0) 1 (.leaf 1) 2) (1/2) (.node (.leaf 2) 3 (.leaf 3) 1) 2)
  (by simp [NT.Nonneg]) (by decide) (by norm_num) 0 1 2 3 (by simp [NT.leafIds]) (by simp [NT.leafIds])
  (by simp [NT.leafIds]) (by simp [NT.leafIds]) (by simp [NT.leafIds]) (by simp [NT.leafIds])
section njsplits
variable {α : Type} [Field α] [LinearOrder α] [IsStrictOrderedRing α] [CharZero α]

/-- (d) `nj_result_separates_source_edges` — towards "NJ returns THAT tree": in the tree `nj_tree` returns for the path lengths of
`src` (any number of taxa), every edge of `src` is still visible with its full length: the leaves below an edge of length `e` of `src`
and the leaves beyond it are separated in the RESULT's path lengths with margin `2e` (`nj_inverts_tree` + `tree_edge_separates`).
What is missing for equality of the unrooted split sets is the converse (a metrically separated bipartition is an edge of the tree). -/
theorem nj_result_separates_source_edges (n : Nat) (src : NT α) (hnn : NT.Nonneg src) (hp : NT.PosInternal src)
    (hnd : (NT.leafIds src).Nodup) (hl : (NT.leafIds src).Perm (List.range n)) {u : NT α} {e : α} (hs : NT.Sub u e src) :
    ∃ r, njTree n (NT.dmat src) = some r ∧ (NT.leafIds r).Perm (List.range n) ∧
      ∀ a ∈ NT.leafIds u, ∀ a' ∈ NT.leafIds u, ∀ b ∈ NT.leafIds src, b ∉ NT.leafIds u → ∀ b' ∈ NT.leafIds src, b' ∉ NT.leafIds u →
        NT.dmat r a a' + NT.dmat r b b' + 2 * e ≤ NT.dmat r a b + NT.dmat r a' b' := by
  obtain ⟨r, hr, hperm, hd⟩ := nj_inverts_tree n src hnn hp hnd hl
  refine ⟨r, hr, hperm, ?_⟩
  have lt : ∀ x ∈ NT.leafIds src, x < n := fun x hx => List.mem_range.mp (hl.mem_iff.mp hx)
  have eq : ∀ x ∈ NT.leafIds src, ∀ y ∈ NT.leafIds src, NT.dmat r x y = NT.dmat src x y := by
    intro x hx y hy
    by_cases exy : x = y
    · subst exy; simp only [NT.dmat, dmat_diag r x, dmat_diag src x]
    · simp only [NT.dmat, hd x (lt x hx) y (lt y hy) exy]
  intro a ha a' ha' b hb hbu b' hb' hbu'
  have ma := sub_mem hs a ha; have ma' := sub_mem hs a' ha'
  rw [eq a ma a' ma', eq b hb b' hb', eq a ma b hb, eq a' ma' b' hb']
  exact tree_edge_separates hs hnn hnd a a' b b' ha ha' hb hbu hb' hbu'
end njsplits


end DendroModel.C14
