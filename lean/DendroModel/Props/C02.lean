import DendroModel.Theory.C02Stmt
import DendroModel.Theory.C02Assign
import DendroModel.Theory.C02Fuel
/-! C02 — property theorems about the model of `Model/C02.lean` (the definitions `drv_c02` executes).

Every `theorem` directly inside `namespace DendroModel.C02` of this file is an obligation; helper lemmas live in
`DendroModel.C02.Aux` (files `Theory/C02*.lean`).

Shape of the argument for Newick (clauses a, b of the design):
  characters  --token_roundtrip(_any) / statement_tokens-->  token kinds  --newick_tokens_roundtrip (every tree,
  anonymous leaves included)-->  raw tree  --assign (labels → node labels / taxa)-->  tree: `newick_roundtrip`, and in
  readable form `newick_roundtrip_tree` (= `[t]` with its rooting).  `tokenizer_fuel_suffices`: totality on every text.
  Case folding is a parameter (`ROpts.cf`): the theorems hold for every folding, the driver is handed `str.lower`.
Not proved here (enumeration, correspondence and oracle only): several statements in one text / a pre-filled
namespace (the `parseStmts` loop across statements), weights through `strip`, the NEXUS block grammar, NeXML,
float ↔ text. -/
namespace DendroModel.C02
open DendroModel.Tables

/-- Every character the tokenizer treats specially (whitespace, captured delimiters, quote, comment brackets) that
    can occur in a label is in the protect class of `escape_nexus_token` — both the default class and the one
    `NewickWriter._render_node_tag` passes — or is the space handled by the underscore rule.  Decided over the tables
    regenerated from the source on every run: this is the obligation that the `=` / `\` defect breaks. -/
theorem special_protected :
    (∀ c ∈ tokSpecial, labelChar c = true → (c ∈ protectDefault ∨ c = ' ')) ∧
    (∀ c ∈ tokSpecial, labelChar c = true → (c ∈ protectNewick ∨ c = ' ')) := Aux.special_protected_tables

/-- facts about the tokenizer configuration the model relies on (quote doubling on, one quote character, comment
    brackets distinct, captured delimiters are neither whitespace nor quotes) -/
theorem tokenizer_tables :
    tokQuoteDoubling = true ∧ tokQuote = ['\''] ∧ (∀ c ∈ tokCommentBegin, c ∉ tokCommentEnd) ∧
    (∀ d ∈ tokCaptured, d ∉ tokUncaptured ∧ d ∉ tokQuote) ∧
    (∀ c ∈ ['(', ')', ',', ':', ';'], c ∈ tokCaptured ∧ c ∈ protectNewick ∧ c ∈ protectDefault) := by decide

/-- totality of the tokenizer model on EVERY input text (not only writer output): `__next__` with the fuel `nextTok`
    gives it never runs out of fuel, and the token stream of `tokenizeAll` is the same with any amount of extra fuel —
    so an `ERR` of the `tokens` op is always an unterminated quote, never a fuel shortfall -/
theorem tokenizer_fuel_suffices (pu : Bool) (inp : Str) :
    nextTok pu inp ≠ .fuel ∧ ∀ k, tokenize pu (inp.length + 1 + k) inp = tokenizeAll pu inp := by
  refine ⟨Aux.next_no_fuel pu _ inp [] (by omega), ?_⟩
  intro k
  induction k with
  | zero => rfl
  | succ k ih =>
    rw [← ih, show inp.length + 1 + (k + 1) = (inp.length + 1 + k) + 1 by omega]
    exact (Aux.tokenize_fuel_indep pu _ inp (by omega)).symm

example : nextTok false "[a[b]] 'x''y' z_1;".toList ≠ .fuel := (tokenizer_fuel_suffices false _).1

/-- clause (a): every admissible label (non-empty, over printable ASCII + tab + non-ASCII), written by the Newick
    writer's `escape_nexus_token` call under a consistent option triple and followed by any captured delimiter, is
    read back by one `__next__` call as exactly that label, with nothing consumed beyond it and no comment captured -/
theorem token_roundtrip (ps uu pu : Bool) (hc : Consistent ps uu pu) (l : Str) (hne : l ≠ [])
    (hdom : ∀ c ∈ l, labelChar c = true) (d : Char) (hd : d ∈ tokCaptured) (rest : Str) :
    ∃ q, nextTok pu (escape ps (!uu) protectNewick l ++ d :: rest) = .tok l q [] (d :: rest) := by
  obtain ⟨q, h, _⟩ := Aux.next_escape ps uu pu hc l hne hdom d hd rest
  exact ⟨q, h _ []⟩

/-- …and the parser never mistakes such a token for punctuation: its kind is `word l` -/
theorem token_roundtrip_kind (ps uu pu : Bool) (hc : Consistent ps uu pu) (l : Str) (hne : l ≠ [])
    (hdom : ∀ c ∈ l, labelChar c = true) (d : Char) (hd : d ∈ tokCaptured) (rest : Str) :
    ∃ q, nextTok pu (escape ps (!uu) protectNewick l ++ d :: rest) = .tok l q [] (d :: rest) ∧
      ∀ cm, kind ⟨l, q, cm⟩ = .word l := by
  obtain ⟨q, h, hk⟩ := Aux.next_escape ps uu pu hc l hne hdom d hd rest
  exact ⟨q, h _ [], fun cm => Aux.kind_word_of_unprotected l q cm hne hk⟩

open Aux in
/-- clause (b), token level, for EVERY tree (anonymous leaves, unary nodes, polytomies included): the reader's
    recursive-descent parser, run on the token kinds of what the writer's callbacks emit followed by `;`, returns
    exactly the tag / length / children structure that was written, consumes exactly the statement and reports it
    complete.  (`(A,)`, `(,A)`, `(,)`, `()` are instances: blank children are written as nothing.) -/
theorem newick_tokens_roundtrip (o : WOpts) (t : NT) (f : Nat)
    (hf : 6 * (view (wrNode o true t)).length + 3 ≤ f) (rest : List Tok) :
    parseNode f (view (wrNode o true t) ++ .semi :: rest) = some (toRT o t, rest, true) := by
  have hv := view_wrNode o t true
  simp only [if_true, List.nil_append] at hv
  rw [hv] at hf ⊢
  have := rt (toRT o t) f (Nat.le_trans (need_le _) hf) .semi rest
  simpa [Follow.tok, Follow.after] using this

/-- the only tree a Newick statement cannot carry: a lone node without taxon, label and length (its text is `;`) -/
def WritesSomething (o : WOpts) (t : NT) : Prop := Aux.isBlank (Aux.toRT o t) = false

/-- character level: tokenizing the text `_write_tree` produces (plus the newline `as_string` appends) yields exactly
    the token kinds the writer's callbacks emitted, then `;`; no tokenizer error; the rooting / weight comments are
    attached to the first token and no other token carries a comment.  For every tree whose tags are over the label
    domain and whose length texts are number texts (`OkT`), under every consistent option triple. -/
theorem statement_tokens (o : WOpts) (pu : Bool) (hc : Consistent o.ps o.uu pu) (rooting : Nat) (weight : Option Str)
    (t : NT) (hok : OkT o t) (hll : WritesSomething o t) (hw : ∀ w, weight = some w → LenOk w) :
    ∃ first rest, tokenizeAll pu (writeTree o rooting weight t ++ ['\n']) = ⟨first :: rest, true, false⟩ ∧
      (first :: rest).map kind = Aux.view (wrNode o true t) ++ [.semi] ∧
      first.cm = comments o rooting weight ∧ ∀ x ∈ rest, x.cm = [] :=
  Aux.statement_tokens' o pu hc rooting weight t hok hll hw

open Aux in
/-- clauses (a)+(b) end to end on the model the driver runs: reading the written text back into a fresh namespace
    gives exactly one tree, whose structure is `decode ro (toRT o t)` (see `carried_tree`: that is `t` itself when the
    options fit the tree), whose rooting / weight come from the written comments (see `rooting_roundtrip`), over a
    namespace that lists the taxon labels of the tree in reading order.  Hypotheses: consistent options, admissible
    labels and number texts, the tree writes something (`WritesSomething`), taxon labels distinct up to the case folding `ro.cf`. -/
theorem newick_roundtrip (o : WOpts) (ro : ROpts) (hc : Consistent o.ps o.uu ro.pu) (rooting : Nat) (weight : Option Str)
    (t : NT) (hok : OkT o t) (hll : WritesSomething o t) (hw : ∀ w, weight = some w → LenOk w)
    (hd : DistinctCI ro.cf (taxaOf ro (toRT o t))) :
    parseText ro {} (writeTree o rooting weight t ++ ['\n']) =
      some ([⟨(treeComments ro (comments o rooting weight) none none).1,
              (treeComments ro (comments o rooting weight) none none).2, decode ro (toRT o t)⟩],
            ⟨[], taxaOf ro (toRT o t), false⟩) := by
  obtain ⟨first, rest, htok, hkind, hcm, _⟩ := statement_tokens' o ro.pu hc rooting weight t hok hll hw
  have hv := view_wrNode o t true
  simp only [if_true, List.nil_append] at hv
  have hfirst : kind first ≠ .semi := by
    intro he
    have h1 : kind first :: rest.map kind = wr (toRT o t) ++ [.semi] := by rw [← hv, ← hkind]; rfl
    rcases wr_head (toRT o t) hll [.semi] with ⟨r, hr⟩ | ⟨w, r, hr⟩ | ⟨r, hr⟩ <;>
      (rw [hr, he] at h1; cases h1)
  have hlen : (first :: rest).length = (view (wrNode o true t)).length + 1 := by
    have := congrArg List.length hkind
    simpa using this
  have hparse := newick_tokens_roundtrip o t (stmtFuel (first :: rest))
    (by simp only [stmtFuel, hlen]; omega) []
  have hassign := assign_fresh ro (toRT o t) {} [] rfl rfl (by simp) (by simpa using hd)
  unfold parseText parseTextK
  simp only [Nat.add_zero]
  rw [show tokenize ro.pu ((writeTree o rooting weight t ++ ['\n']).length + 1) (writeTree o rooting weight t ++ ['\n']) =
      tokenizeAll ro.pu (writeTree o rooting weight t ++ ['\n']) from rfl, htok]
  simp only [Bool.not_true, Bool.false_eq_true, if_false]
  rw [show (first :: rest).length + 2 = ((first :: rest).length + 1) + 1 by omega, parseStmts]
  have hsemi : (kind first == Tok.semi) = false := by simpa using hfirst
  simp only [hsemi, Bool.false_and, Bool.and_false, Bool.false_eq_true, if_false]
  rw [hkind, Nat.add_zero, hparse]
  simp only [hassign, hcm]
  simp [skipSemis, parseStmts]

/-- what a Newick statement carries of a tree under the default label options: one taxon per leaf, a label or
    (reader option `suppress_internal_node_taxa=False`) a taxon per internal node -/
def Carried (ro : ROpts) : NT → Prop
  | .node tx lb _ cs =>
    (∀ s, tx = some s → s ≠ []) ∧ (∀ s, lb = some s → s ≠ []) ∧
    (if cs.isEmpty then lb = none ∧ ro.sleaf = false else (if ro.sint then tx = none else lb = none)) ∧
    CarriedL ro cs
where CarriedL (ro : ROpts) : List NT → Prop
  | [] => True
  | c :: cs => Carried ro c ∧ CarriedL ro cs

namespace Aux
mutual
/-- with the writer's default label options and edge lengths on, the structure that comes back is the tree itself -/
theorem carried_tree (o : WOpts) (ro : ROpts) (ho : o.sltl = false ∧ o.slnl = true ∧ o.sitl = false ∧ o.sinl = false ∧ o.sel = false) :
    ∀ (t : NT), Carried ro t → decode ro (Aux.toRT o t) = t
  | .node tx lb ln cs, h => by
    obtain ⟨h1, h2, h3, h4⟩ := h
    have ih := carried_treeL o ro ho cs h4
    obtain ⟨o1, o2, o3, o4, o5⟩ := ho
    have hlen : Aux.lenOf o ln = ln := by cases ln <;> simp [Aux.lenOf, o5]
    cases cs with
    | nil =>
      simp only [List.isEmpty_nil, if_true] at h3
      obtain ⟨hlb, hsl⟩ := h3
      subst hlb
      cases tx with
      | none => simp [Aux.toRT, Aux.toRTL, Aux.tagOf, rawTag, joinSp, decode, decodeL, hlen]
      | some s =>
        have := h1 s rfl
        cases s with
        | nil => exact absurd rfl this
        | cons a b => simp [Aux.toRT, Aux.toRTL, Aux.tagOf, rawTag, joinSp, decode, decodeL, hlen, o1, o2, hsl]
    | cons c cs' =>
      simp only [List.isEmpty_cons, Bool.false_eq_true, if_false] at h3
      have hne : Aux.toRTL o (c :: cs') ≠ [] := by simp [Aux.toRTL]
      cases hsi : ro.sint with
      | true =>
        simp only [hsi, if_true] at h3
        subst h3
        cases lb with
        | none => simp [Aux.toRT, Aux.tagOf, rawTag, joinSp, decode, hlen, ih]
        | some s =>
          have := h2 s rfl
          cases s with
          | nil => exact absurd rfl this
          | cons a b => simp [Aux.toRT, Aux.tagOf, rawTag, joinSp, decode, hlen, ih, o3, o4, hsi, hne]
      | false =>
        simp only [hsi, Bool.false_eq_true, if_false] at h3
        subst h3
        cases tx with
        | none => simp [Aux.toRT, Aux.tagOf, rawTag, joinSp, decode, hlen, ih]
        | some s =>
          have := h1 s rfl
          cases s with
          | nil => exact absurd rfl this
          | cons a b => simp [Aux.toRT, Aux.tagOf, rawTag, joinSp, decode, hlen, ih, o3, o4, hsi, hne]
theorem carried_treeL (o : WOpts) (ro : ROpts) (ho : o.sltl = false ∧ o.slnl = true ∧ o.sitl = false ∧ o.sinl = false ∧ o.sel = false) :
    ∀ (cs : List NT), Carried.CarriedL ro cs → decodeL ro (Aux.toRTL o cs) = cs
  | [], _ => by simp [Aux.toRTL, decodeL]
  | c :: cs, h => by
    simp [Aux.toRTL, decodeL, carried_tree o ro ho c h.1, carried_treeL o ro ho cs h.2]
end
end Aux

/-- rooting token emission and interpretation: a defined rooting state (1 unrooted, 2 rooted) survives when the token
    is written and the reader does not force the opposite, and also when it is suppressed and the reader forces it.
    (Stated for statements without a weight comment; weights go through `strip`, covered by the correspondence.) -/
theorem rooting_roundtrip (o : WOpts) (ro : ROpts) (r : Nat) (hr : r = 1 ∨ r = 2) (weight : Option Str)
    (hw : weight = none ∨ o.stw = false)
    (hdir : (o.srt = false ∧ (ro.rooting = 0 ∨ ro.rooting = 3 ∨ ro.rooting = 4 ∨ ro.rooting = r)) ∨ ro.rooting = r) :
    (treeComments ro (comments o r weight) none none).1 = r := by
  have hcm : comments o r weight = (if r == 0 || o.srt then [] else if r == 2 then ["&R".toList] else ["&U".toList]) := by
    unfold comments
    rcases hw with hw | hw
    · subst hw; simp
    · cases weight <;> simp [hw]
  rw [hcm]
  have s1 : strip ['&', 'R'] = ['&', 'R'] := by decide
  have s2 : strip ['&', 'U'] = ['&', 'U'] := by decide
  rcases hr with rfl | rfl
  · rcases hdir with ⟨h1, h2⟩ | h2
    · rcases h2 with h2 | h2 | h2 | h2 <;>
        simp [h1, treeComments, s2, isRootingComment, rootingState, h2] <;> decide
    · cases o.srt <;> simp [treeComments, s2, isRootingComment, rootingState, h2] <;> decide
  · rcases hdir with ⟨h1, h2⟩ | h2
    · rcases h2 with h2 | h2 | h2 | h2 <;>
        simp [h1, treeComments, s1, isRootingComment, rootingState, h2] <;> decide
    · cases o.srt <;> simp [treeComments, s1, isRootingComment, rootingState, h2] <;> decide

/-- no weight comment written ⇒ no weight read -/
theorem weight_absent (o : WOpts) (ro : ROpts) (r : Nat) :
    (treeComments ro (comments o r none) none none).2 = none := by
  have s1 : strip ['&', 'R'] = ['&', 'R'] := by decide
  have s2 : strip ['&', 'U'] = ['&', 'U'] := by decide
  unfold comments
  cases h1 : (r == 0 || o.srt) <;> cases h2 : (r == 2) <;>
    simp [treeComments, s1, s2, isRootingComment]

/-- the readable end-to-end claim for one Newick tree statement, on the definitions the driver runs (`write`, `parse`,
    `rt` ops): under the writer's default label options, consistent underscore/space options and rooting options that
    do not contradict each other, writing a tree `t` with a defined rooting state `r` and reading the text back into
    a fresh namespace returns exactly `[t]` with rooting `r`.  Domain: tags over the label domain, number texts as
    lengths (`OkT`), `t` is not the lone anonymous node (`WritesSomething`), each node carries what a Newick
    statement can carry (`Carried`), taxon labels distinct up to the mapper's case folding. Anonymous leaves, unary
    nodes and polytomies are included. -/
theorem newick_roundtrip_tree (o : WOpts) (ro : ROpts) (hc : Consistent o.ps o.uu ro.pu)
    (ho : o.sltl = false ∧ o.slnl = true ∧ o.sitl = false ∧ o.sinl = false ∧ o.sel = false)
    (r : Nat) (hr : r = 1 ∨ r = 2)
    (hdir : (o.srt = false ∧ (ro.rooting = 0 ∨ ro.rooting = 3 ∨ ro.rooting = 4 ∨ ro.rooting = r)) ∨ ro.rooting = r)
    (t : NT) (hok : OkT o t) (hws : WritesSomething o t) (hcar : Carried ro t)
    (hd : DistinctCI ro.cf (taxaOf ro (Aux.toRT o t))) :
    parseText ro {} (writeTree o r none t ++ ['\n']) = some ([⟨r, none, t⟩], ⟨[], taxaOf ro (Aux.toRT o t), false⟩) := by
  rw [newick_roundtrip o ro hc r none t hok hws (by simp) hd, Aux.carried_tree o ro ho t hcar,
    rooting_roundtrip o ro r hr none (Or.inl rfl) hdir, weight_absent]

open Aux in
/-- clause (a) for BOTH protect classes (the default one is what TAXLABELS / TRANSLATE / tree names are written
    with) and EVERY follower a writer produces: a captured delimiter, whitespace / newline, or the end of the text.
    The token read is the label and the input left over is the follower up to leading whitespace. -/
theorem token_roundtrip_any (p : List Char) (hp : p = protectDefault ∨ p = protectNewick)
    (ps uu pu : Bool) (hc : Consistent ps uu pu) (l : Str) (hne : l ≠ []) (hdom : ∀ c ∈ l, labelChar c = true)
    (suf : Str) (hs : suf = [] ∨ ∃ d rest, suf = d :: rest ∧ (d ∈ tokCaptured ∨ d ∈ tokUncaptured)) :
    ∃ q r', nextTok pu (escape ps (!uu) p l ++ suf) = .tok l q [] r' ∧ skipWs r' = skipWs suf := by
  have hP : Covers p := by rcases hp with rfl | rfl; exact covers_default; exact covers_newick
  have hfo : Follower suf ∧ skipWs (plainAfter suf) = skipWs suf := by
    rcases hs with rfl | ⟨d, rest, rfl, hd | hd⟩
    · exact ⟨⟨trivial, trivial⟩, rfl⟩
    · obtain ⟨h1, h2⟩ := follower_cap d hd rest
      exact ⟨h1, by rw [h2]⟩
    · obtain ⟨h1, h2⟩ := follower_ws d hd rest
      have : isUncap d = true := by simpa [isUncap] using hd
      exact ⟨h1, by rw [h2]; simp [skipWs, this]⟩
  obtain ⟨q, h, _⟩ := next_escape_gen p hP ps uu pu hc l hne hdom suf hfo.1
  refine ⟨q, _, h _ [], ?_⟩
  cases q
  · simpa using hfo.2
  · simp

/-! ### non-vacuity: the hypotheses are satisfiable, on trees with awkward labels and anonymous leaves -/

/-- `('a=b':1.5,c_d,'e f(g)':1e-05,)'in t';` as a model tree (last child: an anonymous leaf) -/
def exampleTree : NT :=
  .node none (some "in t".toList) none
    [.node (some "a=b".toList) none (some "1.5".toList) [],
     .node (some "c_d".toList) none none [],
     .node (some "e f(g)".toList) none (some "1e-05".toList) [],
     .node none none none []]

example : Consistent false false false ∧ Consistent true false false ∧ Consistent true false true ∧ Consistent true true true := by
  simp [Consistent]

/-- all hypotheses of `newick_roundtrip_tree` hold together on `exampleTree` (default options, rooted) -/
example : parseText {} {} (writeTree {} 2 none exampleTree ++ ['\n']) =
    some ([⟨2, none, exampleTree⟩], ⟨[], ["a=b".toList, "c_d".toList, "e f(g)".toList], false⟩) := by
  have hok : OkT {} exampleTree := by
    simp [exampleTree, OkT, OkL, rawTag, joinSp, LenOk]
    decide
  have hws : WritesSomething {} exampleTree := by
    simp [WritesSomething, exampleTree, Aux.toRT, Aux.toRTL, Aux.isBlank]
  have hd : DistinctCI Char.toLower (taxaOf {} (Aux.toRT {} exampleTree)) := by
    simp [exampleTree, Aux.toRT, Aux.toRTL, taxaOf, taxaOfL, Aux.tagOf, Aux.lenOf, rawTag, joinSp, DistinctCI, lowerWith]
  have h := newick_roundtrip_tree {} {} (by simp [Consistent]) (by simp) 2 (Or.inr rfl) (Or.inl ⟨rfl, Or.inl rfl⟩)
    exampleTree hok hws (by simp [exampleTree, Carried, Carried.CarriedL]) hd
  rw [h]
  simp [exampleTree, Aux.toRT, Aux.toRTL, taxaOf, taxaOfL, Aux.tagOf, Aux.lenOf, rawTag, joinSp]

/-- `token_roundtrip_any`: a TAXLABELS-style line (`default class`, newline follower) and an end-of-text follower -/
example : ∃ q r', nextTok false (escape false true protectDefault "a-b c".toList ++ ['\n', ';']) = .tok "a-b c".toList q [] r' ∧
    skipWs r' = skipWs ['\n', ';'] :=
  token_roundtrip_any protectDefault (Or.inl rfl) false false false (by simp [Consistent]) _ (by simp) (by decide) _
    (Or.inr ⟨'\n', [';'], rfl, Or.inr (by decide)⟩)
example : ∃ q r', nextTok true (escape true false protectNewick "x_y".toList ++ []) = .tok "x_y".toList q [] r' ∧ skipWs r' = skipWs [] :=
  token_roundtrip_any protectNewick (Or.inr rfl) true true true (by simp [Consistent]) _ (by simp) (by decide) _ (Or.inl rfl)

end DendroModel.C02
