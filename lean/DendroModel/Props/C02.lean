import DendroModel.Theory.C02Stmt
import DendroModel.Theory.C02Assign
/-! C02 — property theorems about the model of `Model/C02.lean` (the definitions `drv_c02` executes).

Every `theorem` directly inside `namespace DendroModel.C02` of this file is an obligation; helper lemmas live in
`DendroModel.C02.Aux` (files `Theory/C02*.lean`).

Shape of the argument for Newick (clauses a, b of the design):
  characters  --token_roundtrip / statement_tokens-->  token kinds  --newick_tokens_roundtrip_partial-->  raw tree
  --assign (labels → node labels / taxa, `newick_roundtrip`)-->  tree,  plus `rooting_roundtrip`, `carried_tree`.
Not proved here (oracle and correspondence only): anonymous leaves (hypothesis `LL`), weights through `strip`,
the NEXUS block grammar, NeXML. -/
namespace DendroModel.C02
open DendroModel.Tables

/-- Every character the tokenizer treats specially (whitespace, captured delimiters, quote, comment brackets) that
    can occur in a label is in the protect class of `escape_nexus_token` — both the default class and the one
    `NewickWriter._render_node_tag` passes — or is the space handled by the underscore rule.  Decided over the tables
    regenerated from the source on every run: this is the obligation that the `=` / `\` defect breaks. -/
theorem special_protected :
    (∀ c ∈ tokSpecial, labelChar c = true → (c ∈ protectDefault ∨ c = ' ')) ∧
    (∀ c ∈ tokSpecial, labelChar c = true → (c ∈ protectNewick ∨ c = ' ')) := Aux.special_protected_tables

/-- facts about the tokenizer configuration the model relies on (quote doubling on, one quote character, comment
    brackets distinct, captured delimiters are neither whitespace nor quotes) -/
theorem tokenizer_tables :
    tokQuoteDoubling = true ∧ tokQuote = ['\''] ∧ (∀ c ∈ tokCommentBegin, c ∉ tokCommentEnd) ∧
    (∀ d ∈ tokCaptured, d ∉ tokUncaptured ∧ d ∉ tokQuote) ∧
    (∀ c ∈ ['(', ')', ',', ':', ';'], c ∈ tokCaptured ∧ c ∈ protectNewick ∧ c ∈ protectDefault) := by decide

/-- clause (a): every admissible label (non-empty, over printable ASCII + tab + non-ASCII), written by the Newick
    writer's `escape_nexus_token` call under a consistent option triple and followed by any captured delimiter, is
    read back by one `__next__` call as exactly that label, with nothing consumed beyond it and no comment captured -/
theorem token_roundtrip (ps uu pu : Bool) (hc : Consistent ps uu pu) (l : Str) (hne : l ≠ [])
    (hdom : ∀ c ∈ l, labelChar c = true) (d : Char) (hd : d ∈ tokCaptured) (rest : Str) :
    ∃ q, nextTok pu (escape ps (!uu) protectNewick l ++ d :: rest) = .tok l q [] (d :: rest) := by
  obtain ⟨q, h, _⟩ := Aux.next_escape ps uu pu hc l hne hdom d hd rest
  exact ⟨q, h _ []⟩

/-- …and the parser never mistakes such a token for punctuation: its kind is `word l` -/
theorem token_roundtrip_kind (ps uu pu : Bool) (hc : Consistent ps uu pu) (l : Str) (hne : l ≠ [])
    (hdom : ∀ c ∈ l, labelChar c = true) (d : Char) (hd : d ∈ tokCaptured) (rest : Str) :
    ∃ q, nextTok pu (escape ps (!uu) protectNewick l ++ d :: rest) = .tok l q [] (d :: rest) ∧
      ∀ cm, kind ⟨l, q, cm⟩ = .word l := by
  obtain ⟨q, h, hk⟩ := Aux.next_escape ps uu pu hc l hne hdom d hd rest
  exact ⟨q, h _ [], fun cm => Aux.kind_word_of_unprotected l q cm hne hk⟩

open Aux in
/-- clause (b), token level: the reader's recursive-descent parser, run on the token kinds of what the writer's
    callbacks emit followed by `;`, returns exactly the tag / length / children structure that was written, consumes
    exactly the statement and reports it complete.  `_partial`: hypothesis `LL` (every leaf writes a tag or a
    length): anonymous leaves are covered by the correspondence and the oracle only. -/
theorem newick_tokens_roundtrip_partial (o : WOpts) (t : NT) (h : LL (toRT o t)) (f : Nat)
    (hf : 4 * (view (wrNode o true t)).length ≤ f) (rest : List Tok) :
    parseNode f (view (wrNode o true t) ++ .semi :: rest) = some (toRT o t, rest, true) := by
  have hv := view_wrNode o t true
  simp only [if_true, List.nil_append] at hv
  rw [hv] at hf ⊢
  have := rt (toRT o t) h f (Nat.le_trans (need_le _ h) hf) .semi rest
  simpa [Follow.tok, Follow.after] using this

/-- character level: tokenizing the text `_write_tree` produces (plus the newline `as_string` appends) yields exactly
    the token kinds the writer's callbacks emitted, then `;`; no tokenizer error; the rooting / weight comments are
    attached to the first token and no other token carries a comment.  For every tree whose tags are over the label
    domain and whose length texts are number texts (`OkT`), under every consistent option triple. -/
theorem statement_tokens (o : WOpts) (pu : Bool) (hc : Consistent o.ps o.uu pu) (rooting : Nat) (weight : Option Str)
    (t : NT) (hok : OkT o t) (hll : Aux.LL (Aux.toRT o t)) (hw : ∀ w, weight = some w → LenOk w) :
    ∃ first rest, tokenizeAll pu (writeTree o rooting weight t ++ ['\n']) = ⟨first :: rest, true, false⟩ ∧
      (first :: rest).map kind = Aux.view (wrNode o true t) ++ [.semi] ∧
      first.cm = comments o rooting weight ∧ ∀ x ∈ rest, x.cm = [] :=
  Aux.statement_tokens' o pu hc rooting weight t hok hll hw

open Aux in
/-- clauses (a)+(b) end to end on the model the driver runs: reading the written text back into a fresh namespace
    gives exactly one tree, whose structure is `decode ro (toRT o t)` (see `carried_tree`: that is `t` itself when the
    options fit the tree), whose rooting / weight come from the written comments (see `rooting_roundtrip`), over a
    namespace that lists the taxon labels of the tree in reading order.  Hypotheses: consistent options, admissible
    labels and number texts, labelled leaves (`LL`), taxon labels distinct up to letter case. -/
theorem newick_roundtrip (o : WOpts) (ro : ROpts) (hc : Consistent o.ps o.uu ro.pu) (rooting : Nat) (weight : Option Str)
    (t : NT) (hok : OkT o t) (hll : LL (toRT o t)) (hw : ∀ w, weight = some w → LenOk w)
    (hd : DistinctCI (taxaOf ro (toRT o t))) :
    parseText ro {} (writeTree o rooting weight t ++ ['\n']) =
      some ([⟨(treeComments ro (comments o rooting weight) none none).1,
              (treeComments ro (comments o rooting weight) none none).2, decode ro (toRT o t)⟩],
            ⟨[], taxaOf ro (toRT o t), false⟩) := by
  obtain ⟨first, rest, htok, hkind, hcm, _⟩ := statement_tokens' o ro.pu hc rooting weight t hok hll hw
  have hv := view_wrNode o t true
  simp only [if_true, List.nil_append] at hv
  have hfirst : kind first ≠ .semi := by
    intro he
    have h1 : kind first :: rest.map kind = wr (toRT o t) ++ [.semi] := by rw [← hv, ← hkind]; rfl
    rcases wr_head (toRT o t) hll [.semi] with ⟨r, hr⟩ | ⟨w, r, hr⟩ | ⟨r, hr⟩ <;>
      (rw [hr, he] at h1; cases h1)
  have hlen : (first :: rest).length = (view (wrNode o true t)).length + 1 := by
    have := congrArg List.length hkind
    simpa using this
  have hparse := newick_tokens_roundtrip_partial o t hll (stmtFuel (first :: rest))
    (by simp only [stmtFuel, hlen]; omega) []
  have hassign := assign_fresh ro (toRT o t) {} [] rfl rfl (by simp) (by simpa using hd)
  unfold parseText
  rw [htok]
  simp only [Bool.not_true, Bool.false_eq_true, if_false]
  rw [show (first :: rest).length + 2 = ((first :: rest).length + 1) + 1 by omega, parseStmts]
  have hsemi : (kind first == Tok.semi) = false := by simpa using hfirst
  simp only [hsemi, Bool.false_and, Bool.and_false, Bool.false_eq_true, if_false]
  rw [hkind, hparse]
  simp only [hassign, hcm]
  simp [skipSemis, parseStmts]

/-- what a Newick statement carries of a tree under the default label options: one taxon per leaf, a label or
    (reader option `suppress_internal_node_taxa=False`) a taxon per internal node -/
def Carried (ro : ROpts) : NT → Prop
  | .node tx lb _ cs =>
    (∀ s, tx = some s → s ≠ []) ∧ (∀ s, lb = some s → s ≠ []) ∧
    (if cs.isEmpty then lb = none ∧ ro.sleaf = false else (if ro.sint then tx = none else lb = none)) ∧
    CarriedL ro cs
where CarriedL (ro : ROpts) : List NT → Prop
  | [] => True
  | c :: cs => Carried ro c ∧ CarriedL ro cs

mutual
/-- with the writer's default label options and edge lengths on, the structure that comes back is the tree itself -/
theorem carried_tree (o : WOpts) (ro : ROpts) (ho : o.sltl = false ∧ o.slnl = true ∧ o.sitl = false ∧ o.sinl = false ∧ o.sel = false) :
    ∀ (t : NT), Carried ro t → decode ro (Aux.toRT o t) = t
  | .node tx lb ln cs, h => by
    obtain ⟨h1, h2, h3, h4⟩ := h
    have ih := carried_treeL o ro ho cs h4
    obtain ⟨o1, o2, o3, o4, o5⟩ := ho
    have hlen : Aux.lenOf o ln = ln := by cases ln <;> simp [Aux.lenOf, o5]
    cases cs with
    | nil =>
      simp only [List.isEmpty_nil, if_true] at h3
      obtain ⟨hlb, hsl⟩ := h3
      subst hlb
      cases tx with
      | none => simp [Aux.toRT, Aux.toRTL, Aux.tagOf, rawTag, joinSp, decode, decodeL, hlen]
      | some s =>
        have := h1 s rfl
        cases s with
        | nil => exact absurd rfl this
        | cons a b => simp [Aux.toRT, Aux.toRTL, Aux.tagOf, rawTag, joinSp, decode, decodeL, hlen, o1, o2, hsl]
    | cons c cs' =>
      simp only [List.isEmpty_cons, Bool.false_eq_true, if_false] at h3
      have hne : Aux.toRTL o (c :: cs') ≠ [] := by simp [Aux.toRTL]
      cases hsi : ro.sint with
      | true =>
        simp only [hsi, if_true] at h3
        subst h3
        cases lb with
        | none => simp [Aux.toRT, Aux.tagOf, rawTag, joinSp, decode, hlen, ih]
        | some s =>
          have := h2 s rfl
          cases s with
          | nil => exact absurd rfl this
          | cons a b => simp [Aux.toRT, Aux.tagOf, rawTag, joinSp, decode, hlen, ih, o3, o4, hsi, hne]
      | false =>
        simp only [hsi, Bool.false_eq_true, if_false] at h3
        subst h3
        cases tx with
        | none => simp [Aux.toRT, Aux.tagOf, rawTag, joinSp, decode, hlen, ih]
        | some s =>
          have := h1 s rfl
          cases s with
          | nil => exact absurd rfl this
          | cons a b => simp [Aux.toRT, Aux.tagOf, rawTag, joinSp, decode, hlen, ih, o3, o4, hsi, hne]
theorem carried_treeL (o : WOpts) (ro : ROpts) (ho : o.sltl = false ∧ o.slnl = true ∧ o.sitl = false ∧ o.sinl = false ∧ o.sel = false) :
    ∀ (cs : List NT), Carried.CarriedL ro cs → decodeL ro (Aux.toRTL o cs) = cs
  | [], _ => by simp [Aux.toRTL, decodeL]
  | c :: cs, h => by
    simp [Aux.toRTL, decodeL, carried_tree o ro ho c h.1, carried_treeL o ro ho cs h.2]
end

/-- rooting token emission and interpretation: a defined rooting state (1 unrooted, 2 rooted) survives when the token
    is written and the reader does not force the opposite, and also when it is suppressed and the reader forces it.
    (Stated for statements without a weight comment; weights go through `strip`, covered by the correspondence.) -/
theorem rooting_roundtrip (o : WOpts) (ro : ROpts) (r : Nat) (hr : r = 1 ∨ r = 2) (weight : Option Str)
    (hw : weight = none ∨ o.stw = false)
    (hdir : (o.srt = false ∧ (ro.rooting = 0 ∨ ro.rooting = 3 ∨ ro.rooting = 4 ∨ ro.rooting = r)) ∨ ro.rooting = r) :
    (treeComments ro (comments o r weight) none none).1 = r := by
  have hcm : comments o r weight = (if r == 0 || o.srt then [] else if r == 2 then ["&R".toList] else ["&U".toList]) := by
    unfold comments
    rcases hw with hw | hw
    · subst hw; simp
    · cases weight <;> simp [hw]
  rw [hcm]
  have s1 : strip ['&', 'R'] = ['&', 'R'] := by decide
  have s2 : strip ['&', 'U'] = ['&', 'U'] := by decide
  rcases hr with rfl | rfl
  · rcases hdir with ⟨h1, h2⟩ | h2
    · rcases h2 with h2 | h2 | h2 | h2 <;>
        simp [h1, treeComments, s2, isRootingComment, rootingState, h2] <;> decide
    · cases o.srt <;> simp [treeComments, s2, isRootingComment, rootingState, h2] <;> decide
  · rcases hdir with ⟨h1, h2⟩ | h2
    · rcases h2 with h2 | h2 | h2 | h2 <;>
        simp [h1, treeComments, s1, isRootingComment, rootingState, h2] <;> decide
    · cases o.srt <;> simp [treeComments, s1, isRootingComment, rootingState, h2] <;> decide

/-! ### non-vacuity: the hypotheses are satisfiable, on a tree with awkward labels -/

/-- `('a=b':1.5,c_d,'e f(g)')in t;` as a model tree -/
def exampleTree : NT :=
  .node none (some "in t".toList) none
    [.node (some "a=b".toList) none (some "1.5".toList) [],
     .node (some "c_d".toList) none none [],
     .node (some "e f(g)".toList) none (some "1e-05".toList) []]

example : Consistent false false false ∧ Consistent true false false ∧ Consistent true false true ∧ Consistent true true true := by
  simp [Consistent]
example : Aux.LL (Aux.toRT {} exampleTree) := by
  simp [exampleTree, Aux.toRT, Aux.toRTL, Aux.LL, Aux.LLL, Aux.tagOf, Aux.lenOf, rawTag, joinSp]
example : DistinctCI (taxaOf {} (Aux.toRT {} exampleTree)) := by
  simp [exampleTree, Aux.toRT, Aux.toRTL, taxaOf, taxaOfL, Aux.tagOf, Aux.lenOf, rawTag, joinSp, DistinctCI]
  decide
example : Carried {} exampleTree := by
  simp [exampleTree, Carried, Carried.CarriedL]
/-- all hypotheses of `newick_roundtrip`, `carried_tree` and `rooting_roundtrip` hold together on `exampleTree`,
    and the conclusion is the concrete expected result -/
example : parseText {} {} (writeTree {} 2 none exampleTree ++ ['\n']) =
    some ([⟨2, none, exampleTree⟩], ⟨[], ["a=b".toList, "c_d".toList, "e f(g)".toList], false⟩) := by
  have exampleTree_ok : OkT {} exampleTree := by
    simp [exampleTree, OkT, OkL, rawTag, joinSp, LenOk]
    decide
  have hll : Aux.LL (Aux.toRT {} exampleTree) := by
    simp [exampleTree, Aux.toRT, Aux.toRTL, Aux.LL, Aux.LLL, Aux.tagOf, Aux.lenOf, rawTag, joinSp]
  have hd : DistinctCI (taxaOf {} (Aux.toRT {} exampleTree)) := by
    simp [exampleTree, Aux.toRT, Aux.toRTL, taxaOf, taxaOfL, Aux.tagOf, Aux.lenOf, rawTag, joinSp, DistinctCI]
    decide
  have h := newick_roundtrip {} {} (by simp [Consistent]) 2 none exampleTree exampleTree_ok hll (by simp) hd
  have hc := carried_tree {} {} (by simp) exampleTree (by simp [exampleTree, Carried, Carried.CarriedL])
  have hr := rooting_roundtrip {} {} 2 (Or.inr rfl) none (Or.inl rfl) (Or.inl ⟨rfl, Or.inl rfl⟩)
  rw [h, hc, hr]
  simp [exampleTree, Aux.toRT, Aux.toRTL, taxaOf, taxaOfL, Aux.tagOf, Aux.lenOf, rawTag, joinSp, comments, treeComments]
  decide

end DendroModel.C02
