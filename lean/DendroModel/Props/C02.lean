import DendroModel.Theory.C02Stmt
import DendroModel.Theory.C02Assign
import DendroModel.Theory.C02Fuel
import DendroModel.Theory.C02List
import DendroModel.Theory.C02PFuel
import DendroModel.Theory.C02Nexus
import DendroModel.Theory.C02NexusTr
import DendroModel.Theory.C02NexusDoc
import DendroModel.Theory.C02Nexml
import DendroModel.Theory.C02NexmlNs
import DendroModel.Theory.C02NexmlRt
/-! C02 — property theorems about the model of `Model/C02.lean` (the definitions `drv_c02` executes).

Every `theorem` directly inside `namespace DendroModel.C02` of this file is an obligation; helper lemmas live in
`DendroModel.C02.Aux` (files `Theory/C02*.lean`).

Shape of the argument for Newick (clauses a, b of the design):
  characters  --token_roundtrip(_any) / statement_tokens-->  token kinds  --newick_tokens_roundtrip (every tree,
  anonymous leaves included)-->  raw tree  --assign (labels → node labels / taxa)-->  tree: `newick_roundtrip`, and in
  readable form `newick_roundtrip_tree` (= `[t]` with its rooting).  `tokenizer_fuel_suffices`: totality on every text.
  Case folding is a parameter (`ROpts.cf`): the theorems hold for every folding, the driver is handed `str.lower`.
`newick_list_roundtrip(_trees)`: several statements in one text, read into a pre-filled namespace.
`weight_roundtrip`, `newick_roundtrip_tree_weighted`: the `[&W w]` comment incl. fractions.
`nexus_statements_roundtrip_partial`, `nexus_translate_roundtrip_partial`, `resolve_key`, `nexus_translate_roundtrip`: the TREE
statements of a NEXUS TREES block under the NEXUS symbol mapper (label before number; TRANSLATE token before label).
`taxlabels_tokens`: the TAXLABELS list.  `nexus_trees_roundtrip`, `nexus_trees_translate_roundtrip`: the TREES block text
(`BEGIN TREES;`, TRANSLATE statement, `TREE name = …`, `END;`) read by the block reader.  `nexus_document_roundtrip`,
`nexus_document_translate_roundtrip`: the WHOLE document (`#NEXUS`, TAXA block with DIMENSIONS / TAXLABELS, TREES block) written
by the model writer and read by the model document reader gives the namespace (labels and order) and the trees back.
`reader_fuel_suffices`, `tokenizer_fuel_suffices`: the fuel of every loop of the Newick reader model is enough on every input.
Not proved here (correspondence and oracle only): NeXML, float ↔ text, TITLE / LINK lines (several namespaces in one file). -/
namespace DendroModel.C02
open DendroModel.Tables

/-- Every character the tokenizer treats specially (whitespace, captured delimiters, quote, comment brackets) that
    can occur in a label is in the protect class of `escape_nexus_token` — both the default class and the one
    `NewickWriter._render_node_tag` passes — or is the space handled by the underscore rule.  Decided over the tables
    regenerated from the source on every run: this is the obligation that the `=` / `\` defect breaks. -/
theorem special_protected :
    (∀ c ∈ tokSpecial, labelChar c = true → (c ∈ protectDefault ∨ c = ' ')) ∧
    (∀ c ∈ tokSpecial, labelChar c = true → (c ∈ protectNewick ∨ c = ' ')) := Aux.special_protected_tables

/-- facts about the tokenizer configuration the model relies on (quote doubling on, one quote character, comment
    brackets distinct, captured delimiters are neither whitespace nor quotes) -/
theorem tokenizer_tables :
    tokQuoteDoubling = true ∧ tokQuote = ['\''] ∧ (∀ c ∈ tokCommentBegin, c ∉ tokCommentEnd) ∧
    (∀ d ∈ tokCaptured, d ∉ tokUncaptured ∧ d ∉ tokQuote) ∧
    (∀ c ∈ ['(', ')', ',', ':', ';'], c ∈ tokCaptured ∧ c ∈ protectNewick ∧ c ∈ protectDefault) := by decide

/-- totality of the tokenizer model on EVERY input text (not only writer output): `__next__` with the fuel `nextTok`
    gives it never runs out of fuel, and the token stream of `tokenizeAll` is the same with any amount of extra fuel —
    so an `ERR` of the `tokens` op is always an unterminated quote, never a fuel shortfall -/
theorem tokenizer_fuel_suffices (pu : Bool) (inp : Str) :
    nextTok pu inp ≠ .fuel ∧ ∀ k, tokenize pu (inp.length + 1 + k) inp = tokenizeAll pu inp := by
  refine ⟨Aux.next_no_fuel pu _ inp [] (by omega), ?_⟩
  intro k
  induction k with
  | zero => rfl
  | succ k ih =>
    rw [← ih, show inp.length + 1 + (k + 1) = (inp.length + 1 + k) + 1 by omega]
    exact (Aux.tokenize_fuel_indep pu _ inp (by omega)).symm

example : nextTok false "[a[b]] 'x''y' z_1;".toList ≠ .fuel := (tokenizer_fuel_suffices false _).1

/-- totality of the whole reader model on EVERY text and EVERY option set: running it with any amount of extra fuel
    (tokenizer, statement loop and recursive-descent parser) gives the same outcome as `parseText` — so an `ERR` of the
    `parse` / `rt` ops is always a refusal of the reader, never a fuel shortfall (this retires the driver's FUEL rerun).
    Rests on: every token consumes a character, every statement consumes a token, and the parser's result is
    independent of its fuel once it exceeds twice the number of tokens (`Aux.fuel_step`). -/
theorem reader_fuel_suffices (k : Nat) (o : ROpts) (m : Mapper) (text : Str) : parseTextK k o m text = parseText o m text :=
  Aux.parseTextK_eq k o m text

example : parseTextK 1000 {} {} "((a,b));;(c:1:2,(".toList = parseText {} {} "((a,b));;(c:1:2,(".toList := reader_fuel_suffices _ _ _ _

/-- clause (a): every admissible label (non-empty, over printable ASCII + tab + non-ASCII), written by the Newick
    writer's `escape_nexus_token` call under a consistent option triple and followed by any captured delimiter, is
    read back by one `__next__` call as exactly that label, with nothing consumed beyond it and no comment captured -/
theorem token_roundtrip (ps uu pu : Bool) (hc : Consistent ps uu pu) (l : Str) (hne : l ≠ [])
    (hdom : ∀ c ∈ l, labelChar c = true) (d : Char) (hd : d ∈ tokCaptured) (rest : Str) :
    ∃ q, nextTok pu (escape ps (!uu) protectNewick l ++ d :: rest) = .tok l q [] (d :: rest) := by
  obtain ⟨q, h, _⟩ := Aux.next_escape ps uu pu hc l hne hdom d hd rest
  exact ⟨q, h _ []⟩

/-- …and the parser never mistakes such a token for punctuation: its kind is `word l` -/
theorem token_roundtrip_kind (ps uu pu : Bool) (hc : Consistent ps uu pu) (l : Str) (hne : l ≠ [])
    (hdom : ∀ c ∈ l, labelChar c = true) (d : Char) (hd : d ∈ tokCaptured) (rest : Str) :
    ∃ q, nextTok pu (escape ps (!uu) protectNewick l ++ d :: rest) = .tok l q [] (d :: rest) ∧
      ∀ cm, kind ⟨l, q, cm⟩ = .word l := by
  obtain ⟨q, h, hk⟩ := Aux.next_escape ps uu pu hc l hne hdom d hd rest
  exact ⟨q, h _ [], fun cm => Aux.kind_word_of_unprotected l q cm hne hk⟩

open Aux in
/-- clause (b), token level, for EVERY tree (anonymous leaves, unary nodes, polytomies included): the reader's
    recursive-descent parser, run on the token kinds of what the writer's callbacks emit followed by `;`, returns
    exactly the tag / length / children structure that was written, consumes exactly the statement and reports it
    complete.  (`(A,)`, `(,A)`, `(,)`, `()` are instances: blank children are written as nothing.) -/
theorem newick_tokens_roundtrip (o : WOpts) (t : NT) (f : Nat)
    (hf : 6 * (view (wrNode o true t)).length + 3 ≤ f) (rest : List Tok) :
    parseNode f (view (wrNode o true t) ++ .semi :: rest) = some (toRT o t, rest, true) := by
  have hv := view_wrNode o t true
  simp only [if_true, List.nil_append] at hv
  rw [hv] at hf ⊢
  have := rt (toRT o t) f (Nat.le_trans (need_le _) hf) .semi rest
  simpa [Follow.tok, Follow.after] using this

/-- the only tree a Newick statement cannot carry: a lone node without taxon, label and length (its text is `;`) -/
def WritesSomething (o : WOpts) (t : NT) : Prop := Aux.isBlank (Aux.toRT o t) = false

/-- character level: tokenizing the text `_write_tree` produces (plus the newline `as_string` appends) yields exactly
    the token kinds the writer's callbacks emitted, then `;`; no tokenizer error; the rooting / weight comments are
    attached to the first token and no other token carries a comment.  For every tree whose tags are over the label
    domain and whose length texts are number texts (`OkT`), under every consistent option triple. -/
theorem statement_tokens (o : WOpts) (pu : Bool) (hc : Consistent o.ps o.uu pu) (rooting : Nat) (weight : Option Str)
    (t : NT) (hok : OkT o t) (hll : WritesSomething o t) (hw : ∀ w, weight = some w → WeightOk w) :
    ∃ first rest, tokenizeAll pu (writeTree o rooting weight t ++ ['\n']) = ⟨first :: rest, true, false⟩ ∧
      (first :: rest).map kind = Aux.view (wrNode o true t) ++ [.semi] ∧
      first.cm = comments o rooting weight ∧ ∀ x ∈ rest, x.cm = [] :=
  Aux.statement_tokens' o pu hc rooting weight t hok hll hw

open Aux in
/-- clauses (a)+(b) end to end on the model the driver runs: reading the written text back into a fresh namespace
    gives exactly one tree, whose structure is `decode ro (toRT o t)` (see `carried_tree`: that is `t` itself when the
    options fit the tree), whose rooting / weight come from the written comments (see `rooting_roundtrip`), over a
    namespace that lists the taxon labels of the tree in reading order.  Hypotheses: consistent options, admissible
    labels and number texts, the tree writes something (`WritesSomething`), taxon labels distinct up to the case folding `ro.cf`. -/
theorem newick_roundtrip (o : WOpts) (ro : ROpts) (hc : Consistent o.ps o.uu ro.pu) (rooting : Nat) (weight : Option Str)
    (t : NT) (hok : OkT o t) (hll : WritesSomething o t) (hw : ∀ w, weight = some w → WeightOk w)
    (hd : DistinctCI ro.cf (taxaOf ro (toRT o t))) :
    parseText ro {} (writeTree o rooting weight t ++ ['\n']) =
      some ([⟨(treeComments ro (comments o rooting weight) none none).1,
              (treeComments ro (comments o rooting weight) none none).2, decode ro (toRT o t)⟩],
            ⟨[], taxaOf ro (toRT o t), false⟩) := by
  obtain ⟨first, rest, htok, hkind, hcm, _⟩ := statement_tokens' o ro.pu hc rooting weight t hok hll hw
  have hv := view_wrNode o t true
  simp only [if_true, List.nil_append] at hv
  have hfirst : kind first ≠ .semi := by
    intro he
    have h1 : kind first :: rest.map kind = wr (toRT o t) ++ [.semi] := by rw [← hv, ← hkind]; rfl
    rcases wr_head (toRT o t) hll [.semi] with ⟨r, hr⟩ | ⟨w, r, hr⟩ | ⟨r, hr⟩ <;>
      (rw [hr, he] at h1; cases h1)
  have hlen : (first :: rest).length = (view (wrNode o true t)).length + 1 := by
    have := congrArg List.length hkind
    simpa using this
  have hparse := newick_tokens_roundtrip o t (stmtFuel (first :: rest))
    (by simp only [stmtFuel, hlen]; omega) []
  have hassign := assign_fresh ro (toRT o t) {} [] rfl rfl (by simp) (by simpa using hd)
  unfold parseText parseTextK
  simp only [Nat.add_zero]
  rw [show tokenize ro.pu ((writeTree o rooting weight t ++ ['\n']).length + 1) (writeTree o rooting weight t ++ ['\n']) =
      tokenizeAll ro.pu (writeTree o rooting weight t ++ ['\n']) from rfl, htok]
  simp only [Bool.not_true, Bool.false_eq_true, if_false]
  rw [show (first :: rest).length + 2 = ((first :: rest).length + 1) + 1 by omega, parseStmts]
  have hsemi : (kind first == Tok.semi) = false := by simpa using hfirst
  simp only [hsemi, Bool.false_and, Bool.and_false, Bool.false_eq_true, if_false]
  rw [hkind, Nat.add_zero, hparse]
  simp only [hassign, hcm]
  simp [skipSemis, parseStmts]

/-- what a Newick statement carries of a tree under the default label options: one taxon per leaf, a label or
    (reader option `suppress_internal_node_taxa=False`) a taxon per internal node -/
def Carried (ro : ROpts) : NT → Prop
  | .node tx lb _ cs =>
    (∀ s, tx = some s → s ≠ []) ∧ (∀ s, lb = some s → s ≠ []) ∧
    (if cs.isEmpty then lb = none ∧ ro.sleaf = false else (if ro.sint then tx = none else lb = none)) ∧
    CarriedL ro cs
where CarriedL (ro : ROpts) : List NT → Prop
  | [] => True
  | c :: cs => Carried ro c ∧ CarriedL ro cs

namespace Aux
mutual
/-- with the writer's default label options and edge lengths on, the structure that comes back is the tree itself -/
theorem carried_tree (o : WOpts) (ro : ROpts) (ho : o.sltl = false ∧ o.slnl = true ∧ o.sitl = false ∧ o.sinl = false ∧ o.sel = false) :
    ∀ (t : NT), Carried ro t → decode ro (Aux.toRT o t) = t
  | .node tx lb ln cs, h => by
    obtain ⟨h1, h2, h3, h4⟩ := h
    have ih := carried_treeL o ro ho cs h4
    obtain ⟨o1, o2, o3, o4, o5⟩ := ho
    have hlen : Aux.lenOf o ln = ln := by cases ln <;> simp [Aux.lenOf, o5]
    cases cs with
    | nil =>
      simp only [List.isEmpty_nil, if_true] at h3
      obtain ⟨hlb, hsl⟩ := h3
      subst hlb
      cases tx with
      | none => simp [Aux.toRT, Aux.toRTL, Aux.tagOf, rawTag, joinSp, decode, decodeL, hlen]
      | some s =>
        have := h1 s rfl
        cases s with
        | nil => exact absurd rfl this
        | cons a b => simp [Aux.toRT, Aux.toRTL, Aux.tagOf, rawTag, joinSp, decode, decodeL, hlen, o1, o2, hsl]
    | cons c cs' =>
      simp only [List.isEmpty_cons, Bool.false_eq_true, if_false] at h3
      have hne : Aux.toRTL o (c :: cs') ≠ [] := by simp [Aux.toRTL]
      cases hsi : ro.sint with
      | true =>
        simp only [hsi, if_true] at h3
        subst h3
        cases lb with
        | none => simp [Aux.toRT, Aux.tagOf, rawTag, joinSp, decode, hlen, ih]
        | some s =>
          have := h2 s rfl
          cases s with
          | nil => exact absurd rfl this
          | cons a b => simp [Aux.toRT, Aux.tagOf, rawTag, joinSp, decode, hlen, ih, o3, o4, hsi, hne]
      | false =>
        simp only [hsi, Bool.false_eq_true, if_false] at h3
        subst h3
        cases tx with
        | none => simp [Aux.toRT, Aux.tagOf, rawTag, joinSp, decode, hlen, ih]
        | some s =>
          have := h1 s rfl
          cases s with
          | nil => exact absurd rfl this
          | cons a b => simp [Aux.toRT, Aux.tagOf, rawTag, joinSp, decode, hlen, ih, o3, o4, hsi, hne]
theorem carried_treeL (o : WOpts) (ro : ROpts) (ho : o.sltl = false ∧ o.slnl = true ∧ o.sitl = false ∧ o.sinl = false ∧ o.sel = false) :
    ∀ (cs : List NT), Carried.CarriedL ro cs → decodeL ro (Aux.toRTL o cs) = cs
  | [], _ => by simp [Aux.toRTL, decodeL]
  | c :: cs, h => by
    simp [Aux.toRTL, decodeL, carried_tree o ro ho c h.1, carried_treeL o ro ho cs h.2]
end
end Aux

/-- rooting token emission and interpretation: a defined rooting state (1 unrooted, 2 rooted) survives when the token
    is written and the reader does not force the opposite, and also when it is suppressed and the reader forces it.
    (Stated for statements without a weight comment; weights go through `strip`, covered by the correspondence.) -/
theorem rooting_roundtrip (o : WOpts) (ro : ROpts) (r : Nat) (hr : r = 1 ∨ r = 2) (weight : Option Str)
    (hw : weight = none ∨ o.stw = false)
    (hdir : (o.srt = false ∧ (ro.rooting = 0 ∨ ro.rooting = 3 ∨ ro.rooting = 4 ∨ ro.rooting = r)) ∨ ro.rooting = r) :
    (treeComments ro (comments o r weight) none none).1 = r := by
  have hcm : comments o r weight = (if r == 0 || o.srt then [] else if r == 2 then ["&R".toList] else ["&U".toList]) := by
    unfold comments
    rcases hw with hw | hw
    · subst hw; simp
    · cases weight <;> simp [hw]
  rw [hcm]
  have s1 : strip ['&', 'R'] = ['&', 'R'] := by decide
  have s2 : strip ['&', 'U'] = ['&', 'U'] := by decide
  rcases hr with rfl | rfl
  · rcases hdir with ⟨h1, h2⟩ | h2
    · rcases h2 with h2 | h2 | h2 | h2 <;>
        simp [h1, treeComments, s2, isRootingComment, rootingState, h2] <;> decide
    · cases o.srt <;> simp [treeComments, s2, isRootingComment, rootingState, h2] <;> decide
  · rcases hdir with ⟨h1, h2⟩ | h2
    · rcases h2 with h2 | h2 | h2 | h2 <;>
        simp [h1, treeComments, s1, isRootingComment, rootingState, h2] <;> decide
    · cases o.srt <;> simp [treeComments, s1, isRootingComment, rootingState, h2] <;> decide

/-- no weight comment written ⇒ no weight read -/
theorem weight_absent (o : WOpts) (ro : ROpts) (r : Nat) :
    (treeComments ro (comments o r none) none none).2 = none := by
  have s1 : strip ['&', 'R'] = ['&', 'R'] := by decide
  have s2 : strip ['&', 'U'] = ['&', 'U'] := by decide
  unfold comments
  cases h1 : (r == 0 || o.srt) <;> cases h2 : (r == 2) <;>
    simp [treeComments, s1, s2, isRootingComment]

namespace Aux

theorem stripL_cons (a : Char) (r : Str) (h : isSpace a = false) : stripL (a :: r) = a :: r := by
  simp [stripL, h]

theorem strip_id (s : Str) (a : Char) (r : Str) (hs : s = a :: r) (ha : isSpace a = false)
    (b : Char) (t : Str) (hr : s.reverse = b :: t) (hb : isSpace b = false) : strip s = s := by
  unfold strip
  rw [hs, stripL_cons a r ha, ← hs, hr, stripL_cons b t hb, ← hr, List.reverse_reverse]

theorem weightChar_not_space (c : Char) (h : lenChar c = true ∨ c = '/') : isSpace c = false := by
  cases hs : isSpace c with
  | false => rfl
  | true =>
    exfalso
    simp only [isSpace, Bool.or_eq_true, beq_iff_eq] at hs
    rcases hs with ((((rfl | rfl) | rfl) | rfl) | rfl) | rfl <;> rcases h with h | h <;> revert h <;> decide

theorem strip_weight (w : Str) (hw : WeightOk w) : strip ('&' :: 'W' :: ' ' :: w) = '&' :: 'W' :: ' ' :: w := by
  obtain ⟨hne, hall⟩ := hw
  cases hrev : w.reverse with
  | nil => simp at hrev; exact absurd hrev hne
  | cons b t =>
    have hbm : b ∈ w := by
      have : b ∈ w.reverse := by rw [hrev]; simp
      simpa using this
    refine strip_id _ '&' ('W' :: ' ' :: w) rfl (by decide) b (t ++ [' ', 'W', '&']) ?_ (weightChar_not_space b (hall b hbm))
    simp [hrev]

end Aux

open Aux in
/-- weights (`store_tree_weights` on both sides): the `[&W w]` comment the writer emits is recognised by the reader and
    its expression is exactly the text written (with the separating space: ` w`; the harness applies `float`, or
    `float/float` for a fraction `a/b`), whether or not a rooting comment precedes it — and the rooting state
    survives next to an active weight comment (the case `rooting_roundtrip` leaves out). -/
theorem weight_roundtrip (o : WOpts) (ro : ROpts) (ho : o.stw = true) (hro : ro.stw = true) (r : Nat) (w : Str) (hw : WeightOk w) :
    (treeComments ro (comments o r (some w)) none none).2 = some (' ' :: w) ∧
    ((r = 1 ∨ r = 2) →
      ((o.srt = false ∧ (ro.rooting = 0 ∨ ro.rooting = 3 ∨ ro.rooting = 4 ∨ ro.rooting = r)) ∨ ro.rooting = r) →
      (treeComments ro (comments o r (some w)) none none).1 = r) := by
  have s1 : strip ['&', 'R'] = ['&', 'R'] := by decide
  have s2 : strip ['&', 'U'] = ['&', 'U'] := by decide
  have s3 := strip_weight w hw
  have e : "&W ".toList ++ w = '&' :: 'W' :: ' ' :: w := by
    have : "&W ".toList = ['&', 'W', ' '] := by decide
    rw [this]; rfl
  have hnr : isRootingComment ('&' :: 'W' :: ' ' :: w) = false := by simp [isRootingComment]
  have hiw : isWeightComment ('&' :: 'W' :: ' ' :: w) = true := by simp [isWeightComment]
  constructor
  · unfold comments
    cases h1 : (r == 0 || o.srt) <;> cases h2 : (r == 2) <;>
      simp [ho, e, treeComments, s1, s2, s3, isRootingComment, hnr, hiw, hro]
  · intro hr hdir
    unfold comments
    rcases hr with rfl | rfl
    · rcases hdir with ⟨h1, h2⟩ | h2
      · rcases h2 with h2 | h2 | h2 | h2 <;>
          simp [h1, ho, e, treeComments, s2, s3, isRootingComment, hnr, hiw, hro, rootingState, h2]
      · cases o.srt <;> simp [ho, e, treeComments, s2, s3, isRootingComment, hnr, hiw, hro, rootingState, h2]
    · rcases hdir with ⟨h1, h2⟩ | h2
      · rcases h2 with h2 | h2 | h2 | h2 <;>
          simp [h1, ho, e, treeComments, s1, s3, isRootingComment, hnr, hiw, hro, rootingState, h2]
      · cases o.srt <;> simp [ho, e, treeComments, s1, s3, isRootingComment, hnr, hiw, hro, rootingState, h2]

example : WeightOk "1/2".toList ∧ WeightOk "0.125".toList ∧ WeightOk "1e-05".toList := by
  refine ⟨⟨by simp, by decide⟩, ⟨by simp, by decide⟩, ⟨by simp, by decide⟩⟩

/-- the readable end-to-end claim for one Newick tree statement, on the definitions the driver runs (`write`, `parse`,
    `rt` ops): under the writer's default label options, consistent underscore/space options and rooting options that
    do not contradict each other, writing a tree `t` with a defined rooting state `r` and reading the text back into
    a fresh namespace returns exactly `[t]` with rooting `r`.  Domain: tags over the label domain, number texts as
    lengths (`OkT`), `t` is not the lone anonymous node (`WritesSomething`), each node carries what a Newick
    statement can carry (`Carried`), taxon labels distinct up to the mapper's case folding. Anonymous leaves, unary
    nodes and polytomies are included. -/
theorem newick_roundtrip_tree (o : WOpts) (ro : ROpts) (hc : Consistent o.ps o.uu ro.pu)
    (ho : o.sltl = false ∧ o.slnl = true ∧ o.sitl = false ∧ o.sinl = false ∧ o.sel = false)
    (r : Nat) (hr : r = 1 ∨ r = 2)
    (hdir : (o.srt = false ∧ (ro.rooting = 0 ∨ ro.rooting = 3 ∨ ro.rooting = 4 ∨ ro.rooting = r)) ∨ ro.rooting = r)
    (t : NT) (hok : OkT o t) (hws : WritesSomething o t) (hcar : Carried ro t)
    (hd : DistinctCI ro.cf (taxaOf ro (Aux.toRT o t))) :
    parseText ro {} (writeTree o r none t ++ ['\n']) = some ([⟨r, none, t⟩], ⟨[], taxaOf ro (Aux.toRT o t), false⟩) := by
  rw [newick_roundtrip o ro hc r none t hok hws (by simp) hd, Aux.carried_tree o ro ho t hcar,
    rooting_roundtrip o ro r hr none (Or.inl rfl) hdir, weight_absent]

/-- `newick_roundtrip_tree` with a tree weight: `store_tree_weights` on both sides, weight text `w` (number or fraction) -/
theorem newick_roundtrip_tree_weighted (o : WOpts) (ro : ROpts) (hc : Consistent o.ps o.uu ro.pu)
    (ho : o.sltl = false ∧ o.slnl = true ∧ o.sitl = false ∧ o.sinl = false ∧ o.sel = false)
    (hsw : o.stw = true) (hrw : ro.stw = true) (w : Str) (hw : WeightOk w)
    (r : Nat) (hr : r = 1 ∨ r = 2)
    (hdir : (o.srt = false ∧ (ro.rooting = 0 ∨ ro.rooting = 3 ∨ ro.rooting = 4 ∨ ro.rooting = r)) ∨ ro.rooting = r)
    (t : NT) (hok : OkT o t) (hws : WritesSomething o t) (hcar : Carried ro t)
    (hd : DistinctCI ro.cf (taxaOf ro (Aux.toRT o t))) :
    parseText ro {} (writeTree o r (some w) t ++ ['\n']) =
      some ([⟨r, some (' ' :: w), t⟩], ⟨[], taxaOf ro (Aux.toRT o t), false⟩) := by
  have hwr := weight_roundtrip o ro hsw hrw r w hw
  rw [newick_roundtrip o ro hc r (some w) t hok hws (by intro w' h; cases h; exact hw) hd, Aux.carried_tree o ro ho t hcar,
    hwr.1, hwr.2 hr hdir]

open Aux in
/-- clause (a) for BOTH protect classes (the default one is what TAXLABELS / TRANSLATE / tree names are written
    with) and EVERY follower a writer produces: a captured delimiter, whitespace / newline, or the end of the text.
    The token read is the label and the input left over is the follower up to leading whitespace. -/
theorem token_roundtrip_any (p : List Char) (hp : p = protectDefault ∨ p = protectNewick)
    (ps uu pu : Bool) (hc : Consistent ps uu pu) (l : Str) (hne : l ≠ []) (hdom : ∀ c ∈ l, labelChar c = true)
    (suf : Str) (hs : suf = [] ∨ ∃ d rest, suf = d :: rest ∧ (d ∈ tokCaptured ∨ d ∈ tokUncaptured)) :
    ∃ q r', nextTok pu (escape ps (!uu) p l ++ suf) = .tok l q [] r' ∧ skipWs r' = skipWs suf := by
  have hP : Covers p := by rcases hp with rfl | rfl; exact covers_default; exact covers_newick
  have hfo : Follower suf ∧ skipWs (plainAfter suf) = skipWs suf := by
    rcases hs with rfl | ⟨d, rest, rfl, hd | hd⟩
    · exact ⟨⟨trivial, trivial⟩, rfl⟩
    · obtain ⟨h1, h2⟩ := follower_cap d hd rest
      exact ⟨h1, by rw [h2]⟩
    · obtain ⟨h1, h2⟩ := follower_ws d hd rest
      have : isUncap d = true := by simpa [isUncap] using hd
      exact ⟨h1, by rw [h2]; simp [skipWs, this]⟩
  obtain ⟨q, h, _⟩ := next_escape_gen p hP ps uu pu hc l hne hdom suf hfo.1
  refine ⟨q, _, h _ [], ?_⟩
  cases q
  · simpa using hfo.2
  · simp

open Aux in
/-- tree lists and pre-filled namespaces: a text with SEVERAL statements (what `TreeList.as_string("newick")` writes:
    every statement followed by a newline), read into a namespace that already lists `ns0`, yields one tree per
    statement, in order, each with the structure / rooting / weight of its own statement; labels resolve to the
    existing namespace members and new ones are appended in reading order (`addAll`).  Hypotheses: consistent
    options; every tree is `OkT`, writes something, has a number text as weight and no taxon label twice; over the
    old namespace and all taxon labels, labels equal up to the case folding are equal (`CaseCons`). -/
theorem newick_list_roundtrip (o : WOpts) (ro : ROpts) (hc : Consistent o.ps o.uu ro.pu) (ns0 : List Str)
    (x : WT) (xs : List WT)
    (hok : ∀ y ∈ x :: xs, OkT o y.2.2 ∧ WritesSomething o y.2.2 ∧ (∀ w, y.2.1 = some w → WeightOk w) ∧
      (taxaOf ro (toRT o y.2.2)).Nodup)
    (hU : CaseCons ro.cf (ns0 ++ allTaxa o ro (x :: xs))) :
    parseText ro ⟨[], ns0, false⟩ (listText o (x :: xs)) =
      some ((x :: xs).map (resultOf o ro), ⟨[], addAll ns0 (allTaxa o ro (x :: xs)), false⟩) := by
  obtain ⟨gs, hg, htok⟩ := list_tokens o ro.pu hc x xs (fun y hy => ⟨(hok y hy).1, (hok y hy).2.1, (hok y hy).2.2.1⟩)
  have hlen := groups_len o (x :: xs) gs hg
  have hp := parse_groups o ro (ns0 ++ allTaxa o ro (x :: xs)) hU (x :: xs) gs hg
    (fun y hy => ⟨(hok y hy).2.1, (hok y hy).2.2.2, fun z hz => by
      simp only [allTaxa, List.mem_append, List.mem_flatMap]
      exact Or.inr ⟨y, hy, hz⟩⟩)
    ⟨[], ns0, false⟩ [] (gs.flatten.length + 2 + 0) true rfl (Or.inl rfl) (fun z hz => by simp [hz]) (by omega) (by simp)
  unfold parseText parseTextK
  simp only [Nat.add_zero] at hp ⊢
  rw [show tokenize ro.pu ((listText o (x :: xs)).length + 1) (listText o (x :: xs)) = tokenizeAll ro.pu (listText o (x :: xs)) from rfl,
    htok]
  simp only [Bool.not_true, Bool.false_eq_true, if_false]
  rw [hp]
  simp

open Aux in
/-- …and in readable form: under the default label options, for trees that carry only what a statement can carry,
    the trees that come back are the trees that were written -/
theorem newick_list_roundtrip_trees (o : WOpts) (ro : ROpts) (hc : Consistent o.ps o.uu ro.pu)
    (ho : o.sltl = false ∧ o.slnl = true ∧ o.sitl = false ∧ o.sinl = false ∧ o.sel = false) (ns0 : List Str)
    (x : WT) (xs : List WT)
    (hok : ∀ y ∈ x :: xs, OkT o y.2.2 ∧ WritesSomething o y.2.2 ∧ (∀ w, y.2.1 = some w → WeightOk w) ∧
      (taxaOf ro (toRT o y.2.2)).Nodup ∧ Carried ro y.2.2)
    (hU : CaseCons ro.cf (ns0 ++ allTaxa o ro (x :: xs))) :
    parseText ro ⟨[], ns0, false⟩ (listText o (x :: xs)) =
      some ((x :: xs).map (fun y => ⟨(treeComments ro (comments o y.1 y.2.1) none none).1,
                                     (treeComments ro (comments o y.1 y.2.1) none none).2, y.2.2⟩),
            ⟨[], addAll ns0 (allTaxa o ro (x :: xs)), false⟩) := by
  rw [newick_list_roundtrip o ro hc ns0 x xs (fun y hy => ⟨(hok y hy).1, (hok y hy).2.1, (hok y hy).2.2.1, (hok y hy).2.2.2.1⟩) hU]
  congr 2
  apply List.map_congr_left
  intro y hy
  simp only [resultOf]
  rw [carried_tree o ro ho y.2.2 (hok y hy).2.2.2.2]

open Aux in
/-- NEXUS, TREE statements without TRANSLATE: the Newick statements of a TREES block, read with the NEXUS symbol
    mapper (taxon-number lookup ENABLED) over the namespace the TAXA block declared, which lists every taxon label:
    every label resolves to its namespace member — by label, before any taxon number, so digit-only labels such as
    `2`, `1`, `3` are safe — the namespace is unchanged, and the trees come back as in `newick_list_roundtrip`.
    `_partial`: the block grammar around the statements (`BEGIN TREES;`, `TREE name =`, `END;`, the TAXA block) is
    not in the model; the text is the statements as the harness cuts them out of the written document. -/
theorem nexus_statements_roundtrip_partial (o : WOpts) (ro : ROpts) (hc : Consistent o.ps o.uu ro.pu) (ns0 : List Str)
    (x : WT) (xs : List WT)
    (hok : ∀ y ∈ x :: xs, OkT o y.2.2 ∧ WritesSomething o y.2.2 ∧ (∀ w, y.2.1 = some w → WeightOk w) ∧
      (taxaOf ro (toRT o y.2.2)).Nodup)
    (hin : ∀ z ∈ allTaxa o ro (x :: xs), z ∈ ns0) (hU : CaseCons ro.cf ns0) :
    parseText ro ⟨[], ns0, true⟩ (listText o (x :: xs)) = some ((x :: xs).map (resultOf o ro), ⟨[], ns0, true⟩) := by
  obtain ⟨gs, hg, htok⟩ := list_tokens o ro.pu hc x xs (fun y hy => ⟨(hok y hy).1, (hok y hy).2.1, (hok y hy).2.2.1⟩)
  have hlen := groups_len o (x :: xs) gs hg
  have hp := parse_groups o ro ns0 hU (x :: xs) gs hg
    (fun y hy => ⟨(hok y hy).2.1, (hok y hy).2.2.2, fun z hz => hin z (by
      simp only [allTaxa, List.mem_flatMap]
      exact ⟨y, hy, hz⟩)⟩)
    ⟨[], ns0, true⟩ [] (gs.flatten.length + 2 + 0) true rfl (Or.inr (fun z hz => hz)) (fun z hz => hz) (by omega) (by simp)
  unfold parseText parseTextK
  simp only [Nat.add_zero] at hp ⊢
  rw [show tokenize ro.pu ((listText o (x :: xs)).length + 1) (listText o (x :: xs)) = tokenizeAll ro.pu (listText o (x :: xs)) from rfl,
    htok]
  simp only [Bool.not_true, Bool.false_eq_true, if_false]
  rw [hp, addAll_of_mem _ _ hin]
  simp

open Aux in
/-- NEXUS, TREE statements WITH a TRANSLATE table: the statements are written with tokens in place of taxon labels;
    read with a symbol mapper that holds the table `tm` (token ↦ label), ALL taxon tags of the trees must have an entry (hypothesis `hasKey`; mixed statements with
    some untranslated labels are not covered); each resolves through the table — before labels and before taxon numbers — to `resolve … tm tag`, the mapper (namespace
    included) is unchanged, and each tree comes back with its structure, rooting and weight, its taxa sent through
    the table (`decodeWith`).  `_partial`: the TRANSLATE statement text and the block grammar are not in the model
    (the table is handed over as the writer built it); see `resolve_key` for `resolve` on the writer's own table. -/
theorem nexus_translate_roundtrip_partial (o : WOpts) (ro : ROpts) (hc : Consistent o.ps o.uu ro.pu) (m : Mapper)
    (x : WT) (xs : List WT)
    (hok : ∀ y ∈ x :: xs, OkT o y.2.2 ∧ WritesSomething o y.2.2 ∧ (∀ w, y.2.1 = some w → WeightOk w) ∧
      ((taxaOf ro (toRT o y.2.2)).map (resolve ro.cf m.tokmap)).Nodup ∧
      ∀ w ∈ taxaOf ro (toRT o y.2.2), hasKey ro.cf m.tokmap w) :
    parseText ro m (listText o (x :: xs)) = some ((x :: xs).map (resultWith (resolve ro.cf m.tokmap) o ro), m) := by
  obtain ⟨gs, hg, htok⟩ := list_tokens o ro.pu hc x xs (fun y hy => ⟨(hok y hy).1, (hok y hy).2.1, (hok y hy).2.2.1⟩)
  have hlen := groups_len o (x :: xs) gs hg
  have hp := parse_groups_const o ro (resolve ro.cf m.tokmap) m (x :: xs) gs hg
    (fun y hy => ⟨(hok y hy).2.1, (hok y hy).2.2.2.1, fun w hw => lookup_token ro.cf m w ((hok y hy).2.2.2.2 w hw)⟩)
    [] (gs.flatten.length + 2 + 0) true (by omega) (by simp)
  unfold parseText parseTextK
  simp only [Nat.add_zero] at hp ⊢
  rw [show tokenize ro.pu ((listText o (x :: xs)).length + 1) (listText o (x :: xs)) = tokenizeAll ro.pu (listText o (x :: xs)) from rfl,
    htok]
  simp only [Bool.not_true, Bool.false_eq_true, if_false]
  rw [hp]
  simp

/-- `resolve` on a table whose keys are pairwise different up to the case folding: each key gives its own label -/
theorem resolve_key (cf : Char → Char) : ∀ (tm : List (Str × Str)), DistinctCI cf (tm.map (·.1)) →
    ∀ p ∈ tm, resolve cf tm p.1 = p.2
  | [], _, p, hp => by simp at hp
  | q :: tm, hd, p, hp => by
    simp only [List.mem_cons] at hp
    rcases hp with rfl | hp
    · simp [resolve, List.find?]
    · have hne : lowerWith cf q.1 ≠ lowerWith cf p.1 := hd.1 p.1 (List.mem_map_of_mem hp)
      have ih := resolve_key cf tm hd.2 p hp
      unfold resolve at ih ⊢
      have : (lowerWith cf q.1 == lowerWith cf p.1) = false := by simpa using hne
      simp only [List.find?, this]
      exact ih

/-! ### TRANSLATE end to end: label → token on the writer side, token → label on the reader side -/

mutual
/-- the tree the NEXUS writer hands to the Newick writer when a TRANSLATE table is in force: taxon labels replaced
    by their tokens (`_get_taxon_tree_token`) -/
def retag (g : Str → Str) : NT → NT
  | .node tx lb ln cs => .node (tx.map g) lb ln (retagL g cs)
def retagL (g : Str → Str) : List NT → List NT
  | [] => []
  | c :: cs => retag g c :: retagL g cs
end

mutual
def taxLabels : NT → List Str
  | .node tx _ _ cs => taxLabelsL cs ++ (match tx with | some s => [s] | none => [])
def taxLabelsL : List NT → List Str
  | [] => []
  | c :: cs => taxLabels c ++ taxLabelsL cs
end

/-- the token the writer uses for a label: the key of the first table entry with that label -/
def tokenOf (tm : List (Str × Str)) (l : Str) : Str :=
  match tm.find? (fun p => p.2 == l) with
  | some p => p.1
  | none => l

namespace Aux

theorem tokenOf_spec (cf : Char → Char) (tm : List (Str × Str)) (hk : DistinctCI cf (tm.map (·.1))) (l : Str)
    (hl : l ∈ tm.map (·.2)) : resolve cf tm (tokenOf tm l) = l ∧ hasKey cf tm (tokenOf tm l) := by
  unfold tokenOf
  cases hf : tm.find? (fun p => p.2 == l) with
  | none =>
    rw [List.find?_eq_none] at hf
    obtain ⟨p, hp, rfl⟩ := List.mem_map.mp hl
    exact absurd (by simp) (hf p hp)
  | some p =>
    have hp := List.mem_of_find?_eq_some hf
    have hpl : p.2 = l := by simpa using List.find?_some hf
    refine ⟨by rw [resolve_key cf tm hk p hp, hpl], ?_⟩
    unfold hasKey
    cases hh : tm.find? (fun q => lowerWith cf q.1 == lowerWith cf p.1) with
    | some q => rfl
    | none =>
      rw [List.find?_eq_none] at hh
      exact absurd (by simp) (hh p hp)

mutual
theorem retag_tree (o : WOpts) (ro : ROpts) (ho : o.sltl = false ∧ o.slnl = true ∧ o.sitl = false ∧ o.sinl = false ∧ o.sel = false)
    (g G : Str → Str) : ∀ (t : NT), Carried ro t → (∀ s ∈ taxLabels t, g s ≠ [] ∧ G (g s) = s) →
    decodeWith G ro (toRT o (retag g t)) = t ∧ taxaOf ro (toRT o (retag g t)) = (taxaOf ro (toRT o t)).map g
  | .node tx lb ln cs, h, hg => by
    obtain ⟨h1, h2, h3, h4⟩ := h
    have ih := retag_treeL o ro ho g G cs h4 (fun s hs => hg s (by simp [taxLabels, hs]))
    obtain ⟨o1, o2, o3, o4, o5⟩ := ho
    have hlen : lenOf o ln = ln := by cases ln <;> simp [lenOf, o5]
    cases cs with
    | nil =>
      simp only [List.isEmpty_nil, if_true] at h3
      obtain ⟨hlb, hsl⟩ := h3
      subst hlb
      cases tx with
      | none => simp [retag, retagL, toRT, toRTL, tagOf, rawTag, joinSp, decodeWith, decodeWithL, taxaOf, taxaOfL, hlen]
      | some s =>
        have hs := h1 s rfl
        obtain ⟨hg1, hg2⟩ := hg s (by simp [taxLabels, taxLabelsL])
        cases s with
        | nil => exact absurd rfl hs
        | cons a b =>
          cases hgs : g (a :: b) with
          | nil => exact absurd hgs hg1
          | cons a' b' =>
            rw [hgs] at hg2
            simp [retag, retagL, toRT, toRTL, tagOf, rawTag, joinSp, decodeWith, decodeWithL, taxaOf, taxaOfL, hlen, o1, o2, hsl, hgs, hg2]
    | cons c cs' =>
      simp only [List.isEmpty_cons, Bool.false_eq_true, if_false] at h3
      have hne : toRTL o (retagL g (c :: cs')) ≠ [] := by simp [retagL, toRTL]
      have hne' : toRTL o (c :: cs') ≠ [] := by simp [toRTL]
      have hr : retagL g (c :: cs') ≠ [] := by simp [retagL]
      cases hsi : ro.sint with
      | true =>
        simp only [hsi, if_true] at h3
        subst h3
        cases lb with
        | none => simp [retag, toRT, tagOf, rawTag, joinSp, decodeWith, taxaOf, hlen, ih.1, ih.2]
        | some s =>
          have := h2 s rfl
          cases s with
          | nil => exact absurd rfl this
          | cons a b => simp [retag, toRT, tagOf, rawTag, joinSp, decodeWith, taxaOf, hlen, ih.1, ih.2, o3, o4, hsi, hne, hne', hr]
      | false =>
        simp only [hsi, Bool.false_eq_true, if_false] at h3
        subst h3
        cases tx with
        | none => simp [retag, toRT, tagOf, rawTag, joinSp, decodeWith, taxaOf, hlen, ih.1, ih.2]
        | some s =>
          have hs := h1 s rfl
          obtain ⟨hg1, hg2⟩ := hg s (by simp [taxLabels])
          cases s with
          | nil => exact absurd rfl hs
          | cons a b =>
            cases hgs : g (a :: b) with
            | nil => exact absurd hgs hg1
            | cons a' b' =>
              rw [hgs] at hg2
              simp [retag, toRT, tagOf, rawTag, joinSp, decodeWith, taxaOf, hlen, ih.1, ih.2, o3, o4, hsi, hne, hne', hr, hgs, hg2]
theorem retag_treeL (o : WOpts) (ro : ROpts) (ho : o.sltl = false ∧ o.slnl = true ∧ o.sitl = false ∧ o.sinl = false ∧ o.sel = false)
    (g G : Str → Str) : ∀ (cs : List NT), Carried.CarriedL ro cs → (∀ s ∈ taxLabelsL cs, g s ≠ [] ∧ G (g s) = s) →
    decodeWithL G ro (toRTL o (retagL g cs)) = cs ∧ taxaOfL ro (toRTL o (retagL g cs)) = (taxaOfL ro (toRTL o cs)).map g
  | [], _, _ => by simp [retagL, toRTL, decodeWithL, taxaOfL]
  | c :: cs, h, hg => by
    have h1 := retag_tree o ro ho g G c h.1 (fun s hs => hg s (by simp [taxLabelsL, hs]))
    have h2 := retag_treeL o ro ho g G cs h.2 (fun s hs => hg s (by simp [taxLabelsL, hs]))
    simp [retagL, toRTL, decodeWithL, taxaOfL, h1.1, h1.2, h2.1, h2.2]
end

end Aux

def retagWT (g : Str → Str) (x : WT) : WT := (x.1, x.2.1, retag g x.2.2)

open Aux in
/-- NEXUS TREE statements with a TRANSLATE table, END TO END on the original trees: the writer replaces every taxon
    label by its token (`retag (tokenOf tm)`, the `taxon_token_map` of `_set_and_write_translate_block`, default or
    user supplied), the reader's symbol mapper holds the same table `tm` and resolves token → label before labels and
    numbers; the trees that come back are the ORIGINAL trees (with their labels), with rooting / weight of their
    statements, and the mapper is unchanged.  Hypotheses: table keys pairwise different up to the case folding; every
    taxon label of the trees has an entry with a non-empty token; trees `Carried`, no label twice per tree; the
    written (token) trees are `OkT` and write something; default label options.  Still outside: the TRANSLATE
    statement TEXT and the block grammar (`tm` is handed over, not parsed from the document). -/
theorem nexus_translate_roundtrip (o : WOpts) (ro : ROpts) (hc : Consistent o.ps o.uu ro.pu)
    (ho : o.sltl = false ∧ o.slnl = true ∧ o.sitl = false ∧ o.sinl = false ∧ o.sel = false)
    (tm : List (Str × Str)) (ns : List Str) (hk : DistinctCI ro.cf (tm.map (·.1))) (x : WT) (xs : List WT)
    (hok : ∀ y ∈ x :: xs, OkT o (retag (tokenOf tm) y.2.2) ∧ WritesSomething o (retag (tokenOf tm) y.2.2) ∧
      (∀ w, y.2.1 = some w → WeightOk w) ∧ Carried ro y.2.2 ∧ (taxaOf ro (toRT o y.2.2)).Nodup ∧
      (∀ s, (s ∈ taxLabels y.2.2 ∨ s ∈ taxaOf ro (toRT o y.2.2)) → s ∈ tm.map (·.2) ∧ tokenOf tm s ≠ [])) :
    parseText ro ⟨tm, ns, true⟩ (listText o ((x :: xs).map (retagWT (tokenOf tm)))) =
      some ((x :: xs).map (fun y => ⟨(treeComments ro (comments o y.1 y.2.1) none none).1,
                                     (treeComments ro (comments o y.1 y.2.1) none none).2, y.2.2⟩),
            ⟨tm, ns, true⟩) := by
  have hrt : ∀ y ∈ x :: xs, decodeWith (resolve ro.cf tm) ro (toRT o (retag (tokenOf tm) y.2.2)) = y.2.2 ∧
      taxaOf ro (toRT o (retag (tokenOf tm) y.2.2)) = (taxaOf ro (toRT o y.2.2)).map (tokenOf tm) := by
    intro y hy
    obtain ⟨_, _, _, hcar, _, hin⟩ := hok y hy
    exact retag_tree o ro ho (tokenOf tm) (resolve ro.cf tm) y.2.2 hcar
      (fun s hs => ⟨(hin s (Or.inl hs)).2, (tokenOf_spec ro.cf tm hk s (hin s (Or.inl hs)).1).1⟩)
  have hpart := nexus_translate_roundtrip_partial o ro hc ⟨tm, ns, true⟩ (retagWT (tokenOf tm) x) (xs.map (retagWT (tokenOf tm)))
    (by
      intro y' hy'
      have hy'' : y' ∈ (x :: xs).map (retagWT (tokenOf tm)) := by simpa using hy'
      obtain ⟨y, hy, rfl⟩ := List.mem_map.mp hy''
      obtain ⟨h1, h2, h3, _, h5, hin⟩ := hok y hy
      refine ⟨h1, h2, h3, ?_, ?_⟩
      · simp only [retagWT]
        rw [(hrt y hy).2, List.map_map]
        have : (taxaOf ro (toRT o y.2.2)).map (resolve ro.cf tm ∘ tokenOf tm) = (taxaOf ro (toRT o y.2.2)).map id := by
          apply List.map_congr_left
          intro s hs
          exact (tokenOf_spec ro.cf tm hk s (hin s (Or.inr hs)).1).1
        rw [this, List.map_id]
        exact h5
      · intro w hw
        simp only [retagWT] at hw
        rw [(hrt y hy).2] at hw
        obtain ⟨s, hs, rfl⟩ := List.mem_map.mp hw
        exact (tokenOf_spec ro.cf tm hk s (hin s (Or.inr hs)).1).2)
  have e : (x :: xs).map (retagWT (tokenOf tm)) = retagWT (tokenOf tm) x :: xs.map (retagWT (tokenOf tm)) := rfl
  rw [e, hpart, ← e]
  congr 2
  rw [List.map_map]
  apply List.map_congr_left
  intro y hy
  simp only [Function.comp, resultWith, retagWT]
  rw [(hrt y hy).1]

/-! ### the TAXLABELS list: namespace labels and their order -/

namespace Aux

theorem taxlabels_tokens' (ps uu pu : Bool) (hc : Consistent ps uu pu) : ∀ (ns : List Str),
    (∀ l ∈ ns, l ≠ [] ∧ ∀ c ∈ l, labelChar c = true) → ∀ (ws : Str), (∀ c ∈ ws, isUncap c = true) →
    (tokenizeAll pu (ws ++ taxlabelsText ps uu ns)).toks.map (·.text) = ns ++ [[';']] ∧
    (tokenizeAll pu (ws ++ taxlabelsText ps uu ns)).ok = true := by
  intro ns
  induction ns with
  | nil =>
    intro _ ws hws
    have hsp : ∀ c ∈ ws ++ [' ', ' '], isUncap c = true := by
      intro c hcm
      simp only [List.mem_append, List.mem_cons, List.mem_nil_iff, or_false] at hcm
      rcases hcm with h | rfl | rfl
      · exact hws c h
      · decide
      · decide
    have e : ws ++ taxlabelsText ps uu [] = (ws ++ [' ', ' ']) ++ [';', '\n'] := by
      simp [taxlabelsText]
    have hn : nextTok pu ((ws ++ [' ', ' ']) ++ [';', '\n']) = .tok [';'] false [] ['\n'] := by
      unfold nextTok
      rw [next_skip pu _ _ _ _ hsp]
      exact next_punct pu _ ';' (by decide) ['\n'] []
    rw [e, tokenizeAll_step pu _ _ _ _ _ hn, tokenizeAll_nl]
    simp
  | cons l ns ih =>
    intro hadm ws hws
    obtain ⟨hne, hdom⟩ := hadm l (by simp)
    have hsp : ∀ c ∈ ws ++ indent8, isUncap c = true := by
      intro c hcm
      simp only [List.mem_append] at hcm
      rcases hcm with h | h
      · exact hws c h
      · have : ∀ d ∈ indent8, isUncap d = true := by decide
        exact this c h
    have e : ws ++ taxlabelsText ps uu (l :: ns) =
        (ws ++ indent8) ++ (escape ps (!uu) protectDefault l ++ '\n' :: taxlabelsText ps uu ns) := by
      simp [taxlabelsText]
    obtain ⟨hfo, hpa⟩ := follower_ws '\n' (by decide) (taxlabelsText ps uu ns)
    obtain ⟨q, hq, _⟩ := next_escape_gen protectDefault covers_default ps uu pu hc l hne hdom ('\n' :: taxlabelsText ps uu ns) hfo
    have hn : nextTok pu ((ws ++ indent8) ++ (escape ps (!uu) protectDefault l ++ '\n' :: taxlabelsText ps uu ns)) =
        .tok l q [] (if q then '\n' :: taxlabelsText ps uu ns else plainAfter ('\n' :: taxlabelsText ps uu ns)) := by
      unfold nextTok
      rw [next_skip pu _ _ _ _ hsp]
      exact hq _ []
    rw [e, tokenizeAll_step pu _ _ _ _ _ hn]
    cases q with
    | true =>
      have := ih (fun l' hl' => hadm l' (by simp [hl'])) ['\n'] (by decide)
      simp only [if_true, List.cons_append, List.nil_append] at this ⊢
      simp [this.1, this.2]
    | false =>
      have := ih (fun l' hl' => hadm l' (by simp [hl'])) [] (by simp)
      simp only [Bool.false_eq_true, if_false, hpa, List.nil_append] at this ⊢
      simp [this.1, this.2]

end Aux

/-- namespace labels and ORDER through NEXUS: tokenizing the TAXLABELS list the NEXUS writer emits (each label through
    `escape_nexus_token` with the default protect class, one per indented line, then `;`) yields exactly the labels,
    in order, followed by the `;` token, without a tokenizer error — for every list of admissible labels and every
    consistent option triple.  (The reader turns each token before the unquoted `;` into the next taxon.) -/
theorem taxlabels_tokens (ps uu pu : Bool) (hc : Consistent ps uu pu) (ns : List Str)
    (hadm : ∀ l ∈ ns, l ≠ [] ∧ ∀ c ∈ l, labelChar c = true) :
    (tokenizeAll pu (taxlabelsText ps uu ns)).toks.map (·.text) = ns ++ [[';']] ∧
    (tokenizeAll pu (taxlabelsText ps uu ns)).ok = true := by
  have := Aux.taxlabels_tokens' ps uu pu hc ns hadm [] (by simp)
  simpa using this

example : (tokenizeAll false (taxlabelsText false false ["a b".toList, "c_d".toList, ";".toList, "2".toList])).toks.map (·.text) =
    ["a b".toList, "c_d".toList, ";".toList, "2".toList, [';']] :=
  (taxlabels_tokens false false false (by simp [Consistent]) _ (by decide)).1

/-- undefined rooting: written without a rooting comment, read without a rooting directive, it stays undefined -/
theorem newick_roundtrip_tree_undefined (o : WOpts) (ro : ROpts) (hc : Consistent o.ps o.uu ro.pu)
    (ho : o.sltl = false ∧ o.slnl = true ∧ o.sitl = false ∧ o.sinl = false ∧ o.sel = false) (hr : ro.rooting = 0)
    (t : NT) (hok : OkT o t) (hws : WritesSomething o t) (hcar : Carried ro t)
    (hd : DistinctCI ro.cf (taxaOf ro (Aux.toRT o t))) :
    parseText ro {} (writeTree o 0 none t ++ ['\n']) = some ([⟨0, none, t⟩], ⟨[], taxaOf ro (Aux.toRT o t), false⟩) := by
  rw [newick_roundtrip o ro hc 0 none t hok hws (by simp) hd, Aux.carried_tree o ro ho t hcar]
  simp [comments, treeComments, rootingState, hr]

/-! ### the NEXUS TREES block, text to trees -/

open Aux in
/-- NEXUS TREES block END TO END (no TRANSLATE), on the text the model writer produces for the block
    (`treesBlockText`: `BEGIN TREES;`, one `    TREE name = <statement>` line per tree with the name through
    `escape_nexus_token`, `END;` — compared with the library's block as token streams on every run) and the block reader
    `nexusBlock` (`_parse_trees_block` + `_parse_tree_statement`, compared with the library's reading on every run), over the
    namespace `ns` the TAXA block declared (see `taxlabels_tokens` for how that list comes back): every tree comes back
    under ITS NAME (tree labels / `TREE name` round trip), with the structure, rooting and weight of its statement, taxon
    labels resolved by label before taxon number; the namespace is unchanged.  Hypotheses: consistent options; names
    admissible labels; trees `OkT`, write something, weights number texts, no label twice per tree; every taxon label is
    in `ns`; `ns` has no two case variants of a label. -/
theorem nexus_trees_roundtrip (o : WOpts) (ro : ROpts) (hc : Consistent o.ps o.uu ro.pu) (ns : List Str)
    (trees : List (Str × WT))
    (hok : ∀ x ∈ trees, (x.1 ≠ [] ∧ ∀ c ∈ x.1, labelChar c = true) ∧ OkT o x.2.2.2 ∧ WritesSomething o x.2.2.2 ∧
      (∀ w, x.2.2.1 = some w → WeightOk w) ∧ (taxaOf ro (toRT o x.2.2.2)).Nodup ∧ ∀ z ∈ taxaOf ro (toRT o x.2.2.2), z ∈ ns)
    (hU : CaseCons ro.cf ns) :
    nexusBlock ro ns (treesBlockText o [] trees) = some (trees.map (namedResult o ro), ⟨[], ns, true⟩) :=
  nexusBlock_of_run ro ns _ _ _ (block_run_plain o ro hc ns trees hok hU)

/-! ### the NEXUS TREES block with a TRANSLATE statement, text to trees -/

namespace Aux
theorem kw_Translate : PlainWord ['T', 'r', 'a', 'n', 's', 'l', 'a', 't', 'e'] := ⟨by simp, by decide, by intro c cs h; cases h; decide⟩

theorem tokenOf_ne_nil (tm : List (Str × Str)) (hk : ∀ p ∈ tm, p.1 ≠ []) (s : Str) (hs : s ∈ tm.map (·.2)) : tokenOf tm s ≠ [] := by
  unfold tokenOf
  cases hf : tm.find? (fun p => p.2 == s) with
  | none =>
    rw [List.find?_eq_none] at hf
    obtain ⟨p, hp, rfl⟩ := List.mem_map.mp hs
    exact absurd (by simp) (hf p hp)
  | some p => exact hk p (List.mem_of_find?_eq_some hf)

/-- the tokens of a TREES block with a TRANSLATE statement (after any white space) -/
theorem block_tokens_translate (o : WOpts) (pu : Bool) (hc : Consistent o.ps o.uu pu) (tm : List (Str × Str)) (htm : tm ≠ [])
    (hent : ∀ p ∈ tm, PlainWord p.1 ∧ p.2 ≠ [] ∧ ∀ c ∈ p.2, labelChar c = true)
    (trees : List (Str × WT)) (hok : ∀ x ∈ trees, (x.1 ≠ [] ∧ ∀ c ∈ x.1, labelChar c = true) ∧ OkX o x.2)
    (ws : Str) (hws : ∀ c ∈ ws, isUncap c = true) :
    ∃ es gs, es.map (·.text) = entryTexts tm ∧ LineGroups o trees gs ∧
      tokenizeAll pu (ws ++ treesBlockText o tm trees) =
        ⟨[⟨['B', 'E', 'G', 'I', 'N'], false, []⟩, ⟨['T', 'R', 'E', 'E', 'S'], false, []⟩, ⟨[';'], false, []⟩,
          ⟨['T', 'r', 'a', 'n', 's', 'l', 'a', 't', 'e'], false, []⟩] ++ es ++ [⟨[';'], false, []⟩] ++
          (gs.flatten ++ [⟨['E', 'N', 'D'], false, []⟩, ⟨[';'], false, []⟩]), true, false⟩ := by
  let R := treeLines o trees ++ endBlock
  let T := indent8 ++ ([' ', ' ', ' ', ' ', ' '] ++ (';' :: (['\n'] ++ R)))
  obtain ⟨gs, hgs, hlines⟩ := lines_tokens o pu hc trees hok ['\n'] (by decide)
  obtain ⟨es, ws', hws', hes, hpre⟩ := entries_tokens o pu hc T tm htm hent [] (by simp)
  have etext : ws ++ treesBlockText o tm trees =
      ws ++ (['B', 'E', 'G', 'I', 'N'] ++ (' ' :: ([] ++ (['T', 'R', 'E', 'E', 'S'] ++ (';' :: (('\n' :: indent8) ++
        (['T', 'r', 'a', 'n', 's', 'l', 'a', 't', 'e'] ++ ('\n' :: ([] ++ (translateEntries o tm ++ T)))))))))) := by
    have : tm.isEmpty = false := by cases tm with | nil => exact absurd rfl htm | cons _ _ => rfl
    simp [treesBlockText, translateText, beginTrees, this, R, T]
  have h1 := pre_word pu ws ['B', 'E', 'G', 'I', 'N'] _ hws kw_BEGIN
    (stop_space ([] ++ (['T', 'R', 'E', 'E', 'S'] ++ (';' :: (('\n' :: indent8) ++
        (['T', 'r', 'a', 'n', 's', 'l', 'a', 't', 'e'] ++ ('\n' :: ([] ++ (translateEntries o tm ++ T))))))))).1
  rw [(stop_space _).2] at h1
  have h2 := pre_word pu [] ['T', 'R', 'E', 'E', 'S'] _ (by simp) kw_TREES
    (stop_semi (('\n' :: indent8) ++ (['T', 'r', 'a', 'n', 's', 'l', 'a', 't', 'e'] ++ ('\n' :: ([] ++ (translateEntries o tm ++ T)))))).1
  rw [(stop_semi _).2] at h2
  have h3 := pre_punct pu [] ';' (('\n' :: indent8) ++ (['T', 'r', 'a', 'n', 's', 'l', 'a', 't', 'e'] ++ ('\n' :: ([] ++ (translateEntries o tm ++ T)))))
    (by simp) (by decide)
  rw [List.nil_append] at h3
  have h4 := pre_word pu ('\n' :: indent8) ['T', 'r', 'a', 'n', 's', 'l', 'a', 't', 'e'] _ (by decide) kw_Translate
    (stop_nl ([] ++ (translateEntries o tm ++ T))).1
  rw [(stop_nl _).2] at h4
  have hws13 : ∀ c ∈ ws' ++ (indent8 ++ [' ', ' ', ' ', ' ', ' ']), isUncap c = true := by
    intro c hcm
    rcases List.mem_append.mp hcm with h | h
    · exact hws' c h
    · exact ws13 c h
  have h5 := pre_punct pu (ws' ++ (indent8 ++ [' ', ' ', ' ', ' ', ' '])) ';' (['\n'] ++ R) hws13 (by decide)
  have e5 : ws' ++ T = (ws' ++ (indent8 ++ [' ', ' ', ' ', ' ', ' '])) ++ ';' :: (['\n'] ++ R) := by simp [T]
  rw [e5] at hpre
  have hall := ((((h1.trans h2).trans h3).trans h4).trans hpre).trans h5
  refine ⟨es, gs, hes, hgs, ?_⟩
  rw [etext, hall.final hlines]
  rfl

/-- the block with a TRANSLATE statement runs to the ORIGINAL trees and the table -/
theorem block_run_translate (o : WOpts) (ro : ROpts) (hc : Consistent o.ps o.uu ro.pu)
    (ho : o.sltl = false ∧ o.slnl = true ∧ o.sitl = false ∧ o.sinl = false ∧ o.sel = false)
    (tm : List (Str × Str)) (htm : tm ≠ []) (ns : List Str) (hk : DistinctCI ro.cf (tm.map (·.1)))
    (hent : ∀ p ∈ tm, PlainWord p.1 ∧ (p.2 ≠ [] ∧ ∀ c ∈ p.2, labelChar c = true) ∧ p.2 ∈ ns) (hU : CaseCons ro.cf ns)
    (trees : List (Str × WT))
    (hok : ∀ x ∈ trees, (x.1 ≠ [] ∧ ∀ c ∈ x.1, labelChar c = true) ∧ OkT o (retag (tokenOf tm) x.2.2.2) ∧
      WritesSomething o (retag (tokenOf tm) x.2.2.2) ∧ (∀ w, x.2.2.1 = some w → WeightOk w) ∧ Carried ro x.2.2.2 ∧
      (taxaOf ro (toRT o x.2.2.2)).Nodup ∧
      (∀ s, (s ∈ taxLabels x.2.2.2 ∨ s ∈ taxaOf ro (toRT o x.2.2.2)) → s ∈ tm.map (·.2))) :
    BlockRun ro ns (treesBlockText o tm (trees.map (fun x => (x.1, retagWT (tokenOf tm) x.2))))
      (trees.map (fun x => (x.1, ⟨(treeComments ro (comments o x.2.1 x.2.2.1) none none).1,
                                  (treeComments ro (comments o x.2.1 x.2.2.1) none none).2, x.2.2.2⟩)))
      ⟨tm, ns, true⟩ := by
  intro ws hws
  have hkne : ∀ p ∈ tm, p.1 ≠ [] := fun p hp => (hent p hp).1.1
  have hrt : ∀ x ∈ trees, decodeWith (resolve ro.cf tm) ro (toRT o (retag (tokenOf tm) x.2.2.2)) = x.2.2.2 ∧
      taxaOf ro (toRT o (retag (tokenOf tm) x.2.2.2)) = (taxaOf ro (toRT o x.2.2.2)).map (tokenOf tm) := by
    intro x hx
    obtain ⟨_, _, _, _, hcar, _, hin⟩ := hok x hx
    exact retag_tree o ro ho (tokenOf tm) (resolve ro.cf tm) x.2.2.2 hcar
      (fun s hs => ⟨tokenOf_ne_nil tm hkne s (hin s (Or.inl hs)), (tokenOf_spec ro.cf tm hk s (hin s (Or.inl hs))).1⟩)
  let trees' := trees.map (fun x => (x.1, retagWT (tokenOf tm) x.2))
  obtain ⟨es, gs, hes, hgs, htoks⟩ := block_tokens_translate o ro.pu hc tm htm
    (fun p hp => ⟨(hent p hp).1, (hent p hp).2.1.1, (hent p hp).2.1.2⟩) trees'
    (by
      intro x' hx'
      obtain ⟨x, hx, rfl⟩ := List.mem_map.mp hx'
      obtain ⟨h1, h2, h3, h4, _⟩ := hok x hx
      exact ⟨h1, h2, h3, h4⟩) ws hws
  -- every statement leaves the mapper ⟨tm, ns, true⟩ unchanged and yields the original tree
  have hassign : ∀ x' ∈ trees', isBlank (toRT o x'.2.2.2) = false ∧
      ∃ seen, assign ro (toRT o x'.2.2.2) ⟨⟨tm, ns, true⟩, []⟩ =
        some (decodeWith (resolve ro.cf tm) ro (toRT o x'.2.2.2), ⟨⟨tm, ns, true⟩, seen⟩) := by
    intro x' hx'
    obtain ⟨x, hx, rfl⟩ := List.mem_map.mp hx'
    obtain ⟨_, _, hws, _, _, hnd, hin⟩ := hok x hx
    refine ⟨hws, _, assign_resolve ro (resolve ro.cf tm) (toRT o (retag (tokenOf tm) x.2.2.2)) ⟨tm, ns, true⟩ [] ?_ ?_⟩
    · intro w hw
      rw [(hrt x hx).2] at hw
      obtain ⟨s, hs, rfl⟩ := List.mem_map.mp hw
      exact lookup_token ro.cf ⟨tm, ns, true⟩ _ (tokenOf_spec ro.cf tm hk s (hin s (Or.inr hs))).2
    · simp only [List.reverse_nil, List.nil_append]
      rw [(hrt x hx).2, List.map_map]
      have : (taxaOf ro (toRT o x.2.2.2)).map (resolve ro.cf tm ∘ tokenOf tm) = (taxaOf ro (toRT o x.2.2.2)).map id := by
        apply List.map_congr_left
        intro s hs
        exact (tokenOf_spec ro.cf tm hk s (hin s (Or.inr hs))).1
      rw [this, List.map_id]
      exact hnd
  have hloop := fun f => block_loop_trees o ro ⟨tm, ns, true⟩ (fun x' => decodeWith (resolve ro.cf tm) ro (toRT o x'.2.2.2))
    trees' gs hgs hassign f
  have htr := translate_reads ro.cf ns hU ⟨[';'], false, []⟩ rfl
    (gs.flatten ++ [⟨['E', 'N', 'D'], false, []⟩, ⟨[';'], false, []⟩]) tm htm
    (fun p hp => ⟨by
      intro h
      have := (hent p hp).1.2.1 ';' (by rw [h]; simp)
      revert this; decide, (hent p hp).2.2⟩) es hes []
  refine ⟨⟨['T', 'r', 'a', 'n', 's', 'l', 'a', 't', 'e'], false, []⟩ ::
    (es ++ ⟨[';'], false, []⟩ :: (gs.flatten ++ [⟨['E', 'N', 'D'], false, []⟩, ⟨[';'], false, []⟩])), ?_, ?_⟩
  · rw [htoks]
    simp
  · intro f
    have uTr : ucase ['T', 'r', 'a', 'n', 's', 'l', 'a', 't', 'e'] = ['T', 'R', 'A', 'N', 'S', 'L', 'A', 'T', 'E'] := by decide
    have d1 : ((['T', 'R', 'A', 'N', 'S', 'L', 'A', 'T', 'E'] : Str) == ['E', 'N', 'D']) = false := by decide
    have d2 : ((['T', 'R', 'A', 'N', 'S', 'L', 'A', 'T', 'E'] : Str) == ['E', 'N', 'D', 'B', 'L', 'O', 'C', 'K']) = false := by decide
    rw [show f + 2 = (f + 1) + 1 by omega, nexusBlockLoop]
    simp only [uTr, d1, d2, Bool.or_self, Bool.false_eq_true, if_false, beq_self_eq_true, if_true]
    rw [htr _ (by
      have : tm.length ≤ es.length := by
        have h := congrArg List.length hes
        rw [List.length_map] at h
        rw [h]
        exact entryTexts_len tm
      simp only [List.length_append, List.length_cons]; omega)]
    simp only [List.nil_append]
    rw [hloop]
    congr 2
    simp only [trees', List.map_map]
    apply List.map_congr_left
    intro x hx
    simp only [Function.comp, namedWith, retagWT]
    rw [(hrt x hx).1]
end Aux

open Aux in
/-- NEXUS TREES block WITH a TRANSLATE statement, END TO END on the text: the writer's block for the table `tm`
    (`BEGIN TREES;`, `Translate` with one `token label` entry per line, `;`, then the `TREE name = statement` lines in
    which every taxon label is replaced by its token, `END;` — `treesBlockText`, compared with the library's block as token
    streams on every run) is read by the block reader `nexusBlock` (`_parse_trees_block`, `_parse_translate_statement`,
    `_parse_tree_statement`) back into the table itself and the ORIGINAL trees, each under its name with its rooting and
    weight; the namespace is unchanged.  This is the TRANSLATE statement text that `nexus_translate_roundtrip` left out.
    Hypotheses: consistent options, default label options; translation tokens are plain words (digit strings in the
    default table) pairwise different up to the case folding; every table label is an admissible label and a member of
    `ns`, which has no two case variants of a label; names admissible; the token trees are `OkT` and write something;
    trees `Carried`, no label twice per tree, every taxon label has a table entry. -/
theorem nexus_trees_translate_roundtrip (o : WOpts) (ro : ROpts) (hc : Consistent o.ps o.uu ro.pu)
    (ho : o.sltl = false ∧ o.slnl = true ∧ o.sitl = false ∧ o.sinl = false ∧ o.sel = false)
    (tm : List (Str × Str)) (htm : tm ≠ []) (ns : List Str) (hk : DistinctCI ro.cf (tm.map (·.1)))
    (hent : ∀ p ∈ tm, PlainWord p.1 ∧ (p.2 ≠ [] ∧ ∀ c ∈ p.2, labelChar c = true) ∧ p.2 ∈ ns) (hU : CaseCons ro.cf ns)
    (trees : List (Str × WT))
    (hok : ∀ x ∈ trees, (x.1 ≠ [] ∧ ∀ c ∈ x.1, labelChar c = true) ∧ OkT o (retag (tokenOf tm) x.2.2.2) ∧
      WritesSomething o (retag (tokenOf tm) x.2.2.2) ∧ (∀ w, x.2.2.1 = some w → WeightOk w) ∧ Carried ro x.2.2.2 ∧
      (taxaOf ro (toRT o x.2.2.2)).Nodup ∧
      (∀ s, (s ∈ taxLabels x.2.2.2 ∨ s ∈ taxaOf ro (toRT o x.2.2.2)) → s ∈ tm.map (·.2))) :
    nexusBlock ro ns (treesBlockText o tm (trees.map (fun x => (x.1, retagWT (tokenOf tm) x.2)))) =
      some (trees.map (fun x => (x.1, ⟨(treeComments ro (comments o x.2.1 x.2.2.1) none none).1,
                                       (treeComments ro (comments o x.2.1 x.2.2.1) none none).2, x.2.2.2⟩)),
            ⟨tm, ns, true⟩) :=
  nexusBlock_of_run ro ns _ _ _ (block_run_translate o ro hc ho tm htm ns hk hent hU trees hok)

/-! ### the whole NEXUS document, text to trees -/

open Aux in
/-- NEXUS DOCUMENT END TO END (no TRANSLATE): the text the model writer produces for one tree list over the namespace `ns`
    (`nexusDocText`: `#NEXUS`, `BEGIN TAXA; DIMENSIONS NTAX=n; TAXLABELS … ; END;`, `BEGIN TREES; TREE name = … END;` —
    compared with `TreeList.as_string("nexus")` as token streams on every run) read by the model's document reader
    `nexusDoc` (`_parse_nexus_stream`, `_parse_taxa_block`, `_parse_dimensions_statement`, `_parse_taxlabels_statement`,
    `_parse_trees_block`; compared with `TreeList.get(schema="nexus")` on every run) yields the namespace `ns` itself — same
    labels, same ORDER, whether it is built from the TAXLABELS list (`att = none`) or handed in by the caller
    (`att = some ns`) — and every tree under its name with the structure, rooting and weight of its statement.
    Hypotheses: consistent options; labels admissible and pairwise distinct up to the case folding; names admissible;
    trees `OkT`, write something, weights number texts, no label twice per tree, every taxon label in `ns`. -/
theorem nexus_document_roundtrip (o : WOpts) (ro : ROpts) (hc : Consistent o.ps o.uu ro.pu) (ns : List Str)
    (hadm : ∀ l ∈ ns, l ≠ [] ∧ ∀ c ∈ l, labelChar c = true) (hd : DistinctCI ro.cf ns)
    (att : Option (List Str)) (hatt : att = none ∨ att = some ns) (trees : List (Str × WT))
    (hok : ∀ x ∈ trees, (x.1 ≠ [] ∧ ∀ c ∈ x.1, labelChar c = true) ∧ OkT o x.2.2.2 ∧ WritesSomething o x.2.2.2 ∧
      (∀ w, x.2.2.1 = some w → WeightOk w) ∧ (taxaOf ro (toRT o x.2.2.2)).Nodup ∧ ∀ z ∈ taxaOf ro (toRT o x.2.2.2), z ∈ ns) :
    nexusDoc ro att (nexusDocText o ns [] trees) = some ⟨ns, [], trees.map (namedResult o ro)⟩ :=
  doc_of_run o.ps o.uu ro hc ns hadm hd att hatt _ _ _ (block_run_plain o ro hc ns trees hok (caseCons_of_distinct ro.cf ns hd))

open Aux in
/-- NEXUS DOCUMENT END TO END WITH a TRANSLATE statement (`translate_tree_taxa`): as `nexus_document_roundtrip`, the TREES
    block carrying the table `tm` (one entry per namespace member, in namespace order, as `_set_and_write_translate_block`
    writes it) and the statements written with tokens; the ORIGINAL trees come back, the namespace is `ns` in order, the
    table read is the table written.  Hypotheses as in `nexus_trees_translate_roundtrip`, plus: the table's labels are
    exactly the namespace, admissible and pairwise distinct up to the case folding. -/
theorem nexus_document_translate_roundtrip (o : WOpts) (ro : ROpts) (hc : Consistent o.ps o.uu ro.pu)
    (ho : o.sltl = false ∧ o.slnl = true ∧ o.sitl = false ∧ o.sinl = false ∧ o.sel = false)
    (tm : List (Str × Str)) (htm : tm ≠ []) (hk : DistinctCI ro.cf (tm.map (·.1)))
    (hent : ∀ p ∈ tm, PlainWord p.1 ∧ (p.2 ≠ [] ∧ ∀ c ∈ p.2, labelChar c = true))
    (hd : DistinctCI ro.cf (tm.map (·.2)))
    (att : Option (List Str)) (hatt : att = none ∨ att = some (tm.map (·.2))) (trees : List (Str × WT))
    (hok : ∀ x ∈ trees, (x.1 ≠ [] ∧ ∀ c ∈ x.1, labelChar c = true) ∧ OkT o (retag (tokenOf tm) x.2.2.2) ∧
      WritesSomething o (retag (tokenOf tm) x.2.2.2) ∧ (∀ w, x.2.2.1 = some w → WeightOk w) ∧ Carried ro x.2.2.2 ∧
      (taxaOf ro (toRT o x.2.2.2)).Nodup ∧
      (∀ s, (s ∈ taxLabels x.2.2.2 ∨ s ∈ taxaOf ro (toRT o x.2.2.2)) → s ∈ tm.map (·.2))) :
    nexusDoc ro att (nexusDocText o (tm.map (·.2)) tm (trees.map (fun x => (x.1, retagWT (tokenOf tm) x.2)))) =
      some ⟨tm.map (·.2), tm,
        trees.map (fun x => (x.1, ⟨(treeComments ro (comments o x.2.1 x.2.2.1) none none).1,
                                   (treeComments ro (comments o x.2.1 x.2.2.1) none none).2, x.2.2.2⟩))⟩ := by
  have hadm : ∀ l ∈ tm.map (·.2), l ≠ [] ∧ ∀ c ∈ l, labelChar c = true := by
    intro l hl
    obtain ⟨p, hp, rfl⟩ := List.mem_map.mp hl
    exact (hent p hp).2
  have hrun := block_run_translate o ro hc ho tm htm (tm.map (·.2)) hk
    (fun p hp => ⟨(hent p hp).1, (hent p hp).2, List.mem_map_of_mem hp⟩) (caseCons_of_distinct ro.cf _ hd) trees hok
  have h := doc_of_run o.ps o.uu ro hc (tm.map (·.2)) hadm hd att hatt _ _ _ hrun
  unfold nexusDocText
  exact h

/-- the default TRANSLATE table of the model writer (`translate_tree_taxa=True`; token = ACCESSION index + 1, entries in
    MEMBER order — the two orders differ after `sort()` / `reverse()` / a removal): its labels are the namespace in member
    order (what `nexus_document_translate_roundtrip` then gives back as the namespace read) and its tokens are plain
    words, whatever the accession indices are — so the hypothesis on tokens of the TRANSLATE theorems holds for it -/
theorem default_translate_table (ns : List (Str × Nat)) :
    (defaultTable ns).map (·.2) = ns.map (·.1) ∧ ∀ p ∈ defaultTable ns, Aux.PlainWord p.1 := Aux.defaultTable_spec ns

example : defaultTable [("a".toList, 2), ("b".toList, 0), ("c".toList, 4)] =
    [("3".toList, "a".toList), ("1".toList, "b".toList), ("5".toList, "c".toList)] := by decide

/-- NeXML attribute protection (`_protect_attr` = `xml.sax.saxutils.quoteattr`) against the XML parser's reading of a quoted
    attribute value, for EVERY string (labels with `&`, `<`, `>`, both quote characters, tab / LF / CR — which a parser
    would otherwise normalise to blanks, hence the character references `&#9;` `&#10;` `&#13;`): the value read back is the
    string written, and nothing beyond the closing quote is consumed.  `quoteAttr` / `parseAttr` are what the driver runs
    (`attr-quote` against the library's `_protect_attr`, `attr-parse` against `xml.etree` on every generated label). -/
theorem label_attr_roundtrip (s rest : Str) : parseAttr (quoteAttr s ++ rest) = some (s, rest) := Aux.attr_roundtrip s rest

example : quoteAttr "a\"b'c\t<&".toList = "\"a&quot;b'c&#9;&lt;&amp;\"".toList := by decide
example : parseAttr (quoteAttr "a\"b'c\t<&".toList ++ " id=\"d1\"".toList) = some ("a\"b'c\t<&".toList, " id=\"d1\"".toList) :=
  label_attr_roundtrip _ _

/-- NeXML namespace clause on the element structure: the `otus` block the writer model emits for the namespace `ns` (one `otu`
    per member, in MEMBER order, ids in the writer's numbering) is read by the reader model's `_parse_taxon_namespaces`
    (`nxOtus`) back into exactly `ns` — same labels, same order — whether the namespace starts empty (`att = none`) or is the
    caller's own (`att = some ns`), and every otu id is mapped to its label; hence whatever `nxRead` returns for a written
    document has the namespace `ns`.  Hypotheses: labels non-empty and pairwise distinct up to the case folding.
    (That `nxRead` does return the trees is compared on every case, op `nexml-rt`, and not proved.) -/
theorem nexml_otus_roundtrip (cf : Char → Char) (ns : List Str) (hne : ∀ l ∈ ns, l ≠ []) (hd : DistinctCI cf ns)
    (att : Option (List Str)) (hatt : att = none ∨ att = some ns) (trees : List XW) :
    nxOtus cf (nxWrite ns trees).otus (att.getD []) [] = some (ns, Aux.otuPairs ns 1) ∧
    ∀ d, nxRead cf att (nxWrite ns trees) = some d → d.ns = ns := by
  have h1 : nxOtus cf (nxWrite ns trees).otus (att.getD []) [] = some (ns, Aux.otuPairs ns 1) := by
    show nxOtus cf (otuList ns 1) (att.getD []) [] = _
    rcases hatt with rfl | rfl
    · simpa using Aux.otus_fresh cf ns 1 [] [] hne (by simpa using hd)
    · simpa using Aux.otus_known cf ns (Aux.caseCons_of_distinct cf ns hd) ns 1 [] (fun l hl => ⟨hne l hl, hl⟩)
  refine ⟨h1, ?_⟩
  intro d hr
  unfold nxRead at hr
  rw [h1] at hr
  simp only at hr
  cases hts : nxReadTrees (Aux.otuPairs ns 1) (nxWrite ns trees).trees with
  | none => rw [hts] at hr; cases hr
  | some ts => rw [hts] at hr; cases hr; rfl

example : nxOtus Char.toLower (nxWrite ["b".toList, "a c".toList] []).otus [] [] =
    some (["b".toList, "a c".toList], [(1, "b".toList), (2, "a c".toList)]) :=
  (nexml_otus_roundtrip Char.toLower _ (by decide) (by simp [DistinctCI, lowerWith]) none (Or.inl rfl) []).1

/-! ### NeXML: the writer model's id bookkeeping -/

/-- NeXML (clause d), writer side, on the model the driver runs (`nexml-write`, `nexml-rt`; compared with the element
    structure of the library's text on every run): one tree takes one id for itself, then one `node` element per node and
    one `edge` / `rootedge` element per node, and moves the id counter on by exactly `1 + 2·size`; the first `node` element
    is the seed with the id right after the tree's, carrying `root="true"` exactly for a rooted tree (an undefined rooting
    state is written like unrooted: the forced normalisation); the first edge element is the `rootedge` (no source) into
    the seed.  `_partial`: that the reader model applied to the written structure returns the trees (`nxRead ∘ nxWrite`) is
    NOT proved — it is compared on every generated case (op `nexml-rt` against what the library re-reads). -/
theorem nexml_write_shape_partial (ns : List Str) (c : Nat) (x : XW) :
    (nxWriteTree ns c x).1.id = c ∧
    (nxWriteTree ns c x).1.nodes.length = Aux.sizeNT x.2.2 ∧
    (nxWriteTree ns c x).1.edges.length = Aux.sizeNT x.2.2 ∧
    (nxWriteTree ns c x).2 = c + 1 + 2 * Aux.sizeNT x.2.2 ∧
    (∃ nd rest, (nxWriteTree ns c x).1.nodes = nd :: rest ∧ nd.id = c + 1 ∧ nd.root = (x.2.1 == 2)) ∧
    (∃ e rest, (nxWriteTree ns c x).1.edges = e :: rest ∧ e.source = none ∧ e.target = c + 1) := by
  obtain ⟨nm, r, t⟩ := x
  have hn := Aux.number_next t (c + 1)
  have hl1 := Aux.nodes_len (fun l => (findIdx l ns 0).map (· + 1)) (if r == 2 then some (c + 1) else none) t (c + 1)
  have hl2 := Aux.edges_len ((number t (c + 1)).2 - (c + 1)) none t (c + 1)
  refine ⟨rfl, hl1, hl2, ?_, ?_, ?_⟩
  · simp only [nxWriteTree, hn]; omega
  · cases t with
    | node tx lb ln cs =>
      refine ⟨_, _, rfl, rfl, ?_⟩
      cases hr : (r == 2) <;> simp [hr]
  · cases t with
    | node tx lb ln cs => exact ⟨_, _, rfl, rfl, rfl⟩

example : (nxWriteTree ["A".toList, "B".toList] 4 (some "t".toList, 2,
      .node none (some "x".toList) none [.node (some "A".toList) none (some "1.5".toList) [], .node (some "B".toList) none none []])).2 =
    4 + 1 + 2 * 3 :=
  (nexml_write_shape_partial _ _ _).2.2.2.1

/-- NeXML reader ∘ writer on the TREE, for EVERY tree (any shape, unary nodes, polytomies, anonymous leaves, taxa on
    internal nodes, lengths present or absent): the reader's tree construction `nxBuild` (`_NexmlTreeParser.build_tree`:
    node lookup by id, taxon through the otu id, children = the targets of the `edge` elements whose source is the node, in
    document order, each child hanging on its edge's length), run from the seed's id on exactly the `node` elements and the
    non-root `edge` elements that the writer model `nxWriteTree` emits (with as much fuel as there are `node` elements, what
    `nxReadTree` gives it), returns the tree that was written: same topology, same child order, same taxon on every node,
    same node labels (an empty label is not written: `truthy`), same edge lengths (as texts), the seed hanging on the
    length handed in (the `rootedge`'s).  Hypothesis: every taxon label of the tree resolves through the otus (`Resolves`:
    it has an otu id that the reader's id ↦ label map sends back to it — `nexml_otus_roundtrip` gives that map).
    `_partial`: NOT proved are the guards `nxReadTree` evaluates before building (no id twice, exactly one parentless node
    and it is the seed, `root` flag and `rootedge` target agree) and the list level (`nxReadTrees`, counter threading); the
    complete `nxRead (nxWrite …)` is compared on every generated case (op `nexml-rt`). -/
theorem nexml_tree_build_roundtrip_partial (ns : List Str) (otus : List (Nat × Str)) (c : Nat) (x : XW) (ln : Option Str)
    (hT : ∀ l ∈ Aux.txs x.2.2, Aux.Resolves (fun l => (findIdx l ns 0).map (· + 1)) otus l) :
    nxBuild (nxWriteTree ns c x).1.nodes otus ((nxWriteTree ns c x).1.edges.filter (fun e => e.source.isSome))
      (nxWriteTree ns c x).1.nodes.length (c + 1) ln = some (Aux.normNT x.2.2 ln) := by
  obtain ⟨nm, r, t⟩ := x
  have hlen := (nexml_write_shape_partial ns c (nm, r, t)).2.1
  rw [hlen]
  have hn := Aux.number_next t (c + 1)
  let sz := (number t (c + 1)).2 - (c + 1)
  have hedges : (nxWriteTree ns c (nm, r, t)).1.edges.filter (fun e => e.source.isSome) = Aux.kidEdges sz t (c + 1) := by
    show (itEdges sz none (Aux.IN t (c + 1))).filter (fun e => e.source.isSome) = _
    rw [Aux.itEdges_IN]
    simp only [List.filter_cons, Option.isSome_none, Bool.false_eq_true, if_false]
    rw [List.filter_eq_self]
    intro e he
    obtain ⟨j, hj, _⟩ := Aux.kidEdges_src sz t (c + 1) e he
    simp [hj]
  have hb := Aux.build_tree (fun l => (findIdx l ns 0).map (· + 1)) (if r == 2 then some (c + 1) else none) otus sz t (c + 1)
    [] [] [] [] ln (Aux.sizeNT t) (by simp) (by simp) hT (Nat.le_refl _)
  have hnodes : (nxWriteTree ns c (nm, r, t)).1.nodes =
      itNodes (fun l => (findIdx l ns 0).map (· + 1)) (if r == 2 then some (c + 1) else none) (Aux.IN t (c + 1)) := rfl
  rw [hedges, hnodes]
  simp only [List.nil_append, List.append_nil] at hb
  exact hb

example : nxBuild (nxWriteTree ["A".toList, "B".toList] 4 (none, 2,
      .node none (some "x".toList) none [.node (some "A".toList) none (some "1.5".toList) [], .node (some "B".toList) none none []])).1.nodes
      [(1, "A".toList), (2, "B".toList)]
      ((nxWriteTree ["A".toList, "B".toList] 4 (none, 2,
      .node none (some "x".toList) none [.node (some "A".toList) none (some "1.5".toList) [], .node (some "B".toList) none none []])).1.edges.filter
        (fun e => e.source.isSome)) 3 5 none =
    some (.node none (some "x".toList) none [.node (some "A".toList) none (some "1.5".toList) [], .node (some "B".toList) none none []]) := by
  have h := nexml_tree_build_roundtrip_partial ["A".toList, "B".toList] [(1, "A".toList), (2, "B".toList)] 4 (none, 2,
      .node none (some "x".toList) none [.node (some "A".toList) none (some "1.5".toList) [], .node (some "B".toList) none none []]) none
    (by
      intro l hl
      simp [Aux.txs, Aux.txsL] at hl
      rcases hl with rfl | rfl
      · exact ⟨1, by decide, by decide⟩
      · exact ⟨2, by decide, by decide⟩)
  simpa [Aux.normNT, Aux.normNTL, Aux.lenNT, truthy, nxWriteTree, number, numberL, itNodes, itNodesL] using h

/-! ### non-vacuity: the hypotheses are satisfiable, on trees with awkward labels and anonymous leaves -/

/-- `('a=b':1.5,c_d,'e f(g)':1e-05,)'in t';` as a model tree (last child: an anonymous leaf) -/
def exampleTree : NT :=
  .node none (some "in t".toList) none
    [.node (some "a=b".toList) none (some "1.5".toList) [],
     .node (some "c_d".toList) none none [],
     .node (some "e f(g)".toList) none (some "1e-05".toList) [],
     .node none none none []]

example : Consistent false false false ∧ Consistent true false false ∧ Consistent true false true ∧ Consistent true true true := by
  simp [Consistent]

/-- all hypotheses of `newick_roundtrip_tree` hold together on `exampleTree` (default options, rooted) -/
example : parseText {} {} (writeTree {} 2 none exampleTree ++ ['\n']) =
    some ([⟨2, none, exampleTree⟩], ⟨[], ["a=b".toList, "c_d".toList, "e f(g)".toList], false⟩) := by
  have hok : OkT {} exampleTree := by
    simp [exampleTree, OkT, OkL, rawTag, joinSp, LenOk]
    decide
  have hws : WritesSomething {} exampleTree := by
    simp [WritesSomething, exampleTree, Aux.toRT, Aux.toRTL, Aux.isBlank]
  have hd : DistinctCI Char.toLower (taxaOf {} (Aux.toRT {} exampleTree)) := by
    simp [exampleTree, Aux.toRT, Aux.toRTL, taxaOf, taxaOfL, Aux.tagOf, Aux.lenOf, rawTag, joinSp, DistinctCI, lowerWith]
  have h := newick_roundtrip_tree {} {} (by simp [Consistent]) (by simp) 2 (Or.inr rfl) (Or.inl ⟨rfl, Or.inl rfl⟩)
    exampleTree hok hws (by simp [exampleTree, Carried, Carried.CarriedL]) hd
  rw [h]
  simp [exampleTree, Aux.toRT, Aux.toRTL, taxaOf, taxaOfL, Aux.tagOf, Aux.lenOf, rawTag, joinSp]

/-- `token_roundtrip_any`: a TAXLABELS-style line (`default class`, newline follower) and an end-of-text follower -/
example : ∃ q r', nextTok false (escape false true protectDefault "a-b c".toList ++ ['\n', ';']) = .tok "a-b c".toList q [] r' ∧
    skipWs r' = skipWs ['\n', ';'] :=
  token_roundtrip_any protectDefault (Or.inl rfl) false false false (by simp [Consistent]) _ (by simp) (by decide) _
    (Or.inr ⟨'\n', [';'], rfl, Or.inr (by decide)⟩)
example : ∃ q r', nextTok true (escape true false protectNewick "x_y".toList ++ []) = .tok "x_y".toList q [] r' ∧ skipWs r' = skipWs [] :=
  token_roundtrip_any protectNewick (Or.inr rfl) true true true (by simp [Consistent]) _ (by simp) (by decide) _ (Or.inl rfl)

/-- two statements sharing a taxon (the second with a trailing anonymous leaf), to be read into a namespace that
    already has one of the labels -/
def exTree1 : WT := (2, none, .node none (some "x".toList) none
      [.node (some "A".toList) none (some "1.5".toList) [], .node (some "B".toList) none none []])
def exTree2 : WT := (1, none, .node none none none
      [.node (some "B".toList) none none [], .node (some "c_d".toList) none (some "2".toList) [], .node none none none []])

example : parseText {} ⟨[], ["B".toList], false⟩ (listText {} [exTree1, exTree2]) =
    some ([⟨2, none, exTree1.2.2⟩, ⟨1, none, exTree2.2.2⟩], ⟨[], ["B".toList, "A".toList, "c_d".toList], false⟩) := by
  have h := newick_list_roundtrip_trees {} {} (by simp [Consistent]) (by simp) ["B".toList] exTree1 [exTree2]
    (by
      intro y hy
      simp at hy
      rcases hy with rfl | rfl
      · refine ⟨?_, ?_, by simp [exTree1], ?_, ?_⟩
        · simp [exTree1, OkT, OkL, rawTag, joinSp, LenOk]; decide
        · simp [exTree1, WritesSomething, Aux.toRT, Aux.toRTL, Aux.isBlank]
        · simp [exTree1, Aux.toRT, Aux.toRTL, taxaOf, taxaOfL, Aux.tagOf, Aux.lenOf, rawTag, joinSp]
        · simp [exTree1, Carried, Carried.CarriedL]
      · refine ⟨?_, ?_, by simp [exTree2], ?_, ?_⟩
        · simp [exTree2, OkT, OkL, rawTag, joinSp, LenOk]; decide
        · simp [exTree2, WritesSomething, Aux.toRT, Aux.toRTL, Aux.isBlank]
        · simp [exTree2, Aux.toRT, Aux.toRTL, taxaOf, taxaOfL, Aux.tagOf, Aux.lenOf, rawTag, joinSp]
        · simp [exTree2, Carried, Carried.CarriedL])
    (by
      simp [CaseCons, Aux.allTaxa, exTree1, exTree2, Aux.toRT, Aux.toRTL, taxaOf, taxaOfL, Aux.tagOf, Aux.lenOf, rawTag, joinSp, lowerWith])
  rw [h]
  simp [exTree1, exTree2, Aux.allTaxa, Aux.addAll, Aux.nsAdd, Aux.toRT, Aux.toRTL, taxaOf, taxaOfL, Aux.tagOf, Aux.lenOf, rawTag, joinSp,
    comments, treeComments, isRootingComment, rootingState, strip, stripL, isSpace]

/-- digit-only labels in a NEXUS namespace (`2`, `1`, `3` in that order): resolved by label, not by taxon number -/
def exDigits : WT := (2, none, .node none none none
  [.node none none (some "1.0".toList) [.node (some "2".toList) none (some "1.5".toList) [], .node (some "1".toList) none (some "2.5".toList) []],
   .node (some "3".toList) none (some "3.5".toList) []])

example : parseText {} ⟨[], ["2".toList, "1".toList, "3".toList], true⟩ (listText {} [exDigits]) =
    some ([Aux.resultOf {} {} exDigits], ⟨[], ["2".toList, "1".toList, "3".toList], true⟩) :=
  nexus_statements_roundtrip_partial {} {} (by simp [Consistent]) _ exDigits []
    (by
      intro y hy
      simp at hy; subst hy
      refine ⟨?_, ?_, by simp [exDigits], ?_⟩
      · simp [exDigits, OkT, OkL, rawTag, joinSp, LenOk]; decide
      · simp [exDigits, WritesSomething, Aux.toRT, Aux.toRTL, Aux.isBlank]
      · simp [exDigits, Aux.toRT, Aux.toRTL, taxaOf, taxaOfL, Aux.tagOf, Aux.lenOf, rawTag, joinSp])
    (by simp [Aux.allTaxa, exDigits, Aux.toRT, Aux.toRTL, taxaOf, taxaOfL, Aux.tagOf, Aux.lenOf, rawTag, joinSp])
    (by simp [CaseCons, lowerWith])

/-- the same tree written through the TRANSLATE table `1 ↦ 2, 2 ↦ 1, 3 ↦ 3` (tokens = accession index + 1) -/
def exTokens : WT := (2, none, .node none none none
  [.node (some "1".toList) none none [], .node (some "2".toList) none none [], .node (some "3".toList) none none []])
def exTable : List (Str × Str) := [("1".toList, "2".toList), ("2".toList, "1".toList), ("3".toList, "3".toList)]

example : parseText {} ⟨exTable, ["2".toList, "1".toList, "3".toList], true⟩ (listText {} [exTokens]) =
    some ([Aux.resultWith (resolve Char.toLower exTable) {} {} exTokens], ⟨exTable, ["2".toList, "1".toList, "3".toList], true⟩) :=
  nexus_translate_roundtrip_partial {} {} (by simp [Consistent]) ⟨exTable, _, true⟩ exTokens []
    (by
      intro y hy
      simp at hy; subst hy
      refine ⟨?_, ?_, by simp [exTokens], ?_, ?_⟩
      · simp [exTokens, OkT, OkL, rawTag, joinSp, LenOk]; decide
      · simp [exTokens, WritesSomething, Aux.toRT, Aux.toRTL, Aux.isBlank]
      · simp [exTokens, exTable, Aux.toRT, Aux.toRTL, taxaOf, taxaOfL, Aux.tagOf, Aux.lenOf, rawTag, joinSp, resolve, lowerWith]
      · simp [exTokens, exTable, Aux.toRT, Aux.toRTL, taxaOf, taxaOfL, Aux.tagOf, Aux.lenOf, rawTag, joinSp, hasKey, lowerWith])
example : resolve Char.toLower exTable "1".toList = "2".toList :=
  resolve_key Char.toLower exTable (by simp [exTable, DistinctCI, lowerWith]) ("1".toList, "2".toList) (by simp [exTable])

/-- `nexus_translate_roundtrip` on the digit-label tree: written through `exTable` (label `2` ↦ token `1`, …), read back
    as the original tree -/
example : parseText {} ⟨exTable, ["2".toList, "1".toList, "3".toList], true⟩ (listText {} ([exDigits].map (retagWT (tokenOf exTable)))) =
    some ([⟨2, none, exDigits.2.2⟩], ⟨exTable, ["2".toList, "1".toList, "3".toList], true⟩) := by
  have h := nexus_translate_roundtrip {} {} (by simp [Consistent]) (by simp) exTable ["2".toList, "1".toList, "3".toList]
    (by simp [exTable, DistinctCI, lowerWith]) exDigits []
    (by
      intro y hy
      simp at hy; subst hy
      refine ⟨?_, ?_, by simp [exDigits], ?_, ?_, ?_⟩
      · simp [exDigits, exTable, retag, retagL, tokenOf, OkT, OkL, rawTag, joinSp, LenOk]; decide
      · simp [exDigits, retag, retagL, WritesSomething, Aux.toRT, Aux.toRTL, Aux.isBlank]
      · simp [exDigits, Carried, Carried.CarriedL]
      · simp [exDigits, Aux.toRT, Aux.toRTL, taxaOf, taxaOfL, Aux.tagOf, Aux.lenOf, rawTag, joinSp]
      · intro s hs
        simp [exDigits, taxLabels, taxLabelsL, Aux.toRT, Aux.toRTL, taxaOf, taxaOfL, Aux.tagOf, Aux.lenOf, rawTag, joinSp] at hs
        rcases hs with (rfl | rfl | rfl) | (rfl | rfl | rfl) <;> simp [exTable, tokenOf])
  simp only [List.map] at h ⊢
  rw [h]
  simp [exDigits, comments, treeComments, isRootingComment, rootingState, strip, stripL, isSpace]

/-- `nexus_trees_translate_roundtrip` on the digit-label tree: the block text with `Translate 1 2, 2 1, 3 3;` and the
    statement written with tokens is read back as the original tree under its name, the table is the one written -/
example : nexusBlock {} ["2".toList, "1".toList, "3".toList]
      (treesBlockText {} exTable ([("t 1".toList, exDigits)].map (fun x => (x.1, retagWT (tokenOf exTable) x.2)))) =
    some ([("t 1".toList, ⟨2, none, exDigits.2.2⟩)], ⟨exTable, ["2".toList, "1".toList, "3".toList], true⟩) := by
  have h := nexus_trees_translate_roundtrip {} {} (by simp [Consistent]) (by simp) exTable (by simp [exTable])
    ["2".toList, "1".toList, "3".toList] (by simp [exTable, DistinctCI, lowerWith])
    (by
      intro p hp
      simp [exTable] at hp
      rcases hp with rfl | rfl | rfl <;>
        exact ⟨⟨by simp, by decide, by intro c cs h; cases h; decide⟩, ⟨by simp, by decide⟩, by simp⟩)
    (by simp [CaseCons, lowerWith]) [("t 1".toList, exDigits)]
    (by
      intro y hy
      simp at hy; subst hy
      refine ⟨⟨by simp, by decide⟩, ?_, ?_, by simp [exDigits], ?_, ?_, ?_⟩
      · simp [exDigits, exTable, retag, retagL, tokenOf, OkT, OkL, rawTag, joinSp, LenOk]; decide
      · simp [exDigits, retag, retagL, WritesSomething, Aux.toRT, Aux.toRTL, Aux.isBlank]
      · simp [exDigits, Carried, Carried.CarriedL]
      · simp [exDigits, Aux.toRT, Aux.toRTL, taxaOf, taxaOfL, Aux.tagOf, Aux.lenOf, rawTag, joinSp]
      · intro s hs
        simp [exDigits, taxLabels, taxLabelsL, Aux.toRT, Aux.toRTL, taxaOf, taxaOfL, Aux.tagOf, Aux.lenOf, rawTag, joinSp] at hs
        rcases hs with (rfl | rfl | rfl) | (rfl | rfl | rfl) <;> simp [exTable])
  rw [h]
  simp [exDigits, comments, treeComments, isRootingComment, rootingState, strip, stripL, isSpace]

/-- `nexus_trees_roundtrip` on a two-tree block, one tree named with a blank and one named `*` (written `'*'`, not the
    default-tree marker), over the namespace of a TAXA block -/
example : nexusBlock {} ["B".toList, "A".toList, "c_d".toList]
      (treesBlockText {} [] [("my tree".toList, exTree1), ("*".toList, exTree2)]) =
    some ([("my tree".toList, Aux.resultOf {} {} exTree1), ("*".toList, Aux.resultOf {} {} exTree2)],
          ⟨[], ["B".toList, "A".toList, "c_d".toList], true⟩) :=
  nexus_trees_roundtrip {} {} (by simp [Consistent]) _ _
    (by
      intro y hy
      simp at hy
      rcases hy with rfl | rfl
      · refine ⟨⟨by simp, by decide⟩, ?_, ?_, by simp [exTree1], ?_, ?_⟩
        · simp [exTree1, OkT, OkL, rawTag, joinSp, LenOk]; decide
        · simp [exTree1, WritesSomething, Aux.toRT, Aux.toRTL, Aux.isBlank]
        · simp [exTree1, Aux.toRT, Aux.toRTL, taxaOf, taxaOfL, Aux.tagOf, Aux.lenOf, rawTag, joinSp]
        · simp [exTree1, Aux.toRT, Aux.toRTL, taxaOf, taxaOfL, Aux.tagOf, Aux.lenOf, rawTag, joinSp]
      · refine ⟨⟨by simp, by decide⟩, ?_, ?_, by simp [exTree2], ?_, ?_⟩
        · simp [exTree2, OkT, OkL, rawTag, joinSp, LenOk]; decide
        · simp [exTree2, WritesSomething, Aux.toRT, Aux.toRTL, Aux.isBlank]
        · simp [exTree2, Aux.toRT, Aux.toRTL, taxaOf, taxaOfL, Aux.tagOf, Aux.lenOf, rawTag, joinSp]
        · simp [exTree2, Aux.toRT, Aux.toRTL, taxaOf, taxaOfL, Aux.tagOf, Aux.lenOf, rawTag, joinSp])
    (by simp [CaseCons, lowerWith])

/-- `nexus_document_roundtrip` on a whole document: namespace `B, A, c_d` (in that order), two named trees; read into a
    fresh namespace -/
example : nexusDoc {} none (nexusDocText {} ["B".toList, "A".toList, "c_d".toList] []
      [("my tree".toList, exTree1), ("*".toList, exTree2)]) =
    some ⟨["B".toList, "A".toList, "c_d".toList], [],
      [("my tree".toList, Aux.resultOf {} {} exTree1), ("*".toList, Aux.resultOf {} {} exTree2)]⟩ :=
  nexus_document_roundtrip {} {} (by simp [Consistent]) _ (by decide) (by simp [DistinctCI, lowerWith]) none (Or.inl rfl) _
    (by
      intro y hy
      simp at hy
      rcases hy with rfl | rfl
      · refine ⟨⟨by simp, by decide⟩, ?_, ?_, by simp [exTree1], ?_, ?_⟩
        · simp [exTree1, OkT, OkL, rawTag, joinSp, LenOk]; decide
        · simp [exTree1, WritesSomething, Aux.toRT, Aux.toRTL, Aux.isBlank]
        · simp [exTree1, Aux.toRT, Aux.toRTL, taxaOf, taxaOfL, Aux.tagOf, Aux.lenOf, rawTag, joinSp]
        · simp [exTree1, Aux.toRT, Aux.toRTL, taxaOf, taxaOfL, Aux.tagOf, Aux.lenOf, rawTag, joinSp]
      · refine ⟨⟨by simp, by decide⟩, ?_, ?_, by simp [exTree2], ?_, ?_⟩
        · simp [exTree2, OkT, OkL, rawTag, joinSp, LenOk]; decide
        · simp [exTree2, WritesSomething, Aux.toRT, Aux.toRTL, Aux.isBlank]
        · simp [exTree2, Aux.toRT, Aux.toRTL, taxaOf, taxaOfL, Aux.tagOf, Aux.lenOf, rawTag, joinSp]
        · simp [exTree2, Aux.toRT, Aux.toRTL, taxaOf, taxaOfL, Aux.tagOf, Aux.lenOf, rawTag, joinSp])

/-- `nexus_document_translate_roundtrip` on the digit-label tree, read into the caller's namespace `2, 1, 3` -/
example : nexusDoc {} (some (exTable.map (·.2))) (nexusDocText {} (exTable.map (·.2)) exTable
      ([("t 1".toList, exDigits)].map (fun x => (x.1, retagWT (tokenOf exTable) x.2)))) =
    some ⟨exTable.map (·.2), exTable, [("t 1".toList, ⟨2, none, exDigits.2.2⟩)]⟩ := by
  have h := nexus_document_translate_roundtrip {} {} (by simp [Consistent]) (by simp) exTable (by simp [exTable])
    (by simp [exTable, DistinctCI, lowerWith])
    (by
      intro p hp
      simp [exTable] at hp
      rcases hp with rfl | rfl | rfl <;>
        exact ⟨⟨by simp, by decide, by intro c cs h; cases h; decide⟩, ⟨by simp, by decide⟩⟩)
    (by simp [exTable, DistinctCI, lowerWith]) (some (exTable.map (·.2))) (Or.inr rfl) [("t 1".toList, exDigits)]
    (by
      intro y hy
      simp at hy; subst hy
      refine ⟨⟨by simp, by decide⟩, ?_, ?_, by simp [exDigits], ?_, ?_, ?_⟩
      · simp [exDigits, exTable, retag, retagL, tokenOf, OkT, OkL, rawTag, joinSp, LenOk]; decide
      · simp [exDigits, retag, retagL, WritesSomething, Aux.toRT, Aux.toRTL, Aux.isBlank]
      · simp [exDigits, Carried, Carried.CarriedL]
      · simp [exDigits, Aux.toRT, Aux.toRTL, taxaOf, taxaOfL, Aux.tagOf, Aux.lenOf, rawTag, joinSp]
      · intro s hs
        simp [exDigits, taxLabels, taxLabelsL, Aux.toRT, Aux.toRTL, taxaOf, taxaOfL, Aux.tagOf, Aux.lenOf, rawTag, joinSp] at hs
        rcases hs with (rfl | rfl | rfl) | (rfl | rfl | rfl) <;> simp [exTable])
  rw [h]
  simp [exDigits, comments, treeComments, isRootingComment, rootingState, strip, stripL, isSpace]

end DendroModel.C02
