import DendroModel.Model.C05
import DendroModel.Props.C01
import DendroModel.Theory.Greedy
import DendroModel.Theory.FracRat
import Mathlib.Tactic
import Mathlib.Algebra.Order.Field.Rat
import Mathlib.Algebra.BigOperators.Group.List.Basic
/-! C05 — property theorems about the summaries of `Model/C05.lean`. -/
namespace DendroModel.C05.Aux
open DendroModel DendroModel.C05

theorem countOf_addCount (d : List (Int × Rat)) (k : Int) (w : Rat) (s : Int) :
    countOf (addCount d k w) s = if s = k then some ((countOf d s).getD 0 + w) else countOf d s := by
  induction d with
  | nil =>
    by_cases h : s = k
    · subst h; simp [addCount, countOf]
    · have : ¬ k = s := fun e => h e.symm
      simp [addCount, countOf, h, this]
  | cons q rest ih =>
    simp only [addCount]
    by_cases hq : q.1 = k
    · simp only [hq, beq_self_eq_true, if_true]
      by_cases h : s = k
      · subst h; simp [countOf, hq]
      · have : ¬ k = s := fun e => h e.symm
        simp [countOf, h, hq, this]
    · have hq' : (q.1 == k) = false := by simpa using hq
      simp only [hq', Bool.false_eq_true, if_false]
      by_cases hqs : q.1 = s
      · have hsk : ¬ s = k := fun e => hq (hqs.trans e)
        simp [countOf, hqs, hsk]
      · have e1 : countOf ((q.1, q.2) :: addCount rest k w) s = countOf (addCount rest k w) s := by
          simp [countOf, hqs]
        have e2 : countOf (q :: rest) s = countOf rest s := by
          simp [countOf, hqs]
        rw [e1, e2]; exact ih

theorem countOf_fold (w : Rat) (s : Int) : ∀ (splits : List Int) (d : List (Int × Rat)),
    countOf (splits.foldl (fun d x => addCount d x w) d) s
      = if s ∈ splits then some ((countOf d s).getD 0 + w * (splits.count s : Rat)) else countOf d s := by
  intro splits
  induction splits with
  | nil => intro d; simp
  | cons x xs ih =>
    intro d
    simp only [List.foldl_cons, ih, countOf_addCount]
    by_cases hx : s = x
    · subst hx
      by_cases hm : s ∈ xs
      · simp [hm, List.count_cons_self]; ring
      · simp [hm, List.count_eq_zero_of_not_mem hm]
    · have hx' : ¬ x = s := fun e => hx e.symm
      by_cases hm : s ∈ xs
      · simp [hm, hx, hx', List.count_cons_of_ne hx']
      · simp [hm, hx, hx']

/-- weight with which a tree is counted -/
def wt (useW : Bool) (t : TreeRec) : Rat :=
  match t.weight with
  | some w => if useW then w else 1
  | none => 1

/-- total weight of the occurrences of a split -/
def wsum (useW : Bool) (ts : List TreeRec) (s : Int) : Rat :=
  (ts.map (fun t => wt useW t * (t.splits.count s : Rat))).sum

theorem countAll_gen (s : Int) : ∀ (ts : List TreeRec) (sd : SD),
    (ts.foldl countTree sd).useWeights = sd.useWeights
    ∧ (ts.foldl countTree sd).total = sd.total + ts.length
    ∧ (ts.foldl countTree sd).sumW = sd.sumW + (ts.map (wt sd.useWeights)).sum
    ∧ countOf (ts.foldl countTree sd).counts s
        = if ∃ t ∈ ts, s ∈ t.splits then some ((countOf sd.counts s).getD 0 + wsum sd.useWeights ts s)
          else countOf sd.counts s := by
  intro ts
  induction ts with
  | nil => intro sd; simp [wsum]
  | cons t rest ih =>
    intro sd
    obtain ⟨h1, h2, h3, h4⟩ := ih (countTree sd t)
    have hu : (countTree sd t).useWeights = sd.useWeights := rfl
    have hw : weightOf sd t = wt sd.useWeights t := rfl
    refine ⟨by rw [List.foldl_cons, h1, hu], ?_, ?_, ?_⟩
    · rw [List.foldl_cons, h2]; simp [countTree]; omega
    · rw [List.foldl_cons, h3, hu]; simp [countTree, hw]; ring
    · rw [List.foldl_cons, h4, hu]
      have hc : countOf (countTree sd t).counts s
          = if s ∈ t.splits then some ((countOf sd.counts s).getD 0 + wt sd.useWeights t * (t.splits.count s : Rat))
            else countOf sd.counts s := by
        simp only [countTree, hw]; exact countOf_fold _ s t.splits sd.counts
      rw [hc]
      by_cases hr : ∃ t' ∈ rest, s ∈ t'.splits
      · have hall : ∃ t' ∈ t :: rest, s ∈ t'.splits := by
          obtain ⟨t', h, h'⟩ := hr; exact ⟨t', List.mem_cons_of_mem _ h, h'⟩
        simp only [hr, hall, if_true]
        by_cases ht : s ∈ t.splits
        · simp [ht, wsum]; ring
        · simp [ht, wsum, List.count_eq_zero_of_not_mem ht]
      · by_cases ht : s ∈ t.splits
        · have hall : ∃ t' ∈ t :: rest, s ∈ t'.splits := ⟨t, by simp, ht⟩
          have hz : wsum sd.useWeights rest s = 0 := by
            unfold wsum
            apply List.sum_eq_zero
            intro x hx
            obtain ⟨t', ht', rfl⟩ := List.mem_map.mp hx
            have : s ∉ t'.splits := fun hh => hr ⟨t', ht', hh⟩
            simp [List.count_eq_zero_of_not_mem this]
          simp only [hr, hall, ht, if_true, if_false]
          have e : wsum sd.useWeights (t :: rest) s
              = wt sd.useWeights t * (t.splits.count s : Rat) + wsum sd.useWeights rest s := by simp [wsum]
          rw [e, hz]; simp
        · have hall : ¬ ∃ t' ∈ t :: rest, s ∈ t'.splits := by
            rintro ⟨t', h, h'⟩
            rcases List.mem_cons.mp h with rfl | h
            · exact ht h'
            · exact hr ⟨t', h, h'⟩
          simp [hr, hall, ht]

/-! sorting -/
theorem insertDesc_mem (x : Rat × Int) (l : List (Rat × Int)) (y : Rat × Int) :
    y ∈ insertDesc x l ↔ y = x ∨ y ∈ l := by
  induction l with
  | nil => simp [insertDesc]
  | cons z zs ih =>
    simp only [insertDesc]
    split
    · simp only [List.mem_cons, ih]; tauto
    · simp only [List.mem_cons]

theorem sortDesc_mem (l : List (Rat × Int)) (y : Rat × Int) : y ∈ sortDesc l ↔ y ∈ l := by
  induction l with
  | nil => simp [sortDesc]
  | cons x xs ih =>
    simp only [sortDesc, List.foldr_cons] at ih ⊢
    rw [insertDesc_mem, ih]; simp

/-- "not before": `a` may precede `b` in a descending list -/
def geP (a b : Rat × Int) : Prop := a.1 ≥ b.1

theorem not_gtPair (a b : Rat × Int) (h : gtPair a b = false) : geP b a := by
  unfold gtPair at h
  unfold geP
  simp only [Bool.or_eq_false_iff, decide_eq_false_iff_not, not_lt, Bool.and_eq_false_iff] at h
  exact h.1

theorem gtPair_ge (a b : Rat × Int) (h : gtPair a b = true) : geP a b := by
  unfold gtPair at h
  unfold geP
  simp only [Bool.or_eq_true, decide_eq_true_eq, Bool.and_eq_true, beq_iff_eq] at h
  rcases h with h | h
  · exact le_of_lt h
  · exact le_of_eq h.1.symm

theorem insertDesc_sorted (x : Rat × Int) : ∀ l : List (Rat × Int), l.Pairwise geP → (insertDesc x l).Pairwise geP
  | [], _ => by simp [insertDesc]
  | z :: zs, h => by
    simp only [insertDesc]
    have hz := List.pairwise_cons.mp h
    split
    · rename_i hgt
      refine List.pairwise_cons.mpr ⟨?_, insertDesc_sorted x zs hz.2⟩
      intro y hy
      rcases (insertDesc_mem x zs y).mp hy with rfl | hy
      · exact gtPair_ge _ _ hgt
      · exact hz.1 y hy
    · rename_i hgt
      have hgt' : gtPair z x = false := by simpa using hgt
      have hxz : geP x z := not_gtPair _ _ hgt'
      refine List.pairwise_cons.mpr ⟨?_, h⟩
      intro y hy
      rcases List.mem_cons.mp hy with rfl | hy
      · exact hxz
      · exact le_trans (hz.1 y hy) hxz

theorem sortDesc_sorted (l : List (Rat × Int)) : (sortDesc l).Pairwise geP := by
  induction l with
  | nil => simp [sortDesc]
  | cons x xs ih =>
    simp only [sortDesc, List.foldr_cons] at ih ⊢
    exact insertDesc_sorted x _ ih

/-! arg max -/
theorem go_spec : ∀ (l : List Rat) (best : Rat) (bi i : Nat),
    let r := argmaxFirst.go best bi i l
    (r = bi ∧ ∀ y ∈ l, y ≤ best) ∨
    (∃ k, r = i + k ∧ ∃ h : k < l.length, best < l[k] ∧ (∀ y ∈ l, y ≤ l[k]) ∧ ∀ j (hj : j < k), l[j]'(by omega) < l[k])
  | [], best, bi, i => by simp [argmaxFirst.go]
  | y :: ys, best, bi, i => by
    simp only [argmaxFirst.go]
    split
    · rename_i hlt
      rcases go_spec ys y i (i + 1) with ⟨hr, hall⟩ | ⟨k, hr, hk, hby, hall, hfirst⟩
      · right
        refine ⟨0, by simpa using hr, by simp, by simpa using hlt, ?_, by intro j hj; omega⟩
        intro z hz
        rcases List.mem_cons.mp hz with rfl | hz
        · simp
        · simpa using hall z hz
      · right
        refine ⟨k + 1, by rw [hr]; omega, by simp; omega, ?_, ?_, ?_⟩
        · simp only [List.getElem_cons_succ]; exact lt_trans hlt hby
        · intro z hz
          simp only [List.getElem_cons_succ]
          rcases List.mem_cons.mp hz with rfl | hz
          · exact le_of_lt hby
          · exact hall z hz
        · intro j hj
          simp only [List.getElem_cons_succ]
          cases j with
          | zero => simpa using hby
          | succ j => simpa using hfirst j (by omega)
    · rename_i hlt
      have hle : y ≤ best := not_lt.mp hlt
      rcases go_spec ys best bi (i + 1) with ⟨hr, hall⟩ | ⟨k, hr, hk, hby, hall, hfirst⟩
      · left
        refine ⟨hr, ?_⟩
        intro z hz
        rcases List.mem_cons.mp hz with rfl | hz
        · exact hle
        · exact hall z hz
      · right
        refine ⟨k + 1, by rw [hr]; omega, by simp; omega, ?_, ?_, ?_⟩
        · simpa using hby
        · intro z hz
          simp only [List.getElem_cons_succ]
          rcases List.mem_cons.mp hz with rfl | hz
          · exact le_trans hle (le_of_lt hby)
          · exact hall z hz
        · intro j hj
          simp only [List.getElem_cons_succ]
          cases j with
          | zero => simpa using lt_of_le_of_lt hle hby
          | succ j => simpa using hfirst j (by omega)

/-! root-to-tip distances -/
def lenR (t : T) : Rat := match t.len with | some f => Frac.toRat f | none => 0

mutual
/-- (leaf id, distance from the root) for the leaves below a node that is at distance `acc` -/
def tips (acc : Rat) : T → List (Nat × Rat)
  | .node i _ _ _ [] => [(i, acc)]
  | .node _ _ _ _ (c :: cs) => tipsL acc (c :: cs)
def tipsL (acc : Rat) : List T → List (Nat × Rat)
  | [] => []
  | c :: cs => tips (acc + lenR c) c ++ tipsL acc cs
end

mutual
/-- every stored length has a non-zero denominator (true of everything `Frac.parse` and the operations produce) -/
def LenWF : T → Prop
  | .node _ _ l _ cs => (∀ f, l = some f → Frac.WF f) ∧ LenWFL cs
def LenWFL : List T → Prop
  | [] => True
  | c :: cs => LenWF c ∧ LenWFL cs
end

theorem tips_withLen (acc : Rat) (t : T) (l : Option Frac) : tips acc (t.withLen l) = tips acc t := by
  cases t with
  | node i x l' s cs => cases cs <;> simp [T.withLen, tips]

theorem tipsL_append (acc : Rat) (a b : List T) : tipsL acc (a ++ b) = tipsL acc a ++ tipsL acc b := by
  induction a with
  | nil => simp [tipsL]
  | cons c cs ih => simp [tipsL, ih]

theorem lenR_addLen (g c : T) (hg : ∀ f, g.len = some f → Frac.WF f) (hc : ∀ f, c.len = some f → Frac.WF f) :
    lenR (g.withLen (addLen g.len c.len)) = lenR g + lenR c := by
  cases g with
  | node i x l s cs =>
    cases c with
    | node ci cx cl cs' ccs =>
      simp only [T.withLen, lenR, T.len] at *
      cases cl with
      | none => cases l <;> simp [addLen]
      | some y =>
        cases l with
        | none => simp [addLen]
        | some z =>
          simp only [addLen]
          exact Frac.toRat_add z y (hg z rfl) (hc y rfl)

theorem tipsL_push (acc : Rat) (c : T) (hc : ∀ f, c.len = some f → Frac.WF f) : ∀ (gs : List T), LenWFL gs →
    tipsL acc (gs.map (fun g => g.withLen (addLen g.len c.len))) = tipsL (acc + lenR c) gs
  | [], _ => by simp [tipsL]
  | g :: gs, h => by
    simp only [LenWFL] at h
    have hgl : ∀ f, g.len = some f → Frac.WF f := by
      cases g with
      | node i x l s cs => simp only [LenWF] at h; exact fun f hf => h.1.1 f (by simpa [T.len] using hf)
    simp only [List.map_cons, tipsL, tips_withLen, lenR_addLen g c hgl hc, tipsL_push acc c hc gs h.2]
    congr 2; ring

mutual
theorem collapse_tips (weak : Nat → Bool) : ∀ (t : T) (acc : Rat), LenWF t →
    tips acc (collapseWeak weak t) = tips acc t ∧ lenR (collapseWeak weak t) = lenR t ∧ LenWF (collapseWeak weak t)
      ∧ ((collapseWeak weak t).cs = [] ↔ t.cs = [])
  | .node i x l s [], acc, h => by simp [collapseWeak, collapseWeakL, tips, lenR, T.len, T.cs, LenWF] at *; exact h
  | .node i x l s (c :: cs), acc, h => by
    simp only [LenWF] at h
    obtain ⟨h1, h2, h3⟩ := collapseL_tips weak (c :: cs) acc h.2
    refine ⟨?_, by simp [collapseWeak, lenR, T.len], ?_, ?_⟩
    · simp only [collapseWeak]
      cases hk : collapseWeakL weak (c :: cs) with
      | nil => exact absurd hk (h3 (by simp))
      | cons d ds => simp only [tips]; rw [← hk]; exact h1
    · simp only [collapseWeak, LenWF]; exact ⟨h.1, h2⟩
    · simp only [collapseWeak, T.cs]; constructor
      · intro hh; exact absurd hh (h3 (by simp))
      · intro hh; cases hh
theorem collapseL_tips (weak : Nat → Bool) : ∀ (cs : List T) (acc : Rat), LenWFL cs →
    tipsL acc (collapseWeakL weak cs) = tipsL acc cs ∧ LenWFL (collapseWeakL weak cs)
      ∧ (cs ≠ [] → collapseWeakL weak cs ≠ [])
  | [], acc, _ => by simp [collapseWeakL, tipsL, LenWFL]
  | c :: cs, acc, h => by
    simp only [LenWFL] at h
    obtain ⟨ih1, ih2, _⟩ := collapseL_tips weak cs acc h.2
    have hc := collapse_tips weak c
    have hwf := (hc acc h.1).2.2.1
    have hlen := (hc acc h.1).2.1
    have hemp := (hc acc h.1).2.2.2
    simp only [collapseWeakL]
    split
    · rename_i hw
      simp only [Bool.and_eq_true, Bool.not_eq_true', List.isEmpty_eq_false_iff] at hw
      -- the collapsed node's children take its place and absorb its length
      have hwf' := hwf
      cases hcc : collapseWeak weak c with
      | node i x l s gs =>
        rw [hcc] at hwf' hlen hw hemp
        simp only [LenWF] at hwf'
        have hcl : ∀ f, (T.node i x l s gs).len = some f → Frac.WF f := fun f hf => hwf'.1 f (by simpa [T.len] using hf)
        have hpush := tipsL_push acc (T.node i x l s gs) hcl gs hwf'.2
        simp only [T.cs] at hpush ⊢
        refine ⟨?_, ?_, ?_⟩
        · rw [tipsL_append, hpush, ih1]
          simp only [tipsL]
          congr 1
          have ht := (hc (acc + lenR c) h.1).1
          rw [hcc] at ht
          rw [hlen, ← ht]
          cases gs with
          | nil => simp [T.cs] at hw
          | cons g gs' => simp [tips]
        · -- LenWFL of the appended list
          have hmapwf : ∀ (l' : List T), LenWFL l' → LenWFL (l'.map (fun g => g.withLen (addLen g.len (T.node i x l s gs).len))) := by
            intro l'
            induction l' with
            | nil => intro _; simp [LenWFL]
            | cons g gs' ihg =>
              intro hh
              simp only [LenWFL] at hh
              simp only [List.map_cons, LenWFL]
              refine ⟨?_, ihg hh.2⟩
              cases g with
              | node gi gx gl gs2 gcs =>
                simp only [T.withLen, LenWF, T.len] at hh ⊢
                refine ⟨?_, hh.1.2⟩
                intro f hf
                cases l with
                | none => simp [addLen] at hf; exact hh.1.1 f hf
                | some y =>
                  cases gl with
                  | none => simp [addLen] at hf; rw [← hf]; exact hwf'.1 y rfl
                  | some z => simp [addLen] at hf; rw [← hf]; exact Frac.wf_add z y
          have happ : ∀ (a b : List T), LenWFL a → LenWFL b → LenWFL (a ++ b) := by
            intro a b ha hb
            induction a with
            | nil => simpa using hb
            | cons q qs ihq => simp only [LenWFL] at ha; simp only [List.cons_append, LenWFL]; exact ⟨ha.1, ihq ha.2⟩
          exact happ _ _ (hmapwf gs hwf'.2) ih2
        · intro _
          cases gs with
          | nil => simp [T.cs] at hw
          | cons g gs' => simp
    · refine ⟨?_, ?_, by simp⟩
      · simp only [List.cons_append, List.nil_append, tipsL, hlen, (hc (acc + lenR c) h.1).1, ih1]
      · simp only [List.cons_append, List.nil_append, LenWFL]; exact ⟨hwf, ih2⟩
end

end DendroModel.C05.Aux

namespace DendroModel.C05
open DendroModel DendroModel.Hier DendroModel.C05.Aux

/-! ### (a) frequencies -/

/-- the count of a split is the total weight of its occurrences; a split that occurs in no tree has no entry -/
theorem count_spec (useW : Bool) (ts : List TreeRec) (s : Int) :
    countOf (countAll useW ts).counts s
      = if ∃ t ∈ ts, s ∈ t.splits then some (wsum useW ts s) else none := by
  have := (countAll_gen s ts { useWeights := useW }).2.2.2
  unfold countAll
  rw [this]
  simp [countOf]

/-- nothing is reported for a split that occurs in no tree -/
theorem freq_absent (useW : Bool) (ts : List TreeRec) (s : Int) (h : ∀ t ∈ ts, s ∉ t.splits) :
    freq (countAll useW ts) s = 0 := by
  unfold freq
  rw [count_spec]
  have : ¬ ∃ t ∈ ts, s ∈ t.splits := by rintro ⟨t, ht, hs⟩; exact h t ht hs
  simp [this]

/-- the frequency of a split is the weighted fraction of trees containing it: total weight of its occurrences over the
    sum of the tree weights (over the number of trees when that sum is zero) -/
theorem freq_spec (useW : Bool) (ts : List TreeRec) (s : Int) (h : ∃ t ∈ ts, s ∈ t.splits) :
    freq (countAll useW ts) s
      = wsum useW ts s / (if (ts.map (wt useW)).sum = 0 then (ts.length : Rat) else (ts.map (wt useW)).sum) := by
  have hg := countAll_gen s ts { useWeights := useW }
  unfold freq
  rw [count_spec]
  simp only [h, if_true]
  have htot : (countAll useW ts).total = ts.length := by unfold countAll; rw [hg.2.1]; simp
  have hsw : (countAll useW ts).sumW = (ts.map (wt useW)).sum := by unfold countAll; rw [hg.2.2.1]; simp
  obtain ⟨t, ht, _⟩ := h
  have hne : ts.length ≠ 0 := by intro h0; rw [List.length_eq_zero_iff] at h0; subst h0; cases ht
  simp only [htot, normW, hsw]
  have : ¬ ((ts.length == 0) = true) := by simpa using hne
  simp only [this, if_false]
  by_cases hz : (ts.map (wt useW)).sum = 0
  · simp [hz]
  · simp [hz]

/-- with every tree counted once per split (no repeated split in one encoding) and unit weights, the frequency is
    the plain fraction of trees that contain the split -/
theorem freq_unweighted (ts : List TreeRec) (s : Int) (hnd : ∀ t ∈ ts, t.splits.Nodup) (h : ∃ t ∈ ts, s ∈ t.splits) :
    freq (countAll false ts) s = ((ts.filter (fun t => decide (s ∈ t.splits))).length : Rat) / (ts.length : Rat) := by
  rw [freq_spec false ts s h]
  have hw : ∀ t : TreeRec, wt false t = 1 := by intro t; unfold wt; cases t.weight <;> simp
  have hsum : ∀ l : List TreeRec, (l.map (wt false)).sum = (l.length : Rat) := by
    intro l
    induction l with
    | nil => simp
    | cons t r ih => simp [hw, ih]; ring
  have hne : (ts.length : Rat) ≠ 0 := by
    obtain ⟨t, ht, _⟩ := h
    have : ts.length ≠ 0 := by intro h0; rw [List.length_eq_zero_iff] at h0; subst h0; cases ht
    exact_mod_cast this
  rw [hsum ts]
  simp only [hne, if_false]
  congr 1
  have key : ∀ l : List TreeRec, (∀ t ∈ l, t.splits.Nodup) →
      wsum false l s = ((l.filter (fun t => decide (s ∈ t.splits))).length : Rat) := by
    intro l
    induction l with
    | nil => intro _; simp [wsum]
    | cons t rest ih =>
      intro hnd'
      have ih' := ih (fun t' ht' => hnd' t' (List.mem_cons_of_mem _ ht'))
      have hn := hnd' t (by simp)
      have e : wsum false (t :: rest) s = (t.splits.count s : Rat) + wsum false rest s := by simp [wsum, hw]
      rw [e, ih', List.filter_cons]
      by_cases hs : s ∈ t.splits
      · simp [hs, List.count_eq_one_of_mem hn hs]; ring
      · simp [hs, List.count_eq_zero_of_not_mem hs]
  exact key ts hnd

/-! ### (b) majority rule -/

/-- two splits each carried by more than half of the total (non-negative) tree weight occur together in some tree -/
theorem majority_cooccur (useW : Bool) (ts : List TreeRec) (a b : Int)
    (hnd : ∀ t ∈ ts, t.splits.Nodup) (hw : ∀ t ∈ ts, 0 ≤ wt useW t)
    (ha : (ts.map (wt useW)).sum < 2 * wsum useW ts a) (hb : (ts.map (wt useW)).sum < 2 * wsum useW ts b) :
    ∃ t ∈ ts, a ∈ t.splits ∧ b ∈ t.splits := by
  by_contra hno
  have key : ∀ l : List TreeRec, (∀ t ∈ l, t.splits.Nodup) → (∀ t ∈ l, 0 ≤ wt useW t) →
      (∀ t ∈ l, ¬ (a ∈ t.splits ∧ b ∈ t.splits)) → wsum useW l a + wsum useW l b ≤ (l.map (wt useW)).sum := by
    intro l
    induction l with
    | nil => intro _ _ _; simp [wsum]
    | cons t rest ih =>
      intro h1 h2 h3
      have ih' := ih (fun x hx => h1 x (List.mem_cons_of_mem _ hx)) (fun x hx => h2 x (List.mem_cons_of_mem _ hx))
        (fun x hx => h3 x (List.mem_cons_of_mem _ hx))
      have hn := h1 t (by simp)
      have hwt := h2 t (by simp)
      have hab := h3 t (by simp)
      unfold wsum at ih' ⊢
      simp only [List.map_cons, List.sum_cons]
      have ca : (t.splits.count a : Rat) = if a ∈ t.splits then 1 else 0 := by
        by_cases h : a ∈ t.splits
        · simp [h, List.count_eq_one_of_mem hn h]
        · simp [h, List.count_eq_zero_of_not_mem h]
      have cb : (t.splits.count b : Rat) = if b ∈ t.splits then 1 else 0 := by
        by_cases h : b ∈ t.splits
        · simp [h, List.count_eq_one_of_mem hn h]
        · simp [h, List.count_eq_zero_of_not_mem h]
      rw [ca, cb]
      by_cases h1' : a ∈ t.splits <;> by_cases h2' : b ∈ t.splits
      · exact absurd ⟨h1', h2'⟩ hab
      · simp [h1', h2']; linarith
      · simp [h1', h2']; linarith
      · simp [h1', h2']; linarith
  have := key ts hnd hw (fun t ht hab => hno ⟨t, ht, hab⟩)
  linarith

/-- hence splits above one half are pairwise nested or disjoint whenever every tree's splits are the clades of a
    well-formed tree (rooted encodings) — exactly the hypothesis under which `C01.build_spec` inserts all of them, in any order -/
theorem majority_pairwise_laminar (useW : Bool) (ts : List TreeRec) (a b : Nat)
    (hnd : ∀ t ∈ ts, t.splits.Nodup) (hw : ∀ t ∈ ts, 0 ≤ wt useW t)
    (htree : ∀ t ∈ ts, ∃ h : Hier.T, Good h ∧ ∀ x : Nat, (x : Int) ∈ t.splits → x ∈ clades h)
    (ha : (ts.map (wt useW)).sum < 2 * wsum useW ts (a : Int)) (hb : (ts.map (wt useW)).sum < 2 * wsum useW ts (b : Int)) :
    Lam a b := by
  obtain ⟨t, ht, h1, h2⟩ := majority_cooccur useW ts a b hnd hw ha hb
  obtain ⟨h, hg, hcl⟩ := htree t ht
  exact clades_laminar h hg a (hcl a h1) b (hcl b h2)

/-! ### (c) lower thresholds: greedy, maximal, in decreasing order of frequency -/

/-- candidates are sorted by decreasing frequency -/
theorem candidates_sorted (sd : SD) (mf : Option Rat) :
    ∃ l : List (Rat × Int), candidates sd mf = l.map (·.2) ∧ l.Pairwise (fun a b => a.1 ≥ b.1)
      ∧ ∀ p ∈ l, p.1 = freq sd p.2 := by
  unfold candidates
  refine ⟨_, rfl, sortDesc_sorted _, ?_⟩
  intro p hp
  rw [sortDesc_mem] at hp
  obtain ⟨q, _, rfl⟩ := List.mem_map.mp hp
  rfl

/-- no candidate is below the threshold (for a threshold that is not within 1e-7 of 1) -/
theorem candidates_threshold (sd : SD) (m : Rat) (hm : ¬ C04.absR (m - 1) ≤ (1 : Rat) / 10000000) :
    ∀ s ∈ candidates sd (some m), freq sd s ≥ m := by
  intro s hs
  unfold candidates at hs
  obtain ⟨p, hp, rfl⟩ := List.mem_map.mp hs
  rw [sortDesc_mem] at hp
  obtain ⟨q, hq, rfl⟩ := List.mem_map.mp hp
  have := (List.mem_filter.mp hq).2
  simp only [Bool.or_eq_true, decide_eq_true_eq, Bool.and_eq_true] at this
  rcases this with h | ⟨h, _⟩
  · exact h
  · exact absurd h hm

/-- greedy insertion in the given order: the result is well formed over the same leaves, contains only offered splits
    (besides the clades it started with), and is maximal — every offered split is either in the tree or conflicts with
    a clade of the tree -/
theorem greedy_spec (t0 : Hier.T) (hg : Good t0) : ∀ (ss : List Nat), (∀ s ∈ ss, s ≠ 0) →
    let t := ss.foldl C01.addSplit t0
    Good t ∧ Hier.mask t = Hier.mask t0
    ∧ (∀ x ∈ clades t0, x ∈ clades t)
    ∧ (∀ x ∈ clades t, x ∈ clades t0 ∨ x ∈ ss)
    ∧ (∀ s ∈ ss, s &&& Hier.mask t0 = s → s ∈ clades t ∨ ¬ Compat s (clades t)) := by
  intro ss
  induction ss generalizing t0 with
  | nil => intro _; simp [hg]
  | cons s rest ih =>
    intro hne
    have hs0 := hne s (by simp)
    simp only [List.foldl_cons]
    -- one step
    have hstep : Good (C01.addSplit t0 s) ∧ Hier.mask (C01.addSplit t0 s) = Hier.mask t0
        ∧ (∀ x, x ∈ clades (C01.addSplit t0 s) ↔ (x ∈ clades t0 ∨ (x = s ∧ s &&& Hier.mask t0 = s ∧ Compat s (clades t0)))) := by
      unfold C01.addSplit
      by_cases hsub : s &&& Hier.mask t0 = s
      · have : (s &&& Hier.mask t0 != s) = false := by simp [hsub]
        simp only [this, Bool.false_eq_true, if_false]
        obtain ⟨h1, h2, h3⟩ := ins_step s hs0 t0 hg hsub
        refine ⟨h1, h2, fun x => ?_⟩
        rw [h3 x]; simp [hsub]
      · have : (s &&& Hier.mask t0 != s) = true := by simp [hsub]
        simp only [this, if_true]
        refine ⟨hg, by simp, fun x => by simp [hsub]⟩
    obtain ⟨hg1, hm1, hcl1⟩ := hstep
    obtain ⟨hgF, hmF, hsubF, hsupF, hmaxF⟩ := ih (C01.addSplit t0 s) hg1 (fun x hx => hne x (by simp [hx]))
    refine ⟨hgF, hmF.trans hm1, ?_, ?_, ?_⟩
    · intro x hx; exact hsubF x ((hcl1 x).mpr (Or.inl hx))
    · intro x hx
      rcases hsupF x hx with h | h
      · rcases (hcl1 x).mp h with h' | ⟨rfl, _⟩
        · exact Or.inl h'
        · exact Or.inr (by simp)
      · exact Or.inr (by simp [h])
    · intro x hx hsub
      rcases List.mem_cons.mp hx with rfl | hx
      · by_cases hc : Compat x (clades t0)
        · left; exact hsubF x ((hcl1 x).mpr (Or.inr ⟨rfl, hsub, hc⟩))
        · right
          intro hcf
          apply hc
          exact compat_sub hcf (fun y hy => hsubF y ((hcl1 y).mpr (Or.inl hy)))
      · exact hmaxF x hx (by rw [hm1]; exact hsub)

/-! ### (d) the consensus spans the star's leaves -/

/-- the consensus tree is well formed and has the leaf set of the star over the namespace: every taxon once -/
theorem consensus_spans (sd : SD) (mf : Option Rat) (all : Nat) (members : List Nat) (rooted : Bool)
    (hg : Good (starOf members)) :
    Good (consensus sd mf all members rooted) ∧ Hier.mask (consensus sd mf all members rooted) = Hier.mask (starOf members) := by
  unfold consensus C01.build
  have hne : ∀ s ∈ List.filterMap (C01.prep all rooted) (List.map Int.toNat (candidates sd mf)), s ≠ 0 := by
    intro s hs
    obtain ⟨x, _, hx⟩ := List.mem_filterMap.mp hs
    unfold C01.prep at hx
    simp only at hx
    split at hx
    · rename_i hcond
      simp only [Bool.and_eq_true, bne_iff_ne, ne_eq] at hcond
      have hm : x &&& all ≠ 0 := by
        intro h0; rw [h0] at hcond; simp at hcond
      split at hx
      · simp at hx; rw [← hx]; exact hm
      · split at hx
        · simp at hx; rw [← hx]
          intro hz
          -- sdiff all m = 0 with m ⊆ all means m = all
          apply hcond.1
          apply Hier.bits_inj
          have := Hier.bits_sdiff all (x &&& all)
          rw [hz, Hier.bits_zero] at this
          ext i
          constructor
          · intro hi; rw [Hier.bits_and] at hi; exact hi.2
          · intro hi
            by_contra hni
            have : i ∈ (∅ : Set Nat) := by rw [this]; exact ⟨hi, hni⟩
            exact this
        · simp at hx; rw [← hx]; exact hm
    · cases hx
  have := greedy_spec (starOf members) hg _ hne
  exact ⟨this.1, this.2.1⟩

/-! ### (g) maximum credibility -/

/-- the reported maximiser is the first index attaining the maximum of the reported scores -/
theorem argmaxFirst_spec (x : Rat) (xs : List Rat) :
    ∃ i, argmaxFirst (x :: xs) = some i ∧ ∃ h : i < (x :: xs).length,
      (∀ y ∈ x :: xs, y ≤ (x :: xs)[i]) ∧ ∀ j (hj : j < i), (x :: xs)[j]'(by omega) < (x :: xs)[i] := by
  unfold argmaxFirst
  rcases go_spec xs x 0 1 with ⟨hr, hall⟩ | ⟨k, hr, hk, hby, hall, hfirst⟩
  · refine ⟨0, by simp [hr], by simp, ?_, by intro j hj; omega⟩
    intro y hy
    rcases List.mem_cons.mp hy with rfl | hy
    · simp
    · simpa using hall y hy
  · refine ⟨k + 1, by simp [hr]; omega, by simp; omega, ?_, ?_⟩
    · intro y hy
      simp only [List.getElem_cons_succ]
      rcases List.mem_cons.mp hy with rfl | hy
      · exact le_of_lt hby
      · exact hall y hy
    · intro j hj
      simp only [List.getElem_cons_succ]
      cases j with
      | zero => simpa using hby
      | succ j => simpa using hfirst j (by omega)

/-! ### (f) collapsing weakly supported edges -/

/-- collapsing every flagged internal edge (each child of a collapsed node absorbing its length) keeps every
    root-to-tip distance, and the leaves in their order -/
theorem collapse_keeps_root_tip (weak : Nat → Bool) (t : T) (h : LenWF t) :
    tips 0 (collapseWeak weak t) = tips 0 t :=
  (collapse_tips weak t 0 h).1

end DendroModel.C05
