import DendroModel.Model.C05
namespace DendroModel.C05
theorem stub : True := trivial
end DendroModel.C05
