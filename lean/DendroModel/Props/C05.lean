import DendroModel.Model.C05
import DendroModel.Gen.C05Kernels
import DendroModel.Theory.C15Build
import DendroModel.Props.C01
import DendroModel.Theory.Greedy
import DendroModel.Theory.FracRat
import Mathlib.Tactic
import Mathlib.Algebra.Order.Field.Rat
import Mathlib.Algebra.BigOperators.Group.List.Basic
/-! C05 — property theorems about the summaries of `Model/C05.lean`. -/
namespace DendroModel.C05.Aux
open DendroModel DendroModel.C05

theorem countOf_addCount (d : List (Int × Rat)) (k : Int) (w : Rat) (s : Int) :
    countOf (addCount d k w) s = if s = k then some ((countOf d s).getD 0 + w) else countOf d s := by
  induction d with
  | nil =>
    by_cases h : s = k
    · subst h; simp [addCount, countOf]
    · have : ¬ k = s := fun e => h e.symm
      simp [addCount, countOf, h, this]
  | cons q rest ih =>
    simp only [addCount]
    by_cases hq : q.1 = k
    · simp only [hq, beq_self_eq_true, if_true]
      by_cases h : s = k
      · subst h; simp [countOf, hq]
      · have : ¬ k = s := fun e => h e.symm
        simp [countOf, h, hq, this]
    · have hq' : (q.1 == k) = false := by simpa using hq
      simp only [hq', Bool.false_eq_true, if_false]
      by_cases hqs : q.1 = s
      · have hsk : ¬ s = k := fun e => hq (hqs.trans e)
        simp [countOf, hqs, hsk]
      · have e1 : countOf ((q.1, q.2) :: addCount rest k w) s = countOf (addCount rest k w) s := by
          simp [countOf, hqs]
        have e2 : countOf (q :: rest) s = countOf rest s := by
          simp [countOf, hqs]
        rw [e1, e2]; exact ih

theorem countOf_fold (w : Rat) (s : Int) : ∀ (splits : List Int) (d : List (Int × Rat)),
    countOf (splits.foldl (fun d x => addCount d x w) d) s
      = if s ∈ splits then some ((countOf d s).getD 0 + w * (splits.count s : Rat)) else countOf d s := by
  intro splits
  induction splits with
  | nil => intro d; simp
  | cons x xs ih =>
    intro d
    simp only [List.foldl_cons, ih, countOf_addCount]
    by_cases hx : s = x
    · subst hx
      by_cases hm : s ∈ xs
      · simp [hm, List.count_cons_self]; ring
      · simp [hm, List.count_eq_zero_of_not_mem hm]
    · have hx' : ¬ x = s := fun e => hx e.symm
      by_cases hm : s ∈ xs
      · simp [hm, hx, hx', List.count_cons_of_ne hx']
      · simp [hm, hx, hx']

/-- weight with which a tree is counted -/
def wt (useW : Bool) (t : TreeRec) : Rat :=
  match t.weight with
  | some w => if useW then w else 1
  | none => 1

/-- total weight of the occurrences of a split -/
def wsum (useW : Bool) (ts : List TreeRec) (s : Int) : Rat :=
  (ts.map (fun t => wt useW t * (t.splits.count s : Rat))).sum

theorem countAll_gen (s : Int) : ∀ (ts : List TreeRec) (sd : SD),
    (ts.foldl countTree sd).useWeights = sd.useWeights
    ∧ (ts.foldl countTree sd).total = sd.total + ts.length
    ∧ (ts.foldl countTree sd).sumW = sd.sumW + (ts.map (wt sd.useWeights)).sum
    ∧ countOf (ts.foldl countTree sd).counts s
        = if ∃ t ∈ ts, s ∈ t.splits then some ((countOf sd.counts s).getD 0 + wsum sd.useWeights ts s)
          else countOf sd.counts s := by
  intro ts
  induction ts with
  | nil => intro sd; simp [wsum]
  | cons t rest ih =>
    intro sd
    obtain ⟨h1, h2, h3, h4⟩ := ih (countTree sd t)
    have hu : (countTree sd t).useWeights = sd.useWeights := rfl
    have hw : weightOf sd t = wt sd.useWeights t := rfl
    refine ⟨by rw [List.foldl_cons, h1, hu], ?_, ?_, ?_⟩
    · rw [List.foldl_cons, h2]; simp [countTree]; omega
    · rw [List.foldl_cons, h3, hu]; simp [countTree, hw]; ring
    · rw [List.foldl_cons, h4, hu]
      have hc : countOf (countTree sd t).counts s
          = if s ∈ t.splits then some ((countOf sd.counts s).getD 0 + wt sd.useWeights t * (t.splits.count s : Rat))
            else countOf sd.counts s := by
        simp only [countTree, hw]; exact countOf_fold _ s t.splits sd.counts
      rw [hc]
      by_cases hr : ∃ t' ∈ rest, s ∈ t'.splits
      · have hall : ∃ t' ∈ t :: rest, s ∈ t'.splits := by
          obtain ⟨t', h, h'⟩ := hr; exact ⟨t', List.mem_cons_of_mem _ h, h'⟩
        simp only [hr, hall, if_true]
        by_cases ht : s ∈ t.splits
        · simp [ht, wsum]; ring
        · simp [ht, wsum, List.count_eq_zero_of_not_mem ht]
      · by_cases ht : s ∈ t.splits
        · have hall : ∃ t' ∈ t :: rest, s ∈ t'.splits := ⟨t, by simp, ht⟩
          have hz : wsum sd.useWeights rest s = 0 := by
            unfold wsum
            apply List.sum_eq_zero
            intro x hx
            obtain ⟨t', ht', rfl⟩ := List.mem_map.mp hx
            have : s ∉ t'.splits := fun hh => hr ⟨t', ht', hh⟩
            simp [List.count_eq_zero_of_not_mem this]
          simp only [hr, hall, ht, if_true, if_false]
          have e : wsum sd.useWeights (t :: rest) s
              = wt sd.useWeights t * (t.splits.count s : Rat) + wsum sd.useWeights rest s := by simp [wsum]
          rw [e, hz]; simp
        · have hall : ¬ ∃ t' ∈ t :: rest, s ∈ t'.splits := by
            rintro ⟨t', h, h'⟩
            rcases List.mem_cons.mp h with rfl | h
            · exact ht h'
            · exact hr ⟨t', h, h'⟩
          simp [hr, hall, ht]

/-! sorting -/
theorem insertDesc_mem (x : Rat × Int) (l : List (Rat × Int)) (y : Rat × Int) :
    y ∈ insertDesc x l ↔ y = x ∨ y ∈ l := by
  induction l with
  | nil => simp [insertDesc]
  | cons z zs ih =>
    simp only [insertDesc]
    split
    · simp only [List.mem_cons, ih]; tauto
    · simp only [List.mem_cons]

theorem sortDesc_mem (l : List (Rat × Int)) (y : Rat × Int) : y ∈ sortDesc l ↔ y ∈ l := by
  induction l with
  | nil => simp [sortDesc]
  | cons x xs ih =>
    simp only [sortDesc, List.foldr_cons] at ih ⊢
    rw [insertDesc_mem, ih]; simp

/-- "not before": `a` may precede `b` in a descending list -/
def geP (a b : Rat × Int) : Prop := a.1 ≥ b.1

theorem not_gtPair (a b : Rat × Int) (h : gtPair a b = false) : geP b a := by
  unfold gtPair at h
  unfold geP
  simp only [Bool.or_eq_false_iff, decide_eq_false_iff_not, not_lt, Bool.and_eq_false_iff] at h
  exact h.1

theorem gtPair_ge (a b : Rat × Int) (h : gtPair a b = true) : geP a b := by
  unfold gtPair at h
  unfold geP
  simp only [Bool.or_eq_true, decide_eq_true_eq, Bool.and_eq_true, beq_iff_eq] at h
  rcases h with h | h
  · exact le_of_lt h
  · exact le_of_eq h.1.symm

theorem insertDesc_sorted (x : Rat × Int) : ∀ l : List (Rat × Int), l.Pairwise geP → (insertDesc x l).Pairwise geP
  | [], _ => by simp [insertDesc]
  | z :: zs, h => by
    simp only [insertDesc]
    have hz := List.pairwise_cons.mp h
    split
    · rename_i hgt
      refine List.pairwise_cons.mpr ⟨?_, insertDesc_sorted x zs hz.2⟩
      intro y hy
      rcases (insertDesc_mem x zs y).mp hy with rfl | hy
      · exact gtPair_ge _ _ hgt
      · exact hz.1 y hy
    · rename_i hgt
      have hgt' : gtPair z x = false := by simpa using hgt
      have hxz : geP x z := not_gtPair _ _ hgt'
      refine List.pairwise_cons.mpr ⟨?_, h⟩
      intro y hy
      rcases List.mem_cons.mp hy with rfl | hy
      · exact hxz
      · exact le_trans (hz.1 y hy) hxz

theorem sortDesc_sorted (l : List (Rat × Int)) : (sortDesc l).Pairwise geP := by
  induction l with
  | nil => simp [sortDesc]
  | cons x xs ih =>
    simp only [sortDesc, List.foldr_cons] at ih ⊢
    exact insertDesc_sorted x _ ih

/-! arg max -/
theorem go_spec : ∀ (l : List Rat) (best : Rat) (bi i : Nat),
    let r := argmaxFirst.go best bi i l
    (r = bi ∧ ∀ y ∈ l, y ≤ best) ∨
    (∃ k, r = i + k ∧ ∃ h : k < l.length, best < l[k] ∧ (∀ y ∈ l, y ≤ l[k]) ∧ ∀ j (hj : j < k), l[j]'(by omega) < l[k])
  | [], best, bi, i => by simp [argmaxFirst.go]
  | y :: ys, best, bi, i => by
    simp only [argmaxFirst.go]
    split
    · rename_i hlt
      rcases go_spec ys y i (i + 1) with ⟨hr, hall⟩ | ⟨k, hr, hk, hby, hall, hfirst⟩
      · right
        refine ⟨0, by simpa using hr, by simp, by simpa using hlt, ?_, by intro j hj; omega⟩
        intro z hz
        rcases List.mem_cons.mp hz with rfl | hz
        · simp
        · simpa using hall z hz
      · right
        refine ⟨k + 1, by rw [hr]; omega, by simp; omega, ?_, ?_, ?_⟩
        · simp only [List.getElem_cons_succ]; exact lt_trans hlt hby
        · intro z hz
          simp only [List.getElem_cons_succ]
          rcases List.mem_cons.mp hz with rfl | hz
          · exact le_of_lt hby
          · exact hall z hz
        · intro j hj
          simp only [List.getElem_cons_succ]
          cases j with
          | zero => simpa using hby
          | succ j => simpa using hfirst j (by omega)
    · rename_i hlt
      have hle : y ≤ best := not_lt.mp hlt
      rcases go_spec ys best bi (i + 1) with ⟨hr, hall⟩ | ⟨k, hr, hk, hby, hall, hfirst⟩
      · left
        refine ⟨hr, ?_⟩
        intro z hz
        rcases List.mem_cons.mp hz with rfl | hz
        · exact hle
        · exact hall z hz
      · right
        refine ⟨k + 1, by rw [hr]; omega, by simp; omega, ?_, ?_, ?_⟩
        · simpa using hby
        · intro z hz
          simp only [List.getElem_cons_succ]
          rcases List.mem_cons.mp hz with rfl | hz
          · exact le_trans hle (le_of_lt hby)
          · exact hall z hz
        · intro j hj
          simp only [List.getElem_cons_succ]
          cases j with
          | zero => simpa using lt_of_le_of_lt hle hby
          | succ j => simpa using hfirst j (by omega)

/-! root-to-tip distances -/
def lenR (t : T) : Rat := match t.len with | some f => Frac.toRat f | none => 0

mutual
/-- (leaf id, distance from the root) for the leaves below a node that is at distance `acc` -/
def tips (acc : Rat) : T → List (Nat × Rat)
  | .node i _ _ _ [] => [(i, acc)]
  | .node _ _ _ _ (c :: cs) => tipsL acc (c :: cs)
def tipsL (acc : Rat) : List T → List (Nat × Rat)
  | [] => []
  | c :: cs => tips (acc + lenR c) c ++ tipsL acc cs
end

mutual
/-- every stored length has a non-zero denominator (true of everything `Frac.parse` and the operations produce) -/
def LenWF : T → Prop
  | .node _ _ l _ cs => (∀ f, l = some f → Frac.WF f) ∧ LenWFL cs
def LenWFL : List T → Prop
  | [] => True
  | c :: cs => LenWF c ∧ LenWFL cs
end

theorem tips_withLen (acc : Rat) (t : T) (l : Option Frac) : tips acc (t.withLen l) = tips acc t := by
  cases t with
  | node i x l' s cs => cases cs <;> simp [T.withLen, tips]

theorem tipsL_append (acc : Rat) (a b : List T) : tipsL acc (a ++ b) = tipsL acc a ++ tipsL acc b := by
  induction a with
  | nil => simp [tipsL]
  | cons c cs ih => simp [tipsL, ih]

theorem lenR_addLen (g c : T) (hg : ∀ f, g.len = some f → Frac.WF f) (hc : ∀ f, c.len = some f → Frac.WF f) :
    lenR (g.withLen (addLen g.len c.len)) = lenR g + lenR c := by
  cases g with
  | node i x l s cs =>
    cases c with
    | node ci cx cl cs' ccs =>
      simp only [T.withLen, lenR, T.len] at *
      cases cl with
      | none => cases l <;> simp [addLen]
      | some y =>
        cases l with
        | none => simp [addLen]
        | some z =>
          simp only [addLen]
          exact Frac.toRat_add z y (hg z rfl) (hc y rfl)

theorem tipsL_push (acc : Rat) (c : T) (hc : ∀ f, c.len = some f → Frac.WF f) : ∀ (gs : List T), LenWFL gs →
    tipsL acc (gs.map (fun g => g.withLen (addLen g.len c.len))) = tipsL (acc + lenR c) gs
  | [], _ => by simp [tipsL]
  | g :: gs, h => by
    simp only [LenWFL] at h
    have hgl : ∀ f, g.len = some f → Frac.WF f := by
      cases g with
      | node i x l s cs => simp only [LenWF] at h; exact fun f hf => h.1.1 f (by simpa [T.len] using hf)
    simp only [List.map_cons, tipsL, tips_withLen, lenR_addLen g c hgl hc, tipsL_push acc c hc gs h.2]
    congr 2; ring

mutual
theorem collapse_tips (weak : Nat → Bool) : ∀ (t : T) (acc : Rat), LenWF t →
    tips acc (collapseWeak weak t) = tips acc t ∧ lenR (collapseWeak weak t) = lenR t ∧ LenWF (collapseWeak weak t)
      ∧ ((collapseWeak weak t).cs = [] ↔ t.cs = [])
  | .node i x l s [], acc, h => by simp [collapseWeak, collapseWeakL, tips, lenR, T.len, T.cs, LenWF] at *; exact h
  | .node i x l s (c :: cs), acc, h => by
    simp only [LenWF] at h
    obtain ⟨h1, h2, h3⟩ := collapseL_tips weak (c :: cs) acc h.2
    refine ⟨?_, by simp [collapseWeak, lenR, T.len], ?_, ?_⟩
    · simp only [collapseWeak]
      cases hk : collapseWeakL weak (c :: cs) with
      | nil => exact absurd hk (h3 (by simp))
      | cons d ds => simp only [tips]; rw [← hk]; exact h1
    · simp only [collapseWeak, LenWF]; exact ⟨h.1, h2⟩
    · simp only [collapseWeak, T.cs]; constructor
      · intro hh; exact absurd hh (h3 (by simp))
      · intro hh; cases hh
theorem collapseL_tips (weak : Nat → Bool) : ∀ (cs : List T) (acc : Rat), LenWFL cs →
    tipsL acc (collapseWeakL weak cs) = tipsL acc cs ∧ LenWFL (collapseWeakL weak cs)
      ∧ (cs ≠ [] → collapseWeakL weak cs ≠ [])
  | [], acc, _ => by simp [collapseWeakL, tipsL, LenWFL]
  | c :: cs, acc, h => by
    simp only [LenWFL] at h
    obtain ⟨ih1, ih2, _⟩ := collapseL_tips weak cs acc h.2
    have hc := collapse_tips weak c
    have hwf := (hc acc h.1).2.2.1
    have hlen := (hc acc h.1).2.1
    have hemp := (hc acc h.1).2.2.2
    simp only [collapseWeakL]
    split
    · rename_i hw
      simp only [Bool.and_eq_true, Bool.not_eq_true', List.isEmpty_eq_false_iff] at hw
      -- the collapsed node's children take its place and absorb its length
      have hwf' := hwf
      cases hcc : collapseWeak weak c with
      | node i x l s gs =>
        rw [hcc] at hwf' hlen hw hemp
        simp only [LenWF] at hwf'
        have hcl : ∀ f, (T.node i x l s gs).len = some f → Frac.WF f := fun f hf => hwf'.1 f (by simpa [T.len] using hf)
        have hpush := tipsL_push acc (T.node i x l s gs) hcl gs hwf'.2
        simp only [T.cs] at hpush ⊢
        refine ⟨?_, ?_, ?_⟩
        · rw [tipsL_append, hpush, ih1]
          simp only [tipsL]
          congr 1
          have ht := (hc (acc + lenR c) h.1).1
          rw [hcc] at ht
          rw [hlen, ← ht]
          cases gs with
          | nil => simp [T.cs] at hw
          | cons g gs' => simp [tips]
        · -- LenWFL of the appended list
          have hmapwf : ∀ (l' : List T), LenWFL l' → LenWFL (l'.map (fun g => g.withLen (addLen g.len (T.node i x l s gs).len))) := by
            intro l'
            induction l' with
            | nil => intro _; simp [LenWFL]
            | cons g gs' ihg =>
              intro hh
              simp only [LenWFL] at hh
              simp only [List.map_cons, LenWFL]
              refine ⟨?_, ihg hh.2⟩
              cases g with
              | node gi gx gl gs2 gcs =>
                simp only [T.withLen, LenWF, T.len] at hh ⊢
                refine ⟨?_, hh.1.2⟩
                intro f hf
                cases l with
                | none => simp [addLen] at hf; exact hh.1.1 f hf
                | some y =>
                  cases gl with
                  | none => simp [addLen] at hf; rw [← hf]; exact hwf'.1 y rfl
                  | some z => simp [addLen] at hf; rw [← hf]; exact Frac.wf_add z y
          have happ : ∀ (a b : List T), LenWFL a → LenWFL b → LenWFL (a ++ b) := by
            intro a b ha hb
            induction a with
            | nil => simpa using hb
            | cons q qs ihq => simp only [LenWFL] at ha; simp only [List.cons_append, LenWFL]; exact ⟨ha.1, ihq ha.2⟩
          exact happ _ _ (hmapwf gs hwf'.2) ih2
        · intro _
          cases gs with
          | nil => simp [T.cs] at hw
          | cons g gs' => simp
    · refine ⟨?_, ?_, by simp⟩
      · simp only [List.cons_append, List.nil_append, tipsL, hlen, (hc (acc + lenR c) h.1).1, ih1]
      · simp only [List.cons_append, List.nil_append, LenWFL]; exact ⟨hwf, ih2⟩
end

end DendroModel.C05.Aux

namespace DendroModel.C05
open DendroModel DendroModel.Hier DendroModel.C05.Aux

/-! ### (a) frequencies -/

/-- the count of a split is the total weight of its occurrences; a split that occurs in no tree has no entry -/
theorem count_spec (useW : Bool) (ts : List TreeRec) (s : Int) :
    countOf (countAll useW ts).counts s
      = if ∃ t ∈ ts, s ∈ t.splits then some (wsum useW ts s) else none := by
  have := (countAll_gen s ts { useWeights := useW }).2.2.2
  unfold countAll
  rw [this]
  simp [countOf]

/-- nothing is reported for a split that occurs in no tree -/
theorem freq_absent (useW : Bool) (ts : List TreeRec) (s : Int) (h : ∀ t ∈ ts, s ∉ t.splits) :
    freq (countAll useW ts) s = 0 := by
  unfold freq
  rw [count_spec]
  have : ¬ ∃ t ∈ ts, s ∈ t.splits := by rintro ⟨t, ht, hs⟩; exact h t ht hs
  simp [this]

/-- the frequency of a split is the total weight of its OCCURRENCES (a record that repeats a split counts it per occurrence)
    over the sum of the tree weights (over the number of trees when that sum is zero); it is the weighted fraction of the trees
    CONTAINING the split exactly when no record repeats a split — `freq_weighted_contains` -/
theorem freq_spec (useW : Bool) (ts : List TreeRec) (s : Int) (h : ∃ t ∈ ts, s ∈ t.splits) :
    freq (countAll useW ts) s
      = wsum useW ts s / (if (ts.map (wt useW)).sum = 0 then (ts.length : Rat) else (ts.map (wt useW)).sum) := by
  have hg := countAll_gen s ts { useWeights := useW }
  unfold freq
  rw [count_spec]
  simp only [h, if_true]
  have htot : (countAll useW ts).total = ts.length := by unfold countAll; rw [hg.2.1]; simp
  have hsw : (countAll useW ts).sumW = (ts.map (wt useW)).sum := by unfold countAll; rw [hg.2.2.1]; simp
  obtain ⟨t, ht, _⟩ := h
  have hne : ts.length ≠ 0 := by intro h0; rw [List.length_eq_zero_iff] at h0; subst h0; cases ht
  simp only [htot, normW, hsw]
  have : ¬ ((ts.length == 0) = true) := by simpa using hne
  simp only [this, if_false]
  by_cases hz : (ts.map (wt useW)).sum = 0
  · simp [hz]
  · simp [hz]

/-- with every tree counted once per split (no repeated split in one encoding) and unit weights, the frequency is
    the plain fraction of trees that contain the split -/
theorem freq_unweighted (ts : List TreeRec) (s : Int) (hnd : ∀ t ∈ ts, t.splits.Nodup) (h : ∃ t ∈ ts, s ∈ t.splits) :
    freq (countAll false ts) s = ((ts.filter (fun t => decide (s ∈ t.splits))).length : Rat) / (ts.length : Rat) := by
  rw [freq_spec false ts s h]
  have hw : ∀ t : TreeRec, wt false t = 1 := by intro t; unfold wt; cases t.weight <;> simp
  have hsum : ∀ l : List TreeRec, (l.map (wt false)).sum = (l.length : Rat) := by
    intro l
    induction l with
    | nil => simp
    | cons t r ih => simp [hw, ih]; ring
  have hne : (ts.length : Rat) ≠ 0 := by
    obtain ⟨t, ht, _⟩ := h
    have : ts.length ≠ 0 := by intro h0; rw [List.length_eq_zero_iff] at h0; subst h0; cases ht
    exact_mod_cast this
  rw [hsum ts]
  simp only [hne, if_false]
  congr 1
  have key : ∀ l : List TreeRec, (∀ t ∈ l, t.splits.Nodup) →
      wsum false l s = ((l.filter (fun t => decide (s ∈ t.splits))).length : Rat) := by
    intro l
    induction l with
    | nil => intro _; simp [wsum]
    | cons t rest ih =>
      intro hnd'
      have ih' := ih (fun t' ht' => hnd' t' (List.mem_cons_of_mem _ ht'))
      have hn := hnd' t (by simp)
      have e : wsum false (t :: rest) s = (t.splits.count s : Rat) + wsum false rest s := by simp [wsum, hw]
      rw [e, ih', List.filter_cons]
      by_cases hs : s ∈ t.splits
      · simp [hs, List.count_eq_one_of_mem hn hs]; ring
      · simp [hs, List.count_eq_zero_of_not_mem hs]
  exact key ts hnd

/-! ### (b) majority rule -/

/-- two splits each carried by more than half of the total (non-negative) tree weight occur together in some tree -/
theorem majority_cooccur (useW : Bool) (ts : List TreeRec) (a b : Int)
    (hnd : ∀ t ∈ ts, t.splits.Nodup) (hw : ∀ t ∈ ts, 0 ≤ wt useW t)
    (ha : (ts.map (wt useW)).sum < 2 * wsum useW ts a) (hb : (ts.map (wt useW)).sum < 2 * wsum useW ts b) :
    ∃ t ∈ ts, a ∈ t.splits ∧ b ∈ t.splits := by
  by_contra hno
  have key : ∀ l : List TreeRec, (∀ t ∈ l, t.splits.Nodup) → (∀ t ∈ l, 0 ≤ wt useW t) →
      (∀ t ∈ l, ¬ (a ∈ t.splits ∧ b ∈ t.splits)) → wsum useW l a + wsum useW l b ≤ (l.map (wt useW)).sum := by
    intro l
    induction l with
    | nil => intro _ _ _; simp [wsum]
    | cons t rest ih =>
      intro h1 h2 h3
      have ih' := ih (fun x hx => h1 x (List.mem_cons_of_mem _ hx)) (fun x hx => h2 x (List.mem_cons_of_mem _ hx))
        (fun x hx => h3 x (List.mem_cons_of_mem _ hx))
      have hn := h1 t (by simp)
      have hwt := h2 t (by simp)
      have hab := h3 t (by simp)
      unfold wsum at ih' ⊢
      simp only [List.map_cons, List.sum_cons]
      have ca : (t.splits.count a : Rat) = if a ∈ t.splits then 1 else 0 := by
        by_cases h : a ∈ t.splits
        · simp [h, List.count_eq_one_of_mem hn h]
        · simp [h, List.count_eq_zero_of_not_mem h]
      have cb : (t.splits.count b : Rat) = if b ∈ t.splits then 1 else 0 := by
        by_cases h : b ∈ t.splits
        · simp [h, List.count_eq_one_of_mem hn h]
        · simp [h, List.count_eq_zero_of_not_mem h]
      rw [ca, cb]
      by_cases h1' : a ∈ t.splits <;> by_cases h2' : b ∈ t.splits
      · exact absurd ⟨h1', h2'⟩ hab
      · simp [h1', h2']; linarith
      · simp [h1', h2']; linarith
      · simp [h1', h2']; linarith
  have := key ts hnd hw (fun t ht hab => hno ⟨t, ht, hab⟩)
  linarith

/-- hence splits above one half are pairwise nested or disjoint whenever every tree's splits are the clades of a
    well-formed tree (rooted encodings) — exactly the hypothesis under which `C01.build_spec` inserts all of them, in any order -/
theorem majority_pairwise_laminar (useW : Bool) (ts : List TreeRec) (a b : Nat)
    (hnd : ∀ t ∈ ts, t.splits.Nodup) (hw : ∀ t ∈ ts, 0 ≤ wt useW t)
    (htree : ∀ t ∈ ts, ∃ h : Hier.T, Good h ∧ ∀ x : Nat, (x : Int) ∈ t.splits → x ∈ clades h)
    (ha : (ts.map (wt useW)).sum < 2 * wsum useW ts (a : Int)) (hb : (ts.map (wt useW)).sum < 2 * wsum useW ts (b : Int)) :
    Lam a b := by
  obtain ⟨t, ht, h1, h2⟩ := majority_cooccur useW ts a b hnd hw ha hb
  obtain ⟨h, hg, hcl⟩ := htree t ht
  exact clades_laminar h hg a (hcl a h1) b (hcl b h2)

/-! ### (c) lower thresholds: greedy, maximal, in decreasing order of frequency -/

/-- candidates are sorted by decreasing frequency -/
theorem candidates_sorted (sd : SD) (mf : Option Rat) :
    ∃ l : List (Rat × Int), candidates sd mf = l.map (·.2) ∧ l.Pairwise (fun a b => a.1 ≥ b.1)
      ∧ ∀ p ∈ l, p.1 = freq sd p.2 := by
  unfold candidates
  refine ⟨_, rfl, sortDesc_sorted _, ?_⟩
  intro p hp
  rw [sortDesc_mem] at hp
  obtain ⟨q, _, rfl⟩ := List.mem_map.mp hp
  rfl

/-- no candidate is below the threshold (for a threshold that is not within 1e-7 of 1) -/
theorem candidates_threshold (sd : SD) (m : Rat) (hm : ¬ C04.absR (m - 1) ≤ (1 : Rat) / 10000000) :
    ∀ s ∈ candidates sd (some m), freq sd s ≥ m := by
  intro s hs
  unfold candidates at hs
  obtain ⟨p, hp, rfl⟩ := List.mem_map.mp hs
  rw [sortDesc_mem] at hp
  obtain ⟨q, hq, rfl⟩ := List.mem_map.mp hp
  have := (List.mem_filter.mp hq).2
  simp only [Bool.or_eq_true, decide_eq_true_eq, Bool.and_eq_true] at this
  rcases this with h | ⟨h, _⟩
  · exact h
  · exact absurd h hm

/-- greedy insertion in the given order: the result is well formed over the same leaves, contains only offered splits
    (besides the clades it started with), and is maximal — every offered split is either in the tree or conflicts with
    a clade of the tree -/
theorem greedy_spec (t0 : Hier.T) (hg : Good t0) : ∀ (ss : List Nat), (∀ s ∈ ss, s ≠ 0) →
    let t := ss.foldl C01.addSplit t0
    Good t ∧ Hier.mask t = Hier.mask t0
    ∧ (∀ x ∈ clades t0, x ∈ clades t)
    ∧ (∀ x ∈ clades t, x ∈ clades t0 ∨ x ∈ ss)
    ∧ (∀ s ∈ ss, s &&& Hier.mask t0 = s → s ∈ clades t ∨ ¬ Compat s (clades t)) := by
  intro ss
  induction ss generalizing t0 with
  | nil => intro _; simp [hg]
  | cons s rest ih =>
    intro hne
    have hs0 := hne s (by simp)
    simp only [List.foldl_cons]
    -- one step
    have hstep : Good (C01.addSplit t0 s) ∧ Hier.mask (C01.addSplit t0 s) = Hier.mask t0
        ∧ (∀ x, x ∈ clades (C01.addSplit t0 s) ↔ (x ∈ clades t0 ∨ (x = s ∧ s &&& Hier.mask t0 = s ∧ Compat s (clades t0)))) := by
      unfold C01.addSplit
      by_cases hsub : s &&& Hier.mask t0 = s
      · have : (s &&& Hier.mask t0 != s) = false := by simp [hsub]
        simp only [this, Bool.false_eq_true, if_false]
        obtain ⟨h1, h2, h3⟩ := ins_step s hs0 t0 hg hsub
        refine ⟨h1, h2, fun x => ?_⟩
        rw [h3 x]; simp [hsub]
      · have : (s &&& Hier.mask t0 != s) = true := by simp [hsub]
        simp only [this, if_true]
        refine ⟨hg, by simp, fun x => by simp [hsub]⟩
    obtain ⟨hg1, hm1, hcl1⟩ := hstep
    obtain ⟨hgF, hmF, hsubF, hsupF, hmaxF⟩ := ih (C01.addSplit t0 s) hg1 (fun x hx => hne x (by simp [hx]))
    refine ⟨hgF, hmF.trans hm1, ?_, ?_, ?_⟩
    · intro x hx; exact hsubF x ((hcl1 x).mpr (Or.inl hx))
    · intro x hx
      rcases hsupF x hx with h | h
      · rcases (hcl1 x).mp h with h' | ⟨rfl, _⟩
        · exact Or.inl h'
        · exact Or.inr (by simp)
      · exact Or.inr (by simp [h])
    · intro x hx hsub
      rcases List.mem_cons.mp hx with rfl | hx
      · by_cases hc : Compat x (clades t0)
        · left; exact hsubF x ((hcl1 x).mpr (Or.inr ⟨rfl, hsub, hc⟩))
        · right
          intro hcf
          apply hc
          exact compat_sub hcf (fun y hy => hsubF y ((hcl1 y).mpr (Or.inl hy)))
      · exact hmaxF x hx (by rw [hm1]; exact hsub)

/-! ### (d) the consensus spans the star's leaves -/

/-- the consensus tree is well formed and has the leaf set of the star over the namespace: every taxon once -/
theorem consensus_spans (sd : SD) (mf : Option Rat) (all : Nat) (members : List Nat) (rooted : Bool)
    (hg : Good (starOf members)) :
    Good (consensus sd mf all members rooted) ∧ Hier.mask (consensus sd mf all members rooted) = Hier.mask (starOf members) := by
  unfold consensus C01.build
  have hne : ∀ s ∈ List.filterMap (C01.prep all rooted) (List.map Int.toNat (candidates sd mf)), s ≠ 0 := by
    intro s hs
    obtain ⟨x, _, hx⟩ := List.mem_filterMap.mp hs
    unfold C01.prep at hx
    simp only at hx
    split at hx
    · rename_i hcond
      simp only [Bool.and_eq_true, bne_iff_ne, ne_eq] at hcond
      have hm : x &&& all ≠ 0 := by
        intro h0; rw [h0] at hcond; simp at hcond
      split at hx
      · simp at hx; rw [← hx]; exact hm
      · split at hx
        · simp at hx; rw [← hx]
          intro hz
          -- sdiff all m = 0 with m ⊆ all means m = all
          apply hcond.1
          apply Hier.bits_inj
          have := Hier.bits_sdiff all (x &&& all)
          rw [hz, Hier.bits_zero] at this
          ext i
          constructor
          · intro hi; rw [Hier.bits_and] at hi; exact hi.2
          · intro hi
            by_contra hni
            have : i ∈ (∅ : Set Nat) := by rw [this]; exact ⟨hi, hni⟩
            exact this
        · simp at hx; rw [← hx]; exact hm
    · cases hx
  have := greedy_spec (starOf members) hg _ hne
  exact ⟨this.1, this.2.1⟩

/-! ### (g) maximum credibility -/

/-- the reported maximiser is the first index attaining the maximum of the reported scores -/
theorem argmaxFirst_spec (x : Rat) (xs : List Rat) :
    ∃ i, argmaxFirst (x :: xs) = some i ∧ ∃ h : i < (x :: xs).length,
      (∀ y ∈ x :: xs, y ≤ (x :: xs)[i]) ∧ ∀ j (hj : j < i), (x :: xs)[j]'(by omega) < (x :: xs)[i] := by
  unfold argmaxFirst
  rcases go_spec xs x 0 1 with ⟨hr, hall⟩ | ⟨k, hr, hk, hby, hall, hfirst⟩
  · refine ⟨0, by simp [hr], by simp, ?_, by intro j hj; omega⟩
    intro y hy
    rcases List.mem_cons.mp hy with rfl | hy
    · simp
    · simpa using hall y hy
  · refine ⟨k + 1, by simp [hr]; omega, by simp; omega, ?_, ?_⟩
    · intro y hy
      simp only [List.getElem_cons_succ]
      rcases List.mem_cons.mp hy with rfl | hy
      · exact le_of_lt hby
      · exact hall y hy
    · intro j hj
      simp only [List.getElem_cons_succ]
      cases j with
      | zero => simpa using hby
      | succ j => simpa using hfirst j (by omega)

/-! ### (f) collapsing weakly supported edges -/

/-- collapsing every flagged internal edge (each child of a collapsed node absorbing its length) keeps every
    root-to-tip distance, and the leaves in their order -/
theorem collapse_keeps_root_tip (weak : Nat → Bool) (t : T) (h : LenWF t) :
    tips 0 (collapseWeak weak t) = tips 0 t :=
  (collapse_tips weak t 0 h).1

end DendroModel.C05

/-! ## additions after audit H: bridges to the driver-run definitions, clauses at full strength -/
namespace DendroModel.C05.Aux
open DendroModel DendroModel.Hier DendroModel.C05

/-! bit-level facts about the star tree and single-bit masks -/
theorem shift_and (i s : Nat) : (1 <<< i) &&& s = 0 ∨ (1 <<< i) &&& s = 1 <<< i := by
  by_cases h : i ∈ bits s
  · right; apply (and_eq_left_iff _ _).mpr; rw [bits_shift]
    intro j hj; rw [Set.mem_singleton_iff] at hj; subst hj; exact h
  · left; apply (and_eq_zero_iff _ _).mpr; rw [bits_shift]; simpa using h

theorem cladesL_leaves (l : List Nat) : cladesL (l.map Hier.T.leaf) = l.map (fun i => 1 <<< i) := by
  induction l with
  | nil => simp [cladesL]
  | cons a l ih => simp [cladesL, clades, ih]

theorem maskL_leaves_bits (l : List Nat) (i : Nat) : i ∈ bits (maskL (l.map Hier.T.leaf)) ↔ i ∈ l := by
  induction l with
  | nil => simp [maskL]
  | cons a l ih =>
    simp only [List.map_cons, maskL, Hier.mask, bits_or, bits_shift, Set.mem_union, Set.mem_singleton_iff, ih, List.mem_cons]

theorem mem_clades_star (members : List Nat) (x : Nat) :
    x ∈ clades (starOf members) ↔ x = Hier.mask (starOf members) ∨ ∃ i ∈ members, x = 1 <<< i := by
  unfold starOf
  split
  · simp [clades, Hier.mask]
  · simp only [clades, Hier.mask, cladesL_leaves, List.mem_cons, List.mem_map]
    constructor
    · rintro (h | ⟨i, hi, rfl⟩)
      · exact Or.inl h
      · exact Or.inr ⟨i, hi, rfl⟩
    · rintro (h | ⟨i, hi, rfl⟩)
      · exact Or.inl h
      · exact Or.inr ⟨i, hi, rfl⟩

theorem mask_star_bits (members : List Nat) (i : Nat) : i ∈ bits (Hier.mask (starOf members)) ↔ i ∈ members := by
  unfold starOf
  split
  · simp [Hier.mask]
  · simp only [Hier.mask]; exact maskL_leaves_bits _ i

/-- every split inside the star's leafset is compatible with the star -/
theorem compat_star (members : List Nat) (s : Nat) (hs : s &&& Hier.mask (starOf members) = s) :
    Compat s (clades (starOf members)) := by
  intro C hC
  rcases (mem_clades_star members C).mp hC with rfl | ⟨i, _, rfl⟩
  · right; right; rw [Nat.and_comm]; exact hs
  · rcases shift_and i s with h | h
    · exact Or.inl h
    · exact Or.inr (Or.inl h)

/-- `(x-1) &&& x = 0` on a non-zero mask: exactly one bit is set -/
theorem single_bit (x : Nat) (h0 : x ≠ 0) (h : (x - 1) &&& x = 0) : ∃ k, x = 1 <<< k := by
  have hl : Lsb.lsb x = x := by unfold Lsb.lsb; rw [Nat.and_comm, h]; simp
  obtain ⟨k, hk, _, _⟩ := C01.lsb_spec x (Nat.pos_of_ne_zero h0)
  exact ⟨k, by rw [← hl]; exact hk⟩


/-- "the frequency reaches the threshold" as `consensus_tree` tests it: `f ≥ m`, or both within 1e-7 of one
    (the tolerance only matters for thresholds within 1e-7 of 1, see `reaches_iff_ge`) -/
def reaches (m f : Rat) : Prop :=
  f ≥ m ∨ (C04.absR (m - 1) ≤ (1 : Rat) / 10000000 ∧ C04.absR (f - 1) ≤ (1 : Rat) / 10000000)

def reachesO : Option Rat → Rat → Prop
  | none, _ => True
  | some m, f => reaches m f

theorem reaches_iff_ge (m f : Rat) (hm : ¬ C04.absR (m - 1) ≤ (1 : Rat) / 10000000) : reaches m f ↔ f ≥ m := by
  unfold reaches; constructor
  · rintro (h | ⟨h, _⟩)
    · exact h
    · exact absurd h hm
  · intro h; exact Or.inl h

theorem reaches_gt_half (m f : Rat) (hm : 1 / 2 < m) (h : reaches m f) : 1 / 2 < f := by
  rcases h with h | ⟨_, h⟩
  · exact lt_of_lt_of_le hm h
  · unfold C04.absR at h
    split at h <;> linarith

theorem countOf_isSome (d : List (Int × Rat)) (k : Int) : (countOf d k).isSome ↔ ∃ c, (k, c) ∈ d := by
  unfold countOf
  rw [Option.isSome_map, List.find?_isSome]
  constructor
  · rintro ⟨p, hp, hk⟩
    have : p.1 = k := by simpa using hk
    exact ⟨p.2, by rw [← this]; exact hp⟩
  · rintro ⟨c, hc⟩; exact ⟨(k, c), hc, by simp⟩

/-- membership in the candidate list: a counted split whose frequency reaches the threshold -/
theorem mem_candidates (sd : SD) (mf : Option Rat) (s : Int) :
    s ∈ candidates sd mf ↔ (countOf sd.counts s).isSome ∧ reachesO mf (freq sd s) := by
  rw [countOf_isSome]
  unfold candidates
  simp only [List.mem_map, sortDesc_mem, List.mem_filter]
  constructor
  · rintro ⟨p, ⟨q, ⟨hq, hk⟩, rfl⟩, rfl⟩
    refine ⟨⟨q.2, hq⟩, ?_⟩
    cases mf with
    | none => trivial
    | some m =>
      simp only [Bool.or_eq_true, decide_eq_true_eq, Bool.and_eq_true] at hk
      exact hk
  · rintro ⟨⟨c, hc⟩, hr⟩
    refine ⟨(freq sd s, s), ⟨(s, c), ⟨hc, ?_⟩, rfl⟩, rfl⟩
    cases mf with
    | none => rfl
    | some m =>
      simp only [Bool.or_eq_true, decide_eq_true_eq, Bool.and_eq_true]
      exact hr

theorem counted_iff (useW : Bool) (ts : List TreeRec) (s : Int) :
    (countOf (countAll useW ts).counts s).isSome ↔ ∃ t ∈ ts, s ∈ t.splits := by
  rw [count_spec]
  by_cases h : ∃ t ∈ ts, s ∈ t.splits <;> simp [h]

theorem wsum_zero_of_sum_zero (useW : Bool) (s : Int) : ∀ ts : List TreeRec, (∀ t ∈ ts, 0 ≤ wt useW t) →
    (ts.map (wt useW)).sum = 0 → wsum useW ts s = 0 := by
  intro ts
  induction ts with
  | nil => intro _ _; simp [wsum]
  | cons t rest ih =>
    intro hw hs
    have h1 := hw t (by simp)
    have hrest : ∀ t' ∈ rest, 0 ≤ wt useW t' := fun t' h' => hw t' (List.mem_cons_of_mem _ h')
    have h2 : 0 ≤ (rest.map (wt useW)).sum := List.sum_nonneg (by
      intro x hx; obtain ⟨t', ht', rfl⟩ := List.mem_map.mp hx; exact hrest t' ht')
    simp only [List.map_cons, List.sum_cons] at hs
    have ht0 : wt useW t = 0 := by linarith
    have hr0 : (rest.map (wt useW)).sum = 0 := by linarith
    have := ih hrest hr0
    unfold wsum at this ⊢
    simp [ht0, this]

/-- a frequency above one half means more than half of the total weight (non-negative weights) -/
theorem half_of_freq (useW : Bool) (ts : List TreeRec) (s : Int) (hw : ∀ t ∈ ts, 0 ≤ wt useW t)
    (h : ∃ t ∈ ts, s ∈ t.splits) (hf : 1 / 2 < freq (countAll useW ts) s) :
    (ts.map (wt useW)).sum < 2 * wsum useW ts s := by
  rw [freq_spec useW ts s h] at hf
  by_cases hz : (ts.map (wt useW)).sum = 0
  · rw [wsum_zero_of_sum_zero useW s ts hw hz] at hf
    simp at hf
    linarith
  · simp only [hz, if_false] at hf
    have hpos : 0 < (ts.map (wt useW)).sum := by
      have : 0 ≤ (ts.map (wt useW)).sum := List.sum_nonneg (by
        intro x hx; obtain ⟨t', ht', rfl⟩ := List.mem_map.mp hx; exact hw t' ht')
      exact lt_of_le_of_ne this (Ne.symm hz)
    rw [lt_div_iff₀ hpos] at hf
    linarith



/-- what `prep` keeps of a mask inside `all` on the rooted route -/
theorem prep_rooted_of_sub (all n : Nat) (hn : n &&& all = n) :
    C01.prep all true n = if n ≠ all ∧ (n - 1) &&& n ≠ 0 then some n else none := by
  unfold C01.prep
  simp only [hn]
  by_cases h1 : n = all
  · simp [h1]
  · by_cases h2 : (n - 1) &&& n = 0
    · simp [h1, h2]
    · simp [h1, h2]

theorem prep_zero (all : Nat) (r : Bool) : C01.prep all r 0 = none := by
  unfold C01.prep; simp

end DendroModel.C05.Aux

namespace DendroModel.C05
open DendroModel DendroModel.Hier DendroModel.C05.Aux

/-- **Majority-rule consensus, all and only.**  Rooted samples: every tree record lists (without repetition) exactly the
    clades of a well-formed tree over the namespace's leaf set, weights are non-negative, the threshold is above one half.
    Then the consensus tree the driver builds (`consensus` on `countAll`, i.e. threshold filter, descending sort, greedy
    insertion into the star) is well formed, spans the star's leaf set, and its clades are exactly the star's clades (root
    and leaves) together with the splits that occur in some tree and whose frequency reaches the threshold. -/
theorem majority_consensus_reaches (useW : Bool) (ts : List TreeRec) (m : Rat) (all : Nat) (members : List Nat)
    (hm : 1 / 2 < m) (hw : ∀ t ∈ ts, 0 ≤ wt useW t) (hg : Good (starOf members)) (hall : Hier.mask (starOf members) = all)
    (hts : ∀ t ∈ ts, t.splits.Nodup ∧ ∃ h : Hier.T, Good h ∧ Hier.mask h = all ∧
              ∀ x : Nat, (x : Int) ∈ t.splits ↔ x ∈ clades h) :
    Good (consensus (countAll useW ts) (some m) all members true)
    ∧ Hier.mask (consensus (countAll useW ts) (some m) all members true) = all
    ∧ ∀ x, x ∈ clades (consensus (countAll useW ts) (some m) all members true)
        ↔ x ∈ clades (starOf members)
          ∨ (reaches m (freq (countAll useW ts) (x : Int)) ∧ ∃ t ∈ ts, (x : Int) ∈ t.splits) := by
  -- every candidate that is a natural number is a clade of an input tree, inside `all`, and carried by a majority
  have hcand : ∀ n : Nat, (n : Int) ∈ candidates (countAll useW ts) (some m) →
      (∃ t ∈ ts, (n : Int) ∈ t.splits) ∧ reaches m (freq (countAll useW ts) (n : Int)) ∧ n &&& all = n
        ∧ (ts.map (wt useW)).sum < 2 * wsum useW ts (n : Int) := by
    intro n hn
    obtain ⟨hk, hr⟩ := (mem_candidates _ _ _).mp hn
    have hex := (counted_iff useW ts _).mp hk
    have hr' : reaches m (freq (countAll useW ts) (n : Int)) := hr
    obtain ⟨t, ht, hs⟩ := hex
    obtain ⟨_, h, hgh, hmh, hcl⟩ := hts t ht
    have hsub : n &&& all = n := by
      rw [← hmh]; exact (and_eq_left_iff _ _).mpr (clades_sub h n ((hcl n).mp hs))
    exact ⟨⟨t, ht, hs⟩, hr', hsub, half_of_freq useW ts _ hw ⟨t, ht, hs⟩ (reaches_gt_half m _ hm hr')⟩
  -- the list handed to the greedy insertion
  have hss : ∀ s, s ∈ ((candidates (countAll useW ts) (some m)).map Int.toNat).filterMap (C01.prep all true) ↔
      ((s : Int) ∈ candidates (countAll useW ts) (some m) ∧ s ≠ all ∧ (s - 1) &&& s ≠ 0) := by
    intro s
    simp only [List.mem_filterMap, List.mem_map]
    constructor
    · rintro ⟨n, ⟨c, hc, rfl⟩, hp⟩
      by_cases hneg : c < 0
      · rw [Int.toNat_of_nonpos (le_of_lt hneg), prep_zero] at hp; cases hp
      · have hc' : ((c.toNat : Nat) : Int) = c := Int.toNat_of_nonneg (not_lt.mp hneg)
        have hcn : ((c.toNat : Nat) : Int) ∈ candidates (countAll useW ts) (some m) := by rw [hc']; exact hc
        obtain ⟨_, _, hsub, _⟩ := hcand c.toNat hcn
        rw [prep_rooted_of_sub all c.toNat hsub] at hp
        split at hp
        · rename_i hcond
          simp only [Option.some.injEq] at hp
          subst hp; exact ⟨hcn, hcond⟩
        · cases hp
    · rintro ⟨hc, h1, h2⟩
      obtain ⟨_, _, hsub, _⟩ := hcand s hc
      refine ⟨s, ⟨(s : Int), hc, by simp⟩, ?_⟩
      rw [prep_rooted_of_sub all s hsub]; simp [h1, h2]
  have hbuild := C01.build_spec (starOf members)
    (((candidates (countAll useW ts) (some m)).map Int.toNat).filterMap (C01.prep all true)) hg
    (by
      intro s hs
      obtain ⟨hc, _, h2⟩ := (hss s).mp hs
      obtain ⟨_, _, hsub, _⟩ := hcand s hc
      have hsub' : s &&& Hier.mask (starOf members) = s := by rw [hall]; exact hsub
      refine ⟨?_, hsub', compat_star members s hsub'⟩
      intro h0; subst h0; simp at h2)
    (by
      intro s hs b hb
      obtain ⟨hcs, _, _⟩ := (hss s).mp hs
      obtain ⟨hcb, _, _⟩ := (hss b).mp hb
      obtain ⟨_, _, _, hhs⟩ := hcand s hcs
      obtain ⟨_, _, _, hhb⟩ := hcand b hcb
      exact majority_pairwise_laminar useW ts s b (fun t ht => (hts t ht).1) hw
        (fun t ht => by
          obtain ⟨_, h, hgh, _, hcl⟩ := hts t ht
          exact ⟨h, hgh, fun x hx => (hcl x).mp hx⟩) hhs hhb)
  unfold consensus C01.build
  refine ⟨hbuild.1, hbuild.2.1.trans hall, ?_⟩
  intro x
  rw [hbuild.2.2 x, hss x]
  constructor
  · rintro (h | ⟨hc, _, _⟩)
    · exact Or.inl h
    · obtain ⟨hex, hr, _, _⟩ := hcand x hc
      exact Or.inr ⟨hr, hex⟩
  · rintro (h | ⟨hr, t, ht, hs⟩)
    · exact Or.inl h
    · have hc : (x : Int) ∈ candidates (countAll useW ts) (some m) :=
        (mem_candidates _ _ _).mpr ⟨(counted_iff useW ts _).mpr ⟨t, ht, hs⟩, hr⟩
      obtain ⟨_, h, hgh, hmh, hcl⟩ := hts t ht
      have hxc : x ∈ clades h := (hcl x).mp hs
      have hxsub : bits x ⊆ bits all := by rw [← hmh]; exact clades_sub h x hxc
      by_cases h1 : x = all
      · left; rw [h1, ← hall]; exact mask_mem_clades _
      · by_cases h2 : (x - 1) &&& x = 0
        · left
          have hx0 : x ≠ 0 := by
            by_cases hm0 : Hier.mask h = 0
            · exfalso; apply h1; rw [← hmh, hm0]
              apply bits_inj; rw [bits_zero]
              rw [← hmh, hm0, bits_zero] at hxsub
              exact Set.subset_empty_iff.mp hxsub
            · exact clades_ne_zero h hgh hm0 x hxc
          obtain ⟨k, rfl⟩ := single_bit x hx0 h2
          have hk : k ∈ bits all := hxsub (by rw [bits_shift]; rfl)
          rw [← hall, mask_star_bits] at hk
          exact (mem_clades_star members _).mpr (Or.inr ⟨k, hk, rfl⟩)
        · exact Or.inr ⟨hc, h1, h2⟩

end DendroModel.C05

namespace DendroModel.C05.Aux
open DendroModel DendroModel.Hier DendroModel.C05

/-- whatever `prep` keeps is a non-empty mask inside `all` -/
theorem prep_some (all : Nat) (rooted : Bool) (x s : Nat) (h : C01.prep all rooted x = some s) :
    s ≠ 0 ∧ s &&& all = s := by
  unfold C01.prep at h
  simp only at h
  split at h
  · rename_i hcond
    simp only [Bool.and_eq_true, bne_iff_ne, ne_eq] at hcond
    have hm : x &&& all ≠ 0 := by intro h0; rw [h0] at hcond; simp at hcond
    have hsubm : (x &&& all) &&& all = x &&& all := by rw [Nat.and_assoc, Nat.and_self]
    have hsd : sdiff all (x &&& all) ≠ 0 ∧ sdiff all (x &&& all) &&& all = sdiff all (x &&& all) := by
      constructor
      · intro hz
        apply hcond.1
        apply Hier.bits_inj
        have := Hier.bits_sdiff all (x &&& all)
        rw [hz, Hier.bits_zero] at this
        ext i
        constructor
        · intro hi; rw [Hier.bits_and] at hi; exact hi.2
        · intro hi
          by_contra hni
          have : i ∈ (∅ : Set Nat) := by rw [this]; exact ⟨hi, hni⟩
          exact this
      · apply (and_eq_left_iff _ _).mpr; rw [Hier.bits_sdiff]; exact Set.sdiff_subset
    split at h
    · simp at h; rw [← h]; exact ⟨hm, hsubm⟩
    · split at h
      · simp at h; rw [← h]; exact hsd
      · simp at h; rw [← h]; exact ⟨hm, hsubm⟩
  · cases h

/-- one greedy step -/
theorem addSplit_step (t0 : Hier.T) (hg : Good t0) (s : Nat) (hs0 : s ≠ 0) :
    Good (C01.addSplit t0 s) ∧ Hier.mask (C01.addSplit t0 s) = Hier.mask t0
      ∧ (∀ x, x ∈ clades (C01.addSplit t0 s) ↔ (x ∈ clades t0 ∨ (x = s ∧ s &&& Hier.mask t0 = s ∧ Compat s (clades t0)))) := by
  unfold C01.addSplit
  by_cases hsub : s &&& Hier.mask t0 = s
  · have : (s &&& Hier.mask t0 != s) = false := by simp [hsub]
    simp only [this, Bool.false_eq_true, if_false]
    obtain ⟨h1, h2, h3⟩ := ins_step s hs0 t0 hg hsub
    refine ⟨h1, h2, fun x => ?_⟩
    rw [h3 x]; simp [hsub]
  · have : (s &&& Hier.mask t0 != s) = true := by simp [hsub]
    simp only [this, if_true]
    refine ⟨hg, by simp, fun x => by simp [hsub]⟩

/-- greedy insertion, with the order made explicit: an offered split that did not make it into the tree is blocked by a
    clade of the final tree that was there from the start or was offered EARLIER in the list -/
theorem greedy_order (t0 : Hier.T) (hg : Good t0) (a : List Nat) (s : Nat) (b : List Nat)
    (hne : ∀ x ∈ a ++ s :: b, x ≠ 0) (hsub : s &&& Hier.mask t0 = s) :
    s ∈ clades ((a ++ s :: b).foldl C01.addSplit t0)
    ∨ ∃ C ∈ clades ((a ++ s :: b).foldl C01.addSplit t0), (C ∈ clades t0 ∨ C ∈ a)
        ∧ C &&& s ≠ 0 ∧ C &&& s ≠ C ∧ C &&& s ≠ s := by
  rw [List.foldl_append, List.foldl_cons]
  obtain ⟨hga, hma, _, hsupa, _⟩ := greedy_spec t0 hg a (fun x hx => hne x (by simp [hx]))
  have hs0 : s ≠ 0 := hne s (by simp)
  obtain ⟨hg1, hm1, hcl1⟩ := addSplit_step (a.foldl C01.addSplit t0) hga s hs0
  obtain ⟨_, _, hsubF, _, _⟩ := greedy_spec (C01.addSplit (a.foldl C01.addSplit t0) s) hg1 b
    (fun x hx => hne x (by simp [hx]))
  by_cases hc : Compat s (clades (a.foldl C01.addSplit t0))
  · left
    exact hsubF s ((hcl1 s).mpr (Or.inr ⟨rfl, by rw [hma]; exact hsub, hc⟩))
  · right
    obtain ⟨C, hC, h0, h1, h2⟩ := (not_compat_iff s _).mp hc
    exact ⟨C, hsubF C ((hcl1 C).mpr (Or.inl hC)), hsupa C hC, h0, h1, h2⟩

theorem not_conflict_star (members : List Nat) (s C : Nat) (hs : s &&& Hier.mask (starOf members) = s)
    (hC : C ∈ clades (starOf members)) : ¬ (C &&& s ≠ 0 ∧ C &&& s ≠ C ∧ C &&& s ≠ s) := by
  rintro ⟨h0, h1, h2⟩
  rcases compat_star members s hs C hC with h | h | h
  · exact h0 h
  · exact h1 h
  · exact h2 h

end DendroModel.C05.Aux

namespace DendroModel.C05
open DendroModel DendroModel.Hier DendroModel.C05.Aux

/-- the auditor's form: for a threshold above one half that is not within 1e-7 of one, "reaches" is `freq ≥ m` -/
theorem majority_consensus_exact (useW : Bool) (ts : List TreeRec) (m : Rat) (all : Nat) (members : List Nat)
    (hm : 1 / 2 < m) (hm1 : ¬ C04.absR (m - 1) ≤ (1 : Rat) / 10000000)
    (hw : ∀ t ∈ ts, 0 ≤ wt useW t) (hg : Good (starOf members)) (hall : Hier.mask (starOf members) = all)
    (hts : ∀ t ∈ ts, t.splits.Nodup ∧ ∃ h : Hier.T, Good h ∧ Hier.mask h = all ∧
              ∀ x : Nat, (x : Int) ∈ t.splits ↔ x ∈ clades h) :
    ∀ x, x ∈ clades (consensus (countAll useW ts) (some m) all members true)
        ↔ x ∈ clades (starOf members)
          ∨ (freq (countAll useW ts) (x : Int) ≥ m ∧ ∃ t ∈ ts, (x : Int) ∈ t.splits) := by
  intro x
  rw [(majority_consensus_reaches useW ts m all members hm hw hg hall hts).2.2 x, reaches_iff_ge m _ hm1]

/-- strict consensus (threshold exactly 1, which the code tests with a 1e-7 tolerance): with unit weights and fewer than
    10^7 trees the tolerance admits nothing extra — the consensus holds exactly the splits present in EVERY tree -/
theorem strict_consensus_exact (ts : List TreeRec) (all : Nat) (members : List Nat)
    (hn : ts.length < 10000000) (hg : Good (starOf members)) (hall : Hier.mask (starOf members) = all)
    (hts : ∀ t ∈ ts, t.splits.Nodup ∧ ∃ h : Hier.T, Good h ∧ Hier.mask h = all ∧
              ∀ x : Nat, (x : Int) ∈ t.splits ↔ x ∈ clades h) :
    ∀ x, x ∈ clades (consensus (countAll false ts) (some 1) all members true)
        ↔ x ∈ clades (starOf members) ∨ ((∃ t ∈ ts, (x : Int) ∈ t.splits) ∧ ∀ t ∈ ts, (x : Int) ∈ t.splits) := by
  intro x
  have hw : ∀ t ∈ ts, 0 ≤ wt false t := by intro t _; unfold wt; cases t.weight <;> simp
  rw [(majority_consensus_reaches false ts 1 all members (by norm_num) hw hg hall hts).2.2 x]
  apply or_congr Iff.rfl
  constructor
  · rintro ⟨hr, hex⟩
    refine ⟨hex, ?_⟩
    by_contra hnot
    have hex0 : ∃ t0 ∈ ts, (x : Int) ∉ t0.splits := by
      by_contra hno; apply hnot; intro t ht; by_contra hx; exact hno ⟨t, ht, hx⟩
    obtain ⟨t0, ht0, hx0⟩ := hex0
    rw [freq_unweighted ts _ (fun t ht => (hts t ht).1) hex] at hr
    have hlt : (ts.filter (fun t => decide ((x : Int) ∈ t.splits))).length < ts.length :=
      List.length_filter_lt_length_iff_exists.mpr ⟨t0, ht0, by simpa using hx0⟩
    have hpos : (0 : Rat) < (ts.length : Rat) := by
      have : 0 < ts.length := by omega
      exact_mod_cast this
    have hk : ((ts.filter (fun t => decide ((x : Int) ∈ t.splits))).length : Rat) + 1 ≤ (ts.length : Rat) := by
      exact_mod_cast hlt
    have hN : (ts.length : Rat) < 10000000 := by exact_mod_cast hn
    have hf : ((ts.filter (fun t => decide ((x : Int) ∈ t.splits))).length : Rat) / (ts.length : Rat)
        ≤ 1 - 1 / (ts.length : Rat) := by
      rw [div_le_iff₀ hpos]; field_simp; linarith
    have h1n : (1 : Rat) / 10000000 < 1 / (ts.length : Rat) := by
      apply one_div_lt_one_div_of_lt hpos hN
    rcases hr with hr | ⟨_, hr⟩
    · have : (1 : Rat) / (ts.length : Rat) > 0 := by positivity
      linarith
    · unfold C04.absR at hr
      split at hr <;> linarith
  · rintro ⟨hex, hall'⟩
    refine ⟨?_, hex⟩
    left
    rw [freq_unweighted ts _ (fun t ht => (hts t ht).1) hex]
    have : ts.filter (fun t => decide ((x : Int) ∈ t.splits)) = ts :=
      List.filter_eq_self.mpr (fun t ht => by simpa using hall' t ht)
    rw [this]
    obtain ⟨t, ht, _⟩ := hex
    have : (ts.length : Rat) ≠ 0 := by
      have : ts.length ≠ 0 := by intro h0; rw [List.length_eq_zero_iff] at h0; subst h0; cases ht
      exact_mod_cast this
    rw [div_self this]

/-- **Any threshold, either rooting: nothing below the threshold, pairwise compatible.**  Every clade of the consensus
    other than the star's own comes from a counted candidate split whose frequency reaches the threshold; and (being the
    clades of one well-formed tree) the clades are pairwise nested or disjoint. -/
theorem consensus_only_candidates (sd : SD) (mf : Option Rat) (all : Nat) (members : List Nat) (rooted : Bool)
    (hg : Good (starOf members)) :
    (∀ x ∈ clades (consensus sd mf all members rooted), x ∈ clades (starOf members)
        ∨ ∃ c ∈ candidates sd mf, C01.prep all rooted c.toNat = some x ∧ (countOf sd.counts c).isSome
            ∧ reachesO mf (freq sd c))
    ∧ ∀ x ∈ clades (consensus sd mf all members rooted), ∀ y ∈ clades (consensus sd mf all members rooted), Lam x y := by
  have hsp := consensus_spans sd mf all members rooted hg
  refine ⟨?_, C01.encoding_is_laminar _ hsp.1⟩
  intro x hx
  unfold consensus C01.build at hx
  have hne : ∀ s ∈ List.filterMap (C01.prep all rooted) (List.map Int.toNat (candidates sd mf)), s ≠ 0 := by
    intro s hs
    obtain ⟨n, _, hn⟩ := List.mem_filterMap.mp hs
    exact (prep_some all rooted n s hn).1
  rcases (greedy_spec (starOf members) hg _ hne).2.2.2.1 x hx with h | h
  · exact Or.inl h
  · right
    obtain ⟨n, hn, hp⟩ := List.mem_filterMap.mp h
    obtain ⟨c, hc, rfl⟩ := List.mem_map.mp hn
    obtain ⟨hk, hr⟩ := (mem_candidates sd mf c).mp hc
    exact ⟨c, hc, hp, hk, hr⟩

/-- **Any threshold, either rooting: maximal, in decreasing order of frequency.**  Take any candidate `c` (position given
    by `candidates = pre ++ c :: post`, so everything in `pre` is at least as frequent) that `prep` turns into the
    insertable split `s` inside the star's leaf set.  Either `s` is a clade of the consensus, or a clade `s'` of the
    consensus conflicts with it (overlaps, neither contains the other) and `s'` comes from a candidate `c'` listed BEFORE
    `c`, whose frequency is therefore at least that of `c`. -/
theorem consensus_greedy_by_frequency (sd : SD) (mf : Option Rat) (all : Nat) (members : List Nat) (rooted : Bool)
    (hg : Good (starOf members)) (hall : Hier.mask (starOf members) = all)
    (pre : List Int) (c : Int) (post : List Int) (hcs : candidates sd mf = pre ++ c :: post)
    (s : Nat) (hp : C01.prep all rooted c.toNat = some s) :
    s ∈ clades (consensus sd mf all members rooted)
    ∨ ∃ c' ∈ pre, ∃ s', C01.prep all rooted c'.toNat = some s' ∧ s' ∈ clades (consensus sd mf all members rooted)
        ∧ freq sd c' ≥ freq sd c ∧ s' &&& s ≠ 0 ∧ s' &&& s ≠ s' ∧ s' &&& s ≠ s := by
  unfold consensus C01.build
  have hsplit : List.filterMap (C01.prep all rooted) (List.map Int.toNat (candidates sd mf))
      = List.filterMap (C01.prep all rooted) (List.map Int.toNat pre) ++ s ::
          List.filterMap (C01.prep all rooted) (List.map Int.toNat post) := by
    rw [hcs, List.map_append, List.filterMap_append, List.map_cons, List.filterMap_cons, hp]
  have hne : ∀ x ∈ List.filterMap (C01.prep all rooted) (List.map Int.toNat (candidates sd mf)), x ≠ 0 := by
    intro x hx
    obtain ⟨n, _, hn⟩ := List.mem_filterMap.mp hx
    exact (prep_some all rooted n x hn).1
  have hsub : s &&& Hier.mask (starOf members) = s := by rw [hall]; exact (prep_some all rooted _ s hp).2
  rw [hsplit] at hne ⊢
  rcases greedy_order (starOf members) hg _ s _ hne hsub with h | ⟨C, hC, hfrom, hconf⟩
  · exact Or.inl h
  · right
    rcases hfrom with hstar | hpre
    · exact absurd hconf (not_conflict_star members s C hsub hstar)
    · obtain ⟨n, hn, hpn⟩ := List.mem_filterMap.mp hpre
      obtain ⟨c', hc', rfl⟩ := List.mem_map.mp hn
      refine ⟨c', hc', C, hpn, hC, ?_, hconf⟩
      obtain ⟨l, hl, hsorted, hfreq⟩ := candidates_sorted sd mf
      rw [hcs] at hl
      obtain ⟨l1, l2, rfl, h1, h2⟩ := List.map_eq_append_iff.mp hl.symm
      obtain ⟨p, l3, rfl, hpc, _⟩ := List.map_eq_cons_iff.mp h2
      rw [← h1] at hc'
      obtain ⟨q, hq, rfl⟩ := List.mem_map.mp hc'
      have hge := (List.pairwise_append.mp hsorted).2.2 q hq p (by simp)
      rw [← hpc, ← hfreq q (by simp [hq]), ← hfreq p (by simp)]
      exact hge

end DendroModel.C05

namespace DendroModel.C05.Aux
open DendroModel DendroModel.Hier DendroModel.C05

/-! rooting states seen -/
theorem rootings_fold : ∀ (ts : List TreeRec) (sd : SD), sd.rootings.Nodup →
    (ts.foldl countTree sd).rootings.Nodup
    ∧ ∀ b, b ∈ (ts.foldl countTree sd).rootings ↔ (b ∈ sd.rootings ∨ ∃ t ∈ ts, t.rooted = b) := by
  intro ts
  induction ts with
  | nil => intro sd h; simp [h]
  | cons t rest ih =>
    intro sd h
    have hstep : (countTree sd t).rootings.Nodup ∧ ∀ b, b ∈ (countTree sd t).rootings ↔ (b ∈ sd.rootings ∨ t.rooted = b) := by
      simp only [countTree]
      by_cases hc : t.rooted ∈ sd.rootings
      · simp only [List.contains_iff_mem, hc, if_true]
        refine ⟨h, fun b => ⟨Or.inl, ?_⟩⟩
        rintro (hb | rfl)
        · exact hb
        · exact hc
      · simp only [List.contains_iff_mem, hc, if_false]
        refine ⟨?_, fun b => by simp [eq_comm]⟩
        rw [List.nodup_append]
        refine ⟨h, by simp, ?_⟩
        intro a ha b hb
        simp at hb; subst hb
        intro hab; subst hab; exact hc ha
    obtain ⟨h1, h2⟩ := ih (countTree sd t) hstep.1
    rw [List.foldl_cons]
    refine ⟨h1, fun b => ?_⟩
    rw [h2 b, hstep.2 b]
    simp only [List.mem_cons, exists_eq_or_imp]
    tauto

theorem bool_list_eq_true (R : List Bool) (h : R.Nodup) : R = [true] ↔ (true ∈ R ∧ false ∉ R) := by
  match R, h with
  | [], _ => simp
  | [a], _ => cases a <;> simp
  | a :: b :: rest, h =>
    have hab : a ≠ b := by
      intro e; subst e; simp at h
    cases a <;> cases b <;> simp_all

/-! sorting ascending -/
theorem insertAsc_perm (x : Rat) (l : List Rat) : (insertAsc x l).Perm (x :: l) := by
  induction l with
  | nil => simp [insertAsc]
  | cons y ys ih =>
    simp only [insertAsc]
    split
    · exact List.Perm.refl _
    · exact (List.Perm.cons y ih).trans (List.Perm.swap x y ys)

theorem sortAsc_perm (l : List Rat) : (sortAsc l).Perm l := by
  induction l with
  | nil => simp [sortAsc]
  | cons x xs ih =>
    simp only [sortAsc, List.foldr_cons] at ih ⊢
    exact (insertAsc_perm x _).trans (List.Perm.cons x ih)

theorem insertAsc_sorted (x : Rat) : ∀ l : List Rat, l.Pairwise (· ≤ ·) → (insertAsc x l).Pairwise (· ≤ ·)
  | [], _ => by simp [insertAsc]
  | y :: ys, h => by
    simp only [insertAsc]
    have hy := List.pairwise_cons.mp h
    split
    · rename_i hxy
      refine List.pairwise_cons.mpr ⟨?_, h⟩
      intro z hz
      rcases List.mem_cons.mp hz with rfl | hz
      · exact hxy
      · exact le_trans hxy (hy.1 z hz)
    · rename_i hxy
      have hyx : y ≤ x := le_of_lt (not_le.mp hxy)
      refine List.pairwise_cons.mpr ⟨?_, insertAsc_sorted x ys hy.2⟩
      intro z hz
      rcases List.mem_cons.mp ((insertAsc_perm x ys).subset hz) with rfl | hz
      · exact hyx
      · exact hy.1 z hz

theorem sortAsc_sorted (l : List Rat) : (sortAsc l).Pairwise (· ≤ ·) := by
  induction l with
  | nil => simp [sortAsc]
  | cons x xs ih =>
    simp only [sortAsc, List.foldr_cons] at ih ⊢
    exact insertAsc_sorted x _ ih

theorem sum_sq_dev (mu : Rat) (l : List Rat) :
    (l.map (fun x => (x - mu) ^ 2)).sum = (l.map (fun v => v * v)).sum - 2 * mu * l.sum + (l.length : Rat) * mu ^ 2 := by
  induction l with
  | nil => simp
  | cons a l ih => simp only [List.map_cons, List.sum_cons, List.length_cons, ih]; push_cast; ring

theorem head_le_of_sorted : ∀ (s : List Rat), s.Pairwise (· ≤ ·) → ∀ x ∈ s, s.headD 0 ≤ x
  | [], _, x, hx => by cases hx
  | y :: ys, h, x, hx => by
    simp only [List.headD_cons]
    rcases List.mem_cons.mp hx with rfl | hx
    · exact le_refl _
    · exact (List.pairwise_cons.mp h).1 x hx

theorem le_last_of_sorted (s : List Rat) (h : s.Pairwise (· ≤ ·)) : ∀ x ∈ s, x ≤ s.getLastD 0 := by
  intro x hx
  rcases List.eq_nil_or_concat s with rfl | ⟨init, last, rfl⟩
  · cases hx
  · rw [List.concat_eq_append] at h hx ⊢
    have hl : (init ++ [last]).getLastD 0 = last := by simp
    rw [hl]
    rcases List.mem_append.mp hx with hx | hx
    · exact (List.pairwise_append.mp h).2.2 x hx last (by simp)
    · simp at hx; rw [hx]

/-! collapse: which internal edges are left -/
mutual
/-- `(id, leafset mask)` of the internal nodes among the given nodes and everything below them, in pre-order -/
def innerL : List T → List (Nat × Nat)
  | [] => []
  | c :: cs => inner1 c ++ innerL cs
def inner1 : T → List (Nat × Nat)
  | .node _ _ _ _ [] => []
  | .node i x l s (d :: ds) => (i, T.mask (.node i x l s (d :: ds))) :: innerL (d :: ds)
end

theorem innerL_append (a b : List T) : innerL (a ++ b) = innerL a ++ innerL b := by
  induction a with
  | nil => simp [innerL]
  | cons c cs ih => simp [innerL, ih]

theorem inner1_withLen (t : T) (l : Option Frac) : inner1 (t.withLen l) = inner1 t := by
  cases t with
  | node i x l' s cs => cases cs <;> simp [T.withLen, inner1, T.mask]

theorem mask_withLen (t : T) (l : Option Frac) : T.mask (t.withLen l) = T.mask t := by
  cases t with
  | node i x l' s cs => cases cs <;> simp [T.withLen, T.mask]

theorem innerL_map_withLen (f : T → Option Frac) : ∀ gs : List T, innerL (gs.map (fun g => g.withLen (f g))) = innerL gs
  | [] => by simp [innerL]
  | g :: gs => by simp only [List.map_cons, innerL, inner1_withLen, innerL_map_withLen f gs]

theorem maskL_map_withLen (f : T → Option Frac) : ∀ gs : List T, T.maskL (gs.map (fun g => g.withLen (f g))) = T.maskL gs
  | [] => by simp [T.maskL]
  | g :: gs => by simp only [List.map_cons, T.maskL, mask_withLen, maskL_map_withLen f gs]

theorem inner1_eq (t : T) : inner1 t = if t.cs = [] then [] else (t.id, T.mask t) :: innerL t.cs := by
  cases t with
  | node i x l s cs => cases cs <;> simp [inner1, T.cs, T.id]

theorem mask_eq_of_cs (t : T) (h : t.cs ≠ []) : T.mask t = T.maskL t.cs := by
  cases t with
  | node i x l s cs =>
    cases cs with
    | nil => simp [T.cs] at h
    | cons d ds => simp [T.mask, T.cs]

theorem tmaskL_append (a b : List T) : T.maskL (a ++ b) = T.maskL a ||| T.maskL b := by
  induction a with
  | nil => simp [T.maskL]
  | cons c cs ih => simp [T.maskL, ih, Nat.lor_assoc]

mutual
theorem collapse_inner (weak : Nat → Bool) : ∀ (t : T),
    (collapseWeak weak t).id = t.id ∧ T.mask (collapseWeak weak t) = T.mask t
      ∧ ((collapseWeak weak t).cs = [] ↔ t.cs = [])
      ∧ innerL (collapseWeak weak t).cs = (innerL t.cs).filter (fun p => !weak p.1)
  | .node i x l s [] => by simp [collapseWeak, collapseWeakL, T.id, T.cs, innerL]
  | .node i x l s (c :: cs) => by
    obtain ⟨h1, h2, h3⟩ := collapseL_inner weak (c :: cs)
    refine ⟨by simp [collapseWeak, T.id], ?_, ?_, by simpa [collapseWeak, T.cs] using h2⟩
    · have hne : collapseWeakL weak (c :: cs) ≠ [] := h3 (by simp)
      have e1 := mask_eq_of_cs (collapseWeak weak (.node i x l s (c :: cs))) (by simpa [collapseWeak, T.cs] using hne)
      rw [e1]; simp only [collapseWeak, T.cs]; rw [h1]; simp [T.mask]
    · simp only [collapseWeak, T.cs]
      constructor
      · intro hh; exact absurd hh (h3 (by simp))
      · intro hh; cases hh
theorem collapseL_inner (weak : Nat → Bool) : ∀ (cs : List T),
    T.maskL (collapseWeakL weak cs) = T.maskL cs
      ∧ innerL (collapseWeakL weak cs) = (innerL cs).filter (fun p => !weak p.1)
      ∧ (cs ≠ [] → collapseWeakL weak cs ≠ [])
  | [] => by simp [collapseWeakL, innerL]
  | c :: cs => by
    obtain ⟨ih1, ih2, _⟩ := collapseL_inner weak cs
    obtain ⟨hid, hmask, hemp, hinn⟩ := collapse_inner weak c
    simp only [collapseWeakL]
    split
    · rename_i hw
      simp only [Bool.and_eq_true, Bool.not_eq_true', List.isEmpty_eq_false_iff] at hw
      have hcne : c.cs ≠ [] := fun h => hw.2 (hemp.mpr h)
      refine ⟨?_, ?_, ?_⟩
      · have hc'ne : (collapseWeak weak c).cs ≠ [] := hw.2
        rw [tmaskL_append, maskL_map_withLen, ih1, ← mask_eq_of_cs _ hc'ne, hmask]
        simp [T.maskL]
      · rw [innerL_append, innerL_map_withLen, hinn, ih2]
        simp only [innerL]
        rw [inner1_eq c]
        simp only [hcne, if_false, List.filter_append, List.filter_cons]
        rw [hid] at hw
        simp [hw.1]
      · intro _ hnil
        have := List.append_eq_nil_iff.mp hnil
        exact hw.2 (List.map_eq_nil_iff.mp this.1)
    · rename_i hw
      refine ⟨?_, ?_, by simp⟩
      · simp only [List.cons_append, List.nil_append, T.maskL, hmask, ih1]
      · simp only [List.cons_append, List.nil_append, innerL, ih2, List.filter_append]
        congr 1
        rw [inner1_eq, inner1_eq c, hid, hmask, hinn]
        by_cases hc : c.cs = []
        · simp [hc, hemp.mpr hc]
        · have hc' : (collapseWeak weak c).cs ≠ [] := fun h => hc (hemp.mp h)
          have hnw : weak c.id = false := by
            rw [hid] at hw
            simp only [Bool.and_eq_true, Bool.not_eq_true', List.isEmpty_eq_false_iff, not_and] at hw
            by_contra hh
            exact hw (by simpa using hh) hc'
          simp [hc, hc', hnw]
end

end DendroModel.C05.Aux

namespace DendroModel.C05.Aux
open DendroModel DendroModel.Hier DendroModel.C05

mutual
theorem edgesPost_fst : ∀ (b : Bool) (t : T), (C04.edgesPost b t).map (·.1) = T.masksPost t
  | b, .node i x l s cs => by simp [C04.edgesPost, T.masksPost, edgesPostL_fst cs]
theorem edgesPostL_fst : ∀ cs : List T, (C04.edgesPostL cs).map (·.1) = T.masksPostL cs
  | [] => by simp [C04.edgesPostL, T.masksPostL]
  | c :: cs => by simp [C04.edgesPostL, T.masksPostL, edgesPost_fst false c, edgesPostL_fst cs]
end

mutual
theorem inner_mem_nodes : ∀ (t : T) (p : Nat × Nat), p ∈ inner1 t → ∃ nd ∈ T.nodes t, nd.cs ≠ [] ∧ p = (nd.id, T.mask nd)
  | .node i x l s [], p, h => by simp [inner1] at h
  | .node i x l s (d :: ds), p, h => by
    simp only [inner1, List.mem_cons] at h
    rcases h with rfl | h
    · exact ⟨.node i x l s (d :: ds), by simp [T.nodes], by simp [T.cs], rfl⟩
    · obtain ⟨nd, hnd, hp⟩ := innerL_mem_nodes (d :: ds) p h
      exact ⟨nd, by simp only [T.nodes, List.mem_cons]; exact Or.inr hnd, hp⟩
theorem innerL_mem_nodes : ∀ (cs : List T) (p : Nat × Nat), p ∈ innerL cs → ∃ nd ∈ T.nodesL cs, nd.cs ≠ [] ∧ p = (nd.id, T.mask nd)
  | [], p, h => by simp [innerL] at h
  | c :: cs, p, h => by
    simp only [innerL, List.mem_append] at h
    rcases h with h | h
    · obtain ⟨nd, hnd, hp⟩ := inner_mem_nodes c p h
      exact ⟨nd, by simp only [T.nodesL, List.mem_append]; exact Or.inl hnd, hp⟩
    · obtain ⟨nd, hnd, hp⟩ := innerL_mem_nodes cs p h
      exact ⟨nd, by simp only [T.nodesL, List.mem_append]; exact Or.inr hnd, hp⟩
end

end DendroModel.C05.Aux

namespace DendroModel.C05
open DendroModel DendroModel.Hier DendroModel.C05.Aux

/-- **Rooting state of the consensus.**  The flag handed to `from_split_bitmasks` (and printed by the driver) is "rooted"
    exactly when at least one tree was counted and every counted tree is rooted. -/
theorem consensus_rooting_spec (useW : Bool) (ts : List TreeRec) :
    consensusRooted (countAll useW ts) = true ↔ (ts ≠ [] ∧ ∀ t ∈ ts, t.rooted = true) := by
  obtain ⟨hnd, hmem⟩ := rootings_fold ts { useWeights := useW } (by simp)
  unfold consensusRooted countAll
  rw [beq_iff_eq, bool_list_eq_true _ hnd, hmem true, hmem false]
  simp only [List.not_mem_nil, false_or, not_exists, not_and]
  constructor
  · rintro ⟨⟨t, ht, _⟩, hall⟩
    refine ⟨(by intro h; subst h; cases ht), fun t' ht' => ?_⟩
    cases hr : t'.rooted
    · exact absurd hr (hall t' ht')
    · rfl
  · rintro ⟨hne, hall⟩
    refine ⟨?_, fun t ht hf => by rw [hall t ht] at hf; cases hf⟩
    cases ts with
    | nil => exact absurd rfl hne
    | cons t rest => exact ⟨t, by simp, hall t (by simp)⟩

/-- **Bridge: the record the driver builds from a rooted input tree.**  Its splits are the leafset masks of the tree after
    unifurcation suppression, in post-order; so for a well-formed tree they are exactly the clades of a well-formed
    hierarchy with the tree's leaf set — the `hts` hypothesis of the consensus theorems (all but `Nodup`, which holds
    when no two nodes of the suppressed tree have the same leaf set and is NOT derived here). -/
theorem treeRecOf_rooted_clades (w : Option Rat) (t : T) :
    (treeRecOf (some true) w t).rooted = true
    ∧ (treeRecOf (some true) w t).weight = w
    ∧ (treeRecOf (some true) w t).leafset = T.mask t.sup
    ∧ (treeRecOf (some true) w t).splits = (T.masksPost t.sup).map (fun (m : Nat) => (m : Int))
    ∧ (Good (T.toH t) → Good (Hier.sup (T.toH t)) ∧ Hier.mask (Hier.sup (T.toH t)) = T.mask t
        ∧ ∀ x : Nat, (x : Int) ∈ (treeRecOf (some true) w t).splits ↔ x ∈ clades (Hier.sup (T.toH t))) := by
  have he : C01.encodeTree (some true) true true t = t.sup := by simp [C01.encodeTree]
  have hs : (treeRecOf (some true) w t).splits = (T.masksPost t.sup).map (fun (m : Nat) => (m : Int)) := by
    show ((C04.edgeRecs (some true) t).map (·.split)) = _
    unfold C04.edgeRecs
    simp only [he, List.map_map]
    rw [← edgesPost_fst true t.sup, List.map_map]
    apply List.map_congr_left
    intro e _
    simp [C01.splitOf]
  refine ⟨rfl, rfl, (by show T.mask (C01.encodeTree (some true) true true t) = _; rw [he]), hs, ?_⟩
  intro hg
  refine ⟨Hier.sup_good _ hg, by rw [Hier.sup_mask, C01.Aux.toH_mask], ?_⟩
  intro x
  rw [hs, ← C01.Aux.sup_toH, C01.Aux.toH_clades]
  simp

/-- **Collapse removes exactly the weak internal edges** (hypotheses not derived here: the call answers, i.e. no leaf edge is
    flagged; and, for the last conjunct, distinct node ids — true of `parseTree` output by construction but not proved).  When `collapseBelow` answers (no leaf edge is flagged), the
    internal non-root nodes of the result are — same ids, same leaf sets, same order — those internal non-root nodes of the
    encoded target that are not flagged; every root-to-tip distance is kept (given well-formed lengths); and with distinct
    node ids "flagged" means precisely that the node's split frequency is below the threshold. -/
theorem collapse_removes_exactly (sd : SD) (mf : Rat) (r : Option Bool) (t t' : T)
    (h : collapseBelow sd mf r t = some t') :
    let t2 := C01.encodeTree r true true t
    T.mask t' = T.mask t2
    ∧ innerL t'.cs = (innerL t2.cs).filter (fun p => !(weakIdsOf sd mf r t2).contains p.1)
    ∧ (LenWF t2 → tips 0 t' = tips 0 t2)
    ∧ ((t2.nodes.map T.id).Nodup → ∀ p, p ∈ innerL t'.cs ↔
          (p ∈ innerL t2.cs ∧ freq sd (C01.splitOf (r == some true) (T.mask t2) p.2) ≥ mf)) := by
  intro t2
  unfold collapseBelow at h
  simp only at h
  split at h
  · cases h
  · simp only [Option.some.injEq] at h
    subst h
    obtain ⟨_, hmask, _, hinn⟩ := collapse_inner (fun i => (weakIdsOf sd mf r t2).contains i) t2
    refine ⟨hmask, hinn, fun hwf => collapse_keeps_root_tip _ t2 hwf, ?_⟩
    intro hnd p
    show p ∈ innerL (collapseWeak (fun i => (weakIdsOf sd mf r t2).contains i) t2).cs ↔ _
    rw [hinn, List.mem_filter]
    apply and_congr_right
    intro hp
    obtain ⟨nd, hndm, _, rfl⟩ := innerL_mem_nodes t2.cs p hp
    have hndm' : nd ∈ T.nodes t2 := by
      cases ht2 : t2 with
      | node i x l s cs => rw [ht2] at hndm; simp only [T.cs] at hndm; simp only [T.nodes, List.mem_cons]; exact Or.inr hndm
    simp only [Bool.not_eq_true', ge_iff_le]
    rw [← not_lt, ← Bool.not_eq_true, List.contains_iff_mem]
    apply not_congr
    unfold weakIdsOf
    simp only [List.mem_map, List.mem_filter, decide_eq_true_eq]
    constructor
    · rintro ⟨nd', ⟨hnd', hlt⟩, hid⟩
      have : nd' = nd := List.inj_on_of_nodup_map hnd hnd' hndm' hid
      rw [this] at hlt; exact hlt
    · intro hlt; exact ⟨nd, ⟨hndm', hlt⟩, rfl⟩

/-- **Summaries of one split's values** (which list that is: `lengths_spec`).  The `.n` conjunct is definitional and the median
    conjunct re-reads the definition on the sorted witness; the content is that the witness is an ascending permutation, the
    bounds, the mean and the variance.  For a non-empty value list: `mean · n = Σ`; minimum, maximum and median are read
    off an ascending permutation of the values (so `lo ≤ x ≤ hi` for every value and both are values); and for `n ≥ 2` the
    reported variance is the sample variance `Σ (x − mean)² / (n − 1)`. -/
theorem stats_spec (l : List Rat) (hl : l ≠ []) :
    (stats l).n = l.length
    ∧ (stats l).mean * (l.length : Rat) = l.sum
    ∧ (∃ s : List Rat, s.Perm l ∧ s.Pairwise (· ≤ ·) ∧ (stats l).lo = s.headD 0 ∧ (stats l).hi = s.getLastD 0
        ∧ (stats l).median = if s.length % 2 = 1 then s.getD ((s.length - 1) / 2) 0
                              else (s.getD (s.length / 2 - 1) 0 + s.getD (s.length / 2) 0) / 2)
    ∧ (∀ x ∈ l, (stats l).lo ≤ x ∧ x ≤ (stats l).hi)
    ∧ (2 ≤ l.length → ∃ v, (stats l).var = some v
          ∧ v * ((l.length : Rat) - 1) = (l.map (fun x => (x - (stats l).mean) ^ 2)).sum) := by
  have hn : (l.length : Rat) ≠ 0 := by
    have : l.length ≠ 0 := by intro h; exact hl (List.length_eq_zero_iff.mp h)
    exact_mod_cast this
  refine ⟨rfl, ?_, ⟨sortAsc l, sortAsc_perm l, sortAsc_sorted l, rfl, rfl, ?_⟩, ?_, ?_⟩
  · simp only [stats, mean]; field_simp
  · simp only [stats, median, beq_iff_eq]
  · intro x hx
    have hx' : x ∈ sortAsc l := (sortAsc_perm l).symm.subset hx
    exact ⟨head_le_of_sorted _ (sortAsc_sorted l) x hx', le_last_of_sorted _ (sortAsc_sorted l) x hx'⟩
  · intro h2
    refine ⟨sampleVar l, by simp [stats, h2], ?_⟩
    have hn1 : (l.length : Rat) - 1 ≠ 0 := by
      have : (2 : Rat) ≤ (l.length : Rat) := by exact_mod_cast h2
      linarith
    rw [sum_sq_dev]
    simp only [stats, mean, sampleVar]
    field_simp
    ring

end DendroModel.C05

namespace DendroModel.C05.Aux
open DendroModel DendroModel.Hier DendroModel.C05
/-! non-vacuity: concrete data meeting the hypotheses of the theorems above -/
/-- the record of the rooted tree (0,(1,2)) -/
def exRec : TreeRec := { rooted := true, weight := none, splits := [1, 2, 4, 6, 7], lens := [], leafset := 7 }
def exH : Hier.T := .node [.leaf 0, .node [.leaf 1, .leaf 2]]
def exT : T := .node 0 none none none [.node 1 (some 0) none none [], .node 2 none none none
    [.node 3 (some 1) none none [], .node 4 (some 2) none none []]]
theorem exRec_hts : exRec.splits.Nodup ∧ ∃ h : Hier.T, Good h ∧ Hier.mask h = 7 ∧
    ∀ x : Nat, (x : Int) ∈ exRec.splits ↔ x ∈ clades h := by
  refine ⟨by decide, exH, by simp [exH, Good, GoodL, Hier.mask, Hier.maskL], by simp [exH, Hier.mask, Hier.maskL], ?_⟩
  intro x
  simp [exRec, exH, clades, cladesL, Hier.maskL, Hier.mask]
  omega
theorem exStar : Good (starOf [0, 1, 2]) ∧ Hier.mask (starOf [0, 1, 2]) = 7 := by
  simp [starOf, Good, GoodL, Hier.mask, Hier.maskL]
end DendroModel.C05.Aux

namespace DendroModel.C05
open DendroModel DendroModel.Hier DendroModel.C05.Aux
/-- hypotheses of `majority_consensus_reaches` / `majority_consensus_exact` (threshold 3/4) / `strict_consensus_exact` -/
example : (1 : Rat) / 2 < 3 / 4 ∧ ¬ C04.absR ((3 : Rat) / 4 - 1) ≤ (1 : Rat) / 10000000
    ∧ (∀ t ∈ [exRec, exRec], 0 ≤ wt true t) ∧ [exRec, exRec].length < 10000000
    ∧ Good (starOf [0, 1, 2]) ∧ Hier.mask (starOf [0, 1, 2]) = 7
    ∧ ∀ t ∈ [exRec, exRec], t.splits.Nodup ∧ ∃ h : Hier.T, Good h ∧ Hier.mask h = 7 ∧
        ∀ x : Nat, (x : Int) ∈ t.splits ↔ x ∈ clades h := by
  refine ⟨by norm_num, by norm_num [C04.absR], ?_, by simp, exStar.1, exStar.2, ?_⟩
  · intro t ht; simp at ht; subst ht; simp [wt, exRec]
  · intro t ht; simp at ht; subst ht; exact exRec_hts
/-- … and the theorem applied: the clade {1,2} (mask 6) is in the strict consensus of two copies of (0,(1,2)) -/
example : 6 ∈ clades (consensus (countAll false [exRec, exRec]) (some 1) 7 [0, 1, 2] true) := by
  refine (strict_consensus_exact [exRec, exRec] 7 [0, 1, 2] (by simp) exStar.1 exStar.2 ?_ 6).mpr (Or.inr ?_)
  · intro t ht; simp at ht; subst ht; exact exRec_hts
  · simp [exRec]
/-- hypotheses of `consensus_only_candidates` / `consensus_greedy_by_frequency` -/
example : Good (starOf [0, 1, 2]) ∧ Hier.mask (starOf [0, 1, 2]) = 7
    ∧ candidates { useWeights := false, total := 1, sumW := 1, counts := [(6, 1)] } none = [] ++ 6 :: []
    ∧ C01.prep 7 true (6 : Int).toNat = some 6 := by
  refine ⟨exStar.1, exStar.2, by simp [candidates, sortDesc, insertDesc], by decide⟩
/-- `consensus_rooting_spec` applied -/
example : consensusRooted (countAll false [exRec]) = true :=
  (consensus_rooting_spec false [exRec]).mpr ⟨by simp, by simp [exRec]⟩
/-- hypothesis of `treeRecOf_rooted_clades` -/
example : Good (T.toH exT) := by simp [exT, T.toH, T.toHL, Good, GoodL, Hier.mask, Hier.maskL]
/-- hypothesis of `collapse_removes_exactly`: with threshold 0 nothing is weak and the call answers -/
example : ∃ t', collapseBelow { useWeights := false } 0 (some true) exT = some t' := by
  simp [collapseBelow, weakIdsOf, freq, countOf, exT, C01.encodeTree, T.sup, T.supL, T.nodes, T.nodesL, anyWeakLeaf, anyWeakLeafL]
/-- hypotheses of `stats_spec` -/
example : ([1, 2, 4] : List Rat) ≠ [] ∧ 2 ≤ ([1, 2, 4] : List Rat).length := by simp
end DendroModel.C05

namespace DendroModel.C05.Aux
open DendroModel DendroModel.Hier DendroModel.C05

mutual
theorem clades_nodup : ∀ t : Hier.T, Good t → NoUnif t → (clades t).Nodup
  | .leaf i, _, _ => by simp [clades]
  | .node cs, hg, hn => by
    simp only [Good] at hg
    simp only [NoUnif] at hn
    simp only [clades, List.nodup_cons]
    refine ⟨?_, cladesL_nodup cs hg hn.2⟩
    intro hmem
    obtain ⟨c, hc, hx⟩ := (mem_cladesL _ _).mp hmem
    have h1 : bits (maskL cs) ⊆ bits (Hier.mask c) := clades_sub c _ hx
    have h2 : bits (Hier.mask c) ⊆ bits (maskL cs) := bits_maskL_subset_of_mem hc
    exact mask_proper hg hn.1 hc (bits_inj (Set.Subset.antisymm h2 h1))
theorem cladesL_nodup : ∀ cs : List Hier.T, GoodL cs → NoUnifL cs → (cladesL cs).Nodup
  | [], _, _ => by simp [cladesL]
  | c :: cs, hg, hn => by
    simp only [GoodL] at hg
    simp only [NoUnifL] at hn
    simp only [cladesL]
    rw [List.nodup_append]
    refine ⟨clades_nodup c hg.1 hn.1, cladesL_nodup cs hg.2.2.2 hn.2, ?_⟩
    intro x hx y hy hxy
    subst hxy
    have hd := (and_eq_zero_iff _ _).mp hg.2.2.1
    have hx0 : x ≠ 0 := cladesL_ne_zero cs hg.2.2.2 x hy
    obtain ⟨i, hi⟩ := ne_zero_bits hx0
    exact (Set.disjoint_left.mp hd) (clades_sub c x hx hi) (cladesL_sub cs x hy hi)
end

mutual
theorem masksPost_perm : ∀ t : T, (T.masksPost t).Perm (clades (T.toH t))
  | .node i x l s [] => by
    cases x <;> simp [T.masksPost, T.masksPostL, T.toH, clades, cladesL, T.mask, Hier.maskL]
  | .node i x l s (c :: cs) => by
    simp only [T.masksPost, T.toH, clades]
    have ih := masksPostL_perm (c :: cs)
    have hm : T.mask (.node i x l s (c :: cs)) = Hier.maskL (T.toHL (c :: cs)) := by
      rw [C01.Aux.toHL_mask]; simp [T.mask]
    rw [hm]
    exact (List.perm_append_comm).trans (List.Perm.cons _ ih)
theorem masksPostL_perm : ∀ cs : List T, (T.masksPostL cs).Perm (cladesL (T.toHL cs))
  | [] => by simp [T.masksPostL, T.toHL, cladesL]
  | c :: cs => by
    simp only [T.masksPostL, T.toHL, cladesL]
    exact List.Perm.append (masksPost_perm c) (masksPostL_perm cs)
end

end DendroModel.C05.Aux

namespace DendroModel.C05
open DendroModel DendroModel.Hier DendroModel.C05.Aux

/-- **Bridge, continued: no repeated split.**  The record the driver builds from a well-formed rooted tree with a non-empty
    leaf set lists every split once (unifurcations are suppressed by the encoding, so no two nodes share a leaf set).
    Together with `treeRecOf_rooted_clades` this discharges the whole `hts` hypothesis of the consensus theorems. -/
theorem treeRecOf_rooted_nodup (w : Option Rat) (t : T) (hg : Good (T.toH t)) (h0 : T.mask t ≠ 0) :
    (treeRecOf (some true) w t).splits.Nodup := by
  rw [(treeRecOf_rooted_clades w t).2.2.2.1]
  apply List.Nodup.map Nat.cast_injective
  apply (masksPost_perm t.sup).nodup_iff.mpr
  rw [C01.Aux.sup_toH]
  have h0' : Hier.mask (T.toH t) ≠ 0 := by rw [C01.Aux.toH_mask]; exact h0
  exact clades_nodup _ (Hier.sup_good _ hg) (Hier.sup_noUnif _ hg h0')

/-- the driver's records of well-formed rooted trees over the namespace's leaf set meet the hypothesis of
    `majority_consensus_reaches` / `_exact` / `strict_consensus_exact` -/
theorem treeRecOf_rooted_hts (all : Nat) (ws : List (Option Rat × T))
    (h : ∀ p ∈ ws, Good (T.toH p.2) ∧ T.mask p.2 = all) (hall : all ≠ 0) :
    ∀ r ∈ ws.map (fun p => treeRecOf (some true) p.1 p.2), r.splits.Nodup ∧ ∃ h : Hier.T, Good h ∧ Hier.mask h = all ∧
        ∀ x : Nat, (x : Int) ∈ r.splits ↔ x ∈ clades h := by
  intro r hr
  obtain ⟨p, hp, rfl⟩ := List.mem_map.mp hr
  obtain ⟨hg, hm⟩ := h p hp
  obtain ⟨hg', hm', hcl⟩ := (treeRecOf_rooted_clades p.1 p.2).2.2.2.2 hg
  exact ⟨treeRecOf_rooted_nodup p.1 p.2 hg (by rw [hm]; exact hall), _, hg', hm'.trans hm, hcl⟩

example : Good (T.toH exT) ∧ T.mask exT ≠ 0 := by
  simp [exT, T.toH, T.toHL, Good, GoodL, Hier.mask, Hier.maskL, T.mask, T.maskL]

end DendroModel.C05

/-! ## extension round: not-rooted majority rule, caches, credibility scores, well-formed lengths -/
namespace DendroModel.C05.Aux
open DendroModel DendroModel.Hier DendroModel.C05

/-- bits of a normalised mask, `lo` a single bit `k` -/
theorem bits_norm_in (L k m : Nat) (hk : k ∈ bits m) : bits (Hier.norm L (1 <<< k) m) = bits L \ bits m := by
  unfold Hier.norm
  have : m &&& (1 <<< k) ≠ 0 := by
    intro hz
    have hd := (and_eq_zero_iff _ _).mp hz
    rw [bits_shift] at hd
    exact (Set.disjoint_left.mp hd) hk rfl
  rw [if_pos this, bits_sdiff]

theorem bits_norm_out (L k m : Nat) (hk : k ∉ bits m) : bits (Hier.norm L (1 <<< k) m) = bits m ∩ bits L := by
  unfold Hier.norm
  have : ¬ (m &&& (1 <<< k) ≠ 0) := by
    intro h; exact hk (mem_bits_of_and_shift_ne_zero h)
  rw [if_neg this, bits_and]

theorem norm_avoids (L k m : Nat) : k ∉ bits (Hier.norm L (1 <<< k) m) := by
  by_cases hk : k ∈ bits m
  · rw [bits_norm_in L k m hk]; exact fun h => h.2 hk
  · rw [bits_norm_out L k m hk]; exact fun h => hk h.1

theorem norm_sub (L k m : Nat) : bits (Hier.norm L (1 <<< k) m) ⊆ bits L := by
  by_cases hk : k ∈ bits m
  · rw [bits_norm_in L k m hk]; exact Set.sdiff_subset
  · rw [bits_norm_out L k m hk]; exact Set.inter_subset_right

theorem lam_sets {a b : Nat} (h : Lam a b) : Disjoint (bits b) (bits a) ∨ bits b ⊆ bits a ∨ bits a ⊆ bits b := by
  rcases h with h | h | h
  · exact Or.inl ((and_eq_zero_iff b a).mp h)
  · exact Or.inr (Or.inl ((and_eq_left_iff b a).mp h))
  · right; right; rw [Nat.and_comm] at h; exact (and_eq_left_iff a b).mp h

/-- normalising two laminar subsets of `L` on the same bit keeps them laminar -/
theorem norm_lam (L k a b : Nat) (ha : bits a ⊆ bits L) (hb : bits b ⊆ bits L) (h : Lam a b) :
    Lam (Hier.norm L (1 <<< k) a) (Hier.norm L (1 <<< k) b) := by
  have hs := lam_sets h
  by_cases hka : k ∈ bits a <;> by_cases hkb : k ∈ bits b
  · -- both complemented
    rcases hs with hd | hsub | hsub
    · exact absurd hka (fun hh => (Set.disjoint_left.mp hd) hkb hh)
    · apply lam_of_sub'
      rw [bits_norm_in L k a hka, bits_norm_in L k b hkb]
      exact Set.sdiff_subset_sdiff_right hsub
    · apply lam_of_sub
      rw [bits_norm_in L k a hka, bits_norm_in L k b hkb]
      exact Set.sdiff_subset_sdiff_right hsub
  · rcases hs with hd | hsub | hsub
    · apply lam_of_sub
      rw [bits_norm_in L k a hka, bits_norm_out L k b hkb]
      intro x hx; exact ⟨hx.2, fun hxa => (Set.disjoint_left.mp hd) hx.1 hxa⟩
    · apply lam_of_disj
      rw [bits_norm_in L k a hka, bits_norm_out L k b hkb, Set.disjoint_left]
      intro x hx hx'; exact hx'.2 (hsub hx.1)
    · exact absurd (hsub hka) hkb
  · rcases hs with hd | hsub | hsub
    · apply lam_of_sub'
      rw [bits_norm_out L k a hka, bits_norm_in L k b hkb]
      intro x hx; exact ⟨hx.2, fun hxb => (Set.disjoint_left.mp hd) hxb hx.1⟩
    · exact absurd (hsub hkb) hka
    · apply lam_of_disj
      rw [bits_norm_out L k a hka, bits_norm_in L k b hkb, Set.disjoint_left]
      intro x hx hx'; exact hx.2 (hsub hx'.1)
  · have ea : Hier.norm L (1 <<< k) a = a := by
      apply bits_inj; rw [bits_norm_out L k a hka]; exact Set.inter_eq_left.mpr ha
    have eb : Hier.norm L (1 <<< k) b = b := by
      apply bits_inj; rw [bits_norm_out L k b hkb]; exact Set.inter_eq_left.mpr hb
    rw [ea, eb]; exact h

theorem one_and_eq_zero (x : Nat) (h : 0 ∉ bits x) : 1 &&& x = 0 := by
  have := and_shift_eq_zero_of_not_mem h
  rw [Nat.and_comm] at this
  simpa using this

/-- what `prep` keeps, on the not-rooted route, of a mask inside `all` that avoids bit 0 -/
theorem prep_unrooted_of_sub (all n : Nat) (hn : n &&& all = n) (h0 : 0 ∉ bits n) :
    C01.prep all false n = if n ≠ all ∧ (n - 1) &&& n ≠ 0 then some n else none := by
  unfold C01.prep
  simp only [hn, one_and_eq_zero n h0]
  by_cases h1 : n = all
  · simp [h1]
  · by_cases h2 : (n - 1) &&& n = 0
    · simp [h1, h2]
    · simp [h1, h2]

end DendroModel.C05.Aux

namespace DendroModel.C05
open DendroModel DendroModel.Hier DendroModel.C05.Aux

/-- **Majority-rule consensus of NOT-rooted samples, all and only.**  `k` is the lowest taxon bit of the namespace's leaf set
    `all`; every record lists (without repetition) exactly the clades of a well-formed tree over `all`, normalised on bit `k`
    (a clade containing `k` is replaced by its complement — what `encode_bipartitions` stores for a tree that is not rooted).
    For a threshold above one half and non-negative weights the consensus the driver builds on the not-rooted route
    (`prep` with its complement handling on bit 0, greedy insertion into the star) is well formed, spans `all`, and its clades
    are exactly the star's clades together with the non-empty splits that occur in some tree and whose frequency reaches the
    threshold (the empty split is the normalised root edge, present in every tree and never inserted). -/
theorem majority_consensus_unrooted_reaches (useW : Bool) (ts : List TreeRec) (m : Rat) (all k : Nat) (members : List Nat)
    (hm : 1 / 2 < m) (hw : ∀ t ∈ ts, 0 ≤ wt useW t) (hg : Good (starOf members)) (hall : Hier.mask (starOf members) = all)
    (hk : k ∈ bits all) (hlow : ∀ j, j < k → j ∉ bits all)
    (hts : ∀ t ∈ ts, t.splits.Nodup ∧ ∃ h : Hier.T, Good h ∧ Hier.mask h = all ∧
              ∀ x : Nat, (x : Int) ∈ t.splits ↔ ∃ c ∈ clades h, x = Hier.norm all (1 <<< k) c) :
    Good (consensus (countAll useW ts) (some m) all members false)
    ∧ Hier.mask (consensus (countAll useW ts) (some m) all members false) = all
    ∧ ∀ x, x ∈ clades (consensus (countAll useW ts) (some m) all members false)
        ↔ x ∈ clades (starOf members)
          ∨ (x ≠ 0 ∧ reaches m (freq (countAll useW ts) (x : Int)) ∧ ∃ t ∈ ts, (x : Int) ∈ t.splits) := by
  -- a normalised split lies inside `all`, avoids bit k and bit 0
  have hnorm : ∀ t ∈ ts, ∀ n : Nat, (n : Int) ∈ t.splits → n &&& all = n ∧ k ∉ bits n ∧ 0 ∉ bits n ∧ n ≠ all := by
    intro t ht n hs
    obtain ⟨_, h, _, _, hcl⟩ := hts t ht
    obtain ⟨c, _, rfl⟩ := (hcl n).mp hs
    have hsub := norm_sub all k c
    have hav := norm_avoids all k c
    refine ⟨(and_eq_left_iff _ _).mpr hsub, hav, ?_, ?_⟩
    · by_cases hk0 : k = 0
      · subst hk0; exact hav
      · exact fun h0 => hlow 0 (Nat.pos_of_ne_zero hk0) (hsub h0)
    · intro he; rw [he] at hav; exact hav hk
  have hcand : ∀ n : Nat, (n : Int) ∈ candidates (countAll useW ts) (some m) →
      (∃ t ∈ ts, (n : Int) ∈ t.splits) ∧ reaches m (freq (countAll useW ts) (n : Int)) ∧ n &&& all = n
        ∧ 0 ∉ bits n ∧ n ≠ all ∧ (ts.map (wt useW)).sum < 2 * wsum useW ts (n : Int) := by
    intro n hn
    obtain ⟨hkk, hr⟩ := (mem_candidates _ _ _).mp hn
    obtain ⟨t, ht, hs⟩ := (counted_iff useW ts _).mp hkk
    have hr' : reaches m (freq (countAll useW ts) (n : Int)) := hr
    obtain ⟨h1, _, h3, h4⟩ := hnorm t ht n hs
    exact ⟨⟨t, ht, hs⟩, hr', h1, h3, h4, half_of_freq useW ts _ hw ⟨t, ht, hs⟩ (reaches_gt_half m _ hm hr')⟩
  have hss : ∀ s, s ∈ ((candidates (countAll useW ts) (some m)).map Int.toNat).filterMap (C01.prep all false) ↔
      ((s : Int) ∈ candidates (countAll useW ts) (some m) ∧ (s - 1) &&& s ≠ 0) := by
    intro s
    simp only [List.mem_filterMap, List.mem_map]
    constructor
    · rintro ⟨n, ⟨c, hc, rfl⟩, hp⟩
      by_cases hneg : c < 0
      · rw [Int.toNat_of_nonpos (le_of_lt hneg), prep_zero] at hp; cases hp
      · have hc' : ((c.toNat : Nat) : Int) = c := Int.toNat_of_nonneg (not_lt.mp hneg)
        have hcn : ((c.toNat : Nat) : Int) ∈ candidates (countAll useW ts) (some m) := by rw [hc']; exact hc
        obtain ⟨_, _, hsub, h0, _, _⟩ := hcand c.toNat hcn
        rw [prep_unrooted_of_sub all c.toNat hsub h0] at hp
        split at hp
        · rename_i hcond
          simp only [Option.some.injEq] at hp
          subst hp; exact ⟨hcn, hcond.2⟩
        · cases hp
    · rintro ⟨hc, h2⟩
      obtain ⟨_, _, hsub, h0, hne, _⟩ := hcand s hc
      refine ⟨s, ⟨(s : Int), hc, by simp⟩, ?_⟩
      rw [prep_unrooted_of_sub all s hsub h0]; simp [hne, h2]
  have hbuild := C01.build_spec (starOf members)
    (((candidates (countAll useW ts) (some m)).map Int.toNat).filterMap (C01.prep all false)) hg
    (by
      intro s hs
      obtain ⟨hc, h2⟩ := (hss s).mp hs
      obtain ⟨_, _, hsub, _, _, _⟩ := hcand s hc
      have hsub' : s &&& Hier.mask (starOf members) = s := by rw [hall]; exact hsub
      refine ⟨?_, hsub', compat_star members s hsub'⟩
      intro h0; subst h0; simp at h2)
    (by
      intro s hs b hb
      obtain ⟨hcs, _⟩ := (hss s).mp hs
      obtain ⟨hcb, _⟩ := (hss b).mp hb
      obtain ⟨_, _, _, _, _, hhs⟩ := hcand s hcs
      obtain ⟨_, _, _, _, _, hhb⟩ := hcand b hcb
      obtain ⟨t, ht, h1, h2⟩ := majority_cooccur useW ts s b (fun t ht => (hts t ht).1) hw hhs hhb
      obtain ⟨_, h, hgh, hmh, hcl⟩ := hts t ht
      obtain ⟨c1, hc1, rfl⟩ := (hcl s).mp h1
      obtain ⟨c2, hc2, rfl⟩ := (hcl b).mp h2
      have hsub1 : bits c1 ⊆ bits all := by rw [← hmh]; exact clades_sub h c1 hc1
      have hsub2 : bits c2 ⊆ bits all := by rw [← hmh]; exact clades_sub h c2 hc2
      exact norm_lam all k c1 c2 hsub1 hsub2 (clades_laminar h hgh c1 hc1 c2 hc2))
  unfold consensus C01.build
  refine ⟨hbuild.1, hbuild.2.1.trans hall, ?_⟩
  intro x
  rw [hbuild.2.2 x, hss x]
  constructor
  · rintro (h | ⟨hc, h2⟩)
    · exact Or.inl h
    · obtain ⟨hex, hr, _, _, _, _⟩ := hcand x hc
      exact Or.inr ⟨by intro h0; subst h0; simp at h2, hr, hex⟩
  · rintro (h | ⟨hx0, hr, t, ht, hs⟩)
    · exact Or.inl h
    · have hc : (x : Int) ∈ candidates (countAll useW ts) (some m) :=
        (mem_candidates _ _ _).mpr ⟨(counted_iff useW ts _).mpr ⟨t, ht, hs⟩, hr⟩
      obtain ⟨hsub, _, _, _⟩ := hnorm t ht x hs
      by_cases h2 : (x - 1) &&& x = 0
      · left
        obtain ⟨j, rfl⟩ := single_bit x hx0 h2
        have hj : j ∈ bits all := (and_eq_left_iff _ _).mp hsub (by rw [bits_shift]; rfl)
        rw [← hall, mask_star_bits] at hj
        exact (mem_clades_star members _).mpr (Or.inr ⟨j, hj, rfl⟩)
      · exact Or.inr ⟨hc, h2⟩

/-- the auditor's form for not-rooted samples: threshold above one half and not within 1e-7 of one -/
theorem majority_consensus_unrooted_exact (useW : Bool) (ts : List TreeRec) (m : Rat) (all k : Nat) (members : List Nat)
    (hm : 1 / 2 < m) (hm1 : ¬ C04.absR (m - 1) ≤ (1 : Rat) / 10000000)
    (hw : ∀ t ∈ ts, 0 ≤ wt useW t) (hg : Good (starOf members)) (hall : Hier.mask (starOf members) = all)
    (hk : k ∈ bits all) (hlow : ∀ j, j < k → j ∉ bits all)
    (hts : ∀ t ∈ ts, t.splits.Nodup ∧ ∃ h : Hier.T, Good h ∧ Hier.mask h = all ∧
              ∀ x : Nat, (x : Int) ∈ t.splits ↔ ∃ c ∈ clades h, x = Hier.norm all (1 <<< k) c) :
    ∀ x, x ∈ clades (consensus (countAll useW ts) (some m) all members false)
        ↔ x ∈ clades (starOf members)
          ∨ (x ≠ 0 ∧ freq (countAll useW ts) (x : Int) ≥ m ∧ ∃ t ∈ ts, (x : Int) ∈ t.splits) := by
  intro x
  rw [(majority_consensus_unrooted_reaches useW ts m all k members hm hw hg hall hk hlow hts).2.2 x,
    reaches_iff_ge m _ hm1]

end DendroModel.C05

namespace DendroModel.C05
open DendroModel DendroModel.Hier DendroModel.C05.Aux
/-- non-vacuity for the not-rooted theorems: the record of the not-rooted tree (0,1,(2,3)) — clades 15,1,2,12,4,8 normalised
    on bit 0 — meets `hts` with `all = 15`, `k = 0` -/
example : ([14, 2, 4, 8, 12, 0] : List Int).Nodup ∧ (0 ∈ bits 15 ∧ ∀ j, j < 0 → j ∉ bits 15)
    ∧ Good (starOf [0, 1, 2, 3]) ∧ Hier.mask (starOf [0, 1, 2, 3]) = 15
    ∧ ∃ h : Hier.T, Good h ∧ Hier.mask h = 15 ∧
      ∀ x : Nat, (x : Int) ∈ ([14, 2, 4, 8, 12, 0] : List Int) ↔ ∃ c ∈ clades h, x = Hier.norm 15 (1 <<< 0) c := by
  refine ⟨by decide, ⟨by simp [bits], by intro j hj; omega⟩, by simp [starOf, Good, GoodL, Hier.mask, Hier.maskL],
    by simp [starOf, Hier.mask, Hier.maskL], .node [.leaf 0, .leaf 1, .node [.leaf 2, .leaf 3]],
    by simp [Good, GoodL, Hier.mask, Hier.maskL], by simp [Hier.mask, Hier.maskL], ?_⟩
  intro x
  have e1 : Hier.norm 15 1 15 = 0 := by decide
  have e2 : Hier.norm 15 1 1 = 14 := by decide
  have e3 : Hier.norm 15 1 2 = 2 := by decide
  have e4 : Hier.norm 15 1 12 = 12 := by decide
  have e5 : Hier.norm 15 1 4 = 4 := by decide
  have e6 : Hier.norm 15 1 8 = 8 := by decide
  simp [clades, cladesL, Hier.maskL, Hier.mask, e1, e2, e3, e4, e5, e6]
  omega
end DendroModel.C05

namespace DendroModel.C05.Aux
open DendroModel DendroModel.Hier DendroModel.C05

/-! caches -/
/-- what keeps a cached table honest: the counters never run ahead of the number of trees counted, and a table whose
    counter equals that number is the table of the current counts -/
def CacheInv (c : Cached) : Prop :=
  c.countedForFreqs ≤ c.sd.total ∧ c.countedForSummaries ≤ c.sd.total
  ∧ (∀ tbl, c.freqs = some tbl → c.countedForFreqs = c.sd.total → tbl = freqTable c.sd)
  ∧ (∀ tbl, c.summaries = some tbl → c.countedForSummaries = c.sd.total → tbl = summaryTable c.sd)

theorem countTree_total (sd : SD) (t : TreeRec) : (countTree sd t).total = sd.total + 1 := rfl

theorem inv_add (c : Cached) (t : TreeRec) (h : CacheInv c) : CacheInv (c.add t) := by
  obtain ⟨h1, h2, _, _⟩ := h
  refine ⟨?_, ?_, ?_, ?_⟩
  · show c.countedForFreqs ≤ (countTree c.sd t).total; rw [countTree_total]; omega
  · show c.countedForSummaries ≤ (countTree c.sd t).total; rw [countTree_total]; omega
  · intro tbl _ he
    have : c.countedForFreqs = (countTree c.sd t).total := he
    rw [countTree_total] at this; omega
  · intro tbl _ he
    have : c.countedForSummaries = (countTree c.sd t).total := he
    rw [countTree_total] at this; omega

theorem getFreqs_spec (c : Cached) (h : CacheInv c) :
    c.getFreqs.2 = freqTable c.sd ∧ c.getFreqs.1.sd = c.sd ∧ CacheInv c.getFreqs.1 := by
  obtain ⟨h1, h2, h3, h4⟩ := h
  have hcalc : CacheInv c.calcFreqs := by
    refine ⟨le_refl _, h2, ?_, ?_⟩
    · intro tbl he _; simp only [Cached.calcFreqs, Option.some.injEq] at he; exact he.symm
    · intro tbl he _; simp [Cached.calcFreqs] at he
  unfold Cached.getFreqs
  cases hf : c.freqs with
  | none => refine ⟨?_, ?_, hcalc⟩ <;> trivial
  | some tbl =>
    simp only
    by_cases hne : c.countedForFreqs = c.sd.total
    · have : (c.countedForFreqs != c.sd.total) = false := by simp [hne]
      simp only [this, Bool.false_eq_true, if_false]
      refine ⟨h3 tbl hf hne, ?_, h1, h2, h3, h4⟩; trivial
    · have : (c.countedForFreqs != c.sd.total) = true := by simp [hne]
      simp only [this, if_true]
      refine ⟨?_, ?_, hcalc⟩ <;> trivial

theorem getSummaries_spec (c : Cached) (h : CacheInv c) :
    c.getSummaries.2 = summaryTable c.sd ∧ c.getSummaries.1.sd = c.sd ∧ CacheInv c.getSummaries.1 := by
  obtain ⟨h1, h2, h3, h4⟩ := h
  have hre : CacheInv { c with summaries := some (summaryTable c.sd) } := by
    refine ⟨h1, h2, h3, ?_⟩
    intro tbl he _; simp only [Option.some.injEq] at he; exact he.symm
  unfold Cached.getSummaries
  cases hf : c.summaries with
  | none => refine ⟨?_, ?_, hre⟩ <;> trivial
  | some tbl =>
    simp only
    by_cases hne : c.countedForSummaries = c.sd.total
    · have : (c.countedForSummaries != c.sd.total) = false := by simp [hne]
      simp only [this, Bool.false_eq_true, if_false]
      refine ⟨h4 tbl hf hne, ?_, h1, h2, h3, h4⟩; trivial
    · have : (c.countedForSummaries != c.sd.total) = true := by simp [hne]
      simp only [this, if_true]
      refine ⟨?_, ?_, hre⟩ <;> trivial

theorem getAges_spec (c : Cached) (h : CacheInv c) : c.getAges.sd = c.sd ∧ CacheInv c.getAges := by
  obtain ⟨h1, h2, h3, h4⟩ := h
  have hre : CacheInv { c with ages := some () } := ⟨h1, h2, h3, h4⟩
  unfold Cached.getAges
  cases c.ages with
  | none => exact ⟨rfl, hre⟩
  | some u =>
    simp only
    split
    · exact ⟨rfl, hre⟩
    · exact ⟨rfl, h1, h2, h3, h4⟩

/-- looking a split up in the frequency table is `freq` -/
theorem lookup_freqTable (sd : SD) (s : Int) : (lookupIn (freqTable sd) s).getD 0 = freq sd s := by
  have key : ∀ (d : List (Int × Rat)) (f : Int → Rat),
      lookupIn (d.map (fun p => (p.1, f p.1))) s = (countOf d s).map (fun _ => f s) := by
    intro d f
    induction d with
    | nil => simp [lookupIn, countOf]
    | cons p rest ih =>
      by_cases hp : p.1 = s
      · simp [lookupIn, countOf, hp]
      · simp only [lookupIn, countOf, List.map_cons] at ih ⊢
        have : ((p.1 == s) = false) := by simpa using hp
        simp only [List.find?_cons, this]
        exact ih
  unfold freqTable
  rw [key sd.counts (freq sd)]
  unfold freq
  cases countOf sd.counts s <;> simp

theorem mergeSD_empty (a : SD) (u : Bool) : mergeSD a (countAll u []) = a := by
  cases a
  simp [mergeSD, countAll]

theorem countAll_total (u : Bool) (ts : List TreeRec) : (countAll u ts).total = ts.length := by
  have := (countAll_gen 0 ts { useWeights := u }).2.1
  unfold countAll; rw [this]; simp

theorem inv_merge (c : Cached) (u : Bool) (ts : List TreeRec) (h : CacheInv c) : CacheInv (c.merge (countAll u ts)) := by
  obtain ⟨h1, _, h3, _⟩ := h
  have ht : (c.merge (countAll u ts)).sd.total = c.sd.total + ts.length := by
    show c.sd.total + (countAll u ts).total = _
    rw [countAll_total]
  refine ⟨?_, ?_, ?_, ?_⟩
  · show c.countedForFreqs ≤ (c.merge (countAll u ts)).sd.total; rw [ht]; omega
  · show 0 ≤ _; omega
  · intro tbl hf he
    have he' : c.countedForFreqs = (c.merge (countAll u ts)).sd.total := he
    rw [ht] at he'
    have hl : ts.length = 0 := by omega
    have hnil : ts = [] := List.length_eq_zero_iff.mp hl
    subst hnil
    show tbl = freqTable (mergeSD c.sd (countAll u []))
    rw [mergeSD_empty]
    exact h3 tbl hf (by simpa using he')
  · intro tbl hf _
    simp [Cached.merge] at hf

theorem run_gen : ∀ (evs : List Ev) (c : Cached), CacheInv c → Cached.run c evs = specRun c.sd evs := by
  intro evs
  induction evs with
  | nil => intro c _; rfl
  | cons e es ih =>
    intro c h
    cases e with
    | add t =>
      simp only [Cached.run, Cached.step, specRun]
      exact ih (c.add t) (inv_add c t h)
    | freq s =>
      obtain ⟨e1, e2, e3⟩ := getFreqs_spec c h
      simp only [Cached.run, Cached.step, specRun]
      rw [e1, lookup_freqTable, ih _ e3, e2]
    | summ s =>
      obtain ⟨e1, e2, e3⟩ := getSummaries_spec c h
      simp only [Cached.run, Cached.step, specRun]
      rw [e1, ih _ e3, e2]
    | ages =>
      simp only [Cached.run, Cached.step, specRun]
      obtain ⟨e2, e3⟩ := getAges_spec c h
      rw [ih _ e3, e2]
    | refused t =>
      simp only [Cached.run, Cached.step, specRun]
      exact ih c h
    | merge ts =>
      simp only [Cached.run, Cached.step, specRun]
      exact ih (c.merge (countAll c.sd.useWeights ts)) (inv_merge c _ ts h)

/-! credibility scores -/
theorem foldl_prod_nonzero : ∀ (l : List Rat) (acc : Rat),
    l.foldl (fun acc f => if f == 0 then acc else acc * f) acc = acc * (l.filter (fun f => f != 0)).prod := by
  intro l
  induction l with
  | nil => intro acc; simp
  | cons f fs ih =>
    intro acc
    simp only [List.foldl_cons, List.filter_cons]
    by_cases hf : f = 0
    · subst hf
      have := ih acc
      simpa using this
    · have : (f == 0) = false := by simpa using hf
      simp only [this, Bool.false_eq_true, if_false, ih, bne, Bool.not_false, if_true, List.prod_cons]
      ring

end DendroModel.C05.Aux

namespace DendroModel.C05
open DendroModel DendroModel.Hier DendroModel.C05.Aux

/-- **The caches are never stale.**  (Alphabet of the histories: tree additions, frequency queries, length-summary queries and
    reads of the age-summary table, whose content is modelled only as present/absent.  Merges through `SplitDistribution.update`
    are NOT events of this model; they are covered by the oracle's `merge` op only.)  Over every such history on one
    distribution (starting empty), each answer obtained through the cached tables (`_get_split_frequencies`,
    `_get_split_edge_length_summaries` with their recalculate-iff tests) equals the answer computed afresh from all the trees
    counted so far: `freq` of the current counts, resp. the statistics of the current value list. -/
theorem freq_never_stale (useW : Bool) (evs : List Ev) :
    Cached.run { sd := { useWeights := useW } } evs = specRun { useWeights := useW } evs :=
  run_gen evs _ (by refine ⟨le_refl _, le_refl _, ?_, ?_⟩ <;> intro tbl h <;> cases h)

/-- **Refused offers are invisible.**  A history in which some offers are refused (the library raises, the caller catches the
    exception and carries on) answers every later query exactly as the history from which the refused offers are erased: the
    refused trees are in no count, no total, no value list. -/
theorem refused_offers_invisible (useW : Bool) (evs : List Ev) :
    Cached.run { sd := { useWeights := useW } } evs
      = Cached.run { sd := { useWeights := useW } } (evs.filter (fun e => match e with | .refused _ => false | _ => true)) := by
  rw [freq_never_stale, freq_never_stale]
  have : ∀ (evs : List Ev) (sd : SD),
      specRun sd evs = specRun sd (evs.filter (fun e => match e with | .refused _ => false | _ => true)) := by
    intro evs
    induction evs with
    | nil => intro sd; rfl
    | cons e es ih =>
      intro sd
      cases e with
      | add t => simp only [List.filter_cons, specRun]; exact ih _
      | freq s => simp only [List.filter_cons, specRun]; exact congrArg _ (ih sd)
      | summ s => simp only [List.filter_cons, specRun]; exact congrArg _ (ih sd)
      | ages => simp only [List.filter_cons, specRun]; exact ih sd
      | refused t => simp only [List.filter_cons, specRun]; exact ih sd
      | merge ts => simp only [List.filter_cons, specRun]; exact ih _
  exact this evs _

/-- a history with a refused offer between two accepted ones (hypothesis-free theorem; the concrete instance) -/
example : Cached.run { sd := { useWeights := false } } [Ev.add exRec, Ev.refused exRec, Ev.add exRec, Ev.freq 6]
    = Cached.run { sd := { useWeights := false } } [Ev.add exRec, Ev.add exRec, Ev.freq 6] :=
  refused_offers_invisible false _

/-- … in particular a frequency query after any history answers with the weighted fraction over all trees added so far -/
theorem freq_never_stale_query (useW : Bool) (ts : List TreeRec) (s : Int) :
    Cached.run { sd := { useWeights := useW } } (ts.map Ev.add ++ [Ev.freq s]) = [Ans.freq (freq (countAll useW ts) s)] := by
  rw [freq_never_stale]
  have : ∀ (ts : List TreeRec) (sd : SD), specRun sd (ts.map Ev.add ++ [Ev.freq s]) = [Ans.freq (freq (ts.foldl countTree sd) s)] := by
    intro ts
    induction ts with
    | nil => intro sd; simp [specRun]
    | cons t rest ih => intro sd; simp only [List.map_cons, List.cons_append, specRun, List.foldl_cons]; exact ih _
  exact this ts _

/-- which splits of a tree enter its credibility score: every split with `include_external_splits`; otherwise the root
    split and those for which `is_trivial_bitmask` (within the tree's own leaf set) fails, i.e. — on natural masks — the
    split is non-empty, not the whole leaf set, and neither side within the leaf set is empty or a single taxon -/
theorem scored_spec (incl : Bool) (t : TreeRec) (a : Nat) :
    scored incl t (a : Int) = true ↔
      (incl = true ∨ a = t.leafset ∨
        (a ≠ 0 ∧ ((a &&& t.leafset) - 1) &&& (a &&& t.leafset) ≠ 0
          ∧ (sdiff t.leafset a - 1) &&& sdiff t.leafset a ≠ 0)) := by
  unfold scored C01.isTrivial
  rw [C01.is_trivial_refines]
  by_cases h1 : a = t.leafset
  · simp [h1]
  · have h1' : ¬ ((a : Int) = (t.leafset : Int)) := by omega
    cases incl <;> simp [h1, h1', and_assoc]

/-- the sum score is the sum of the frequencies of the tree's scored splits; the product score is the product of the
    non-zero ones (the library adds their logarithms) -/
theorem score_spec (sd : SD) (incl : Bool) (t : TreeRec) :
    sumSupport sd incl t = ((t.splits.filter (scored incl t)).map (freq sd)).sum
    ∧ prodSupport sd incl t = (((t.splits.filter (scored incl t)).map (freq sd)).filter (fun f => f != 0)).prod := by
  refine ⟨rfl, ?_⟩
  unfold prodSupport
  rw [foldl_prod_nonzero]; ring

/-- **Maximum credibility** (about record indices; that the tree handed back has that record's topology is oracle-only).  For a non-empty collection the index the driver reports (`mccSum`, resp. `mccProd`) is a
    valid tree index, its score — Σ resp. Π of the frequencies of that tree's scored splits, `score_spec` — is at least
    every tree's score, and it is the first such index. -/
theorem mcc_index_spec (sd : SD) (incl : Bool) (ts : List TreeRec) (hne : ts ≠ []) :
    (∃ i, mccSum sd incl ts = some i ∧ ∃ h : i < ts.length,
        (∀ j (hj : j < ts.length), sumSupport sd incl ts[j] ≤ sumSupport sd incl ts[i])
        ∧ ∀ j (hj : j < i), sumSupport sd incl (ts[j]'(by omega)) < sumSupport sd incl ts[i])
    ∧ (∃ i, mccProd sd incl ts = some i ∧ ∃ h : i < ts.length,
        (∀ j (hj : j < ts.length), prodSupport sd incl ts[j] ≤ prodSupport sd incl ts[i])
        ∧ ∀ j (hj : j < i), prodSupport sd incl (ts[j]'(by omega)) < prodSupport sd incl ts[i]) := by
  have gen : ∀ f : TreeRec → Rat, ∃ i, argmaxFirst (ts.map f) = some i ∧ ∃ h : i < ts.length,
      (∀ j (hj : j < ts.length), f ts[j] ≤ f ts[i]) ∧ ∀ j (hj : j < i), f (ts[j]'(by omega)) < f ts[i] := by
    intro f
    cases ts with
    | nil => exact absurd rfl hne
    | cons t rest =>
      obtain ⟨i, hi, hlt, hmax, hfirst⟩ := argmaxFirst_spec (f t) (rest.map f)
      have hlen : ((f t) :: rest.map f).length = (t :: rest).length := by simp
      refine ⟨i, by simpa using hi, by omega, ?_, ?_⟩
      · intro j hj
        have h1 := hmax (((f t) :: rest.map f)[j]'(by omega)) (List.getElem_mem _)
        have e1 : ((f t) :: rest.map f)[j]'(by omega) = f ((t :: rest)[j]) := by
          simp only [← List.map_cons, List.getElem_map]
        have e2 : ((f t) :: rest.map f)[i]'hlt = f ((t :: rest)[i]'(by omega)) := by
          simp only [← List.map_cons, List.getElem_map]
        rw [e1, e2] at h1; exact h1
      · intro j hj
        have h1 := hfirst j hj
        have e1 : ((f t) :: rest.map f)[j]'(by omega) = f ((t :: rest)[j]'(by omega)) := by
          simp only [← List.map_cons, List.getElem_map]
        have e2 : ((f t) :: rest.map f)[i]'hlt = f ((t :: rest)[i]'(by omega)) := by
          simp only [← List.map_cons, List.getElem_map]
        rw [e1, e2] at h1; exact h1
  exact ⟨gen (sumSupport sd incl), gen (prodSupport sd incl)⟩

end DendroModel.C05

namespace DendroModel.C05.Aux
open DendroModel DendroModel.Hier DendroModel.C05

theorem parse_wf (s : String) (f : Frac) (h : Frac.parse s = some f) : Frac.WF f := by
  unfold Frac.parse at h
  split at h
  · simp only [Option.map_eq_some_iff] at h
    obtain ⟨p, _, rfl⟩ := h
    exact Frac.wf_ofInt p
  · split at h
    · split at h
      · cases h
      · simp only [Option.some.injEq] at h; rw [← h]; exact Frac.wf_mk' _ _
    · cases h
  · cases h

theorem parseOLen_wf (s : String) (f : Frac) (h : parseOLen s = some (some f)) : Frac.WF f := by
  unfold parseOLen at h
  split at h
  · cases h
  · simp only [Option.map_eq_some_iff, Option.some.injEq] at h
    obtain ⟨g, hg, rfl⟩ := h
    exact parse_wf s g hg

theorem mapM_mem {α β : Type} (g : α → Option β) : ∀ (l : List α) (r : List β), l.mapM g = some r →
    ∀ y ∈ r, ∃ x ∈ l, g x = some y := by
  intro l
  induction l with
  | nil => intro r h y hy; simp at h; subst h; cases hy
  | cons a l ih =>
    intro r h y hy
    rw [List.mapM_cons] at h
    cases ha : g a with
    | none => simp [ha] at h
    | some b =>
      cases hl : l.mapM g with
      | none => simp [ha, hl] at h
      | some r' =>
        simp [ha, hl] at h
        subst h
        rcases List.mem_cons.mp hy with rfl | hy
        · exact ⟨a, by simp, ha⟩
        · obtain ⟨x, hx, hgx⟩ := ih r' hl y hy
          exact ⟨x, List.mem_cons_of_mem _ hx, hgx⟩

theorem lenWFL_map (g : Nat → T) (h : ∀ j, LenWF (g j)) : ∀ l : List Nat, LenWFL (l.map g)
  | [] => by simp [LenWFL]
  | j :: l => by simp only [List.map_cons, LenWFL]; exact ⟨h j, lenWFL_map g h l⟩

theorem buildTree_wf (par : Array Int) (tax : Array (Option Nat)) (lens : Array (Option Frac)) (labs : Array (Option String))
    (hl : ∀ (i : Nat) (f : Frac), lens[i]! = some f → Frac.WF f) : ∀ (fuel i : Nat), LenWF (buildTree fuel par tax lens labs i)
  | 0, i => by simp [buildTree, LenWF, LenWFL]
  | fuel + 1, i => by
    simp only [buildTree, LenWF]
    exact ⟨hl i, lenWFL_map _ (fun j => buildTree_wf par tax lens labs hl fuel j) _⟩

theorem toArray_get_mem {α : Type} [Inhabited α] (l : List α) (i : Nat) : l.toArray[i]! = default ∨ l.toArray[i]! ∈ l := by
  by_cases hi : i < l.length
  · right
    have : l.toArray[i]! = l[i] := by simp [hi]
    rw [this]; exact List.getElem_mem _
  · left
    simp [hi]

end DendroModel.C05.Aux

namespace DendroModel.C05
open DendroModel DendroModel.Hier DendroModel.C05.Aux

/-- **Every tree the driver parses has well-formed lengths** (non-zero denominators): the hypothesis `LenWF` of
    `collapse_keeps_root_tip` / `collapse_removes_exactly` holds for all protocol input. -/
theorem parseTree_lenWF (toks : List String) (t : T) (rest : List String) (h : parseTree toks = some (t, rest)) : LenWF t := by
  unfold parseTree at h
  split at h
  · cases h
  · split at h
    · cases h
    · split at h
      · cases h
      · simp only at h
        split at h
        · rename_i ps xs ls ss hps hxs hls hss
          split at h
          · cases h
          · simp only [Option.some.injEq, Prod.mk.injEq] at h
            rw [← h.1]
            apply buildTree_wf
            intro i f hf
            rcases toArray_get_mem ls i with hd | hm
            · rw [hd] at hf; cases hf
            · rw [hf] at hm
              obtain ⟨x, _, hx⟩ := mapM_mem parseOLen _ ls hls (some f) hm
              exact parseOLen_wf x f hx
        · cases h

end DendroModel.C05

namespace DendroModel.C05.Aux
open DendroModel DendroModel.Hier DendroModel.C05

theorem lenWF_len {t : T} (h : LenWF t) : ∀ f, t.len = some f → Frac.WF f := by
  cases t with
  | node i x l s cs => simp only [LenWF] at h; exact fun f hf => h.1 f (by simpa [T.len] using hf)

theorem lenWF_cs {t : T} (h : LenWF t) : LenWFL t.cs := by
  cases t with
  | node i x l s cs => simp only [LenWF] at h; exact h.2

theorem withLen_wf {t : T} {l : Option Frac} (ht : LenWF t) (hl : ∀ f, l = some f → Frac.WF f) : LenWF (t.withLen l) := by
  cases t with
  | node i x l' s cs => simp only [LenWF, T.withLen] at ht ⊢; exact ⟨hl, ht.2⟩

theorem addLen_wf {a b : Option Frac} (ha : ∀ f, a = some f → Frac.WF f) (hb : ∀ f, b = some f → Frac.WF f) :
    ∀ f, addLen a b = some f → Frac.WF f := by
  intro f hf
  cases b with
  | none => exact ha f (by simpa [addLen] using hf)
  | some y =>
    cases a with
    | none => simp [addLen] at hf; rw [← hf]; exact hb y rfl
    | some x => simp [addLen] at hf; rw [← hf]; exact Frac.wf_add x y

theorem lenWFL_append : ∀ (a b : List T), LenWFL a → LenWFL b → LenWFL (a ++ b)
  | [], b, _, hb => by simpa using hb
  | q :: qs, b, ha, hb => by
    simp only [LenWFL] at ha; simp only [List.cons_append, LenWFL]; exact ⟨ha.1, lenWFL_append qs b ha.2 hb⟩

mutual
theorem sup_wf : ∀ t : T, LenWF t → LenWF t.sup
  | .node i x l s cs, h => by
    simp only [LenWF] at h
    have ih := supL_wf cs h.2
    simp only [T.sup]
    split
    · rename_i c hc
      rw [hc] at ih
      simp only [LenWFL] at ih
      exact withLen_wf ih.1 (addLen_wf (lenWF_len ih.1) h.1)
    · simp only [LenWF]; exact ⟨h.1, ih⟩
theorem supL_wf : ∀ cs : List T, LenWFL cs → LenWFL (T.supL cs)
  | [], _ => by simp [T.supL, LenWFL]
  | c :: cs, h => by
    simp only [LenWFL] at h
    simp only [T.supL, LenWFL]
    exact ⟨sup_wf c h.1, supL_wf cs h.2⟩
end

theorem collapseBasal_wf (t : T) (h : LenWF t) : LenWF t.collapseBasal := by
  cases t with
  | node i x l s cs =>
    match cs, h with
    | [], h => exact h
    | [_], h => exact h
    | _ :: _ :: _ :: _, h => exact h
    | [a, b], h =>
      simp only [LenWF, LenWFL] at h
      obtain ⟨hl, ha, hb, _⟩ := h
      simp only [T.collapseBasal]
      split
      · simp only [LenWF, LenWFL]
        exact ⟨hl, withLen_wf ha (addLen_wf (lenWF_len ha) (lenWF_len hb)), lenWF_cs hb⟩
      · split
        · simp only [LenWF]
          refine ⟨hl, lenWFL_append _ _ (lenWF_cs ha) ?_⟩
          simp only [LenWFL]
          exact ⟨withLen_wf hb (addLen_wf (lenWF_len hb) (lenWF_len ha)), trivial⟩
        · simp only [LenWF, LenWFL]; exact ⟨hl, ha, hb, trivial⟩

theorem encodeTree_wf (r : Option Bool) (t : T) (h : LenWF t) : LenWF (C01.encodeTree r true true t) := by
  unfold C01.encodeTree
  simp only [if_true]
  split
  · exact sup_wf _ (collapseBasal_wf t h)
  · exact sup_wf _ h

end DendroModel.C05.Aux

namespace DendroModel.C05
open DendroModel DendroModel.Hier DendroModel.C05.Aux

/-- **Collapse on parsed input, no side condition left.**  For every target the driver parses, when `collapseBelow` answers,
    every root-to-tip distance of the encoded target is kept. -/
theorem collapse_keeps_root_tip_parsed (toks rest : List String) (t t' : T) (sd : SD) (mf : Rat) (r : Option Bool)
    (hp : parseTree toks = some (t, rest)) (hc : collapseBelow sd mf r t = some t') :
    tips 0 t' = tips 0 (C01.encodeTree r true true t) :=
  (collapse_removes_exactly sd mf r t t' hc).2.2.1 (encodeTree_wf r t (parseTree_lenWF toks t rest hp))

end DendroModel.C05

namespace DendroModel.C05
open DendroModel DendroModel.Hier DendroModel.C05.Aux
/-- `freq_never_stale_query` applied to a concrete history; `mcc_index_spec`'s hypothesis -/
example : Cached.run { sd := { useWeights := false } } ([exRec, exRec].map Ev.add ++ [Ev.freq 6])
    = [Ans.freq (freq (countAll false [exRec, exRec]) 6)] := freq_never_stale_query false _ 6
example : [exRec] ≠ [] := by simp
/-- `parseTree_lenWF`: the kernel cannot evaluate `String.toNat?`, so satisfiability of `parseTree toks = some _` is witnessed by
    the driver (every protocol line of every run parses); here the step below it, on concrete arrays with a length 1/2 -/
example : LenWF (buildTree 2 #[-1] #[some 0] #[some ⟨1, 2⟩] #[none] 0) := by
  apply buildTree_wf
  intro i f hf
  rcases toArray_get_mem [some (⟨1, 2⟩ : Frac)] i with hd | hm
  · have : (#[some (⟨1, 2⟩ : Frac)])[i]! = ([some (⟨1, 2⟩ : Frac)]).toArray[i]! := rfl
    rw [this, hd] at hf; cases hf
  · have : (#[some (⟨1, 2⟩ : Frac)])[i]! = ([some (⟨1, 2⟩ : Frac)]).toArray[i]! := rfl
    rw [this] at hf; rw [hf] at hm
    simp at hm; subst hm; simp [Frac.WF]
end DendroModel.C05

namespace DendroModel.C05.Aux
open DendroModel DendroModel.Hier DendroModel.C05

/-- among at least three distinct-mask children there is one other than any given two -/
theorem third_child {ds : List Hier.T} (hg : GoodL ds) (h3 : 3 ≤ ds.length) (d1 d2 : Hier.T) :
    ∃ d ∈ ds, d ≠ d1 ∧ d ≠ d2 := by
  match ds, hg, h3 with
  | a :: b :: c :: rest, hg, _ =>
    have hnd := masks_nodup hg
    simp only [List.map_cons, List.nodup_cons, List.mem_cons, not_or] at hnd
    have hab : a ≠ b := fun e => hnd.1.1 (by rw [e])
    have hac : a ≠ c := fun e => hnd.1.2.1 (by rw [e])
    have hbc : b ≠ c := fun e => hnd.2.1.1 (by rw [e])
    by_cases ha : a ≠ d1 ∧ a ≠ d2
    · exact ⟨a, by simp, ha⟩
    · by_cases hb : b ≠ d1 ∧ b ≠ d2
      · exact ⟨b, by simp, hb⟩
      · refine ⟨c, by simp, ?_, ?_⟩
        · intro hc; subst hc
          have ha' : a = d2 := by by_contra h; exact ha ⟨hac, h⟩
          have hb' : b = d2 := by by_contra h; exact hb ⟨hbc, h⟩
          exact hab (ha'.trans hb'.symm)
        · intro hc; subst hc
          have ha' : a = d1 := by by_contra h; exact ha ⟨h, hac⟩
          have hb' : b = d1 := by by_contra h; exact hb ⟨h, hbc⟩
          exact hab (ha'.trans hb'.symm)

/-- on a tree whose root has at least three children no clade is the complement of another clade -/
theorem no_complementary_clades {ds : List Hier.T} (hg : GoodL ds) (h3 : 3 ≤ ds.length) (c1 c2 : Nat)
    (h1 : c1 ∈ clades (.node ds)) (h2 : c2 ∈ clades (.node ds)) (hc : bits c2 = bits (maskL ds) \ bits c1) : False := by
  have hL0 : maskL ds ≠ 0 := by
    match ds, hg, h3 with
    | a :: rest, hg, _ =>
      simp only [GoodL] at hg
      intro hz
      obtain ⟨x, hx⟩ := ne_zero_bits hg.2.1
      have : x ∈ bits (maskL (a :: rest)) := bits_maskL_subset_of_mem (by simp) hx
      rw [hz, bits_zero] at this; exact this
  have hgood : Good (.node ds) := by simpa [Good] using hg
  have hn1 : c1 ≠ 0 := clades_ne_zero _ hgood (by simpa [Hier.mask] using hL0) c1 h1
  have hn2 : c2 ≠ 0 := clades_ne_zero _ hgood (by simpa [Hier.mask] using hL0) c2 h2
  simp only [clades, List.mem_cons] at h1 h2
  -- neither is the root
  have hr1 : c1 ≠ maskL ds := by
    intro e; apply hn2; apply bits_inj; rw [hc, e, bits_zero]; simp
  have hr2 : c2 ≠ maskL ds := by
    intro e; apply hn1; apply bits_inj; rw [bits_zero]
    have hsub1 : bits c1 ⊆ bits (maskL ds) := by
      rcases h1 with h | h
      · rw [h]
      · exact cladesL_sub ds c1 h
    ext x; constructor
    · intro hx
      have : x ∈ bits c2 := by rw [e]; exact hsub1 hx
      rw [hc] at this; exact this.2 hx
    · intro hx; cases hx
  have hm1 := h1.resolve_left hr1
  have hm2 := h2.resolve_left hr2
  obtain ⟨d1, hd1, hx1⟩ := (mem_cladesL _ _).mp hm1
  obtain ⟨d2, hd2, hx2⟩ := (mem_cladesL _ _).mp hm2
  obtain ⟨d, hd, hne1, hne2⟩ := third_child hg h3 d1 d2
  obtain ⟨_, hdn⟩ := goodL_mem hg hd
  obtain ⟨x, hx⟩ := ne_zero_bits hdn
  have hxL : x ∈ bits (maskL ds) := bits_maskL_subset_of_mem hd hx
  by_cases hx1' : x ∈ bits c1
  · apply hne1
    apply goodL_eq_of_inter hg hd hd1
    intro hz
    exact (Set.disjoint_left.mp ((and_eq_zero_iff _ _).mp hz)) hx (clades_sub d1 c1 hx1 hx1')
  · have hx2' : x ∈ bits c2 := by rw [hc]; exact ⟨hxL, hx1'⟩
    apply hne2
    apply goodL_eq_of_inter hg hd hd2
    intro hz
    exact (Set.disjoint_left.mp ((and_eq_zero_iff _ _).mp hz)) hx (clades_sub d2 c2 hx2 hx2')

/-- normalisation is injective on the clades of a tree whose root has at least three children -/
theorem norm_inj_on_clades {ds : List Hier.T} (hg : GoodL ds) (h3 : 3 ≤ ds.length) (k : Nat) (c1 c2 : Nat)
    (h1 : c1 ∈ clades (.node ds)) (h2 : c2 ∈ clades (.node ds))
    (he : Hier.norm (maskL ds) (1 <<< k) c1 = Hier.norm (maskL ds) (1 <<< k) c2) : c1 = c2 := by
  have hgood : Good (.node ds) := by simpa [Good] using hg
  have hs1 : bits c1 ⊆ bits (maskL ds) := clades_sub (.node ds) c1 h1
  have hs2 : bits c2 ⊆ bits (maskL ds) := clades_sub (.node ds) c2 h2
  have hb := congrArg bits he
  by_cases hk1 : k ∈ bits c1 <;> by_cases hk2 : k ∈ bits c2
  · rw [bits_norm_in _ _ _ hk1, bits_norm_in _ _ _ hk2] at hb
    apply bits_inj
    ext x; constructor
    · intro hx; by_contra hn
      have : x ∈ bits (maskL ds) \ bits c2 := ⟨hs1 hx, hn⟩
      rw [← hb] at this; exact this.2 hx
    · intro hx; by_contra hn
      have : x ∈ bits (maskL ds) \ bits c1 := ⟨hs2 hx, hn⟩
      rw [hb] at this; exact this.2 hx
  · rw [bits_norm_in _ _ _ hk1, bits_norm_out _ _ _ hk2, Set.inter_eq_left.mpr hs2] at hb
    exact (no_complementary_clades hg h3 c1 c2 h1 h2 hb.symm).elim
  · rw [bits_norm_out _ _ _ hk1, bits_norm_in _ _ _ hk2, Set.inter_eq_left.mpr hs1] at hb
    exact (no_complementary_clades hg h3 c2 c1 h2 h1 hb).elim
  · rw [bits_norm_out _ _ _ hk1, bits_norm_out _ _ _ hk2, Set.inter_eq_left.mpr hs1, Set.inter_eq_left.mpr hs2] at hb
    exact bits_inj hb

end DendroModel.C05.Aux

namespace DendroModel.C05
open DendroModel DendroModel.Hier DendroModel.C05.Aux

/-- **Bridge for not-rooted input.**  For a well-formed tree that is not rooted and whose seed has at least three children as
    drawn (so `encode_bipartitions` does not touch the seed), the record the driver builds lists every split once, and the
    splits are exactly the clades of a well-formed hierarchy over the tree's leaf set normalised on its lowest taxon bit `k`:
    the `hts`, `hk`, `hlow` hypotheses of `majority_consensus_unrooted_reaches` / `_exact`.
    (The special case of `treeRecOf_unrooted_hts` — which covers every drawing whose ENCODED seed has degree >= 3, i.e. everything
    outside the known-finding class — kept with its own proof; formerly `…_partial`.) -/
theorem treeRecOf_unrooted_hts_drawn (r : Option Bool) (w : Option Rat) (t : T) (hr : r ≠ some true)
    (h3 : 3 ≤ t.cs.length) (hg : Good (T.toH t)) :
    ∃ k, k ∈ bits (T.mask t) ∧ (∀ j, j < k → j ∉ bits (T.mask t))
      ∧ (treeRecOf r w t).rooted = false
      ∧ (treeRecOf r w t).splits.Nodup
      ∧ ∃ h : Hier.T, Good h ∧ Hier.mask h = T.mask t ∧
          ∀ x : Nat, (x : Int) ∈ (treeRecOf r w t).splits ↔ ∃ c ∈ clades h, x = Hier.norm (T.mask t) (1 <<< k) c := by
  have hrf : (r == some true) = false := by
    cases r with
    | none => rfl
    | some b => cases b <;> simp_all
  obtain ⟨i, x, l, s, cs⟩ := t
  simp only [T.cs] at h3
  have he : C01.encodeTree r true true (.node i x l s cs) = (T.node i x l s cs).sup := by
    unfold C01.encodeTree
    have : ((T.node i x l s cs).cs.length == 2) = false := by simp [T.cs]; omega
    simp [this]
  -- the hierarchy
  have hds : ∃ ds, Hier.sup (T.toH (.node i x l s cs)) = .node ds ∧ 3 ≤ ds.length := by
    match cs, h3 with
    | c :: cs', h3 =>
      simp only [T.toH, Hier.sup]
      have hlen : (Hier.supL (T.toHL (c :: cs'))).length = (c :: cs').length := by
        rw [Hier.supL_length, C01.Aux.toHL_length]
      split
      · rename_i d hd; rw [hd] at hlen; simp only [List.length_cons, List.length_nil] at hlen h3; omega
      · exact ⟨_, rfl, by rw [hlen]; exact h3⟩
  obtain ⟨ds, hsup, hlen⟩ := hds
  have hgs : Good (Hier.sup (T.toH (.node i x l s cs))) := Hier.sup_good _ hg
  have hgds : GoodL ds := by rw [hsup] at hgs; simpa [Good] using hgs
  have hmask : maskL ds = T.mask (.node i x l s cs) := by
    have := Hier.sup_mask (T.toH (.node i x l s cs))
    rw [hsup, C01.Aux.toH_mask] at this
    simpa [Hier.mask] using this
  have hL0 : T.mask (.node i x l s cs) ≠ 0 := by
    rw [← hmask]
    match ds, hgds, hlen with
    | a :: rest, hgds, _ =>
      simp only [GoodL] at hgds
      intro hz
      obtain ⟨y, hy⟩ := ne_zero_bits hgds.2.1
      have : y ∈ bits (maskL (a :: rest)) := bits_maskL_subset_of_mem (by simp) hy
      rw [hz, bits_zero] at this; exact this
  obtain ⟨k, hk, hkL, hlow⟩ := C01.lsb_spec (T.mask (.node i x l s cs)) (Nat.pos_of_ne_zero hL0)
  have hsupmask : T.mask (T.node i x l s cs).sup = T.mask (.node i x l s cs) := by
    rw [← C01.Aux.toH_mask (T.node i x l s cs).sup, C01.Aux.sup_toH, Hier.sup_mask, C01.Aux.toH_mask]
  have hs : (treeRecOf r w (.node i x l s cs)).splits
      = ((T.node i x l s cs).sup.masksPost).map (fun (m : Nat) => ((Hier.norm (T.mask (.node i x l s cs)) (1 <<< k) m : Nat) : Int)) := by
    show ((C04.edgeRecs r (.node i x l s cs)).map (·.split)) = _
    unfold C04.edgeRecs
    simp only [he, List.map_map]
    rw [← edgesPost_fst true (T.node i x l s cs).sup, List.map_map]
    apply List.map_congr_left
    intro e _
    simp only [Function.comp, hrf, hsupmask]
    rw [C01.split_spec, hk]
    simp
  have hmem : ∀ m, m ∈ (T.node i x l s cs).sup.masksPost ↔ m ∈ clades (Hier.T.node ds) := by
    intro m
    rw [← hsup, ← C01.Aux.sup_toH, C01.Aux.toH_clades]
  refine ⟨k, hkL, fun j hj => by simpa [bits] using hlow j hj, by simp [treeRecOf, hrf], ?_, .node ds, by simpa [Good] using hgds,
    by simpa [Hier.mask] using hmask, ?_⟩
  · rw [hs]
    have hnd : ((T.node i x l s cs).sup.masksPost).Nodup := by
      apply (masksPost_perm _).nodup_iff.mpr
      rw [C01.Aux.sup_toH]
      exact clades_nodup _ hgs (Hier.sup_noUnif _ hg (by rw [C01.Aux.toH_mask]; exact hL0))
    apply List.Nodup.map_on _ hnd
    intro a ha b hb hab
    have hab' : Hier.norm (maskL ds) (1 <<< k) a = Hier.norm (maskL ds) (1 <<< k) b := by
      rw [hmask]; exact_mod_cast hab
    exact norm_inj_on_clades hgds hlen k a b ((hmem a).mp ha) ((hmem b).mp hb) hab'
  · intro y
    rw [hs]
    simp only [List.mem_map]
    constructor
    · rintro ⟨m, hm, hmy⟩
      exact ⟨m, (hmem m).mp hm, by exact_mod_cast hmy.symm⟩
    · rintro ⟨c, hc, rfl⟩
      exact ⟨c, (hmem c).mpr hc, rfl⟩

end DendroModel.C05

namespace DendroModel.C05
open DendroModel DendroModel.Hier DendroModel.C05.Aux
/-- hypotheses of `treeRecOf_unrooted_hts_drawn`: the not-rooted tree (0,1,(2,3)) -/
example : (some false : Option Bool) ≠ some true
    ∧ 3 ≤ (T.node 0 none none none [.node 1 (some 0) none none [], .node 2 (some 1) none none [],
        .node 3 none none none [.node 4 (some 2) none none [], .node 5 (some 3) none none []]]).cs.length
    ∧ Good (T.toH (T.node 0 none none none [.node 1 (some 0) none none [], .node 2 (some 1) none none [],
        .node 3 none none none [.node 4 (some 2) none none [], .node 5 (some 3) none none []]])) := by
  refine ⟨by simp, by simp [T.cs], by simp [T.toH, T.toHL, Good, GoodL, Hier.mask, Hier.maskL]⟩
end DendroModel.C05

/-! ## final round (audit 2-L): value lists, removed namespace members, end-to-end composition, weighted "contains" form -/
namespace DendroModel.C05.Aux
open DendroModel DendroModel.Hier DendroModel.C05

/-- the values one tree record contributes to split `s`: the lengths paired with the occurrences of `s`, in order -/
def valsOf (s : Int) (t : TreeRec) : List Rat :=
  (t.splits.zip t.lens).filterMap (fun p => if p.1 = s then some p.2 else none)

theorem lookup_addLenRec (d : List (Int × List Rat)) (k : Int) (x : Rat) (s : Int) :
    lookupIn (addLenRec d k x) s = if s = k then some ((lookupIn d s).getD [] ++ [x]) else lookupIn d s := by
  induction d with
  | nil =>
    by_cases h : s = k
    · subst h; simp [addLenRec, lookupIn]
    · have : ¬ k = s := fun e => h e.symm
      simp [addLenRec, lookupIn, h, this]
  | cons q rest ih =>
    simp only [addLenRec]
    by_cases hq : q.1 = k
    · simp only [hq, beq_self_eq_true, if_true]
      by_cases h : s = k
      · subst h; simp [lookupIn, hq]
      · have : ¬ k = s := fun e => h e.symm
        simp [lookupIn, h, hq, this]
    · have hq' : (q.1 == k) = false := by simpa using hq
      simp only [hq', Bool.false_eq_true, if_false]
      by_cases hqs : q.1 = s
      · have hsk : ¬ s = k := fun e => hq (hqs.trans e)
        simp [lookupIn, hqs, hsk]
      · have e1 : lookupIn ((q.1, q.2) :: addLenRec rest k x) s = lookupIn (addLenRec rest k x) s := by
          simp [lookupIn, hqs]
        have e2 : lookupIn (q :: rest) s = lookupIn rest s := by
          simp [lookupIn, hqs]
        rw [e1, e2]; exact ih

theorem lookup_fold_lens (s : Int) : ∀ (ps : List (Int × Rat)) (d : List (Int × List Rat)),
    lookupIn (ps.foldl (fun d p => addLenRec d p.1 p.2) d) s
      = if ps.filterMap (fun p => if p.1 = s then some p.2 else none) = [] then lookupIn d s
        else some ((lookupIn d s).getD [] ++ ps.filterMap (fun p => if p.1 = s then some p.2 else none)) := by
  intro ps
  induction ps with
  | nil => intro d; simp
  | cons p ps ih =>
    intro d
    obtain ⟨a, b⟩ := p
    rw [List.foldl_cons, ih (addLenRec d a b), lookup_addLenRec, List.filterMap_cons]
    by_cases hp : a = s
    · subst hp
      simp only [if_true]
      split
      · rename_i h; simp [h]
      · simp
    · have hp' : ¬ s = a := fun e => hp e.symm
      simp only [hp, hp', if_false]

theorem lengths_gen (s : Int) : ∀ (ts : List TreeRec) (sd : SD),
    lookupIn (ts.foldl countTree sd).lengths s
      = if ts.flatMap (valsOf s) = [] then lookupIn sd.lengths s
        else some ((lookupIn sd.lengths s).getD [] ++ ts.flatMap (valsOf s)) := by
  intro ts
  induction ts with
  | nil => intro sd; simp
  | cons t rest ih =>
    intro sd
    rw [List.foldl_cons, ih]
    have hc : lookupIn (countTree sd t).lengths s
        = if valsOf s t = [] then lookupIn sd.lengths s else some ((lookupIn sd.lengths s).getD [] ++ valsOf s t) := by
      simp only [countTree]; exact lookup_fold_lens s _ _
    rw [hc, List.flatMap_cons]
    by_cases h1 : valsOf s t = [] <;> by_cases h2 : rest.flatMap (valsOf s) = []
    · simp [h1, h2]
    · simp [h1, h2]
    · simp [h1, h2]
    · simp [h1, h2]

end DendroModel.C05.Aux

namespace DendroModel.C05
open DendroModel DendroModel.Hier DendroModel.C05.Aux

/-- **The value list summarised for a split is exactly that split's values over the input trees.**  After counting `ts`, the
    entry of `split_edge_lengths` for `s` holds, tree by tree in the order counted, the lengths paired with the occurrences of
    `s` in each record (`valsOf`), and there is no entry when no tree contributes — so `stats_spec`, applied to this list, is a
    statement about the trees, and `summaryTable` summarises exactly these lists. -/
theorem lengths_spec (useW : Bool) (ts : List TreeRec) (s : Int) :
    lookupIn (countAll useW ts).lengths s
      = if ts.flatMap (valsOf s) = [] then none else some (ts.flatMap (valsOf s)) := by
  unfold countAll
  rw [lengths_gen]
  simp [lookupIn]

/-- on a record whose splits are distinct and all carry a length, the split `s` contributes exactly one value iff the record has it -/
theorem valsOf_nodup (s : Int) (t : TreeRec) (hnd : t.splits.Nodup) (hlen : t.lens.length = t.splits.length) :
    (valsOf s t).length = if s ∈ t.splits then 1 else 0 := by
  unfold valsOf
  have key : ∀ (ss : List Int) (ls : List Rat), ss.Nodup → ls.length = ss.length →
      ((ss.zip ls).filterMap (fun p => if p.1 = s then some p.2 else none)).length = if s ∈ ss then 1 else 0 := by
    intro ss
    induction ss with
    | nil => intro ls _ _; simp
    | cons a ss ih =>
      intro ls hnd hl
      cases ls with
      | nil => simp at hl
      | cons b ls =>
        have hnd' := List.nodup_cons.mp hnd
        have := ih ls hnd'.2 (by simpa using hl)
        simp only [List.zip_cons_cons, List.filterMap_cons]
        by_cases ha : a = s
        · subst ha
          simp [this, hnd'.1]
        · have ha' : ¬ s = a := fun e => ha e.symm
          simp [ha, ha', this]
  exact key t.splits t.lens hnd hlen

example : lookupIn (countAll false [exRec]).lengths 6 = none := by
  rw [lengths_spec]; simp [valsOf, exRec]

end DendroModel.C05
namespace DendroModel.C05
open DendroModel DendroModel.Hier DendroModel.C05.Aux

/-- **Frequency = weighted fraction of the trees CONTAINING the split** (the statement's wording): when no record repeats a
    split, the frequency is the total weight of the trees that contain `s` over the sum of all tree weights (over the number of
    trees when that sum is zero).  `freq_spec` is the form without the `Nodup` hypothesis, in which a repeated split counts per
    occurrence — the behaviour on the known-finding class (basal bifurcation surviving the encoding). -/
theorem freq_weighted_contains (useW : Bool) (ts : List TreeRec) (s : Int) (hnd : ∀ t ∈ ts, t.splits.Nodup)
    (h : ∃ t ∈ ts, s ∈ t.splits) :
    freq (countAll useW ts) s
      = ((ts.filter (fun t => decide (s ∈ t.splits))).map (wt useW)).sum
          / (if (ts.map (wt useW)).sum = 0 then (ts.length : Rat) else (ts.map (wt useW)).sum) := by
  rw [freq_spec useW ts s h]
  congr 1
  have key : ∀ l : List TreeRec, (∀ t ∈ l, t.splits.Nodup) →
      wsum useW l s = ((l.filter (fun t => decide (s ∈ t.splits))).map (wt useW)).sum := by
    intro l
    induction l with
    | nil => intro _; simp [wsum]
    | cons t rest ih =>
      intro hnd'
      have ih' := ih (fun t' ht' => hnd' t' (List.mem_cons_of_mem _ ht'))
      have hn := hnd' t (by simp)
      have e : wsum useW (t :: rest) s = wt useW t * (t.splits.count s : Rat) + wsum useW rest s := by simp [wsum]
      rw [e, ih', List.filter_cons]
      by_cases hs : s ∈ t.splits
      · simp [hs, List.count_eq_one_of_mem hn hs]
      · simp [hs, List.count_eq_zero_of_not_mem hs]
  exact key ts hnd

example : (∀ t ∈ [exRec, exRec], t.splits.Nodup) ∧ ∃ t ∈ [exRec, exRec], (6 : Int) ∈ t.splits := by
  refine ⟨?_, exRec, by simp, by simp [exRec]⟩
  intro t ht; simp at ht; subst ht; exact exRec_hts.1

/-- non-vacuity of `consensus_greedy_by_frequency` on a `countAll` value (not a hand-written table): the clade 6 of (0,(1,2))
    is a candidate of the counted sample at some position, and `prep` keeps it -/
example : ∃ pre c post s, candidates (countAll false [exRec]) none = pre ++ c :: post ∧ C01.prep 7 true c.toNat = some s := by
  have hc : (6 : Int) ∈ candidates (countAll false [exRec]) none :=
    (mem_candidates _ _ _).mpr ⟨(counted_iff false [exRec] 6).mpr ⟨exRec, by simp, by simp [exRec]⟩, trivial⟩
  obtain ⟨pre, post, he⟩ := List.append_of_mem hc
  exact ⟨pre, 6, post, 6, he, by decide⟩

/-- `lengths_spec` on a record with lengths: two copies of a tree whose clade 6 has length 2 -/
example : lookupIn (countAll false [{ exRec with lens := [1, 1, 1, 2, 0] }, { exRec with lens := [1, 1, 1, 2, 0] }]).lengths 6
    = some [2, 2] := by
  rw [lengths_spec]; simp [valsOf, exRec]

end DendroModel.C05

namespace DendroModel.C05
open DendroModel DendroModel.Hier DendroModel.C05.Aux

/-- **Majority rule on a namespace with removed members.**  `majority_consensus_reaches` with `all` only required to CONTAIN the
    star's leaf set (the driver passes `all = (1 <<< accession count) - 1`, which keeps the bits of removed members): the trees'
    root split then differs from `all`, passes `prep`, and is found already present by the greedy insertion. -/
theorem majority_consensus_reaches_ns (useW : Bool) (ts : List TreeRec) (m : Rat) (all : Nat) (members : List Nat)
    (hm : 1 / 2 < m) (hw : ∀ t ∈ ts, 0 ≤ wt useW t) (hg : Good (starOf members)) (hsubAll : bits (Hier.mask (starOf members)) ⊆ bits all)
    (hts : ∀ t ∈ ts, t.splits.Nodup ∧ ∃ h : Hier.T, Good h ∧ Hier.mask h = Hier.mask (starOf members) ∧
              ∀ x : Nat, (x : Int) ∈ t.splits ↔ x ∈ clades h) :
    Good (consensus (countAll useW ts) (some m) all members true)
    ∧ Hier.mask (consensus (countAll useW ts) (some m) all members true) = Hier.mask (starOf members)
    ∧ ∀ x, x ∈ clades (consensus (countAll useW ts) (some m) all members true)
        ↔ x ∈ clades (starOf members)
          ∨ (reaches m (freq (countAll useW ts) (x : Int)) ∧ ∃ t ∈ ts, (x : Int) ∈ t.splits) := by
  -- every candidate that is a natural number is a clade of an input tree, inside `all`, and carried by a majority
  have hcand : ∀ n : Nat, (n : Int) ∈ candidates (countAll useW ts) (some m) →
      (∃ t ∈ ts, (n : Int) ∈ t.splits) ∧ reaches m (freq (countAll useW ts) (n : Int)) ∧ n &&& all = n ∧ n &&& Hier.mask (starOf members) = n
        ∧ (ts.map (wt useW)).sum < 2 * wsum useW ts (n : Int) := by
    intro n hn
    obtain ⟨hk, hr⟩ := (mem_candidates _ _ _).mp hn
    have hex := (counted_iff useW ts _).mp hk
    have hr' : reaches m (freq (countAll useW ts) (n : Int)) := hr
    obtain ⟨t, ht, hs⟩ := hex
    obtain ⟨_, h, hgh, hmh, hcl⟩ := hts t ht
    have hsubM : bits n ⊆ bits (Hier.mask (starOf members)) := by rw [← hmh]; exact clades_sub h n ((hcl n).mp hs)
    have hsub : n &&& all = n := (and_eq_left_iff _ _).mpr (hsubM.trans hsubAll)
    exact ⟨⟨t, ht, hs⟩, hr', hsub, (and_eq_left_iff _ _).mpr hsubM, half_of_freq useW ts _ hw ⟨t, ht, hs⟩ (reaches_gt_half m _ hm hr')⟩
  -- the list handed to the greedy insertion
  have hss : ∀ s, s ∈ ((candidates (countAll useW ts) (some m)).map Int.toNat).filterMap (C01.prep all true) ↔
      ((s : Int) ∈ candidates (countAll useW ts) (some m) ∧ s ≠ all ∧ (s - 1) &&& s ≠ 0) := by
    intro s
    simp only [List.mem_filterMap, List.mem_map]
    constructor
    · rintro ⟨n, ⟨c, hc, rfl⟩, hp⟩
      by_cases hneg : c < 0
      · rw [Int.toNat_of_nonpos (le_of_lt hneg), prep_zero] at hp; cases hp
      · have hc' : ((c.toNat : Nat) : Int) = c := Int.toNat_of_nonneg (not_lt.mp hneg)
        have hcn : ((c.toNat : Nat) : Int) ∈ candidates (countAll useW ts) (some m) := by rw [hc']; exact hc
        obtain ⟨_, _, hsub, _, _⟩ := hcand c.toNat hcn
        rw [prep_rooted_of_sub all c.toNat hsub] at hp
        split at hp
        · rename_i hcond
          simp only [Option.some.injEq] at hp
          subst hp; exact ⟨hcn, hcond⟩
        · cases hp
    · rintro ⟨hc, h1, h2⟩
      obtain ⟨_, _, hsub, _, _⟩ := hcand s hc
      refine ⟨s, ⟨(s : Int), hc, by simp⟩, ?_⟩
      rw [prep_rooted_of_sub all s hsub]; simp [h1, h2]
  have hbuild := C01.build_spec (starOf members)
    (((candidates (countAll useW ts) (some m)).map Int.toNat).filterMap (C01.prep all true)) hg
    (by
      intro s hs
      obtain ⟨hc, _, h2⟩ := (hss s).mp hs
      obtain ⟨_, _, _, hsub', _⟩ := hcand s hc
      refine ⟨?_, hsub', compat_star members s hsub'⟩
      intro h0; subst h0; simp at h2)
    (by
      intro s hs b hb
      obtain ⟨hcs, _, _⟩ := (hss s).mp hs
      obtain ⟨hcb, _, _⟩ := (hss b).mp hb
      obtain ⟨_, _, _, _, hhs⟩ := hcand s hcs
      obtain ⟨_, _, _, _, hhb⟩ := hcand b hcb
      exact majority_pairwise_laminar useW ts s b (fun t ht => (hts t ht).1) hw
        (fun t ht => by
          obtain ⟨_, h, hgh, _, hcl⟩ := hts t ht
          exact ⟨h, hgh, fun x hx => (hcl x).mp hx⟩) hhs hhb)
  unfold consensus C01.build
  refine ⟨hbuild.1, hbuild.2.1, ?_⟩
  intro x
  rw [hbuild.2.2 x, hss x]
  constructor
  · rintro (h | ⟨hc, _, _⟩)
    · exact Or.inl h
    · obtain ⟨hex, hr, _, _, _⟩ := hcand x hc
      exact Or.inr ⟨hr, hex⟩
  · rintro (h | ⟨hr, t, ht, hs⟩)
    · exact Or.inl h
    · have hc : (x : Int) ∈ candidates (countAll useW ts) (some m) :=
        (mem_candidates _ _ _).mpr ⟨(counted_iff useW ts _).mpr ⟨t, ht, hs⟩, hr⟩
      obtain ⟨_, h, hgh, hmh, hcl⟩ := hts t ht
      have hxc : x ∈ clades h := (hcl x).mp hs
      have hxsub : bits x ⊆ bits (Hier.mask (starOf members)) := by rw [← hmh]; exact clades_sub h x hxc
      by_cases hxM : x = Hier.mask (starOf members)
      · left; rw [hxM]; exact mask_mem_clades _
      · have h1 : x ≠ all := by
          intro e; apply hxM
          apply bits_inj
          exact Set.Subset.antisymm hxsub (by rw [e]; exact hsubAll)
        by_cases h2 : (x - 1) &&& x = 0
        · left
          have hx0 : x ≠ 0 := by
            by_cases hm0 : Hier.mask h = 0
            · exfalso; apply hxM; rw [← hmh, hm0]
              apply bits_inj; rw [bits_zero]
              rw [← hmh, hm0, bits_zero] at hxsub
              exact Set.subset_empty_iff.mp hxsub
            · exact clades_ne_zero h hgh hm0 x hxc
          obtain ⟨k, rfl⟩ := single_bit x hx0 h2
          have hk : k ∈ bits (Hier.mask (starOf members)) := hxsub (by rw [bits_shift]; rfl)
          rw [mask_star_bits] at hk
          exact (mem_clades_star members _).mpr (Or.inr ⟨k, hk, rfl⟩)
        · exact Or.inr ⟨hc, h1, h2⟩


end DendroModel.C05

namespace DendroModel.C05
open DendroModel DendroModel.Hier DendroModel.C05.Aux

/-- **End to end, as the driver computes it (rooted input, namespaces with removed members included).**  `ws` are the parsed
    (weight, tree) pairs of well-formed rooted trees over the namespace's live members; the records are built by `treeRecOf`, counted by
    `countAll`, and the consensus is built with the rooting flag the driver itself derives (`consensusRooted`) and with any `all`
    that contains the members' bits.  For a threshold above one half (not within 1e-7 of one) and non-negative weights, the clades of
    the consensus are exactly the star's plus the splits that occur in some input tree with frequency ≥ the threshold.
    Assumed, not derived from `parseTree`: `Good (T.toH t)` (the leaves of each tree carry distinct taxa). -/
theorem driver_majority_exact (useW : Bool) (ws : List (Option Rat × T)) (m : Rat) (all : Nat) (members : List Nat)
    (hne : ws ≠ []) (hm : 1 / 2 < m) (hm1 : ¬ C04.absR (m - 1) ≤ (1 : Rat) / 10000000)
    (hw : ∀ p ∈ ws, ∀ q, p.1 = some q → 0 ≤ q)
    (hg : Good (starOf members)) (hM : Hier.mask (starOf members) ≠ 0) (hsubAll : bits (Hier.mask (starOf members)) ⊆ bits all)
    (htrees : ∀ p ∈ ws, Good (T.toH p.2) ∧ T.mask p.2 = Hier.mask (starOf members)) :
    ∀ x, x ∈ clades (consensus (countAll useW (ws.map (fun p => treeRecOf (some true) p.1 p.2))) (some m) all members
                      (consensusRooted (countAll useW (ws.map (fun p => treeRecOf (some true) p.1 p.2)))))
        ↔ x ∈ clades (starOf members)
          ∨ (freq (countAll useW (ws.map (fun p => treeRecOf (some true) p.1 p.2))) (x : Int) ≥ m
              ∧ ∃ t ∈ ws.map (fun p => treeRecOf (some true) p.1 p.2), (x : Int) ∈ t.splits) := by
  have hroot : consensusRooted (countAll useW (ws.map (fun p => treeRecOf (some true) p.1 p.2))) = true := by
    rw [consensus_rooting_spec]
    refine ⟨by simpa using hne, ?_⟩
    intro t ht
    obtain ⟨p, _, rfl⟩ := List.mem_map.mp ht
    exact (treeRecOf_rooted_clades p.1 p.2).1
  have hwt : ∀ t ∈ ws.map (fun p => treeRecOf (some true) p.1 p.2), 0 ≤ wt useW t := by
    intro t ht
    obtain ⟨p, hp, rfl⟩ := List.mem_map.mp ht
    unfold wt
    rw [(treeRecOf_rooted_clades p.1 p.2).2.1]
    cases hq : p.1 with
    | none => simp
    | some q => cases useW <;> simp [hw p hp q hq]
  have hts := treeRecOf_rooted_hts (Hier.mask (starOf members)) ws htrees hM
  intro x
  rw [hroot, (majority_consensus_reaches_ns useW _ m all members hm hwt hg hsubAll hts).2.2 x, reaches_iff_ge m _ hm1]

/-- non-vacuity of `driver_majority_exact` / `majority_consensus_reaches_ns`: the namespace {0,1,2} with accession count 4
    (`all = 15`, bit 3 removed) and the rooted tree (0,(1,2)) -/
example : ([(none, exT)] : List (Option Rat × T)) ≠ []
    ∧ Good (starOf [0, 1, 2]) ∧ Hier.mask (starOf [0, 1, 2]) ≠ 0 ∧ bits (Hier.mask (starOf [0, 1, 2])) ⊆ bits 15
    ∧ ∀ p ∈ ([(none, exT)] : List (Option Rat × T)), Good (T.toH p.2) ∧ T.mask p.2 = Hier.mask (starOf [0, 1, 2]) := by
  refine ⟨by simp, exStar.1, by rw [exStar.2]; decide, ?_, ?_⟩
  · rw [exStar.2]; intro i hi
    have : (7 : Nat) &&& 15 = 7 := by decide
    exact (and_eq_left_iff 7 15).mp this hi
  · intro p hp; simp at hp; subst hp
    exact ⟨by simp [exT, T.toH, T.toHL, Good, GoodL, Hier.mask, Hier.maskL],
      by rw [exStar.2]; simp [exT, T.mask, T.maskL]⟩

end DendroModel.C05

/-! ## last round: not-rooted theorems on namespaces with removed members, the not-rooted bridge for every seed, distinct ids, totality of collapse -/
namespace DendroModel.C05
open DendroModel DendroModel.Hier DendroModel.C05.Aux

/-- **Not-rooted majority rule on a namespace with removed members.**  `majority_consensus_unrooted_reaches` with the trees' leaf
    set `M` (= the star's) only required to be CONTAINED in `all` (the driver's `all` keeps the bits of removed members), `k`
    the lowest bit of `M` with nothing of `all` below it. -/
theorem majority_consensus_unrooted_reaches_ns (useW : Bool) (ts : List TreeRec) (m : Rat) (all M k : Nat) (members : List Nat)
    (hm : 1 / 2 < m) (hw : ∀ t ∈ ts, 0 ≤ wt useW t) (hg : Good (starOf members)) (hall : Hier.mask (starOf members) = M)
    (hsubAll : bits M ⊆ bits all) (hk : k ∈ bits M) (hlow : ∀ j, j < k → j ∉ bits all)
    (hts : ∀ t ∈ ts, t.splits.Nodup ∧ ∃ h : Hier.T, Good h ∧ Hier.mask h = M ∧
              ∀ x : Nat, (x : Int) ∈ t.splits ↔ ∃ c ∈ clades h, x = Hier.norm M (1 <<< k) c) :
    Good (consensus (countAll useW ts) (some m) all members false)
    ∧ Hier.mask (consensus (countAll useW ts) (some m) all members false) = M
    ∧ ∀ x, x ∈ clades (consensus (countAll useW ts) (some m) all members false)
        ↔ x ∈ clades (starOf members)
          ∨ (x ≠ 0 ∧ reaches m (freq (countAll useW ts) (x : Int)) ∧ ∃ t ∈ ts, (x : Int) ∈ t.splits) := by
  -- a normalised split lies inside `all`, avoids bit k and bit 0
  have hnorm : ∀ t ∈ ts, ∀ n : Nat, (n : Int) ∈ t.splits → n &&& M = n ∧ n &&& all = n ∧ k ∉ bits n ∧ 0 ∉ bits n ∧ n ≠ all := by
    intro t ht n hs
    obtain ⟨_, h, _, _, hcl⟩ := hts t ht
    obtain ⟨c, _, rfl⟩ := (hcl n).mp hs
    have hsub := norm_sub M k c
    have hav := norm_avoids M k c
    refine ⟨(and_eq_left_iff _ _).mpr hsub, (and_eq_left_iff _ _).mpr (hsub.trans hsubAll), hav, ?_, ?_⟩
    · by_cases hk0 : k = 0
      · subst hk0; exact hav
      · exact fun h0 => hlow 0 (Nat.pos_of_ne_zero hk0) (hsubAll (hsub h0))
    · intro he; rw [he] at hav; exact hav (hsubAll hk)
  have hcand : ∀ n : Nat, (n : Int) ∈ candidates (countAll useW ts) (some m) →
      (∃ t ∈ ts, (n : Int) ∈ t.splits) ∧ reaches m (freq (countAll useW ts) (n : Int)) ∧ n &&& M = n ∧ n &&& all = n
        ∧ 0 ∉ bits n ∧ n ≠ all ∧ (ts.map (wt useW)).sum < 2 * wsum useW ts (n : Int) := by
    intro n hn
    obtain ⟨hkk, hr⟩ := (mem_candidates _ _ _).mp hn
    obtain ⟨t, ht, hs⟩ := (counted_iff useW ts _).mp hkk
    have hr' : reaches m (freq (countAll useW ts) (n : Int)) := hr
    obtain ⟨h0', h1, _, h3, h4⟩ := hnorm t ht n hs
    exact ⟨⟨t, ht, hs⟩, hr', h0', h1, h3, h4, half_of_freq useW ts _ hw ⟨t, ht, hs⟩ (reaches_gt_half m _ hm hr')⟩
  have hss : ∀ s, s ∈ ((candidates (countAll useW ts) (some m)).map Int.toNat).filterMap (C01.prep all false) ↔
      ((s : Int) ∈ candidates (countAll useW ts) (some m) ∧ (s - 1) &&& s ≠ 0) := by
    intro s
    simp only [List.mem_filterMap, List.mem_map]
    constructor
    · rintro ⟨n, ⟨c, hc, rfl⟩, hp⟩
      by_cases hneg : c < 0
      · rw [Int.toNat_of_nonpos (le_of_lt hneg), prep_zero] at hp; cases hp
      · have hc' : ((c.toNat : Nat) : Int) = c := Int.toNat_of_nonneg (not_lt.mp hneg)
        have hcn : ((c.toNat : Nat) : Int) ∈ candidates (countAll useW ts) (some m) := by rw [hc']; exact hc
        obtain ⟨_, _, _, hsub, h0, _, _⟩ := hcand c.toNat hcn
        rw [prep_unrooted_of_sub all c.toNat hsub h0] at hp
        split at hp
        · rename_i hcond
          simp only [Option.some.injEq] at hp
          subst hp; exact ⟨hcn, hcond.2⟩
        · cases hp
    · rintro ⟨hc, h2⟩
      obtain ⟨_, _, _, hsub, h0, hne, _⟩ := hcand s hc
      refine ⟨s, ⟨(s : Int), hc, by simp⟩, ?_⟩
      rw [prep_unrooted_of_sub all s hsub h0]; simp [hne, h2]
  have hbuild := C01.build_spec (starOf members)
    (((candidates (countAll useW ts) (some m)).map Int.toNat).filterMap (C01.prep all false)) hg
    (by
      intro s hs
      obtain ⟨hc, h2⟩ := (hss s).mp hs
      obtain ⟨_, _, hsubM, _, _, _, _⟩ := hcand s hc
      have hsub' : s &&& Hier.mask (starOf members) = s := by rw [hall]; exact hsubM
      refine ⟨?_, hsub', compat_star members s hsub'⟩
      intro h0; subst h0; simp at h2)
    (by
      intro s hs b hb
      obtain ⟨hcs, _⟩ := (hss s).mp hs
      obtain ⟨hcb, _⟩ := (hss b).mp hb
      obtain ⟨_, _, _, _, _, _, hhs⟩ := hcand s hcs
      obtain ⟨_, _, _, _, _, _, hhb⟩ := hcand b hcb
      obtain ⟨t, ht, h1, h2⟩ := majority_cooccur useW ts s b (fun t ht => (hts t ht).1) hw hhs hhb
      obtain ⟨_, h, hgh, hmh, hcl⟩ := hts t ht
      obtain ⟨c1, hc1, rfl⟩ := (hcl s).mp h1
      obtain ⟨c2, hc2, rfl⟩ := (hcl b).mp h2
      have hsub1 : bits c1 ⊆ bits M := by rw [← hmh]; exact clades_sub h c1 hc1
      have hsub2 : bits c2 ⊆ bits M := by rw [← hmh]; exact clades_sub h c2 hc2
      exact norm_lam M k c1 c2 hsub1 hsub2 (clades_laminar h hgh c1 hc1 c2 hc2))
  unfold consensus C01.build
  refine ⟨hbuild.1, hbuild.2.1.trans hall, ?_⟩
  intro x
  rw [hbuild.2.2 x, hss x]
  constructor
  · rintro (h | ⟨hc, h2⟩)
    · exact Or.inl h
    · obtain ⟨hex, hr, _, _, _, _, _⟩ := hcand x hc
      exact Or.inr ⟨by intro h0; subst h0; simp at h2, hr, hex⟩
  · rintro (h | ⟨hx0, hr, t, ht, hs⟩)
    · exact Or.inl h
    · have hc : (x : Int) ∈ candidates (countAll useW ts) (some m) :=
        (mem_candidates _ _ _).mpr ⟨(counted_iff useW ts _).mpr ⟨t, ht, hs⟩, hr⟩
      obtain ⟨hsub, _, _, _, _⟩ := hnorm t ht x hs
      by_cases h2 : (x - 1) &&& x = 0
      · left
        obtain ⟨j, rfl⟩ := single_bit x hx0 h2
        have hj : j ∈ bits M := (and_eq_left_iff _ _).mp hsub (by rw [bits_shift]; rfl)
        rw [← hall, mask_star_bits] at hj
        exact (mem_clades_star members _).mpr (Or.inr ⟨j, hj, rfl⟩)
      · exact Or.inr ⟨hc, h2⟩

end DendroModel.C05

namespace DendroModel.C05.Aux
open DendroModel DendroModel.Hier DendroModel.C05

theorem toHL_append (a b : List T) : T.toHL (a ++ b) = T.toHL a ++ T.toHL b := by
  induction a with
  | nil => simp [T.toHL]
  | cons c cs ih => simp [T.toHL, ih]

theorem toH_of_cs {t : T} (h : t.cs ≠ []) : T.toH t = .node (T.toHL t.cs) := by
  cases t with
  | node i x l s cs =>
    cases cs with
    | nil => simp [T.cs] at h
    | cons d ds => simp [T.toH, T.cs]

theorem goodL_append_of : ∀ (a b : List Hier.T), GoodL a → GoodL b → maskL a &&& maskL b = 0 → GoodL (a ++ b)
  | [], b, _, hb, _ => by simpa using hb
  | c :: cs, b, ha, hb, hd => by
    simp only [GoodL] at ha
    simp only [List.cons_append, GoodL]
    have hd' := (and_eq_zero_iff _ _).mp hd
    simp only [Hier.maskL, bits_or] at hd'
    refine ⟨ha.1, ha.2.1, ?_, goodL_append_of cs b ha.2.2.2 hb ?_⟩
    · rw [maskL_append, and_eq_zero_iff, bits_or, Set.disjoint_union_right]
      exact ⟨(and_eq_zero_iff _ _).mp ha.2.2.1, (Set.disjoint_union_left.mp hd').1⟩
    · exact (and_eq_zero_iff _ _).mpr (Set.disjoint_union_left.mp hd').2

/-- opening up the basal bifurcation keeps the mask-labelled tree well formed -/
theorem collapseBasal_good (t : T) (hg : Good (T.toH t)) : Good (T.toH t.collapseBasal) := by
  cases t with
  | node i x l s cs =>
    match cs, hg with
    | [], hg => exact hg
    | [_], hg => exact hg
    | _ :: _ :: _ :: _, hg => exact hg
    | [a, b], hg =>
      simp only [T.toH, T.toHL, Good, GoodL, Hier.maskL, Nat.or_zero] at hg
      obtain ⟨hga, ha0, hab, hgb, hb0, _, _⟩ := hg
      simp only [T.collapseBasal]
      split
      · rename_i hb
        have hbne : b.cs ≠ [] := by intro e; rw [e] at hb; simp at hb
        have eb := toH_of_cs hbne
        rw [eb] at hgb hab hb0
        simp only [Good] at hgb
        simp only [Hier.mask] at hab hb0
        simp only [T.toH, T.toHL, Good, GoodL, C01.Aux.withLen_toH]
        exact ⟨hga, ha0, hab, hgb⟩
      · split
        · rename_i ha
          have hane : a.cs ≠ [] := by intro e; rw [e] at ha; simp at ha
          have ea := toH_of_cs hane
          rw [ea] at hga hab ha0
          simp only [Good] at hga
          simp only [Hier.mask] at hab ha0
          have : T.toH (T.node i x l s (a.cs ++ [b.withLen (tryAdd b.len a.len)]))
              = .node (T.toHL a.cs ++ [T.toH b]) := by
            rw [toH_of_cs (by simp [T.cs]), T.cs, toHL_append]; simp [T.toHL, C01.Aux.withLen_toH]
          rw [this]
          simp only [Good]
          apply goodL_append_of _ _ hga
          · simp [GoodL, hgb, hb0, Hier.maskL]
          · simpa [Hier.maskL] using hab
        · simp only [T.toH, T.toHL, Good, GoodL, Hier.maskL, Nat.or_zero]
          exact ⟨hga, ha0, hab, hgb, hb0, by simp, trivial⟩

end DendroModel.C05.Aux

namespace DendroModel.C05
open DendroModel DendroModel.Hier DendroModel.C05.Aux

/-- **Bridge for not-rooted input, every seed.**  For a well-formed tree that is not rooted, whatever its seed looks like as drawn
    (degree 2: the encoding opens it up; degree 1: the encoding suppresses it), as long as the seed of the ENCODED tree has at
    least three children — i.e. the tree is outside the known-finding class "basal bifurcation survives the encoding" — the
    record the driver builds lists every split once, and the splits are exactly the clades of a well-formed hierarchy over the
    tree's leaf set normalised on its lowest taxon bit `k`: the `hts`, `hk`, `hlow` hypotheses of the not-rooted majority theorems. -/
theorem treeRecOf_unrooted_hts (r : Option Bool) (w : Option Rat) (t : T) (hr : r ≠ some true) (hg : Good (T.toH t))
    (h3 : 3 ≤ (C01.encodeTree r true true t).cs.length) :
    ∃ k, k ∈ bits (T.mask t) ∧ (∀ j, j < k → j ∉ bits (T.mask t))
      ∧ (treeRecOf r w t).rooted = false
      ∧ (treeRecOf r w t).splits.Nodup
      ∧ ∃ h : Hier.T, Good h ∧ Hier.mask h = T.mask t ∧
          ∀ x : Nat, (x : Int) ∈ (treeRecOf r w t).splits ↔ ∃ c ∈ clades h, x = Hier.norm (T.mask t) (1 <<< k) c := by
  have hrf : (r == some true) = false := by
    cases r with
    | none => rfl
    | some b => cases b <;> simp_all
  -- the encoded tree is the suppression of a well-formed tree
  obtain ⟨u, hu, hgu⟩ : ∃ u : T, C01.encodeTree r true true t = u.sup ∧ Good (T.toH u) := by
    unfold C01.encodeTree
    by_cases hc : t.cs.length = 2
    · exact ⟨t.collapseBasal, by simp [hc, hr], collapseBasal_good t hg⟩
    · exact ⟨t, by simp [hc], hg⟩
  have hmt : T.mask (C01.encodeTree r true true t) = T.mask t := C01.encode_keeps_leafset r true true t
  have hgs : Good (T.toH (C01.encodeTree r true true t)) := by rw [hu, C01.Aux.sup_toH]; exact Hier.sup_good _ hgu
  have hne2 : (C01.encodeTree r true true t).cs ≠ [] := by intro e; rw [e] at h3; simp at h3
  have hnode := toH_of_cs hne2
  have hlen : 3 ≤ (T.toHL (C01.encodeTree r true true t).cs).length := by rw [C01.Aux.toHL_length]; exact h3
  have hgds : GoodL (T.toHL (C01.encodeTree r true true t).cs) := by rw [hnode] at hgs; simpa [Good] using hgs
  have hmask : maskL (T.toHL (C01.encodeTree r true true t).cs) = T.mask t := by
    have := C01.Aux.toH_mask (C01.encodeTree r true true t)
    rw [hnode, hmt] at this
    simpa [Hier.mask] using this
  have hL0 : T.mask t ≠ 0 := by
    rw [← hmask]
    match T.toHL (C01.encodeTree r true true t).cs, hgds, hlen with
    | a :: rest, hgds, _ =>
      simp only [GoodL] at hgds
      intro hz
      obtain ⟨y, hy⟩ := ne_zero_bits hgds.2.1
      have : y ∈ bits (maskL (a :: rest)) := bits_maskL_subset_of_mem (by simp) hy
      rw [hz, bits_zero] at this; exact this
  have hu0 : Hier.mask (T.toH u) ≠ 0 := by
    have : Hier.mask (T.toH u) = T.mask t := by
      rw [← Hier.sup_mask, ← C01.Aux.sup_toH, ← hu, C01.Aux.toH_mask, hmt]
    rw [this]; exact hL0
  have hnu : NoUnif (T.toH (C01.encodeTree r true true t)) := by
    rw [hu, C01.Aux.sup_toH]; exact Hier.sup_noUnif _ hgu hu0
  obtain ⟨k, hk, hkL, hlow⟩ := C01.lsb_spec (T.mask t) (Nat.pos_of_ne_zero hL0)
  have hs : (treeRecOf r w t).splits
      = ((C01.encodeTree r true true t).masksPost).map (fun (m : Nat) => ((Hier.norm (T.mask t) (1 <<< k) m : Nat) : Int)) := by
    show ((C04.edgeRecs r t).map (·.split)) = _
    unfold C04.edgeRecs
    simp only [List.map_map]
    rw [← edgesPost_fst true (C01.encodeTree r true true t), List.map_map]
    apply List.map_congr_left
    intro e _
    simp only [Function.comp, hrf, hmt]
    rw [C01.split_spec, hk]
    simp
  have hmem : ∀ m, m ∈ (C01.encodeTree r true true t).masksPost
      ↔ m ∈ clades (Hier.T.node (T.toHL (C01.encodeTree r true true t).cs)) := by
    intro m
    rw [← hnode, C01.Aux.toH_clades]
  refine ⟨k, hkL, fun j hj => by simpa [bits] using hlow j hj, by simp [treeRecOf, hrf], ?_,
    .node (T.toHL (C01.encodeTree r true true t).cs), by simpa [Good] using hgds, by simpa [Hier.mask] using hmask, ?_⟩
  · rw [hs]
    have hnd : ((C01.encodeTree r true true t).masksPost).Nodup :=
      (masksPost_perm _).nodup_iff.mpr (clades_nodup _ hgs hnu)
    apply List.Nodup.map_on _ hnd
    intro a ha b hb hab
    have hab' : Hier.norm (maskL (T.toHL (C01.encodeTree r true true t).cs)) (1 <<< k) a
        = Hier.norm (maskL (T.toHL (C01.encodeTree r true true t).cs)) (1 <<< k) b := by
      rw [hmask]; exact_mod_cast hab
    exact norm_inj_on_clades hgds hlen k a b ((hmem a).mp ha) ((hmem b).mp hb) hab'
  · intro y
    rw [hs]
    simp only [List.mem_map]
    constructor
    · rintro ⟨m, hm, hmy⟩
      exact ⟨m, (hmem m).mp hm, by exact_mod_cast hmy.symm⟩
    · rintro ⟨c, hc, rfl⟩
      exact ⟨c, (hmem c).mpr hc, rfl⟩

end DendroModel.C05

namespace DendroModel.C05
open DendroModel DendroModel.Hier DendroModel.C05.Aux
/-- hypotheses of `treeRecOf_unrooted_hts` on a seed of degree 2 that the encoding opens up: the not-rooted drawing (0,(1,2,3)) -/
example : (some false : Option Bool) ≠ some true
    ∧ Good (T.toH (T.node 0 none none none [.node 1 (some 0) none none [],
        .node 2 none none none [.node 3 (some 1) none none [], .node 4 (some 2) none none [], .node 5 (some 3) none none []]]))
    ∧ 3 ≤ (C01.encodeTree (some false) true true (T.node 0 none none none [.node 1 (some 0) none none [],
        .node 2 none none none [.node 3 (some 1) none none [], .node 4 (some 2) none none [], .node 5 (some 3) none none []]])).cs.length := by
  refine ⟨by simp, by simp [T.toH, T.toHL, Good, GoodL, Hier.mask, Hier.maskL], ?_⟩
  simp [C01.encodeTree, T.cs, T.collapseBasal, T.sup, T.supL, T.withLen, tryAdd, addLen, T.len]
end DendroModel.C05

namespace DendroModel.C05.Aux
open DendroModel DendroModel.Hier DendroModel.C05

def ids (t : T) : List Nat := (T.nodes t).map T.id
def idsL (cs : List T) : List Nat := (T.nodesL cs).map T.id

theorem ids_node (i : Nat) (x : Option Nat) (l : Option Frac) (s : Option String) (cs : List T) :
    ids (.node i x l s cs) = i :: idsL cs := by simp [ids, idsL, T.nodes, T.id]
theorem idsL_cons (c : T) (cs : List T) : idsL (c :: cs) = ids c ++ idsL cs := by simp [ids, idsL, T.nodesL]
theorem idsL_nil : idsL [] = [] := rfl
theorem idsL_append (a b : List T) : idsL (a ++ b) = idsL a ++ idsL b := by
  induction a with
  | nil => simp [idsL_nil]
  | cons c cs ih => simp [idsL_cons, ih]
theorem ids_withLen (t : T) (l : Option Frac) : ids (t.withLen l) = ids t := by
  cases t with
  | node i x l' s cs => simp [T.withLen, ids_node]
theorem ids_eq (t : T) : ids t = t.id :: idsL t.cs := by
  cases t with
  | node i x l s cs => simp [ids_node, T.id, T.cs]

mutual
theorem sup_ids : ∀ t : T, (ids t.sup).Sublist (ids t)
  | .node i x l s cs => by
    have ih := supL_ids cs
    simp only [T.sup]
    split
    · rename_i c hc
      rw [hc, idsL_cons, idsL_nil, List.append_nil] at ih
      rw [ids_withLen, ids_node]
      exact List.Sublist.cons _ ih
    · rw [ids_node, ids_node]; exact List.Sublist.cons_cons _ ih
theorem supL_ids : ∀ cs : List T, (idsL (T.supL cs)).Sublist (idsL cs)
  | [] => by simp [T.supL]
  | c :: cs => by
    simp only [T.supL, idsL_cons]
    exact List.Sublist.append (sup_ids c) (supL_ids cs)
end

theorem collapseBasal_ids (t : T) : (ids t.collapseBasal).Sublist (ids t) := by
  cases t with
  | node i x l s cs =>
    match cs with
    | [] => exact List.Sublist.refl _
    | [_] => exact List.Sublist.refl _
    | _ :: _ :: _ :: _ => exact List.Sublist.refl _
    | [a, b] =>
      simp only [T.collapseBasal]
      split
      · simp only [ids_node, idsL_cons, idsL_nil, List.append_nil, ids_withLen]
        apply List.Sublist.cons_cons
        apply List.Sublist.append (List.Sublist.refl _)
        rw [ids_eq b]; exact List.sublist_cons_self _ _
      · split
        · simp only [ids_node, idsL_cons, idsL_nil, List.append_nil, ids_withLen, idsL_append]
          apply List.Sublist.cons_cons
          apply List.Sublist.append _ (List.Sublist.refl _)
          rw [ids_eq a]; exact List.sublist_cons_self _ _
        · exact List.Sublist.refl _

theorem encodeTree_ids (r : Option Bool) (t : T) : (ids (C01.encodeTree r true true t)).Sublist (ids t) := by
  unfold C01.encodeTree
  simp only [if_true]
  split
  · exact (sup_ids _).trans (collapseBasal_ids t)
  · exact sup_ids t

mutual
theorem anyWeakLeaf_false (weak : Nat → Bool) : ∀ t : T,
    (∀ nd ∈ T.nodes t, nd.cs = [] → weak nd.id = false) → anyWeakLeaf weak t = false
  | .node i x l s [], h => by
    simp only [anyWeakLeaf]
    exact h (.node i x l s []) (by simp [T.nodes]) rfl
  | .node i x l s (c :: cs), h => by
    simp only [anyWeakLeaf]
    exact anyWeakLeafL_false weak (c :: cs) (fun nd hnd => h nd (by simp only [T.nodes, List.mem_cons]; exact Or.inr hnd))
theorem anyWeakLeafL_false (weak : Nat → Bool) : ∀ cs : List T,
    (∀ nd ∈ T.nodesL cs, nd.cs = [] → weak nd.id = false) → anyWeakLeafL weak cs = false
  | [], _ => by simp [anyWeakLeafL]
  | c :: cs, h => by
    simp only [anyWeakLeafL, Bool.or_eq_false_iff]
    exact ⟨anyWeakLeaf_false weak c (fun nd hnd => h nd (by simp only [T.nodesL, List.mem_append]; exact Or.inl hnd)),
      anyWeakLeafL_false weak cs (fun nd hnd => h nd (by simp only [T.nodesL, List.mem_append]; exact Or.inr hnd))⟩
end

/-- with distinct ids, a node is flagged iff its own split is below the threshold -/
theorem weak_iff (sd : SD) (mf : Rat) (r : Option Bool) (t2 : T) (hnd : ((T.nodes t2).map T.id).Nodup) (nd : T) (hm : nd ∈ T.nodes t2) :
    (weakIdsOf sd mf r t2).contains nd.id = true ↔ freq sd (C01.splitOf (r == some true) (T.mask t2) nd.mask) < mf := by
  rw [List.contains_iff_mem]
  unfold weakIdsOf
  simp only [List.mem_map, List.mem_filter, decide_eq_true_eq]
  constructor
  · rintro ⟨nd', ⟨hnd', hlt⟩, hid⟩
    have : nd' = nd := List.inj_on_of_nodup_map hnd hnd' hm hid
    rw [this] at hlt; exact hlt
  · intro hlt; exact ⟨nd, ⟨hm, hlt⟩, rfl⟩

end DendroModel.C05.Aux

namespace DendroModel.C05
open DendroModel DendroModel.Hier DendroModel.C05.Aux

/-- every tree the driver parses, and its encoded form, has pairwise distinct node ids -/
theorem parsed_encoded_ids_distinct (toks rest : List String) (t : T) (r : Option Bool)
    (hp : parseTree toks = some (t, rest)) : ((T.nodes (C01.encodeTree r true true t)).map T.id).Nodup := by
  obtain ⟨f, par, tax, lens, labs, root, _, rfl, hr⟩ := C15.BuildAux.parseTree_build toks t rest hp
  have h := C15.BuildAux.ids_nodup par tax lens labs f root (C15.BuildAux.acyc_root par root hr)
  exact List.Nodup.sublist (encodeTree_ids r _) h

/-- **Collapse on parsed input: exactly the weak internal edges, nothing assumed.**  For every target the driver parses, when
    `collapseBelow` answers, the internal non-root nodes left are exactly those of the encoded target whose split frequency is
    at least the threshold (same ids, leaf sets, order), and every root-to-tip distance is kept. -/
theorem collapse_parsed_exact (toks rest : List String) (t t' : T) (sd : SD) (mf : Rat) (r : Option Bool)
    (hp : parseTree toks = some (t, rest)) (hc : collapseBelow sd mf r t = some t') :
    (∀ p, p ∈ innerL t'.cs ↔ (p ∈ innerL (C01.encodeTree r true true t).cs
        ∧ freq sd (C01.splitOf (r == some true) (T.mask (C01.encodeTree r true true t)) p.2) ≥ mf))
    ∧ tips 0 t' = tips 0 (C01.encodeTree r true true t) :=
  ⟨(collapse_removes_exactly sd mf r t t' hc).2.2.2 (parsed_encoded_ids_distinct toks rest t r hp),
   collapse_keeps_root_tip_parsed toks rest t t' sd mf r hp hc⟩

/-- **When the call answers.**  On parsed input `collapseBelow` answers (does not refuse) whenever no leaf edge of the encoded
    target is below the threshold — in particular for every threshold ≤ the smallest leaf-split frequency. -/
theorem collapseBelow_total (toks rest : List String) (t : T) (sd : SD) (mf : Rat) (r : Option Bool)
    (hp : parseTree toks = some (t, rest))
    (hleaf : ∀ nd ∈ T.nodes (C01.encodeTree r true true t), nd.cs = [] →
        freq sd (C01.splitOf (r == some true) (T.mask (C01.encodeTree r true true t)) nd.mask) ≥ mf) :
    ∃ t', collapseBelow sd mf r t = some t' := by
  have hnd := parsed_encoded_ids_distinct toks rest t r hp
  unfold collapseBelow
  simp only
  have : anyWeakLeaf (fun i => (weakIdsOf sd mf r (C01.encodeTree r true true t)).contains i) (C01.encodeTree r true true t) = false := by
    apply anyWeakLeaf_false
    intro nd hm hcs
    by_contra hw
    have hw' : (weakIdsOf sd mf r (C01.encodeTree r true true t)).contains nd.id = true := by simpa using hw
    have := (weak_iff sd mf r _ hnd nd hm).mp hw'
    exact absurd (hleaf nd hm hcs) (not_le.mpr this)
  rw [this]
  exact ⟨_, rfl⟩

end DendroModel.C05

namespace DendroModel.C05
open DendroModel DendroModel.Hier DendroModel.C05.Aux
/-- non-vacuity below the parser (the kernel cannot run `String.toNat?`): the encoded form of the concrete tree `exT` has distinct
    ids, and with an empty distribution and threshold 0 no leaf edge is below the threshold — the hypotheses under which
    `collapse_parsed_exact` / `collapseBelow_total` speak -/
example : ((T.nodes (C01.encodeTree (some true) true true exT)).map T.id).Nodup
    ∧ ∀ nd ∈ T.nodes (C01.encodeTree (some true) true true exT), nd.cs = [] →
        freq { useWeights := false } (C01.splitOf ((some true : Option Bool) == some true) (T.mask (C01.encodeTree (some true) true true exT)) nd.mask) ≥ 0 := by
  refine ⟨List.Nodup.sublist (encodeTree_ids (some true) exT) (by decide), ?_⟩
  intro nd _ _
  simp [freq, countOf]
end DendroModel.C05

namespace DendroModel.C05.Aux
open DendroModel DendroModel.Hier DendroModel.C05

theorem sum_filter_split (f : TreeRec → Rat) (p : TreeRec → Bool) : ∀ l : List TreeRec,
    ((l.filter p).map f).sum + ((l.filter (fun t => !p t)).map f).sum = (l.map f).sum
  | [] => by simp
  | t :: l => by
    have ih := sum_filter_split f p l
    simp only [List.filter_cons]
    cases hp : p t <;> simp <;> linarith

theorem reaches_one_iff (f : Rat) : reaches 1 f ↔ 1 - (1 : Rat) / 10000000 ≤ f := by
  unfold reaches C04.absR
  constructor
  · rintro (h | ⟨_, h⟩)
    · linarith
    · split at h <;> linarith
  · intro h
    by_cases h1 : f ≥ 1
    · exact Or.inl h1
    · right
      refine ⟨by norm_num, ?_⟩
      have : f - 1 < 0 := by linarith
      simp only [this, if_true]; linarith

end DendroModel.C05.Aux

namespace DendroModel.C05
open DendroModel DendroModel.Hier DendroModel.C05.Aux

/-- **Strict consensus under arbitrary non-negative weights.**  Threshold exactly 1 (tested by the code with a 1e-7 tolerance),
    positive total weight, rooted records over a namespace whose `all` contains the members' bits: the consensus holds exactly
    the star's clades plus the splits for which the total weight of the trees LACKING the split is at most 1e-7 of the total
    weight — and nothing else is admitted by the tolerance. -/
theorem strict_consensus_weighted (useW : Bool) (ts : List TreeRec) (all : Nat) (members : List Nat)
    (hw : ∀ t ∈ ts, 0 ≤ wt useW t) (hW : 0 < (ts.map (wt useW)).sum)
    (hg : Good (starOf members)) (hsubAll : bits (Hier.mask (starOf members)) ⊆ bits all)
    (hts : ∀ t ∈ ts, t.splits.Nodup ∧ ∃ h : Hier.T, Good h ∧ Hier.mask h = Hier.mask (starOf members) ∧
              ∀ x : Nat, (x : Int) ∈ t.splits ↔ x ∈ clades h) :
    ∀ x, x ∈ clades (consensus (countAll useW ts) (some 1) all members true)
        ↔ x ∈ clades (starOf members)
          ∨ ((∃ t ∈ ts, (x : Int) ∈ t.splits)
              ∧ ((ts.filter (fun t => !decide ((x : Int) ∈ t.splits))).map (wt useW)).sum
                  ≤ (ts.map (wt useW)).sum / 10000000) := by
  intro x
  rw [(majority_consensus_reaches_ns useW ts 1 all members (by norm_num) hw hg hsubAll hts).2.2 x]
  apply or_congr Iff.rfl
  constructor
  · rintro ⟨hr, hex⟩
    refine ⟨hex, ?_⟩
    rw [reaches_one_iff, freq_weighted_contains useW ts _ (fun t ht => (hts t ht).1) hex] at hr
    have hne : (ts.map (wt useW)).sum ≠ 0 := ne_of_gt hW
    simp only [hne, if_false] at hr
    rw [le_div_iff₀ hW] at hr
    have := sum_filter_split (wt useW) (fun t => decide ((x : Int) ∈ t.splits)) ts
    linarith
  · rintro ⟨hex, hl⟩
    refine ⟨?_, hex⟩
    rw [reaches_one_iff, freq_weighted_contains useW ts _ (fun t ht => (hts t ht).1) hex]
    have hne : (ts.map (wt useW)).sum ≠ 0 := ne_of_gt hW
    simp only [hne, if_false]
    rw [le_div_iff₀ hW]
    have := sum_filter_split (wt useW) (fun t => decide ((x : Int) ∈ t.splits)) ts
    linarith

/-- … hence, when every tree's weight exceeds 1e-7 of the total, exactly the splits present in EVERY tree -/
theorem strict_consensus_weighted_exact (useW : Bool) (ts : List TreeRec) (all : Nat) (members : List Nat)
    (hbig : ∀ t ∈ ts, (ts.map (wt useW)).sum / 10000000 < wt useW t) (hW : 0 < (ts.map (wt useW)).sum)
    (hg : Good (starOf members)) (hsubAll : bits (Hier.mask (starOf members)) ⊆ bits all)
    (hts : ∀ t ∈ ts, t.splits.Nodup ∧ ∃ h : Hier.T, Good h ∧ Hier.mask h = Hier.mask (starOf members) ∧
              ∀ x : Nat, (x : Int) ∈ t.splits ↔ x ∈ clades h) :
    ∀ x, x ∈ clades (consensus (countAll useW ts) (some 1) all members true)
        ↔ x ∈ clades (starOf members) ∨ ((∃ t ∈ ts, (x : Int) ∈ t.splits) ∧ ∀ t ∈ ts, (x : Int) ∈ t.splits) := by
  have hpos : ∀ t ∈ ts, 0 ≤ wt useW t := by
    intro t ht
    have : 0 < (ts.map (wt useW)).sum / 10000000 := by positivity
    linarith [hbig t ht]
  intro x
  rw [strict_consensus_weighted useW ts all members hpos hW hg hsubAll hts x]
  apply or_congr Iff.rfl
  apply and_congr_right
  intro _
  constructor
  · intro hl t ht
    by_contra hx
    have hmem : t ∈ ts.filter (fun t => !decide ((x : Int) ∈ t.splits)) := by simp [List.mem_filter, ht, hx]
    have hge : wt useW t ≤ ((ts.filter (fun t => !decide ((x : Int) ∈ t.splits))).map (wt useW)).sum := by
      apply List.single_le_sum
      · intro y hy
        obtain ⟨t', ht', rfl⟩ := List.mem_map.mp hy
        exact hpos t' (List.mem_filter.mp ht').1
      · exact List.mem_map.mpr ⟨t, hmem, rfl⟩
    linarith [hbig t ht]
  · intro hall'
    have : ts.filter (fun t => !decide ((x : Int) ∈ t.splits)) = [] := by
      apply List.filter_eq_nil_iff.mpr
      intro t ht; simp [hall' t ht]
    rw [this]; simp
    positivity

/-- hypotheses of the weighted strict-consensus theorems: two copies of (0,(1,2)) with weights 1/2 and 2 -/
example : (∀ t ∈ [{ exRec with weight := some (1 / 2) }, { exRec with weight := some 2 }],
      ([{ exRec with weight := some (1 / 2) }, { exRec with weight := some 2 }].map (wt true)).sum / 10000000 < wt true t)
    ∧ 0 < ([{ exRec with weight := some (1 / 2) }, { exRec with weight := some 2 }].map (wt true)).sum := by
  constructor
  · intro t ht; simp at ht; rcases ht with rfl | rfl <;> norm_num [wt]
  · norm_num [wt]

end DendroModel.C05

namespace DendroModel.C05.Aux
open DendroModel DendroModel.Hier DendroModel.C05

theorem absR_eq (x : Rat) : C05Kernels.ratAbs x = C04.absR x := rfl

set_option linter.unusedSimpArgs false in
/-- the keep test of the source, whatever the order of its operands, is the model's -/
theorem keep_eq (mf : Option Rat) (f : Rat) :
    C05Kernels.consensus_keep mf f
      = (match mf with
         | none => true
         | some m => decide (f ≥ m) || (decide (C04.absR (m - 1) ≤ (1 : Rat) / 10000000) && decide (C04.absR (f - 1) ≤ (1 : Rat) / 10000000))) := by
  cases mf with
  | none => rfl
  | some m =>
    simp only [C05Kernels.consensus_keep, C05Kernels.almost_one, absR_eq]
    by_cases h1 : f ≥ m <;> by_cases h2 : C04.absR (m - 1) ≤ (1 : Rat) / 10000000 <;>
      by_cases h3 : C04.absR (f - 1) ≤ (1 : Rat) / 10000000 <;> simp [h1, h2, h3]

theorem pop_fold (l : List Rat) : ∀ (n s ss : Rat),
    l.foldl (fun a v => C05Kernels.pop_step a.1 a.2.1 a.2.2 v) (n, s, ss)
      = (n + (l.length : Rat), s + l.sum, ss + (l.map (fun v => v * v)).sum) := by
  induction l with
  | nil => intro n s ss; simp
  | cons v l ih =>
    intro n s ss
    rw [List.foldl_cons]
    show List.foldl _ (n + 1, s + v, ss + v * v) l = _
    rw [ih]
    simp only [List.length_cons, List.sum_cons, List.map_cons, Nat.cast_add, Nat.cast_one]
    refine Prod.ext ?_ (Prod.ext ?_ ?_) <;> simp only <;> ring

theorem lookupIn_map_snd {α β : Type} (g : α → β) (d : List (Int × α)) (s : Int) :
    lookupIn (d.map (fun p => (p.1, g p.2))) s = (lookupIn d s).map g := by
  induction d with
  | nil => simp [lookupIn]
  | cons p d ih =>
    unfold lookupIn at ih ⊢
    simp only [List.map_cons, List.find?_cons]
    by_cases h : p.1 == s
    · simp [h]
    · simp only [h]; exact ih

/-- every entry of the length table of a counted distribution is non-empty -/
def LensNE (d : List (Int × List Rat)) : Prop := ∀ p ∈ d, p.2 ≠ []

theorem addLenRec_ne (d : List (Int × List Rat)) (k : Int) (x : Rat) (h : LensNE d) : LensNE (addLenRec d k x) := by
  induction d with
  | nil => intro p hp; simp [addLenRec] at hp; subst hp; simp
  | cons q rest ih =>
    intro p hp
    simp only [addLenRec] at hp
    split at hp
    · rcases List.mem_cons.mp hp with rfl | hp
      · simp
      · exact h p (List.mem_cons_of_mem _ hp)
    · rcases List.mem_cons.mp hp with rfl | hp
      · exact h _ (List.mem_cons_self ..)
      · exact ih (fun p hp => h p (List.mem_cons_of_mem _ hp)) p hp

theorem fold_lens_ne : ∀ (ps : List (Int × Rat)) (d : List (Int × List Rat)), LensNE d →
    LensNE (ps.foldl (fun d p => addLenRec d p.1 p.2) d)
  | [], d, h => h
  | p :: ps, d, h => by rw [List.foldl_cons]; exact fold_lens_ne ps _ (addLenRec_ne d p.1 p.2 h)

theorem countAll_lens_ne (useW : Bool) (ts : List TreeRec) : LensNE (countAll useW ts).lengths := by
  unfold countAll
  have : ∀ (ts : List TreeRec) (sd : SD), LensNE sd.lengths → LensNE (ts.foldl countTree sd).lengths := by
    intro ts
    induction ts with
    | nil => intro sd h; exact h
    | cons t ts ih =>
      intro sd h
      rw [List.foldl_cons]
      apply ih
      simp only [countTree]
      exact fold_lens_ne _ _ h
  apply this
  intro p hp; simp at hp

theorem summaryTable_lookup (sd : SD) (h : LensNE sd.lengths) (s : Int) :
    lookupIn (summaryTable sd) s = (lookupIn sd.lengths s).map stats := by
  unfold summaryTable
  have : sd.lengths.filter (fun p => !p.2.isEmpty) = sd.lengths := by
    apply List.filter_eq_self.mpr
    intro p hp
    have := h p hp
    cases hp2 : p.2 with
    | nil => exact absurd hp2 this
    | cons _ _ => simp
  rw [this]
  exact lookupIn_map_snd stats sd.lengths s

end DendroModel.C05.Aux

namespace DendroModel.C05
open DendroModel DendroModel.Hier DendroModel.C05.Aux

/-! ## Tie A — the kernels regenerated from the current source (`Gen/C05Kernels.lean`) are the model's -/

/-- `count_splits_on_tree`: the weight a tree is counted with -/
theorem kernel_weight (sd : SD) (t : TreeRec) : weightOf sd t = C05Kernels.weight_to_use t.weight sd.useWeights := by
  unfold weightOf C05Kernels.weight_to_use
  cases t.weight <;> simp

/-- `calc_normalization_weight` and the value `calc_freqs` stores for a split -/
theorem kernel_freq (sd : SD) (s : Int) :
    normW sd = C05Kernels.calc_normalization_weight sd.useWeights sd.sumW sd.total
    ∧ freq sd s = (match countOf sd.counts s with
        | none => 0
        | some c => C05Kernels.calc_freqs_value sd.total c (C05Kernels.calc_normalization_weight sd.useWeights sd.sumW sd.total)) := by
  have h1 : normW sd = C05Kernels.calc_normalization_weight sd.useWeights sd.sumW sd.total := by
    unfold normW C05Kernels.calc_normalization_weight
    by_cases h : sd.sumW = 0 <;> simp [h]
  refine ⟨h1, ?_⟩
  unfold freq C05Kernels.calc_freqs_value
  rw [← h1]
  cases countOf sd.counts s with
  | none => rfl
  | some c =>
    by_cases h : sd.total = 0 <;> simp [h]

/-- the caches: when each table is recalculated, what `calc_freqs` stamps and drops, and that both summary tables are tested
    against the one counter `_trees_counted_for_summaries` -/
theorem kernel_cache (c : Cached) :
    c.getFreqs.1 = (if C05Kernels.freqs_stale c.freqs.isSome c.countedForFreqs c.sd.total then c.calcFreqs else c)
    ∧ c.getSummaries.1 = (if C05Kernels.length_summaries_stale c.summaries.isSome c.countedForSummaries c.sd.total
                          then { c with summaries := some (summaryTable c.sd) } else c)
    ∧ c.getAges = (if C05Kernels.age_summaries_stale c.ages.isSome c.countedForSummaries c.sd.total
                          then { c with ages := some () } else c)
    ∧ C05Kernels.calc_freqs_stamps = [("_split_edge_length_summaries", "None"), ("_split_node_age_summaries", "None"),
                                       ("_trees_counted_for_freqs", "total_trees_counted")]
    ∧ C05Kernels.freqs_stale_counter = "_trees_counted_for_freqs"
    ∧ C05Kernels.length_summaries_stale_counter = "_trees_counted_for_summaries"
    ∧ C05Kernels.age_summaries_stale_counter = "_trees_counted_for_summaries"
    ∧ C05Kernels.freqs_stale_recalc = ["self.calc_freqs"]
    ∧ C05Kernels.length_summaries_stale_recalc = ["self.calc_split_edge_length_summaries"]
    ∧ C05Kernels.age_summaries_stale_recalc = ["self.calc_split_node_age_summaries"] := by
  refine ⟨?_, ?_, ?_, by decide, by decide, by decide, by decide, by decide, by decide, by decide⟩
  · unfold Cached.getFreqs C05Kernels.freqs_stale
    cases hf : c.freqs with
    | none => simp
    | some tbl =>
      by_cases h : c.countedForFreqs = c.sd.total <;> simp [h]
  · unfold Cached.getSummaries C05Kernels.length_summaries_stale
    cases hf : c.summaries with
    | none => simp
    | some tbl =>
      by_cases h : c.countedForSummaries = c.sd.total <;> simp [h]
  · unfold Cached.getAges C05Kernels.age_summaries_stale
    cases hf : c.ages with
    | none => simp
    | some tbl =>
      by_cases h : c.countedForSummaries = c.sd.total <;> simp [h]

set_option linter.unnecessarySeqFocus false in
/-- `consensus_tree`: the keep test (`min_freq is None`, `>=`, the `_almost_one` clause with its 1e-7), pairs `(freq, split)`
    sorted with `reverse=True`, the split projected -/
theorem kernel_candidates (sd : SD) (mf : Option Rat) :
    candidates sd mf
      = (sortDesc ((sd.counts.filter (fun p => C05Kernels.consensus_keep mf (freq sd p.1))).map (fun p => (freq sd p.1, p.1)))).map (·.2)
    ∧ C05Kernels.consensus_key_freq_pos = 0 ∧ C05Kernels.consensus_sort_reverse = true := by
  refine ⟨?_, rfl, rfl⟩
  simp only [keep_eq] <;> rfl

/-- the default threshold `constants.GREATER_THAN_HALF` of every consensus / collapse entry point: at least one half, at most
    1e-15 above it, and outside the tolerance clause — so a default-threshold consensus admits exactly the splits of frequency
    `≥ greater_than_half` (`candidates_threshold`) and never one below one half -/
theorem kernel_default_threshold :
    (1 : Rat) / 2 ≤ C05Kernels.greater_than_half ∧ C05Kernels.greater_than_half ≤ 1 / 2 + 1 / 1000000000000000
    ∧ ¬ C04.absR (C05Kernels.greater_than_half - 1) ≤ (1 : Rat) / 10000000
    ∧ C05Kernels.default_use_tree_weights = true := by
  refine ⟨?_, ?_, ?_, rfl⟩ <;> norm_num [C05Kernels.greater_than_half, C04.absR]

/-- `collapse_edges_with_less_than_minimum_support`: for a positive threshold the node test of the code (absent from the table, or
    frequency `<` threshold) is the model's `freq < threshold`; the two rooting refusals are the model's -/
theorem kernel_collapse (sd : SD) (mf : Rat) (s : Int) (r : Option Bool) (h : 0 < mf) :
    C05Kernels.collapse_flag (countOf sd.counts s).isSome (freq sd s) mf = decide (freq sd s < mf)
    ∧ collapseRefuses sd r = C05Kernels.collapse_refuses (r == some true)
        (C05Kernels.all_rooted (sd.rootings.contains true) (sd.rootings.contains false) sd.rootings.length)
        (C05Kernels.none_rooted (sd.rootings.contains true) (sd.rootings.contains false) sd.rootings.length) := by
  constructor
  · unfold C05Kernels.collapse_flag freq
    cases countOf sd.counts s with
    | none => simp [h]
    | some c => simp
  · unfold collapseRefuses C05Kernels.collapse_refuses allRooted noneRooted C05Kernels.all_rooted C05Kernels.none_rooted
    by_cases hl : sd.rootings.length = 1 <;> simp [hl]

/-- which splits enter a tree's score, when the maximiser moves (strictly better only: the first maximum stays), and that only the
    product skips zero supports -/
theorem kernel_scores (incl : Bool) (t : TreeRec) (s : Int) (best y : Rat) (bi i : Nat) (ys : List Rat) :
    scored incl t s = C05Kernels.sum_scored incl s t.leafset (C01.isTrivial s t.leafset)
    ∧ scored incl t s = C05Kernels.prod_scored incl s t.leafset (C01.isTrivial s t.leafset)
    ∧ argmaxFirst.go best bi i (y :: ys)
        = (if C05Kernels.sum_better (some best) y then argmaxFirst.go y i (i + 1) ys else argmaxFirst.go best bi (i + 1) ys)
    ∧ C05Kernels.prod_better = C05Kernels.sum_better
    ∧ C05Kernels.sum_better none y = true
    ∧ C05Kernels.sum_skips_zero = false ∧ C05Kernels.prod_skips_zero = true
    ∧ C05Kernels.sum_accumulates = "id" ∧ C05Kernels.prod_accumulates = "log" := by
  refine ⟨?_, ?_, ?_, ?_, rfl, rfl, rfl, by decide, by decide⟩
  · rfl
  · rfl
  · simp [argmaxFirst.go, C05Kernels.sum_better]
  · funext a b; cases a <;> rfl

/-- the summariser: percentage factor, the defaults `configure` restores on every call, no-data values, the minimum-length clamp -/
theorem kernel_summarizer (sd : SD) (pct : Bool) (s : Int) (f : Stats → Rat) (m x : Rat) :
    supportOf sd pct s = (if pct then C05Kernels.support_percent (freq sd s) else freq sd s)
    ∧ summaryField sd s f = ((lookupIn (summaryTable sd) s).map f).getD C05Kernels.no_data_length_mean
    ∧ C05Kernels.no_data_length_median = C05Kernels.no_data_length_mean
    ∧ clampLen (some m) (some x) = (if C05Kernels.clamp_applies x m then some m else some x)
    ∧ ({} : SummOpts).decimals = C05Kernels.default_support_label_decimals
    ∧ ({} : SummOpts).pct = C05Kernels.default_support_as_percentages
    ∧ ({} : SummOpts).label = C05Kernels.default_set_support_as_node_label
    ∧ (({} : SummOpts).mode = .keep ∧ C05Kernels.default_set_edge_lengths_is_none = true)
    ∧ (({} : SummOpts).minLen = none ∧ C05Kernels.default_minimum_edge_length_is_none = true)
    ∧ C05Kernels.default_add_support_as_node_attribute = true ∧ C05Kernels.label_is_fixed_point = true := by
  refine ⟨?_, rfl, rfl, ?_, rfl, rfl, rfl, ⟨rfl, rfl⟩, ⟨rfl, rfl⟩, rfl, rfl⟩
  · unfold supportOf C05Kernels.support_percent; rfl
  · unfold clampLen C05Kernels.clamp_applies; simp

/-- `statistics._mean_and_variance_pop_n` / `mean_and_sample_variance`: the one-pass accumulators give the model's mean and variance -/
theorem kernel_stats (l : List Rat) (hl : l ≠ []) :
    let acc := l.foldl (fun a v => C05Kernels.pop_step a.1 a.2.1 a.2.2 v) ((0 : Rat), (0 : Rat), (0 : Rat))
    acc.1 = (l.length : Rat)
    ∧ (stats l).mean = C05Kernels.pop_mean acc.1 acc.2.1 acc.2.2
    ∧ (stats l).var = C05Kernels.samp_var acc.1 (C05Kernels.pop_var acc.1 acc.2.1 acc.2.2) := by
  intro acc
  have hacc : acc = ((l.length : Rat), l.sum, (l.map (fun v => v * v)).sum) := by
    show l.foldl _ _ = _
    rw [pop_fold]; simp
  rw [hacc]
  refine ⟨rfl, ?_, ?_⟩
  · simp [stats, mean, C05Kernels.pop_mean]
  · simp only [stats, C05Kernels.samp_var, C05Kernels.pop_var, sampleVar]
    have hpos : 1 ≤ l.length := by
      cases l with
      | nil => exact absurd rfl hl
      | cons _ _ => simp
    by_cases h1 : l.length = 1
    · simp [h1]
    · have h2 : 2 ≤ l.length := by omega
      have h3 : ¬ ((l.length : Rat) = 1) := by
        intro e; exact h1 (by exact_mod_cast e)
      simp [h2, h1]

/-- `statistics.median`: parity test and index arithmetic (`int(size/2)` truncation) are the model's -/
theorem kernel_median (l : List Rat) :
    median l = (let s := sortAsc l
                let n : Int := (s.length : Int)
                if C05Kernels.median_is_odd n then s.getD (C05Kernels.median_idx n).toNat 0
                else C05Kernels.median_combine (s.getD (C05Kernels.median_idx1 n).toNat 0) (s.getD (C05Kernels.median_idx2 n).toNat 0)) := by
  simp only [median, C05Kernels.median_is_odd, C05Kernels.median_idx, C05Kernels.median_idx1, C05Kernels.median_idx2,
    C05Kernels.median_combine]
  generalize (sortAsc l).length = n
  have e1 : Int.fmod (n : Int) 2 = ((n % 2 : Nat) : Int) := by
    rw [Int.fmod_eq_emod_of_nonneg _ (by norm_num)]; omega
  have e2 : (Int.tdiv ((n : Int) - 1) 2).toNat = (n - 1) / 2 := by
    rcases Nat.eq_zero_or_pos n with rfl | hn
    · simp
    · rw [Int.tdiv_eq_ediv_of_nonneg (by omega)]; omega
  have e3 : (Int.tdiv (n : Int) 2).toNat = n / 2 := by
    rw [Int.tdiv_eq_ediv_of_nonneg (by omega)]; omega
  have e4 : (Int.tdiv (n : Int) 2 - 1).toNat = n / 2 - 1 := by
    rw [Int.tdiv_eq_ediv_of_nonneg (by omega)]; omega
  simp only [e1, e2, e3, e4]
  by_cases h : n % 2 = 1
  · simp [h]
  · have : ¬ ((n : Int) % 2 = 1) := by omega
    simp [h, this]

/-! ## The annotation step -/

/-- **Nearest integer, ties to even** — the scaled integer behind a support label: at most one half away, and exactly one half
    away only from an even result. -/
theorem roundHalfEven_spec (q : Rat) :
    |((roundHalfEven q : Int) : Rat) - q| ≤ 1 / 2
    ∧ (|((roundHalfEven q : Int) : Rat) - q| = 1 / 2 → roundHalfEven q % 2 = 0) := by
  have hd : (0 : Int) < (q.den : Int) := by exact_mod_cast q.den_pos
  have hdq : (0 : Rat) < (q.den : Rat) := by exact_mod_cast q.den_pos
  set f := q.num / (q.den : Int) with hf
  set r := q.num % (q.den : Int) with hr
  have hr0 : 0 ≤ r := Int.emod_nonneg _ (ne_of_gt hd)
  have hr1 : r < (q.den : Int) := Int.emod_lt_of_pos _ hd
  have hnum : q.num = (q.den : Int) * f + r := (Int.mul_ediv_add_emod q.num q.den).symm
  have hq : q = (f : Rat) + (r : Rat) / (q.den : Rat) := by
    have : (q.num : Rat) = (q.den : Rat) * f + r := by exact_mod_cast hnum
    calc q = (q.num : Rat) / (q.den : Rat) := (Rat.num_div_den q).symm
      _ = ((q.den : Rat) * f + r) / (q.den : Rat) := by rw [this]
      _ = (f : Rat) + (r : Rat) / (q.den : Rat) := by field_simp
  have hr0' : (0 : Rat) ≤ (r : Rat) / q.den := by
    apply div_nonneg _ hdq.le; exact_mod_cast hr0
  unfold roundHalfEven
  simp only [← hf, ← hr]
  by_cases c1 : 2 * r < (q.den : Int)
  · simp only [c1, if_true]
    have : (r : Rat) / q.den < 1 / 2 := by
      rw [div_lt_iff₀ hdq]
      have : ((2 * r : Int) : Rat) < ((q.den : Int) : Rat) := by exact_mod_cast c1
      push_cast at this; linarith
    constructor
    · rw [abs_le]; constructor <;> linarith [hq]
    · intro habs
      rw [abs_eq (by norm_num)] at habs
      rcases habs with e | e <;> linarith [hq]
  · simp only [c1, if_false]
    by_cases c2 : 2 * r > (q.den : Int)
    · simp only [c2, if_true]
      have h1 : (1 : Rat) / 2 < (r : Rat) / q.den := by
        rw [lt_div_iff₀ hdq]
        have : ((q.den : Int) : Rat) < ((2 * r : Int) : Rat) := by exact_mod_cast c2
        push_cast at this; linarith
      have h2 : (r : Rat) / q.den < 1 := by
        rw [div_lt_one hdq]; exact_mod_cast hr1
      constructor
      · rw [abs_le]; push_cast; constructor <;> linarith [hq]
      · intro habs
        rw [abs_eq (by norm_num)] at habs
        push_cast at habs
        rcases habs with e | e <;> linarith [hq]
    · simp only [c2, if_false]
      have heq : 2 * r = (q.den : Int) := by omega
      have h1 : (r : Rat) / q.den = 1 / 2 := by
        rw [div_eq_iff (ne_of_gt hdq)]
        have : ((2 * r : Int) : Rat) = ((q.den : Int) : Rat) := by exact_mod_cast heq
        push_cast at this; linarith
      by_cases c3 : f % 2 = 0
      · have c3' : (f % 2 == 0) = true := by simpa using c3
        simp only [c3', if_true]
        constructor
        · rw [abs_le]; constructor <;> linarith [hq]
        · intro _; exact c3
      · have c3' : (f % 2 == 0) = false := by simpa using c3
        simp only [c3', Bool.false_eq_true, if_false]
        constructor
        · rw [abs_le]; push_cast; constructor <;> linarith [hq]
        · intro _; omega

/-- **What one summarising call writes.**  When `annotate` answers, it decorates exactly the nodes of the encoded target, in
    pre-order; every node's support is the frequency of its own split (times 100 when percentages are requested; 0 for a split in no
    tree, `freq_absent`); a label is written iff requested; the default mode leaves the length alone, "support" writes the support,
    "clear" removes the length, and the length modes write the mean / median of the split's summarised values — 0 when the split has
    none — each raised to `minimum_edge_length` when one is given. -/
theorem annotate_spec (sd : SD) (o : SummOpts) (r : Option Bool) (t : T) (anns : List NodeAnn)
    (h : annotate sd o r t = some anns) :
    let t2 := C01.encodeTree r true true t
    anns.map (·.id) = t2.nodes.map T.id
    ∧ anns.length = t2.nodes.length
    ∧ ∀ i (hi : i < anns.length) (hj : i < t2.nodes.length),
        let a := anns[i]
        let nd := t2.nodes[i]
        a.id = nd.id
        ∧ a.split = C01.splitOf (r == some true) t2.mask nd.mask
        ∧ a.support = (if o.pct then freq sd a.split * 100 else freq sd a.split)
        ∧ (a.label.isSome ↔ o.label = true)
        ∧ (o.mode = .keep → a.length = nd.len.map C04.fracToRat)
        ∧ (o.mode = .clear → a.length = none)
        ∧ (o.mode = .support → a.length = clampLen o.minLen (some a.support))
        ∧ (o.mode = .meanLen → a.length = clampLen o.minLen (some (((lookupIn (summaryTable sd) a.split).map (·.mean)).getD 0)))
        ∧ (o.mode = .medianLen → a.length = clampLen o.minLen (some (((lookupIn (summaryTable sd) a.split).map (·.median)).getD 0)))
        ∧ (a.summary = if (summaryTable sd).isEmpty then none else some (lookupIn (summaryTable sd) a.split)) := by
  intro t2
  unfold annotate at h
  simp only at h
  split at h
  · cases h
  · simp only [Option.some.injEq] at h
    subst h
    refine ⟨by rw [List.map_map]; rfl, by rw [List.length_map], ?_⟩
    intro i hi hj
    simp only [List.getElem_map]
    refine ⟨rfl, rfl, rfl, ?_, ?_, ?_, ?_, ?_, ?_, rfl⟩
    · simp only [annotNode]; cases o.label <;> simp
    all_goals (intro hm; simp only [annotNode, newLength, hm, summaryField]; try rfl)

/-- **Summarised lengths are those of the input trees.**  On a distribution built by counting `ts`, the length summary looked up
    for a split is the statistics (`stats_spec`) of exactly that split's values over the counted trees (`lengths_spec`), and there is
    none when no tree carries the split — so with `annotate_spec` the "mean-length" / "median-length" modes write the mean / median of the
    split's values over the input trees, and 0 on an edge whose split occurs in no tree. -/
theorem summary_of_counted (useW : Bool) (ts : List TreeRec) (s : Int) :
    lookupIn (summaryTable (countAll useW ts)) s
      = if ts.flatMap (valsOf s) = [] then none else some (stats (ts.flatMap (valsOf s))) := by
  rw [summaryTable_lookup _ (countAll_lens_ne useW ts), lengths_spec]
  split <;> simp

/-- the refusals of the call: only the two length modes, and only when no length was ever collected -/
theorem annotate_answers_iff (sd : SD) (o : SummOpts) (r : Option Bool) (t : T) :
    (annotate sd o r t).isSome ↔ ¬ ((o.mode = .meanLen ∨ o.mode = .medianLen) ∧ summaryTable sd = []) := by
  unfold annotate annotRefuses
  simp only
  cases hm : o.mode <;> cases hs : summaryTable sd <;> simp

/-- the whole collapse call: it answers iff the rooting of the target fits the rootings counted and no leaf edge is weak; when it
    answers, `collapse_removes_exactly` / `collapse_parsed_exact` describe the result -/
theorem collapseCall_spec (sd : SD) (mf : Rat) (r : Option Bool) (t t' : T) :
    collapseCall sd mf r t = some t' ↔ (collapseRefuses sd r = false ∧ collapseBelow sd mf r t = some t') := by
  unfold collapseCall
  cases h : collapseRefuses sd r <;> simp

/-- a target with the rooting of a non-empty sample of uniformly flagged trees is never refused on rooting grounds; a rooted target
    against not-rooted samples and a not-rooted target against rooted samples always are -/
theorem collapseRefuses_spec (useW : Bool) (ts : List TreeRec) (hne : ts ≠ []) (r : Option Bool) (b : Bool)
    (hall : ∀ t ∈ ts, t.rooted = b) :
    collapseRefuses (countAll useW ts) r = ((r == some true) != b) := by
  obtain ⟨hnd, hmem⟩ := rootings_fold ts { useWeights := useW } (by simp)
  obtain ⟨t0, ht0⟩ := List.exists_mem_of_ne_nil ts hne
  have hT : true ∈ (countAll useW ts).rootings ↔ b = true := by
    unfold countAll; rw [hmem true]
    simp only [List.not_mem_nil, false_or]
    constructor
    · rintro ⟨t, ht, e⟩; rw [← hall t ht]; exact e
    · intro e; exact ⟨t0, ht0, by rw [hall t0 ht0]; exact e⟩
  have hF : false ∈ (countAll useW ts).rootings ↔ b = false := by
    unfold countAll; rw [hmem false]
    simp only [List.not_mem_nil, false_or]
    constructor
    · rintro ⟨t, ht, e⟩; rw [← hall t ht]; exact e
    · intro e; exact ⟨t0, ht0, by rw [hall t0 ht0]; exact e⟩
  have hnd' : (countAll useW ts).rootings.Nodup := hnd
  unfold collapseRefuses allRooted noneRooted
  cases b with
  | true =>
    have hR : (countAll useW ts).rootings = [true] :=
      (bool_list_eq_true _ hnd').mpr ⟨hT.mpr rfl, fun hf => by simpa using hF.mp hf⟩
    rw [hR]; cases r with
    | none => rfl
    | some x => cases x <;> rfl
  | false =>
    have hc : (countAll useW ts).rootings.contains true = false := by
      rw [← Bool.not_eq_true, List.contains_iff_mem]; intro hm; simpa using hT.mp hm
    rw [hc]; cases r with
    | none => rfl
    | some x => cases x <;> rfl

end DendroModel.C05

namespace DendroModel.C05
open DendroModel DendroModel.Hier DendroModel.C05.Aux
/-- the record of (0,(1,2)) with lengths, counted twice with different lengths: the concrete distribution the examples below speak about -/
def exRecL (a : Rat) : TreeRec := { exRec with lens := [1, 1, 1, a, 0] }
/-- hypotheses of `kernel_collapse` / `collapseRefuses_spec`: a positive threshold, a non-empty uniformly rooted sample — and what
    the theorem then says: a not-rooted target is refused, a rooted one is not -/
example : (0 : Rat) < 1 / 2 ∧ [exRec] ≠ [] ∧ (∀ t ∈ [exRec], t.rooted = true)
    ∧ collapseRefuses (countAll false [exRec]) (some false) = true ∧ collapseRefuses (countAll false [exRec]) (some true) = false := by
  refine ⟨by norm_num, by simp, by simp [exRec], ?_, ?_⟩
  · rw [collapseRefuses_spec false [exRec] (by simp) _ true (by simp [exRec])]; rfl
  · rw [collapseRefuses_spec false [exRec] (by simp) _ true (by simp [exRec])]; rfl
/-- `summary_of_counted` on a concrete sample: split 6 carries the lengths 2 and 4 in the two trees, so its summary is that of [2, 4]
    (mean 3, median of an even count 3) -/
example : lookupIn (summaryTable (countAll false [exRecL 2, exRecL 4])) 6 = some (stats [2, 4])
    ∧ (stats [2, 4]).mean = 3 ∧ (stats [2, 4]).median = 3 := by
  refine ⟨?_, by norm_num [stats, mean], by norm_num [stats, median, sortAsc, insertAsc]⟩
  rw [summary_of_counted]; simp [valsOf, exRecL, exRec]
/-- `annotate` answers in a length mode on that sample (hypothesis of `annotate_spec`), and refuses on the empty distribution -/
example : (annotate (countAll false [exRecL 2, exRecL 4]) { mode := .meanLen } (some true) exT).isSome
    ∧ annotate { useWeights := false } { mode := .meanLen } (some true) exT = none := by
  constructor
  · rw [annotate_answers_iff]
    rintro ⟨_, he⟩
    have h := (summary_of_counted false [exRecL 2, exRecL 4] 6)
    rw [he] at h
    simp [lookupIn, valsOf, exRecL, exRec] at h
  · simp [annotate, annotRefuses, summaryTable]
/-- `roundHalfEven_spec` on ties: 1/32 at four places is 312.5 -> 312, and 3/2 -> 2 -/
example : roundHalfEven ((1 : Rat) / 32 * 10 ^ 4) = 312 ∧ roundHalfEven ((3 : Rat) / 2) = 2 := by
  constructor <;> (unfold roundHalfEven; norm_num)
/-- `kernel_stats` / `kernel_median` hypotheses -/
example : ([2, 4] : List Rat) ≠ [] := by simp
end DendroModel.C05
namespace DendroModel.C05
open DendroModel DendroModel.Hier DendroModel.C05.Aux

/-- **The not-rooted class the bridge does not cover is exactly the double count.**  For a well-formed not-rooted tree whose ENCODED
    seed has exactly two children (a two-leaf tree, or a unifurcating seed above a bifurcation: the known finding "basal bifurcation
    survives the encoding"), the two basal edges carry the same normalised split — each side is the complement of the other — so the
    record the driver builds lists that split twice: `splits.Nodup`, a hypothesis of every majority theorem, fails, and `freq_spec`
    (which counts occurrences) describes what the code reports there.  Together with `treeRecOf_unrooted_hts` (encoded seed of degree
    ≥ 3) this settles every not-rooted drawing with at least two leaves. -/
theorem treeRecOf_unrooted_basal_dup (r : Option Bool) (w : Option Rat) (t c1 c2 : T) (hr : r ≠ some true) (hg : Good (T.toH t))
    (h2 : (C01.encodeTree r true true t).cs = [c1, c2]) :
    C01.splitOf false (T.mask t) (T.mask c1) = C01.splitOf false (T.mask t) (T.mask c2)
    ∧ (treeRecOf r w t).splits.count (C01.splitOf false (T.mask t) (T.mask c1)) ≥ 2
    ∧ ¬ (treeRecOf r w t).splits.Nodup := by
  have hrf : (r == some true) = false := by
    cases r with
    | none => rfl
    | some b => cases b <;> simp_all
  obtain ⟨u, hu, hgu⟩ : ∃ u : T, C01.encodeTree r true true t = u.sup ∧ Good (T.toH u) := by
    unfold C01.encodeTree
    by_cases hc : t.cs.length = 2
    · exact ⟨t.collapseBasal, by simp [hc, hr], collapseBasal_good t hg⟩
    · exact ⟨t, by simp [hc], hg⟩
  have hmt : T.mask (C01.encodeTree r true true t) = T.mask t := C01.encode_keeps_leafset r true true t
  have hgs : Good (T.toH (C01.encodeTree r true true t)) := by rw [hu, C01.Aux.sup_toH]; exact Hier.sup_good _ hgu
  have hne2 : (C01.encodeTree r true true t).cs ≠ [] := by rw [h2]; simp
  have hnode := toH_of_cs hne2
  have hgds : GoodL (T.toHL (C01.encodeTree r true true t).cs) := by rw [hnode] at hgs; simpa [Good] using hgs
  rw [h2] at hgds
  simp only [T.toHL, GoodL, Hier.maskL, C01.Aux.toH_mask, Nat.or_zero] at hgds
  obtain ⟨_, h10, hdisj, _, h20, _, _⟩ := hgds
  have hL : T.mask t = T.mask c1 ||| T.mask c2 := by
    rw [← hmt]
    rw [mask_eq_of_cs _ hne2, h2]
    simp [T.maskL]
  have hL0 : T.mask t ≠ 0 := by
    rw [hL]; intro hz
    exact h10 (Nat.or_eq_zero_iff.mp hz).1
  obtain ⟨k, hk, hkL, hlow⟩ := C01.lsb_spec (T.mask t) (Nat.pos_of_ne_zero hL0)
  -- bits of the two sides partition the leaf set
  have hb : bits (T.mask t) = bits (T.mask c1) ∪ bits (T.mask c2) := by rw [hL, bits_or]
  have hd : Disjoint (bits (T.mask c1)) (bits (T.mask c2)) := by
    rw [Set.disjoint_iff_inter_eq_empty, ← bits_and, hdisj, bits_zero]
  have hkmem : k ∈ bits (T.mask t) := by simpa [bits] using hkL
  have heq : Hier.norm (T.mask t) (1 <<< k) (T.mask c1) = Hier.norm (T.mask t) (1 <<< k) (T.mask c2) := by
    apply bits_inj
    rw [hb] at hkmem
    rcases (Set.mem_union _ _ _).mp hkmem with h1 | h1
    · have h2' : k ∉ bits (T.mask c2) := fun h => (Set.disjoint_left.mp hd) h1 h
      rw [bits_norm_in _ _ _ h1, bits_norm_out _ _ _ h2', hb]
      ext x; simp only [Set.mem_sdiff, Set.mem_union, Set.mem_inter_iff]
      constructor
      · rintro ⟨hx | hx, hn⟩
        · exact absurd hx hn
        · exact ⟨hx, Or.inr hx⟩
      · rintro ⟨hx, _⟩
        exact ⟨Or.inr hx, fun h => (Set.disjoint_left.mp hd) h hx⟩
    · have h1' : k ∉ bits (T.mask c1) := fun h => (Set.disjoint_left.mp hd) h h1
      rw [bits_norm_out _ _ _ h1', bits_norm_in _ _ _ h1, hb]
      ext x; simp only [Set.mem_sdiff, Set.mem_union, Set.mem_inter_iff]
      constructor
      · rintro ⟨hx, _⟩
        exact ⟨Or.inl hx, fun h => (Set.disjoint_left.mp hd) hx h⟩
      · rintro ⟨hx | hx, hn⟩
        · exact ⟨hx, Or.inl hx⟩
        · exact absurd hx hn
  have hsp : C01.splitOf false (T.mask t) (T.mask c1) = C01.splitOf false (T.mask t) (T.mask c2) := by
    rw [C01.split_spec, C01.split_spec, hk]
    simp only [Bool.false_eq_true, if_false]
    exact_mod_cast heq
  have hs : (treeRecOf r w t).splits
      = ((C01.encodeTree r true true t).masksPost).map (fun (m : Nat) => C01.splitOf false (T.mask t) m) := by
    show ((C04.edgeRecs r t).map (·.split)) = _
    unfold C04.edgeRecs
    simp only [List.map_map]
    rw [← edgesPost_fst true (C01.encodeTree r true true t), List.map_map]
    apply List.map_congr_left
    intro e _
    simp only [Function.comp, hrf, hmt]
  have hpost : ∀ c : T, ∃ pre, T.masksPost c = pre ++ [T.mask c] := by
    intro c; cases c with
    | node i x l s cs => exact ⟨T.masksPostL cs, by simp [T.masksPost]⟩
  obtain ⟨p1, hp1⟩ := hpost c1
  obtain ⟨p2, hp2⟩ := hpost c2
  have hlist : (C01.encodeTree r true true t).masksPost = p1 ++ [T.mask c1] ++ (p2 ++ [T.mask c2]) ++ [T.mask t] := by
    cases he : C01.encodeTree r true true t with
    | node i x l s cs =>
      rw [he] at h2 hmt
      simp only [T.cs] at h2
      subst h2
      simp only [T.masksPost, T.masksPostL, hp1, hp2, List.append_nil]
      rw [← hmt]
  have hcount : (treeRecOf r w t).splits.count (C01.splitOf false (T.mask t) (T.mask c1)) ≥ 2 := by
    rw [hs, hlist]
    simp only [List.map_append, List.map_cons, List.map_nil, List.count_append, List.count_cons, List.count_nil]
    rw [← hsp]
    simp only [beq_self_eq_true, if_true]
    omega
  refine ⟨hsp, hcount, ?_⟩
  intro hnd
  have := List.nodup_iff_count_le_one.mp hnd (C01.splitOf false (T.mask t) (T.mask c1))
  omega

end DendroModel.C05

namespace DendroModel.C05
open DendroModel DendroModel.Hier DendroModel.C05.Aux
/-- hypotheses of `treeRecOf_unrooted_basal_dup`: the not-rooted two-leaf tree (0,1), whose seed stays a bifurcation -/
example : (some false : Option Bool) ≠ some true
    ∧ Good (T.toH (T.node 0 none none none [.node 1 (some 0) none none [], .node 2 (some 1) none none []]))
    ∧ (C01.encodeTree (some false) true true (T.node 0 none none none [.node 1 (some 0) none none [], .node 2 (some 1) none none []])).cs
        = [.node 1 (some 0) none none [], .node 2 (some 1) none none []] := by
  refine ⟨by simp, by simp [T.toH, T.toHL, Good, GoodL, Hier.mask, Hier.maskL], ?_⟩
  simp [C01.encodeTree, T.cs, T.collapseBasal, T.sup, T.supL, T.withLen, tryAdd, addLen, T.len]
end DendroModel.C05

namespace DendroModel.C05.Aux
open DendroModel DendroModel.Hier DendroModel.C05

/-- a Python dict: no key twice -/
def KeysNodup (d : List (Int × Rat)) : Prop := (d.map (·.1)).Nodup

theorem addCount_keys (d : List (Int × Rat)) (k : Int) (w : Rat) :
    (addCount d k w).map (·.1) = if k ∈ d.map (·.1) then d.map (·.1) else d.map (·.1) ++ [k] := by
  induction d with
  | nil => simp [addCount]
  | cons q rest ih =>
    simp only [addCount]
    by_cases hq : q.1 = k
    · simp [hq]
    · have hq' : (q.1 == k) = false := by simpa using hq
      have hk : ¬ k = q.1 := fun e => hq e.symm
      simp only [hq', Bool.false_eq_true, if_false, List.map_cons, ih, List.mem_cons, hk, false_or]
      split <;> simp

theorem addCount_nodup (d : List (Int × Rat)) (k : Int) (w : Rat) (h : KeysNodup d) : KeysNodup (addCount d k w) := by
  unfold KeysNodup at *
  rw [addCount_keys]
  split
  · exact h
  · rename_i hk
    exact List.nodup_append.mpr ⟨h, by simp, by intro a ha b hb; simp at hb; subst hb; intro e; subst e; exact hk ha⟩

theorem fold_addCount_nodup (w : Rat) : ∀ (xs : List Int) (d : List (Int × Rat)), KeysNodup d →
    KeysNodup (xs.foldl (fun d x => addCount d x w) d)
  | [], d, h => h
  | x :: xs, d, h => by rw [List.foldl_cons]; exact fold_addCount_nodup w xs _ (addCount_nodup d x w h)

theorem countAll_keys_nodup (u : Bool) (ts : List TreeRec) : KeysNodup (countAll u ts).counts := by
  unfold countAll
  have : ∀ (ts : List TreeRec) (sd : SD), KeysNodup sd.counts → KeysNodup (ts.foldl countTree sd).counts := by
    intro ts
    induction ts with
    | nil => intro sd h; exact h
    | cons t ts ih =>
      intro sd h
      rw [List.foldl_cons]
      apply ih
      simp only [countTree]
      exact fold_addCount_nodup _ _ _ h
  apply this
  simp [KeysNodup]

theorem countOf_none_of_not_mem (d : List (Int × Rat)) (s : Int) (h : s ∉ d.map (·.1)) : countOf d s = none := by
  induction d with
  | nil => rfl
  | cons q rest ih =>
    simp only [List.map_cons, List.mem_cons, not_or] at h
    have hq : ¬ q.1 = s := fun e => h.1 e.symm
    have : countOf (q :: rest) s = countOf rest s := by simp [countOf, hq]
    rw [this]; exact ih h.2

/-- adding the entries of a dict `b` to a dict `a`: the count of `s` grows by `b`'s count of `s` -/
theorem countOf_merge : ∀ (b a : List (Int × Rat)) (s : Int), KeysNodup b →
    countOf (b.foldl (fun d p => addCount d p.1 p.2) a) s
      = (match countOf b s with
         | none => countOf a s
         | some y => some ((countOf a s).getD 0 + y))
  | [], a, s, _ => by simp [countOf]
  | q :: rest, a, s, h => by
    have hnd := List.nodup_cons.mp (show (q.1 :: rest.map (·.1)).Nodup from h)
    rw [List.foldl_cons, countOf_merge rest _ s hnd.2, countOf_addCount]
    by_cases hq : s = q.1
    · have hnone : countOf rest s = none := countOf_none_of_not_mem rest s (by rw [hq]; exact hnd.1)
      have hb : countOf (q :: rest) s = some q.2 := by simp [countOf, hq]
      rw [hnone, hb]; simp [hq]
    · have hq' : ¬ q.1 = s := fun e => hq e.symm
      have hb : countOf (q :: rest) s = countOf rest s := by simp [countOf, hq']
      rw [hb]; simp only [hq, if_false]

theorem wsum_append (u : Bool) (a b : List TreeRec) (s : Int) : wsum u (a ++ b) s = wsum u a s + wsum u b s := by
  simp [wsum]

theorem countAll_sumW (u : Bool) (ts : List TreeRec) : (countAll u ts).sumW = (ts.map (wt u)).sum := by
  have := (countAll_gen 0 ts { useWeights := u }).2.2.1
  unfold countAll; rw [this]; simp

theorem freq_congr (a b : SD) (s : Int) (h1 : countOf a.counts s = countOf b.counts s) (h2 : a.total = b.total)
    (h3 : a.sumW = b.sumW) : freq a s = freq b s := by
  unfold freq normW
  rw [h1, h2, h3]

end DendroModel.C05.Aux

namespace DendroModel.C05
open DendroModel DendroModel.Hier DendroModel.C05.Aux

/-- **Merging is counting.**  A distribution that counted `ts1` and is then `update`d from a distribution (same weight flag) that
    counted `ts2` reports, for every split, exactly the frequency of one distribution that counted `ts1 ++ ts2`: counts, number of
    trees and weight sum all add up.  With `freq_never_stale` (whose histories now contain merges) every frequency answered after
    any interleaving of additions, merges, refused offers and queries is the weighted fraction over all trees that came in either way. -/
theorem merge_freq_spec (u : Bool) (ts1 ts2 : List TreeRec) (s : Int) :
    freq (mergeSD (countAll u ts1) (countAll u ts2)) s = freq (countAll u (ts1 ++ ts2)) s
    ∧ (mergeSD (countAll u ts1) (countAll u ts2)).total = (ts1 ++ ts2).length := by
  constructor
  · apply freq_congr
    · show countOf ((countAll u ts2).counts.foldl (fun d p => addCount d p.1 p.2) (countAll u ts1).counts) s = _
      rw [countOf_merge _ _ s (countAll_keys_nodup u ts2), count_spec, count_spec, count_spec]
      by_cases h1 : ∃ t ∈ ts1, s ∈ t.splits <;> by_cases h2 : ∃ t ∈ ts2, s ∈ t.splits
      · have h : ∃ t ∈ ts1 ++ ts2, s ∈ t.splits := by obtain ⟨t, ht, hs⟩ := h1; exact ⟨t, by simp [ht], hs⟩
        rw [if_pos h1, if_pos h2, if_pos h]; simp [wsum_append]
      · have h : ∃ t ∈ ts1 ++ ts2, s ∈ t.splits := by obtain ⟨t, ht, hs⟩ := h1; exact ⟨t, by simp [ht], hs⟩
        have hz : wsum u ts2 s = 0 := by
          unfold wsum; apply List.sum_eq_zero; intro x hx
          obtain ⟨t', ht', rfl⟩ := List.mem_map.mp hx
          have : s ∉ t'.splits := fun hh => h2 ⟨t', ht', hh⟩
          simp [List.count_eq_zero_of_not_mem this]
        rw [if_pos h1, if_neg h2, if_pos h]; simp [wsum_append, hz]
      · have h : ∃ t ∈ ts1 ++ ts2, s ∈ t.splits := by obtain ⟨t, ht, hs⟩ := h2; exact ⟨t, by simp [ht], hs⟩
        have hz : wsum u ts1 s = 0 := by
          unfold wsum; apply List.sum_eq_zero; intro x hx
          obtain ⟨t', ht', rfl⟩ := List.mem_map.mp hx
          have : s ∉ t'.splits := fun hh => h1 ⟨t', ht', hh⟩
          simp [List.count_eq_zero_of_not_mem this]
        rw [if_neg h1, if_pos h2, if_pos h]; simp [wsum_append, hz, countOf]
      · have h : ¬ ∃ t ∈ ts1 ++ ts2, s ∈ t.splits := by
          rintro ⟨t, ht, hs⟩
          rcases List.mem_append.mp ht with ht | ht
          · exact h1 ⟨t, ht, hs⟩
          · exact h2 ⟨t, ht, hs⟩
        rw [if_neg h1, if_neg h2, if_neg h]
    · show (countAll u ts1).total + (countAll u ts2).total = _
      rw [countAll_total, countAll_total, countAll_total]; simp
    · show (countAll u ts1).sumW + (countAll u ts2).sumW = _
      rw [countAll_sumW, countAll_sumW, countAll_sumW]; simp
  · show (countAll u ts1).total + (countAll u ts2).total = _
    rw [countAll_total, countAll_total]; simp

/-- a history with a merge: one tree counted, a distribution of one tree merged in, a query — answered as if both had been counted -/
example : Cached.run { sd := { useWeights := false } } [Ev.add exRec, Ev.freq 6, Ev.merge [exRec], Ev.freq 6]
    = specRun { useWeights := false } [Ev.add exRec, Ev.freq 6, Ev.merge [exRec], Ev.freq 6] :=
  freq_never_stale false _
example : freq (mergeSD (countAll false [exRec]) (countAll false [exRec])) 6 = freq (countAll false ([exRec] ++ [exRec])) 6 :=
  (merge_freq_spec false [exRec] [exRec] 6).1

end DendroModel.C05

namespace DendroModel.C05
open DendroModel DendroModel.Hier DendroModel.C05.Aux

/-- the splits of the record the driver builds are the split masks of C01's `encode` with default flags, in order -/
theorem treeRecOf_splits_encode (r : Option Bool) (w : Option Rat) (t : T) :
    (treeRecOf r w t).splits = (C01.encode r true true t).map (·.2) := by
  show ((C04.edgeRecs r t).map (·.split)) = _
  unfold C04.edgeRecs C01.encode
  simp only [List.map_map]
  rw [← edgesPost_fst true (C01.encodeTree r true true t), List.map_map]
  rfl

/-- every stored split is a natural number, so `Int.toNat` (what `restoreTree` hands to `build`) loses nothing -/
theorem restore_splits_mem (r : Option Bool) (w : Option Rat) (t : T) (x : Nat) :
    x ∈ (treeRecOf r w t).splits.map Int.toNat ↔ (x : Int) ∈ (C01.encode r true true t).map (·.2) := by
  rw [treeRecOf_splits_encode]
  constructor
  · intro h
    obtain ⟨z, hz, rfl⟩ := List.mem_map.mp h
    obtain ⟨m, _, hm⟩ := (C01.Aux.mem_encode_splits r true true t z).mp hz
    rw [C01.split_spec] at hm
    subst hm
    rw [Int.toNat_natCast]
    exact hz
  · intro h
    exact List.mem_map.mpr ⟨(x : Int), h, by simp⟩
end DendroModel.C05

namespace DendroModel.C05
open DendroModel DendroModel.Hier DendroModel.C05.Aux

/-- **`restore_tree` gives back the topology, rooted.**  For a well-formed rooted input tree whose taxa are exactly the namespace
    members, the tree `restoreTree` builds from the record the driver stored for it is the input tree up to child order and
    unifurcations, and has no unifurcation. -/
theorem restore_rooted_topology (w : Option Rat) (t : T) (all : Nat) (members : List Nat)
    (hg : Good (T.toH t)) (h0 : t.mask ≠ 0) (hm : members.Nodup)
    (hmem : ∀ b, b ∈ members ↔ b ∈ bits t.mask) (hall : bits t.mask ⊆ bits all) :
    Iso (Hier.sup (T.toH t)) (restoreTree all members true (treeRecOf (some true) w t))
    ∧ NoUnif (restoreTree all members true (treeRecOf (some true) w t)) :=
  C01.rebuild_rooted_topology true true t all members _ hg h0 hm hmem hall (restore_splits_mem (some true) w t)

/-- **… and not rooted** (≥ 3 taxa): the restored tree is well formed, has no unifurcation, and is the input tree as an unrooted
    topology (same canonical re-seeding on the lowest taxon, up to child order). -/
theorem restore_unrooted_topology (w : Option Rat) (t : T) (all : Nat) (members : List Nat)
    (hg : Good (T.toH t)) (h3 : C01.Bridge.ThreeTaxa t.mask) (hm : members.Nodup)
    (hmem : ∀ b, b ∈ members ↔ b ∈ bits t.mask) (hall : bits t.mask ⊆ bits all)
    (k : Nat) (hk : Lsb.lsb t.mask = 1 <<< k) :
    Iso (C01.canonU k (Hier.sup (T.toH t))) (C01.canonU k (restoreTree all members false (treeRecOf (some false) w t)))
    ∧ Good (restoreTree all members false (treeRecOf (some false) w t))
    ∧ NoUnif (restoreTree all members false (treeRecOf (some false) w t)) :=
  C01.rebuild_unrooted_topology true true t all members _ hg h3 hm hmem hall k hk (restore_splits_mem (some false) w t)

/-- **The maximum-credibility tree has the topology of the input tree attaining the maximum score.**  For a non-empty rooted sample of
    well-formed trees over exactly the namespace members, `mccTree` on the index the collection reports (`mccProd`, resp. `mccSum`:
    first maximiser of the scores, `mcc_index_spec`) answers with a tree that is — up to child order and unifurcations — the input
    tree at that index, whose score is at least every tree's. -/
theorem mcc_tree_topology (sd : SD) (incl : Bool) (ws : List (Option Rat × T)) (all : Nat) (members : List Nat)
    (hne : ws ≠ []) (hm : members.Nodup)
    (hws : ∀ p ∈ ws, Good (T.toH p.2) ∧ p.2.mask ≠ 0 ∧ (∀ b, b ∈ members ↔ b ∈ bits p.2.mask) ∧ bits p.2.mask ⊆ bits all) :
    let ts := ws.map (fun p => treeRecOf (some true) p.1 p.2)
    (∃ i, ∃ h : i < ws.length, ∃ tr, mccProd sd incl ts = some i ∧ mccTree (mccProd sd incl ts) all members true ts = some tr
        ∧ Iso (Hier.sup (T.toH (ws[i]).2)) tr ∧ NoUnif tr
        ∧ ∀ j (hj : j < ts.length), prodSupport sd incl ts[j] ≤ prodSupport sd incl (ts[i]'(by simpa [ts] using h)))
    ∧ (∃ i, ∃ h : i < ws.length, ∃ tr, mccSum sd incl ts = some i ∧ mccTree (mccSum sd incl ts) all members true ts = some tr
        ∧ Iso (Hier.sup (T.toH (ws[i]).2)) tr ∧ NoUnif tr
        ∧ ∀ j (hj : j < ts.length), sumSupport sd incl ts[j] ≤ sumSupport sd incl (ts[i]'(by simpa [ts] using h))) := by
  intro ts
  have hlen : ts.length = ws.length := by simp [ts]
  have hne' : ts ≠ [] := by intro e; apply hne; simpa [ts] using e
  obtain ⟨⟨i1, hi1, hl1, hmax1, _⟩, ⟨i2, hi2, hl2, hmax2, _⟩⟩ := mcc_index_spec sd incl ts hne'
  have key : ∀ i (hl : i < ts.length), ∃ tr, mccTree (some i) all members true ts = some tr
      ∧ Iso (Hier.sup (T.toH (ws[i]'(by omega)).2)) tr ∧ NoUnif tr := by
    intro i hl
    have hw : i < ws.length := by omega
    obtain ⟨hg, h0, hmem, hall⟩ := hws ws[i] (List.getElem_mem hw)
    have hr := restore_rooted_topology (ws[i]).1 (ws[i]).2 all members hg h0 hm hmem hall
    refine ⟨_, ?_, hr.1, hr.2⟩
    simp [mccTree, ts, hw]
  constructor
  · obtain ⟨tr, h1, h2, h3⟩ := key i2 hl2
    exact ⟨i2, by omega, tr, hi2, by rw [hi2]; exact h1, h2, h3, hmax2⟩
  · obtain ⟨tr, h1, h2, h3⟩ := key i1 hl1
    exact ⟨i1, by omega, tr, hi1, by rw [hi1]; exact h1, h2, h3, hmax1⟩

/-- hypotheses of `mcc_tree_topology` / `restore_rooted_topology`: the rooted tree (0,(1,2)) over the namespace {0,1,2} -/
example : ([(none, exT)] : List (Option Rat × T)) ≠ [] ∧ ([0, 1, 2] : List Nat).Nodup
    ∧ ∀ p ∈ ([(none, exT)] : List (Option Rat × T)), Good (T.toH p.2) ∧ p.2.mask ≠ 0
        ∧ (∀ b, b ∈ [0, 1, 2] ↔ b ∈ bits p.2.mask) ∧ bits p.2.mask ⊆ bits 7 := by
  refine ⟨by simp, by decide, ?_⟩
  intro p hp
  simp only [List.mem_singleton] at hp
  subst hp
  have hmask : exT.mask = 7 := by decide
  refine ⟨by simp [exT, T.toH, T.toHL, Good, GoodL, Hier.mask, Hier.maskL], by rw [hmask]; decide, ?_, by rw [hmask]⟩
  intro b
  rw [hmask]
  simp only [bits, Set.mem_ofPred_eq, List.mem_cons, List.not_mem_nil, or_false]
  constructor
  · rintro (rfl | rfl | rfl) <;> decide
  · intro h
    by_contra hb
    have : 3 ≤ b := by omega
    have h7 : (7 : Nat) < 2 ^ b := calc (7 : Nat) < 2 ^ 3 := by decide
      _ ≤ 2 ^ b := Nat.pow_le_pow_right (by decide) this
    rw [Nat.testBit_lt_two_pow h7] at h
    exact Bool.noConfusion h

end DendroModel.C05

namespace DendroModel.C05.Aux
open DendroModel DendroModel.Hier DendroModel.C05

theorem lookup_appendLens (d : List (Int × List Rat)) (k : Int) (l : List Rat) (s : Int) :
    lookupIn (appendLens d k l) s = if s = k then some ((lookupIn d s).getD [] ++ l) else lookupIn d s := by
  induction d with
  | nil =>
    by_cases h : s = k
    · subst h; simp [appendLens, lookupIn]
    · have : ¬ k = s := fun e => h e.symm
      simp [appendLens, lookupIn, h, this]
  | cons q rest ih =>
    simp only [appendLens]
    by_cases hq : q.1 = k
    · simp only [hq, beq_self_eq_true, if_true]
      by_cases h : s = k
      · subst h; simp [lookupIn, hq]
      · have : ¬ k = s := fun e => h e.symm
        simp [lookupIn, h, hq, this]
    · have hq' : (q.1 == k) = false := by simpa using hq
      simp only [hq', Bool.false_eq_true, if_false]
      by_cases hqs : q.1 = s
      · have hsk : ¬ s = k := fun e => hq (hqs.trans e)
        simp [lookupIn, hqs, hsk]
      · have e1 : lookupIn ((q.1, q.2) :: appendLens rest k l) s = lookupIn (appendLens rest k l) s := by
          simp [lookupIn, hqs]
        have e2 : lookupIn (q :: rest) s = lookupIn rest s := by
          simp [lookupIn, hqs]
        rw [e1, e2]; exact ih

theorem lookup_merge_lens (g : Int → List Rat) : ∀ (b : List (Int × Rat)) (a : List (Int × List Rat)) (s : Int), KeysNodup b →
    lookupIn (b.foldl (fun d p => appendLens d p.1 (g p.1)) a) s
      = if s ∈ b.map (·.1) then some ((lookupIn a s).getD [] ++ g s) else lookupIn a s
  | [], a, s, _ => by simp
  | q :: rest, a, s, h => by
    have hnd := List.nodup_cons.mp (show (q.1 :: rest.map (·.1)).Nodup from h)
    rw [List.foldl_cons, lookup_merge_lens g rest _ s hnd.2, lookup_appendLens]
    by_cases hq : s = q.1
    · have hnot : s ∉ rest.map (·.1) := by rw [hq]; exact hnd.1
      simp [hq, hnd.1]
    · have e : (s ∈ (q :: rest).map (·.1)) ↔ s ∈ rest.map (·.1) := by
        simp only [List.map_cons, List.mem_cons, hq, false_or]
      simp only [hq, if_false, e]

end DendroModel.C05.Aux

namespace DendroModel.C05
open DendroModel DendroModel.Hier DendroModel.C05.Aux

/-- **Value lists after a merge.**  After `update` from a distribution `b` (a Python dict of counts: no key twice), the value list of
    every split that `b` counted is the receiver's list followed by `b`'s list (a key is created even when both are empty —
    `summaryTable` skips such entries), and the lists of all other splits are untouched. -/
theorem merge_lengths_spec (a b : SD) (s : Int) (hb : KeysNodup b.counts) :
    lookupIn (mergeSD a b).lengths s
      = if s ∈ b.counts.map (·.1) then some ((lookupIn a.lengths s).getD [] ++ (lookupIn b.lengths s).getD [])
        else lookupIn a.lengths s :=
  lookup_merge_lens (fun k => (lookupIn b.lengths k).getD []) b.counts a.lengths s hb

/-- … instantiated for counted distributions: the hypothesis holds (`countAll_keys_nodup`), `b`'s keys are the splits occurring in its
    trees, and both lists are the splits' values over the respective trees in the order counted (`lengths_spec`): the merged list of a
    split of `ts2` is its values over `ts1` followed by its values over `ts2` — the list sequential counting of `ts1 ++ ts2` builds. -/
theorem merge_lengths_counted (u : Bool) (ts1 ts2 : List TreeRec) (s : Int) (h2 : ∃ t ∈ ts2, s ∈ t.splits) :
    lookupIn (mergeSD (countAll u ts1) (countAll u ts2)).lengths s = some ((ts1 ++ ts2).flatMap (valsOf s)) := by
  rw [merge_lengths_spec _ _ s (countAll_keys_nodup u ts2)]
  have hk : s ∈ (countAll u ts2).counts.map (·.1) := by
    have hc := count_spec u ts2 s
    rw [if_pos h2] at hc
    have := (countOf_isSome (countAll u ts2).counts s).mp (by rw [hc]; rfl)
    obtain ⟨c, hc'⟩ := this
    exact List.mem_map.mpr ⟨(s, c), hc', rfl⟩
  rw [if_pos hk, lengths_spec, lengths_spec, List.flatMap_append]
  by_cases e1 : ts1.flatMap (valsOf s) = [] <;> by_cases e2 : ts2.flatMap (valsOf s) = [] <;> simp [e1, e2]

example : lookupIn (mergeSD (countAll false [exRecL 2]) (countAll false [exRecL 4])).lengths 6 = some [2, 4] := by
  rw [merge_lengths_counted false _ _ 6 ⟨exRecL 4, by simp, by simp [exRecL, exRec]⟩]
  simp [valsOf, exRecL, exRec]

end DendroModel.C05
