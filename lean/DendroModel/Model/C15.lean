import DendroModel.Basic.Tree
/-! C15 — traversal machines of `Node`/`Tree` as they are written, next to their defining orders.
Mathlib-free and executable (the driver runs these definitions).

Stacks are modelled head = top (Python pops from the end and pushes `reversed(children)`, so the
first child ends up on top); the level-order queue is modelled head = front (`pop(0)`). -/
namespace DendroModel.C15
open DendroModel

/-! ## defining orders (specifications) -/

/-- parents before children, siblings left to right -/
def pre (t : T) : List T := t.nodes

mutual
/-- children before parents, siblings left to right -/
def post : T → List T
  | .node i x l s cs => postL cs ++ [.node i x l s cs]
def postL : List T → List T
  | [] => []
  | c :: cs => post c ++ postL cs
end

/-- one level after the other, each level left to right.  `n` bounds the number of levels. -/
def bfs : Nat → List T → List T
  | 0, _ => []
  | _, [] => []
  | n + 1, level => level ++ bfs n (level.flatMap T.cs)

mutual
def height : T → Nat
  | .node _ _ _ _ cs => 1 + heightL cs
def heightL : List T → Nat
  | [] => 0
  | c :: cs => Nat.max (height c) (heightL cs)
end

mutual
/-- left subtree, node, right subtree; `none` (the library's TypeError) unless every node has 0 or 2 children -/
def inord : T → Option (List T)
  | .node i x l s [] => some [.node i x l s []]
  | .node i x l s [a, b] =>
    match inord a, inord b with
    | some la, some lb => some (la ++ [.node i x l s [a, b]] ++ lb)
    | _, _ => none
  | .node _ _ _ _ _ => none
end

inductive Ev where
  | before (i : Nat) | after (i : Nat) | leaf (i : Nat)
deriving DecidableEq, Repr

mutual
/-- bracket-matching callback order -/
def br : T → List Ev
  | .node i _ _ _ [] => [.leaf i]
  | .node i _ _ _ (c :: cs) => [.before i] ++ brL (c :: cs) ++ [.after i]
def brL : List T → List Ev
  | [] => []
  | c :: cs => br c ++ brL cs
end

/-! ## the generators as written -/

/-- `preorder_iter`: `stack=[self]; node=stack.pop(); yield if filter; stack.extend(reversed(children))` -/
def preRun (keep : T → Bool) : Nat → List T → List T
  | 0, _ => []
  | _ + 1, [] => []
  | f + 1, t :: rest => (if keep t then [t] else []) ++ preRun keep f (t.cs ++ rest)

/-- `postorder_iter`: stack of `(node, state)` -/
def postRun (keep : T → Bool) : Nat → List (T × Bool) → List T
  | 0, _ => []
  | _ + 1, [] => []
  | f + 1, (n, true) :: rest => (if keep n then [n] else []) ++ postRun keep f rest
  | f + 1, (n, false) :: rest => postRun keep f (n.cs.map (fun c => (c, false)) ++ ((n, true) :: rest))

/-- `levelorder_iter`: the loop over `remaining` (`pop(0)`, `extend(children)`) -/
def levelRun (keep : T → Bool) : Nat → List T → List T
  | 0, _ => []
  | _ + 1, [] => []
  | f + 1, t :: rest => (if keep t then [t] else []) ++ levelRun keep f (rest ++ t.cs)

def preIter (keep : T → Bool) (t : T) : List T := preRun keep t.size [t]
def postIter (keep : T → Bool) (t : T) : List T := postRun keep (2 * t.size) [(t, false)]
/-- yields `self` first, then runs the queue seeded with the children -/
def levelIter (keep : T → Bool) (t : T) : List T :=
  (if keep t then [t] else []) ++ levelRun keep t.size t.cs

/-- `leaf_iter`: post-order filtered by `is_leaf() and filter` -/
def leafIter (keep : T → Bool) (t : T) : List T := postIter (fun x => x.isLeaf && keep x) t

/-- `inorder_iter` with a filter: the recursion of the library (filter applied per yield) -/
def inIter (keep : T → Bool) (t : T) : Option (List T) := (inord t).map (List.filter keep)

/-- the truthiness-composed filter of the `*_internal_node_iter` variants:
`(froot(x) and x._child_nodes and filter_fn(x)) or None` with `froot = has a parent` when the seed is excluded.
Inside a traversal every node but the start has a parent; `startHasParent` says whether the start does. -/
def internalKeep (excludeSeed : Bool) (startId : Nat) (startHasParent : Bool) (keep : T → Bool) (x : T) : Bool :=
  (!excludeSeed || x.id != startId || startHasParent) && !x.cs.isEmpty && keep x

/-- stable sort by key (`list.sort(key=…)`; with `reverse=True` ties also keep their original order) -/
def insertBy (lt : T → T → Bool) (x : T) : List T → List T
  | [] => [x]
  | y :: ys => if lt y x then y :: insertBy lt x ys else x :: y :: ys
def stableSort (lt : T → T → Bool) (l : List T) : List T := l.foldr (insertBy lt) []

/-- `ageorder_iter`: stable sort of the pre-order list by age, then `include_leaves`/filter -/
def ageIter (age : T → Frac) (descending includeLeaves : Bool) (keep : T → Bool) (t : T) : List T :=
  let nds := preIter (fun _ => true) t
  let sorted := stableSort (fun a b => if descending then Frac.lt (age b) (age a) else Frac.lt (age a) (age b)) nds
  sorted.filter (fun nd => (includeLeaves || !nd.cs.isEmpty) && keep nd)

/-! ### edge generators of `Tree` (independent stack machines over edges) -/
structure E where
  head : T

def preEdgeRun (keep : E → Bool) : Nat → List E → List E
  | 0, _ => []
  | _ + 1, [] => []
  | f + 1, e :: rest => (if keep e then [e] else []) ++ preEdgeRun keep f (e.head.cs.map E.mk ++ rest)

def postEdgeRun (keep : E → Bool) : Nat → List (E × Bool) → List E
  | 0, _ => []
  | _ + 1, [] => []
  | f + 1, (e, true) :: rest => (if keep e then [e] else []) ++ postEdgeRun keep f rest
  | f + 1, (e, false) :: rest =>
    postEdgeRun keep f (e.head.cs.map (fun c => (E.mk c, false)) ++ ((e, true) :: rest))

def preEdgeIter (keep : E → Bool) (t : T) : List E := preEdgeRun keep t.size [⟨t⟩]
def postEdgeIter (keep : E → Bool) (t : T) : List E := postEdgeRun keep (2 * t.size) [(⟨t⟩, false)]

/-! ### `Node.apply` (the climb through parent pointers stops at the start node) -/

/-- children pushed with their closer lists: only the last child inherits `i :: cl`
(the functional rendering of "while node is the last child of its parent: climb, call after_fn") -/
def pushKids (i : Nat) (cl : List Nat) : List T → List (T × List Nat)
  | [] => []
  | [c] => [(c, i :: cl)]
  | c :: d :: cs => (c, []) :: pushKids i cl (d :: cs)

def applyRun : Nat → List (T × List Nat) → List Ev
  | 0, _ => []
  | _ + 1, [] => []
  | f + 1, (.node i _ _ _ [], cl) :: rest => (.leaf i :: cl.map .after) ++ applyRun f rest
  | f + 1, (.node i _ _ _ (c :: cs), cl) :: rest => .before i :: applyRun f (pushKids i cl (c :: cs) ++ rest)

def applyTrace (t : T) : List Ev := applyRun t.size [(t, [])]

/-- `len(tree)` -/
def lenTree (t : T) : Nat := (leafIter (fun _ => true) t).length

end DendroModel.C15
