import DendroModel.Model.C14
/-! C14 — `PhylogeneticDistanceMatrix.nj_tree` and `upgma_tree` as they are written: pool order, first strict
minimum, incremental `_nj_xsub` bookkeeping, size-weighted cluster averages.  Generic in the number type.
Pool members are natural numbers: `0 … n-1` are the initial nodes in pool order (= iteration order of
`_mapped_taxa`), every join allocates the next number. -/
namespace DendroModel.C14
open DendroModel

/-- result trees: the two children of a join carry the lengths assigned at that join -/
inductive NT (α : Type) where
  | leaf (i : Nat)
  | node (f : NT α) (lf : α) (g : NT α) (lg : α)
deriving Inhabited

/-- `for idx1, nd1 in enumerate(pool[:-1]): for nd2 in pool[idx1+1:]` -/
def pairsOf {β : Type} : List β → List (β × β)
  | [] => []
  | x :: xs => xs.map (fun y => (x, y)) ++ pairsOf xs

section
variable {α : Type}

/-- `if min is None or v < min: min = v; arg = p` over a sequence: the first strict minimum -/
def argmin {β : Type} [LT α] [DecidableRel (α := α) (· < ·)] (val : β → α) : List β → Option (β × α) → Option (β × α)
  | [], acc => acc
  | p :: ps, none => argmin val ps (some (p, val p))
  | p :: ps, some (q, m) =>
    if val p < m then argmin val ps (some (p, val p)) else argmin val ps (some (q, m))

variable [Zero α] [Add α] [Sub α] [Mul α] [Div α] [NatCast α]

/-! ## neighbour joining -/
structure NJ (α : Type) where
  pool : List Nat
  /-- `nd._nj_distances[other]` -/
  d : Nat → Nat → α
  /-- `nd._nj_xsub` -/
  x : Nat → α
  sub : Nat → NT α
  next : Nat

/-- `nd1._nj_xsub = 0.0; for nd2 in pool: if nd1 is nd2: continue; nd1._nj_xsub += d` -/
def rowSum (d : Nat → Nat → α) (pool : List Nat) (k : Nat) : α :=
  (pool.filter (fun m => m ≠ k)).foldl (fun acc m => acc + d k m) 0

def njInit (n : Nat) (d : Nat → Nat → α) : NJ α :=
  let pool := List.range n
  { pool := pool, d := d, x := rowSum d pool, sub := fun i => .leaf i, next := n }

/-- `qvalue = (n - 2) * nd1._nj_distances[nd2] - nd1._nj_xsub - nd2._nj_xsub` -/
def qval (s : NJ α) (p : Nat × Nat) : α :=
  (((s.pool.length - 2 : Nat) : α) * s.d p.1 p.2 - s.x p.1) - s.x p.2

/-- distance of the new node to pool member `k`: `0.5 * ((0.0 + d[k][f] + d[k][g]) - d[f][g])` -/
def njNewDist (s : NJ α) (f g k : Nat) : α := (((0 + s.d k f) + s.d k g) - s.d f g) / ((2 : Nat) : α)

/-- the two branch lengths assigned at a join of `f`, `g` while the pool has `n` members -/
def njLengths (s : NJ α) (f g : Nat) : α × α :=
  let n := s.pool.length
  if n > 2 then
    let δf := s.d f g / ((2 : Nat) : α) + (s.x f - s.x g) / ((2 * (n - 2) : Nat) : α)
    (δf, s.d f g - δf)
  else (s.d f g / ((2 : Nat) : α), s.d f g / ((2 : Nat) : α))

/-- everything one pass of `while n > 1` does once `nodes_to_join = (f, g)` is chosen -/
def njJoin (s : NJ α) (f g : Nat) : NJ α :=
  let pool' := (s.pool.erase f).erase g
  let new := s.next
  let ls := njLengths s f g
  { pool := pool' ++ [new]
    d := fun a b => if a = new then njNewDist s f g b else if b = new then njNewDist s f g a else s.d a b
    x := fun k =>
      if k = new then pool'.foldl (fun acc m => acc + njNewDist s f g m) 0
      else ((s.x k + njNewDist s f g k) - s.d f k) - s.d g k
    sub := fun k => if k = new then .node (s.sub f) ls.1 (s.sub g) ls.2 else s.sub k
    next := new + 1 }

variable [LT α] [DecidableRel (α := α) (· < ·)]

/-- Q-matrix minimisation in pool order -/
def njPick (s : NJ α) : Option (Nat × Nat) := (argmin (qval s) (pairsOf s.pool) none).map (·.1)

def njStep (s : NJ α) : NJ α :=
  match njPick s with
  | some (f, g) => njJoin s f g
  | none => s

/-- `while n > 1`; every pass shortens the pool by one, so `fuel = n` passes suffice -/
def njRun : Nat → NJ α → NJ α
  | 0, s => s
  | fuel + 1, s => if s.pool.length > 1 then njRun fuel (njStep s) else s

/-- the state at the head of every pass of `while n > 1`, in order: what a tracing `node_factory` sees at the moment the new node of
that pass is created (pool, `_nj_xsub` of every member; the pair picked in that pass is `njPick` of the state) -/
def njStates : Nat → NJ α → List (NJ α)
  | 0, _ => []
  | fuel + 1, s => if s.pool.length > 1 then s :: njStates fuel (njStep s) else []

/-- `nj_tree()` on an `n × n` matrix given in pool order -/
def njTree (n : Nat) (d : Nat → Nat → α) : Option (NT α) :=
  let s := njRun n (njInit n d)
  match s.pool with
  | [r] => some (s.sub r)
  | _ => none

/-! ## UPGMA -/
structure UP (α : Type) where
  pool : List Nat
  d : Nat → Nat → α
  /-- `nd._upgma_cluster` as the list of initial pool members -/
  cl : Nat → List Nat
  /-- `nd._upgma_distance_from_tip` -/
  h : Nat → α
  sub : Nat → NT α
  next : Nat

/-- only the cells `original_dmatrix[nd1.taxon][nd2.taxon]` with `nd1` before `nd2` are read, and written both ways -/
def upInit (n : Nat) (d : Nat → Nat → α) : UP α :=
  { pool := List.range n, d := fun a b => if a < b then d a b else d b a, cl := fun i => [i],
    h := fun _ => 0, sub := fun i => .leaf i, next := n }

/-- `d1 += d2 * xc; count += xc` over the two joined nodes, then `d1 / count` -/
def upNewDist (s : UP α) (f g k : Nat) : α :=
  ((0 + s.d f k * ((s.cl f).length : α)) + s.d g k * ((s.cl g).length : α)) /
    (((0 + (s.cl f).length) + (s.cl g).length : Nat) : α)

def upJoin (s : UP α) (f g : Nat) : UP α :=
  let pool' := (s.pool.erase f).erase g
  let new := s.next
  let elen := s.d f g / ((2 : Nat) : α)
  let lf := elen - s.h f
  let lg := elen - s.h g
  { pool := pool' ++ [new]
    d := fun a b => if a = new then upNewDist s f g b else if b = new then upNewDist s f g a else s.d a b
    cl := fun k => if k = new then s.cl f ++ s.cl g else s.cl k
    h := fun k => if k = new then lf + s.h f else s.h k
    sub := fun k => if k = new then .node (s.sub f) lf (s.sub g) lg else s.sub k
    next := new + 1 }

def upPick (s : UP α) : Option (Nat × Nat) :=
  (argmin (fun p : Nat × Nat => s.d p.1 p.2) (pairsOf s.pool) none).map (·.1)

def upStep (s : UP α) : UP α :=
  match upPick s with
  | some (f, g) => upJoin s f g
  | none => s

def upRun : Nat → UP α → UP α
  | 0, s => s
  | fuel + 1, s => if s.pool.length > 1 then upRun fuel (upStep s) else s

/-- the state at the head of every pass of `while len(node_pool) > 1` (pool, `_upgma_distance_from_tip` and cluster size of every
member; the pair picked in that pass is `upPick` of the state) -/
def upStates : Nat → UP α → List (UP α)
  | 0, _ => []
  | fuel + 1, s => if s.pool.length > 1 then s :: upStates fuel (upStep s) else []

def upgmaTree (n : Nat) (d : Nat → Nat → α) : Option (NT α) :=
  let s := upRun n (upInit n d)
  match s.pool with
  | [r] => some (s.sub r)
  | _ => none
end


/-! ## path lengths in a result tree (the notion NJ / UPGMA are judged by) -/
section
variable {α : Type}
/-- leaf labels of a result tree, left to right -/
def NT.leafIds : NT α → List Nat
  | .leaf i => [i]
  | .node f _ g _ => NT.leafIds f ++ NT.leafIds g

/-- sum of the edge lengths from the root of `t` down to leaf `i` -/
def NT.depthOf [Zero α] [Add α] : NT α → Nat → Option α
  | .leaf j, i => if i = j then some 0 else none
  | .node f lf g lg, i =>
    match NT.depthOf f i with
    | some x => some (x + lf)
    | none => match NT.depthOf g i with
      | some y => some (y + lg)
      | none => none

/-- length of the path between the leaves `i` and `j` of a result tree -/
def NT.dist [Zero α] [Add α] : NT α → Nat → Nat → Option α
  | .leaf _, _, _ => none
  | .node f lf g lg, i, j =>
    match NT.depthOf f i, NT.depthOf f j with
    | some _, some _ => NT.dist f i j
    | some x, none => match NT.depthOf g j with
      | some y => some ((x + lf) + (y + lg))
      | none => none
    | none, some y => match NT.depthOf g i with
      | some x => some ((x + lg) + (y + lf))
      | none => none
    | none, none => NT.dist g i j

end

end DendroModel.C14
