import DendroModel.Model.C03
/-! C03 — pointer-level model: the book-keeping of `Node._parent_node` / `Node._child_nodes` exactly as the
primitives are written (`add_child`, `insert_child`, `remove_child` incl. its `suppress_unifurcations`
branch, the `parent_node` setter, `Edge.collapse`, `Edge.invert`, the inversion chain of `reseed_at`).

`Edge._head_node` / `tail_node`: every `Node` owns one `Edge` whose head is that node (set once in
`Node.__init__`, never reassigned by any of the routines modelled here) and `Edge.tail_node` is the
*computed* property `head_node._parent_node`; so "every node's edge has that node as head and its parent
as tail" is carried by `par` alone.  Edge lengths are not part of the heap (they are node attributes,
handled at tree level).  Mathlib-free and executable. -/
namespace DendroModel.C03
open DendroModel

structure Heap where
  par : Nat → Option Nat
  ch : Nat → List Nat

namespace Heap

def setPar (h : Heap) (x : Nat) (p : Option Nat) : Heap :=
  { h with par := fun y => if y = x then p else h.par y }

def setCh (h : Heap) (x : Nat) (l : List Nat) : Heap :=
  { h with ch := fun y => if y = x then l else h.ch y }

def insertAtN (idx : Nat) (x : Nat) (l : List Nat) : List Nat := l.take idx ++ x :: l.drop idx

/-- `Node.add_child(node)`: `node._parent_node = self; if node not in self._child_nodes: append` -/
def addChild (h : Heap) (self node : Nat) : Heap :=
  let h1 := h.setPar node (some self)
  if (h.ch self).contains node then h1 else h1.setCh self (h.ch self ++ [node])

/-- `Node.insert_child(index, node)` -/
def insertChild (h : Heap) (self idx node : Nat) : Heap :=
  let h1 := h.setPar node (some self)
  match (h.ch self).idxOf? node with
  | some cur =>
    if cur == idx then h1
    else h1.setCh self (insertAtN idx node ((h.ch self).erase node))
  | none => h1.setCh self (insertAtN idx node (h.ch self))

/-- `Node.remove_child(node)` without unifurcation suppression; `none` = `ValueError` (not listed as a child) -/
def removeChild (h : Heap) (self node : Nat) : Option Heap :=
  if (h.ch self).contains node then
    some ((h.setPar node none).setCh self ((h.ch self).erase node))
  else none

/-- the `suppress_unifurcations=True` tail of `Node.remove_child`, run after the plain removal -/
def removeChildSuppress (h : Heap) (self node : Nat) : Option Heap :=
  match removeChild h self node with
  | none => none
  | some h1 =>
    match h1.par self with
    | some parent =>
      match h1.ch self with
      | [child] =>
        let pos := ((h1.ch parent).idxOf? self).getD 0
        let h2 := insertChild h1 parent pos child
        match removeChild h2 parent self with
        | none => none
        | some h3 => some (h3.setCh self [])
      | _ => some h1
    | none =>
      match h1.ch self with
      | [a, b] =>
        let dissolve := fun (toRemove : Nat) =>
          let pos := ((h1.ch self).idxOf? toRemove).getD 0
          match removeChild h1 self toRemove with
          | none => none
          | some h2 =>
            let h3 := (h2.ch toRemove).reverse.foldl (fun hh c => insertChild hh self pos c) h2
            some (h3.setCh toRemove [])
        if !(h1.ch a).isEmpty then dissolve a
        else if !(h1.ch b).isEmpty then dissolve b
        else some h1
      | _ => some h1

/-- `node.parent_node = parent` (the managed setter) -/
def setParent (h : Heap) (node : Nat) (parent : Option Nat) : Heap :=
  let h1 := match h.par node with
    | some old => h.setCh old ((h.ch old).erase node)
    | none => h
  let h2 := h1.setPar node parent
  match parent with
  | some p => if (h2.ch p).contains node then h2 else h2.setCh p (h2.ch p ++ [node])
  | none => h2

/-- pointer part of `Edge.collapse()` on the edge subtending `node`; `none` = `ValueError` (terminal) -/
def edgeCollapse (h : Heap) (node : Nat) : Option Heap :=
  match h.par node with
  | none => some h
  | some parent =>
    let children := h.ch node
    if children.isEmpty then none else
    let pos := ((h.ch parent).idxOf? node).getD 0
    match removeChild h parent node with
    | none => none
    | some h1 =>
      some (children.foldl (fun (acc : Heap × Nat) c => (insertChild acc.1 parent acc.2 c, acc.2 + 1)) (h1, pos)).1

/-- pointer part of `Edge.invert()` on the edge subtending `head`; `none` = `ValueError` (no tail) -/
def edgeInvert (h : Heap) (head : Nat) : Option Heap :=
  match h.par head with
  | none => none
  | some tail =>
    let h0 := match h.par tail with
      | some g =>
        if (h.ch g).contains tail then h.setCh g ((h.ch g).map (fun x => if x = tail then head else x))
        else if (h.ch g).contains head then h else h.setCh g (h.ch g ++ [head])
      | none => h
    match removeChild h0 tail head with
    | none => none
    | some h1 => some (addChild h1 head tail)

/-- the inversion chain of `reseed_at`: the edges on the path from `target` up to the seed, inverted from
the seed downwards; then `new_seed_node._parent_node = None` -/
def reseedChain (h : Heap) (fuel : Nat) (target : Nat) : Option Heap :=
  let rec path : Nat → Nat → List Nat → List Nat
    | 0, _, acc => acc
    | f + 1, cur, acc => match h.par cur with
      | some p => path f p (cur :: acc)
      | none => acc
  -- `path` lists the heads of the edges to invert, topmost first
  ((path fuel target []).foldl (fun (hh : Option Heap) e => hh.bind (fun x => edgeInvert x e)) (some h)).map
    (fun x => x.setPar target none)

/-- one iteration of the loop of `Tree.suppress_unifurcations`, at node `nd`: a node with exactly one child is spliced out —
`pos = parent._child_nodes.index(nd); parent.remove_child(nd); parent.insert_child(pos, child); nd._parent_node = None`, or, for
the parentless seed, `child._parent_node = None` (the tree's seed becomes that child).  `nd` keeps its own child list, as in
the code.  (Edge lengths are merged at tree level: `sup`.) -/
def supStep (h : Heap) (nd : Nat) : Heap :=
  match h.ch nd with
  | [child] =>
    match h.par nd with
    | some parent =>
      let pos := ((h.ch parent).idxOf? nd).getD 0
      match removeChild h parent nd with
      | none => h
      | some h1 => (insertChild h1 parent pos child).setPar nd none
    | none => h.setPar child none
  | _ => h

mutual
/-- node ids in post-order (`postorder_node_iter`) -/
def postIds : T → List Nat
  | .node i _ _ _ cs => postIdsL cs ++ [i]
def postIdsL : List T → List Nat
  | [] => []
  | c :: cs => postIds c ++ postIdsL cs
end

/-- the loop of `Tree.suppress_unifurcations` over a visiting order -/
def supLoop (h : Heap) (order : List Nat) : Heap := order.foldl supStep h

mutual
/-- the heap a tree stands for: `par`/`ch` of every node of `t`, hanging under `p` -/
def ofTree (p : Option Nat) (h : Heap) : T → Heap
  | .node i _ _ _ cs => ofTreeL (some i) ((h.setPar i p).setCh i (cs.map T.id)) cs
def ofTreeL (p : Option Nat) (h : Heap) : List T → Heap
  | [] => h
  | c :: cs => ofTreeL p (ofTree p h c) cs
end

def empty : Heap := { par := fun _ => none, ch := fun _ => [] }

inductive Shape where
  | node (id : Nat) (cs : List Shape)

/-- read the structure reachable from `root` through `ch` (bounded by `fuel` levels); a child whose parent
pointer does not point back is marked by adding 1000000 to its id, so that any book-keeping slip shows -/
def readback (h : Heap) : Nat → Nat → Shape
  | 0, i => .node i []
  | f + 1, i => .node i ((h.ch i).map (fun c =>
      match readback h f c with
      | .node j cs => .node (if h.par c == some i then j else j + 1000000) cs))

mutual
def Shape.render : Shape → String
  | .node i cs => "(" ++ toString i ++ Shape.renderL cs ++ ")"
def Shape.renderL : List Shape → String
  | [] => ""
  | c :: cs => " " ++ Shape.render c ++ Shape.renderL cs
end

mutual
def shapeOf : T → Shape
  | .node i _ _ _ cs => .node i (shapeOfL cs)
def shapeOfL : List T → List Shape
  | [] => []
  | c :: cs => shapeOf c :: shapeOfL cs
end

end Heap
end DendroModel.C03
