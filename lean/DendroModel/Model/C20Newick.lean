import DendroModel.Basic.Tree
import DendroModel.Model.C20Tok
/-! C20 — `NewickReader._parse_tree_statement` / `_parse_tree_node_description` as a machine over the unread input.

The Python parser is recursive descent; the model keeps the suspended frames on an explicit stack (so the
interpreter's recursion limit, a run-time resource, has no counterpart here) and advances with `step`, one branch of
the code per case.  `run` iterates `step`; every iteration either consumes a token (`nextT_lt`) or moves to a phase of
lower rank on the same input, so `run` is a total function without fuel (`step_decreases`). -/
namespace DendroModel.C20
open DendroModel

/-- the parse-error family of the library, as far as the verdict distinguishes it -/
inductive PErr where
  | eos            -- UnexpectedEndOfStreamError
  | unterminated   -- UnterminatedQuoteError
  | malformed      -- NewickReaderMalformedStatementError (bad length, second label, '(' after a node, unbalanced)
  | incomplete     -- NewickReaderIncompleteTreeStatementError
  | duplicate      -- NewickReaderDuplicateTaxonError
  | nexus          -- NexusReaderError and its subclasses other than the two below
  | tooManyTaxa    -- NexusReader.TooManyTaxaError: a label beyond the declared NTAX (TAXLABELS, a MATRIX row)
  | undefinedTaxon -- NexusReader.UndefinedTaxonError: a TRANSLATE label the (locked) namespace does not have
  | outOfFuel      -- not an error of the library: the step budget of the Newick machine (`runF`) is used up; unreachable (`newick_fuel_suffices`)
  | data           -- DataParseError raised by the PHYLIP / FASTA readers
deriving Repr, DecidableEq

/-- a token as the readers see it: its text and `is_token_quoted`.  A quoted token is always a label, whatever its
text (`NewickReader._is_punctuation`): it is never equal to one of the structural tokens below. -/
structure Tok where
  text : List Char
  quoted : Bool
deriving DecidableEq, Repr

inductive NTree where
  | node (label : Option (List Char)) (taxon : Option (List Char)) (len : Option (List Char)) (kids : List NTree)

/-! ### `NexusTaxonSymbolMapper` -/
/-- `ns`: labels of the namespace's taxa in order (a taxon is its index).  The three look-up maps are association
lists, newest entry first (a later `d[k] = v` shadows an earlier one).  `labelMap`/`tokens` keys are lower-cased
(`CaseInsensitiveDict`), `numberMap` keys are the decimal strings. -/
structure Mapper where
  ns : List (List Char) := []
  tokens : List (List Char × Nat) := []
  labelMap : List (List Char × Nat) := []
  numberMap : List (List Char × Nat) := []
  byNumber : Bool := false               -- enable_lookup_by_taxon_number
deriving Repr

def idxOf (p : α → Bool) : List α → Nat → Option Nat
  | [], _ => none
  | a :: as, i => if p a then some i else idxOf p as (i + 1)

def assoc (key : List Char) (m : List (List Char × Nat)) : Option Nat :=
  (m.find? (fun e => e.1 == key)).map (·.2)

def natStr (n : Nat) : List Char := (toString n).toList

/-- `reset_supplemental_mappings` on a namespace with the given labels -/
def Mapper.ofNamespace (labels : List (List Char)) (byNumber : Bool) : Mapper :=
  let idx := List.range labels.length
  { ns := labels,
    labelMap := ((labels.zip idx).map (fun e => (lower e.1, e.2))).reverse,
    numberMap := (idx.map (fun i => (natStr (i + 1), i))).reverse,
    byNumber := byNumber }

/-- `require_taxon_for_symbol`: TRANSLATE token, then label (case-insensitive), then number, else a new taxon -/
def Mapper.lookup (m : Mapper) (sym : List Char) : Nat × Mapper :=
  match assoc (lower sym) m.tokens with
  | some i => (i, m)
  | none =>
    match assoc (lower sym) m.labelMap with
    | some i => (i, m)
    | none =>
      match (if m.byNumber then assoc sym m.numberMap else none) with
      | some i => (i, m)
      | none =>
        let i := m.ns.length
        (i, { m with ns := m.ns ++ [sym], labelMap := (lower sym, i) :: m.labelMap,
                      numberMap := (natStr (i + 1), i) :: m.numberMap })

/-! ### the machine -/
inductive Phase where
  | kids    -- head of the `for count in it.count()` loop, after the opening parenthesis
  | comma   -- inside `while current_token == ","` of that loop
  | lab     -- the `while True` label / length loop
deriving Repr, DecidableEq

structure Frame where
  label : Option (List Char) := none
  taxon : Option (List Char) := none
  len : Option (List Char) := none
  kids : List NTree := []
  created : Bool := false        -- node_created
  first : Bool := true           -- count == 0
  isInternal : Option Bool := none
  labelParsed : Bool := false

def Frame.toTree (f : Frame) : NTree := .node f.label f.taxon f.len f.kids
def Frame.addBlank (f : Frame) : Frame := { f with kids := f.kids ++ [.node none none none []] }

structure NState where
  phase : Phase
  f : Frame
  stack : List Frame
  cur : Tok
  rest : List Char
  nesting : Nat
  seen : List Nat
  mapper : Mapper
  trace : List Tok              -- ghost: every token that has been `current_token` in this statement, oldest first

inductive NDone where
  | ok (tree : NTree) (next : Option Tok) (rest : List Char) (mapper : Mapper) (trace : List Tok)
  | err (e : PErr)

inductive StepRes where
  | next (st : NState)
  | done (r : NDone)

def semi : Tok := ⟨[';'], false⟩
def comma : Tok := ⟨[','], false⟩
def lpar : Tok := ⟨['('], false⟩
def rpar : Tok := ⟨[')'], false⟩
def colon : Tok := ⟨[':'], false⟩

def nwCfg : Cfg := {}

/-- `require_next_token()` -/
def NState.advance (k : Cfg) (st : NState) (cont : NState → StepRes) : StepRes :=
  match nextT k st.rest with
  | .eof => .done (.err .eos)
  | .unterminated => .done (.err .unterminated)
  | .tok t q rest => cont { st with cur := ⟨t, q⟩, rest := rest, trace := st.trace ++ [⟨t, q⟩] }

/-- the branches of the children loop for a current token that is not a comma -/
def stepKidsNonComma (k : Cfg) (st : NState) : StepRes :=
  if st.cur == rpar then
    -- end of child nodes ("()" yields one blank child)
    let f := if st.f.first then st.f.addBlank else st.f
    NState.advance k { st with f := f, nesting := st.nesting - 1 } (fun s => .next { s with phase := .lab })
  else if st.cur == lpar then
    -- a child with children: the recursive call consumes the parenthesis
    let parent := { st.f with first := false }
    NState.advance k { st with nesting := st.nesting + 1 }
      (fun s => .next { s with phase := .kids, f := { isInternal := some true }, stack := parent :: st.stack })
  else
    -- a leaf child: the recursive call starts in its label loop on the same token
    let parent := { st.f with first := false }
    .next { st with phase := .lab, f := { isInternal := some false }, stack := parent :: st.stack }

/-- is this node treated as internal when its label arrives?  (`is_internal_node`; for the seed node: has children) -/
def Frame.internal (f : Frame) : Bool :=
  match f.isInternal with
  | some b => b
  | none => !f.kids.isEmpty

/-- the label / length loop -/
def stepLab (k : Cfg) (st : NState) : StepRes :=
  if st.cur == colon then
    NState.advance k st (fun s =>
      if pyFloatOk s.cur.text then
        NState.advance k { s with f := { s.f with len := some s.cur.text } } (fun s2 => .next s2)
      else .done (.err .malformed))
  else if st.cur == rpar || st.cur == comma then
    -- this node is finished; the caller's loop goes on with the same token
    match st.stack with
    | [] => .done (.err .incomplete)        -- the seed node returned without having seen ';'
    | p :: ps => .next { st with phase := .kids, f := { p with kids := p.kids ++ [st.f.toTree], created := true }, stack := ps }
  else if st.cur == semi then
    -- end of the tree statement; `next_token()` (non-raising) moves past it
    if st.nesting != 0 then
      -- `next_token()` comes first: an unterminated quote after the ';' is reported before the unbalanced parentheses
      (match nextT k st.rest with
       | .unterminated => .done (.err .unterminated)
       | _ => .done (.err .malformed))
    else
      match nextT k st.rest with
      | .unterminated => .done (.err .unterminated)
      | .eof => .done (.ok st.f.toTree none [] st.mapper st.trace)
      | .tok t q rest => .done (.ok st.f.toTree (some ⟨t, q⟩) rest st.mapper st.trace)
  else if st.cur == lpar then .done (.err .malformed)
  else if st.f.labelParsed then .done (.err .malformed)
  else if st.f.internal then
    NState.advance k { st with f := { st.f with label := some st.cur.text, labelParsed := true } } (fun s => .next s)
  else
    let r := st.mapper.lookup st.cur.text
    if st.seen.contains r.1 then .done (.err .duplicate)
    else
      NState.advance k { st with f := { st.f with taxon := some (r.2.ns.getD r.1 st.cur.text), labelParsed := true },
                                 seen := r.1 :: st.seen, mapper := r.2 } (fun s => .next s)

def step (k : Cfg) (st : NState) : StepRes :=
  match st.phase with
  | .kids =>
    if st.cur == comma then
      let f := if st.f.created then st.f else st.f.addBlank
      NState.advance k { st with f := { f with first := false } } (fun s => .next { s with phase := .comma })
    else stepKidsNonComma k st
  | .comma =>
    if st.cur == comma then
      NState.advance k { st with f := st.f.addBlank } (fun s => .next s)
    else
      -- ',' directly before ')' designates a trailing blank node
      let f := if st.cur == rpar then { st.f.addBlank with created := true } else st.f
      stepKidsNonComma k { st with f := f, phase := .kids }
  | .lab => stepLab k st

/-- rank of a state among the states that share the same unread input -/
def NState.rank (st : NState) : Nat :=
  match st.phase with
  | .lab => if st.cur == rpar || st.cur == comma then 2 else 0
  | _ => 1

def NState.measure (st : NState) : Nat := 3 * st.rest.length + st.rank

theorem rank_le (st : NState) : st.rank ≤ 2 := by
  unfold NState.rank
  split
  · split <;> omega
  · omega

theorem measure_lt (s st : NState) (h : s.rest.length < st.rest.length) : s.measure < st.measure := by
  have := rank_le s
  unfold NState.measure; omega

/-- `require_next_token` then any continuation that keeps the shorter input: the measure drops -/
theorem advance_lt (k : Cfg) (s0 : NState) (cont : NState → StepRes) (st' : NState) (n : Nat)
    (hc : ∀ s s', s.rest.length < s0.rest.length → cont s = .next s' → s'.measure < n)
    (h : NState.advance k s0 cont = .next st') : st'.measure < n := by
  unfold NState.advance at h
  split at h
  · cases h
  · cases h
  · rename_i t q rest hn
    exact hc _ _ (nextT_lt k _ _ _ _ hn) h

theorem stepKidsNonComma_decreases (k : Cfg) (st st' : NState) (hp : st.phase ≠ .lab) (hcur : st.cur ≠ comma)
    (h : stepKidsNonComma k st = .next st') : st'.measure < st.measure := by
  unfold stepKidsNonComma at h
  split at h
  · refine advance_lt k _ _ _ _ ?_ h
    intro s s' hs hc
    simp only [StepRes.next.injEq] at hc
    subst hc
    exact measure_lt _ _ hs
  · split at h
    · refine advance_lt k _ _ _ _ ?_ h
      intro s s' hs hc
      simp only [StepRes.next.injEq] at hc
      subst hc
      exact measure_lt _ _ hs
    · rename_i hr hl
      simp only [StepRes.next.injEq] at h
      subst h
      have e1 : st.measure = 3 * st.rest.length + 1 := by
        unfold NState.measure NState.rank
        cases hph : st.phase <;> simp_all
      rw [e1]
      simp [NState.measure, NState.rank, hr, hcur]

theorem stepLab_decreases (k : Cfg) (st st' : NState) (hph : st.phase = .lab)
    (h : stepLab k st = .next st') : st'.measure < st.measure := by
  unfold stepLab at h
  split at h
  · refine advance_lt k _ _ _ _ ?_ h
    intro s s' hs hc
    split at hc
    · refine advance_lt k _ _ _ _ ?_ hc
      intro s2 s2' hs2 hc2
      simp only [StepRes.next.injEq] at hc2
      subst hc2
      have : s2.rest.length < st.rest.length := Nat.lt_trans hs2 hs
      exact measure_lt _ _ this
    · cases hc
  · split at h
    · rename_i hcc
      split at h
      · cases h
      · simp only [StepRes.next.injEq] at h
        subst h
        have e1 : st.measure = 3 * st.rest.length + 2 := by
          unfold NState.measure NState.rank
          simp [hph, hcc]
        rw [e1]
        simp [NState.measure, NState.rank]
    · split at h
      · split at h
        · split at h <;> cases h
        · split at h <;> cases h
      · split at h
        · cases h
        · split at h
          · cases h
          · split at h
            · refine advance_lt k _ _ _ _ ?_ h
              intro s s' hs hc
              simp only [StepRes.next.injEq] at hc
              subst hc
              exact measure_lt _ _ hs
            · dsimp only at h
              split at h
              · cases h
              · refine advance_lt k _ _ _ _ ?_ h
                intro s s' hs hc
                simp only [StepRes.next.injEq] at hc
                subst hc
                exact measure_lt _ _ hs

theorem step_decreases (k : Cfg) (st st' : NState) (h : step k st = .next st') : st'.measure < st.measure := by
  unfold step at h
  split at h
  · -- kids
    rename_i hph
    split at h
    · refine advance_lt k _ _ _ _ ?_ h
      intro s s' hs hc
      simp only [StepRes.next.injEq] at hc
      subst hc
      exact measure_lt _ _ hs
    · rename_i hcur
      exact stepKidsNonComma_decreases k st st' (by simp [hph]) (by simpa using hcur) h
  · -- comma
    rename_i hph
    split at h
    · refine advance_lt k _ _ _ _ ?_ h
      intro s s' hs hc
      simp only [StepRes.next.injEq] at hc
      subst hc
      exact measure_lt _ _ hs
    · rename_i hcur
      have := stepKidsNonComma_decreases k _ st' (by simp) (by simpa using hcur) h
      have e1 : st.measure = 3 * st.rest.length + 1 := by
        unfold NState.measure NState.rank
        simp [hph]
      rw [e1]
      simpa [NState.measure, NState.rank] using this
  · rename_i hph
    exact stepLab_decreases k st st' hph h

/-- iterate `step` with a budget: every machine step takes one unit; `none` = the budget is used up -/
def runF (k : Cfg) : Nat → NState → Option NDone
  | 0, _ => none
  | f + 1, st =>
    match step k st with
    | .done r => some r
    | .next st' => runF k f st'

/-- the step budget of a tree statement: linear in the unread input (every token is at least one character) -/
def newickFuel (st : NState) : Nat := 3 * st.rest.length + 3

/-- iterate `step` to completion: the fuelled loop with the linear budget (the fallback is unreachable, `newick_fuel_suffices`) -/
def run (k : Cfg) (st : NState) : NDone :=
  match runF k (newickFuel st) st with
  | some r => r
  | none => .err .outOfFuel

theorem measure_lt_fuel (st : NState) : st.measure < newickFuel st := by
  have := rank_le st
  unfold NState.measure newickFuel; omega

/-- any budget above the measure gives the same result, and it is a result -/
theorem runF_stable (k : Cfg) : ∀ (n : Nat) (st : NState) (f1 f2 : Nat), st.measure ≤ n → st.measure < f1 → st.measure < f2 →
    runF k f1 st = runF k f2 st ∧ runF k f1 st ≠ none := by
  intro n
  induction n with
  | zero =>
    intro st f1 f2 hm h1 h2
    cases f1 with
    | zero => omega
    | succ f1 =>
      cases f2 with
      | zero => omega
      | succ f2 =>
        simp only [runF]
        cases hs : step k st with
        | done r => simp
        | next st' => have := step_decreases k st st' hs; omega
  | succ n ih =>
    intro st f1 f2 hm h1 h2
    cases f1 with
    | zero => omega
    | succ f1 =>
      cases f2 with
      | zero => omega
      | succ f2 =>
        simp only [runF]
        cases hs : step k st with
        | done r => simp
        | next st' =>
          have := step_decreases k st st' hs
          exact ih st' f1 f2 (by omega) (by omega) (by omega)

/-- the unfolding equation of `run` (what the fuel-free definition by well-founded recursion said) -/
theorem run_eq (k : Cfg) (st : NState) :
    run k st = match step k st with
      | .done r => r
      | .next st' => run k st' := by
  have hf : newickFuel st = (newickFuel st - 1) + 1 := by unfold newickFuel; omega
  unfold run
  rw [hf]
  simp only [runF]
  cases hs : step k st with
  | done r => rfl
  | next st' =>
    have hd := step_decreases k st st' hs
    have hm := measure_lt_fuel st
    have := (runF_stable k st'.measure st' (newickFuel st - 1) (newickFuel st') (Nat.le_refl _) (by omega) (measure_lt_fuel st')).1
    simp only [this]

/-- outcome of `_parse_tree_statement` -/
inductive StmtRes where
  | none_                                   -- end of stream before a statement: returns `None`
  | err (e : PErr)
  | tree (t : NTree) (next : Option Tok) (rest : List Char) (mapper : Mapper) (trace : List Tok)

/-- the loop `while (current_token == ";" or current_token is None) and not is_eof(): require_next_token()`.
`started = false` only before the very first read (`_cur_char is None`, so `is_eof()` is false even on empty input). -/
def skipSemis (k : Cfg) (cur : Option Tok) (rest : List Char) (started : Bool) :
    Except PErr (Option Tok × List Char × Bool) :=
  if (cur == some semi || cur == none) && !(started && rest.isEmpty) then
    match h : nextT k rest with
    | .eof => .error .eos
    | .unterminated => .error .unterminated
    | .tok t q rest' => skipSemis k (some ⟨t, q⟩) rest' true
  else .ok (cur, rest, started)
termination_by rest.length
decreasing_by exact nextT_lt k _ _ _ _ h

/-- the trailing loop `while current_token == ";" and not is_eof(): current_token = next_token()` -/
def skipTrailingSemis (k : Cfg) (cur : Option Tok) (rest : List Char) : Except PErr (Option Tok × List Char) :=
  if cur == some semi && !rest.isEmpty then
    match h : nextT k rest with
    | .eof => .ok (none, [])
    | .unterminated => .error .unterminated
    | .tok t q rest' => skipTrailingSemis k (some ⟨t, q⟩) rest'
  else .ok (cur, rest)
termination_by rest.length
decreasing_by exact nextT_lt k _ _ _ _ h

def parseStatement (k : Cfg) (cur : Option Tok) (rest : List Char) (started : Bool) (mapper : Mapper) : StmtRes :=
  match skipSemis k cur rest started with
  | .error e => .err e
  | .ok (cur, rest, started) =>
    if started && rest.isEmpty then .none_
    else
      match cur with
      | none => .none_          -- unreachable: the loop above leaves a token or the end of stream
      | some c =>
        let st0 : NState := { phase := .lab, f := {}, stack := [], cur := c, rest := rest, nesting := 0, seen := [],
                              mapper := mapper, trace := [c] }
        let r :=
          if c == lpar then
            match NState.advance k { st0 with nesting := 1 } (fun s => .next { s with phase := .kids }) with
            | .done r => r
            | .next s => run k s
          else run k st0
        match r with
        | .err e => .err e
        | .ok t next rest' m trace =>
          match skipTrailingSemis k next rest' with
          | .error e => .err e
          | .ok (next, rest'') => .tree t next rest'' m trace

/-- result of reading a whole Newick source -/
inductive NewickRes where
  | ok (trees : List NTree)
  | err (e : PErr)
  | internal (what : String)

/-- `tree_iter`: statements until `_parse_tree_statement` returns `None`.  The guard on the input length can only
turn a non-progressing statement into `internal`; `Props/C20.lean` shows it never fires. -/
def treeIter (k : Cfg) (cur : Option Tok) (rest : List Char) (started : Bool) (mapper : Mapper) (acc : List NTree) : NewickRes :=
  match parseStatement k cur rest started mapper with
  | .none_ => .ok acc
  | .err e => .err e
  | .tree t next rest' m _ =>
    if rest'.length < rest.length then treeIter k next rest' true m (acc ++ [t])
    else .internal "tree statement without progress"
termination_by rest.length

def readNewick (text : List Char) : NewickRes := treeIter nwCfg none text false {} []

/-! ### rendering for the driver -/
def encOpt : Option (List Char) → String
  | none => "-"
  | some [] => "="
  | some s => String.ofList (hex6 s)

mutual
def NTree.render : NTree → String
  | .node l x ln ks => "(" ++ encOpt l ++ "|" ++ encOpt x ++ "|" ++ (match ln with | none => "N" | some s => "L" ++ (if s.isEmpty then "=" else String.ofList (hex6 s))) ++ NTree.renderL ks ++ ")"
def NTree.renderL : List NTree → String
  | [] => ""
  | t :: ts => NTree.render t ++ NTree.renderL ts
end

end DendroModel.C20
