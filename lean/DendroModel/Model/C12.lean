import DendroModel.Basic.Tree
/-! C12 — the memo-driven attribute-wise deep copy of `basemodel.Annotable.__deepcopy__` and friends over an
object heap (cyclic references allowed), and the thin structural clone of `Node.extract_subtree`.
Mathlib-free and executable: the driver `drv_c12` runs exactly these definitions on the object graph exported
from the real objects.

Heap: an array of objects; an object is a copy discipline (`Kind`, i.e. which `__deepcopy__` Python dispatches
to), a class name and an ordered list of named fields (attributes of `__dict__`, `#i` list/tuple items,
`k<i>`/`v<i>` dict keys and values, `e<i>` set elements).  A value is an atom (opaque immutable text) or a
reference.  The memo is Python's `memo` dict (`id(source) ↦ copy`), newest entry first.

Routes differ only in how the memo is pre-seeded (see `Driver/C12.lean`): empty for `copy.deepcopy`/`clone(2)`;
namespace and taxa ↦ themselves for `Tree(t)`/`clone(1)`/`copy.copy(tree)`/`taxon_namespace_scoped_copy`
(`TaxonNamespace.populate_memo_for_taxon_namespace_scoped_copy`); namespace ↦ other namespace and taxa ↦ the
label-matched taxa of the other namespace for `Tree(t, taxon_namespace=ns2)` (`Tree._clone_from`). -/
namespace DendroModel.C12
open DendroModel

inductive Val where
  | atom (s : String)
  | ref (i : Nat)
deriving DecidableEq, Repr, Inhabited

/-- copy discipline = the `__deepcopy__` the class resolves to -/
inductive Kind where
  | annotable   -- basemodel.Annotable.__deepcopy__ (Tree, Node, Edge, TreeList, CharacterMatrix, sequences, Annotation, …)
  | taxon       -- Taxon.__deepcopy__ (same shape: attributes first, annotations last)
  | namespace   -- TaxonNamespace.__deepcopy__ (`_taxa` first, then the other attributes, annotations last)
  | annset      -- AnnotationSet.__deepcopy__ (reached through a container, e.g. per-cell annotation sets)
  | plain       -- list, dict, set, objects copied through `__reduce_ex__`: allocate, memoise, copy the fields in order
  | tuple       -- like `plain` (identity of a tuple is unobservable)
deriving DecidableEq, Repr, Inhabited

structure Obj where
  kind : Kind
  cls : String
  fields : List (String × Val)
deriving Repr, Inhabited

abbrev Heap := Array Obj
abbrev Memo := List (Nat × Nat)

inductive Err where
  | fuel        -- the fuel did not suffice (never happens with fuel > number of objects; reported, never defaulted)
  | dangling    -- a reference outside the heap
  | malformed   -- an annotation set without item list
deriving DecidableEq, Repr

structure St where
  h : Heap
  m : Memo

def Obj.get (o : Obj) (name : String) : Option Val := o.fields.lookup name

def setFieldL (name : String) (v : Val) : List (String × Val) → List (String × Val)
  | [] => [(name, v)]
  | (k, x) :: r => if k == name then (k, v) :: r else (k, x) :: setFieldL name v r

/-- `obj.__dict__[name] = v` -/
def setField (h : Heap) (j : Nat) (name : String) (v : Val) : Heap :=
  match h[j]? with
  | some o => h.setIfInBounds j { o with fields := setFieldL name v o.fields }
  | none => h

/-- overwrite all fields of object `j` -/
def setFields (h : Heap) (j : Nat) (fs : List (String × Val)) : Heap :=
  match h[j]? with
  | some o => h.setIfInBounds j { o with fields := fs }
  | none => h

/-- `a.is_attribute is True` -/
def isBound (h : Heap) (j : Nat) : Bool :=
  match h[j]? with
  | some o => o.get "is_attribute" == some (.atom "True")
  | none => false

/-- the `(owner, attribute name)` tuple in `_value` of annotation `i` -/
def boundValue (h : Heap) (i : Nat) : Option (Val × Val) :=
  match h[i]? with
  | none => none
  | some a =>
    match a.get "_value" with
    | some (.ref t) =>
      match h[t]? with
      | some tv =>
        match tv.get "#0", tv.get "#1" with
        | some ow, some nm => some (ow, nm)
        | _, _ => none
      | none => none
    | _ => none

/-- the items of annotation set `a` (`for a1 in other._annotations`): the values of its `_item_list` -/
def itemFields (h : Heap) (a : Nat) : Option (List (String × Val)) :=
  match h[a]? with
  | none => none
  | some s =>
    match s.get "_item_list" with
    | some (.ref l) =>
      match h[l]? with
      | some lo => some lo.fields
      | none => none
    | _ => none

/-- the order in which the attributes are copied; `_annotations` is skipped by the three annotation-aware disciplines -/
def planFields (o : Obj) : List (String × Val) :=
  match o.kind with
  | .annotable | .taxon => o.fields.filter (fun f => f.1 != "_annotations")
  | .namespace =>
    o.fields.filter (fun f => f.1 == "_taxa") ++ o.fields.filter (fun f => f.1 != "_annotations" && f.1 != "_taxa")
  | _ => o.fields

def annotationsRef (o : Obj) : Option Nat :=
  match o.kind with
  | .annotable | .taxon | .namespace =>
    match o.get "_annotations" with
    | some (.ref a) => some a
    | _ => none
  | _ => none

def dedupVals : List Val → List Val
  | [] => []
  | v :: r => if r.contains v then dedupVals r else v :: dedupVals r

def indexed (pre : String) : Nat → List Val → List (String × Val)
  | _, [] => []
  | k, v :: r => (pre ++ toString k, v) :: indexed pre (k + 1) r

/-- `OrderedSet.add` for every item, on a fresh `AnnotationSet(target)`: a new item list, a new item set, the set object -/
def pushAnnSet (h : Heap) (cls : String) (target : Val) (items : List Val) : Heap × Nat :=
  let items := (dedupVals items.reverse).reverse
  let l := h.size
  let h1 := h.push { kind := .plain, cls := "list", fields := indexed "#" 0 items }
  let h2 := h1.push { kind := .plain, cls := "set", fields := indexed "e" 0 items }
  (h2.push { kind := .annset, cls := cls, fields := [("_item_list", .ref l), ("_item_set", .ref (l + 1)), ("target", target)] },
   l + 2)

/-- end of `deep_copy_annotations_from`: the copies were added to `other.annotations` (created on first use, so a source
without items leaves the copy without `_annotations`), then `memo[id(self._annotations)] = other._annotations` -/
def attachAnnotations (s : St) (a : Nat) (cls : String) (j : Nat) (items : List Val) : St :=
  match items with
  | [] => s
  | _ =>
    let (h1, a') := pushAnnSet s.h cls (.ref j) items
    ⟨setField h1 j "_annotations" (.ref a'), (a, a') :: s.m⟩

/-- `if a2.is_attribute and a1._value[0] is other: a2._value = (self, a1._value[1])` (`self` = the copy `j`, `other` = the source `i`) -/
def retarget (s : St) (i j : Nat) (a1 a2 : Val) : St :=
  match a1, a2 with
  | .ref i1, .ref j2 =>
    if isBound s.h j2 then
      match boundValue s.h i1 with
      | some (.ref ow, .atom nm) =>      -- attribute names are strings
        if ow == i then
          let t := s.h.size
          ⟨setField (s.h.push { kind := .tuple, cls := "tuple", fields := [("#0", .ref j), ("#1", .atom nm)] }) j2 "_value" (.ref t), s.m⟩
        else s
      | _ => s
    else s
  | _, _ => s

mutual
/-- `copy.deepcopy(v, memo)` -/
def cpVal : Nat → St → Val → Except Err (St × Val)
  | _, s, .atom a => .ok (s, .atom a)
  | 0, s, .ref i =>
    match s.m.lookup i with
    | some j => .ok (s, .ref j)
    | none => .error .fuel
  | fuel + 1, s, .ref i =>
    match s.m.lookup i with
    | some j => .ok (s, .ref j)
    | none =>
      match s.h[i]? with
      | none => .error .dangling
      | some o =>
        match o.kind with
        | .annset =>
          -- AnnotationSet.__deepcopy__: o = AnnotationSet(target = copy of the target); memo; copies of the items added
          match o.get "target", itemFields s.h i with
          | some tv, some items =>
            match cpVal fuel s tv with
            | .error e => .error e
            | .ok (s1, tv') =>
              let j := s1.h.size
              let s2 : St := ⟨s1.h.push { kind := .annset, cls := o.cls, fields := [] }, (i, j) :: s1.m⟩
              match cpFields fuel s2 items with
              | .error e => .error e
              | .ok (s3, items') =>
                let vals := (dedupVals (items'.map Prod.snd).reverse).reverse
                let l := s3.h.size
                let h1 := s3.h.push { kind := .plain, cls := "list", fields := indexed "#" 0 vals }
                let h2 := h1.push { kind := .plain, cls := "set", fields := indexed "e" 0 vals }
                .ok (⟨setFields h2 j [("_item_list", .ref l), ("_item_set", .ref (l + 1)), ("target", tv')], s3.m⟩, .ref j)
          | _, _ => .error .malformed
        | _ =>
          -- other = cls.__new__(cls); memo[id(self)] = other  — before descending
          let j := s.h.size
          let s1 : St := ⟨s.h.push { o with fields := [] }, (i, j) :: s.m⟩
          match cpFields fuel s1 (planFields o) with
          | .error e => .error e
          | .ok (s2, fs') =>
            let s3 : St := ⟨setFields s2.h j fs', s2.m⟩
            match annotationsRef o with
            | none => .ok (s3, .ref j)
            | some a =>
              -- other.deep_copy_annotations_from(self, memo)
              match s3.h[a]?, itemFields s3.h a with
              | some ao, some items =>
                match cpItems fuel s3 i j (items.map Prod.snd) with
                | .error e => .error e
                | .ok (s4, items') => .ok (attachAnnotations s4 a ao.cls j items', .ref j)
              | _, _ => .error .malformed
/-- the attribute loop: `other.__dict__[k] = copy.deepcopy(self.__dict__[k], memo)` in order -/
def cpFields : Nat → St → List (String × Val) → Except Err (St × List (String × Val))
  | _, s, [] => .ok (s, [])
  | fuel, s, (k, v) :: r =>
    match cpVal fuel s v with
    | .error e => .error e
    | .ok (s1, v') =>
      match cpFields fuel s1 r with
      | .error e => .error e
      | .ok (s2, r') => .ok (s2, (k, v') :: r')
/-- the loop of `deep_copy_annotations_from`: copy each annotation, re-target attribute-bound ones -/
def cpItems : Nat → St → Nat → Nat → List Val → Except Err (St × List Val)
  | _, s, _, _, [] => .ok (s, [])
  | fuel, s, i, j, a1 :: r =>
    match cpVal fuel s a1 with
    | .error e => .error e
    | .ok (s1, a2) =>
      match cpItems fuel (retarget s1 i j a1 a2) i j r with
      | .error e => .error e
      | .ok (s2, r') => .ok (s2, a2 :: r')
end

/-! ### memo pre-seeding of the routes -/

inductive PreTarget where
  | existing (j : Nat)   -- an object of the heap (itself for the namespace-scoped routes, a member of the other namespace otherwise)
  | fresh                -- `require_taxon` found no label match: a new `Taxon(label)` is created
  | sameAs (i : Nat)     -- same target as source object `i` (a repeated label)

/-- `Taxon(label=…)`: `_label`, `_lower_cased_label = None`, `comments = []` -/
def newTaxon (h : Heap) (label : Val) : Heap × Nat :=
  let c := h.size
  let h1 := h.push { kind := .plain, cls := "list", fields := [] }
  (h1.push { kind := .taxon, cls := "Taxon", fields := [("_label", label), ("_lower_cased_label", .atom "None"), ("comments", .ref c)] },
   c + 1)

/-- the route's `memo` before `copy.deepcopy` is called.  Nothing is defaulted: a target outside the heap, a repeated label whose
first occurrence was not seeded, or a source taxon without `_label` is an error. -/
def preseed : St → List (Nat × PreTarget) → Except Err St
  | s, [] => .ok s
  | s, (i, .existing j) :: r =>
    if j < s.h.size then preseed ⟨s.h, (i, j) :: s.m⟩ r else .error .dangling
  | s, (i, .sameAs k) :: r =>
    match s.m.lookup k with
    | some j => preseed ⟨s.h, (i, j) :: s.m⟩ r
    | none => .error .malformed
  | s, (i, .fresh) :: r =>
    match s.h[i]? with
    | none => .error .dangling
    | some o =>
      match o.get "_label" with
      | none => .error .malformed
      | some lab =>
        let (h1, j) := newTaxon s.h lab
        preseed ⟨h1, (i, j) :: s.m⟩ r

/-- a whole copy route: pre-seed, then `copy.deepcopy(root, memo)` with fuel `2 * number of objects + 1` (sufficient on every
well-formed heap: `copy_total`; an object on the recursion stack is a distinct source object, and an annotation set may be entered
once more before it is memoised) -/
def copyRoute (h : Heap) (pre : List (Nat × PreTarget)) (root : Val) : Except Err (St × Val) :=
  match preseed ⟨h, []⟩ pre with
  | .error e => .error e
  | .ok s0 => cpVal (2 * h.size + 1) s0 root

/-! ### the shallow routes (`copy.copy(x)`, `x.clone(0)`, `TaxonNamespace(ns)`)

`Tree.__copy__` is the namespace-scoped deep copy (`copyRoute`); `Node`, `Edge`, `Taxon`, `CharacterType`, `DataSet` refuse
(`TypeError` / `NotImplementedError`: checked by the harness); `TreeList.__copy__` and `CharacterMatrix.__copy__` build a new
container around the SAME members and deep-copy the annotations; `TaxonNamespace.__copy__` = `TaxonNamespace(self)` is a memo-driven
copy with the namespace, its `_taxa` list and every taxon pre-seeded. -/

/-- `TreeList.__copy__` / `CharacterMatrix.__copy__`.  `b` is the instance the route has just constructed with
`cls(label=self.label, taxon_namespace=self.taxon_namespace)` (exported by the harness from the same constructor call; its
attribute values — the namespace, the label, a new empty `comments` list … — become the attributes of the copy); `mem` is the member
container attribute (`_trees`: `other._trees = list(self._trees)`; `_taxon_sequence_map`: filled key by key in the source's order):
the copy gets a NEW container holding the SAME member references in the same order.  Then `memo = {id(self): other}` and
`other.deep_copy_annotations_from(self, memo)`: the annotations are deep copies made through `cpItems` (bound ones re-targeted to
the copy), attached last.  Allocation order: the new object, its member container, then whatever the annotations allocate. -/
def shallowMembers (h : Heap) (src b : Nat) (mem : String) : Except Err (St × Val) :=
  match h[src]?, h[b]? with
  | some o, some ob =>
    match o.get mem with
    | some (.ref l) =>
      match h[l]? with
      | none => .error .dangling
      | some lo =>
        let j := h.size
        let h1 := h.push { ob with fields := setFieldL mem (.ref (j + 1)) ob.fields }
        let s0 : St := ⟨h1.push lo, [(src, j)]⟩
        match annotationsRef o with
        | none => .ok (s0, .ref j)
        | some a =>
          match s0.h[a]?, itemFields s0.h a with
          | some ao, some items =>
            match cpItems (2 * h.size + 1) s0 src j (items.map Prod.snd) with
            | .error e => .error e
            | .ok (s4, items') => .ok (attachAnnotations s4 a ao.cls j items', .ref j)
          | _, _ => .error .malformed
    | _ => .error .malformed
  | _, _ => .error .dangling

/-- the values of the items of a container object -/
def itemVals (o : Obj) : List Val := o.fields.map Prod.snd

/-- `memo[id(t2)] = t1` for the members: every taxon of the source is its own image -/
def seedSelf : List Val → Memo
  | [] => []
  | .ref t :: r => (t, t) :: seedSelf r
  | .atom _ :: r => seedSelf r

/-- `TaxonNamespace(other)` (= `copy.copy(ns)` = `ns.clone(0)`): the new namespace takes the SAME `Taxon` objects in the same order
(`add_taxon` into its own new `_taxa` list), `memo = {id(other): self, id(other._taxa): self._taxa, id(t): t …}`, then every other
attribute is `copy.deepcopy(other.__dict__[k], memo)` (the accession maps are rebuilt around the same taxa) and the annotations are
deep-copied.  (The constructor's own `__dict__` order — `comments` first — is not modelled: `_taxa` is put first as in
`planFields`.) -/
def shallowNs (h : Heap) (src : Nat) : Except Err (St × Val) :=
  match h[src]? with
  | none => .error .dangling
  | some o =>
    match o.kind, o.get "_taxa" with
    | .namespace, some (.ref l) =>
      match h[l]? with
      | none => .error .dangling
      | some lo =>
        let j := h.size
        let h1 := (h.push { o with fields := [] }).push lo
        let s0 : St := ⟨h1, (src, j) :: (l, j + 1) :: seedSelf (itemVals lo)⟩
        match cpFields (2 * h.size + 1) s0 (planFields o) with
        | .error e => .error e
        | .ok (s2, fs') =>
          let s3 : St := ⟨setFields s2.h j fs', s2.m⟩
          match annotationsRef o with
          | none => .ok (s3, .ref j)
          | some a =>
            match s3.h[a]?, itemFields s3.h a with
            | some ao, some items =>
              match cpItems (2 * h.size + 1) s3 src j (items.map Prod.snd) with
              | .error e => .error e
              | .ok (s4, items') => .ok (attachAnnotations s4 a ao.cls j items', .ref j)
            | _, _ => .error .malformed
    | _, _ => .error .malformed

/-- `clone(depth)` of `basemodel.DataObject`: which route a depth selects (anything else: `TypeError`) -/
inductive Depth where
  | shallow | scoped | deep
deriving DecidableEq, Repr

def cloneDepth : Nat → Option Depth
  | 0 => some .shallow
  | 1 => some .scoped
  | 2 => some .deep
  | _ => none

/-! ### `Node.extract_subtree` without a node filter (thin structural clone) -/

/-- what a clone carries: taxon (by reference; shown by label), edge length, node label, edge label -/
inductive X where
  | node (taxon : String) (len : Option Frac) (label : String) (elabel : String) (cs : List X)
deriving Inhabited

def X.len : X → Option Frac | .node _ l _ _ _ => l
def X.withLen : X → Option Frac → X | .node t _ s e cs, l => .node t l s e cs
def X.cs : X → List X | .node _ _ _ _ cs => cs

/-- the length arithmetic of the unifurcation branch: `if nd0.length is not None: child.length = nd0.length if child.length is None
else child.length + nd0.length` (a `None` parent length leaves the child alone) -/
def absorb (parent child : Option Frac) : Option Frac :=
  match parent, child with
  | none, c => c
  | some p, none => some p
  | some p, some c => some (Frac.add c p)

mutual
/-- post-order cloning through the memo; a node left with exactly one cloned child is replaced by that child when
`suppress_unifurcations` (at the seed this ends the loop: the child becomes the start node) -/
def extract (sup : Bool) (tax elb : Nat → String) : T → X
  | .node i _ l s cs =>
    match extractL sup tax elb cs, sup with
    | [k], true => k.withLen (absorb l k.len)
    | ks, _ => .node (tax i) l (encodeStr s) (elb i) ks
def extractL (sup : Bool) (tax elb : Nat → String) : List T → List X
  | [] => []
  | c :: cs => extract sup tax elb c :: extractL sup tax elb cs
end

mutual
def X.render : X → String
  | .node t l s e cs => "(" ++ t ++ " " ++ renderOLen l ++ " " ++ s ++ " " ++ e ++ X.renderL cs ++ ")"
def X.renderL : List X → String
  | [] => ""
  | c :: cs => X.render c ++ X.renderL cs
end

end DendroModel.C12
