import DendroModel.Model.C16
/-! C16, extended model: the entry points of `dendropy.model.parsimony` as a caller can combine them.

* tree objects of DIFFERENT trees in one history (`newTree`), each with one attribute store PER ATTRIBUTE NAME
  (`state_sets_attr_name`: store `0` is the default `"state_sets"`, `k > 0` a custom name); `state_sets_attr_name=None` means
  NO store at all: the pass works on a private dictionary (`_NodeStateSetMap`) that is dropped when it returns;
* `taxon_state_sets_map` OBJECTS that are built once (`defMap`: a snapshot of the content a matrix object has at that moment, or of
  a literal matrix) and passed to any number of later `fitch_down_pass` / `fitch_up_pass` calls — the passes only read them;
* what a failing down pass leaves behind: the attributes written before the exception stay on the nodes (`runNodesP`);
* `fitch_up_pass` (Fitch's final phase) over the pre-order with parent pointers, on the attribute store (`runUp`);
* `dump`: the attributes a caller can read off the nodes after a pass (`nd.state_sets`), pre-order. -/
namespace DendroModel.C16

/-- the down pass keeping what it wrote before an exception: final state and the exception, if any -/
def runNodesP (m : Matrix) (ws : List Nat) : St → List T → St × Option Err
  | st, [] => (st, none)
  | st, nd :: rest =>
    match stepNode m ws st nd with
    | .error e => (st, some e)
    | .ok st' => runNodesP m ws st' rest

/-- `fitch_down_pass(tree.postorder_node_iter(), taxon_state_sets_map=m, weights=…, score_by_character_list=[])` on the nodes'
    attributes `attrs`: the state afterwards (attributes written so far, score, per-character list) and the exception, if any -/
def parsimonyP (m : Matrix) (weights : Option (List Nat)) (attrs : Attrs) (t : T) : St × Option Err :=
  runNodesP m (weightsOf m weights) { attrs := attrs, score := 0, bychar := List.replicate (nchar m) 0 } (post t)

/-! ### `fitch_down_pass(…, taxon_state_sets_map=None)`: "the leaves must already carry their state sets" -/

/-- body of the node loop when no map is given: a leaf only READS its attribute (`ss = get_node_state_sets(nd)`; without the
    attribute the fallback `taxon_state_sets_map[n.taxon]` on `None` raises TypeError); internal nodes never consult the map -/
def stepNodeN (ws : List Nat) (st : St) (nd : T) : Except Err St :=
  match nd.cs with
  | [] =>
    match getAttr st.attrs nd.id with
    | none => .error .typeError
    | some _ => .ok st
  | _ :: _ => stepNode [] ws st nd

def runNodesNP (ws : List Nat) : St → List T → St × Option Err
  | st, [] => (st, none)
  | st, nd :: rest =>
    match stepNodeN ws st nd with
    | .error e => (st, some e)
    | .ok st' => runNodesNP ws st' rest

/-- enough unit weights for every stored row (`wt = 1` for every character when `weights is None`) -/
def onesFor (attrs : Attrs) : List Nat := List.replicate (attrs.foldl (fun n e => max n e.2.length) 0) 1

/-- `fitch_down_pass(tree.postorder_node_iter(), taxon_state_sets_map=None, weights=…)` (no per-character list: it needs the map) -/
def parsimonyNP (weights : Option (List Nat)) (attrs : Attrs) (t : T) : St × Option Err :=
  runNodesNP (match weights with | some w => w | none => onesFor attrs) { attrs := attrs, score := 0, bychar := [] } (post t)

/-! ### `fitch_up_pass` -/

/-- one character of one node in the final phase: parent's final set `p`, the node's down-pass set `c`, the children's
    down-pass sets `l`, `r` -/
def finalSet (p c l r : SS) : SS :=
  if p &&& c == p then p &&& c
  else if l &&& r == 0 then p ||| c
  else ((p &&& l) ||| (p &&& r)) ||| c

/-- `for n, ssp in enumerate(zip(par_ssl, curr_ssl, left_ssl, right_ssl))`: ends with the shortest list -/
def upLoop : Row → Row → Row → Row → Row
  | p :: ps, c :: cs, l :: ls, r :: rs => finalSet p c l r :: upLoop ps cs ls rs
  | _, _, _, _ => []

mutual
/-- `tree.preorder_node_iter()` with each node's `parent_node` (identity of the parent object; `none` at the seed) -/
def preP (par : Option Nat) : T → List (Option Nat × T)
  | .node i x l s cs => (par, .node i x l s cs) :: prePL (some i) cs
def prePL (par : Option Nat) : List T → List (Option Nat × T)
  | [] => []
  | c :: cs => preP par c ++ prePL par cs
end

/-- `getattr(child, name)`, falling back to `taxon_state_sets_map[child.taxon]` when the attribute is missing and a non-empty map
    was given (`if not taxon_state_sets_map: raise`) -/
def childSets (m : Option Matrix) (attrs : Attrs) (c : T) : Except Err Row :=
  match getAttr attrs c.id with
  | some r => .ok r
  | none =>
    match m with
    | none => .error .attrError
    | some m =>
      if m.isEmpty then .error .attrError else
      match lookupRow m c.taxon with
      | some r => .ok r
      | none => .error .keyError

/-- body of `for nd in preorder_node_iter:` of `fitch_up_pass`; leaves and the seed are skipped -/
def upStep (m : Option Matrix) (attrs : Attrs) (par : Option Nat) (nd : T) : Except Err Attrs :=
  match nd.cs, par with
  | [], _ => .ok attrs
  | _ :: _, none => .ok attrs
  | [lc, rc], some p =>
    match childSets m attrs lc with
    | .error e => .error e
    | .ok l =>
      match childSets m attrs rc with
      | .error e => .error e
      | .ok r =>
        match getAttr attrs p, getAttr attrs nd.id with
        | some ps, some cur => .ok ((nd.id, upLoop ps cur l r) :: attrs)
        | _, _ => .error .attrError
  | _, some _ => .error .assertError

/-- the up pass over a node sequence, keeping what was written before an exception -/
def runUp (m : Option Matrix) : Attrs → List (Option Nat × T) → Attrs × Option Err
  | attrs, [] => (attrs, none)
  | attrs, (par, nd) :: rest =>
    match upStep m attrs par nd with
    | .error e => (attrs, some e)
    | .ok attrs' => runUp m attrs' rest

/-- `fitch_up_pass(tree.preorder_node_iter(), state_sets_attr_name=name, taxon_state_sets_map=m)` -/
def upPass (m : Option Matrix) (attrs : Attrs) (t : T) : Attrs × Option Err := runUp m attrs (preP none t)

/-- what a caller reads off the nodes: `[getattr(nd, name, None) for nd in tree.preorder_node_iter()]` -/
def dumpAttrs (attrs : Attrs) (t : T) : List (Option Row) := t.nodes.map (fun nd => getAttr attrs nd.id)

/-! ### histories of the extended alphabet -/

/-- attribute stores of one tree object by attribute name (the most recent entry of a name counts) -/
abbrev Stores := List (Nat × Attrs)

def getStore : Stores → Nat → Attrs
  | [], _ => []
  | (n, a) :: rest, name => if n == name then a else getStore rest name

/-- a tree object: its tree and its nodes' attributes -/
structure Obj where
  tree : T
  stores : Stores

/-- where a scoring call takes its `taxon_state_sets_map` from -/
inductive Src where
  | lit (m : Matrix)                        -- a matrix built for this call only
  | mat (k : Nat) (gapsAsMissing : Bool)    -- `parsimony_score(tree, chars, …)` / a map built from matrix object `k` for this call
  | map (k : Nat)                           -- a `taxon_state_sets_map` object built earlier and reused

inductive XOp where
  | newTree (t : T)
  | clone (obj : Nat)
  | defMat (k : Nat) (mo : MatObj)
  | editCell (k bit idx : Nat) (sym : Char)
  | editSeq (k bit : Nat) (syms : List Char)
  | defMap (k : Nat) (src : Src)                       -- create map object `k` (next free index) or replace it
  | score (obj : Nat) (src : Src) (store : Option Nat) (weights : Option (List Nat))
  | up (obj : Nat) (store : Nat) (map : Option Nat)
  | scoreNoMap (obj : Nat) (store : Option Nat) (weights : Option (List Nat))   -- `fitch_down_pass(…, taxon_state_sets_map=None)`
  | scoreForeign (obj : Nat) (k : Nat)     -- `parsimony_score(tree, chars)` with a matrix object of ANOTHER taxon namespace
  | dump (obj : Nat) (store : Nat)

inductive XRes where
  | ok (score : Nat) (bychar : List Nat)
  | err (e : Err)
  | cloned
  | created
  | badObj
  | matOk
  | badMat
  | upOk
  | sets (rows : List (Option Row))

structure XState where
  objs : List Obj
  mats : List MatObj
  maps : List Matrix

/-- the matrix a source denotes now -/
def srcMatrix (s : XState) : Src → Option Matrix
  | .lit m => some m
  | .mat k g =>
    match s.mats[k]? with
    | none => none
    | some mo => matrixOf mo.cols g mo.rows
  | .map k => s.maps[k]?

def matOpOf : XOp → Option MOp
  | .defMat k mo => some (.defMat k mo)
  | .editCell k b i c => some (.editCell k b i c)
  | .editSeq k b cs => some (.editSeq k b cs)
  | _ => none

def putAt {α : Type} (l : List α) (k : Nat) (v : α) : Option (List α) :=
  if k < l.length then some (l.set k v) else if k == l.length then some (l ++ [v]) else none

/-- one step: the new state and what the caller observes -/
def stepX (s : XState) : XOp → XState × XRes
  | .newTree t => ({ s with objs := s.objs ++ [{ tree := t, stores := [] }] }, .created)
  | .clone j =>
    match s.objs[j]? with
    | none => (s, .badObj)
    | some o => ({ s with objs := s.objs ++ [o] }, .cloned)
  | .defMat k mo =>
    ({ s with mats := (stepMats s.mats (.defMat k mo)).1 },
      if (stepMats s.mats (.defMat k mo)).2 == some true then .matOk else .badMat)
  | .editCell k b i c =>
    ({ s with mats := (stepMats s.mats (.editCell k b i c)).1 },
      if (stepMats s.mats (.editCell k b i c)).2 == some true then .matOk else .badMat)
  | .editSeq k b cs =>
    ({ s with mats := (stepMats s.mats (.editSeq k b cs)).1 },
      if (stepMats s.mats (.editSeq k b cs)).2 == some true then .matOk else .badMat)
  | .defMap k src =>
    match srcMatrix s src with
    | none => (s, .badMat)
    | some m =>
      match putAt s.maps k m with
      | none => (s, .badMat)
      | some maps => ({ s with maps := maps }, .matOk)
  | .score j src store w =>
    match srcMatrix s src with
    | none => (s, .badMat)
    | some m =>
      match s.objs[j]? with
      | none => (s, .badObj)
      | some o =>
        match store with
        | none =>
          -- no attribute store: a private dictionary, gone after the call
          (s, match parsimonyP m w [] o.tree with
              | (st, none) => .ok st.score st.bychar
              | (_, some e) => .err e)
        | some name =>
          ({ s with objs := s.objs.set j { o with stores := (name, (parsimonyP m w (getStore o.stores name) o.tree).1.attrs) :: o.stores } },
            match parsimonyP m w (getStore o.stores name) o.tree with
            | (st, none) => .ok st.score st.bychar
            | (_, some e) => .err e)
  | .up j name mk =>
    match s.objs[j]? with
    | none => (s, .badObj)
    | some o =>
      match (match mk with | none => some none | some k => (s.maps[k]?).map some) with
      | none => (s, .badMat)
      | some mo =>
        ({ s with objs := s.objs.set j { o with stores := (name, (upPass mo (getStore o.stores name) o.tree).1) :: o.stores } },
          match (upPass mo (getStore o.stores name) o.tree).2 with
          | none => .upOk
          | some e => .err e)
  | .scoreNoMap j store w =>
    match s.objs[j]? with
    | none => (s, .badObj)
    | some o =>
      match store with
      | none =>
        (s, match parsimonyNP w [] o.tree with
            | (st, none) => .ok st.score []
            | (_, some e) => .err e)
      | some name =>
        ({ s with objs := s.objs.set j { o with stores := (name, (parsimonyNP w (getStore o.stores name) o.tree).1.attrs) :: o.stores } },
          match parsimonyNP w (getStore o.stores name) o.tree with
          | (st, none) => .ok st.score []
          | (_, some e) => .err e)
  | .scoreForeign j k =>
    -- the identity test comes first: nothing is read, nothing is written
    match s.objs[j]?, s.mats[k]? with
    | some _, some _ => (s, .err .nsError)
    | none, _ => (s, .badObj)
    | _, none => (s, .badMat)
  | .dump j name =>
    match s.objs[j]? with
    | none => (s, .badObj)
    | some o => (s, .sets (dumpAttrs (getStore o.stores name) o.tree))

def runXHist : XState → List XOp → List XRes
  | _, [] => []
  | s, op :: rest => (stepX s op).2 :: runXHist (stepX s op).1 rest

end DendroModel.C16
