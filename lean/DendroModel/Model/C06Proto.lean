import DendroModel.Model.C06
/-! C06 — the SumTrees worker protocol at the level of queue operations, with `multiprocessing.Queue`'s
*asynchronous* put: an item put by the parent is in flight until a schedule step delivers it to the pipe.

Two protocols:
* `blocking = false`, no end markers (the unrepaired code): a worker asks with `get_nowait` and quits when the pipe
  is empty — also when items are still in flight;
* `blocking = true`, one `stop` marker per worker behind the files (repaired): a worker blocks in `get` until an item
  is delivered and quits at a marker.
Mathlib-free and executable (driver op `async`). -/
namespace DendroModel.C06
open DendroModel

inductive Item where
  | file (k : Nat)
  | stop
deriving DecidableEq, Repr, Inhabited

inductive Phase where
  | fresh     -- process started, has not reached its first queue operation
  | asking    -- about to take the next item
  | done      -- left the loop (and posted its one result)
deriving DecidableEq, Repr, Inhabited

structure WState where
  phase : Phase
  taken : List Nat          -- indices of the files read, in the order read
deriving Repr, Inhabited

structure PState where
  inflight : List Item      -- put by the parent, not yet in the pipe (oldest first)
  delivered : List Item     -- in the pipe (oldest first)
  ws : List WState
deriving Repr, Inhabited

inductive Act where
  | deliver
  | step (i : Nat)
deriving DecidableEq, Repr, Inhabited

/-- worker `i` performs its pending operation -/
def stepW (blocking : Bool) (s : PState) (i : Nat) : PState :=
  match s.ws[i]? with
  | none => s
  | some w =>
    match w.phase with
    | .fresh => { s with ws := s.ws.set i { w with phase := .asking } }
    | .done => s
    | .asking =>
      match s.delivered with
      | [] => if blocking then s else { s with ws := s.ws.set i { w with phase := .done } }
      | .file k :: d => { s with delivered := d, ws := s.ws.set i { w with taken := w.taken ++ [k] } }
      | .stop :: d => { s with delivered := d, ws := s.ws.set i { w with phase := .done } }

def stepEnabled (blocking : Bool) (s : PState) (i : Nat) : Bool :=
  match s.ws[i]? with
  | none => false
  | some w =>
    match w.phase with
    | .fresh => true
    | .done => false
    | .asking => !blocking || !s.delivered.isEmpty

/-- the actions a scheduler can choose from: deliver the oldest in-flight item, or let an enabled worker move -/
def enabledActs (blocking : Bool) (s : PState) : List Act :=
  (if s.inflight.isEmpty then [] else [Act.deliver]) ++
    ((List.range s.ws.length).filter (stepEnabled blocking s)).map Act.step

def applyAct (blocking : Bool) (s : PState) : Act → PState
  | .deliver => match s.inflight with
    | [] => s
    | x :: r => { s with inflight := r, delivered := s.delivered ++ [x] }
  | .step i => stepW blocking s i

/-- run under a schedule: the k-th decision takes enabled action number `choices[k]` (mod the number enabled; 0 when
    the list is exhausted); stops when nothing is enabled -/
def runProto (blocking : Bool) : Nat → List Nat → PState → PState
  | 0, _, s => s
  | fuel + 1, cs, s =>
    match enabledActs blocking s with
    | [] => s
    | a :: as =>
      let act := ((a :: as)[(cs.head?.getD 0) % (as.length + 1)]?).getD a
      runProto blocking fuel cs.tail (applyAct blocking s act)

def initP (sentinel : Bool) (nw nfiles : Nat) : PState :=
  ⟨(List.range nfiles).map Item.file ++ (if sentinel then List.replicate nw Item.stop else []), [],
   List.replicate nw ⟨.fresh, []⟩⟩

/-- more steps than any schedule can take -/
def fuelOf (nw nfiles : Nat) : Nat := 3 * (nfiles + nw) + 2 * nw + 1

def finalP (blocking : Bool) (nw nfiles : Nat) (choices : List Nat) : PState :=
  runProto blocking (fuelOf nw nfiles) choices (initP blocking nw nfiles)

/-- the trees worker `i` ends up holding -/
def treesOf (s : PState) (files : List (List TRec)) (i : Nat) : List TRec :=
  ((s.ws[i]?.map (·.taken)).getD []).flatMap (fun k => files[k]?.getD [])

/-- `parallel_analyze_trees` under asynchronous delivery: the queue schedule `choices` decides who reads what (and, for
    the unrepaired protocol, who quits early); results arrive in the order `arrival`.  The parent waits for one result
    per worker: if some worker never finishes the run never returns (`none`). -/
def runAsync (r : Option Bool) (f : Flags) (blocking : Bool) (nw : Nat) (choices arrival : List Nat)
    (files : List (List TRec)) : Option (Except Err TA) :=
  let fin := finalP blocking nw files.length choices
  if fin.ws.all (fun w => w.phase == .done) then
    some (match buildParts f (arrival.map fun i => (r, treesOf fin files i)) with
      | .ok ws => collate (TA.new r f) ws
      | .error e => .error e)
  else none

/-! ## the end-marker protocol when reading a file can fail

`TreeAnalysisWorker.run` catches an exception raised while a file is read, posts it on the results queue *instead of* its
array and leaves the loop at once — without waiting for its end-of-work marker.  The parent's collation loop takes one
result per worker in arrival order and re-raises the first exception it meets. -/

/-- worker `i` performs its pending operation (blocking `get`); `fails taken k`: reading file `k` raises in a worker that has
    read the files `taken` before -/
def stepWF (fails : List Nat → Nat → Bool) (s : PState) (i : Nat) : PState :=
  match s.ws[i]? with
  | none => s
  | some w =>
    match w.phase, s.delivered with
    | .asking, .file k :: d =>
      if fails w.taken k then { s with delivered := d, ws := s.ws.set i { phase := .done, taken := w.taken ++ [k] } }
      else stepW true s i
    | _, _ => stepW true s i

def applyActF (fails : List Nat → Nat → Bool) (s : PState) : Act → PState
  | .deliver => applyAct true s .deliver
  | .step i => stepWF fails s i

def runProtoF (fails : List Nat → Nat → Bool) : Nat → List Nat → PState → PState
  | 0, _, s => s
  | fuel + 1, cs, s =>
    match enabledActs true s with
    | [] => s
    | a :: as =>
      let act := ((a :: as)[(cs.head?.getD 0) % (as.length + 1)]?).getD a
      runProtoF fails fuel cs.tail (applyActF fails s act)

def finalPF (fails : List Nat → Nat → Bool) (nw nfiles : Nat) (choices : List Nat) : PState :=
  runProtoF fails (fuelOf nw nfiles) choices (initP true nw nfiles)

/-- does reading file `k` raise in a worker (declared rooting `r`, settings `f`) that has read the files `taken`? -/
def failsOf (r : Option Bool) (f : Flags) (files : List (List TRec)) (taken : List Nat) (k : Nat) : Bool :=
  match addAll (TA.new r f) ((taken ++ [k]).flatMap (fun j => files[j]?.getD [])) with
  | .ok _ => false
  | .error _ => true

/-- the collation loop of `parallel_analyze_trees` over what the workers posted: an exception is re-raised as soon as it is
    taken from the results queue; arrays are merged with `update` -/
def collateX (master : TA) : List (Except Err TA) → Except Err TA
  | [] => .ok master
  | .error e :: _ => .error e
  | .ok w :: rs => match update master w with
    | .ok m => collateX m rs
    | .error e => .error e

/-- what worker `i` posts: its array, or the exception of the read that failed (`addAll` stops at the first rejected tree,
    which lies in the last file taken, the earlier files having been read without error) -/
def postedBy (r : Option Bool) (f : Flags) (fin : PState) (files : List (List TRec)) (i : Nat) : Except Err TA :=
  addAll (TA.new r f) (treesOf fin files i)

/-- `parallel_analyze_trees` with failing reads: `none` = the parent waits for ever -/
def runAsyncF (r : Option Bool) (f : Flags) (nw : Nat) (choices arrival : List Nat) (files : List (List TRec)) :
    Option (Except Err TA) :=
  let fin := finalPF (failsOf r f files) nw files.length choices
  if fin.ws.all (fun w => w.phase == .done) then
    some (collateX (TA.new r f) (arrival.map fun i => postedBy r f fin files i))
  else none

/-- the collation loop waiting for `count` results only (`while result_count < count`): whatever arrives later is never merged -/
def runAsyncN (count : Nat) (r : Option Bool) (f : Flags) (nw : Nat) (choices arrival : List Nat) (files : List (List TRec)) :
    Option (Except Err TA) :=
  let fin := finalPF (failsOf r f files) nw files.length choices
  if fin.ws.all (fun w => w.phase == .done) then
    some (collateX (TA.new r f) ((arrival.map fun i => postedBy r f fin files i).take count))
  else none

/-- the same with a burn-in applied by every worker to every file it reads -/
def runAsyncFB (burnin : Nat) (r : Option Bool) (f : Flags) (nw : Nat) (choices arrival : List Nat) (files : List (List TRec)) :
    Option (Except Err TA) :=
  runAsyncF r f nw choices arrival (workerFiles burnin files)

end DendroModel.C06
