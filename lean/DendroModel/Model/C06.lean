import DendroModel.Basic.Tree
import DendroModel.Gen.PyBits
/-! C06 — `TreeArray` (four parallel per-tree lists + a `SplitDistribution`), its accession and
merge operations as the (repaired) code performs them, and the message-level model of the SumTrees
worker/collation protocol.  Mathlib-free and executable (the driver runs these definitions).

A tree reaches the collection as a *record* `TRec`: rooting state, weight, leaf-set mask and one
`Entry` (split mask, edge length, node age) per edge of its bipartition encoding — what
`encode_bipartitions` / `calc_node_ages` deliver (the subject of C01/C17, not of C06).

Repaired behaviour modelled here (the unrepaired code contradicts the property):
* `update`: an empty `other` is a no-op (unrepaired: rooting/settings of an empty `other` are compared);
* `extend`/`+=`/`+`: same compatibility rule as `update`, and all four lists are extended
  (unrepaired: asserts on rooting even for empties; `_tree_leafset_bitmasks` not extended). -/
namespace DendroModel.C06
open DendroModel

/-- exact rational, deliberately *not* normalised: sums are structurally commutative and associative.
    (The code accumulates binary64 floats; on the dyadic inputs of the harness those sums are exact.) -/
structure Q where
  num : Int
  den : Nat
deriving DecidableEq, Repr, Inhabited

namespace Q
def zero : Q := ⟨0, 1⟩
def one : Q := ⟨1, 1⟩
def add (a b : Q) : Q := ⟨a.num * b.den + b.num * a.den, a.den * b.den⟩
def mul (a b : Q) : Q := ⟨a.num * b.num, a.den * b.den⟩
def ofFrac (f : Frac) : Q := ⟨f.num, f.den⟩
def ofNat (n : Nat) : Q := ⟨n, 1⟩
def toFrac (q : Q) : Frac := Frac.mk' q.num q.den
def isZero (q : Q) : Bool := q.num == 0
/-- `a / b` (callers guard `b ≠ 0`; a zero divisor yields zero) -/
def div (a b : Q) : Q :=
  if b.num > 0 then ⟨a.num * b.den, a.den * b.num.toNat⟩
  else if b.num < 0 then ⟨-(a.num * b.den), a.den * (-b.num).toNat⟩
  else zero
def render (q : Q) : String := q.toFrac.render
end Q

/-- one edge of a tree's bipartition encoding -/
structure Entry where
  split : Nat
  len : Option Frac
  age : Option Frac
deriving DecidableEq, Repr, Inhabited

/-- what `add_tree` reads off a tree -/
structure TRec where
  rooted : Option Bool       -- `tree.is_rooted` (may be `None`)
  weight : Option Frac       -- `tree.weight`
  leafset : Nat              -- `tree.seed_node.edge.bipartition.leafset_bitmask`
  entries : List Entry       -- `tree.bipartition_encoding`, in order
deriving DecidableEq, Repr, Inhabited

structure Flags where
  ignoreLens : Bool
  ignoreAges : Bool
  useWeights : Bool
deriving DecidableEq, Repr, Inhabited

/-! ## dictionaries as association lists in insertion order -/

/-- `d[s] += w` on a `defaultdict(float)` -/
def bump (s : Nat) (w : Q) : List (Nat × Q) → List (Nat × Q)
  | [] => [(s, Q.zero.add w)]
  | (k, v) :: r => if k == s then (k, v.add w) :: r else (k, v) :: bump s w r

/-- `d.get(s, 0.0)` -/
def getQ (s : Nat) : List (Nat × Q) → Q
  | [] => Q.zero
  | (k, v) :: r => if k == s then v else getQ s r

def hasKey {β : Type} (s : Nat) : List (Nat × β) → Bool
  | [] => false
  | (k, _) :: r => k == s || hasKey s r

/-- `d[s] += xs` on a `defaultdict(list)` (creates the key even for an empty `xs`) -/
def pushAll {α : Type} (s : Nat) (xs : List α) : List (Nat × List α) → List (Nat × List α)
  | [] => [(s, xs)]
  | (k, v) :: r => if k == s then (k, v ++ xs) :: r else (k, v) :: pushAll s xs r

/-- `d.setdefault(s, []).append(x)` -/
def push {α : Type} (s : Nat) (x : α) (d : List (Nat × List α)) : List (Nat × List α) := pushAll s [x] d

/-- `d[s]`, `[]` when absent -/
def getL {α : Type} (s : Nat) : List (Nat × List α) → List α
  | [] => []
  | (k, v) :: r => if k == s then v else getL s r

/-! ## SplitDistribution -/

structure SD where
  flags : Flags                       -- ignore_edge_lengths / ignore_node_ages / use_tree_weights of the distribution itself
  total : Nat                         -- total_trees_counted
  sumW : Q                            -- sum_of_tree_weights
  sawRooted : Bool                    -- True in tree_rooting_types_counted
  sawUnrooted : Bool                  -- False in tree_rooting_types_counted
  counts : List (Nat × Q)             -- split_counts
  lens : List (Nat × List Frac)       -- split_edge_lengths
  ages : List (Nat × List (Option Frac))  -- split_node_ages
deriving Repr, Inhabited

def SD.new (f : Flags) : SD := ⟨f, 0, Q.zero, false, false, [], [], []⟩

def weightOf (useW : Bool) (t : TRec) : Q :=
  match t.weight with
  | some w => if useW then Q.ofFrac w else Q.one
  | none => Q.one

/-- body of the loop over `tree.bipartition_encoding` in `count_splits_on_tree` -/
def countEntry (fl : Flags) (w : Q) (sd : SD) (e : Entry) : SD :=
  { sd with
    counts := bump e.split w sd.counts
    lens := if fl.ignoreLens then sd.lens else push e.split (e.len.getD Frac.zero) sd.lens
    ages := if fl.ignoreAges then sd.ages else push e.split e.age sd.ages }

/-- `SplitDistribution.count_splits_on_tree` (edge length `None` → `default_edge_length_value` = 0) -/
def countTree (sd : SD) (t : TRec) : SD :=
  let w := weightOf sd.flags.useWeights t
  let sd1 : SD := { sd with
    total := sd.total + 1
    sumW := sd.sumW.add w
    sawRooted := sd.sawRooted || t.rooted == some true
    sawUnrooted := sd.sawUnrooted || t.rooted != some true }
  t.entries.foldl (countEntry sd.flags w) sd1

/-- body of the loop `for split in split_dist.split_counts` in `SplitDistribution.update` -/
def mergeEntry (b : SD) (a : SD) (kc : Nat × Q) : SD :=
  { a with
    counts := bump kc.1 kc.2 a.counts
    lens := pushAll kc.1 (getL kc.1 b.lens) a.lens
    ages := pushAll kc.1 (getL kc.1 b.ages) a.ages }

/-- `SplitDistribution.update` -/
def SD.merge (a b : SD) : SD :=
  b.counts.foldl (mergeEntry b)
    { a with
      total := a.total + b.total
      sumW := a.sumW.add b.sumW
      sawRooted := a.sawRooted || b.sawRooted
      sawUnrooted := a.sawUnrooted || b.sawUnrooted }

/-- `calc_normalization_weight` -/
def SD.norm (sd : SD) : Q := if sd.sumW.isZero then Q.ofNat sd.total else sd.sumW

/-- `split_frequencies.get(s, 0.0)` (`calc_freqs`: every counted split has frequency 1 while no tree is counted) -/
def SD.freq (sd : SD) (s : Nat) : Q :=
  if hasKey s sd.counts then
    (if sd.total == 0 then Q.one else (getQ s sd.counts).div sd.norm)
  else Q.zero

/-! ## TreeArray -/

inductive Err where
  | mixedRooting | incRooting | incLens | incAges | incWeights | assertion | badReg
deriving DecidableEq, Repr, Inhabited

structure TA where
  rooting : Option Bool                 -- _is_rooted_trees
  flags : Flags                         -- the array's own three settings
  splits : List (List Nat)              -- _tree_split_bitmasks
  elens : List (List (Option Frac))     -- _tree_edge_lengths
  leafsets : List Nat                   -- _tree_leafset_bitmasks
  weights : List Q                      -- _tree_weights
  sd : SD                               -- _split_distribution
deriving Repr, Inhabited

def TA.new (r : Option Bool) (f : Flags) : TA := ⟨r, f, [], [], [], [], SD.new f⟩

/-- `validate_rooting`: adopt while undefined, else demand equality. `none` = MixedRootingError -/
def validateRooting (cur : Option Bool) (tr : Option Bool) : Option (Option Bool) :=
  match cur with
  | none => some tr
  | some r => if tr == some r then some cur else none

/-- Python `list.insert(i, x)` for any integer `i` -/
def pyInsert {α : Type} (i : Int) (x : α) (l : List α) : List α :=
  let n : Int := l.length
  let j : Int := if i < 0 then (if i + n < 0 then 0 else i + n) else (if i > n then n else i)
  l.take j.toNat ++ x :: l.drop j.toNat

/-- `add_tree(tree, index=idx)`; `append` and `insert` are thin wrappers of it -/
def addTree (ta : TA) (t : TRec) (idx : Option Int) : Except Err TA :=
  match validateRooting ta.rooting t.rooted with
  | none => .error .mixedRooting
  | some r =>
    let sd := countTree ta.sd t
    -- `assert len(splits) == len(edge_lengths)`: the distribution returns no lengths when *it* ignores them
    if !ta.flags.ignoreLens && ta.sd.flags.ignoreLens && !t.entries.isEmpty then .error .assertion else
    let sp := t.entries.map (·.split)
    let el : List (Option Frac) :=
      if ta.flags.ignoreLens then t.entries.map (fun _ => none)
      else t.entries.map (fun e => some (e.len.getD Frac.zero))
    let w := weightOf ta.flags.useWeights t
    match idx with
    | none =>
      .ok { ta with rooting := r, splits := ta.splits ++ [sp], elens := ta.elens ++ [el],
                    leafsets := ta.leafsets ++ [t.leafset], weights := ta.weights ++ [w], sd := sd }
    | some i =>
      .ok { ta with rooting := r, splits := pyInsert i sp ta.splits, elens := pyInsert i el ta.elens,
                    leafsets := pyInsert i t.leafset ta.leafsets, weights := pyInsert i w ta.weights, sd := sd }

/-- the concatenation at the end of `update` -/
def TA.absorb (a b : TA) : TA :=
  { a with splits := a.splits ++ b.splits, elens := a.elens ++ b.elens,
           leafsets := a.leafsets ++ b.leafsets, weights := a.weights ++ b.weights,
           sd := a.sd.merge b.sd }

/-- `TreeArray.update` (repaired: nothing to merge from an empty `other`, whatever its rooting state) -/
def update (a b : TA) : Except Err TA :=
  if b.splits.isEmpty then .ok a
  else if !a.splits.isEmpty then
    if a.rooting != b.rooting then .error .incRooting
    else if a.flags.ignoreLens != b.flags.ignoreLens then .error .incLens
    else if a.flags.ignoreAges != b.flags.ignoreAges then .error .incAges
    else if a.flags.useWeights != b.flags.useWeights then .error .incWeights
    else .ok (a.absorb b)
  else .ok ({ a with rooting := b.rooting, flags := b.flags }.absorb b)

/-- `TreeArray.extend` = `+=` (repaired: the rule of `update`, all four lists) -/
def extend (a b : TA) : Except Err TA := update a b

/-- `TreeArray.__add__`: a fresh array with `self`'s rooting and settings, `+= self`, `+= other` -/
def plus (a b : TA) : Except Err TA :=
  match extend (TA.new a.rooting a.flags) a with
  | .error e => .error e
  | .ok c => extend c b

/-! ## operation histories over a register file of arrays -/

inductive Op where
  | new (r : Option Bool) (f : Flags)    -- appended as a new register
  | add (d : Nat) (t : TRec)
  | ins (d : Nat) (i : Int) (t : TRec)
  | upd (d s : Nat)
  | ext (d s : Nat)
  | iadd (d s : Nat)
  | plus (a b : Nat)                     -- result appended as a new register
deriving Repr, Inhabited

def step (regs : List TA) : Op → Except Err (List TA)
  | .new r f => .ok (regs ++ [TA.new r f])
  | .add d t =>
    match regs[d]? with
    | none => .error .badReg
    | some a => match addTree a t none with
      | .ok a' => .ok (regs.set d a')
      | .error e => .error e
  | .ins d i t =>
    match regs[d]? with
    | none => .error .badReg
    | some a => match addTree a t (some i) with
      | .ok a' => .ok (regs.set d a')
      | .error e => .error e
  | .upd d s =>
    match regs[d]?, regs[s]? with
    | some a, some b => match update a b with
      | .ok a' => .ok (regs.set d a')
      | .error e => .error e
    | _, _ => .error .badReg
  | .ext d s | .iadd d s =>
    match regs[d]?, regs[s]? with
    | some a, some b => match extend a b with
      | .ok a' => .ok (regs.set d a')
      | .error e => .error e
    | _, _ => .error .badReg
  | .plus a b =>
    match regs[a]?, regs[b]? with
    | some x, some y => match plus x y with
      | .ok c => .ok (regs ++ [c])
      | .error e => .error e
    | _, _ => .error .badReg

/-- what a failing `add_tree` leaves behind when its length `assert` fires: `validate_rooting` has already adopted the
    rooting and `count_splits_on_tree` has already counted the tree; the four lists are untouched -/
def addTreeHalf (ta : TA) (t : TRec) : TA :=
  match validateRooting ta.rooting t.rooted with
  | none => ta
  | some r => { ta with rooting := r, sd := countTree ta.sd t }

/-- registers after a rejected operation: every rejection happens before anything is mutated, except the
    `assert` inside `add_tree` (see `addTreeHalf`) -/
def afterError (regs : List TA) (op : Op) (e : Err) : List TA :=
  if e = .assertion then
    match op with
    | .add d t | .ins d _ t =>
      match regs[d]? with
      | some a => regs.set d (addTreeHalf a t)
      | none => regs
    | _ => regs
  else regs

/-- run a history, logging the outcome of every operation -/
def run (regs : List TA) : List Op → List TA × List (Option Err)
  | [] => (regs, [])
  | op :: ops =>
    match step regs op with
    | .ok regs' => let (r, log) := run regs' ops; (r, none :: log)
    | .error e => let (r, log) := run (afterError regs op e) ops; (r, some e :: log)

/-- ghost semantics of a history: which trees each array *should* hold, in order, if every operation did what its
    name says (`add` appends, `ins` inserts like a Python list, `update`/`extend`/`+=` concatenate the source behind
    the destination, `+` makes a new collection holding both); operations naming a missing register do nothing -/
def ghostStep (g : List (List TRec)) : Op → List (List TRec)
  | .new _ _ => g ++ [[]]
  | .add d t => match g[d]? with
    | some ts => g.set d (ts ++ [t])
    | none => g
  | .ins d i t => match g[d]? with
    | some ts => g.set d (pyInsert i t ts)
    | none => g
  | .upd d s | .ext d s | .iadd d s => match g[d]?, g[s]? with
    | some x, some y => g.set d (x ++ y)
    | _, _ => g
  | .plus a b => match g[a]?, g[b]? with
    | some x, some y => g ++ [x ++ y]
    | _, _ => g

def ghostRun (ops : List Op) : List (List TRec) := ops.foldl ghostStep []

/-! ## per-tree queries and summaries -/

/-- which splits of a tree enter its credibility score (`calculate_log_product_of_split_supports`, default flags) -/
def qualifies (leafset s : Nat) : Bool :=
  s == leafset || !PyBits.is_trivial_bitmask (s : Int) (leafset : Int)

/-- product of the supports of a tree's qualifying splits (the code sums their logarithms; zero supports are skipped) -/
def treeScore (sd : SD) (leafset : Nat) (splits : List Nat) : Q :=
  splits.foldl (fun acc s =>
    if qualifies leafset s then (let f := sd.freq s; if f.isZero then acc else acc.mul f) else acc) Q.one

/-- sum of the supports of a tree's qualifying splits (`calculate_sum_of_split_supports`) -/
def treeSum (sd : SD) (leafset : Nat) (splits : List Nat) : Q :=
  splits.foldl (fun acc s => if qualifies leafset s then acc.add (sd.freq s) else acc) Q.zero

/-- per-tree scores; `none` = the code's `assert len(leafsets) == len(splits)` fails -/
def scores (ta : TA) : Option (List Q) :=
  if ta.leafsets.length != ta.splits.length then none
  else some ((ta.leafsets.zip ta.splits).map fun p => treeScore ta.sd p.1 p.2)

def sums (ta : TA) : Option (List Q) :=
  if ta.leafsets.length != ta.splits.length then none
  else some ((ta.leafsets.zip ta.splits).map fun p => treeSum ta.sd p.1 p.2)

def Q.le (a b : Q) : Bool := a.num * b.den ≤ b.num * a.den
def Q.lt (a b : Q) : Bool := a.num * b.den < b.num * a.den

/-- `(index, value)` of the first strict maximum among `l`, scanning from index `i` with the best so far `best`
    (`if max_score is None or max_score < score`) -/
def argmaxFrom : List Q → Nat → Option (Nat × Q) → Option (Nat × Q)
  | [], _, best => best
  | x :: r, i, none => argmaxFrom r (i + 1) (some (i, x))
  | x :: r, i, some (j, m) => argmaxFrom r (i + 1) (if Q.lt m x then some (i, x) else some (j, m))

/-- `max_score_tree_idx` of `calculate_log_product_of_split_supports` (`none`: empty collection or failed assert) -/
def mccIndex (ta : TA) : Option Nat :=
  match scores ta with
  | none => none
  | some l => (argmaxFrom l 0 none).map (·.1)

/-- insertion of `(freq, mask)` into a list sorted in descending order (`to_try_to_add.sort(reverse=True)`) -/
def insDesc (x : Q × Nat) : List (Q × Nat) → List (Q × Nat)
  | [] => [x]
  | y :: r =>
    let xGe : Bool := if Q.le y.1 x.1 && Q.le x.1 y.1 then y.2 ≤ x.2 else Q.le y.1 x.1
    if xGe then x :: y :: r else y :: insDesc x r

/-- the split list `consensus_tree(min_freq)` hands to `from_split_bitmasks`:
    every counted split with frequency ≥ `minFreq`, by decreasing `(frequency, mask)` -/
def consensusOrder (sd : SD) (minFreq : Q) : List Nat :=
  let cands := (sd.counts.map fun kc => (sd.freq kc.1, kc.1)).filter fun p => Q.le minFreq p.1
  (cands.foldr insDesc []).map (·.2)

/-! ## per-split summaries put on a summary tree -/

/-- exact sum of a list of lengths (un-normalised, so that it does not depend on the order of the summands) -/
def qsumF : List Frac → Q
  | [] => Q.zero
  | f :: r => (Q.ofFrac f).add (qsumF r)

/-- `split_edge_length_summaries[s]['mean']`: mean of the edge lengths collected for split `s` (`none`: no value) -/
def SD.meanLen (sd : SD) (s : Nat) : Option Q :=
  let l := getL s sd.lens
  if l.isEmpty then none else some ((qsumF l).div (Q.ofNat l.length))

/-- `split_node_age_summaries[s]['mean']`: mean of the node ages collected for split `s` -/
def SD.meanAge (sd : SD) (s : Nat) : Option Q :=
  let l := (getL s sd.ages).filterMap id
  if l.isEmpty then none else some ((qsumF l).div (Q.ofNat l.length))

/-- exact sum of the squares of a list of lengths -/
def qsumSq : List Frac → Q
  | [] => Q.zero
  | f :: r => ((Q.ofFrac f).mul (Q.ofFrac f)).add (qsumSq r)

def Q.neg (a : Q) : Q := ⟨-a.num, a.den⟩

/-- sample variance as `statistics.mean_and_sample_variance` defines it, exactly: `(n·Σx² − (Σx)²) / (n·(n−1))`; `none` for fewer
    than two values (the code reports `inf` for one value); `sd` is its square root -/
def varOf (l : List Frac) : Option Q :=
  if l.length < 2 then none
  else some ((((Q.ofNat l.length).mul (qsumSq l)).add ((qsumF l).mul (qsumF l)).neg).div (Q.ofNat (l.length * (l.length - 1))))

/-- `min(values)` / `max(values)` (the first of several equal values, as Python's built-ins) -/
def minF : List Frac → Option Frac
  | [] => none
  | f :: r => match minF r with
    | none => some f
    | some m => some (if Frac.lt m f then m else f)

def maxF : List Frac → Option Frac
  | [] => none
  | f :: r => match maxF r with
    | none => some f
    | some m => some (if Frac.lt f m then m else f)

/-- `split_edge_length_summaries[s]['var']` (= `sd`²) and `['range']` -/
def SD.varLen (sd : SD) (s : Nat) : Option Q := varOf (getL s sd.lens)
def SD.varAge (sd : SD) (s : Nat) : Option Q := varOf ((getL s sd.ages).filterMap id)
def SD.rangeLen (sd : SD) (s : Nat) : Option Frac × Option Frac := (minF (getL s sd.lens), maxF (getL s sd.lens))
def SD.rangeAge (sd : SD) (s : Nat) : Option Frac × Option Frac :=
  (minF ((getL s sd.ages).filterMap id), maxF ((getL s sd.ages).filterMap id))

/-- number of values behind each of the two summaries of split `s` (what `range`, `median`, `sd` are computed from) -/
def SD.summarySizes (sd : SD) (s : Nat) : Nat × Nat := ((getL s sd.lens).length, ((getL s sd.ages).filterMap id).length)

/-! ## SumTrees: workers and collation, at the level of arriving results -/

/-- the files a worker ends up reading: those the schedule gives it, in queue order -/
def filesOf (i : Nat) (assign : List Nat) (files : List (List TRec)) : List (List TRec) :=
  ((files.zip assign).filter fun p => p.2 == i).map (·.1)

def addAll (ta : TA) : List TRec → Except Err TA
  | [] => .ok ta
  | t :: ts => match addTree ta t none with
    | .ok ta' => addAll ta' ts
    | .error e => .error e

/-- the collation loop of `parallel_analyze_trees` -/
def collate (master : TA) : List TA → Except Err TA
  | [] => .ok master
  | w :: ws => match update master w with
    | .ok m => collate m ws
    | .error e => .error e

/-- sub-collections built separately, each with its own declared rooting, by one-at-a-time accession
    (`TreeAnalysisWorker.run`: one array per worker, every received file read into it) -/
def buildParts (f : Flags) : List (Option Bool × List TRec) → Except Err (List TA)
  | [] => .ok []
  | p :: ps => match addAll (TA.new p.1 f) p.2, buildParts f ps with
    | .ok w, .ok ws => .ok (w :: ws)
    | .error e, _ => .error e
    | _, .error e => .error e

/-- a schedule = which worker reads which file (`assign`, one worker index per file) and the order in
    which the workers' results arrive (`arrival`, worker indices); every worker is a sub-collection with
    the declared rooting `r`, holding the trees of its files -/
def runParallel (r : Option Bool) (f : Flags) (assign arrival : List Nat) (files : List (List TRec)) : Except Err TA :=
  match buildParts f (arrival.map fun i => (r, (filesOf i assign files).flatten)) with
  | .ok ws => collate (TA.new r f) ws
  | .error e => .error e

/-- `serial_analyze_trees` -/
def runSerial (r : Option Bool) (f : Flags) (files : List (List TRec)) : Except Err TA :=
  addAll (TA.new r f) files.flatten

/-! ## reading sources with a burn-in (`tree_offset`) -/

/-- the reading loop of `TreeArray.read_from_files` and of sumtrees `_read_into_tree_array`: the trees of all sources of ONE
    call arrive in one stream, each tagged with the number of its source (`tree_yielder.current_file_index`); a running
    offset (`current_tree_offset`) is reset whenever the source number differs from the remembered one
    (`current_source_index`, undefined at first); a tree is added once its offset has reached `target` -/
def readLoop (target : Nat) : List (Nat × TRec) → Option Nat → Nat → List TRec
  | [], _, _ => []
  | (i, t) :: r, src, off =>
    let off0 := if src != some i then 0 else off
    if off0 ≥ target then t :: readLoop target r (some i) (off0 + 1) else readLoop target r (some i) (off0 + 1)

/-- the stream one call sees: sources in the order given, numbered from `n` -/
def tagFrom : Nat → List (List TRec) → List (Nat × TRec)
  | _, [] => []
  | n, f :: fs => f.map (fun t => (n, t)) ++ tagFrom (n + 1) fs

/-- the trees one call `read_from_files(files, tree_offset=target)` adds, in order -/
def readFiles (target : Nat) (files : List (List TRec)) : List TRec := readLoop target (tagFrom 0 files) none 0

/-- `serial_analyze_trees` with a burn-in: ONE reading call over all sources -/
def runSerialB (burnin : Nat) (r : Option Bool) (f : Flags) (files : List (List TRec)) : Except Err TA :=
  addAll (TA.new r f) (readFiles burnin files)

/-- what a worker makes of a file: its own reading call with the same burn-in (`tree_sources=[tree_source]`) -/
def workerFiles (burnin : Nat) (files : List (List TRec)) : List (List TRec) := files.map fun f => readFiles burnin [f]

/-- `parallel_analyze_trees` with a burn-in, at the level of arriving results -/
def runParallelB (burnin : Nat) (r : Option Bool) (f : Flags) (assign arrival : List Nat) (files : List (List TRec)) : Except Err TA :=
  runParallel r f assign arrival (workerFiles burnin files)

end DendroModel.C06
