/-! C10 — the CPython string builtins the closed-form kernels of property C10 are written with (Mathlib-free, executable):
`bin`, `str.rjust`, `str.ljust`, `s[k:]`, `s[::-1]` on character lists.  They are the operator mapping of the translator
plug-in `harness/gen/c10kernels.py` (as `Basic/PyInt.lean` is for the integer operators) and are differential-tested
against CPython on every run (driver op `kbits`). -/
namespace DendroModel.C10

/-- binary digits, most significant first (`bin(n)[2:]`, `format(n, "b")`) -/
def binDigits (n : Nat) : List Char :=
  if _h : n < 2 then [if n = 0 then '0' else '1']
  else binDigits (n / 2) ++ [if n % 2 = 0 then '0' else '1']
termination_by n
decreasing_by omega

/-- `bin(n)` for a non-negative `n` -/
def pyBin (n : Nat) : List Char := '0' :: 'b' :: binDigits n

/-- `s.rjust(width, fill)` -/
def pyRjust (s : List Char) (width : Nat) (fill : Char) : List Char := List.replicate (width - s.length) fill ++ s

/-- `s.ljust(width, fill)` -/
def pyLjust (s : List Char) (width : Nat) (fill : Char) : List Char := s ++ List.replicate (width - s.length) fill

/-- `a >> k` for non-negative `a`, `k` (floor division by a power of two) -/
def pyShr (a : Int) (k : Int) : Int := a / (2 : Int) ^ k.toNat

end DendroModel.C10
