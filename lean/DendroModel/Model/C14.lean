import DendroModel.Basic.Tree
/-! C14 — `PhylogeneticDistanceMatrix.compile_from_tree` / `_mirror_lookups`, the lookups and summaries
built on them, and `Tree.mrca`, as they are written; next to them the defining notions (`down`,
`turn`: the unique leaf-to-leaf path of a rooted tree).  Mathlib-free and executable; the driver
runs exactly these definitions.

Everything is generic in the number type `α` (the driver instantiates `α := Frac`, exact
rationals; the theorems in `Props/C14.lean` hold for every commutative monoid / field) and in the
key type `κ` of a leaf (the driver uses the taxon accession index). `ℓ : T → α` reads the length
of the edge above a node (`None` counted as 0). -/
namespace DendroModel.C14
open DendroModel

/-! ## number instances for the driver (`Frac` is shared and frozen, so they live here) -/
instance : Zero Frac := ⟨Frac.zero⟩
instance : Div Frac := ⟨Frac.div⟩
instance : NatCast Frac := ⟨Frac.ofNat⟩
instance : LT Frac := ⟨fun a b => Frac.lt a b = true⟩
instance : DecidableRel (α := Frac) (· < ·) := fun a b => inferInstanceAs (Decidable (Frac.lt a b = true))

/-- edge length as the library reads it: `None` is 0.  (A `Frac` with denominator 0 denotes no number; the protocol
parser never produces one — `Frac.parse` refuses `p/0` — and it is read as 0 here so that every value handed to the
model denotes a rational: `fracLen_ok` in `Props/C14.lean`.) -/
def fracLen (t : T) : Frac := match t.len with | some f => if f.den = 0 then 0 else f | none => 0

/-- key of a leaf = taxon accession index (the handler refuses trees whose leaves lack a taxon, as the
library's `assert desc1.taxon is not None` does) -/
def taxonKey (t : T) : Nat := match t.taxon with | some k => k | none => 0

section generic
variable {κ α : Type}

/-! ## the defining notions -/
section spec
variable [DecidableEq κ] [Add α]

mutual
/-- length and number of edges of the path from the parent-side end of the edge above `t` down to
the leaf with key `a` (`none` if `t` has no such leaf) -/
def down (ℓ : T → α) (key : T → κ) : T → κ → Option (α × Nat)
  | .node i x l s [], a =>
    if key (.node i x l s []) = a then some (ℓ (.node i x l s []), 1) else none
  | .node i x l s (c :: cs), a =>
    match downL ℓ key (c :: cs) a with
    | some (d, n) => some (d + ℓ (.node i x l s (c :: cs)), n + 1)
    | none => none
def downL (ℓ : T → α) (key : T → κ) : List T → κ → Option (α × Nat)
  | [], _ => none
  | c :: cs, a =>
    match down ℓ key c a with
    | some r => some r
    | none => downL ℓ key cs a
end

mutual
/-- the path between the leaves `a` and `b` inside `t`: its length, its number of edges and the id of
the node where it turns, i.e. the node that has `a` and `b` below two different children -/
def turn (ℓ : T → α) (key : T → κ) : T → κ → κ → Option (α × Nat × Nat)
  | .node i _ _ _ cs, a, b => turnL ℓ key i cs a b
def turnL (ℓ : T → α) (key : T → κ) (m : Nat) : List T → κ → κ → Option (α × Nat × Nat)
  | [], _, _ => none
  | c :: cs, a, b =>
    match down ℓ key c a, down ℓ key c b with
    | some _, some _ => turn ℓ key c a b
    | some (x, n), none =>
      match downL ℓ key cs b with
      | some (y, k) => some (x + y, n + k, m)
      | none => none
    | none, some (y, k) =>
      match downL ℓ key cs a with
      | some (x, n) => some (x + y, n + k, m)
      | none => none
    | none, none => turnL ℓ key m cs a b
end
end spec

/-! ## `compile_from_tree` -/

/-- one cell written by the pairing loop: `_taxon_phylogenetic_distances[a][b]`, `…_path_steps[a][b]`,
`_mrca[a][b]` (node id) -/
structure Entry (κ α : Type) where
  a : κ
  b : κ
  d : α
  steps : Nat
  mrca : Nat

/-- `node.desc_paths` in dict insertion order: leaf key, path length, path steps -/
abbrev Tab (κ α : Type) := List (κ × α × Nat)

section compile
variable [Zero α] [Add α]

/-- `node.desc_paths[desc1] = (desc1_plen + c1_edge_length, desc1_psteps + 1)` for the table of child `c` -/
def lift (ℓ : T → α) (c : T) (tab : Tab κ α) : Tab κ α :=
  tab.map fun e => (e.1, e.2.1 + ℓ c, e.2.2 + 1)

/-- the cells written while the post-order loop is at one internal node with id `m`:
`for c1: for desc1 in c1.desc_paths: for c2 in children[cidx1+1:]: for desc2 in c2.desc_paths` -/
def pairNode (ℓ : T → α) (m : Nat) : List (T × Tab κ α) → List (Entry κ α)
  | [] => []
  | (c1, tab1) :: rest =>
    (tab1.flatMap fun e1 =>
      rest.flatMap fun ct2 =>
        ct2.2.map fun e2 =>
          ⟨e1.1, e2.1, ((e1.2.1 + ℓ c1) + e2.2.1) + ℓ ct2.1, ((e1.2.2 + 1) + e2.2.2) + 1, m⟩)
    ++ pairNode ℓ m rest

mutual
/-- post-order pass: `desc_paths` of the node and all cells written at or below it, in writing order -/
def walk (ℓ : T → α) (key : T → κ) : T → Tab κ α × List (Entry κ α)
  | .node i x l s [] => ([(key (.node i x l s []), 0, 0)], [])
  | .node i _ _ _ (c :: cs) =>
    let r := walkL ℓ key (c :: cs)
    (r.1.flatMap (fun ct => lift ℓ ct.1 ct.2), r.2 ++ pairNode ℓ i r.1)
def walkL (ℓ : T → α) (key : T → κ) : List T → List (T × Tab κ α) × List (Entry κ α)
  | [] => ([], [])
  | c :: cs =>
    let r1 := walk ℓ key c
    let r2 := walkL ℓ key cs
    ((c, r1.1) :: r2.1, r1.2 ++ r2.2)
end

/-- the cells `compile_from_tree` writes before mirroring (off-diagonal) -/
def entries (ℓ : T → α) (key : T → κ) (t : T) : List (Entry κ α) := (walk ℓ key t).2

/-- `_mirror_lookups`: `ddata[taxon2][taxon1] = ddata[taxon1][taxon2]` -/
def mirror (es : List (Entry κ α)) : List (Entry κ α) :=
  es ++ es.map fun e => ⟨e.b, e.a, e.d, e.steps, e.mrca⟩

/-- diagonal cells: `[t][t] = 0.0`, steps `0`, mrca = the leaf itself; written when the leaf is first met
in a child's table, i.e. for every leaf of a tree whose seed has children -/
def diag (key : T → κ) (t : T) : List (Entry κ α) :=
  if t.isLeaf then [] else t.leaves.map fun lf => ⟨key lf, key lf, 0, 0, lf.id⟩

/-- the compiled matrix -/
def table (ℓ : T → α) (key : T → κ) (t : T) : List (Entry κ α) :=
  diag key t ++ mirror (entries ℓ key t)

/-- `_mapped_taxa` (as leaf keys, left to right) -/
def mapped (key : T → κ) (t : T) : List κ := if t.isLeaf then [] else t.leaves.map key

variable [DecidableEq κ]

def lookup (tbl : List (Entry κ α)) (a b : κ) : Option (Entry κ α) :=
  tbl.find? fun e => e.a = a ∧ e.b = b

/-- `_tree_length`: every edge length that is not `None`, the seed's included -/
def treeLength (ℓ : T → α) (t : T) : α := (t.nodes.map ℓ).sum
/-- `_num_edges`: one per node, the seed's included -/
def numEdges (t : T) : Nat := t.nodes.length
end compile

/-! ## summaries -/
section summaries
variable [Zero α] [Add α] [Div α] [NatCast α] [LT α] [DecidableRel (α := α) (· < ·)]

/-- `distances()` restricted by a filter on the two keys (`distinct_taxon_pair_iter`) -/
def pairValues (val : Entry κ α → α) (keep : κ → Bool) (es : List (Entry κ α)) : List α :=
  (es.filter fun e => keep e.a && keep e.b).map val

/-- `(sum(distances) / normalization_factor) / len(distances)`; `none` = NullAssemblageException -/
def meanOf (norm : α) (ds : List α) : Option α :=
  if ds.isEmpty then none else some ((ds.sum / norm) / (ds.length : α))

/-- `_calculate_mean_pairwise_distance` -/
def meanPairwise (val : Entry κ α → α) (norm : α) (keep : κ → Bool) (es : List (Entry κ α)) : Option α :=
  meanOf norm (pairValues val keep es)

/-- running minimum with the library's strict `<` -/
def minList (m : α) : List α → α
  | [] => m
  | d :: ds => if d < m then minList d ds else minList m ds

/-- the matrix the summaries work on: `_taxon_phylogenetic_distances` (`weighted`) or `_taxon_phylogenetic_path_steps` -/
def selVal (weighted : Bool) (e : Entry κ α) : α := if weighted then e.d else ((e.steps : Nat) : α)

/-- `dmatrix[a][b]` as the summaries read it from the compiled table (`val` picks the weighted or the edge-count value).
A missing cell is a `KeyError` in the library; under `Good` it cannot happen (`pdm_lookup_spec`), the model reads 0. -/
def cellOf [DecidableEq κ] (val : Entry κ α → α) (tbl : List (Entry κ α)) (a b : κ) : α :=
  match tbl.find? (fun e => e.a = a ∧ e.b = b) with
  | some e => val e
  | none => 0

/-- `_calculate_mean_nearest_taxon_distance` over `_get_taxon_to_all_other_taxa_comparisons`;
`cell a b` reads `dmatrix[a][b]` -/
def meanNearest [DecidableEq κ] (cell : κ → κ → α) (norm : α) (keep : κ → Bool) (taxa : List κ) : Option α :=
  let kept := taxa.filter keep
  let mins := kept.filterMap fun a =>
    match kept.filter (fun b => b ≠ a) with
    | [] => none
    | b :: bs => some (minList (cell a b) (bs.map (cell a)))
  meanOf norm mins
end summaries
end generic

/-! ## `Tree.mrca` -/

/-- `while curr_node.num_child_nodes() == 1: curr_node, = curr_node.child_nodes()` -/
def tail : T → T
  | .node _ _ _ _ [c] => tail c
  | t => t

mutual
/-- one turn of the `while True` loop at `curr_node`; `none` = "no bit in common, take the next sibling".
`m` reads the stored `leafset_bitmask` of a node id. -/
def scanT (m : Nat → Nat) (target : Nat) (last : T) : T → Option T
  | .node i x l s cs =>
    let cms := m i &&& target
    if cms ≠ 0 then
      if cms = target then
        if m i = target then some (tail (.node i x l s cs))
        else some (scanL m target (.node i x l s cs) cs)
      else some last
    else none
/-- `curr_node = next(nd_source)`; an exhausted iterator returns `last_match` -/
def scanL (m : Nat → Nat) (target : Nat) (last : T) : List T → T
  | [] => last
  | c :: rest =>
    match scanT m target last c with
    | some r => r
    | none => scanL m target last rest
end

/-- the kept basal edge absorbs the dissolved one (repaired `collapse_basal_bifurcation`: a missing length is absent,
`None + x = x`, `x + None = x`, `None + None = None`) -/
def absorbLen (keep del : T) : T :=
  match del.len with
  | none => keep
  | some b => match keep.len with
    | none => keep.withLen (some b)
    | some a => keep.withLen (some (a + b))

/-- `Tree.collapse_basal_bifurcation` as `encode_bipartitions` calls it on an unrooted tree whose seed
has two children: the second child is dissolved if it has ≥ 2 children, else the first if it has; the
children of the dissolved node take its place and the kept child's edge absorbs the dissolved edge's length. -/
def collapseBasal : T → T
  | .node i x l s [c0, c1] =>
    if c1.cs.length ≥ 2 then .node i x l s (absorbLen c0 c1 :: c1.cs)
    else if c0.cs.length ≥ 2 then .node i x l s (c0.cs ++ [absorbLen c1 c0])
    else .node i x l s [c0, c1]
  | t => t

/-- fresh `leafset_bitmask` of the node with id `i` (0 for ids not in the tree) -/
def freshMask (t : T) (i : Nat) : Nat := match t.find? i with | some u => u.mask | none => 0

inductive MrcaResult where
  | valueError
  | startGone
  | found (tree : T) (r : Option T)

/-- `Tree.mrca(leafset_bitmask=target, start_node=…, is_bipartitions_updated=¬refresh)`.
`stored` = the leafset bitmasks currently stored on the edges (possibly stale, 0 if never encoded). -/
def treeMrca (rooted refresh : Bool) (stored : Nat → Nat) (target startId : Nat) (t : T) : MrcaResult :=
  if target = 0 then .valueError else
  let reenc := stored startId = 0 || refresh
  let t' := if reenc && !rooted && t.cs.length = 2 then collapseBasal t else t
  let m := if reenc then freshMask t' else stored
  match t'.find? startId with
  | none => .startGone
  | some start =>
    if m startId &&& target ≠ target then .found t' none
    else .found t' (some (scanL m target start [start]))

/-- the defining notion: pre-order list of the nodes below (and including) `t` whose leaves include `target` -/
def covering (target : Nat) (t : T) : List T := t.nodes.filter fun u => u.mask &&& target = target


/-! ## `treemeasure.patristic_distance` -/
mutual
/-- the nodes strictly below `r` on the way down to the first node (pre-order) that carries taxon `a`, top first; `some []`
if `r` itself carries it.  This is the chain `n, n.parent_node, …` the library climbs from `tree.find_node(taxon == a)` up
to the common ancestor (with every taxon on one node the node found in the whole tree is the one found below `r`, or
there is none below `r` and the climb runs off the root: `AttributeError`). -/
def pathToTaxon (a : Nat) : T → Option (List T)
  | .node _ x _ _ cs => if x = some a then some [] else pathToTaxonL a cs
def pathToTaxonL (a : Nat) : List T → Option (List T)
  | [] => none
  | c :: cs =>
    match pathToTaxon a c with
    | some p => some (c :: p)
    | none => pathToTaxonL a cs
end

/-- `while n != mrca: dist += n.edge.length (None skipped); n = n.parent_node` over a chain given top first -/
def climbAcc {α : Type} [Add α] (ℓ : T → α) (acc : α) (p : List T) : α := p.reverse.foldl (fun d u => d + ℓ u) acc

inductive TmResult (α : Type) where
  | valueError
  | attributeError
  | ok (d : α)

/-- `treemeasure.patristic_distance(tree, taxon a, taxon b, is_bipartitions_updated = ¬refresh)`: `Tree.mrca` of the two
taxa from the seed, then the two climbs, one running sum -/
def treePatristic {α : Type} [Zero α] [Add α] (ℓ : T → α) (rooted refresh : Bool) (stored : Nat → Nat) (a b : Nat) (t : T) :
    TmResult α :=
  match treeMrca rooted refresh stored (1 <<< a ||| 1 <<< b) t.id t with
  | .valueError => .valueError
  | .startGone => .attributeError
  | .found t' none =>
    -- `mrca` is `None` (a taxon is not below the seed as encoded): `while n != None` climbs from each taxon's node, if it has
    -- one, through the seed (the seed's own edge included) and stops when `n.parent_node` is `None`
    let up := fun (acc : α) (x : Nat) => match pathToTaxon x t' with
      | some p => climbAcc ℓ acc (t' :: p)
      | none => acc
    .ok (up (up 0 a) b)
  | .found _ (some r) =>
    match pathToTaxon a r, pathToTaxon b r with
    | some pa, some pb => .ok (climbAcc ℓ (climbAcc ℓ 0 pa) pb)
    | _, _ => .attributeError

end DendroModel.C14
