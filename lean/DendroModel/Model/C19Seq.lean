import DendroModel.Model.C19
/-! C19 — the row OBJECT: `CharacterDataSequence` (`charmatrixmodel.py`), three parallel Python lists
(`_character_values`, `_character_types`, `_character_annotations`) edited by `append / extend / insert / set_at /
__setitem__ / __delitem__` with Python's index rules (negative indices, clamping of `insert` and of slice bounds).
Mathlib-free, executable; `drv_c19` runs these definitions for the op `seq3`.  A cell, a character type, an annotation set
is an opaque number, `0` = `None`.

The code keeps the three lists in step only as far as each method does so itself; the model follows the code statement by
statement, INCLUDING the two places where it does not: `extend(values, character_types=<other length>)` extends the values
first and then fails its `assert`, and `seq[i:j] = <other number of values>` changes the values only.  `Props/C19.lean`
(`seqStep_aligned`, `seqStep_misaligns_iff`) says exactly when the lists stay equally long. -/
namespace DendroModel.C19

structure Seq3 where
  vals : List Nat
  types : List Nat
  annots : List Nat
deriving Repr, DecidableEq

inductive SeqErr where
  | indexError | assertionError
deriving Repr, DecidableEq

/-- `l[i]` with a Python index: position, or `none` = IndexError -/
def pyIdx (n : Nat) (i : Int) : Option Nat :=
  if 0 ≤ i then (if i.toNat < n then some i.toNat else none)
  else (if (-i).toNat ≤ n then some (n - (-i).toNat) else none)

/-- where `list.insert(i, x)` and a slice bound land: negative counts from the end, everything is clamped to `[0, n]` -/
def pyClamp (n : Nat) (i : Int) : Nat :=
  if 0 ≤ i then min i.toNat n else n - min (-i).toNat n

/-- the bounds of `l[lo:hi]` (step 1); `none` = omitted; an empty slice sits at its lower bound -/
def pySlice (n : Nat) (lo hi : Option Int) : Nat × Nat :=
  let a := match lo with
    | none => 0
    | some i => pyClamp n i
  let b := match hi with
    | none => n
    | some i => pyClamp n i
  (a, max a b)

def insertAt (l : List Nat) (k : Nat) (x : Nat) : List Nat := l.take k ++ x :: l.drop k

/-- `del l[a:b]` -/
def delRange (l : List Nat) (a b : Nat) : List Nat := l.take a ++ l.drop b

/-- `l[a:b] = xs` -/
def setRange (l : List Nat) (a b : Nat) (xs : List Nat) : List Nat := l.take a ++ xs ++ l.drop b

inductive SeqOp where
  | append (v t a : Nat)
  | extend (vs : List Nat) (ts as : Option (List Nat))
  | delItem (i : Int) | delSlice (lo hi : Option Int)
  | setItem (i : Int) (v : Nat) | setSlice (lo hi : Option Int) (vs : List Nat)
  | insert (i : Int) (v t a : Nat)
  | setAt (i : Int) (v t a : Nat)
deriving Repr

/-- `while to_add > 0: self.append(None)` -/
def padNone (s : Seq3) (k : Nat) : Seq3 :=
  { vals := s.vals ++ List.replicate k 0, types := s.types ++ List.replicate k 0, annots := s.annots ++ List.replicate k 0 }

/-- the sequence after one call and the exception it raised, statement by statement -/
def seqStep (s : Seq3) : SeqOp → Seq3 × Option SeqErr
  | .append v t a => ({ vals := s.vals ++ [v], types := s.types ++ [t], annots := s.annots ++ [a] }, none)
  | .extend vs ts as =>
    let s1 := { s with vals := s.vals ++ vs }                       -- `self._character_values.extend(character_values)`
    match ts with
    | some tl =>
      if tl.length ≠ vs.length then (s1, some .assertionError)      -- `assert len(character_types) == len(character_values)`
      else
        let s2 := { s1 with types := s1.types ++ tl }
        match as with
        | some al => if al.length ≠ vs.length then (s2, some .assertionError) else ({ s2 with annots := s2.annots ++ al }, none)
        | none => ({ s2 with annots := s2.annots ++ List.replicate vs.length 0 }, none)
    | none =>
      let s2 := { s1 with types := s1.types ++ List.replicate vs.length 0 }
      match as with
      | some al => if al.length ≠ vs.length then (s2, some .assertionError) else ({ s2 with annots := s2.annots ++ al }, none)
      | none => ({ s2 with annots := s2.annots ++ List.replicate vs.length 0 }, none)
  | .delItem i =>
    match pyIdx s.vals.length i with                                -- `del self._character_values[idx]`
    | none => (s, some .indexError)
    | some k =>
      let s1 := { s with vals := s.vals.eraseIdx k }
      match pyIdx s.types.length i with                             -- `del self._character_types[idx]`
      | none => (s1, some .indexError)
      | some k2 =>
        let s2 := { s1 with types := s1.types.eraseIdx k2 }
        match pyIdx s.annots.length i with                          -- `del self._character_annotations[idx]`
        | none => (s2, some .indexError)
        | some k3 => ({ s2 with annots := s2.annots.eraseIdx k3 }, none)
  | .delSlice lo hi =>
    let p := pySlice s.vals.length lo hi
    let q := pySlice s.types.length lo hi
    let r := pySlice s.annots.length lo hi
    ({ vals := delRange s.vals p.1 p.2, types := delRange s.types q.1 q.2, annots := delRange s.annots r.1 r.2 }, none)
  | .setItem i v =>
    match pyIdx s.vals.length i with
    | none => (s, some .indexError)
    | some k => ({ s with vals := s.vals.set k v }, none)
  | .setSlice lo hi vs =>
    let p := pySlice s.vals.length lo hi
    ({ s with vals := setRange s.vals p.1 p.2 vs }, none)            -- the values only
  | .insert i v t a =>
    ({ vals := insertAt s.vals (pyClamp s.vals.length i) v, types := insertAt s.types (pyClamp s.types.length i) t,
       annots := insertAt s.annots (pyClamp s.annots.length i) a }, none)
  | .setAt i v t a =>
    let s1 := padNone s ((i + 1 - (s.vals.length : Int)).toNat)     -- `to_add = (idx+1) - len(self._character_values)`
    match pyIdx s1.vals.length i with
    | none => (s1, some .indexError)
    | some k =>
      let s2 := { s1 with vals := s1.vals.set k v }
      match pyIdx s2.types.length i with
      | none => (s2, some .indexError)
      | some k2 =>
        let s3 := { s2 with types := s2.types.set k2 t }
        match pyIdx s3.annots.length i with
        | none => (s3, some .indexError)
        | some k3 => ({ s3 with annots := s3.annots.set k3 a }, none)

def seqRun (s : Seq3) (ops : List SeqOp) : Seq3 := ops.foldl (fun s op => (seqStep s op).1) s

end DendroModel.C19
