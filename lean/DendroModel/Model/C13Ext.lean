import DendroModel.Model.C13
import DendroModel.Gen.C13Keys
/-! C13 — further routes on top of `Model/C13.lean` (Mathlib-free): several sources in one call
(`Tree.yield_from_files([a, b, …])`), the tree array (`TreeArray.read`, `TreeArray.read_from_files`), and the dispatch on the
source keyword (`Deserializable._get_from`, `MultiReadable._read_from`), which runs on the keyword tables REGENERATED from the
source (`Gen/C13Keys.lean`). -/
namespace DendroModel.C13

/-! ### several sources in one call -/

/-- one source: the token stream of its text -/
structure Content where
  toks : List Tok
  tail : List String
deriving Inhabited

/-- `DataYielder.__iter__` over `files`, file by file; the namespace object is the one handed to `yield_from_files`, so the
    labels a file adds are seen by the next one.  The NEXUS iterator is ONE reader object reused for every file;
    REPAIRED behaviour: what it remembers about a file (`_file_specified_ntax`) starts afresh with each file, as it does on
    every other route (each call there builds a new reader). -/
def yieldFiles (sch : Schema) (cfg : Cfg) (fl : Flags) : List Content → NSObj → Except Err (List (List Tree) × NSObj)
  | [], ns => .ok ([], ns)
  | d :: ds, ns =>
    match yieldFrom sch cfg fl d.toks d.tail ns with
    | .error e => .error e
    | .ok (ts, ns1) =>
      match yieldFiles sch cfg fl ds ns1 with
      | .error e => .error e
      | .ok (tss, ns2) => .ok (ts :: tss, ns2)

/-- the hypothesis of `reader_eq_yielder` for every file of a several-source call, each at the namespace the iterator reaches it
    with (executable; along the iterator's own run) -/
def filesClean (cfg : Cfg) (fl : Flags) : List Content → NSObj → Bool
  | [], _ => true
  | d :: ds, ns =>
    Aux.setsClean cfg { fl with attached := true }
        { (coreOf d.toks d.tail ns) with ts := (coreOf d.toks d.tail ns).ts.next } [] &&
      match yieldFrom .nexus cfg fl d.toks d.tail ns with
      | .error _ => true
      | .ok (_, ns1) => filesClean cfg fl ds ns1

/-- successive `TreeList.read` calls (no offsets) into one list, each starting from the namespace the previous one left -/
def readMany (sch : Schema) (cfg : Cfg) (fl : Flags) : List Content → NSObj → List Tree → Except Err (List Tree × NSObj)
  | [], ns, l => .ok (l, ns)
  | d :: ds, ns, l =>
    match listGet sch cfg fl d.toks d.tail ns l none none with
    | .error e => .error e
    | .ok (l1, ns1) => readMany sch cfg fl ds ns1 l1

/-! ### the tree array -/

/-- what `TreeArray.add_tree` records of a tree: the tree stands for its split / edge-length tuples (the split encoder is
    C01's and C05's business), `weight = none` for 1.0 -/
structure ArrEntry where
  tree : Tree
  weight : Option String
deriving Inhabited

structure Arr where
  /-- `_is_rooted_trees` -/
  rooted : Option Bool := none
  useWeights : Bool := true
  entries : List ArrEntry := []
deriving Inhabited

/-- `validate_rooting`: the first rooting state seen (possibly `None`, which then is no commitment) fixes the array's -/
def Arr.validate (a : Arr) (r : Option Bool) : Except Err Arr :=
  match a.rooted with
  | none => .ok { a with rooted := r }
  | some x => if r == some x then .ok a else .error .mixed

/-- `weight_to_use`: the tree's weight when it has one and weights are used, else 1.0 -/
def arrWeight (useWeights : Bool) (t : Tree) : Option String :=
  match t.weight with
  | some (some e) => if useWeights then some e else none
  | _ => none

/-- `TreeArray.add_tree` -/
def Arr.addTree (a : Arr) (t : Tree) : Except Err Arr :=
  match a.validate t.rooted with
  | .error e => .error e
  | .ok a1 => .ok { a1 with entries := a1.entries ++ [{ tree := t, weight := arrWeight a1.useWeights t }] }

/-- `TreeArray.add_trees` -/
def Arr.addTrees (a : Arr) : List Tree → Except Err Arr
  | [] => .ok a
  | t :: ts =>
    match a.addTree t with
    | .error e => .error e
    | .ok a1 => a1.addTrees ts

/-- Python `l[k:]` as `read_from_files` applies its burn-in: `current_tree_offset >= target_tree_offset` -/
def burnIn {α} (l : List α) (k : Int) : List α := if k ≤ 0 then l else l.drop k.toNat

/-- `TreeArray.read_from_files(files, tree_offset=k)`: the iterator over the files, every tree past the first `k` of ITS file
    is added (file by file here; tree by tree in the code — which tree of a file an error is met at is not modelled) -/
def arrReadFromFiles (sch : Schema) (cfg : Cfg) (fl : Flags) (k : Int) : Arr → List Content → NSObj → Except Err (Arr × NSObj)
  | a, [], ns => .ok (a, ns)
  | a, d :: ds, ns =>
    match yieldFrom sch cfg fl d.toks d.tail ns with
    | .error e => .error e
    | .ok (ts, ns1) =>
      match a.addTrees (burnIn ts k) with
      | .error e => .error e
      | .ok a1 => arrReadFromFiles sch cfg fl k a1 ds ns1

/-- `TreeArray.read(...)` = `_parse_and_add_from_stream` = `read_from_files([stream])`; the count of trees added is returned -/
def arrRead (sch : Schema) (cfg : Cfg) (fl : Flags) (k : Int) (a : Arr) (d : Content) (ns : NSObj) : Except Err (Arr × NSObj × Nat) :=
  (arrReadFromFiles sch cfg fl k a [d] ns).map fun r => (r.1, r.2, r.1.entries.length - a.entries.length)

/-! ### the source keyword -/

/-- what a `get_from_*` / `read_from_*` method needs of the outside world -/
structure World where
  files : List (String × Content) := []
  urls : List (String × Content) := []

/-- the value of a source keyword argument: a text / an open stream over a text, or a name (path, URL) -/
inductive SrcArg where
  | text (c : Content)
  | name (p : String)

/-- `_extract_serialization_target_keyword`: exactly one of the target keywords, and `schema=`; answers the keyword and its
    argument.  `given` = the keyword arguments of the call (a dict: every keyword at most once). -/
def extractTarget (given : List (String × SrcArg)) (hasSchema : Bool) : Except Err (String × SrcArg) :=
  match given.filter (fun g => C13Keys.targetKeywords.contains g.1) with
  | [] => .error .type
  | [g] => if hasSchema then .ok g else .error .type
  | _ => .error .type

/-- the method reached, then what it does to get at the text: a stream / a string is the text; a path is opened; a URL fetched -/
def openSource (w : World) (table : List (String × String)) (kw : String) (arg : SrcArg) : Except Err Content :=
  match table.lookup kw, arg with
  | some "stream", .text c => .ok c
  | some "string", .text c => .ok c
  | some "path", .name p => match w.files.lookup p with | some c => .ok c | none => .error .io
  | some "url", .name p => match w.urls.lookup p with | some c => .ok c | none => .error .io
  | some _, _ => .error .type      -- a name where a text is wanted or the reverse: the method fails on the value
  | none, _ => .error .value       -- `raise ValueError("Unsupported source type")`

/-- `Deserializable._get_from` (every `X.get(...)`) -/
def getFrom (w : World) (given : List (String × SrcArg)) (hasSchema : Bool) : Except Err Content :=
  match extractTarget given hasSchema with
  | .error e => .error e
  | .ok (kw, arg) => openSource w C13Keys.getDispatch kw arg

/-- `MultiReadable._read_from` (every `x.read(...)`) -/
def readFrom (w : World) (given : List (String × SrcArg)) (hasSchema : Bool) : Except Err Content :=
  match extractTarget given hasSchema with
  | .error e => .error e
  | .ok (kw, arg) => openSource w C13Keys.readDispatch kw arg

end DendroModel.C13
