import DendroModel.Model.C08
/-! C08 — `Node.extract_subtree` / `Tree.extract_tree` once more, this time on an OBJECT STORE, so that "extraction never alters the
source tree" is a statement about the model and not a by-product of using immutable values.

The source tree lives in the store (one cell per node object at the address given by the node's id); the loop reads the source
node's attributes FROM THE STORE (`nd0.taxon`, `nd0.edge.length`, `nd0.label`, `nd0._child_nodes`) and performs every write the
code performs, as a write to the store:
  * `node_factory()` + the four attribute assignments + `add_child` + `setattr(nd1, "extraction_source", nd0)`  = allocation;
  * `children_to_add[0].edge.length = … / += …`                                     = `setLen` on the child clone;
  * `nd1.edge.length = children_to_add[0].edge.length` (the `else` of the merge when the merged node has no length; `nd1` is the
    clone created LAST, whatever it is — a write the functional model `exStep` does not have)  = `setLen` on `last`;
    with `nd1 = None` the code would die with `AttributeError`: `crashed`.
Only the traversal order (`postorder_iter`) is taken from the tree value.  `drv_c08` runs this (op `extractheap`). -/
namespace DendroModel.C08
open DendroModel

/-- a node object with its edge -/
structure Cell where
  taxon : Option Nat := none
  len : Option Frac := none
  label : Option String := none
  /-- addresses of the child node objects, in order -/
  kids : List Nat := []
  /-- the `extraction_source` reference (address of a source node); `none` on source nodes -/
  src : Option Nat := none
deriving DecidableEq, Inhabited

/-- `obj.edge.length = l` -/
def setLen : List Cell → Nat → Option Frac → List Cell
  | [], _, _ => []
  | c :: cs, 0, l => { c with len := l } :: cs
  | c :: cs, a + 1, l => c :: setLen cs a l

def getLen (h : List Cell) (a : Nat) : Option Frac :=
  match h[a]? with
  | some c => c.len
  | none => none

structure HSt where
  /-- the object store; `heap.length` is the address the next `node_factory()` returns -/
  heap : List Cell
  /-- `memo`: source address ↦ clone address (most recent first) -/
  memo : List (Nat × Nat) := []
  start : Option Nat := none
  /-- `nd1`: the clone created last -/
  last : Option Nat := none
  seedDeleted : Bool := false
  crashed : Bool := false
  /-- the `break` -/
  done : Bool := false

/-- the edge-length writes of the branch "exactly one cloned child and suppress_unifurcations": the merged node's length `plen`
    goes to the child clone `k`; when the merged node has no length the code writes the child's length to `nd1` instead -/
def mergeWrite (st : HSt) (plen : Option Frac) (k : Nat) : HSt :=
  match plen with
  | some p => { st with heap := setLen st.heap k (match getLen st.heap k with | none => some p | some c => some (c + p)) }
  | none => match st.last with
    | some z => { st with heap := setLen st.heap z (getLen st.heap k) }
    | none => { st with crashed := true }

/-- body of `for nd0 in self.postorder_iter()`, called on the seed (`rootId`) -/
def hStep (acc : Acc) (fl fi sup : Bool) (rootId : Nat) (st : HSt) (n : T) : HSt :=
  if st.done || st.crashed || st.seedDeleted then st else
  let i := n.id
  let c0 := (st.heap[i]?).getD {}
  if (if c0.kids.isEmpty then fl else fi) && !acc i c0.taxon then st
  else
    let kids := c0.kids.filterMap (fun k => st.memo.lookup k)
    if kids.isEmpty && !c0.kids.isEmpty then
      if i == rootId then { st with seedDeleted := true } else st
    else match kids, sup with
      | [k], true =>
        let st1 : HSt := mergeWrite st c0.len k
        if i == rootId then { st1 with start := some k, done := true } else { st1 with memo := (i, k) :: st1.memo }
      | _, _ =>
        let a := st.heap.length
        let st1 : HSt := { st with heap := st.heap ++ [{ taxon := c0.taxon, len := c0.len, label := c0.label, kids := kids, src := some i }],
                                   memo := (i, a) :: st.memo, last := some a }
        if i == rootId then { st1 with start := some a } else st1

/-- the whole loop on a store `h` that holds the source tree `t` -/
def extractHeap (acc : Acc) (fl fi sup : Bool) (t : T) (h : List Cell) : HSt :=
  (post t).foldl (hStep acc fl fi sup t.id) { heap := h }

/-- the store that holds exactly the node objects of `t`: node `i` at address `i`, for addresses `0 … n-1` -/
def heapOf (t : T) (n : Nat) : List Cell :=
  (List.range n).map (fun a => match t.find? a with
    | some (.node _ x l s cs) => { taxon := x, len := l, label := s, kids := cs.map T.id, src := none }
    | none => {})

/-- read a tree back from the store; a clone is shown with the id of its `extraction_source` -/
def readTree : Nat → List Cell → Nat → T
  | 0, _, a => .node a none none none []
  | f + 1, h, a => match h[a]? with
    | none => .node a none none none []
    | some c => .node (c.src.getD a) c.taxon c.len c.label (c.kids.map (readTree f h))

def maxId (t : T) : Nat := (ids t).foldl max 0

/-- what the driver prints: the extracted tree (or the exception), and whether the source region of the store is what it was -/
def extractHeapShow (acc : Acc) (fl fi sup : Bool) (t : T) : String :=
  let n := maxId t + 1
  let h := heapOf t n
  let r := extractHeap acc fl fi sup t h
  let res := if r.crashed then "AttributeError" else if r.seedDeleted then "SeedNodeDeletion" else
    match r.start with
    | some a => (readTree r.heap.length r.heap a).render
    | none => "ValueError"
  res ++ (if r.heap.take n == h then " | source-intact" else " | SOURCE-CHANGED")

end DendroModel.C08
