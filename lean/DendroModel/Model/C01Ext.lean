import DendroModel.Model.C01
/-! C01, extension round 3 — more of the anchored code inside the model (all Mathlib-free, run by `drv_c01`):
`Bipartition(...)` compilation of an arbitrary (leafset, tree leafset) pair, `is_nested_within`, `normalize(convention)`,
`TaxonNamespace.all_taxa_bitmask / taxon_bitmask`, `bitprocessing.set_bit_index_iter / indexes_of_set_bits` (the `while` loop as a
fuelled recursion) and the stored-encoding protocol of `Tree.is_compatible_with_bipartition` (query / edit / encode histories).
The closed-form kernels of these methods are regenerated from the source as `Gen/C01Kernels.lean`; `Props/C01.lean` proves each
hand-written definition below equal to its regenerated kernel (`kernel_*`). -/
namespace DendroModel.C01
open DendroModel

/-! ### `Bipartition` objects -/

/-- `Bipartition(leafset_bitmask = m, tree_leafset_bitmask = L, is_rooted = r)` for `L ≠ 0`: the stored leafset is masked with
    the tree's leafset (`compile_leafset_bitmask`), the lowest relevant bit is `lsb L` (`compile_tree_leafset_bitmask`), the
    split is the leafset (rooted) or its normalisation (`compile_split_bitmask`).  Returns `(leafset, split)`. -/
def compileBip (rooted : Bool) (L m : Int) : Int × Int :=
  let lf := pyAnd m L
  (lf, if rooted then lf else PyBits.normalize_bitmask lf L (PyBits.least_significant_set_bit L))

/-- `Bipartition.is_nested_within(other, is_other_masked_for_tree_leafset)`: leafsets on a rooted, split masks on an unrooted
    bipartition; `other`'s mask is cut down to the tree leafset unless the caller says it already is -/
def nestedWithin (rooted otherMasked : Bool) (leafset split oLeafset oSplit fill : Int) : Bool :=
  let m1 := if rooted then leafset else split
  let m2 := if rooted then oLeafset else oSplit
  let m2 := if otherMasked then m2 else pyAnd fill m2
  pyAnd m1 m2 == m1

/-- `Bipartition.normalize(bitmask, convention)`: "lsb0" forces the lowest relevant bit to 0, "lsb1" to 1 -/
def normalizeConv (lsb1 : Bool) (bitmask fill lo : Int) : Int :=
  if (pyAnd lo bitmask != 0) != lsb1 then pyAnd (pyNot bitmask) fill else pyAnd bitmask fill

/-! ### namespace masks -/

/-- `TaxonNamespace.all_taxa_bitmask`: every accession index ever handed out, removed members included -/
def allMask (count : Nat) : Nat := 2 ^ count - 1
/-- `TaxonNamespace.taxon_bitmask`: bit = accession index -/
def taxonBit (i : Nat) : Nat := 1 <<< i

/-! ### `bitprocessing.set_bit_index_iter` -/

/-- the `while test_bit <= maskedSplitRep` loop; state: the index to report next, the bit under test -/
def sbiLoop (masked fill : Int) (std : Bool) : Nat → Int → Int → List Int
  | 0, _, _ => []
  | fuel + 1, idx, tb =>
    if tb ≤ masked then
      (if pyAnd masked tb != 0 then [idx] else []) ++
        sbiLoop masked fill std fuel (if std || pyAnd fill tb != 0 then idx + 1 else idx) (pyShl tb 1)
    else []

/-- enough fuel: the loop stops at the first power of two above the masked value -/
def sbiFuel (masked : Int) : Nat := masked.toNat.log2 + 1

/-- `indexes_of_set_bits(s, fill_bitmask, one_based, ordination_in_mask)` -/
def indexesOfSetBits (s fill : Int) (oneBased ordInMask : Bool) : List Int :=
  let masked := pyAnd s fill
  sbiLoop masked fill (!ordInMask) (sbiFuel masked) (if oneBased then 1 else 0) 1

/-! ### the stored encoding and `Tree.is_compatible_with_bipartition` over a history of calls and edits -/

/-- a tree object as far as this protocol goes: the tree as it stands, its rooting state, and what the last
    `encode_bipartitions` left in `bipartition_encoding` (pairs and the tree leafset every stored bipartition carries) -/
structure TreeObj where
  tree : T
  rooted : Option Bool
  stored : Option (List (Nat × Int) × Nat)

inductive HOp where
  /-- `tree.encode_bipartitions(suppress_unifurcations, collapse_unrooted_basal_bifurcation)` -/
  | encode (sup col : Bool)
  /-- an edit through the node API: the tree is now `t` (the stored encoding is not touched) -/
  | edit (t : T)
  /-- `tree.is_compatible_with_bipartition(b, is_bipartitions_updated)` with `b.split_bitmask = split` -/
  | query (updated : Bool) (split : Int)

def doEncode (o : TreeObj) (sup col : Bool) : TreeObj :=
  let t' := encodeTree o.rooted sup col o.tree
  { o with tree := t', stored := some (encode o.rooted sup col o.tree, t'.mask) }

/-- `not is_bipartitions_updated or not self.bipartition_encoding` (an empty list is falsy) -/
def reencodeFirst (updated : Bool) (o : TreeObj) : Bool :=
  !updated || !(match o.stored with | some (enc, _) => !enc.isEmpty | none => false)

/-- one step; the answer of a query is `some b` -/
def hstep (o : TreeObj) : HOp → TreeObj × Option Bool
  | .encode sup col => (doEncode o sup col, none)
  | .edit t => ({ o with tree := t }, none)
  | .query updated split =>
    let o' := if reencodeFirst updated o then doEncode o true true else o
    match o'.stored with
    | some (enc, L) => (o', some (treeCompatible enc L split))
    | none => (o', none)

/-- a whole history: final state and the answers, in order -/
def hrun (o : TreeObj) : List HOp → TreeObj × List (Option Bool)
  | [] => (o, [])
  | op :: ops =>
    let r := hstep o op
    let rest := hrun r.1 ops
    (rest.1, r.2 :: rest.2)

/-! ### stored encodings with edge identity, maintained by `suppress_unifurcations(update_bipartitions=True)`; the edge maps -/

mutual
/-- per node (= edge) in post-order: (node id, has exactly one child, leafset mask) -/
def recsPost : T → List (Nat × Bool × Nat)
  | .node i x l s cs => recsPostL cs ++ [(i, cs.length == 1, T.mask (.node i x l s cs))]
def recsPostL : List T → List (Nat × Bool × Nat)
  | [] => []
  | c :: cs => recsPost c ++ recsPostL cs
end

/-- `bipartition_encoding` with the identity of each bipartition's edge: (edge id, leafset, split), in stored (post-)order -/
def encodeIds (rooted : Option Bool) (sup col : Bool) (t : T) : List (Nat × Nat × Int) :=
  let t2 := encodeTree rooted sup col t
  (recsPost t2).map (fun r => (r.1, r.2.2, splitOf (rooted == some true) t2.mask r.2.2))

/-- `Tree.suppress_unifurcations(update_bipartitions=True)` on a tree `t` whose stored encoding is `enc`: every node with exactly
    one child is removed (its child takes its place), and the stored list loses the bipartitions of exactly the removed edges —
    selected BY IDENTITY (`id(nd.edge.bipartition)`), not by split mask, which a removed edge shares with the edge below it -/
def suppressMaint (t : T) (enc : List (Nat × Nat × Int)) : T × List (Nat × Nat × Int) :=
  let removed := ((recsPost t).filter (fun r => r.2.1)).map (fun r => r.1)
  (t.sup, enc.filter (fun e => !removed.contains e.1))

/-- `split_bitmask_edge_map` as (re)built on access from the edges in post-order: a later edge with the same split overwrites an
    earlier one.  The cache is dropped by `encode_bipartitions` and by `suppressMaint`, so what is read is always this. -/
def edgeMap (enc : List (Nat × Nat × Int)) : List (Int × Nat) :=
  enc.foldl (fun m e => (m.filter (fun p => p.1 != e.2.2)) ++ [(e.2.2, e.1)]) []

end DendroModel.C01
