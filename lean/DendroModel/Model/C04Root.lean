import DendroModel.Model.C04
/-! C04 — the square root of `euclidean_distance` (`math.sqrt` of the sum of squares), as far as an exact model can carry it:
the floor of the root in fixed point.  `rootFix k w` is the integer `s` with `s / 2^k ≤ √w < (s + 1) / 2^k`
(`Props/C04.lean: rootFix_bracket`); the driver prints it next to the exact square, and the harness checks that the float
returned by the library lies in that bracket (up to binary64 rounding).  (Mathlib-free: the driver runs these definitions.) -/
namespace DendroModel.C04
open DendroModel

/-- floor of the square root, two bits of the argument per step; the fuel bounds the recursion (`isqrtF_spec`: `n ≤ fuel` suffices) -/
def isqrtF : Nat → Nat → Nat
  | 0, n => n
  | f + 1, n =>
    if n < 2 then n
    else if (2 * isqrtF f (n / 4) + 1) * (2 * isqrtF f (n / 4) + 1) ≤ n then 2 * isqrtF f (n / 4) + 1
    else 2 * isqrtF f (n / 4)

def isqrt (n : Nat) : Nat := isqrtF n n

/-- `⌊2^k · √w⌋` for a non-negative rational `w` (a negative `w` — never produced by `euclidSq` — is read as 0) -/
def rootFix (k : Nat) (w : Rat) : Nat := isqrt ((w.num.toNat * 4 ^ k) / w.den)

/-- number of fractional bits the driver prints the root with -/
def rootBits : Nat := 60

end DendroModel.C04
