import DendroModel.Model.C20Tok
import DendroModel.Model.C20Newick
import DendroModel.Model.C20Lines
import DendroModel.Model.C20Nexus
/-! C20 — umbrella of the reader models (tokenizer, Newick, PHYLIP/FASTA, NEXUS). -/
