import DendroModel.Basic.Tree
import DendroModel.Gen.Tables
import DendroModel.Model.C10Py
import DendroModel.Gen.C10Lower
/-! C10 — `TaxonNamespace` as a state machine over its whole public op alphabet (Mathlib-free, executable).

`Taxon` objects are opaque ids (`Nat`) whose label lives in a world-level store (`World.labels`, id = position),
because a `Taxon` can be shared by several namespaces (`TaxonNamespace(other)` re-adds the *same* objects) and a
relabel is seen by all of them.  A namespace (`NS`) mirrors the fields of the class:
`_taxa` (ordered member list), `_accession_index_taxon_map` (`a2t`), `_taxon_accession_index_map` (`t2a`),
`_taxon_bitmask_map` (`bm`, the memo of `taxon_bitmask`), `_current_accession_count`, `is_mutable`,
`is_case_sensitive`.  Python dicts are association lists (`Map`); only lookups, insertions and deletions are used.

`nexusprocessing.bitmask_as_newick_string` is modelled in its repaired form (each member is placed by its own
accession bit, not by its list position). -/
namespace DendroModel.C10
open DendroModel

/-! ## dictionaries -/
abbrev Map := List (Nat × Nat)

def Map.get : Map → Nat → Option Nat
  | [], _ => none
  | (a, b) :: r, k => if a = k then some b else Map.get r k

def Map.erase (m : Map) (k : Nat) : Map := m.filter (fun p => p.1 ≠ k)

/-- `d[k] = v` -/
def Map.put (m : Map) (k v : Nat) : Map := (k, v) :: Map.erase m k

/-! ## labels: case folding and NEXUS token escaping -/

/-! `str.lower` — what `_lookup_label` applies to the query (`str(label).lower()`) and `Taxon.lower_cased_label` to a member's
label — on all of Unicode, over the tables `Gen/C10Lower.lean` regenerates from the running interpreter: single characters through
`lowerRanges` / `lowerSpecial`, and the one context rule of `str.lower`, Final_Sigma.  The harness differential-tests
`pyLower` against CPython on every label it generates (driver op `lower`). -/

/-- membership in a table of disjoint code-point ranges sorted upwards (the scan stops at the first range beyond `n`) -/
def inRanges : List (Nat × Nat) → Nat → Bool
  | [], _ => false
  | (a, b) :: rs, n => if n < a then false else if n ≤ b then true else inRanges rs n

/-- the offset of the range of `lowerRanges` (sorted upwards, disjoint) that holds `n` -/
def findRange (n : Nat) : List (Nat × Nat × Nat × Int) → Option Int
  | [] => none
  | (a, b, st, d) :: rs => if n < a then none else if n ≤ b && (n - a) % st == 0 then some d else findRange n rs

/-- `chr(n).lower()` for every code point but the capital sigma -/
def lowerCp (n : Nat) : List Nat :=
  match C10Lower.lowerSpecial.lookup n with
  | some l => l
  | none =>
    match findRange n C10Lower.lowerRanges with
    | some d => [((n : Int) + d).toNat]
    | none => [n]

/-- the first character that is not case-ignorable is cased (one side of the Final_Sigma context) -/
def wordEdgeCased (cs : List Nat) : Bool :=
  match cs.dropWhile (inRanges C10Lower.caseIgnorable) with
  | c :: _ => inRanges C10Lower.cased c
  | [] => false

/-- Final_Sigma: a cased letter before (`pre` is the reversed prefix), none after, case-ignorable characters skipped -/
def sigmaFinal (pre post : List Nat) : Bool := wordEdgeCased pre && !wordEdgeCased post

def lowerGo : List Nat → List Nat → List Nat
  | _, [] => []
  | pre, c :: rest =>
    (if c = C10Lower.capitalSigma then [if sigmaFinal pre rest then C10Lower.finalSigma else C10Lower.smallSigma] else lowerCp c)
      ++ lowerGo (c :: pre) rest

def pyLower (s : String) : String := String.ofList ((lowerGo [] (s.toList.map Char.toNat)).map Char.ofNat)

/-- `nexusprocessing.escape_nexus_token(label, preserve_spaces, quote_underscores)` with the default
`protect_regex` (its character class is the generated table `Tables.protectDefault`) -/
def escapeToken (ps qu : Bool) (label : String) : String :=
  let cs := label.toList
  let prot := cs.any (fun c => Tables.protectDefault.contains c)
  let hasU := cs.contains '_'
  if !ps && !hasU && !prot then
    String.ofList (cs.map fun c => if c == ' ' || c == '\t' then '_' else c)
  else if prot || cs.contains ' ' || (qu && hasU) then
    "'" ++ String.ofList (cs.flatMap fun c => if c == '\'' then ['\'', '\''] else [c]) ++ "'"
  else label

/-! ## the namespace -/

inductive Err where
  | immutable | valueError | lookupError | keyError | indexError | typeError
deriving DecidableEq, Repr

structure NS where
  taxa : List Nat
  a2t : Map
  t2a : Map
  bm : Map
  count : Nat
  mutable_ : Bool
  caseSens : Bool
deriving Repr

def NS.empty (cs : Bool) : NS := ⟨[], [], [], [], 0, true, cs⟩

/-- `taxon in self` (dictionary lookup, i.e. by identity) -/
def NS.contains (s : NS) (t : Nat) : Bool := (s.t2a.get t).isSome

/-- `add_taxon` -/
def NS.addTaxon (s : NS) (t : Nat) : Except Err NS :=
  if s.contains t then .ok s
  else if !s.mutable_ then .error .immutable
  else .ok { s with taxa := s.taxa ++ [t], a2t := s.a2t.put s.count t, t2a := s.t2a.put t s.count,
                    count := s.count + 1 }

/-- `add_taxa`: stops at the first error, keeping what was added before it -/
def NS.addTaxa (s : NS) : List Nat → NS × Option Err
  | [] => (s, none)
  | t :: ts => match s.addTaxon t with
    | .ok s' => NS.addTaxa s' ts
    | .error e => (s, some e)

/-- `remove_taxon` -/
def NS.removeTaxon (s : NS) (t : Nat) : Except Err NS :=
  if ¬ s.taxa.contains t then .error .valueError
  else
    let a2t := match s.t2a.get t with
      | some i => s.a2t.erase i
      | none => s.a2t
    .ok { s with taxa := s.taxa.filter (fun x => x ≠ t), a2t := a2t, t2a := s.t2a.erase t, bm := s.bm.erase t }

def NS.removeAll (s : NS) : List Nat → NS × Option Err
  | [] => (s, none)
  | t :: ts => match s.removeTaxon t with
    | .ok s' => NS.removeAll s' ts
    | .error e => (s, some e)

/-- `clear`: the accession counter is *not* reset -/
def NS.clear (s : NS) : NS := { s with taxa := [], a2t := [], t2a := [], bm := [] }

/-! ### label lookup -/

/-- effective case sensitivity of a call: `is_case_sensitive is True or (is None and self.is_case_sensitive)` -/
def NS.effCs (s : NS) : Option Bool → Bool
  | some b => b
  | none => s.caseSens

/-- `str(label)` of an optional label -/
def pyStr : Option String → String
  | none => "None"
  | some s => s

/-- the comparison inside the scan of `_lookup_label`, for optional labels on both sides (`Taxon()` has the label `None`):
case-sensitively `label == taxon.label`; otherwise `str(label).lower() == taxon.lower_cased_label`, where the lower-cased
label of an unlabelled taxon is `None` and equals no string.  The state machine only has labelled taxa and string queries
(`labelMatches`); the driver op `matcho` runs this kernel on optional labels against the implementation. -/
def labelMatchesO (cs : Bool) (q tl : Option String) : Bool :=
  if cs then q == tl
  else match tl with
    | none => false
    | some l => pyLower (pyStr q) == pyLower l

/-- the comparison inside the scan of `_lookup_label` -/
def labelMatches (lab : Nat → String) (cs : Bool) (label : String) (t : Nat) : Bool :=
  labelMatchesO cs (some label) (some (lab t))

/-- `escape_nexus_token` of an optional label: an unlabelled taxon is written as the empty token -/
def escapeTokenO (ps qu : Bool) : Option String → String
  | none => ""
  | some l => escapeToken ps qu l

/-- the scan of `_lookup_label(first_match_only=False)`: accumulate matches in list order -/
def scanAll (p : Nat → Bool) : List Nat → List Nat → List Nat
  | [], acc => acc
  | t :: ts, acc => if p t then scanAll p ts (acc ++ [t]) else scanAll p ts acc

/-- the scan of `_lookup_label(first_match_only=True)`: return at the first match -/
def scanFirst (p : Nat → Bool) : List Nat → Option Nat
  | [] => none
  | t :: ts => if p t then some t else scanFirst p ts

def NS.lookupAll (s : NS) (lab : Nat → String) (c : Option Bool) (label : String) : List Nat :=
  scanAll (labelMatches lab (s.effCs c) label) s.taxa []

def NS.lookupFirst (s : NS) (lab : Nat → String) (c : Option Bool) (label : String) : Option Nat :=
  scanFirst (labelMatches lab (s.effCs c) label) s.taxa

/-- `get_taxa`: per label, all matches not yet listed (or the first match, repeats kept) -/
def NS.getTaxa (s : NS) (lab : Nat → String) (c : Option Bool) (first : Bool) : List String → List Nat → List Nat
  | [], acc => acc
  | l :: ls, acc =>
    if first then
      match s.lookupFirst lab c l with
      | some t => NS.getTaxa s lab c first ls (acc ++ [t])
      | none => NS.getTaxa s lab c first ls acc
    else
      NS.getTaxa s lab c first ls
        ((s.lookupAll lab c l).foldl (fun a t => if a.contains t then a else a ++ [t]) acc)

def NS.hasTaxaLabels (s : NS) (lab : Nat → String) (c : Option Bool) : List String → Bool
  | [] => true
  | l :: ls => if (s.lookupAll lab c l).isEmpty then false else NS.hasTaxaLabels s lab c ls

/-! ### ordering -/

/-- insert `x` before the first element that must not precede it (stable for `foldr`) -/
def insertBy (lab : Nat → String) (rev : Bool) (x : Nat) : List Nat → List Nat
  | [] => [x]
  | y :: ys =>
    if (if rev then lab y ≤ lab x else lab x ≤ lab y) then x :: y :: ys
    else y :: insertBy lab rev x ys

/-- `self._taxa.sort(key=lambda x: x.label, reverse=rev)`: stable, ties keep their original order in both directions -/
def sortBy (lab : Nat → String) (rev : Bool) (l : List Nat) : List Nat := l.foldr (insertBy lab rev) []

/-- `self._taxa.sort(key=key, reverse=rev)` for an arbitrary key function `key : Taxon → κ` whose values are compared by
`le` (the custom-key path of `TaxonNamespace.sort`): the same stable insertion, parameterised -/
def insertByK {κ : Type} (le : κ → κ → Bool) (key : Nat → κ) (rev : Bool) (x : Nat) : List Nat → List Nat
  | [] => [x]
  | y :: ys =>
    if (if rev then le (key y) (key x) else le (key x) (key y)) = true then x :: y :: ys
    else y :: insertByK le key rev x ys

def sortByK {κ : Type} (le : κ → κ → Bool) (key : Nat → κ) (rev : Bool) (l : List Nat) : List Nat :=
  l.foldr (insertByK le key rev) []

/-- the key functions the harness passes as `sort(key=…)` -/
inductive SortKey where
  | label      -- `lambda x: x.label` (what `key=None` stands for)
  | lower      -- `lambda x: x.label.lower()`
  | len        -- `lambda x: len(x.label)`
  | acc        -- `tns.accession_index` (bit order)
  | lenLabel   -- `lambda x: (len(x.label), x.label)`: tuples compare lexicographically
  | const      -- `lambda x: 0`: nothing may move, in either direction
deriving DecidableEq, Repr

def strLe (a b : String) : Bool := decide (a ≤ b)

/-- `<=` on `(int, str)` tuples -/
def pairLe (a b : Nat × String) : Bool := decide (a.1 < b.1) || (decide (a.1 = b.1) && strLe a.2 b.2)

/-! ### bits -/

/-- `taxon_bitmask`: memoised `1 << index` -/
def NS.taxonBitmask (s : NS) (t : Nat) : NS × Except Err Nat :=
  match s.bm.get t with
  | some m => (s, .ok m)
  | none => match s.t2a.get t with
    | none => (s, .error .keyError)
    | some i => ({ s with bm := s.bm.put t (1 <<< i) }, .ok (1 <<< i))

/-- `taxa_bitmask(taxa=…)`: OR of the members' masks; an error leaves the memo entries made so far -/
def NS.taxaBitmask (s : NS) : List Nat → Nat → NS × Except Err Nat
  | [], acc => (s, .ok acc)
  | t :: ts, acc => match s.taxonBitmask t with
    | (s', .ok m) => NS.taxaBitmask s' ts (acc ||| m)
    | (s', .error e) => (s', .error e)

/-- `all_taxa_bitmask` -/
def NS.allMask (s : NS) : Nat := (1 <<< s.count) - 1

/-- `bitmask_taxa_list(bitmask, index)`: walk the bits upwards; a set bit without a taxon is a `KeyError` -/
def btl (a2t : Map) (m index : Nat) : Except Err (List Nat) :=
  if h : m = 0 then .ok []
  else if m % 2 = 1 then
    match a2t.get index with
    | none => .error .keyError
    | some t => match btl a2t (m / 2) (index + 1) with
      | .ok r => .ok (t :: r)
      | .error e => .error e
  else btl a2t (m / 2) (index + 1)
termination_by m
decreasing_by all_goals omega

/-- `bitmask_as_bitstring`: `bin(b)[2:].rjust(count, "0")` -/
def NS.bitstring (s : NS) (b : Nat) : List Char :=
  let d := binDigits b
  List.replicate (s.count - d.length) '0' ++ d

/-- what a Newick rendering of a bitmask says: no grouping, or the two sides -/
inductive Rendering where
  | flat (all : List String)
  | sides (left right : List String)
deriving Repr

/-- the loop of (repaired) `nexusprocessing.bitmask_as_newick_string` over `zip(taxa, taxlabels)`:
a member goes left iff `split & taxon_bitmask(taxon)` -/
def nwkLoop (s : NS) (split : Nat) : List (Nat × String) → List String → List String → NS × Except Err Rendering
  | [], left, right => (s, .ok (.sides left right))
  | (t, l) :: r, left, right => match s.taxonBitmask t with
    | (s', .ok m) => if split &&& m ≠ 0 then nwkLoop s' split r (left ++ [l]) right
                     else nwkLoop s' split r left (right ++ [l])
    | (s', .error e) => (s', .error e)

def NS.newick (s : NS) (lab : Nat → String) (split : Nat) (ps qu : Bool) : NS × Except Err Rendering :=
  let taxlabels := s.taxa.map (fun t => escapeToken ps qu (lab t))
  if split = 0 ∨ split = s.allMask then (s, .ok (.flat taxlabels))
  else nwkLoop s split (s.taxa.zip taxlabels) [] []

def Rendering.text : Rendering → String
  | .flat all => "(" ++ ",".intercalate all ++ ");"
  | .sides l r => "((" ++ ", ".intercalate l ++ "), (" ++ ", ".intercalate r ++ "));"

/-! ### copies -/

/-- `TaxonNamespace(other)`: re-add the same taxa to a fresh namespace, then overwrite every other attribute
(index maps, memo, counter, flags) with (deep copies, keyed by the same objects, of) `other`'s -/
def NS.copyCtor (o : NS) : NS :=
  let s := (NS.addTaxa (NS.empty false) o.taxa).1
  { s with a2t := o.a2t, t2a := o.t2a, bm := o.bm, count := o.count, mutable_ := o.mutable_, caseSens := o.caseSens }

/-- position of `t` in `l` -/
def pos (t : Nat) : List Nat → Option Nat
  | [] => none
  | x :: xs => if x = t then some 0 else (pos t xs).map (· + 1)

/-- `copy.deepcopy`: member `i` is cloned to the fresh id `base + i`; the maps are copied through the same memo.
(An entry keyed by a non-member would get a fresh clone of its own in Python; there is none in a reachable
namespace — invariant `Inv.dom` — and the model drops such entries.) -/
def NS.deepCopy (o : NS) (base : Nat) : NS :=
  let ren := fun t => (pos t o.taxa).map (base + ·)
  { taxa := o.taxa.filterMap ren,
    a2t := o.a2t.filterMap (fun p => (ren p.2).map (fun t' => (p.1, t'))),
    t2a := o.t2a.filterMap (fun p => (ren p.1).map (fun t' => (t', p.2))),
    bm := o.bm.filterMap (fun p => (ren p.1).map (fun t' => (t', p.2))),
    count := o.count, mutable_ := o.mutable_, caseSens := o.caseSens }

/-! ## the world: taxon labels and all namespaces of a history -/

structure World where
  labels : List String
  nss : List NS
deriving Repr

def World.init : World := ⟨[], []⟩

def World.lab (w : World) (t : Nat) : String := w.labels.getD t ""

/-- the key function of each kind, and the order of its values -/
def sortWith (w : World) (s : NS) (k : SortKey) (rev : Bool) (l : List Nat) : List Nat :=
  match k with
  | .label => sortByK strLe w.lab rev l
  | .lower => sortByK strLe (fun t => pyLower (w.lab t)) rev l
  | .len => sortByK Nat.ble (fun t => (w.lab t).length) rev l
  | .acc => sortByK Nat.ble (fun t => (s.t2a.get t).getD 0) rev l
  | .lenLabel => sortByK pairLe (fun t => ((w.lab t).length, w.lab t)) rev l
  | .const => sortByK Nat.ble (fun _ => 0) rev l

/-- CPython's `list.sort` raises `TypeError` as soon as it has to order `None` against a string (or against `None`), and every
element of a list of two or more takes part in a comparison: sorting by label is refused exactly when there are two or more
members and one of them has no label (the empty label of the store) -/
def sortRefused (lab : Nat → String) (l : List Nat) : Bool := decide (2 ≤ l.length) && l.any (fun t => lab t == "")

/-- the loop of `label_taxon_map` seen from one key: `d[t.label] = t` over the members in order, so the *last* member
whose label is (case-sensitively: equal to; in a `CaseInsensitiveDict`: lower-cased equal to) the key is what it maps to -/
def scanLast (p : Nat → Bool) : List Nat → Option Nat → Option Nat
  | [], acc => acc
  | t :: ts, acc => scanLast p ts (if p t then some t else acc)

inductive Item where
  | tax (t : Nat)
  | lab (l : String)
deriving Repr

inductive Op where
  -- mutators
  | mk (l : String)                                   -- `Taxon(label=l)`, not yet in any namespace
  | mkns (cs : Bool) (items : List Item)              -- `TaxonNamespace(items, is_case_sensitive=cs)`
  | add (n t : Nat)
  | addTaxa (n : Nat) (ts : List Nat)
  | new (n : Nat) (l : String)
  | newTaxa (n : Nat) (ls : List String)
  | req (n : Nat) (c : Option Bool) (l : String)
  | rm (n t : Nat)
  | del (n i : Nat)
  | rml (n : Nat) (c : Option Bool) (l : String)      -- `remove_taxon_label`
  | dl (n : Nat) (c : Option Bool) (l : String)       -- `discard_taxon_label`
  /-- `remove_taxon_label(first_match_only=True)`.  `fixed = false` is the code as it is: once a label matches it iterates
  over a single `Taxon` and raises `TypeError` before touching the namespace; `fixed = true` is the documented behaviour
  (only the first match is removed).  The harness passes the flag according to which of the two it observed. -/
  | rmlf (n : Nat) (c : Option Bool) (l : String) (fixed : Bool)
  | dlf (n : Nat) (c : Option Bool) (l : String) (fixed : Bool)  -- `discard_taxon_label(first_match_only=True)`
  | sort (n : Nat) (rev : Bool)
  | rev (n : Nat)
  | clear (n : Nat)
  | relabel (t : Nat) (l : String)
  | copy (n : Nat)                                    -- `TaxonNamespace(other)` / `copy.copy`
  | deep (n : Nat)                                    -- `copy.deepcopy`
  | setMut (n : Nat) (b : Bool)
  | setCs (n : Nat) (b : Bool)
  -- observers (those that call `taxon_bitmask` fill the memo)
  | get (n : Nat) (c : Option Bool) (l : String)
  | find (n : Nat) (c : Option Bool) (l : String)
  | gets (n : Nat) (c : Option Bool) (first : Bool) (ls : List String)
  | has (n : Nat) (c : Option Bool) (l : String)
  | hasAll (n : Nat) (c : Option Bool) (ls : List String)
  | bm (n t : Nat)
  | acc (n t : Nat)
  | tbm (n : Nat) (ts : List Nat)
  | lbm (n : Nat) (c : Option Bool) (ls : List String)
  | all (n : Nat)
  | btl (n m : Nat)
  | nwk (n m : Nat) (ps qu : Bool)
  | bits (n m : Nat)
  | isIn (n t : Nat)
  -- extension round: keyword forms and further entry points
  | sortk (n : Nat) (k : SortKey) (rev : Bool)        -- `sort(key=…, reverse=rev)`
  | btli (n m idx : Nat)                               -- `bitmask_taxa_list(m, index=idx)`
  /-- `taxa_bitmask(**kwargs)`: `taxa=` wins over `labels=`; without `taxa=` the other keywords go to `get_taxa`
  (`labels`, `is_case_sensitive`, `first_match_only`), which refuses a call without `labels` (`TypeError`) -/
  | tbmKw (n : Nat) (taxa : Option (List Nat)) (labels : Option (List String)) (c : Option Bool) (first : Bool)
  | mknsImm (cs : Bool) (items : List Item)            -- `TaxonNamespace(items, is_case_sensitive=cs, is_mutable=False)`
  | copyKw (n : Nat) (cs mu : Option Bool)            -- `TaxonNamespace(other, is_case_sensitive=…, is_mutable=…)`
  | scopedCopy (n : Nat)                                 -- `taxon_namespace_scoped_copy(memo)`: the namespace itself
  | ltm (n : Nat) (c : Option Bool) (l : String)       -- `label_taxon_map(is_case_sensitive=c).get(l)`
  /-- a sort by label that `list.sort` refused (`TypeError`), together with the order it left the members in — CPython stops in
  the middle of its merge, which order that is depends on the interpreter; the harness passes the order it observed and the model
  accepts any rearrangement of the members -/
  | sortx (n : Nat) (order : List Nat)
deriving Repr

inductive Out where
  | ok
  | err (e : Err)
  | id (t : Nat)
  | ids (l : List Nat)
  | optId (o : Option Nat)
  | bool (b : Bool)
  | nat (n : Nat)
  | str (s : String)
  | bad                                               -- the op names a namespace that does not exist
deriving Repr

def World.setNs (w : World) (n : Nat) (s : NS) : World := { w with nss := w.nss.set n s }

/-- `new_taxon` on namespace `s`: the immutability test comes before the `Taxon` is created -/
def newTaxon (w : World) (n : Nat) (s : NS) (l : String) : World × Except Err Nat :=
  if !s.mutable_ then (w, .error .immutable)
  else
    let t := w.labels.length
    let w1 : World := { w with labels := w.labels ++ [l] }
    match s.addTaxon t with
    | .ok s' => (w1.setNs n s', .ok t)
    | .error e => (w1, .error e)

/-- `new_taxa`: one immutability test up front, then `new_taxon` per label -/
def newTaxaLoop (w : World) (n : Nat) : List String → List Nat → World × Out
  | [], acc => (w, .ids acc)
  | l :: ls, acc => match w.nss[n]? with
    | none => (w, .bad)
    | some s => match newTaxon w n s l with
      | (w', .ok t) => newTaxaLoop w' n ls (acc ++ [t])
      | (w', .error e) => (w', .err e)

/-- the constructor's loop over a plain iterable: `Taxon` objects are added, strings become new taxa -/
def ctorLoop (w : World) (s : NS) : List Item → World × NS
  | [] => (w, s)
  | .tax t :: r => match s.addTaxon t with
    | .ok s' => ctorLoop w s' r
    | .error _ => ctorLoop w s r
  | .lab l :: r =>
    let t := w.labels.length
    match s.addTaxon t with
    | .ok s' => ctorLoop { w with labels := w.labels ++ [l] } s' r
    | .error _ => ctorLoop { w with labels := w.labels ++ [l] } s r

def exceptOut {α} (f : α → Out) : Except Err α → Out
  | .ok a => f a
  | .error e => .err e

/-- one operation on namespace `s` (= `w.nss[n]`) -/
def stepNs (w : World) (n : Nat) (s : NS) : Op → World × Out
  | .add _ t => match s.addTaxon t with
    | .ok s' => (w.setNs n s', .ok)
    | .error e => (w, .err e)
  | .addTaxa _ ts => match s.addTaxa ts with
    | (s', none) => (w.setNs n s', .ok)
    | (s', some e) => (w.setNs n s', .err e)
  | .new _ l => match newTaxon w n s l with
    | (w', r) => (w', exceptOut .id r)
  | .newTaxa _ ls => if !s.mutable_ then (w, .err .immutable) else newTaxaLoop w n ls []
  | .req _ c l => match s.lookupFirst w.lab c l with
    | some t => (w, .id t)
    | none => if !s.mutable_ then (w, .err .immutable) else
      match newTaxon w n s l with
      | (w', r) => (w', exceptOut .id r)
  | .rm _ t => match s.removeTaxon t with
    | .ok s' => (w.setNs n s', .ok)
    | .error e => (w, .err e)
  | .del _ i => match s.taxa[i]? with
    | none => (w, .err .indexError)
    | some t => match s.removeTaxon t with
      | .ok s' => (w.setNs n s', .ok)
      | .error e => (w, .err e)
  | .rml _ c l => match s.lookupAll w.lab c l with
    | [] => (w, .err .lookupError)
    | ts => match s.removeAll ts with
      | (s', none) => (w.setNs n s', .ok)
      | (s', some e) => (w.setNs n s', .err e)
  | .dl _ c l => match s.removeAll (s.lookupAll w.lab c l) with
    | (s', none) => (w.setNs n s', .ok)
    | (s', some e) => (w.setNs n s', .err e)
  | .rmlf _ c l fixed => match s.lookupFirst w.lab c l with
    | none => (w, .err .lookupError)
    | some t => if fixed then
        (match s.removeTaxon t with
         | .ok s' => (w.setNs n s', .ok)
         | .error e => (w, .err e))
      else (w, .err .typeError)
  | .dlf _ c l fixed => match s.lookupFirst w.lab c l with
    | none => (w, .ok)
    | some t => if fixed then
        (match s.removeTaxon t with
         | .ok s' => (w.setNs n s', .ok)
         | .error e => (w, .err e))
      else (w, .err .typeError)
  | .sort _ rev =>
    if sortRefused w.lab s.taxa then (w, .err .typeError)
    else (w.setNs n { s with taxa := sortBy w.lab rev s.taxa }, .ok)
  | .rev _ => (w.setNs n { s with taxa := s.taxa.reverse }, .ok)
  | .clear _ => (w.setNs n s.clear, .ok)
  | .copy _ => ({ w with nss := w.nss ++ [s.copyCtor] }, .nat w.nss.length)
  | .deep _ => ({ labels := w.labels ++ s.taxa.map w.lab, nss := w.nss ++ [s.deepCopy w.labels.length] },
                .nat w.nss.length)
  | .setMut _ b => (w.setNs n { s with mutable_ := b }, .ok)
  | .setCs _ b => (w.setNs n { s with caseSens := b }, .ok)
  | .get _ c l => (w, .optId (s.lookupFirst w.lab c l))
  | .find _ c l => (w, .ids (s.lookupAll w.lab c l))
  | .gets _ c first ls => (w, .ids (s.getTaxa w.lab c first ls []))
  | .has _ c l => (w, .bool (s.lookupFirst w.lab c l).isSome)
  | .hasAll _ c ls => (w, .bool (s.hasTaxaLabels w.lab c ls))
  | .bm _ t => match s.taxonBitmask t with
    | (s', r) => (w.setNs n s', exceptOut .nat r)
  | .acc _ t => (w, match s.t2a.get t with | some i => .nat i | none => .err .keyError)
  | .tbm _ ts => match s.taxaBitmask ts 0 with
    | (s', r) => (w.setNs n s', exceptOut .nat r)
  | .lbm _ c ls => match s.taxaBitmask (s.getTaxa w.lab c false ls []) 0 with
    | (s', r) => (w.setNs n s', exceptOut .nat r)
  | .all _ => (w, .nat s.allMask)
  | .btl _ m => (w, exceptOut .ids (btl s.a2t m 0))
  | .nwk _ m ps qu => match s.newick w.lab m ps qu with
    | (s', r) => (w.setNs n s', exceptOut (fun x => .str x.text) r)
  | .bits _ m => (w, .str (String.ofList (s.bitstring m)))
  | .isIn _ t => (w, .bool (s.contains t))
  | .sortk _ k rev =>
    if k = .label ∧ sortRefused w.lab s.taxa = true then (w, .err .typeError)
    else (w.setNs n { s with taxa := sortWith w s k rev s.taxa }, .ok)
  | .sortx _ order =>
    if sortRefused w.lab s.taxa = true ∧ order.isPerm s.taxa = true then (w.setNs n { s with taxa := order }, .err .typeError)
    else (w, .bad)
  | .btli _ m idx => (w, exceptOut .ids (btl s.a2t m idx))
  | .tbmKw _ taxa labels c first => match taxa, labels with
    | some ts, _ => (match s.taxaBitmask ts 0 with
      | (s', r) => (w.setNs n s', exceptOut .nat r))
    | none, some ls => (match s.taxaBitmask (s.getTaxa w.lab c first ls []) 0 with
      | (s', r) => (w.setNs n s', exceptOut .nat r))
    | none, none => (w, .err .typeError)
  | .copyKw _ _ mu =>
    -- `is_mutable=False` is in force while the members of `other` are added, so a non-empty `other` is refused;
    -- afterwards both keyword values are overwritten by (copies of) `other`'s attributes
    if mu = some false ∧ s.taxa ≠ [] then (w, .err .immutable)
    else ({ w with nss := w.nss ++ [s.copyCtor] }, .nat w.nss.length)
  | .scopedCopy _ => (w, .nat n)
  | .ltm _ c l => (w, .optId (scanLast (labelMatches w.lab (s.effCs c) l) s.taxa none))
  | .mk _ | .mkns _ _ | .relabel _ _ | .mknsImm _ _ => (w, .bad)

/-- the namespace an operation addresses (none for world-level operations) -/
def Op.ns : Op → Option Nat
  | .mk _ | .mkns _ _ | .relabel _ _ | .mknsImm _ _ => none
  | .sortk n _ _ | .btli n _ _ | .tbmKw n _ _ _ _ | .copyKw n _ _ | .scopedCopy n | .ltm n _ _ | .sortx n _
  | .add n _ | .addTaxa n _ | .new n _ | .newTaxa n _ | .req n _ _ | .rm n _ | .del n _ | .rml n _ _ | .dl n _ _
  | .rmlf n _ _ _ | .dlf n _ _ _
  | .sort n _ | .rev n | .clear n | .copy n | .deep n | .setMut n _ | .setCs n _ | .get n _ _ | .find n _ _
  | .gets n _ _ _ | .has n _ _ | .hasAll n _ _ | .bm n _ | .acc n _ | .tbm n _ | .lbm n _ _ | .all n | .btl n _
  | .nwk n _ _ _ | .bits n _ | .isIn n _ => some n

def Item.refOk (bound : Nat) : Item → Bool
  | .tax t => t < bound
  | .lab _ => true

/-- an operation can only name `Taxon` objects that exist -/
def Op.refsOk (bound : Nat) : Op → Bool
  | .add _ t => t < bound
  | .addTaxa _ ts => ts.all (· < bound)
  | .mkns _ items => items.all (Item.refOk bound)
  | .mknsImm _ items => items.all (Item.refOk bound)
  | _ => true

def step (w : World) (op : Op) : World × Out :=
  if !op.refsOk w.labels.length then (w, .bad) else
  match op with
  | .mk l => ({ w with labels := w.labels ++ [l] }, .id w.labels.length)
  | .mkns cs items =>
    match ctorLoop w (NS.empty cs) items with
    | (w', s) => ({ w' with nss := w'.nss ++ [s] }, .nat w'.nss.length)
  | .relabel t l => if t < w.labels.length then ({ w with labels := w.labels.set t l }, .ok) else (w, .bad)
  | .mknsImm cs items =>
    -- `is_mutable=False` is assigned before the iterable is consumed: the first item (a `Taxon` to add or a label to
    -- create) is refused, and no namespace comes into being; only the empty iterable gives an (empty, immutable) namespace
    if items = [] then ({ w with nss := w.nss ++ [{ NS.empty cs with mutable_ := false }] }, .nat w.nss.length)
    else (w, .err .immutable)
  | op => match op.ns with
    | none => (w, .bad)
    | some n => match w.nss[n]? with
      | none => (w, .bad)
      | some s => stepNs w n s op

def run (w : World) : List Op → World × List Out
  | [] => (w, [])
  | op :: ops =>
    let (w1, o) := step w op
    let (w2, os) := run w1 ops
    (w2, o :: os)

/-- the world after a history -/
def exec (w : World) : List Op → World
  | [] => w
  | op :: ops => exec (step w op).1 ops

end DendroModel.C10
