import DendroModel.Model.C19Ext
/-! C19, reference semantics: the SAME operations as `Model/C19.lean` / `Model/C19Ext.lean`, but over a heap of sequence
OBJECTS and a pool of matrix OBJECTS, the way `charmatrixmodel.py` really works (Mathlib-free, executable; `drv_c19`
runs these definitions for the op `world`).

* a `CharacterDataSequence` is an address into `World.heap`; `_taxon_sequence_map` of a matrix is `HMat.refs`, a dict
  taxon ↦ address.  Two dict entries (of one matrix or of two) may hold the same address: then they ARE one object and
  a change through one is seen through the other.
* a matrix is a position in `World.mats`; an operation names its operands by position, so `m.extend_matrix(m)`,
  `m.update_sequences(m)`, `m.remove_sequences(m)`, `concatenate([m, m])` are ordinary calls with equal positions.
* what the code does to objects is spelled with four primitives: `allocBind` (`map[k] = seqtype(values)`: a NEW object),
  `writeSlot` (`map[k].extend(…)`, `v.append(…)`, `del vec[i]`: the object is changed in place), `unbind` (`del map[k]`),
  `bindAddr` (`map[k] = obj`: an EXISTING object is stored, which is how sharing comes about: `m[t] = n[u]`, `copy.copy(m)`).
* every loop of the code that reads the other matrix reads it LIVE (`other_matrix._taxon_sequence_map[taxon]` at the
  moment the taxon is visited), not from a snapshot: `hBinStep`, `hRemoveM`, `hDiscardM` look into the current world.
  Only the key list of a dict under iteration is taken once (`akeys mj.refs`): Python raises `RuntimeError` if the dict
  changes size under iteration, and no operation inserts or deletes keys of the dict it iterates (when the operands are one
  object every visited key is present, so nothing is inserted; `Props`: `hBin_self_keys`).

`Props/C19.lean` proves that on a world without sharing (`Sep`) every operation — also with equal operand positions —
does to the VIEW of its matrix exactly what the value-level model does, leaves the view of every other matrix as it was,
and creates no sharing. -/
namespace DendroModel.C19

abbrev Refs := List (Taxon × Nat)

def aget? (t : Taxon) : Refs → Option Nat
  | [] => none
  | (k, a) :: rest => if k = t then some a else aget? t rest

def aset (t : Taxon) (a : Nat) : Refs → Refs
  | [] => [(t, a)]
  | (k, v) :: rest => if k = t then (k, a) :: rest else (k, v) :: aset t a rest

def adel (t : Taxon) (rs : Refs) : Refs := rs.filter (fun kv => kv.1 != t)

def akeys (rs : Refs) : List Taxon := rs.map Prod.fst

/-- a matrix object -/
structure HMat where
  ns : Nat
  taxa : List Taxon
  label : Option Label
  refs : Refs                      -- `_taxon_sequence_map`: taxon ↦ address of the sequence object
  subs : List (Label × List Nat)
deriving Repr

structure World where
  heap : List Row                  -- the sequence objects; address = position; nothing is ever freed
  mats : List HMat                 -- the matrix objects; identity = position
deriving Repr

/-- the content of the sequence object at an address -/
def hget (h : List Row) (a : Nat) : Row := (h[a]?).getD []

/-- what a dict of addresses denotes -/
def deref (h : List Row) (refs : Refs) : Rows := refs.map (fun p => (p.1, hget h p.2))

/-- the value a matrix object denotes in a heap -/
def viewM (h : List Row) (m : HMat) : Matrix :=
  { ns := m.ns, taxa := m.taxa, label := m.label, rows := deref h m.refs, subs := m.subs }

/-- the pool as values -/
def views (w : World) : List Matrix := w.mats.map (viewM w.heap)

def modAt {α : Type} (i : Nat) (f : α → α) : List α → List α
  | [] => []
  | x :: xs =>
    match i with
    | 0 => f x :: xs
    | i + 1 => x :: modAt i f xs

def refsOf (w : World) (i : Nat) : Refs :=
  match w.mats[i]? with
  | some m => m.refs
  | none => []

def rowsOf (w : World) (i : Nat) : Rows := deref w.heap (refsOf w i)

/-- `k in m._taxon_sequence_map` -/
def hHas (w : World) (i : Nat) (k : Taxon) : Bool := (aget? k (refsOf w i)).isSome

/-- the present content of the sequence object stored under `k` -/
def hRow (w : World) (i : Nat) (k : Taxon) : Row := ((aget? k (refsOf w i)).map (hget w.heap)).getD []

/-! ## the four primitives -/

def setRefs (w : World) (i : Nat) (f : Refs → Refs) : World :=
  { w with mats := modAt i (fun m => { m with refs := f m.refs }) w.mats }

/-- `map[k] = seqtype(values)`: a NEW sequence object holding `r` -/
def allocBind (w : World) (i : Nat) (k : Taxon) (r : Row) : World :=
  setRefs { w with heap := w.heap ++ [r] } i (aset k w.heap.length)

/-- the sequence object stored under `k` becomes `r`, in place (seen through every entry that holds it) -/
def writeSlot (w : World) (i : Nat) (k : Taxon) (r : Row) : World :=
  match aget? k (refsOf w i) with
  | some a => { w with heap := w.heap.set a r }
  | none => w

/-- `del map[k]` -/
def unbind (w : World) (i : Nat) (k : Taxon) : World := setRefs w i (adel k)

/-- `map[k] = obj` for an existing object -/
def bindAddr (w : World) (i : Nat) (k : Taxon) (a : Nat) : World := setRefs w i (aset k a)

/-! ## the six row operations `self.op(other)`; `i` = self, `j` = other, possibly the same object -/

inductive BinOp where
  | add | replace | update | extend | extendNew | extendMatrix
deriving DecidableEq, Repr

/-- the value-level step of each operation (the lambdas of `addSeqs` … `extendMatrix`) -/
def vBin : BinOp → Rows → Taxon × Row → Rows
  | .add => fun acc kv => if has kv.1 acc then acc else set kv.1 kv.2 acc
  | .replace => fun acc kv => if has kv.1 acc then set kv.1 kv.2 acc else acc
  | .update => fun acc kv => set kv.1 kv.2 acc
  | .extend => fun acc kv =>
    if !(has kv.1 acc) then (if !false then acc else set kv.1 kv.2 acc) else set kv.1 (rowOf kv.1 acc ++ kv.2) acc
  | .extendNew => fun acc kv =>
    if !(has kv.1 acc) then (if !true then acc else set kv.1 kv.2 acc) else set kv.1 (rowOf kv.1 acc ++ kv.2) acc
  | .extendMatrix => fun acc kv =>
    if has kv.1 acc then set kv.1 (rowOf kv.1 acc ++ kv.2) acc else set kv.1 kv.2 acc

/-- the value-level operation -/
def binFn : BinOp → Rows → Rows → Rows
  | .add => addSeqs
  | .replace => replaceSeqs
  | .update => updateSeqs
  | .extend => extendSeqs false
  | .extendNew => extendSeqs true
  | .extendMatrix => extendMatrix

/-- one round of `for taxon in other_matrix._taxon_sequence_map:` on objects.  `src` is read from the world as it is NOW. -/
def hBinStep (op : BinOp) (i j : Nat) (w : World) (k : Taxon) : World :=
  let present := hHas w i k
  let src := hRow w j k
  match op with
  | .add => if present then w else allocBind w i k src
  | .replace => if present then allocBind w i k src else w
  | .update => allocBind w i k src
  | .extend => if present then writeSlot w i k (hRow w i k ++ src) else w
  | .extendNew => if present then writeSlot w i k (hRow w i k ++ src) else allocBind w i k src
  | .extendMatrix => if present then writeSlot w i k (hRow w i k ++ src) else allocBind w i k src

def hBinLoop (op : BinOp) (i j : Nat) (w : World) : World :=
  (akeys (refsOf w j)).foldl (hBinStep op i j) w

/-- `self.add_sequences(other)` …, with the namespace guard -/
def hBin (op : BinOp) (w : World) (i j : Nat) : Except Err World :=
  match w.mats[i]?, w.mats[j]? with
  | some mi, some mj => if mj.ns ≠ mi.ns then .error .valueError else .ok (hBinLoop op i j w)
  | _, _ => .error .indexError

/-! ## remove / discard / keep -/

/-- `remove_sequences(taxa)` with a list -/
def hRemove (i : Nat) : List Taxon → World → World × Option Err
  | [], w => (w, none)
  | t :: ts, w => if hHas w i t then hRemove i ts (unbind w i t) else (w, some .keyError)

def hDiscard (i : Nat) (taxa : List Taxon) (w : World) : World :=
  taxa.foldl (fun w t => if hHas w i t then unbind w i t else w) w

def hKeep (i : Nat) (taxa : List Taxon) (w : World) : World :=
  (akeys (refsOf w i)).foldl (fun w k => if taxa.contains k then w else unbind w i k) w

/-- `remove_sequences(other)`: the argument is a MATRIX, iterated by `__iter__`, a generator that walks the namespace and
    asks `t in other._taxon_sequence_map` when it gets to `t` — after the deletions made so far -/
def hRemoveM (i j : Nat) : List Taxon → World → World × Option Err
  | [], w => (w, none)
  | t :: ts, w =>
    if hHas w j t then (if hHas w i t then hRemoveM i j ts (unbind w i t) else (w, some .keyError))
    else hRemoveM i j ts w

def hDiscardM (i j : Nat) (taxa : List Taxon) (w : World) : World :=
  taxa.foldl (fun w t => if hHas w j t then (if hHas w i t then unbind w i t else w) else w) w

def taxaOf (w : World) (i : Nat) : List Taxon :=
  match w.mats[i]? with
  | some m => m.taxa
  | none => []

/-- what iterating matrix `j` yields when nothing changes meanwhile -/
def iterKeys (w : World) (j : Nat) : List Taxon := (taxaOf w j).filter (hHas w j)

/-- `keep_sequences(other)`: `to_keep = set(taxa)` is built before anything is deleted -/
def hKeepM (i j : Nat) (w : World) : World := hKeep i (iterKeys w j) w

/-! ## padding -/

/-- `for k in self: v = self[k]; while len(v) < size: …` — every visit changes the object in place -/
def hMapNs (f : Row → Row) (i : Nat) (taxa : List Taxon) (w : World) : World :=
  taxa.foldl (fun w t => if hHas w i t then writeSlot w i t (f (hRow w i t)) else w) w

def hFill (v : Cell) (size : Option Nat) (app : Bool) (i : Nat) (w : World) : World :=
  hMapNs (padLoop v (fillSize size (taxaOf w i) (rowsOf w i)) app) i (taxaOf w i) w

def hFillTaxa (i : Nat) (w : World) : World :=
  (taxaOf w i).foldl (fun w t => if hHas w i t then w else allocBind w i t []) w

def hPack (v : Cell) (size : Option Nat) (app : Bool) (i : Nat) (w : World) : World :=
  hFill v size app i (hFillTaxa i w)

/-! ## element access -/

def hGetItem (w : World) (i : Nat) (t : Taxon) : Except Err (World × Row) :=
  match aget? t (refsOf w i) with
  | some a => .ok (w, hget w.heap a)
  | none => if (taxaOf w i).contains t then .ok (allocBind w i t [], []) else .error .valueError

/-- `m[t] = values` with plain values: a new object -/
def hSetItem (w : World) (i : Nat) (t : Taxon) (row : Row) : Except Err World :=
  if (taxaOf w i).contains t then .ok (allocBind w i t row) else .error .valueError

/-- `m_i[t] = m_j._taxon_sequence_map[u]`: `__setitem__` stores a value that already is a sequence object AS IT IS -/
def hSetSeq (w : World) (i : Nat) (t : Taxon) (j : Nat) (u : Taxon) : Except Err World :=
  match aget? u (refsOf w j) with
  | none => .error .keyError
  | some a => if (taxaOf w i).contains t then .ok (bindAddr w i t a) else .error .valueError

def hNewSeq (w : World) (i : Nat) (t : Taxon) (row : Row) : Except Err World :=
  if hHas w i t then .error .valueError
  else if (taxaOf w i).contains t then .ok (allocBind w i t row)
  else .error .valueError

def hDelItem (w : World) (i : Nat) (t : Taxon) : Except Err World :=
  if hHas w i t then .ok (unbind w i t) else .error .keyError

def hClear (w : World) (i : Nat) : World := setRefs w i (fun _ => [])

def hNewSubset (w : World) (i : Nat) (lab : Label) (idx : List Nat) : Except Err World :=
  match w.mats[i]? with
  | none => .error .indexError
  | some m =>
    if hasSub m.subs lab then .error .valueError
    else .ok { w with mats := modAt i (fun m => { m with subs := m.subs ++ [(lab, idxSet idx)] }) w.mats }

/-! ## operations that make a new matrix object (appended to the pool) -/

/-- `copy.copy(m)`: a new matrix whose dict holds the SAME sequence objects; label kept, subsets not copied -/
def hCopy (w : World) (i : Nat) : Except Err World :=
  match w.mats[i]? with
  | none => .error .indexError
  | some m => .ok { w with mats := w.mats ++ [{ m with subs := [] }] }

/-- `copy.deepcopy` of the dict with its memo: every DISTINCT object is copied once (through `f`), entries that shared an
    object share the copy.  `h0` is the heap the originals are read from. -/
def cloneLoop (f : Row → Row) (h0 : List Row) : Refs → List (Nat × Nat) → List Row → Refs → Refs × List Row
  | [], _, heap, acc => (acc, heap)
  | (t, a) :: rest, memo, heap, acc =>
    match memo.lookup a with
    | some b => cloneLoop f h0 rest memo heap (acc ++ [(t, b)])
    | none => cloneLoop f h0 rest ((a, heap.length) :: memo) (heap ++ [f (hget h0 a)]) (acc ++ [(t, heap.length)])

/-- `cls(m)` (deep copy; `keepSubs`) and `export_character_indices` (`f = exportRow idx`, subsets cleared).
    Every distinct sequence object of the clone is filtered ONCE — what the statement asks for; the unrepaired loop
    `for vec in clone.values(): …del vec[i]` filtered an object once per entry that holds it. -/
def hCloneWith (f : Row → Row) (keepSubs : Bool) (w : World) (i : Nat) : Except Err World :=
  match w.mats[i]? with
  | none => .error .indexError
  | some m =>
    let (refs', heap') := cloneLoop f w.heap m.refs [] w.heap []
    .ok { heap := heap', mats := w.mats ++ [{ m with refs := refs', subs := if keepSubs then m.subs else [] }] }

def hClone (w : World) (i : Nat) : Except Err World := hCloneWith (fun r => r) true w i

def hExportIdx (w : World) (i : Nat) (idx : List Int) : Except Err World := hCloneWith (exportRow idx) false w i

def hExportSub (w : World) (i : Nat) (lab : Label) : Except Err World :=
  match w.mats[i]? with
  | none => .error .indexError
  | some m =>
    match findSub m.subs lab with
    | none => .error .keyError
    | some idx => hExportIdx w i (idx.map Int.ofNat)

/-- one round of `concatenate`: the guards and the subset name are those of `concatStep` on the present value of the
    argument; the rows go through `extend_matrix` on objects (`n` = the matrix under construction) -/
def hConcatStep (ns : Nat) (taxa : List Taxon) (nseqs : Nat) (n : Nat)
    (st : World × List (Label × List Nat) × Nat) (cidx : Nat) (j : Nat) :
    Except Err (World × List (Label × List Nat) × Nat) :=
  match st.1.mats[j]? with
  | none => .error .indexError
  | some mj =>
    match concatStep ns taxa nseqs ⟨[], st.2.1, st.2.2⟩ cidx (viewM st.1.heap mj) with
    | .error e => .error e
    | .ok st' => .ok (hBinLoop .extendMatrix n j st.1, st'.subs, st'.pos)

def hConcatLoop (ns : Nat) (taxa : List Taxon) (nseqs : Nat) (n : Nat) :
    World × List (Label × List Nat) × Nat → Nat → List Nat → Except Err (World × List (Label × List Nat) × Nat)
  | st, _, [] => .ok st
  | st, cidx, j :: rest =>
    match hConcatStep ns taxa nseqs n st cidx j with
    | .error e => .error e
    | .ok st' => hConcatLoop ns taxa nseqs n st' (cidx + 1) rest

/-- `cls.concatenate([pool[j] for j in args])`; a refused call leaves only garbage behind: the world is as it was -/
def hConcat (w : World) (args : List Nat) : Except Err World :=
  match args with
  | [] => .error .indexError
  | j0 :: _ =>
    match w.mats[j0]? with
    | none => .error .indexError
    | some m0 =>
      let n := w.mats.length
      let w0 : World := { w with mats := w.mats ++ [{ ns := m0.ns, taxa := m0.taxa, label := none, refs := [], subs := [] }] }
      match hConcatLoop m0.ns m0.taxa m0.refs.length n (w0, [], 0) 0 args with
      | .error e => .error e
      | .ok (w', subs, _) => .ok { w' with mats := modAt n (fun m => { m with subs := subs }) w'.mats }

/-! ## calls as data, and a history over the pool -/

inductive HCall where
  | bin (op : BinOp) (i j : Nat)
  | remove (i : Nat) (taxa : List Taxon) | discard (i : Nat) (taxa : List Taxon) | keep (i : Nat) (taxa : List Taxon)
  | removeM (i j : Nat) | discardM (i j : Nat) | keepM (i j : Nat)
  | fill (i : Nat) (v : Cell) (size : Option Nat) (app : Bool) | fillTaxa (i : Nat)
  | pack (i : Nat) (v : Cell) (size : Option Nat) (app : Bool)
  | getItem (i : Nat) (t : Taxon) | setItem (i : Nat) (t : Taxon) (row : Row) | newSeq (i : Nat) (t : Taxon) (row : Row)
  | delItem (i : Nat) (t : Taxon) | clear (i : Nat) | newSubset (i : Nat) (lab : Label) (idx : List Nat)
  | clone (i : Nat) | exportIdx (i : Nat) (idx : List Int) | exportSub (i : Nat) (lab : Label) | concat (args : List Nat)
  | setSeq (i : Nat) (t : Taxon) (j : Nat) (u : Taxon)      -- the two calls by which the USER makes objects shared
  | copy (i : Nat)
deriving Repr

/-- the matrix positions a call mentions -/
def HCall.positions : HCall → List Nat
  | .bin _ i j | .removeM i j | .discardM i j | .keepM i j => [i, j]
  | .remove i _ | .discard i _ | .keep i _ | .fill i _ _ _ | .fillTaxa i | .pack i _ _ _ | .getItem i _ | .setItem i _ _
  | .newSeq i _ _ | .delItem i _ | .clear i | .newSubset i _ _ | .clone i | .exportIdx i _ | .exportSub i _ | .copy i => [i]
  | .concat args => args
  | .setSeq i _ j _ => [i, j]

def orWorld (w : World) : Except Err World → World × Option Err
  | .ok w' => (w', none)
  | .error e => (w, some e)

/-- the world after one call, and the exception it raised (a call that raises before touching anything changes nothing;
    `remove_sequences` that raises keeps its partial work) -/
def hStep (w : World) : HCall → World × Option Err
  | .bin op i j => orWorld w (hBin op w i j)
  | .remove i taxa => hRemove i taxa w
  | .discard i taxa => (hDiscard i taxa w, none)
  | .keep i taxa => (hKeep i taxa w, none)
  | .removeM i j => hRemoveM i j (taxaOf w j) w
  | .discardM i j => (hDiscardM i j (taxaOf w j) w, none)
  | .keepM i j => (hKeepM i j w, none)
  | .fill i v size app => (hFill v size app i w, none)
  | .fillTaxa i => (hFillTaxa i w, none)
  | .pack i v size app => (hPack v size app i w, none)
  | .getItem i t =>
    match hGetItem w i t with
    | .ok (w', _) => (w', none)
    | .error e => (w, some e)
  | .setItem i t row => orWorld w (hSetItem w i t row)
  | .newSeq i t row => orWorld w (hNewSeq w i t row)
  | .delItem i t => orWorld w (hDelItem w i t)
  | .clear i => (hClear w i, none)
  | .newSubset i lab idx => orWorld w (hNewSubset w i lab idx)
  | .clone i => orWorld w (hClone w i)
  | .exportIdx i idx => orWorld w (hExportIdx w i idx)
  | .exportSub i lab => orWorld w (hExportSub w i lab)
  | .concat args => orWorld w (hConcat w args)
  | .setSeq i t j u => orWorld w (hSetSeq w i t j u)
  | .copy i => orWorld w (hCopy w i)

def hRun (w : World) (cs : List HCall) : World := cs.foldl (fun w c => (hStep w c).1) w

/-- a pool of values as objects: every row becomes an object of its own -/
def enumRefs (base : Nat) : Rows → Refs
  | [] => []
  | (t, _) :: rest => (t, base) :: enumRefs (base + 1) rest

def initMat (st : List Row × List HMat) (m : Matrix) : List Row × List HMat :=
  (st.1 ++ m.rows.map Prod.snd,
   st.2 ++ [{ ns := m.ns, taxa := m.taxa, label := m.label, refs := enumRefs st.1.length m.rows, subs := m.subs }])

def initWorld (ms : List Matrix) : World :=
  let st := ms.foldl initMat ([], [])
  { heap := st.1, mats := st.2 }

end DendroModel.C19
