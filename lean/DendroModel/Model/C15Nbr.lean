import DendroModel.Model.C15Ext
/-! C15 — the one-step iterators and lists of `Node` (`child_node_iter`, `child_edge_iter`, `child_nodes`, `child_edges`,
`incident_edges`, `adjacent_nodes`, `sibling_nodes`/`sister_nodes`) and the first-hit searches of `Tree`
(`find_node`, `find_nodes`, `find_node_with_label`, `find_node_with_taxon(_label)`, `find_node_for_taxon`), at tree level
and — where the code goes through `_parent_node` — at pointer level over the parent array.
Mathlib-free and executable (the driver runs these). -/
namespace DendroModel.C15
open DendroModel

/-- `child_node_iter(filter_fn)`: `for node in self._child_nodes: if filter_fn is None or filter_fn(node): yield node` -/
def childRun (keep : T → Bool) : List T → List T
  | [] => []
  | c :: cs => (if keep c then [c] else []) ++ childRun keep cs

def childIter (keep : T → Bool) (t : T) : List T := childRun keep t.cs

/-- `child_edge_iter(filter_fn)`: the same loop, testing and yielding `node.edge` -/
def childEdgeRun (keep : E → Bool) : List T → List E
  | [] => []
  | c :: cs => (if keep ⟨c⟩ then [E.mk c] else []) ++ childEdgeRun keep cs

def childEdgeIter (keep : E → Bool) (t : T) : List E := childEdgeRun keep t.cs

/-- `incident_edges()`: `e = [c.edge for c in self._child_nodes]; e.append(self.edge)` — the node's own edge LAST, and
present also on the seed (whose edge has no tail) -/
def incidentEdges (t : T) : List E := t.cs.map E.mk ++ [⟨t⟩]

/-- `adjacent_nodes()`: the children, then the parent when there is one.  `det`: the node was spliced out of its parent -/
def adjacentNodes (tree : T) (start : Nat) (det : Bool) : Option (List T) :=
  match ancPath start tree with
  | some (self :: up) => some (self.cs ++ (if det then [] else up.take 1))
  | _ => none

/-- `sibling_nodes()`: `[nd for nd in p.child_nodes() if nd is not self]`, `[]` without a parent.
Identity of nodes is modelled by their ids (pairwise distinct on every protocol tree: `protocol_ids_distinct`) -/
def siblingNodes (tree : T) (start : Nat) (det : Bool) : Option (List T) :=
  match ancPath start tree with
  | some (self :: p :: _) => some (if det then [] else p.cs.filter (fun c => c.id != self.id))
  | some [_] => some []
  | _ => none

/-- `adjacent_nodes()` on node ids and parent pointers -/
def adjacentPtr (par : Array Int) (j : Nat) : List Nat :=
  kidsOf par j ++ (if par[j]! < 0 then [] else [(par[j]!).toNat])

/-- `sibling_nodes()` on node ids and parent pointers -/
def siblingPtr (par : Array Int) (j : Nat) : List Nat :=
  if par[j]! < 0 then [] else (kidsOf par (par[j]!).toNat).filter (fun k => k != j)

/-! ### first-hit searches -/

/-- `for node in <iterator>: if <test>(node): return node` / `return None` -/
def firstWhere (p : T → Bool) : List T → Option T
  | [] => none
  | x :: xs => if p x then some x else firstWhere p xs

/-- `find_node(filter_fn)`: `for node in self.preorder_node_iter(filter_fn): return node` / `return None` -/
def findNode (keep : T → Bool) (t : T) : Option T :=
  match preIter keep t with
  | [] => none
  | x :: _ => some x

/-- `find_nodes(filter_fn)` -/
def findNodes (keep : T → Bool) (t : T) : List T := preIter keep t

/-- `find_node_with_label(label)`: the unfiltered pre-order generator, the test `node.label == label` in the loop body -/
def findLabel (lab : String) (t : T) : Option T :=
  firstWhere (fun x => x.label == some lab) (preIter (fun _ => true) t)

/-- `find_node_with_taxon(fn)` (and `find_node_with_taxon_label`, whose `fn` compares labels): pre-order, nodes whose
taxon is not `None` and passes.  `q` says which taxa (by index) pass. -/
def findTaxonPre (q : Nat → Bool) (t : T) : Option T :=
  firstWhere (fun x => match x.taxon with | some k => q k | none => false) (preIter (fun _ => true) t)

/-- `find_node_for_taxon(taxon)`: the POST-order generator, the test `node.taxon is taxon` -/
def findTaxonPost (k : Nat) (t : T) : Option T :=
  firstWhere (fun x => x.taxon == some k) (postIter (fun _ => true) t)

end DendroModel.C15
