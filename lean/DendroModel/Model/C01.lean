import DendroModel.Model.TreeOps
import DendroModel.Gen.PyBits
/-! C01 — models of `Tree.encode_bipartitions`, `Tree.from_split_bitmasks` and the bipartition predicates.
The integer functions are NOT re-written by hand: the model calls the definitions generated from the current
source (`Gen/PyBits.lean`), so an edit to them changes the model and breaks the theorems about it. -/
namespace DendroModel.C01
open DendroModel

/-- lowest set bit of the tree's own leafset, via the generated `least_significant_set_bit` -/
def lsbOf (L : Nat) : Int := PyBits.least_significant_set_bit (L : Int)

/-- split mask of an edge with leafset `m` on a tree with leafset `L`
    (`Bipartition.compile_split_bitmask`: rooted → leafset; otherwise `normalize_bitmask`) -/
def splitOf (rooted : Bool) (L m : Nat) : Int :=
  if rooted then (m : Int) else PyBits.normalize_bitmask (m : Int) (L : Int) (lsbOf L)

/-- the tree after the side effects of `encode_bipartitions` -/
def encodeTree (rooted : Option Bool) (suppress collapse : Bool) (t : T) : T :=
  let t1 := if collapse && rooted != some true && t.cs.length == 2 then t.collapseBasal else t
  if suppress then t1.sup else t1

/-- `(leafset, split)` for every retained edge, in post-order.  `is_rooted = None` behaves as unrooted. -/
def encode (rooted : Option Bool) (suppress collapse : Bool) (t : T) : List (Nat × Int) :=
  let t2 := encodeTree rooted suppress collapse t
  let L := t2.mask
  t2.masksPost.map (fun m => (m, splitOf (rooted == some true) L m))

/-! ### `from_split_bitmasks` -/

/-- head filter: mask with the namespace's all-taxa mask, drop the full set and sets with ≤ 1 member,
    unrooted: "denormalise" on bit 0 (the constant 1, not the lowest relevant bit) -/
def prep (all : Nat) (rooted : Bool) (s : Nat) : Option Nat :=
  let m := s &&& all
  if m != all && ((m - 1) &&& m) != 0 then
    if rooted then some m else (if 1 &&& m != 0 then some (Hier.sdiff all m) else some m)
  else none

/-- one split: skipped unless contained in the root leafset (incompatible), else greedy insertion -/
def addSplit (t : Hier.T) (m : Nat) : Hier.T :=
  if m &&& Hier.mask t != m then t else Hier.ins m t

/-- `all` = `(1 <<< accession counter) - 1` (includes bits of removed members); `members` = bits of the members in namespace order -/
def build (all : Nat) (members : List Nat) (rooted : Bool) (splits : List Nat) : Hier.T :=
  (splits.filterMap (prep all rooted)).foldl addSplit (Hier.starOf members)

/-! ### predicates -/
def isTrivial (split fill : Int) : Bool := PyBits.is_trivial_bitmask split fill
def isCompatible (m1 m2 fill : Int) : Bool := PyBits.is_compatible_bitmasks m1 m2 fill
/-- `Bipartition.is_leafset_nested_within` -/
def isNested (leafset other fill : Int) : Bool := pyAnd (pyAnd fill other) leafset == leafset

/-- `Tree.is_compatible_with_bipartition` on a freshly encoded tree: present in the encoding (bipartitions hash and
    compare by split mask), or compatible with every bipartition of the encoding -/
def treeCompatible (enc : List (Nat × Int)) (L : Nat) (split : Int) : Bool :=
  enc.any (fun p => p.2 == split) || enc.all (fun p => isCompatible p.2 split (L : Int))

end DendroModel.C01
