import DendroModel.Model.C01
/-! C04 — tree-to-tree distances of `calculate/treecompare.py` as they are computed: from the two trees'
bipartition encodings (re-encoded with default flags), sets of splits, and the split → edge map.
Lengths are core `Rat` (the same type as Mathlib's `ℚ`), so the theorems use ordered-field facts directly. -/
namespace DendroModel.C04
open DendroModel

def fracToRat (f : Frac) : Rat := mkRat f.num f.den

structure EdgeRec where
  split : Int
  len : Option Rat
  isRoot : Bool

mutual
/-- (leafset, length, is-root-edge) of every node in post-order; the seed's edge is the root edge -/
def edgesPost (isRoot : Bool) : T → List (Nat × Option Frac × Bool)
  | .node i x l s cs => edgesPostL cs ++ [(T.mask (.node i x l s cs), l, isRoot)]
def edgesPostL : List T → List (Nat × Option Frac × Bool)
  | [] => []
  | c :: cs => edgesPost false c ++ edgesPostL cs
end

/-- the edges of a tree after `encode_bipartitions()` with default flags, with their split masks -/
def edgeRecs (rooted : Option Bool) (t : T) : List EdgeRec :=
  let t2 := C01.encodeTree rooted true true t
  let L := t2.mask
  (edgesPost true t2).map (fun e => ⟨C01.splitOf (rooted == some true) L e.1, e.2.1.map fracToRat, e.2.2⟩)

/-- Python dict assignment `d[k] = v`: a later edge with an equal bipartition (equal split mask) replaces the value
    and keeps the key's position -/
def dictSet (d : List (Int × EdgeRec)) (k : Int) (v : EdgeRec) : List (Int × EdgeRec) :=
  match d with
  | [] => [(k, v)]
  | (k', v') :: rest => if k' == k then (k', v) :: rest else (k', v') :: dictSet rest k v

/-- `Tree.bipartition_edge_map` -/
def edgeMap (es : List EdgeRec) : List (Int × EdgeRec) := es.foldl (fun d e => dictSet d e.split e) []

def lookup (d : List (Int × EdgeRec)) (k : Int) : Option EdgeRec := (d.find? (fun p => p.1 == k)).map (·.2)

def dedup : List Int → List Int
  | [] => []
  | x :: xs => if xs.contains x then dedup xs else x :: dedup xs

/-- `false_positives_and_negatives(reference, comparison)`: sizes of the two one-sided differences of the split sets -/
def fpfn (ref cmp : List Int) : Nat × Nat :=
  (((dedup cmp).filter (fun s => !ref.contains s)).length, ((dedup ref).filter (fun s => !cmp.contains s)).length)

def rf (a b : List Int) : Nat := (fpfn a b).1 + (fpfn a b).2

def absR (x : Rat) : Rat := if x < 0 then -x else x

/-- a missing value (`None`) on a non-root edge -/
def EdgeRec.bad (e : EdgeRec) : Bool := e.len.isNone && !e.isRoot

/-- first pass, one entry of the first tree's map: paired with the other tree's edge of the same split if there is one -/
def entry (m2 : List (Int × EdgeRec)) (p : Int × EdgeRec) : Option (Rat × Rat) :=
  match lookup m2 p.1 with
  | some e2 => if p.2.bad || e2.bad then none else some (p.2.len.getD 0, e2.len.getD 0)
  | none => some (p.2.len.getD 0, (0 : Rat))

def pass1 (m2 : List (Int × EdgeRec)) : List (Int × EdgeRec) → Option (List (Rat × Rat))
  | [] => some []
  | p :: rest =>
    match entry m2 p, pass1 m2 rest with
    | some d, some ds => some (d :: ds)
    | _, _ => none

/-- second pass: the splits only the second tree has -/
def pass2 (m1 m2 : List (Int × EdgeRec)) : List (Rat × Rat) :=
  (m2.filter (fun p => (lookup m1 p.1).isNone)).map (fun p => ((0 : Rat), p.2.len.getD 0))

/-- `_get_length_diffs` — two passes over the split → edge maps; a missing length (`None`) counts as 0 on a split
    the other tree lacks and on root edges, and is refused on a shared non-root split, **whichever tree it is in** -/
def lengthDiffs (m1 m2 : List (Int × EdgeRec)) : Option (List (Rat × Rat)) :=
  (pass1 m2 m1).map (· ++ pass2 m1 m2)

def wrfOf (ds : List (Rat × Rat)) : Rat := (ds.map (fun p => absR (p.1 - p.2))).sum
def euclidSqOf (ds : List (Rat × Rat)) : Rat := (ds.map (fun p => (p.1 - p.2) * (p.1 - p.2))).sum

def wrf (m1 m2 : List (Int × EdgeRec)) : Option Rat := (lengthDiffs m1 m2).map wrfOf
def euclidSq (m1 m2 : List (Int × EdgeRec)) : Option Rat := (lengthDiffs m1 m2).map euclidSqOf

/-- `find_missing_bipartitions(reference, comparison)`: splits of the reference absent from the comparison, in encoding order -/
def missing (ref cmp : List Int) : List Int := ref.filter (fun s => !cmp.contains s)

def renderRat (q : Rat) : String := if q.den == 1 then toString q.num else toString q.num ++ "/" ++ toString q.den

end DendroModel.C04
