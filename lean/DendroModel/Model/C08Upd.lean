import DendroModel.Model.C08
import DendroModel.Model.C01
/-! C08 — `update_bipartitions=True`: every in-place pruning routine ends with
`self.update_bipartitions(suppress_unifurcations=suppress_unifurcations)`, i.e. `encode_bipartitions` with the caller's suppress
flag and the default `collapse_unrooted_basal_bifurcation=True` (C01's model `encode` / `encodeTree`). -/
namespace DendroModel.C08
open DendroModel

/-- the re-encoding step: the tree after the side effects of `encode_bipartitions`, and the (leafset, split) pairs in post-order -/
def reencode (rooted : Option Bool) (sup : Bool) (r : T) : T × List (Nat × Int) :=
  (C01.encodeTree rooted sup true r, C01.encode rooted sup true r)

/-- `prune_taxa(taxa, update_bipartitions=True, suppress_unifurcations=sup)` on a tree with rooting state `rooted` -/
def pruneTaxaUpd (rooted : Option Bool) (P : Nat → Bool) (sup : Bool) (t : T) : Option (T × List (Nat × Int)) :=
  (pruneTaxa P true false sup t).map (reencode rooted sup)

/-- `retain_taxa(taxa, update_bipartitions=True, …)` -/
def retainTaxaUpd (rooted : Option Bool) (ns : List Nat) (K : Nat → Bool) (sup : Bool) (t : T) : Option (T × List (Nat × Int)) :=
  (retainTaxa ns K sup t).map (reencode rooted sup)

/-- `filter_leaf_nodes(filter_fn, recursive=True, update_bipartitions=True, …)` -/
def filterLeavesUpd (rooted : Option Bool) (acc : Acc) (sup : Bool) (t : T) : Option (T × List (Nat × Int)) :=
  (filterLeaves acc true sup t).map (fun r => reencode rooted sup r.1)

/-- `prune_subtree(node, update_bipartitions=True, …)` -/
def pruneSubtreeUpd (rooted : Option Bool) (i : Nat) (sup : Bool) (t : T) : T × List (Nat × Int) :=
  reencode rooted sup (pruneSubtree i sup t)

/-- `prune_leaves_without_taxa(recursive=True, update_bipartitions=True, …)` -/
def pruneLeavesWithoutTaxaUpd (rooted : Option Bool) (sup : Bool) (t : T) : Option (T × List (Nat × Int)) :=
  filterLeavesUpd rooted hasTaxon sup t

/-- `prune_taxa_with_labels(labels, update_bipartitions=True, …)` -/
def pruneWithLabelsUpd (rooted : Option Bool) (cs : Bool) (ns : Ns) (labels : List String) (sup : Bool) (t : T) :
    Option (T × List (Nat × Int)) :=
  (pruneWithLabels cs ns labels sup t).map (reencode rooted sup)

/-- `retain_taxa_with_labels(labels, update_bipartitions=True, …)` -/
def retainWithLabelsUpd (rooted : Option Bool) (cs : Bool) (ns : Ns) (labels : List String) (sup : Bool) (t : T) :
    Option (T × List (Nat × Int)) :=
  (retainWithLabels cs ns labels sup t).map (reencode rooted sup)

end DendroModel.C08
