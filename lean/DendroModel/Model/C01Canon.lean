import DendroModel.Model.C01
/-! C01 — the unrooted topology of a mask-labelled tree as a canonical rooted tree: the seed is moved, edge by edge, to the
node the leaf `k` hangs from (the harness takes `k` = lowest taxon bit of the tree).  Executable (Mathlib-free): the driver
prints it (op `ucanon`) and the harness compares it with its own graph-based canonical form of the real tree, so "same unrooted
topology" in the theorems means what the oracle means by it. -/
namespace DendroModel.C01
open DendroModel

/-- a component with a single member is that member (no unifurcation is ever created) -/
def wrap : List Hier.T → Hier.T
  | [x] => x
  | l => .node l

/-- a basal bifurcation has no meaning on an unrooted tree: dissolve the internal child (the second one if both are) -/
def collapse2 : Hier.T → Hier.T
  | .node [a, .node ds] => .node (ds ++ [a])
  | .node [.node ds, b] => .node (ds ++ [b])
  | t => t

mutual
/-- `reseed k t up`: `t` is the subtree that contains leaf `k`, `up` the rest of the tree as seen from `t`'s root (its other
    neighbours' subtrees).  Moves the seed down towards leaf `k`, one edge inversion per level. -/
def reseed (k : Nat) : Hier.T → List Hier.T → Hier.T
  | .leaf i, up => .node (.leaf i :: up)
  | .node cs, up => reseedL k [] cs up
/-- scan the children: `pre` scanned already (leaf `k` is not below them), `up` as above -/
def reseedL (k : Nat) (pre : List Hier.T) : List Hier.T → List Hier.T → Hier.T
  | [], up => .node (pre ++ [] ++ up)
  | .leaf i :: post, up =>
    if (1 <<< i : Nat).testBit k then .node (pre ++ (.leaf i :: post) ++ up)
    else reseedL k (pre ++ [.leaf i]) post up
  | .node ds :: post, up =>
    if (Hier.maskL ds).testBit k then reseed k (.node ds) [wrap (pre ++ (post ++ up))]
    else reseedL k (pre ++ [.node ds]) post up
end

/-- canonical seed position for the unrooted tree `t`: the seed is the node leaf `k` hangs from -/
def canonU (k : Nat) : Hier.T → Hier.T
  | .leaf i => .leaf i
  | .node cs => reseed k (collapse2 (.node cs)) []

/-- index of the lowest set bit (0 for 0) -/
def lowIdx (n : Nat) : Nat := ((List.range (n.log2 + 1)).find? (fun i => n.testBit i)).getD 0

def insertSortedStr (x : String) : List String → List String
  | [] => [x]
  | y :: ys => if x ≤ y then x :: y :: ys else y :: insertSortedStr x ys

mutual
/-- order-free rendering: children sorted as strings -/
def renderSorted : Hier.T → String
  | .leaf i => toString i
  | .node cs => "(" ++ ",".intercalate ((renderSortedL cs).foldr insertSortedStr []) ++ ")"
def renderSortedL : List Hier.T → List String
  | [] => []
  | c :: cs => renderSorted c :: renderSortedL cs
end

/-- what the driver prints for op `ucanon` -/
def ucanon (t : T) : String :=
  let h := Hier.sup (T.toH t)
  renderSorted (canonU (lowIdx (Hier.mask h)) h)

/-! ### a structural normal form: children ordered by their leafset mask (distinct among the children of a well-formed node) -/

def insertByMask (x : Hier.T) : List Hier.T → List Hier.T
  | [] => [x]
  | y :: ys => if Hier.mask x ≤ Hier.mask y then x :: y :: ys else y :: insertByMask x ys

def sortM (l : List Hier.T) : List Hier.T := l.foldr insertByMask []

mutual
/-- the same tree with the children of every node in increasing order of leafset mask -/
def csort : Hier.T → Hier.T
  | .leaf i => .leaf i
  | .node cs => .node (sortM (csortL cs))
def csortL : List Hier.T → List Hier.T
  | [] => []
  | c :: cs => csort c :: csortL cs
end

/-- the unrooted topology of `t` as ONE tree: re-seeded at the lowest leaf, children in mask order.  Two well-formed trees
    have the same `ucanonT` iff their `canonU`s are `Iso` (`Props/C01.lean: ucanonT_eq_iff_iso`) -/
def ucanonT (t : T) : Hier.T :=
  let h := Hier.sup (T.toH t)
  csort (canonU (lowIdx (Hier.mask h)) h)

/-- what the driver prints for op `ucanon2`: the plain structural rendering of `ucanonT` -/
def ucanon2 (t : T) : String := Hier.render (ucanonT t)

end DendroModel.C01
