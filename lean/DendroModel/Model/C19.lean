import DendroModel.Basic.Tree
/-! C19 — executable model of the row/column operations of `CharacterMatrix`
(`src/dendropy/datamodel/charmatrixmodel.py`), Mathlib-free; the driver `drv_c19` runs these definitions.

* `Rows` is `CharacterMatrix._taxon_sequence_map`: a dict in insertion order, as an association list
  (`set` replaces in place or appends, `del` removes the key).  A taxon is a number (global id), a cell is an
  opaque number (state identities / floats / `None` are carried opaquely).
* `subs` is `character_subsets`, an `OrderedCaselessDict`: ordered keys with their original casing, looked up
  through `lower`.
* Every Python loop is a structural recursion / fold over the list the loop iterates; the two `while` loops
  (`fill`: `while len(v) < size`, `concatenate`: `while cs_label in character_subsets`) are well-founded recursions
  **without fuel** — Lean accepting `padLoop` and `freeFrom` is the termination proof.  `freeFrom` is the loop of the
  repaired `concatenate` (`cs_label = "%s_%03d" % (new_label, i)`); the measure is the number of subset keys whose
  decimal suffix is `≥ i`.
* Value semantics: arguments cannot be changed by construction; aliasing is the harness's job. -/
namespace DendroModel.C19

abbrev Cell := Nat
abbrev Taxon := Nat
abbrev Row := List Cell
abbrev Rows := List (Taxon × Row)
abbrev Label := List Char

inductive Err where
  | valueError | keyError | indexError
deriving DecidableEq, Repr

structure Matrix where
  ns : Nat                         -- identity of the taxon namespace
  taxa : List Taxon                -- members of the namespace, in namespace order
  label : Option Label
  rows : Rows
  subs : List (Label × List Nat)   -- character subsets: label, column indices ascending
deriving Repr

/-! ## the dict `_taxon_sequence_map` -/

def get? (t : Taxon) : Rows → Option Row
  | [] => none
  | (k, r) :: rest => if k = t then some r else get? t rest

def has (t : Taxon) (rs : Rows) : Bool := (get? t rs).isSome

/-- `d[t] = r` : replace in place, or append -/
def set (t : Taxon) (r : Row) : Rows → Rows
  | [] => [(t, r)]
  | (k, v) :: rest => if k = t then (k, r) :: rest else (k, v) :: set t r rest

/-- `del d[t]` -/
def del (t : Taxon) (rs : Rows) : Rows := rs.filter (fun kv => kv.1 != t)

def keys (rs : Rows) : List Taxon := rs.map Prod.fst

/-- the row of a taxon, empty when it has none (what the statement calls "its sequence") -/
def rowOf (t : Taxon) (rs : Rows) : Row := (get? t rs).getD []

/-! ## row set algebra: each is the loop `for taxon in other_matrix._taxon_sequence_map: …` -/

def addSeqs (s o : Rows) : Rows :=
  o.foldl (fun acc kv => if has kv.1 acc then acc else set kv.1 kv.2 acc) s

def replaceSeqs (s o : Rows) : Rows :=
  o.foldl (fun acc kv => if has kv.1 acc then set kv.1 kv.2 acc else acc) s

def updateSeqs (s o : Rows) : Rows :=
  o.foldl (fun acc kv => set kv.1 kv.2 acc) s

def extendSeqs (addNew : Bool) (s o : Rows) : Rows :=
  o.foldl (fun acc kv =>
    if !(has kv.1 acc) then (if !addNew then acc else set kv.1 kv.2 acc)
    else set kv.1 (rowOf kv.1 acc ++ kv.2) acc) s

def extendMatrix (s o : Rows) : Rows :=
  o.foldl (fun acc kv =>
    if has kv.1 acc then set kv.1 (rowOf kv.1 acc ++ kv.2) acc else set kv.1 kv.2 acc) s

/-- `remove_sequences`: `del` one after the other; the first missing key raises `KeyError` and leaves the
    earlier deletions in place (the rows are returned in both cases) -/
def removeSeqs : List Taxon → Rows → Rows × Option Err
  | [], rs => (rs, none)
  | t :: ts, rs => if has t rs then removeSeqs ts (del t rs) else (rs, some .keyError)

def discardSeqs (taxa : List Taxon) (rs : Rows) : Rows :=
  taxa.foldl (fun acc t => if has t acc then del t acc else acc) rs

/-- `for taxon in tuple(keys): if taxon not in to_keep: del` -/
def keepSeqs (taxa : List Taxon) (rs : Rows) : Rows :=
  (keys rs).foldl (fun acc k => if taxa.contains k then acc else del k acc) rs

/-! ## padding -/

/-- `while len(v) < size: v.append(value)` / `v.insert(0, value)` — no fuel -/
def padLoop (value : Cell) (size : Nat) (append : Bool) (v : Row) : Row :=
  if v.length < size then padLoop value size append (if append then v ++ [value] else value :: v) else v
termination_by size - v.length
decreasing_by all_goals (split <;> simp <;> omega)

/-- `for k in self: v = self[k]; …` — iteration is over the namespace, restricted to taxa that have a row -/
def mapNsRows (f : Row → Row) (taxa : List Taxon) (rs : Rows) : Rows :=
  taxa.foldl (fun acc t => match get? t acc with
    | some r => set t (f r) acc
    | none => acc) rs

/-- `max_sequence_size` -/
def maxLen (taxa : List Taxon) (rs : Rows) : Nat :=
  taxa.foldl (fun mx t => match get? t rs with
    | some r => if r.length > mx then r.length else mx
    | none => mx) 0

def fillSize (size : Option Nat) (taxa : List Taxon) (rs : Rows) : Nat :=
  match size with
  | some s => s
  | none => maxLen taxa rs

def fillRows (value : Cell) (size : Option Nat) (append : Bool) (taxa : List Taxon) (rs : Rows) : Rows :=
  mapNsRows (padLoop value (fillSize size taxa rs) append) taxa rs

/-- `fill_taxa` -/
def fillTaxa (taxa : List Taxon) (rs : Rows) : Rows :=
  taxa.foldl (fun acc t => if has t acc then acc else set t [] acc) rs

def packRows (value : Cell) (size : Option Nat) (append : Bool) (taxa : List Taxon) (rs : Rows) : Rows :=
  fillRows value size append taxa (fillTaxa taxa rs)

/-! ## column selection -/

/-- `for cell_idx in range(len(vec)-1, -1, -1): if cell_idx not in indices: del vec[cell_idx]`
    (`n` = number of indices still to visit; the index visited is `n - 1`) -/
def delLoop (keep : Nat → Bool) : Nat → Row → Row
  | 0, v => v
  | n + 1, v => delLoop keep n (if keep n then v else v.eraseIdx n)

def inIdx (idx : List Int) (i : Nat) : Bool := idx.contains (i : Int)

def exportRow (idx : List Int) (v : Row) : Row := delLoop (inIdx idx) v.length v

/-- `export_character_indices`: deep copy, subsets cleared, every row visited by `clone.values()` filtered -/
def exportIdx (m : Matrix) (idx : List Int) : Matrix :=
  { m with rows := mapNsRows (exportRow idx) m.taxa m.rows, subs := [] }

/-! ## `OrderedCaselessDict` of subsets -/

def lower (l : Label) : Label := l.map Char.toLower

def hasSub (subs : List (Label × List Nat)) (lab : Label) : Bool :=
  subs.any (fun s => lower s.1 == lower lab)

def findSub (subs : List (Label × List Nat)) (lab : Label) : Option (List Nat) :=
  (subs.find? (fun s => lower s.1 == lower lab)).map Prod.snd

def exportSub (m : Matrix) (lab : Label) : Except Err Matrix :=
  match findSub m.subs lab with
  | none => .error .keyError
  | some idx => .ok (exportIdx m (idx.map Int.ofNat))

/-! ## decimal rendering `%03d`, least significant digit first, and its inverse -/

def digitChar (d : Nat) : Char := Char.ofNat (48 + d)

def digitsRev (n : Nat) : List Char :=
  if n < 10 then [digitChar n] else digitChar (n % 10) :: digitsRev (n / 10)
termination_by n
decreasing_by omega

def valRev : List Char → Nat
  | [] => 0
  | c :: cs => (c.toNat - 48) + 10 * valRev cs

def pad3Rev (n : Nat) : List Char :=
  digitsRev n ++ List.replicate (3 - (digitsRev n).length) '0'

/-- `"%03d" % n` -/
def pad3 (n : Nat) : List Char := (pad3Rev n).reverse

/-- `"%s_%03d" % (base, i)` -/
def cand (base : Label) (i : Nat) : Label := base ++ '_' :: pad3 i

/-- the number written by the trailing digits of a key -/
def sufNum (k : Label) : Nat := valRev (k.reverse.takeWhile Char.isDigit)

theorem digitChar_props (d : Nat) (h : d < 10) :
    (digitChar d).toNat - 48 = d ∧ (digitChar d).isDigit = true ∧ (digitChar d).toLower = digitChar d := by
  have : d = 0 ∨ d = 1 ∨ d = 2 ∨ d = 3 ∨ d = 4 ∨ d = 5 ∨ d = 6 ∨ d = 7 ∨ d = 8 ∨ d = 9 := by omega
  rcases this with h | h | h | h | h | h | h | h | h | h <;> subst h <;> decide

theorem valRev_digitsRev (n : Nat) : valRev (digitsRev n) = n := by
  induction n using Nat.strongRecOn with
  | _ n ih =>
    rw [digitsRev]
    split
    · next h => simp [valRev, (digitChar_props n h).1]
    · next h =>
      have h1 := (digitChar_props (n % 10) (Nat.mod_lt _ (by omega))).1
      simp only [valRev, h1, ih (n / 10) (by omega)]
      omega

theorem digitsRev_all (n : Nat) : ∀ c ∈ digitsRev n, c.isDigit = true ∧ c.toLower = c := by
  induction n using Nat.strongRecOn with
  | _ n ih =>
    rw [digitsRev]
    split
    · next h =>
      intro c hc
      simp at hc
      subst hc
      exact (digitChar_props n h).2
    · next h =>
      intro c hc
      simp at hc
      rcases hc with hc | hc
      · subst hc
        exact (digitChar_props (n % 10) (Nat.mod_lt _ (by omega))).2
      · exact ih (n / 10) (by omega) c hc

theorem valRev_append_zeros (l : List Char) (k : Nat) : valRev (l ++ List.replicate k '0') = valRev l := by
  induction l with
  | nil =>
    induction k with
    | zero => simp [valRev]
    | succ k ih =>
      simp only [List.nil_append] at ih
      simp [List.replicate_succ, valRev, ih]
  | cons c cs ih => simp [valRev, ih]

theorem pad3Rev_all (n : Nat) : ∀ c ∈ pad3Rev n, c.isDigit = true ∧ c.toLower = c := by
  intro c hc
  simp only [pad3Rev, List.mem_append, List.mem_replicate] at hc
  rcases hc with hc | ⟨_, hc⟩
  · exact digitsRev_all n c hc
  · subst hc; decide

theorem valRev_pad3Rev (n : Nat) : valRev (pad3Rev n) = n := by
  simp [pad3Rev, valRev_append_zeros, valRev_digitsRev]

theorem takeWhile_prefix (p : Char → Bool) (l : List Char) (x : Char) (r : List Char)
    (hl : ∀ c ∈ l, p c = true) (hx : p x = false) : (l ++ x :: r).takeWhile p = l := by
  induction l with
  | nil => simp [hx]
  | cons c cs ih =>
    have hc := hl c (by simp)
    simp only [List.cons_append, List.takeWhile_cons, hc, if_true]
    rw [ih (fun c hc => hl c (by simp [hc]))]

theorem map_lower_id (l : List Char) (h : ∀ c ∈ l, c.toLower = c) : l.map Char.toLower = l := by
  induction l with
  | nil => rfl
  | cons c cs ih => simp [h c (by simp), ih (fun c hc => h c (by simp [hc]))]

/-- the key under which candidate `i` is looked up carries the number `i` -/
theorem sufNum_lower_cand (base : Label) (i : Nat) : sufNum (lower (cand base i)) = i := by
  have hlow : (pad3 i).map Char.toLower = pad3 i := by
    apply map_lower_id
    intro c hc
    exact (pad3Rev_all i c (by simpa [pad3] using hc)).2
  have h1 : lower (cand base i) = lower base ++ '_' :: pad3 i := by
    simp only [lower, cand, List.map_append, List.map_cons, hlow]
    rfl
  rw [sufNum, h1]
  simp only [List.reverse_append, List.reverse_cons, pad3, List.reverse_reverse, List.append_assoc,
    List.singleton_append]
  rw [takeWhile_prefix Char.isDigit (pad3Rev i) '_' _ (fun c hc => (pad3Rev_all i c hc).1) (by decide)]
  exact valRev_pad3Rev i

theorem filter_length_lt {α} (p q : α → Bool) (l : List α) (himp : ∀ a, q a = true → p a = true)
    (x : α) (hx : x ∈ l) (hpx : p x = true) (hqx : q x = false) :
    (l.filter q).length < (l.filter p).length := by
  induction l with
  | nil => simp at hx
  | cons a as ih =>
    have hle : (as.filter q).length ≤ (as.filter p).length := by
      clear ih hx
      induction as with
      | nil => simp
      | cons b bs ihb =>
        by_cases hq : q b = true
        · simp [hq, himp b hq]; exact ihb
        · by_cases hp : p b = true <;> simp [hq, hp] <;> omega
    simp only [List.mem_cons] at hx
    rcases hx with hx | hx
    · subst hx
      simp [hpx, hqx]; omega
    · have := ih hx
      by_cases hq : q a = true
      · simp [hq, himp a hq]; exact this
      · by_cases hp : p a = true <;> simp [hq, hp] <;> omega

/-- number of subset keys whose decimal suffix is at least `i` -/
def pending (subs : List (Label × List Nat)) (i : Nat) : Nat :=
  (subs.filter (fun s => decide (i ≤ sufNum (lower s.1)))).length

theorem pending_decreases (subs : List (Label × List Nat)) (base : Label) (i : Nat)
    (h : hasSub subs (cand base i) = true) : pending subs (i + 1) < pending subs i := by
  simp only [hasSub, List.any_eq_true, beq_iff_eq] at h
  obtain ⟨s, hs, heq⟩ := h
  have hn : sufNum (lower s.1) = i := by rw [heq]; exact sufNum_lower_cand base i
  apply filter_length_lt _ _ subs _ s hs
  · simp [hn]
  · simp [hn]
  · intro a ha
    simp only [decide_eq_true_eq] at ha ⊢
    omega

/-- the loop of the repaired `concatenate`:
    `while cs_label in subsets: cs_label = "%s_%03d" % (new_label, i); i += 1`, entered with `cs_label = cand base i`.
    No fuel: accepted by Lean because every taken candidate lowers `pending`. -/
def freeFrom (subs : List (Label × List Nat)) (base : Label) (i : Nat) : Label :=
  if h : hasSub subs (cand base i) = true then freeFrom subs base (i + 1) else cand base i
termination_by pending subs i
decreasing_by exact pending_decreases subs base i h

def freeName (subs : List (Label × List Nat)) (base : Label) : Label :=
  if hasSub subs base then freeFrom subs base 2 else base

/-! ## `concatenate` -/

def vectorSize (rs : Rows) : Nat :=
  match rs with
  | [] => 0
  | (_, r) :: _ => r.length

/-- `cm.items()` -/
def items (taxa : List Taxon) (rs : Rows) : List (Taxon × Row) :=
  taxa.filterMap (fun t => (get? t rs).map (fun r => (t, r)))

def locus (cidx : Nat) : Label := "locus".toList ++ pad3 cidx

structure CState where
  acc : Rows
  subs : List (Label × List Nat)
  pos : Nat

/-- `new_label`: the matrix's label, or `"locus%03d" % cidx` -/
def baseLabel (cm : Matrix) (cidx : Nat) : Label :=
  match cm.label with
  | none => locus cidx
  | some l => l

/-- one round of `for cidx, cm in enumerate(char_matrices)` -/
def concatStep (ns : Nat) (taxa : List Taxon) (nseqs : Nat) (st : CState) (cidx : Nat) (cm : Matrix) :
    Except Err CState :=
  if cm.ns ≠ ns then .error .valueError
  else if cm.rows.length ≠ taxa.length then .error .valueError
  else if cm.rows.length ≠ nseqs then .error .valueError
  else match taxa with
    | [] => .error .indexError                       -- `cm[0]` on an empty namespace
    | t0 :: _ =>
      if (items taxa cm.rows).any (fun p => p.2.length != (rowOf t0 cm.rows).length) then .error .valueError
      else
        -- `add_character_subset` refuses a taken label
        if hasSub st.subs (freeName st.subs (baseLabel cm cidx)) then .error .valueError
        else
          .ok { acc := extendMatrix st.acc cm.rows,
                subs := st.subs ++ [(freeName st.subs (baseLabel cm cidx), List.range' st.pos (vectorSize cm.rows))],
                pos := st.pos + vectorSize cm.rows }

def concatLoop (ns : Nat) (taxa : List Taxon) (nseqs : Nat) : CState → Nat → List Matrix → Except Err CState
  | st, _, [] => .ok st
  | st, cidx, cm :: rest =>
    match concatStep ns taxa nseqs st cidx cm with
    | .error e => .error e
    | .ok st' => concatLoop ns taxa nseqs st' (cidx + 1) rest

def concatenate : List Matrix → Except Err Matrix
  | [] => .error .indexError
  | m0 :: rest =>
    match concatLoop m0.ns m0.taxa m0.rows.length ⟨[], [], 0⟩ 0 (m0 :: rest) with
    | .error e => .error e
    | .ok st => .ok { ns := m0.ns, taxa := m0.taxa, label := none, rows := st.acc, subs := st.subs }

/-! ## the methods, with their namespace guard -/

def rowOp (f : Rows → Rows → Rows) (self other : Matrix) : Except Err Matrix :=
  if other.ns ≠ self.ns then .error .valueError else .ok { self with rows := f self.rows other.rows }

end DendroModel.C19
