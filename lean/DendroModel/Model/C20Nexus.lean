import DendroModel.Model.C20Lines
/-! C20 — `NexusReader`: the block loop and the statement loops, on the unread input, in the *repaired* control flow
(end of stream inside a block or statement raises `UnexpectedEndOfStreamError`; `LINK` advances on unknown keys;
the matrix rows must have the declared number of characters; a `TREE` statement without a tree is an error).

Every Python loop is an application of `iter`: the body runs once and says whether to go on; going on is only
allowed on a strictly shorter input, otherwise the result is `internal` (no loop of the model can spin).
Local variables of the Python functions live in registers of the reader state (`btok`, `stok`, …). -/
namespace DendroModel.C20
open DendroModel

inductive Stop where
  | parse (e : PErr)
  | internal (w : String)       -- a loop of the model asked to continue without having consumed input (`iter`); `nexus_never_internal` shows it unreachable
  | fuel                        -- the budget of loop rounds (`RS.fuel`, set by `readNexus` to `nexusFuel |text|`) is used up; `nexus_fuel_suffices` shows it unreachable

abbrev R := Except Stop

inductive DT where
  | dna | rna | nucleotide | protein | continuous | standard
deriving Repr, DecidableEq

structure Tns where
  title : Option (List Char)
  labels : List (List Char)

/-- accepted state symbols of the library's fixed alphabets (data handed over by the harness) -/
structure Syms where
  dna : List Char
  rna : List Char
  nuc : List Char
  prot : List Char

structure RS where
  rest : List Char
  cfg : Cfg := {}
  cur : Option (List Char) := none        -- tokenizer.current_token
  quoted : Bool := false                  -- tokenizer.is_token_quoted
  ntax : Option Nat := none               -- _file_specified_ntax
  nchar : Option Nat := none              -- _file_specified_nchar
  blockNtax : Option Nat := none          -- _block_specified_ntax (NTAX of the CHARACTERS/DATA block's own DIMENSIONS)
  tns : List Tns := []
  mats : List (List Nat) := []            -- row lengths of the finished matrices
  matTitles : List (Option (List Char)) := []
  treeLists : List Nat := []              -- number of trees per tree list
  dataType : DT := .standard
  symbols : List Char := []
  gap : List Char := ['-']
  missing : List Char := ['?']
  matchc : List (List Char) := [['.']]
  interleave : Bool := false
  -- registers (local variables of the Python functions)
  btok : Option (List Char) := none       -- `token` of the block-level loops
  stok : List Char := []                  -- `token` of the statement-level loops (always a `str`: read with `require_next_token`) / return value of a statement parser
  blockTitle : Option (List Char) := none
  linkTitle : Option (List Char) := none
  linkTaxa : Option (List Char) := none
  linkChars : Option (List Char) := none
  nsIdx : Option Nat := none              -- `taxon_namespace` local of the TAXA / TREES block
  mapper : Mapper := {}                   -- `taxon_symbol_mapper` of the TREES block …
  hasMapper : Bool := false               -- … and whether it `is not None`
  nsMutable : Bool := true
  treesBlock : Bool := false              -- `trees_block is not None`
  rows : List (Nat × Nat) := []           -- current matrix: (taxon index, cells)
  first : Option Nat := none              -- first_sequence_defined (position in `rows`)
  added : Nat := 0                        -- len(states_to_add)
  multi : List Char := []                 -- multistate_tokens joined
  terminated : Bool := false              -- BlockTerminatedException in flight
  ptok : Option (List Char) := none       -- `token` of `_parse_positions`
  positions : List Nat := []              -- `positions` of `_parse_positions`
  charsets : List (Nat × List Char × Nat) := []   -- character subsets: (matrix, lower-cased name, number of positions)
  fuel : Nat := 0                         -- ghost of the model: how many more loop rounds (of any loop, at any nesting) may be started

def RS.eof (s : RS) : Bool := s.rest.isEmpty

def perr (e : PErr) : R α := .error (.parse e)

/-- every loop of the reader: each round (also the last one) takes one unit of `fuel`; run `body`; if it asks to
continue, the input must have become shorter -/
def iter (body : RS → R (Bool × RS)) (s : RS) : R RS :=
  if s.fuel = 0 then .error .fuel else
  match body { s with fuel := s.fuel - 1 } with
  | .error e => .error e
  | .ok (false, s') => .ok s'
  | .ok (true, s') =>
    if s'.rest.length < s.rest.length then iter body s' else .error (.internal "loop without progress")
termination_by s.rest.length

/-- `next_token()` : `None` at end of stream -/
def nextTok (s : RS) : R (Option (List Char) × RS) :=
  match nextT s.cfg s.rest with
  | .eof => .ok (none, { s with rest := [], cur := none, quoted := false })
  | .unterminated => perr .unterminated
  | .tok t q rest => .ok (some t, { s with rest := rest, cur := some t, quoted := q })

/-- `require_next_token()` -/
def requireTok (s : RS) : R (List Char × RS) :=
  match nextT s.cfg s.rest with
  | .eof => perr .eos
  | .unterminated => perr .unterminated
  | .tok t q rest => .ok (t, { s with rest := rest, cur := some t, quoted := q })

/-- `next_token_ucase()` -/
def nextUcase (s : RS) : R (Option (List Char) × RS) := do
  let (t, s) ← nextTok s
  match t with
  | none => pure (none, s)
  | some t => pure (some (upper t), { s with cur := some (upper t) })

/-- `require_next_token_ucase()` -/
def requireUcase (s : RS) : R (List Char × RS) := do
  let (t, s) ← requireTok s
  pure (upper t, { s with cur := some (upper t) })

def kw (w : String) : List Char := w.toList
def isEnd (t : Option (List Char)) : Bool := t == some (kw "END") || t == some (kw "ENDBLOCK")
/-- Python truthiness of a token: `None` and `""` are false -/
def truthy (t : Option (List Char)) : Bool := match t with | none => false | some [] => false | some _ => true

/-- `skip_to_semicolon()` -/
def skipToSemi (s : RS) : R RS :=
  iter (fun s => do
    let (t, s) ← nextTok s
    pure (!(t == some semi.text) && !s.eof && t.isSome, s)) s

/-- `_consume_to_end_of_block(token)` -/
def consumeToEnd (token : Option (List Char)) (s : RS) : R RS :=
  let t0 := if truthy token then token.map upper else some (kw "DUMMY")
  iter (fun s => do
    if isEnd s.btok || s.eof || s.btok.isNone then pure (false, s)
    else
      let s ← skipToSemi s
      let (t, s) ← nextUcase s
      pure (true, { s with btok := t })) { s with btok := t0 }

/-- `_parse_title_statement()`; the title is left in `stok` -/
def parseTitle (s : RS) : R RS := do
  let (title, s) ← requireTok s
  let (sc, s) ← requireTok s
  if sc != semi.text then perr .nexus else pure { s with stok := title }

/-- `_parse_dimensions_statement()` -/
def parseDimensions (s : RS) : R RS := do
  let (t, s) ← requireUcase s
  let s ← iter (fun s => do
    if s.stok == semi.text then pure (false, s)
    else
      let s ← (do
        if s.stok == kw "NTAX" then
          let (t, s) ← requireUcase s
          if t == ['='] then
            let (t, s) ← requireUcase s
            if isDigitStr t then pure { s with ntax := some (natOfDigits t) } else perr .nexus
          else perr .nexus
        else if s.stok == kw "NCHAR" then
          let (t, s) ← requireUcase s
          if t == ['='] then
            let (t, s) ← requireUcase s
            if isDigitStr t then pure { s with nchar := some (natOfDigits t) } else perr .nexus
          else perr .nexus
        else if s.stok == kw "BEGIN" then perr .nexus
        else pure s : R RS)
      let (t, s) ← requireUcase s
      pure (true, { s with stok := t })) { s with stok := t }
  pure s

def setLabels (tns : List Tns) (i : Nat) (labels : List (List Char)) : List Tns :=
  tns.mapIdx (fun j t => if j == i then { t with labels := labels } else t)

def labelsOf (tns : List Tns) (i : Nat) : List (List Char) := ((tns[i]?).map (·.labels)).getD []

def hasLabel (labels : List (List Char)) (l : List Char) : Bool := labels.any (fun x => lower x == lower l)

/-- `_parse_taxlabels_statement(taxon_namespace)` (repaired: `require_next_token`, no limit without NTAX) -/
def parseTaxlabels (i : Nat) (s : RS) : R RS := do
  let (t, s) ← requireTok s
  iter (fun s => do
    let label := s.stok
    if label == semi.text && !s.quoted then pure (false, s)      -- a quoted ';' is a label
    else
      let labels := labelsOf s.tns i
      let s ← (if hasLabel labels label then pure s
               else if (match s.ntax with | some n => decide (labels.length ≥ n) | none => false) then perr .tooManyTaxa   -- TooManyTaxaError
               else pure { s with tns := setLabels s.tns i (labels ++ [label]) } : R RS)
      let (t, s) ← requireTok s
      pure (true, { s with stok := t })) { s with stok := t }

/-- `_parse_link_statement()` (repaired); results in `linkTaxa` / `linkChars` -/
def parseLink (s : RS) : R RS := do
  let (t, s) ← requireUcase s
  iter (fun s => do
    if s.stok == semi.text then pure (false, s)
    else if s.stok == kw "TAXA" then
      let (t, s) ← requireTok s
      if t != ['='] then perr .nexus else
      let (v, s) ← requireTok s
      let (t, s) ← requireUcase s
      pure (true, { s with linkTaxa := some v, stok := t })
    else if s.stok == kw "CHARACTERS" then
      let (t, s) ← requireTok s
      if t != ['='] then perr .nexus else
      let (v, s) ← requireTok s
      let (t, s) ← requireUcase s
      pure (true, { s with linkChars := some v, stok := t })
    else
      let (t, s) ← requireUcase s
      pure (true, { s with stok := t })) { s with stok := t, linkTaxa := none, linkChars := none }

/-- `_get_taxon_namespace(title)` : index of the namespace (a new one is appended when none exists and no title is given) -/
def getTns (title : Option (List Char)) (s : RS) : R (Nat × RS) :=
  match title with
  | none =>
    if s.tns.length == 0 then pure (0, { s with tns := [{ title := none, labels := [] }] })
    else if s.tns.length == 1 then pure (0, s)
    else perr .nexus                                         -- LinkRequiredError
  | some title =>
    let found := (List.range s.tns.length).filter (fun j =>
      match (s.tns[j]?).bind (·.title) with
      | some l => upper l == upper title
      | none => false)
    match found with
    | [j] => pure (j, s)
    | _ => perr .nexus                                       -- UndefinedBlockError / MultipleBlockWithSameTitleError

/-! ### TAXA -/
def taxaBlock (s : RS) : R RS := do
  let s ← skipToSemi s
  let s ← iter (fun s => do
    if isEnd s.btok then pure (false, s)
    else
      let (t, s) ← requireUcase s
      let s := { s with btok := some t }
      let s ← (if s.btok == some (kw "TITLE") then do
                 let s ← parseTitle s
                 pure { s with btok := some s.stok, tns := s.tns ++ [{ title := some s.stok, labels := [] }], nsIdx := some s.tns.length }
               else pure s : R RS)
      let s ← (if s.btok == some (kw "DIMENSIONS") then parseDimensions s else pure s : R RS)
      let s ← (if s.btok == some (kw "TAXLABELS") then do
                 let s := if s.nsIdx.isSome then s
                   else { s with tns := s.tns ++ [{ title := none, labels := [] }], nsIdx := some s.tns.length }
                 parseTaxlabels (s.nsIdx.getD 0) s
               else pure s : R RS)
      pure (!isEnd s.btok, s)) { s with btok := some [], nsIdx := none }
  skipToSemi s

/-! ### TREES -/
def findLabel (labels : List (List Char)) (l : List Char) : Option Nat := idxOf (fun x => lower x == lower l) labels 0

def ensureNs (s : RS) : R RS :=
  match s.nsIdx with
  | some _ => pure s
  | none => do
    let (i, s) ← getTns s.linkTitle s
    pure { s with nsIdx := some i }

def ensureMapper (s : RS) : RS :=
  if s.hasMapper then s
  else { s with mapper := Mapper.ofNamespace (labelsOf s.tns (s.nsIdx.getD 0)) true, hasMapper := true, nsMutable := false }

/-- `_parse_translate_statement` (repaired: `require_next_token` for the token and the label, one mapper per block) -/
def parseTranslate (s : RS) : R RS := do
  let s := ensureMapper s
  let s := if s.ntax.isNone then { s with nsMutable := true } else s
  iter (fun s => do
    let (tt, s) ← requireTok s
    if tt == semi.text && !s.quoted then perr .nexus else
    let (tl, s) ← requireTok s
    let m := s.mapper
    let r : R (Nat × Mapper) := match findLabel m.ns tl with
      | some j => pure (j, m)
      | none => if s.nsMutable then pure (m.ns.length, { m with ns := m.ns ++ [tl] }) else perr .undefinedTaxon   -- UndefinedTaxonError
    let (j, m) ← r
    let m := { m with tokens := (lower tt, j) :: m.tokens }
    let s := { s with mapper := m }
    let (t, s) ← nextTok s
    if !truthy t || t == some semi.text then pure (false, s)
    else if t != some comma.text then perr .nexus
    else pure (true, s)) s

/-- `NexusReader._parse_tree_statement` + the Newick statement parser (repaired: no tree → error) -/
def parseTreeStatement (s : RS) : R RS := do
  let (t, s) ← nextTok s
  let (t, s) ← (if t == some ['*'] then nextTok s else pure (t, s) : R (Option (List Char) × RS))
  let _name := t
  let (t, s) ← nextTok s
  if t != some ['='] then perr .nexus else
  let (_, s) ← nextTok s
  let m := s.mapper
  match parseStatement s.cfg (s.cur.map (fun t => ⟨t, s.quoted⟩)) s.rest true m with
  | .none_ => perr .eos
  | .err e => perr e
  | .tree _ next rest' m' _ =>
    pure { s with cur := next.map (·.text), quoted := (next.map (·.quoted)).getD false, rest := rest', mapper := m',
                  nsMutable := if m'.ns.length > m.ns.length then false else s.nsMutable,
                  treeLists := match s.treeLists.reverse with
                    | [] => []
                    | n :: r => ((n + 1) :: r).reverse }

/-- `trees_block = self._new_tree_list(...)` at the first TREE statement of the block -/
def startTreeList (s : RS) : RS :=
  if s.treesBlock then s else { s with treesBlock := true, treeLists := s.treeLists ++ [0] }

/-- the mapper dies with the block: its namespace keeps the taxa it created -/
def closeMapper (s : RS) : RS :=
  match s.hasMapper, s.nsIdx with
  | true, some i => { s with tns := setLabels s.tns i s.mapper.ns, mapper := {}, hasMapper := false }
  | _, _ => s

def treesBlock (s : RS) : R RS := do
  let s ← skipToSemi s
  let s ← iter (fun s => do
    if s.eof || s.btok.isNone || isEnd s.btok then pure (false, s)
    else
      let (t, s) ← nextUcase s
      let s := { s with btok := t }
      if t == some (kw "LINK") then do
        let s ← parseLink s
        pure (true, { s with linkTitle := s.linkTaxa })
      else if t == some (kw "TITLE") then do
        let s ← parseTitle s
        pure (true, { s with blockTitle := some s.stok, btok := some [] })
      else if t == some (kw "TRANSLATE") then do
        let s ← ensureNs s
        let s ← parseTranslate s
        pure (true, { s with btok := some [] })
      else if t == some (kw "TREE") then do
        let s ← ensureNs s
        let s := startTreeList (ensureMapper s)
        let s ← iter (fun s => do
          let s ← parseTreeStatement s
          if s.eof || !truthy s.cur then pure (false, s)
          else if (s.cur.map upper) != some (kw "TREE") then pure (false, { s with cur := s.cur.map upper, btok := s.cur.map upper })
          else pure (true, { s with cur := s.cur.map upper })) s
        pure (true, s)
      else if t == some (kw "BEGIN") then perr .nexus
      else pure (true, s)) { s with linkTitle := none, nsIdx := none, mapper := {}, hasMapper := false, nsMutable := true, treesBlock := false, blockTitle := none }
  skipToSemi (closeMapper s)

/-! ### CHARACTERS / DATA -/
/-- Python `t in l` for strings -/
def isInfix (t l : List Char) : Bool := (List.range (l.length + 1)).any (fun i => (l.drop i).take t.length == t)

/-- the data type a DATATYPE keyword selects (`none`: not a keyword the reader knows).  The regenerated table
`C20Consts.datatypeTable` is shown equal to this function by `datatype_bridge`. -/
def dtOfKeyword (t : List Char) : Option DT :=
  if t == kw "DNA" || t == kw "NUCLEOTIDES" then some .dna
  else if t == kw "RNA" then some .rna
  else if t == kw "NUCLEOTIDE" then some .nucleotide
  else if t == kw "PROTEIN" then some .protein
  else if t == kw "CONTINUOUS" then some .continuous
  else none

/-- the library's name of a data type (`self._data_type`) -/
def DT.name : DT → String
  | .dna => "dna" | .rna => "rna" | .nucleotide => "nucleotide" | .protein => "protein"
  | .continuous => "continuous" | .standard => "standard"

/-- FORMAT … DATATYPE = x -/
def fmtDatatype (s : RS) : R (Bool × RS) := do
  let (t, s) ← requireUcase s
  if t != ['='] then perr .nexus else
  let (t, s) ← requireUcase s
  -- any other keyword: STANDARD, and the symbols are reset to the digits
  let s := { s with dataType := (dtOfKeyword t).getD .standard,
                    symbols := if (dtOfKeyword t).isSome then s.symbols else kw "0123456789" }
  let (t, s) ← requireUcase s
  pure (true, { s with stok := t })

/-- the loop over the tokens between the double quotes of SYMBOLS -/
def fmtSymbolsLoop (s : RS) : R RS :=
  iter (fun s => do
    let t := s.stok
    if t == ['"'] then pure (false, s)
    else
      let s := if isInfix t s.symbols then s else { s with symbols := s.symbols ++ t }
      let (t, s) ← requireUcase s
      pure (true, { s with stok := t })) s

/-- FORMAT … SYMBOLS = " … " -/
def fmtSymbols (s : RS) : R (Bool × RS) := do
  let (t, s) ← requireUcase s
  if t != ['='] then perr .nexus else
  let (t, s) ← requireUcase s
  if t != ['"'] then perr .nexus else
  let (t, s) ← requireUcase s
  let s ← fmtSymbolsLoop { s with symbols := [], stok := t }
  let (t, s) ← requireUcase s
  pure (true, { s with stok := t })

/-- FORMAT … GAP = x / MISSING = x / MATCHCHAR = x -/
def fmtAssign (field : Nat) (s : RS) : R (Bool × RS) := do
  let (t, s) ← requireUcase s
  if t != ['='] then perr .nexus else
  let (v, s) ← requireUcase s
  let (t, s) ← requireUcase s
  let s := if field == 0 then { s with gap := v } else if field == 1 then { s with missing := v } else { s with matchc := [v, lower v] }
  pure (true, { s with stok := t })

/-- FORMAT … INTERLEAVE [= x] -/
def fmtInterleave (s : RS) : R (Bool × RS) := do
  let (t, s) ← requireUcase s
  if t == ['='] then
    let (v, s) ← requireUcase s
    let (t, s) ← requireUcase s
    pure (true, { s with interleave := !(v.head? == some 'N'), stok := t })
  else pure (true, { s with interleave := true, stok := t })

/-- `_parse_format_statement()` -/
def parseFormat (s : RS) : R RS := do
  let (t, s) ← requireUcase s
  iter (fun s => do
    if s.stok == semi.text then pure (false, s)
    else if s.stok == kw "DATATYPE" then fmtDatatype s
    else if s.stok == kw "SYMBOLS" then fmtSymbols s
    else if s.stok == kw "GAP" then fmtAssign 0 s
    else if s.stok == kw "INTERLEAVE" then fmtInterleave s
    else if s.stok == kw "MISSING" then fmtAssign 1 s
    else if s.stok == kw "MATCHCHAR" then fmtAssign 2 s
    else if s.stok == kw "BEGIN" then perr .nexus
    else
      let (t, s) ← requireUcase s
      pure (true, { s with stok := t })) { s with stok := t }

def rowLen (s : RS) (r : Nat) : Nat := ((s.rows[r]?).map (·.2)).getD 0

/-- two symbols of a case-insensitive alphabet collide (`_validate_new_symbol` raises `ValueError`) -/
def clash : List (List Char) → Bool
  | [] => false
  | x :: xs => xs.any (fun y => lower y == lower x || upper y == upper x) || clash xs

/-- one state per character of a token: MATCHCHAR refers to the first row, anything else must be a state symbol,
and the row must not grow beyond NCHAR.  Returns the new number of pending states. -/
def cellsOf (symOk : Char → Bool) (matchc : List (List Char)) (firstLen : Option Nat) (base nchar : Nat) : List Char → Nat → R Nat
  | [], n => pure n
  | c :: cs, n =>
    let ok := if matchc.contains [c] then
                (match firstLen with
                 | none => false
                 | some f => decide (base + n < f))
              else symOk c
    if !ok then perr .nexus
    else if base + n == nchar then perr .nexus       -- TooManyCharactersError
    else cellsOf symOk matchc firstLen base nchar cs (n + 1)

/-- which single characters are state symbols of the matrix being read; `none` = the alphabet cannot be built
(`ValueError` of `StateAlphabet`, or no symbols at all: a parse error in the repaired code) -/
def symbolTest (sy : Syms) (s : RS) : R (Char → Bool) :=
  match s.dataType with
  | .dna => pure (fun c => sy.dna.contains c)
  | .rna => pure (fun c => sy.rna.contains c)
  | .nucleotide => pure (fun c => sy.nuc.contains c)
  | .protein => pure (fun c => sy.prot.contains c)
  | .continuous => pure (fun _ => false)     -- `_read_continuous_character_values`: cells are numbers, see `readStates`
  | .standard =>
    let syms0 := if s.symbols.isEmpty then kw "0123456789" else s.symbols
    let syms := if !s.gap.isEmpty && isInfix s.gap syms0 then syms0.filter (fun c => [c] != s.gap) else syms0
    if syms.isEmpty then perr .nexus else
    let items : List (List Char) := syms.map (fun c => [c]) ++ (if s.gap.isEmpty then [] else [s.gap]) ++ (if s.missing.isEmpty then [] else [s.missing])
    if clash items then perr .nexus
    else pure (fun c => items.any (fun it => it == [c] || upper it == [c] || lower it == [c]))

/-- `_read_character_states` / `_read_continuous_character_values` for the row at position `r` of `rows` -/
def readStates (symOk : Char → Bool) (r : Nat) (s : RS) : R RS := do
  -- `char_block[taxon]`: the row must exist (an index out of range would be the model's `IndexError`; `rowFor_in_range`)
  if r ≥ s.rows.length then .error (.internal "row index out of range") else
  let nchar := s.nchar.getD 0
  let cont := s.dataType == .continuous
  let s := if s.interleave then { s with cfg := { s.cfg with eol := true } } else s
  let s ← iter (fun s => do
    if rowLen s r + s.added ≥ nchar then pure (false, s)
    else
      let (t, s) ← requireTok s
      if !cont && (t == ['{'] || t == ['(']) then
        let closing := if t == ['{'] then ['}'] else [')']
        let s ← iter (fun s => do
          let (t, s) ← requireTok s
          if t == closing then pure (false, s) else pure (true, { s with multi := s.multi ++ t })) { s with multi := [] }
        if s.multi.all symOk then pure (true, { s with added := s.added + 1 }) else perr .nexus
      else if t == ['\r'] || t == ['\n'] then
        pure (!s.interleave, s)
      else if t == semi.text then pure (false, { s with terminated := true })
      else if cont then
        -- continuous data: one number per token (`float(token)`)
        (if pyFloatOk t then pure (true, { s with added := s.added + 1 }) else perr .nexus)
      else
        -- one state per character of the token
        let n ← cellsOf symOk s.matchc (s.first.map (rowLen s)) (rowLen s r) nchar t s.added
        pure (true, { s with added := n })) { s with added := 0, terminated := false }
  if s.terminated then
    -- BlockTerminatedException propagates and the end-of-line mode stays; discrete states read so far are dropped
    -- (`states_to_add`), continuous values have already been appended to the row
    (if cont then pure { s with rows := s.rows.mapIdx (fun j x => if j == r then (x.1, x.2 + s.added) else x), added := 0 }
     else pure s)
  else
    let s := if s.interleave then { s with cfg := { s.cfg with eol := false } } else s
    pure { s with rows := s.rows.mapIdx (fun j x => if j == r then (x.1, x.2 + s.added) else x), added := 0 }

/-- `_get_taxon` + `char_block[taxon]`: position of the taxon's row in `rows` -/
def rowFor (i : Nat) (label : List Char) (s : RS) : R (Nat × RS) := do
  let labels := labelsOf s.tns i
  let (tx, s) ← (match findLabel labels label with
    | some j => pure (j, s)
    | none =>
      if labels.length < s.ntax.getD 0 then pure (labels.length, { s with tns := setLabels s.tns i (labels ++ [label]) })
      else perr .tooManyTaxa : R (Nat × RS))                         -- TooManyTaxaError
  match idxOf (fun x => x.1 == tx) s.rows 0 with
  | some r => pure (r, s)
  | none => pure (s.rows.length, { s with rows := s.rows ++ [(tx, 0)] })

/-- the row loop of `_process_discrete_matrix_data` (sequential and interleaved) -/
def matrixRows (symOk : Char → Bool) (i nchar : Nat) (s : RS) : R RS :=
  iter (fun s => do
    match s.btok with
    | none => pure (false, s)
    | some label =>
      if label == semi.text || s.eof then pure (false, s)
      else
        let (r, s) ← rowFor i label s
        let s ← readStates symOk r s
        let s := if s.first.isNone && !s.terminated then { s with first := some r } else s
        if s.terminated then
          if s.interleave then
            let (_, s) ← nextTok s
            pure (false, s)
          else perr .nexus                                   -- insufficient characters (was: BlockTerminatedException escaping)
        else if !s.interleave && rowLen s r < nchar then perr .nexus
        else
          let (t, s) ← nextTok s
          pure (true, { s with btok := t })) s

/-- the declared-versus-found checks at the end of `_parse_matrix_statement` -/
def matrixCheck (nchar : Nat) (s : RS) : R RS :=
  if (match s.blockNtax with | some n => decide (s.rows.length > n) | none => false) then perr .nexus   -- more sequences than this block's NTAX
  else if s.rows.all (fun x => x.2 == nchar) then
    pure { s with mats := s.mats ++ [s.rows.map (·.2)], btok := some (kw "MATRIX") }
  else perr .nexus

/-- `_parse_matrix_statement` / `_process_discrete_matrix_data` -/
def parseMatrix (sy : Syms) (s : RS) : R RS := do
  if s.ntax.getD 0 == 0 || s.nchar.getD 0 == 0 then perr .nexus else
  let (i, s) ← getTns s.linkTitle s
  let s := { s with matTitles := s.matTitles ++ [s.blockTitle], rows := [], first := none }
  let symOk ← symbolTest sy s
  let nchar := s.nchar.getD 0
  let (t, s) ← nextTok s
  let s ← matrixRows symOk i nchar { s with btok := t }
  matrixCheck nchar s

/-- after a DIMENSIONS statement of a CHARACTERS/DATA block: an NTAX given there is the block's own; otherwise the
file-level value stays -/
def restoreNtax (before : Option Nat) (s : RS) : RS :=
  match s.ntax with
  | none => { s with ntax := before }
  | some n => { s with blockNtax := some n }

def charsBlock (sy : Syms) (s : RS) : R RS := do
  let s ← skipToSemi s
  let s ← iter (fun s => do
    if isEnd s.btok || s.eof || s.btok.isNone then pure (false, s)
    else
      let (t, s) ← nextUcase s
      let s := { s with btok := t }
      if t == some (kw "TITLE") then do
        let s ← parseTitle s
        pure (true, { s with blockTitle := some s.stok })
      else if t == some (kw "LINK") then do
        let s ← parseLink s
        pure (true, { s with linkTitle := s.linkTaxa })
      else if t == some (kw "DIMENSIONS") then do
        let before := s.ntax
        let s ← parseDimensions { s with ntax := none }
        pure (true, restoreNtax before s)
      else if t == some (kw "FORMAT") then do
        let s ← parseFormat s
        pure (true, s)
      else if t == some (kw "MATRIX") then do
        let s ← parseMatrix sy s
        pure (true, s)
      else if t == some (kw "BEGIN") then perr .nexus
      else pure (true, s)) { s with blockTitle := none, linkTitle := none, dataType := .standard, blockNtax := none }
  skipToSemi s

/-! ### SETS / ASSUMPTIONS / CODONS -/
/-- `_get_char_matrix(title)`: position of the matrix among the matrices created so far -/
def getCharMatrix (title : Option (List Char)) (s : RS) : R Nat :=
  match title with
  | none => if s.matTitles.length == 0 then perr .nexus      -- NoCharacterBlocksFoundError
            else pure (s.matTitles.length - 1)                -- without LINK CHARACTERS: the character block that precedes
  | some t =>
    let found := (List.range s.matTitles.length).filter (fun j =>
      match (s.matTitles[j]?).bind id with
      | some l => upper l == upper t
      | none => false)
    match found with
    | [j] => pure j
    | _ => perr .nexus

/-- `range(start, min(stop, max) + 1, step)`: the positions of a range that lie inside the matrix (repaired: the range is
clamped before it is walked, so its cost does not depend on the number the document writes; `charset_range_bounded`) -/
def stepRange (start stop step max : Nat) : List Nat :=
  (List.range ((min stop max + 1 - start + step - 1) / step)).map (fun k => start + k * step)

/-- the part of `_parse_positions` after `start - `: the end of the range and an optional `\ step` -/
def positionsRange (start max : Nat) (s : RS) : R (Bool × RS) := do
  let (t2, s) ← nextTok s
  match t2 with
  | none => perr .nexus
  | some t2 =>
    if t2.isEmpty then perr .nexus
    else if !(isDigitStr t2 || t2 == ['.']) then perr .nexus
    else
      let stop := if t2 == ['.'] then max else natOfDigits t2
      let (t3, s) ← nextTok s
      if truthy t3 && (t3 == some ['\\'] || t3 == some ['/']) then
        let (t4, s) ← nextTok s
        match t4 with
        | none => perr .nexus
        | some t4 =>
          if t4.isEmpty then perr .nexus
          else if isDigitStr t4 && natOfDigits t4 > 0 then
            let (t5, s) ← nextTok s
            pure (true, { s with ptok := t5, positions := s.positions ++ stepRange start stop (natOfDigits t4) max })
          else perr .nexus
      else pure (true, { s with ptok := t3, positions := s.positions ++ stepRange start stop 1 max })

/-- `_parse_positions()` (repaired: a token that is neither a number nor ALL is an error; a step must be positive) -/
def parsePositions (s : RS) : R RS := do
  let max := s.nchar.getD 0      -- a matrix exists, so NCHAR has been declared (Python would raise TypeError on None)
  let (t, s) ← nextTok { s with cfg := { s.cfg with hyphen := true }, positions := [] }
  if s.eof || !truthy t then perr .nexus else
  let s ← iter (fun s => do
    match s.ptok with
    | none => pure (false, s)
    | some token =>
      if token == semi.text || token == comma.text || s.eof then pure (false, s)
      else if token.isEmpty then pure (false, s)
      else if upper token == kw "ALL" then pure (false, { s with positions := (List.range max).map (· + 1) })
      else if isDigitStr token then
        let start := natOfDigits token
        let (t, s) ← nextTok s
        match t with
        | none => pure (true, { s with ptok := none, positions := s.positions ++ [start] })
        | some t1 =>
          if t1.isEmpty then pure (true, { s with ptok := some t1, positions := s.positions ++ [start] })
          else if t1 == comma.text || isDigitStr t1 || t1 == semi.text then
            pure (true, { s with ptok := some t1, positions := s.positions ++ [start] })
          else if t1 == ['-'] then positionsRange start max s
          else perr .nexus
      else perr .nexus) { s with ptok := t }
  let s := { s with cfg := { s.cfg with hyphen := false }, positions := dedupSorted (sortNat s.positions) }
  if s.positions.any (fun q => q > max) then perr .nexus else pure s

/-- `_parse_charset_statement` -/
def parseCharset (s : RS) : R RS := do
  let m ← getCharMatrix s.linkTitle s
  let (t, s) ← nextTok s
  if s.eof || !truthy t then perr .nexus else
  let name := t.getD []
  let (t, s) ← nextTok s
  if !truthy t then perr .nexus
  else if t != some ['='] then perr .nexus
  else
    let s ← parsePositions s
    if s.charsets.any (fun c => c.1 == m && c.2.1 == lower name) then perr .nexus     -- "Character subset … already defined"
    else pure { s with charsets := s.charsets ++ [(m, lower name, s.positions.length)] }

def setsBlock (s : RS) : R RS := do
  let s ← skipToSemi { s with linkTitle := none }
  let s ← iter (fun s => do
    if isEnd s.btok || s.eof || s.btok.isNone then pure (false, s)
    else
      let (t, s) ← nextUcase s
      let s := { s with btok := t }
      if t == some (kw "TITLE") then do
        let s ← parseTitle s
        pure (true, s)
      else if t == some (kw "LINK") then do
        let s ← parseLink s
        pure (true, { s with linkTitle := s.linkChars })
      else if t == some (kw "CHARSET") then do
        let s ← parseCharset s
        pure (true, s)
      else if t == some (kw "BEGIN") then perr .nexus
      else pure (true, s)) s
  skipToSemi s

/-! ### the stream -/
/-- `token = next_token_ucase(); while token != None and token != 'BEGIN' and not is_eof(): token = next_token_ucase()` -/
def skipToBegin (s : RS) : R RS :=
  iter (fun s => do
    let (t, s) ← nextUcase s
    pure (t.isSome && t != some (kw "BEGIN") && !s.eof, s)) s

/-- which branch of `_parse_nexus_stream` a block name takes: 0 TAXA, 1 CHARACTERS / DATA, 2 TREES, 3 SETS / ASSUMPTIONS /
CODONS, 4 the branch that raises (BEGIN), 5 an unknown block.  The regenerated groups `C20Consts.blockGroups` are shown
equal to this function by `block_names_bridge`. -/
def blockKind (t : Option (List Char)) : Nat :=
  if t == some (kw "TAXA") then 0
  else if t == some (kw "CHARACTERS") || t == some (kw "DATA") then 1
  else if t == some (kw "TREES") then 2
  else if t == some (kw "SETS") || t == some (kw "ASSUMPTIONS") || t == some (kw "CODONS") then 3
  else if t == some (kw "BEGIN") then 4
  else 5

def readBlock (sy : Syms) (s : RS) : R RS := do
  let s ← skipToBegin s
  let (t, s) ← nextUcase s
  let s := { s with btok := t }
  if blockKind t == 0 then taxaBlock s
  else if blockKind t == 1 then charsBlock sy s
  else if blockKind t == 2 then treesBlock s
  else if blockKind t == 3 then setsBlock s
  else if blockKind t == 4 then perr .nexus
  else consumeToEnd t s

/-- the global budget of loop rounds for a text of `n` characters: all loops of the reader together — the block loop,
the statement loops inside it, the row / cell / multistate loops inside those — go round at most this often -/
def nexusFuel (n : Nat) : Nat := 18 * n + 8

/-- `_parse_nexus_stream` (repaired: an empty source is not a NEXUS file) -/
def readNexus (sy : Syms) (text : List Char) : R RS := do
  let (t, s) ← nextTok { rest := text, fuel := nexusFuel text.length }
  match t with
  | none => perr .nexus
  | some t =>
    if upper t != kw "#NEXUS" then perr .nexus
    else iter (fun s => do
      if s.eof then pure (false, s)
      else
        let s ← readBlock sy s
        pure (true, s)) s

end DendroModel.C20
