import DendroModel.Basic.Tree
import DendroModel.Gen.UltraPrec
/-! C17 — node ages, the ultrametricity check, root distances, lineage counting and the tree
statistics of `calculate/treemeasure.py`, as the code computes them, next to their textbook
definitions.  Mathlib-free and executable (the driver `drv_c17` runs exactly these definitions).
Numbers are exact rationals (`Frac`); `sqrt`/`log` stay outside (squares / components are returned).

Conventions.  A Python dict keyed by node objects that is filled in post-order and read at the
parent (`nd_mi`, `subtree_leaves`, the `age` attribute) is modelled by the value returned from the
recursive call on the child; a running accumulator is threaded left to right through the children
and then the node itself (= post-order). -/
namespace DendroModel.C17
open DendroModel

inductive Err where
  | ultra      -- error.UltrametricityError
  | type       -- TypeError (arithmetic on a `None` edge length)
  | value      -- ValueError
  | zerodiv    -- ZeroDivisionError
  | nonbinary  -- statistic defined on strictly bifurcating trees only (TypeError / IndexError / AssertionError in the code)
deriving DecidableEq, Repr, Inhabited

def Err.render : Err → String
  | .ultra => "UltrametricityError"
  | .type => "TypeError"
  | .value => "ValueError"
  | .zerodiv => "ZeroDivisionError"
  | .nonbinary => "NotBinary"

/-- `constants.DEFAULT_ULTRAMETRICITY_PRECISION` and the default `prec` of `pybus_harvey_gamma`, regenerated from
    the source on every run (`Gen/UltraPrec.lean`) -/
def defaultPrec : Frac := Frac.mk' UltraPrec.calcNum UltraPrec.calcDen
def gammaDefaultPrec : Frac := Frac.mk' UltraPrec.gammaNum UltraPrec.gammaDen

/-- `None` edge length read as 0 (what `calc_node_ages` and `Tree.length` do) -/
def olen : Option Frac → Frac
  | none => Frac.zero
  | some l => l

/-! ## `Tree.calc_node_ages` -/

/-- a tree whose nodes carry the `age` attribute -/
inductive AT where
  | node (id : Nat) (age : Frac) (len : Option Frac) (cs : List AT)
deriving Inhabited

namespace AT
def id : AT → Nat | .node i _ _ _ => i
def age : AT → Frac | .node _ a _ _ => a
def len : AT → Option Frac | .node _ _ l _ => l
def cs : AT → List AT | .node _ _ _ cs => cs

mutual
/-- `(id, age)` of every node, pre-order -/
def ages : AT → List (Nat × Frac)
  | .node i a _ cs => (i, a) :: agesL cs
def agesL : List AT → List (Nat × Frac)
  | [] => []
  | c :: cs => ages c ++ agesL cs
end

mutual
/-- `(id, length)` of every node, pre-order -/
def lens : AT → List (Nat × Option Frac)
  | .node i _ l cs => (i, l) :: lensL cs
def lensL : List AT → List (Nat × Option Frac)
  | [] => []
  | c :: cs => lens c ++ lensL cs
end

mutual
/-- the list `ages` returned by `calc_node_ages`: post-order; leaves only unless
    `is_return_internal_node_ages_only` -/
def returned (internalOnly : Bool) : AT → List Frac
  | .node _ a _ [] => if internalOnly then [] else [a]
  | .node _ a _ (c :: cs) => returnedL internalOnly (c :: cs) ++ [a]
def returnedL (internalOnly : Bool) : List AT → List Frac
  | [] => []
  | c :: cs => returned internalOnly c ++ returnedL internalOnly cs
end
end AT

structure Cfg where
  /-- `ultrametricity_precision`; `none` for `None`/`False` -/
  prec : Option Frac
  forceMax : Bool
  forceMin : Bool

/-- the guard of the comparison loop: `not (is_force_max_age or is_force_min_age or
    ultrametricity_precision is None or ... is False or ... < 0)`; yields the precision to use -/
def Cfg.checking (c : Cfg) : Option Frac :=
  if c.forceMax || c.forceMin then none
  else match c.prec with
    | none => none
    | some p => if Frac.lt p Frac.zero then none else some p

/-- `child.age + child.edge.length` (force modes: `None` length is a TypeError) -/
def childSum (c : AT) : Except Err Frac :=
  match c.len with
  | none => .error .type
  | some l => .ok (c.age + l)

def childSums : List AT → Except Err (List Frac)
  | [] => .ok []
  | c :: cs =>
    match childSum c with
    | .error e => .error e
    | .ok v => match childSums cs with
      | .error e => .error e
      | .ok vs => .ok (v :: vs)

/-- Python `max(list)` of a non-empty list given as head and tail: first maximal element -/
def maxList (x : Frac) : List Frac → Frac
  | [] => x
  | y :: ys => maxList (if Frac.lt x y then y else x) ys

def minList (x : Frac) : List Frac → Frac
  | [] => x
  | y :: ys => minList (if Frac.lt y x then y else x) ys

/-- `age_to_set` of an internal node with first child `a` and other children `as` -/
def ageToSet (cfg : Cfg) (a : AT) (as : List AT) : Except Err Frac :=
  if cfg.forceMax then
    match childSums (a :: as) with
    | .ok (v :: vs) => .ok (maxList v vs)
    | .ok [] => .ok Frac.zero
    | .error e => .error e
  else if cfg.forceMin then
    match childSums (a :: as) with
    | .ok (v :: vs) => .ok (minList v vs)
    | .ok [] => .ok Frac.zero
    | .error e => .error e
  else
    -- first child: `None` length is set to 0.0 (ages are never `None` in post-order)
    .ok (a.age + olen a.len)

/-- the loop `for nnd in child_nodes[1:]`: `true` iff no child deviates by more than `p` -/
def othersWithin (p : Frac) (age : Frac) : List AT → Bool
  | [] => true
  | c :: cs =>
    if Frac.lt p (Frac.abs (age - (c.age + olen c.len))) then false
    else othersWithin p age cs

mutual
def calcAges (cfg : Cfg) : T → Except Err AT
  | .node i _ l _ cs =>
    match calcAgesL cfg cs with
    | .error e => .error e
    | .ok [] => .ok (.node i Frac.zero l [])
    | .ok (a :: as) =>
      match ageToSet cfg a as with
      | .error e => .error e
      | .ok age =>
        match cfg.checking with
        | none => .ok (.node i age l (a :: as))
        | some p => if othersWithin p age as then .ok (.node i age l (a :: as)) else .error .ultra
def calcAgesL (cfg : Cfg) : List T → Except Err (List AT)
  | [] => .ok []
  | c :: cs =>
    match calcAges cfg c with
    | .error e => .error e
    | .ok a => match calcAgesL cfg cs with
      | .error e => .error e
      | .ok as => .ok (a :: as)
end

/-- `Tree.calc_node_ages(...)` including the argument check at its head -/
def calcNodeAges (cfg : Cfg) (t : T) : Except Err AT :=
  if cfg.forceMax && cfg.forceMin then .error .value else calcAges cfg t

/-! ## `Tree.set_edge_lengths_from_node_ages` -/

/-- the new length of an edge whose tail has age `pa` and whose head has age `a` -/
def newLen (minLen : Option Frac) (errNeg : Bool) (pa a : Frac) : Except Err Frac :=
  let e := pa - a
  let e := match minLen with
    | some m => if Frac.lt e m then m else e
    | none => e
  if errNeg && Frac.lt e Frac.zero then .error .value else .ok e

mutual
/-- children of a node of age `pa`, pre-order -/
def setLensL (minLen : Option Frac) (errNeg : Bool) (pa : Frac) : List AT → Except Err (List AT)
  | [] => .ok []
  | .node i a _ cs :: rest =>
    match newLen minLen errNeg pa a with
    | .error e => .error e
    | .ok l =>
      match setLensL minLen errNeg a cs with
      | .error e => .error e
      | .ok cs' =>
        match setLensL minLen errNeg pa rest with
        | .error e => .error e
        | .ok rest' => .ok (.node i a (some l) cs' :: rest')
end

/-- the seed keeps its edge length -/
def setLens (minLen : Option Frac) (errNeg : Bool) : AT → Except Err AT
  | .node i a l cs =>
    match setLensL minLen errNeg a cs with
    | .error e => .error e
    | .ok cs' => .ok (.node i a l cs')

/-- attach given ages (by node id) to a tree, for driving `set_edge_lengths_from_node_ages` on arbitrary ages -/
def lookup (tbl : List (Nat × Frac)) (i : Nat) : Frac :=
  match tbl.find? (fun p => p.1 == i) with
  | some p => p.2
  | none => Frac.zero

mutual
def withAges (tbl : List (Nat × Frac)) : T → AT
  | .node i _ l _ cs => .node i (lookup tbl i) l (withAgesL tbl cs)
def withAgesL (tbl : List (Nat × Frac)) : List T → List AT
  | [] => []
  | c :: cs => withAges tbl c :: withAgesL tbl cs
end

/-! ## `resolve_node_depths`, `calc_node_root_distances`, `resolve_node_ages` -/

mutual
/-- `(id, is_leaf, distance from the root)` pre-order, for a node at distance `d`;
    `node.edge.length + cache[parent]` is a TypeError on a `None` length -/
def depths (d : Frac) : T → Except Err (List (Nat × Bool × Frac))
  | .node i _ _ _ cs =>
    match depthsL d cs with
    | .error e => .error e
    | .ok r => .ok ((i, cs.isEmpty, d) :: r)
def depthsL (d : Frac) : List T → Except Err (List (Nat × Bool × Frac))
  | [] => .ok []
  | c :: cs =>
    match c.len with
    | none => .error .type
    | some l =>
      match depths (l + d) c with
      | .error e => .error e
      | .ok r => match depthsL d cs with
        | .error e => .error e
        | .ok r' => .ok (r ++ r')
end

def rootDepths (t : T) : Except Err (List (Nat × Bool × Frac)) := depths Frac.zero t

/-- `resolve_node_ages`: `max_depth - depth` -/
def resolveAges (t : T) : Except Err (List (Nat × Frac)) :=
  match rootDepths t with
  | .error e => .error e
  | .ok [] => .ok []
  | .ok (x :: xs) =>
    let m := maxList x.2.2 (xs.map (·.2.2))
    .ok ((x :: xs).map (fun p => (p.1, m - p.2.2)))

/-- `minmax_leaf_distance_from_root` -/
def minmaxLeafDist (t : T) : Except Err (Frac × Frac) :=
  match rootDepths t with
  | .error e => .error e
  | .ok r =>
    match (r.filter (·.2.1)).map (·.2.2) with
    | [] => .error .value
    | x :: xs => .ok (minList x xs, maxList x xs)

/-! ## list forms: `node_ages`, `internal_node_ages`, `coalescence_intervals`, `calc_node_root_distances`,
`max_distance_from_root`, `treemeasure.node_ages / node_depths / coalescence_ages` -/

def insAsc (x : Frac) : List Frac → List Frac
  | [] => [x]
  | y :: ys => if Frac.le x y then x :: y :: ys else y :: insAsc x ys
/-- `list.sort()` / `sorted(...)` of numbers: ascending -/
def sortAsc (l : List Frac) : List Frac := l.foldr insAsc []

/-- `Tree.node_ages(..., internal_only)` and `Tree.internal_node_ages(...)` (= `internal_only` true): the list returned by
    `calc_node_ages`, sorted in place -/
def nodeAges (cfg : Cfg) (internalOnly : Bool) (t : T) : Except Err (List Frac) :=
  match calcNodeAges cfg t with
  | .error e => .error e
  | .ok a => .ok (sortAsc (a.returned internalOnly))

/-- `d - ages[i]` for `i, d in enumerate(ages[1:])` -/
def diffsFrom (prev : Frac) : List Frac → List Frac
  | [] => []
  | a :: as => (a - prev) :: diffsFrom a as

/-- `Tree.coalescence_intervals()`: `ages = self.node_ages()` (all defaults), then `ages[0]` followed by the consecutive
    differences -/
def coalIntervals (t : T) : Except Err (List Frac) :=
  match nodeAges ⟨some defaultPrec, false, false⟩ false t with
  | .error e => .error e
  | .ok [] => .error .value          -- `ages[0]` on an empty list: a tree has at least its seed node
  | .ok (a :: as) => .ok (a :: diffsFrom a as)

/-- the list `calc_node_root_distances(return_leaf_distances_only)` returns: pre-order, leaves only or every node -/
def rootDistList (leafOnly : Bool) (t : T) : Except Err (List Frac) :=
  match rootDepths t with
  | .error e => .error e
  | .ok r => .ok ((r.filter (fun p => !leafOnly || p.2.1)).map (·.2.2))

/-- `Tree.max_distance_from_root()`: `max(self.calc_node_root_distances())`, i.e. over the leaves -/
def maxDistFromRoot (t : T) : Except Err Frac :=
  match rootDistList true t with
  | .error e => .error e
  | .ok [] => .error .value
  | .ok (x :: xs) => .ok (maxList x xs)

/-- `treemeasure.node_depths(tree, is_internal_only)`: sorted values of `resolve_node_depths()` -/
def tmNodeDepths (internalOnly : Bool) (t : T) : Except Err (List Frac) :=
  match rootDepths t with
  | .error e => .error e
  | .ok r => .ok (sortAsc ((r.filter (fun p => !internalOnly || !p.2.1)).map (·.2.2)))

/-- `treemeasure.node_ages(tree, is_internal_only)` (`coalescence_ages` = internal only): sorted values of
    `resolve_node_ages()` -/
def tmNodeAges (internalOnly : Bool) (t : T) : Except Err (List Frac) :=
  match rootDepths t with
  | .error e => .error e
  | .ok [] => .ok []
  | .ok (x :: xs) =>
    let m := maxList x.2.2 (xs.map (·.2.2))
    .ok (sortAsc (((x :: xs).filter (fun p => !internalOnly || !p.2.1)).map (fun p => m - p.2.2)))

/-! ## `Node.distance_from_root`, `Node.distance_from_tip` -/

mutual
/-- `Node.distance_from_root()` of every node, pre-order.  `anc` = sum of the non-`None` lengths of the edges of all
    ancestors, the SEED'S OWN EDGE INCLUDED (the code walks `parent_node` up to and including the node without parent);
    `plen` = the parent's edge length.  A node without length answers with its parent's length (`float(None)`: TypeError);
    the seed answers with its own length, `None` = 0. -/
def distRoot (isRoot : Bool) (anc : Frac) (plen : Option Frac) : T → List (Nat × Except Err Frac)
  | .node i _ l _ cs =>
    let v : Except Err Frac :=
      match l with
      | some l => .ok (if isRoot then l else l + anc)
      | none => if isRoot then .ok Frac.zero else
          match plen with
          | some pl => .ok pl
          | none => .error .type
    (i, v) :: distRootL (olen l + anc) l cs
def distRootL (anc : Frac) (plen : Option Frac) : List T → List (Nat × Except Err Frac)
  | [] => []
  | c :: cs => distRoot false anc plen c ++ distRootL anc plen cs
end

def distFromRoot (t : T) : List (Nat × Except Err Frac) := distRoot true Frac.zero none t

mutual
/-- `Node.distance_from_tip()` on a node without cached `_distance_from_tip` values: the largest distance to a tip
    below, a `None` length read as 0 -/
def tipMax : T → Frac
  | .node _ _ _ _ [] => Frac.zero
  | .node _ _ _ _ (c :: cs) => maxList (tipMax c + olen c.len) (tipMaxSums cs)
def tipMaxSums : List T → List Frac
  | [] => []
  | c :: cs => (tipMax c + olen c.len) :: tipMaxSums cs
end

/-- `distance_from_tip()` of every node, pre-order -/
def distFromTip (t : T) : List (Nat × Frac) := t.nodes.map (fun v => (v.id, tipMax v))

/-! ## `Tree.num_lineages_at` -/

/-- the test applied to a non-root node at root distance `rd` whose parent is at `prd` -/
def crosses (d prd rd : Frac) : Bool :=
  Frac.beq rd d || (Frac.le d rd && Frac.lt prd d)

mutual
def lineagesL (d prd : Frac) : List T → Except Err Nat
  | [] => .ok 0
  | .node _ _ l _ cs :: rest =>
    match l with
    | none => .error .type
    | some l =>
      let rd := l + prd
      match lineagesL d rd cs with
      | .error e => .error e
      | .ok k => match lineagesL d prd rest with
        | .error e => .error e
        | .ok k' => .ok ((if crosses d prd rd then 1 else 0) + k + k')
end

def numLineagesAt (d : Frac) (t : T) : Except Err Nat := lineagesL d Frac.zero t.cs

/-! ## `Tree.length` -/

mutual
/-- sum over all edges (the seed's included) of the lengths that are not `None` -/
def length : T → Frac
  | .node _ _ l _ cs => lengthL cs + olen l
def lengthL : List T → Frac
  | [] => Frac.zero
  | c :: cs => length c + lengthL cs
end

/-! ## statistics: the code's accumulation -/

mutual
/-- `(leaf_count, num_anc)` of `N_bar`/`sackin_index` for a node with `k` ancestors -/
def leafAnc (k : Nat) : T → Nat × Nat
  | .node _ _ _ _ [] => (1, k)
  | .node _ _ _ _ (c :: cs) => leafAncL (k + 1) (c :: cs)
def leafAncL (k : Nat) : List T → Nat × Nat
  | [] => (0, 0)
  | c :: cs => ((leafAnc k c).1 + (leafAncL k cs).1, (leafAnc k c).2 + (leafAncL k cs).2)
end

def harmonicFrom2 : Nat → Frac
  | 0 => Frac.zero
  | 1 => Frac.zero
  | n + 1 => harmonicFrom2 n + Frac.mk' 1 (n + 1)

inductive Norm where | none | mean | yule | pdaSq | max
deriving DecidableEq, Repr

def fdiv (a b : Frac) : Except Err Frac :=
  if b.isZero then .error .zerodiv else .ok (Frac.div a b)

def nBar (t : T) : Except Err Frac :=
  let (n, s) := leafAnc 0 t
  fdiv (Frac.ofNat s) (Frac.ofNat n)

/-- `sackin_index(tree, normalize)`: `none` raw, `mean` (True) per leaf, `yule`; `pdaSq` returns the
    square of the PDA-normalised value (`s² / n³`) -/
def sackin (norm : Norm) (t : T) : Except Err Frac :=
  let (n, s) := leafAnc 0 t
  match norm with
  | .none => .ok (Frac.ofNat s)
  | .mean => fdiv (Frac.ofNat s) (Frac.ofNat n)
  | .yule => fdiv (Frac.ofNat s - Frac.ofNat (2 * n) * harmonicFrom2 n) (Frac.ofNat n)
  | .pdaSq => fdiv (Frac.ofNat (s * s)) (Frac.ofNat (n * n * n))
  | .max => .error .type

def absDiff (a b : Nat) : Nat := if a ≤ b then b - a else a - b

mutual
/-- `(subtree_leaves[nd], colless accumulated in the subtree)`; a node with one child or more than two
    is outside the statistic's domain -/
def collessAcc : T → Except Err (Nat × Nat)
  | .node _ _ _ _ [] => .ok (1, 0)
  | .node _ _ _ _ [a, b] =>
    match collessAcc a with
    | .error e => .error e
    | .ok (la, ca) => match collessAcc b with
      | .error e => .error e
      | .ok (lb, cb) => .ok (lb + la, ca + cb + absDiff lb la)
  | .node _ _ _ _ _ => .error .nonbinary
end

/-- `colless_tree_imbalance(tree, normalize)`: `none` raw, `max` (default), `pdaSq` square of the
    PDA-normalised value; for `yule` the exact components are the raw value and the leaf count -/
def colless (norm : Norm) (t : T) : Except Err Frac :=
  match collessAcc t with
  | .error e => .error e
  | .ok (n, c) =>
    match norm with
    | .none => .ok (Frac.ofNat c)
    | .max =>
      let den : Int := (n : Int) * ((n : Int) - 3) + 2
      if den == 0 then .error .zerodiv
      else .ok (Frac.ofNat c * Frac.div (Frac.ofInt 2) (Frac.ofInt den))
    | .pdaSq => fdiv (Frac.ofNat (c * c)) (Frac.ofNat (n * n * n))
    | _ => .error .type

/-- the Yule normalisation of Colless with the two transcendental quantities handed in: `lnN` for `math.log(num_leaves)` and
    `k` for `EULERS_CONSTANT - 1.0 - math.log(2)`:
    `float(colless - (num_leaves * log(num_leaves)) - (num_leaves * k)) / num_leaves` -/
def collessYuleWith (lnN k : Frac) (t : T) : Except Err Frac :=
  match collessAcc t with
  | .error e => .error e
  | .ok (n, c) => fdiv (Frac.ofNat c - Frac.ofNat n * lnN - Frac.ofNat n * k) (Frac.ofNat n)

mutual
/-- `(nd_mi[nd], b1 accumulated over the subtree)` for a non-root node -/
def b1Acc : T → Nat × Frac
  | .node _ _ _ _ [] => (0, Frac.zero)
  | .node _ _ _ _ (c :: cs) =>
    let r := b1AccL (c :: cs)
    (r.1 + 1, r.2 + Frac.mk' 1 (r.1 + 1))
/-- `(max mi over the children, b1 accumulated over their subtrees)` -/
def b1AccL : List T → Nat × Frac
  | [] => (0, Frac.zero)
  | c :: cs => (Nat.max (b1Acc c).1 (b1AccL cs).1, (b1Acc c).2 + (b1AccL cs).2)
end

/-- `B1(tree)`: the root is skipped -/
def b1 (t : T) : Frac := (b1AccL t.cs).2

mutual
/-- `(internal, external)` accumulated over non-root nodes; `+= None` is a TypeError -/
def treenessAcc : T → Except Err (Frac × Frac)
  | .node _ _ l _ cs =>
    match treenessAccL cs with
    | .error e => .error e
    | .ok (i, e) =>
      match l with
      | none => .error .type
      | some l => if cs.isEmpty then .ok (i, e + l) else .ok (i + l, e)
def treenessAccL : List T → Except Err (Frac × Frac)
  | [] => .ok (Frac.zero, Frac.zero)
  | c :: cs =>
    match treenessAcc c with
    | .error e => .error e
    | .ok (i, e) => match treenessAccL cs with
      | .error e' => .error e'
      | .ok (i', e') => .ok (i + i', e + e')
end

def treeness (t : T) : Except Err Frac :=
  match treenessAccL t.cs with
  | .error e => .error e
  | .ok (i, e) => fdiv i (e + i)

/-! ### Pybus–Harvey gamma -/

mutual
/-- `(speciation_ages, n)`: ages of the nodes with exactly two children (post-order) and the number of the others -/
def specAges : AT → List Frac × Nat
  | .node _ a _ cs =>
    let r := specAgesL cs
    if cs.length == 2 then (r.1 ++ [a], r.2) else (r.1, r.2 + 1)
def specAgesL : List AT → List Frac × Nat
  | [] => ([], 0)
  | c :: cs => ((specAges c).1 ++ (specAgesL cs).1, (specAges c).2 + (specAgesL cs).2)
end

def insertDesc (x : Frac) : List Frac → List Frac
  | [] => [x]
  | y :: ys => if Frac.lt x y then y :: insertDesc x ys else x :: y :: ys
/-- `speciation_ages.sort(reverse=True)` -/
def sortDesc (l : List Frac) : List Frac := l.foldr insertDesc []

/-- `g`: differences of consecutive (descending) ages, then the youngest age itself -/
def intervals : List Frac → List Frac
  | [] => []
  | [a] => [a]
  | a :: b :: r => (a - b) :: intervals (b :: r)

/-- `for i in range(2, n): T += i*g[i-2]; accum += T`, run over the list of the `g[i-2]` -/
def gammaLoop : Nat → List Frac → Frac → Frac → Frac × Frac
  | _, [], tt, acc => (tt, acc)
  | i, g :: gs, tt, acc =>
    let tt' := tt + Frac.ofNat i * g
    gammaLoop (i + 1) gs tt' (acc + tt')

/-- `(numerator, T, n)` with `gamma = numerator / (T * sqrt(1/(12 (n-2))))` -/
def gammaParts (a : AT) : Except Err (Frac × Frac × Nat) :=
  let (sa, n) := specAges a
  match sortDesc sa with
  | [] => .error .nonbinary          -- `speciation_ages[0]`: IndexError
  | s :: ss =>
    let g := intervals (s :: ss)
    if g.length + 1 != n then .error .nonbinary   -- `assert len(g) == n - 1`
    else
      let (tt, acc) := gammaLoop 2 g.dropLast Frac.zero Frac.zero
      let tt := tt + Frac.ofNat n * g.getLast!
      if n == 2 then .error .zerodiv                 -- `accum / nmt`
      else
        let nmt := Frac.ofNat (n - 2)
        .ok (Frac.div acc nmt - Frac.half tt, tt, n)

/-- sign(γ)·γ² = sign(num) · num² · 12 (n-2) / T² -/
def gammaSignedSq (parts : Frac × Frac × Nat) : Except Err Frac :=
  let (num, tt, n) := parts
  if tt.isZero then .error .zerodiv
  else
    let sq := Frac.div (num * num * Frac.ofNat (12 * (n - 2))) (tt * tt)
    .ok (if Frac.lt num Frac.zero then Frac.neg sq else sq)

/-- `pybus_harvey_gamma(tree, prec)` on a tree without stale `age` attributes -/
def gamma (prec : Option Frac) (t : T) : Except Err Frac :=
  match calcNodeAges ⟨prec, false, false⟩ t with
  | .error e => .error e
  | .ok a => match gammaParts a with
    | .error e => .error e
    | .ok p => gammaSignedSq p

/-! ## textbook definitions (specifications; proved equal to the above in `Props/C17.lean`) -/

mutual
def nLeaves : T → Nat
  | .node _ _ _ _ [] => 1
  | .node _ _ _ _ (c :: cs) => nLeavesL (c :: cs)
def nLeavesL : List T → Nat
  | [] => 0
  | c :: cs => nLeaves c + nLeavesL cs
end

mutual
/-- number of edges on the longest path down to a tip -/
def height : T → Nat
  | .node _ _ _ _ [] => 0
  | .node _ _ _ _ (c :: cs) => heightL (c :: cs) + 1
def heightL : List T → Nat
  | [] => 0
  | c :: cs => Nat.max (height c) (heightL cs)
end

def natSum (l : List Nat) : Nat := l.foldr (· + ·) 0

/-- Sackin's index: sum over internal nodes of the number of leaves below -/
def sackinDef (t : T) : Nat :=
  natSum ((t.nodes.filter (fun v => !v.isLeaf)).map nLeaves)

/-- Colless' index: sum over internal (binary) nodes of | leaves right − leaves left | -/
def collessTerm : T → Nat
  | .node _ _ _ _ [a, b] => absDiff (nLeaves b) (nLeaves a)
  | _ => 0
def collessDef (t : T) : Nat := natSum (t.nodes.map collessTerm)

mutual
/-- every node has zero or two children -/
def binary : T → Bool
  | .node _ _ _ _ [] => true
  | .node _ _ _ _ [a, b] => binary a && binary b
  | .node _ _ _ _ _ => false
end

/-- first-child chain distance to a tip: what `calc_node_ages` assigns without forcing -/
def fage : T → Frac
  | .node _ _ _ _ [] => Frac.zero
  | .node _ _ _ _ (c :: _) => fage c + olen c.len

end DendroModel.C17
