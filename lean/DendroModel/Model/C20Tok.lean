import DendroModel.Gen.Tables
/-! C20 — `tokenizer.Tokenizer.__next__` as configured by `nexusprocessing.NexusTokenizer`, as a *total* function on
the unread input (`List Char`; the head is Python's `_cur_char`).  End of stream is an explicit constructor
(`Res.eof`), never a `None` token.  The delimiter / quote / comment sets are the generated tables
(`Gen/Tables.lean`, read off the current source on every run).  No fuel, no `partial`: every definition
recurses on a strictly shorter input, which is the termination argument of clause (a) of the property. -/
namespace DendroModel.C20
open DendroModel

/-- run-time configuration of the tokenizer: `set_capture_eol` moves `\n`,`\r` from the uncaptured to the captured
delimiters (interleaved MATRIX rows), `set_hyphens_as_captured_delimiters` adds `-` (CHARSET positions),
`preserve_unquoted_underscores`. -/
structure Cfg where
  eol : Bool := false
  hyphen : Bool := false
  pu : Bool := false
deriving Repr, DecidableEq

def isEol (c : Char) : Bool := c == '\n' || c == '\r'

def Cfg.unc (k : Cfg) (c : Char) : Bool :=
  Tables.tokUncaptured.contains c && !(k.eol && isEol c)

def Cfg.cap (k : Cfg) (c : Char) : Bool :=
  Tables.tokCaptured.contains c || (k.eol && isEol c) || (k.hyphen && c == '-')

def isQuote (c : Char) : Bool := Tables.tokQuote.contains c
def isCommentBegin (c : Char) : Bool := Tables.tokCommentBegin.contains c
def isCommentEnd (c : Char) : Bool := Tables.tokCommentEnd.contains c

/-- body of a quoted token; the input is positioned just after the opening quote `q`.
`none` = `UnterminatedQuoteError`.  (`escape_quote_by_doubling` is `True` for the NEXUS tokenizer;
the other branch of the code consumes one more character and stops.) -/
def readQuoted (q : Char) : List Char → List Char → Option (List Char × List Char)
  | [], _ => none
  | c :: cs, acc =>
    if c == q then
      if Tables.tokQuoteDoubling then
        match cs with
        | c2 :: cs2 => if c2 == q then readQuoted q cs2 (acc ++ [q]) else some (acc, cs)
        | [] => some (acc, [])
      else some (acc, cs.drop 1)
    else readQuoted q cs (acc ++ [c])

/-- `_handle_comment`, entered with the input positioned just after the opening bracket (nesting already 1):
returns the input after the matching close (or `[]` at end of text: an unterminated comment is silently dropped). -/
def skipComment : List Char → Nat → List Char
  | [], _ => []
  | c :: cs, nesting =>
    if isCommentEnd c then (if nesting ≤ 1 then cs else skipComment cs (nesting - 1))
    else if isCommentBegin c then skipComment cs (nesting + 1)
    else skipComment cs nesting

theorem skipComment_len : ∀ (l : List Char) (n : Nat), (skipComment l n).length ≤ l.length
  | [], _ => by simp [skipComment]
  | c :: cs, n => by
    simp only [skipComment]
    split
    · split
      · simp
      · have := skipComment_len cs (n-1); simp; omega
    · split
      · have := skipComment_len cs (n+1); simp; omega
      · have := skipComment_len cs n; simp; omega

/-- the unquoted-token loop: characters accumulate until an uncaptured delimiter (consumed) or a captured one (kept);
a comment is dropped from the token; `_` becomes a space unless `preserve_unquoted_underscores`. -/
def readPlain (k : Cfg) : List Char → List Char → List Char × List Char
  | [], acc => (acc, [])
  | c :: cs, acc =>
    if k.unc c then (acc, cs)
    else if k.cap c then (acc, c :: cs)
    else if isCommentBegin c then
      readPlain k (skipComment cs 1) acc
    else
      readPlain k cs (acc ++ [if c == '_' && !k.pu then ' ' else c])
termination_by l => l.length
decreasing_by
  · have := skipComment_len cs 1
    simp; omega
  · simp

/-- `_skip_to_significant_char` -/
def skipWs (k : Cfg) : List Char → List Char
  | [] => []
  | c :: cs => if k.unc c then skipWs k cs else c :: cs

theorem skipWs_len (k : Cfg) : ∀ l, (skipWs k l).length ≤ l.length
  | [] => by simp [skipWs]
  | c :: cs => by
    simp only [skipWs]; split
    · have := skipWs_len k cs; simp; omega
    · simp

theorem skipWs_head (k : Cfg) : ∀ l c cs, skipWs k l = c :: cs → k.unc c = false
  | [], c, cs, h => by simp [skipWs] at h
  | d :: ds, c, cs, h => by
    simp only [skipWs] at h
    split at h
    · exact skipWs_head k ds c cs h
    · rename_i hd
      cases h
      simpa using hd

inductive Res where
  | eof                                                        -- StopIteration
  | unterminated                                               -- UnterminatedQuoteError
  | tok (text : List Char) (quoted : Bool) (rest : List Char)
deriving Repr

theorem readPlain_len_le (k : Cfg) : ∀ (n : Nat) (l : List Char), l.length ≤ n → ∀ acc, (readPlain k l acc).2.length ≤ l.length := by
  intro n
  induction n with
  | zero =>
    intro l hl acc
    have : l = [] := by cases l <;> simp_all
    subst this; simp [readPlain]
  | succ n ihn =>
    intro l hl acc
    cases l with
    | nil => simp [readPlain]
    | cons d ds =>
      rw [readPlain]
      split
      · simp
      · split
        · simp
        · split
          · have h1 := skipComment_len ds 1
            have h2 := ihn (skipComment ds 1) (by simp at hl; omega) acc
            simp; omega
          · have h2 := ihn ds (by simp at hl; omega)
            simp; exact Nat.le_succ_of_le (h2 _)

/-- the first character of an unquoted token is neither kind of delimiter, so the loop consumes it -/
theorem readPlain_first (k : Cfg) (c : Char) (cs : List Char)
    (h1 : k.unc c = false) (h2 : k.cap c = false) :
    (readPlain k (c :: cs) []).2.length ≤ cs.length := by
  rw [readPlain]
  simp only [h1, h2, Bool.false_eq_true, if_false]
  split
  · exact Nat.le_trans (readPlain_len_le k _ _ (Nat.le_refl _) _) (skipComment_len cs 1)
  · exact readPlain_len_le k _ cs (Nat.le_refl _) _

theorem readQuoted_len (q : Char) : ∀ (n : Nat) (l acc t rest : List Char), l.length ≤ n →
    readQuoted q l acc = some (t, rest) → rest.length < l.length := by
  intro n
  induction n with
  | zero =>
    intro l acc t rest hl h
    have : l = [] := by cases l <;> simp_all
    subst this; simp [readQuoted] at h
  | succ n ihn =>
    intro l acc t rest hl h
    cases l with
    | nil => simp [readQuoted] at h
    | cons d ds =>
      rw [readQuoted.eq_def] at h
      simp only at h
      split at h
      · split at h
        · cases ds with
          | nil => simp at h; rw [← h.2]; simp
          | cons e es =>
            simp only at h
            split at h
            · have := ihn es _ t rest (by simp at hl; omega) h; simp; omega
            · simp at h; rw [← h.2]; simp
        · simp at h; rw [← h.2]; simp; omega
      · have := ihn ds _ t rest (by simp at hl; omega) h; simp; omega

/-- one call of `Tokenizer.__next__` (with the comment-only retry written as the loop of the repaired code).
Total: the retry happens on a strictly shorter input. -/
def nextT (k : Cfg) (inp : List Char) : Res :=
  match h : skipWs k inp with
  | [] => .eof
  | c :: cs =>
    if hc : k.cap c then .tok [c] false cs
    else if isQuote c then
      match readQuoted c cs [] with
      | none => .unterminated
      | some (t, rest) => .tok t true rest
    else
      let r := readPlain k (c :: cs) []
      if r.1.isEmpty then (if r.2.isEmpty then .eof else nextT k r.2) else .tok r.1 false r.2
termination_by inp.length
decreasing_by
  have h1 := skipWs_len k inp
  have h2 := readPlain_first k c cs (skipWs_head k inp c cs h) (by simpa using hc)
  rw [h] at h1
  simp only [List.length_cons] at h1
  omega

/-- **tokenizer progress**: a token is always paid for with at least one character of input -/
theorem nextT_shorter (k : Cfg) : ∀ (n : Nat) (inp : List Char), inp.length ≤ n →
    ∀ t q rest, nextT k inp = .tok t q rest → rest.length < inp.length := by
  intro n
  induction n with
  | zero =>
    intro inp hl t q rest h
    have : inp = [] := by cases inp <;> simp_all
    subst this
    rw [nextT] at h; simp [skipWs] at h
  | succ n ih =>
    intro inp hl t q rest h
    rw [nextT] at h
    have hws := skipWs_len k inp
    split at h
    · cases h
    · rename_i c cs hsk
      rw [hsk] at hws
      simp only [List.length_cons] at hws
      split at h
      · cases h; omega
      · rename_i hcap
        split at h
        · split at h
          · cases h
          · rename_i t' rest' hq
            cases h
            have := readQuoted_len c cs.length cs [] _ _ (Nat.le_refl _) hq; omega
        · have hfirst := readPlain_first k c cs (skipWs_head k inp c cs hsk) (by simpa using hcap)
          simp only at h
          split at h
          · split at h
            · cases h
            · have := ih _ (by omega) t q rest h
              omega
          · cases h; omega

theorem nextT_lt (k : Cfg) (inp : List Char) (t : List Char) (q : Bool) (rest : List Char)
    (h : nextT k inp = .tok t q rest) : rest.length < inp.length :=
  nextT_shorter k inp.length inp (Nat.le_refl _) t q rest h

/-- the whole token stream (what iterating the tokenizer to exhaustion yields): tokens with their quoted flag,
and how the stream ends (`true` = UnterminatedQuoteError, `false` = end of stream) -/
def allTokens (k : Cfg) (inp : List Char) : List (List Char × Bool) × Bool :=
  match h : nextT k inp with
  | .eof => ([], false)
  | .unterminated => ([], true)
  | .tok t q rest =>
    let r := allTokens k rest
    ((t, q) :: r.1, r.2)
termination_by inp.length
decreasing_by exact nextT_lt k inp t q rest h

/-! ### Python string helpers (ASCII + Latin-1 letters; the generators stay inside this range) -/

def upperC (c : Char) : Char :=
  if 'a' ≤ c ∧ c ≤ 'z' then Char.ofNat (c.toNat - 32) else c
def lowerC (c : Char) : Char :=
  if 'A' ≤ c ∧ c ≤ 'Z' then Char.ofNat (c.toNat + 32) else c
def upper (s : List Char) : List Char := s.map upperC
def lower (s : List Char) : List Char := s.map lowerC

def isDigitC (c : Char) : Bool := '0' ≤ c && c ≤ '9'
/-- `str.isdigit()` on ASCII input -/
def isDigitStr (s : List Char) : Bool := !s.isEmpty && s.all isDigitC
def natOfDigits (s : List Char) : Nat := s.foldl (fun a c => a * 10 + (c.toNat - 48)) 0

def isPySpace (c : Char) : Bool :=
  c == ' ' || c == '\t' || c == '\n' || c == '\r' || c == '\x0b' || c == '\x0c' || c == '\x1c' || c == '\x1d' || c == '\x1e' || c == '\x1f'

def stripL : List Char → List Char
  | [] => []
  | c :: cs => if isPySpace c then stripL cs else c :: cs
def strip (s : List Char) : List Char := (stripL (stripL s).reverse).reverse

/-- `(["_"] digit)*` : the tail of a Python digit part (`1_000`) -/
def digitsTail : List Char → List Char
  | '_' :: d :: ds => if isDigitC d then digitsTail ds else '_' :: d :: ds
  | d :: ds => if isDigitC d then digitsTail ds else d :: ds
  | [] => []

/-- a non-empty digit part; returns what follows it -/
def digitRun (s : List Char) : Option (List Char) :=
  match s with
  | d :: ds => if isDigitC d then some (digitsTail ds) else none
  | [] => none

def dropSign : List Char → List Char
  | '+' :: cs => cs
  | '-' :: cs => cs
  | cs => cs

/-- does Python's `float(s)` succeed (ASCII input)?  -/
def pyFloatOk (s : List Char) : Bool :=
  let t := dropSign (strip s)
  let lw := lower t
  if lw == "inf".toList || lw == "infinity".toList || lw == "nan".toList then true else
  -- mantissa: digits [. [digits]] | . digits
  let afterMant : Option (List Char) :=
    match digitRun t with
    | some r =>
      match r with
      | '.' :: r2 => (match digitRun r2 with
                      | some r3 => some r3
                      | none => some r2)
      | _ => some r
    | none =>
      match t with
      | '.' :: r2 => digitRun r2
      | _ => none
  match afterMant with
  | none => false
  | some [] => true
  | some (e :: r) =>
    if e == 'e' || e == 'E' then
      match digitRun (dropSign r) with
      | some [] => true
      | _ => false
    else false

end DendroModel.C20
