import DendroModel.Model.C18
/-! C18, second model file (Mathlib-free, linked into `drv_c18`): what the simulators hand to `rng.expovariate` (the *rate
trace* of a run — an intermediate observable, compared call by call with the rates the scripted generator receives),
`mean_kingman_tree` (expected waiting times instead of exponential draws) and the coalescent frames of a genealogy
(`coalescent.node_waiting_time_pairs` / `extract_coalescent_frames`).

The traces follow the event loops through the SAME one-pass functions the runs use (`bdIter`, `fbdIter`); nothing of the loops is
copied.  Rates are integers in the rate unit of the run (`birth_death_tree`, `fast_birth_death_tree`), fractions `num/den` of
such integers (`uniform_pure_birth_tree`: leaves / birth_rate) or plain numbers (`time_to_coalescence`: choose(k, 2)). -/
namespace DendroModel.C18

/-! ## closed forms (hand-written; `Props/C18.lean` proves them equal to the definitions regenerated from the source) -/

/-- `rate_of_any_event = len(extant_tips) * (birth_rate + death_rate)` -/
def fbdRate (n : Nat) (b d : Int) : Int := n * (b + d)

/-- `combinatorics.choose(k, 2)` -/
def choose2 (k : Nat) : Int := (k : Int) * ((k : Int) - 1) / 2

/-- `rng.expovariate(len(leaf_nodes) / birth_rate)`: numerator and denominator -/
def pbRate (leaves : Nat) (b : Int) : Int × Int := (leaves, b)

/-! ## rate traces -/

/-- the argument of `rng.expovariate` in one pass of the `birth_death_tree` loop (`sum(event_rates)`); `none`: the pass stops
before drawing -/
def bdRateArg (P : BDParams) (s : BDState) : Option Int :=
  if bdStop P s.extant.length s.total || xStop P s.extant.length s.extinct.length then none else some (rates s.extant).sum

/-- the rates handed to `rng.expovariate` along a run of the loop, in call order -/
def bdRateTrace (P : BDParams) : Nat → BDState → List Draw → List Int
  | 0, _, _ => []
  | f + 1, s, ds =>
    match bdRateArg P s with
    | none => []
    | some r =>
      r :: (match bdIter P s ds with
            | .ok (.cont s' ds') => bdRateTrace P f s' ds'
            | _ => [])

def bdRates (P : BDParams) (ds : List Draw) : List Int := bdRateTrace P (ds.length + 1) (bdInit P) ds

def fbdRateArg (P : BDParams) (s : FState) : Option Int :=
  if bdStop P s.extant.length s.total then none else some (fbdRate s.extant.length P.b P.d)

def fbdRateTrace (P : BDParams) : Nat → FState → List Draw → List Int
  | 0, _, _ => []
  | f + 1, s, ds =>
    match fbdRateArg P s with
    | none => []
    | some r =>
      r :: (match fbdIter P s ds with
            | .ok (.cont s' ds') => fbdRateTrace P f s' ds'
            | _ => [])

def fbdRates (P : BDParams) (ds : List Draw) : List Int := fbdRateTrace P (ds.length + 1) fInit ds

/-- `uniform_pure_birth_tree` over `n ≥ 1` taxa: the `j`-th call sees `j + 1` leaves (`n − 1` passes and the final stretch) -/
def pbRates (n : Nat) (b : Int) : List (Int × Int) := (List.range n).map (fun j => pbRate (j + 1) b)

/-- `pure_kingman_tree` over `n` taxa: the pool shrinks by one per coalescence -/
def kingRates (n : Nat) : List Int := (List.range (n - 1)).map (fun j => choose2 (n - j))

/-! ## `mean_kingman_tree`: `coalesce_nodes(..., use_expected_tmrca=True)`

With `k` lineages the waiting time is `expected_tmrca(k, pop_size) = float(1) / choose(k, 2) * pop_size` instead of a draw;
`rng.sample` still picks the pair.  Times are integers in units `1/L`; `L * pop` must be a multiple of every `choose(k, 2)`,
`2 ≤ k ≤ n` (else `arg`: the harness chose an unsuitable unit).  The run IS `kingman` on the script with the expected times
filled in, so every theorem about `kingman` applies. -/

def meanWait (L : Int) (pop k : Nat) : Int := L * pop / choose2 k

/-- the sample draws with the expected waiting times filled in (`k` = lineages left); other draws pass through unchanged (and
make `kingman` refuse, as the code would make no such call) -/
def meanScript (L : Int) (pop : Nat) : Nat → List Draw → List Draw
  | _, [] => []
  | k, .samp i j :: ds => .w (meanWait L pop k) :: .samp i j :: meanScript L pop (k - 1) ds
  | k, d :: ds => d :: meanScript L pop k ds

def meanUnitOK (L : Int) (pop n : Nat) : Bool := (List.range (n + 1)).all (fun k => k < 2 || (L * pop) % choose2 k == 0)

def Draw.isSamp : Draw → Bool
  | .samp _ _ => true
  | _ => false

def meanKingman (n pop : Nat) (L : Int) (ds : List Draw) : Except Err GT :=
  if L ≤ 0 || !meanUnitOK L pop n then .error .arg
  else if !ds.all Draw.isSamp then .error .kind
  else kingman n 1 (meanScript L pop n ds)

/-! ## coalescent frames: `node_waiting_time_pairs` / `extract_coalescent_frames`

`calc_node_ages` takes the age of an internal node from its FIRST child (age + edge length); internal nodes are sorted by age
(stable, pre-order) and each frame is `(lineages before the event, age − previous age)`. -/

namespace GT
/-- age of the node (distance to the tips below, through first children) -/
def age : GT → Int
  | leaf _ _ _ => 0
  | join _ x _ => age x + (match x with | leaf _ _ l => l | join l _ _ => l)

/-- ages of the internal nodes, pre-order -/
def ages : GT → List Int
  | leaf _ _ _ => []
  | join l x y => age (join l x y) :: (ages x ++ ages y)
end GT

def insertSorted (a : Int) : List Int → List Int
  | [] => [a]
  | b :: bs => if b ≤ a then b :: insertSorted a bs else a :: b :: bs

/-- stable ascending sort (`list.sort(key=age)`) -/
def sortAges : List Int → List Int
  | [] => []
  | a :: as => insertSorted a (sortAges as)

/-- `[(k, age_i − age_{i−1})]`, `k` counting down from the number of leaves (binary joins: one lineage fewer per event) -/
def framesFrom : Nat → Int → List Int → List (Nat × Int)
  | _, _, [] => []
  | k, prev, a :: as => (k, a - prev) :: framesFrom (k - 1) a as

def frames (t : GT) : List (Nat × Int) := framesFrom t.leaves.length 0 (sortAges t.ages)

/-! ## the `dendropy.simulate.treesim` wrapper layer: `rand_trees(rng, birth_death_tree, kwargs, n)`

The caller's keyword map is a parameter (`P`, `shared`): a function cannot write to it, so "the wrapper leaves the caller's map
alone" holds by construction in the model and is an oracle clause on the code.  What the model states is the threading of ONE
generator through the replicates: each replicate is the simulator itself, started where the previous one stopped.  With a
namespace in the map (`shared`) the replicates also share it: it has grown to `max n0 leaves` after a replicate. -/

/-- the common tail (`finish` / `finishRetain`) reading its two shuffles from the stream and leaving the rest -/
def finishS (retain : Bool) (n0 : Nat) (t : BT) (ds : List Draw) : Except Err (SimResult × List Draw) :=
  match ds with
  | .perm p1 :: .perm p2 :: rest =>
    match (if retain then finishRetain n0 t [.perm p1, .perm p2] else finish n0 t [.perm p1, .perm p2]) with
    | .ok r => .ok (r, rest)
    | .error e => .error e
  | _ => .error (if ds.length < 2 then .draws else .kind)

/-- `birth_death_tree` as a reader of a generator stream: the tree and the draws it leaves -/
def bdRunS (P : BDParams) (n0 : Nat) (ds : List Draw) : Except Err (SimResult × List Draw) :=
  match bdLoop P (ds.length + 1) (bdInit P) ds with
  | .error e => .error e
  | .ok (s, rest) => finishS P.retain n0 s.tree rest

/-- `list(rand_trees(rng, birth_death_tree, kwargs, k))` -/
def randTrees (P : BDParams) (shared : Bool) : Nat → Nat → List Draw → Except Err (List SimResult × List Draw)
  | 0, _, ds => .ok ([], ds)
  | k + 1, n0, ds =>
    match bdRunS P n0 ds with
    | .error e => .error e
    | .ok (r, mid) =>
      match randTrees P shared k (if shared then max n0 r.tree.nLeaves else n0) mid with
      | .error e => .error e
      | .ok (rs, rest) => .ok (r :: rs, rest)

end DendroModel.C18
