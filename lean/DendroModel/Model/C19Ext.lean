import DendroModel.Model.C19
/-! C19, extension: mechanisms of `CharacterMatrix` next to the row/column operations of `Model/C19.lean`
(Mathlib-free, executable; `drv_c19` runs these definitions).

* `newSubset` — `new_character_subset` / `add_character_subset` (the anchored subset-naming mechanism outside
  `concatenate`): `CharacterSubset(character_indices=…)` stores `set(indices)`, `add_character_subset` refuses a label
  that is already a key of the caseless dict, else appends it.
* `matLen`, `maxSeqSize` — `__len__`, `max_sequence_size`.
* `concatFromStreams` / `concatFromPaths` — `concatenate_from_streams` / `concatenate_from_paths` over an ABSTRACT
  reader `parse` (and `open`): the code's loop `for stream in streams: char_matrices.append(cls.get_from_stream(…))`
  followed by `cls.concatenate(char_matrices)`; `concatenate_from_paths` opens every path first
  (`streams = [open(path) for path in paths]`) and then calls `concatenate_from_streams`.
  The reader is STATELESS here: that all streams are read into one shared `TaxonNamespace`, which may grow while later
  streams are read, is modelled separately by `concatFromStreamsNS` below. -/
namespace DendroModel.C19

/-! ## `set(character_indices)`, canonically: ascending without repetition -/

def insertAsc (x : Nat) : List Nat → List Nat
  | [] => [x]
  | y :: ys => if x < y then x :: y :: ys else if x = y then y :: ys else y :: insertAsc x ys

/-- the canonical listing of `set(indices)` -/
def idxSet (idx : List Nat) : List Nat := idx.foldr insertAsc []

/-- `new_character_subset(label, character_indices)` -/
def newSubset (m : Matrix) (lab : Label) (idx : List Nat) : Except Err Matrix :=
  if hasSub m.subs lab then .error .valueError        -- "Character subset '%s' already defined"
  else .ok { m with subs := m.subs ++ [(lab, idxSet idx)] }

/-- `len(matrix)` -/
def matLen (m : Matrix) : Nat := m.rows.length

/-- `matrix.max_sequence_size` -/
def maxSeqSize (m : Matrix) : Nat := maxLen m.taxa m.rows

/-! ## element access: `matrix[taxon]`, `matrix[taxon] = values`, `del matrix[taxon]`, `new_sequence`, `clear`, `items()` -/

/-- `matrix[taxon]` (`__getitem__`): the row; a namespace taxon WITHOUT a row gets a new empty one (the observation
    mutates the matrix), a taxon outside the namespace is refused by `new_sequence` with `ValueError` -/
def getItem (m : Matrix) (t : Taxon) : Except Err (Matrix × Row) :=
  match get? t m.rows with
  | some r => .ok (m, r)
  | none =>
    if m.taxa.contains t then .ok ({ m with rows := set t [] m.rows }, [])
    else .error .valueError

/-- `matrix[taxon] = values` (`__setitem__`) -/
def setItem (m : Matrix) (t : Taxon) (row : Row) : Except Err Matrix :=
  if m.taxa.contains t then .ok { m with rows := set t row m.rows } else .error .valueError

/-- `matrix.new_sequence(taxon, values)` -/
def newSequence (m : Matrix) (t : Taxon) (row : Row) : Except Err Matrix :=
  if has t m.rows then .error .valueError            -- "Character values vector for taxon … already exists"
  else if m.taxa.contains t then .ok { m with rows := set t row m.rows }
  else .error .valueError                           -- "Taxon … is not in object taxon namespace"

/-- `del matrix[taxon]` (`__delitem__`) -/
def delItem (m : Matrix) (t : Taxon) : Except Err Matrix :=
  if has t m.rows then .ok { m with rows := del t m.rows } else .error .keyError

/-- `matrix.clear()` -/
def clearRows (m : Matrix) : Matrix := { m with rows := [] }

/-- `matrix.items()` / `for t in matrix` / `matrix.values()`: namespace order, taxa that have a row -/
def itemsOf (m : Matrix) : List (Taxon × Row) := items m.taxa m.rows

/-! ## reading and concatenating -/

inductive SErr where
  | openError (i : Nat)      -- `open(path)` failed for path number `i`
  | parseError (i : Nat)     -- the reader failed on stream number `i`
  | concat (e : Err)         -- `concatenate` refused the parsed matrices
deriving DecidableEq, Repr

/-- `for stream in streams: char_matrices.append(cls.get_from_stream(stream, …))` -/
def parseLoop {σ : Type} (parse : σ → Option Matrix) : List Matrix → Nat → List σ → Except SErr (List Matrix)
  | acc, _, [] => .ok acc
  | acc, i, s :: ss =>
    match parse s with
    | none => .error (.parseError i)
    | some m => parseLoop parse (acc ++ [m]) (i + 1) ss

/-- `concatenate_from_streams` -/
def concatFromStreams {σ : Type} (parse : σ → Option Matrix) (streams : List σ) : Except SErr Matrix :=
  match parseLoop parse [] 0 streams with
  | .error e => .error e
  | .ok ms =>
    match concatenate ms with
    | .ok r => .ok r
    | .error e => .error (.concat e)

/-- `streams = [open(path) for path in paths]` -/
def openLoop {π σ : Type} (opn : π → Option σ) : List σ → Nat → List π → Except SErr (List σ)
  | acc, _, [] => .ok acc
  | acc, i, p :: ps =>
    match opn p with
    | none => .error (.openError i)
    | some s => openLoop opn (acc ++ [s]) (i + 1) ps

/-- `concatenate_from_paths` -/
def concatFromPaths {π σ : Type} (opn : π → Option σ) (parse : σ → Option Matrix) (paths : List π) :
    Except SErr Matrix :=
  match openLoop opn [] 0 paths with
  | .error e => .error e
  | .ok streams => concatFromStreams parse streams

end DendroModel.C19

/-! ## histories: the operations that change ONE matrix, as data, and their sequential execution -/
namespace DendroModel.C19

/-- one mutating call on a matrix; `o` is the other matrix as it is at the time of the call -/
inductive Op where
  | add (o : Matrix) | replace (o : Matrix) | update (o : Matrix)
  | extend (addNew : Bool) (o : Matrix) | extendMatrix (o : Matrix)
  | remove (taxa : List Taxon) | discard (taxa : List Taxon) | keep (taxa : List Taxon)
  | fill (v : Cell) (size : Option Nat) (app : Bool) | fillTaxa | pack (v : Cell) (size : Option Nat) (app : Bool)
  | newSubset (lab : Label) (idx : List Nat)
  | getItem (t : Taxon) | setItem (t : Taxon) (row : Row) | newSequence (t : Taxon) (row : Row) | delItem (t : Taxon)
  | clear

/-- a call that raises before touching anything leaves the matrix as it was -/
def orSelf (m : Matrix) : Except Err Matrix → Matrix
  | .ok r => r
  | .error _ => m

/-- the matrix after one call (a refused call changes nothing; `remove_sequences` that raises keeps its partial work) -/
def step (m : Matrix) : Op → Matrix
  | .add o => orSelf m (rowOp addSeqs m o)
  | .replace o => orSelf m (rowOp replaceSeqs m o)
  | .update o => orSelf m (rowOp updateSeqs m o)
  | .extend b o => orSelf m (rowOp (extendSeqs b) m o)
  | .extendMatrix o => orSelf m (rowOp extendMatrix m o)
  | .remove taxa => { m with rows := (removeSeqs taxa m.rows).1 }
  | .discard taxa => { m with rows := discardSeqs taxa m.rows }
  | .keep taxa => { m with rows := keepSeqs taxa m.rows }
  | .fill v size app => { m with rows := fillRows v size app m.taxa m.rows }
  | .fillTaxa => { m with rows := fillTaxa m.taxa m.rows }
  | .pack v size app => { m with rows := packRows v size app m.taxa m.rows }
  | .newSubset lab idx => orSelf m (newSubset m lab idx)
  | .getItem t => match getItem m t with
    | .ok (m', _) => m'
    | .error _ => m
  | .setItem t row => orSelf m (setItem m t row)
  | .newSequence t row => orSelf m (newSequence m t row)
  | .delItem t => orSelf m (delItem m t)
  | .clear => clearRows m

/-- a history: the calls one after the other -/
def run (m : Matrix) (ops : List Op) : Matrix := ops.foldl step m

end DendroModel.C19

/-! ## `concatenate_from_streams` with the SHARED, GROWING namespace -/
namespace DendroModel.C19

/-- what the reader delivers for one stream -/
structure Parsed where
  label : Option Label
  rows : Rows

/-- reading rows into the shared namespace: a taxon that is not yet a member is appended, in order of appearance -/
def growTaxa (taxa : List Taxon) (rows : Rows) : List Taxon :=
  rows.foldl (fun acc kv => if acc.contains kv.1 then acc else acc ++ [kv.1]) taxa

/-- `for stream in streams: char_matrices.append(cls.get_from_stream(stream, taxon_namespace=tns))` -/
def readLoopNS {σ : Type} (parse : σ → Option Parsed) :
    List Taxon → List Parsed → Nat → List σ → Except SErr (List Taxon × List Parsed)
  | taxa, acc, _, [] => .ok (taxa, acc)
  | taxa, acc, i, s :: ss =>
    match parse s with
    | none => .error (.parseError i)
    | some p => readLoopNS parse (growTaxa taxa p.rows) (acc ++ [p]) (i + 1) ss

/-- every matrix read refers to the ONE namespace object, hence to its final member list -/
def asMatrix (ns : Nat) (taxa : List Taxon) (p : Parsed) : Matrix :=
  { ns := ns, taxa := taxa, label := p.label, rows := p.rows, subs := [] }

def concatFromStreamsNS {σ : Type} (ns : Nat) (parse : σ → Option Parsed) (streams : List σ) : Except SErr Matrix :=
  match readLoopNS parse [] [] 0 streams with
  | .error e => .error e
  | .ok (taxa, ps) =>
    match concatenate (ps.map (asMatrix ns taxa)) with
    | .ok r => .ok r
    | .error e => .error (.concat e)

end DendroModel.C19
